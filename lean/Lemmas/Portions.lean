import Lemmas.Allocate
import Lemmas.SpecInv
/-! Portions: `allocate` splits ANY integer amount exactly (no sign condition), and what `newAllotment` /
`resolvePortions` build sums to one whenever a `remaining` entry is present (or the given entries already do). -/
namespace Num

/-- `floors_bounds` of `Lemmas/Allocate.lean` without the sign hypothesis on `n` -/
theorem floors_bounds_any (ps : List Rat') (n : Int) (h : PosDen ps) :
    ((ratSum ps).2 : Int) * (floors ps n).sum ≤ n * (ratSum ps).1 ∧
    (n * (ratSum ps).1 < (ratSum ps).2 * ((floors ps n).sum + ps.length) ∨ (ps = [] )) := by
  induction ps with
  | nil => simp [floors, ratSum]
  | cons r rs ih =>
    have hr : 0 < r.den := h r List.mem_cons_self
    have hrs : PosDen rs := fun p hp => h p (List.mem_cons_of_mem _ hp)
    obtain ⟨ih1, ih2⟩ := ih hrs
    have hd := ratSum_den_pos rs hrs
    have hdI : (0 : Int) < ((ratSum rs).2 : Int) := by exact_mod_cast hd
    have hrI : (0 : Int) < (r.den : Int) := by exact_mod_cast hr
    have hq1 : (r.den : Int) * ((n * r.num) / r.den) ≤ n * r.num := Int.mul_ediv_self_le (by omega)
    have hq2 : n * r.num < (r.den : Int) * ((n * r.num) / r.den + 1) := by
      have := Int.lt_ediv_add_one_mul_self (n * r.num) hrI
      linarith
    simp only [floors, List.map_cons, List.sum_cons, ratSum, List.length_cons] at *
    push_cast
    refine ⟨by nlinarith, Or.inl ?_⟩
    rcases ih2 with ih2 | rfl
    · nlinarith
    · simp [ratSum] at *
      nlinarith

/-- portions that add up to one split any amount (negative ones too) with nothing lost or created -/
theorem allocate_sum_any (ps : List Rat') (n : Int) (h : PosDen ps)
    (hone : (ratSum ps).1 = (ratSum ps).2) (hne : ps ≠ []) : (allocate ps n).sum = n := by
  obtain ⟨h1, h2⟩ := floors_bounds_any ps n h
  have hd := ratSum_den_pos ps h
  have hdI : (0 : Int) < ((ratSum ps).2 : Int) := by exact_mod_cast hd
  rw [hone] at h1 h2
  have hle : (floors ps n).sum ≤ n := by nlinarith
  have hlt : n < (floors ps n).sum + ps.length := by
    rcases h2 with h2 | h2
    · nlinarith
    · exact absurd h2 hne
  unfold allocate
  have hlen : (floors ps n).length = ps.length := by simp [floors]
  have := bumpLoop_sum n (floors ps n) (floors ps n).sum hle (by rw [hlen]; omega)
  simp only [floors] at this ⊢
  rw [this]; omega

theorem ne_nil_of_sum_one {ps : List Rat'} (hone : (ratSum ps).1 = (ratSum ps).2) : ps ≠ [] := by
  intro h; subst h; simp [ratSum] at hone

/-! ### `ratSum` does not care where an entry is inserted -/

theorem ratSum_insert (l1 l2 : List Rat') (x : Rat') :
    (ratSum (l1 ++ x :: l2)).1 = x.num * (ratSum (l1 ++ l2)).2 + (ratSum (l1 ++ l2)).1 * x.den ∧
    (ratSum (l1 ++ x :: l2)).2 = x.den * (ratSum (l1 ++ l2)).2 := by
  induction l1 with
  | nil => simp [ratSum]
  | cons r l1 ih =>
    obtain ⟨ih1, ih2⟩ := ih
    simp only [List.cons_append, ratSum, ih1, ih2]
    constructor <;> ring1

/-! ### `newAllotment` -/

/-- what `newAllotment` puts in place of `remaining` -/
def fillRat (x : Rat') : Option Rat' → Rat'
  | some r => r
  | none => x

theorem newAllotment_inv {sp : List (Option Rat')} {rs : List Rat'} (h : newAllotment sp = some rs) :
    sp.length - (sp.filterMap id).length ≤ 1 ∧ (ratSum (sp.filterMap id)).1 ≤ (ratSum (sp.filterMap id)).2 ∧
      rs = sp.map (fillRat ⟨(ratSum (sp.filterMap id)).2 - (ratSum (sp.filterMap id)).1, (ratSum (sp.filterMap id)).2⟩) := by
  unfold newAllotment at h
  simp only at h
  by_cases h1 : sp.length - (sp.filterMap id).length > 1
  · simp [h1] at h
  · simp only [h1, if_false] at h
    by_cases h2 : (ratSum (sp.filterMap id)).1 > (ratSum (sp.filterMap id)).2
    · simp [h2] at h
    · simp only [h2, if_false, Option.some.injEq] at h
      refine ⟨by omega, by omega, ?_⟩
      rw [← h]
      apply List.map_congr_left
      intro p _
      cases p <;> rfl

theorem newAllotment_length {sp : List (Option Rat')} {rs : List Rat'} (h : newAllotment sp = some rs) :
    rs.length = sp.length := by
  rw [(newAllotment_inv h).2.2]; simp

theorem filterMap_id_none (sp : List (Option Rat')) : (none :: sp).filterMap id = sp.filterMap id := rfl
theorem filterMap_id_some (r : Rat') (sp : List (Option Rat')) :
    (some r :: sp).filterMap id = r :: sp.filterMap id := rfl

theorem fill_full (x : Rat') (sp : List (Option Rat')) (h : (sp.filterMap id).length = sp.length) :
    sp.map (fillRat x) = sp.filterMap id := by
  induction sp with
  | nil => rfl
  | cons p sp ih =>
    have hle := List.length_filterMap_le id sp
    cases p with
    | none => rw [filterMap_id_none, List.length_cons] at h; omega
    | some r =>
      rw [filterMap_id_some, List.length_cons, List.length_cons] at h
      rw [filterMap_id_some, List.map_cons, ih (by omega)]; rfl

theorem fill_one (x : Rat') (sp : List (Option Rat')) (h : sp.length = (sp.filterMap id).length + 1) :
    ∃ l1 l2, sp.map (fillRat x) = l1 ++ x :: l2 ∧ sp.filterMap id = l1 ++ l2 := by
  induction sp with
  | nil => simp at h
  | cons p sp ih =>
    cases p with
    | none =>
      rw [filterMap_id_none, List.length_cons] at h
      refine ⟨[], sp.filterMap id, ?_, by rw [filterMap_id_none]; rfl⟩
      rw [List.map_cons, fill_full x sp (by omega)]; rfl
    | some r =>
      rw [filterMap_id_some, List.length_cons, List.length_cons] at h
      obtain ⟨l1, l2, h1, h2⟩ := ih (by omega)
      exact ⟨r :: l1, l2, by rw [List.map_cons, h1]; rfl, by rw [filterMap_id_some, h2]; rfl⟩

theorem length_lt_of_none_mem (sp : List (Option Rat')) (hrem : none ∈ sp) :
    (sp.filterMap id).length < sp.length := by
  induction sp with
  | nil => simp at hrem
  | cons p sp ih =>
    have hle := List.length_filterMap_le id sp
    cases p with
    | none => rw [filterMap_id_none, List.length_cons]; omega
    | some r =>
      have hrem' : none ∈ sp := by
        rcases List.mem_cons.mp hrem with h | h
        · cases h
        · exact h
      have := ih hrem'
      rw [filterMap_id_some, List.length_cons, List.length_cons]; omega

theorem length_eq_of_none_not_mem (sp : List (Option Rat')) (hrem : none ∉ sp) :
    (sp.filterMap id).length = sp.length := by
  induction sp with
  | nil => rfl
  | cons p sp ih =>
    cases p with
    | none => exact absurd List.mem_cons_self hrem
    | some r =>
      have := ih (fun h => hrem (List.mem_cons_of_mem _ h))
      rw [filterMap_id_some, List.length_cons, List.length_cons, this]

/-- with a `remaining` entry present, the portions `newAllotment` builds add up to exactly one -/
theorem newAllotment_sum_one_of_remaining {sp : List (Option Rat')} {rs : List Rat'} (h : newAllotment sp = some rs)
    (hrem : none ∈ sp) : (ratSum rs).1 = (ratSum rs).2 := by
  obtain ⟨h1, h2, rfl⟩ := newAllotment_inv h
  have hlt := length_lt_of_none_mem sp hrem
  obtain ⟨l1, l2, e1, e2⟩ := fill_one ⟨(ratSum (sp.filterMap id)).2 - (ratSum (sp.filterMap id)).1,
    (ratSum (sp.filterMap id)).2⟩ sp (by omega)
  obtain ⟨i1, i2⟩ := ratSum_insert l1 l2 ⟨(ratSum (sp.filterMap id)).2 - (ratSum (sp.filterMap id)).1,
    (ratSum (sp.filterMap id)).2⟩
  rw [e1, i1, i2, ← e2]
  simp only
  rw [← Nat.add_mul, Nat.sub_add_cancel h2]

/-- without a `remaining` entry the portions are the given ones -/
theorem newAllotment_of_no_remaining {sp : List (Option Rat')} {rs : List Rat'} (h : newAllotment sp = some rs)
    (hrem : none ∉ sp) : rs = sp.filterMap id := by
  obtain ⟨_, _, rfl⟩ := newAllotment_inv h
  exact fill_full _ sp (length_eq_of_none_not_mem sp hrem)

/-- denominators stay positive -/
theorem newAllotment_posDen {sp : List (Option Rat')} {rs : List Rat'} (h : newAllotment sp = some rs)
    (hpos : PosDen (sp.filterMap id)) : PosDen rs := by
  obtain ⟨_, _, rfl⟩ := newAllotment_inv h
  have hd := ratSum_den_pos _ hpos
  intro r hr
  obtain ⟨p, hp, rfl⟩ := List.mem_map.mp hr
  cases p with
  | none => exact hd
  | some q => exact hpos q (by simp; exact hp)

/-! ### `resolvePortions` -/

/-- one portion of the text resolved against the variables (`none` = `remaining`) -/
def specOf (env : VEnv) : PortionSpec → Except Err (Option Rat')
  | .const r => .ok (some r)
  | .badConst => .error .compile
  | .var n => match lookupVar env n with
    | some (.portion r) => .ok (some r)
    | _ => .error .compile
  | .remaining => .ok none

theorem resolvePortions_eq (env : VEnv) (ps : List PortionSpec) :
    resolvePortions env ps = (match ps.mapM (specOf env) with
      | .error er => .error er
      | .ok sp => match newAllotment sp with
        | none => .error .invalidScript
        | some rs => .ok rs) := rfl

theorem resolvePortions_inv {env : VEnv} {ps : List PortionSpec} {rs : List Rat'}
    (h : resolvePortions env ps = .ok rs) : ∃ sp, ps.mapM (specOf env) = .ok sp ∧ newAllotment sp = some rs := by
  rw [resolvePortions_eq] at h
  cases hm : ps.mapM (specOf env) with
  | error er => simp [hm] at h
  | ok sp =>
    simp only [hm] at h
    cases hn : newAllotment sp with
    | none => simp [hn] at h
    | some rs' =>
      simp only [hn, Except.ok.injEq] at h
      exact ⟨sp, rfl, by rw [← h]; exact hn⟩

theorem mapM_cons_ok {α β : Type} {f : α → Except Err β} {a : α} {l : List α} {r : List β}
    (h : (a :: l).mapM f = .ok r) : ∃ y ys, f a = .ok y ∧ l.mapM f = .ok ys ∧ r = y :: ys := by
  rw [List.mapM_cons] at h
  cases hy : f a with
  | error er => simp [hy, bind, Except.bind] at h
  | ok y =>
    cases hys : l.mapM f with
    | error er => simp [hy, hys, bind, Except.bind] at h
    | ok ys =>
      simp [hy, hys, bind, Except.bind, pure, Except.pure] at h
      exact ⟨y, ys, rfl, rfl, h.symm⟩

theorem specs_length {env : VEnv} : (ps : List PortionSpec) → (sp : List (Option Rat')) →
    ps.mapM (specOf env) = .ok sp → sp.length = ps.length
  | [], sp, h => by simp [pure, Except.pure] at h; subst h; rfl
  | p :: ps, sp, h => by
    obtain ⟨y, ys, _, h2, rfl⟩ := mapM_cons_ok h
    simp [specs_length ps ys h2]

theorem specs_remaining {env : VEnv} : (ps : List PortionSpec) → (sp : List (Option Rat')) →
    ps.mapM (specOf env) = .ok sp → (none ∈ sp ↔ PortionSpec.remaining ∈ ps)
  | [], sp, h => by simp [pure, Except.pure] at h; subst h; simp
  | p :: ps, sp, h => by
    obtain ⟨y, ys, h1, h2, rfl⟩ := mapM_cons_ok h
    have ih := specs_remaining ps ys h2
    cases p with
    | const r => simp [specOf] at h1; subst h1; simp [ih]
    | badConst => simp [specOf] at h1
    | var n =>
      simp only [specOf] at h1
      split at h1
      · simp at h1; subst h1; simp [ih]
      · cases h1
    | remaining => simp [specOf] at h1; subst h1; simp

theorem resolvePortions_length {env : VEnv} {ps : List PortionSpec} {rs : List Rat'}
    (h : resolvePortions env ps = .ok rs) : rs.length = ps.length := by
  obtain ⟨sp, h1, h2⟩ := resolvePortions_inv h
  rw [newAllotment_length h2, specs_length ps sp h1]

/-- a portion list with a `remaining` entry always resolves to portions that add up to one -/
theorem resolvePortions_sum_one_of_remaining {env : VEnv} {ps : List PortionSpec} {rs : List Rat'}
    (h : resolvePortions env ps = .ok rs) (hrem : PortionSpec.remaining ∈ ps) : (ratSum rs).1 = (ratSum rs).2 := by
  obtain ⟨sp, h1, h2⟩ := resolvePortions_inv h
  exact newAllotment_sum_one_of_remaining h2 ((specs_remaining ps sp h1).mpr hrem)

/-! ### accepted scripts: `checkPortions` guarantees a total of exactly one -/

def constOf : PortionSpec → Option Rat' | .const r => some r | _ => none
def isBadSpec : PortionSpec → Bool | .badConst => true | _ => false
def isVarSpec : PortionSpec → Bool | .var _ => true | _ => false
def isRemSpec : PortionSpec → Bool | .remaining => true | _ => false
def varSpecOk (Γ : TEnv) : PortionSpec → Bool
  | .var n => tyOf Γ (.var n) = some .portion
  | _ => true

theorem checkPortions_eq (Γ : TEnv) (ps : List PortionSpec) :
    checkPortions Γ ps =
      (!ps.any isBadSpec && ps.all (varSpecOk Γ) && decide ((ps.filter isRemSpec).length ≤ 1) &&
        decide ((ratSum (ps.filterMap constOf)).1 ≤ (ratSum (ps.filterMap constOf)).2) &&
        (if (ratSum (ps.filterMap constOf)).1 < (ratSum (ps.filterMap constOf)).2
          then decide ((ps.filter isRemSpec).length = 1)
          else !ps.any isVarSpec && decide ((ps.filter isRemSpec).length = 0))) := rfl

theorem specs_all_const {env : VEnv} : (ps : List PortionSpec) → (sp : List (Option Rat')) →
    ps.mapM (specOf env) = .ok sp → (∀ p ∈ ps, ∃ r, p = .const r) →
    none ∉ sp ∧ sp.filterMap id = ps.filterMap constOf
  | [], sp, h, _ => by simp [pure, Except.pure] at h; subst h; simp
  | p :: ps, sp, h, hall => by
    obtain ⟨y, ys, h1, h2, rfl⟩ := mapM_cons_ok h
    obtain ⟨r, rfl⟩ := hall p List.mem_cons_self
    obtain ⟨ih1, ih2⟩ := specs_all_const ps ys h2 (fun q hq => hall q (List.mem_cons_of_mem _ hq))
    simp only [specOf, Except.ok.injEq] at h1
    subst h1
    refine ⟨?_, ?_⟩
    · intro hm
      rcases List.mem_cons.mp hm with hm | hm
      · cases hm
      · exact ih1 hm
    · rw [filterMap_id_some, ih2]; rfl

/-- for every portion list the compiler accepts (`checkPortions`), what `resolvePortions` yields adds up to
exactly one: either a `remaining` entry fills the gap, or the list is all constants adding up to one -/
theorem resolvePortions_sum_one_of_checked {Γ : TEnv} {env : VEnv} {ps : List PortionSpec} {rs : List Rat'}
    (hc : checkPortions Γ ps = true) (h : resolvePortions env ps = .ok rs) : (ratSum rs).1 = (ratSum rs).2 := by
  by_cases hrem : PortionSpec.remaining ∈ ps
  · exact resolvePortions_sum_one_of_remaining h hrem
  · obtain ⟨sp, h1, h2⟩ := resolvePortions_inv h
    rw [checkPortions_eq] at hc
    simp only [Bool.and_eq_true, Bool.not_eq_true', decide_eq_true_eq] at hc
    obtain ⟨⟨⟨⟨hbad, _⟩, _⟩, hle⟩, hif⟩ := hc
    have hn0 : (ps.filter isRemSpec).length = 0 := by
      rw [List.length_eq_zero_iff, List.filter_eq_nil_iff]
      intro p hp
      cases p with
      | remaining => exact absurd hp hrem
      | _ => simp [isRemSpec]
    rw [hn0] at hif
    split at hif
    · simp at hif
    · rename_i hlt
      simp only [Bool.and_eq_true, Bool.not_eq_true', decide_eq_true_eq, and_true] at hif
      have hall : ∀ p ∈ ps, ∃ r, p = .const r := by
        intro p hp
        cases p with
        | const r => exact ⟨r, rfl⟩
        | badConst =>
          have := List.any_eq_false.mp hbad _ hp
          simp [isBadSpec] at this
        | var n =>
          have := List.any_eq_false.mp hif _ hp
          simp [isVarSpec] at this
        | remaining => exact absurd hp hrem
      obtain ⟨a1, a2⟩ := specs_all_const ps sp h1 hall
      rw [newAllotment_of_no_remaining h2 a1, a2]
      omega

/-- denominators: positive in the text and in the variables ⇒ positive in what `resolvePortions` yields -/
theorem specs_posDen {env : VEnv} (hv : ∀ n r, lookupVar env n = some (.portion r) → 0 < r.den) :
    (ps : List PortionSpec) → (sp : List (Option Rat')) → ps.mapM (specOf env) = .ok sp →
    (∀ r, PortionSpec.const r ∈ ps → 0 < r.den) → PosDen (sp.filterMap id)
  | [], sp, h, _ => by simp [pure, Except.pure] at h; subst h; intro r hr; simp at hr
  | p :: ps, sp, h, hc => by
    obtain ⟨y, ys, h1, h2, rfl⟩ := mapM_cons_ok h
    have ih := specs_posDen hv ps ys h2 (fun r hr => hc r (List.mem_cons_of_mem _ hr))
    cases y with
    | none => rw [filterMap_id_none]; exact ih
    | some q =>
      rw [filterMap_id_some]
      intro r hr
      rcases List.mem_cons.mp hr with rfl | hr
      · cases p with
        | const r' =>
          simp only [specOf, Except.ok.injEq, Option.some.injEq] at h1
          subst h1; exact hc _ List.mem_cons_self
        | badConst => simp [specOf] at h1
        | var n =>
          simp only [specOf] at h1
          split at h1
          · rename_i r' hl
            simp only [Except.ok.injEq, Option.some.injEq] at h1
            subst h1; exact hv n _ hl
          · cases h1
        | remaining => simp [specOf] at h1
      · exact ih r hr

theorem resolvePortions_posDen {env : VEnv} {ps : List PortionSpec} {rs : List Rat'}
    (h : resolvePortions env ps = .ok rs) (hv : ∀ n r, lookupVar env n = some (.portion r) → 0 < r.den)
    (hc : ∀ r, PortionSpec.const r ∈ ps → 0 < r.den) : PosDen rs := by
  obtain ⟨sp, h1, h2⟩ := resolvePortions_inv h
  exact newAllotment_posDen h2 (specs_posDen hv ps sp h1 hc)

end Num
