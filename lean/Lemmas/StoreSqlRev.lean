import Lemmas.StoreSqlHist
import Lemmas.StoreSqlSane
/-! C04 stage 2, layer 2e: **the revision rows of one base row** (`histOf`), and what the `update` / `insert` of a base row with
its history trigger does to them: the updated row gets one more revision, numbered one more than its greatest, carrying the
row's new metadata; the revisions of every other row stay as they are (the `seq` of a base row is unique). -/
namespace StoreSql
open Sql Schema Store

/-- the (revision, metadata) pairs of base row `s`, in table order -/
def histOf (hs : List AMeta) (s : Nat) : List (Val × Kvs) := (hs.filter (fun h => h.base == s)).map (fun h => (h.revision, h.md))

def nextRevP (H : List (Val × Kvs)) : Val := col (pickBest (lexBefore revKey) none H) (fun r => Val.add r.1 (.int 1))

theorem nextRev_eq (hs : List AMeta) (s : Nat) : nextRevA hs s = nextRevP (histOf hs s) := by
  unfold nextRevA nextRevP histOf selectFirst
  have h1 : (fun r : AMeta => truthy (Val.bool (r.base == s))) = (fun h => h.base == s) := by funext r; simp
  rw [h1]
  have := pickBest_map (fun h : AMeta => (h.revision, h.md)) (lexBefore revKey) none (hs.filter (fun h => h.base == s))
  simp only [Option.map_none] at this
  rw [this, col_map]
  rfl

theorem nextRevT_eq (hs : List AMeta) (s : Nat) : nextRevT hs s = nextRevP (histOf hs s) := nextRev_eq hs s

theorem nextRevP_ok {H : List (Val × Kvs)} {k : Int} {vals : List Kvs} (h : HistOk H k vals) : nextRevP H = .int k := by
  have := h.max
  unfold nextRevP
  cases hb : pickBest (lexBefore revKey) none H with
  | none => rw [hb] at this; cases this
  | some b =>
    rw [hb] at this
    simp only [Option.map_some, Option.some.injEq] at this
    simp only [col_some, this, add_int_int]
    congr 1; omega

theorem histOf_append_one (hs : List AMeta) (h : AMeta) (s : Nat) :
    histOf (hs ++ [h]) s = if h.base == s then histOf hs s ++ [(h.revision, h.md)] else histOf hs s := by
  unfold histOf
  by_cases hb : (h.base == s) = true <;> simp [List.filter_append, hb]

theorem histOf_append_other (hs hs' : List AMeta) (s : Nat) (h : ∀ x ∈ hs', x.base ≠ s) : histOf (hs ++ hs') s = histOf hs s := by
  unfold histOf
  rw [List.filter_append, filter_none hs' _ (fun x hx => by simp [h x hx])]
  simp
where filter_none {α} (xs : List α) (p : α → Bool) (h : ∀ r ∈ xs, p r = false) : xs.filter p = [] :=
  List.filter_eq_nil_iff.mpr (fun r hr => by simp [h r hr])

-- ---------------------------------------------------------------- the update trigger on transactions

theorem foldl_txUpdHist_hist (rows : List ATx) (A : ADB) (hd : rows.Pairwise (fun a b => a.seq ≠ b.seq)) (s : Nat) :
    histOf (rows.foldl aTxUpdHist A).txMeta s =
      match rows.find? (fun r => r.seq == s) with
      | some r => histOf A.txMeta s ++ [(nextRevP (histOf A.txMeta s), r.md)]
      | none => histOf A.txMeta s := by
  induction rows generalizing A with
  | nil => rfl
  | cons r rs ih =>
    rw [List.pairwise_cons] at hd
    rw [List.foldl_cons, ih _ hd.2]
    have h1 : histOf (aTxUpdHist A r).txMeta s =
        if r.seq == s then histOf A.txMeta s ++ [(nextRevP (histOf A.txMeta s), r.md)] else histOf A.txMeta s := by
      simp only [aTxUpdHist, histOf_append_one]
      by_cases hs : (r.seq == s) = true
      · simp only [hs, if_true]
        have : r.seq = s := by simpa using hs
        rw [nextRevT_eq, this]
      · simp [hs]
    by_cases hs : (r.seq == s) = true
    · have hs' : r.seq = s := by simpa using hs
      have hnone : rs.find? (fun r => r.seq == s) = none := by
        rw [List.find?_eq_none]
        intro x hx
        have := hd.1 x hx
        simp only [beq_iff_eq]
        intro e; exact this (hs'.trans e.symm)
      simp only [hnone, List.find?_cons, hs, h1, if_true]
    · simp only [List.find?_cons, hs, h1]
      simp

/-- `update transactions set … where p` (with its history trigger), seen from one row `t` of the table -/
theorem aUpdateTxs_hist (A : ADB) (p : ATx → Bool) (u : ATx → ATx) (hu : ∀ r, (u r).seq = r.seq) (hs : Sane A) (t : ATx) (ht : t ∈ A.txs) :
    histOf (aUpdateTxs A p u).txMeta t.seq =
      if p t then histOf A.txMeta t.seq ++ [(nextRevP (histOf A.txMeta t.seq), (u t).md)] else histOf A.txMeta t.seq := by
  unfold aUpdateTxs
  have hd : ((A.txs.filter p).map u).Pairwise (fun a b => a.seq ≠ b.seq) := by
    rw [List.pairwise_map]
    exact (hs.tx_seq.filter p).imp (fun {a b} hab => by rw [hu a, hu b]; omega)
  rw [foldl_txUpdHist_hist _ _ hd]
  by_cases hp : p t = true
  · have : ((A.txs.filter p).map u).find? (fun r => r.seq == t.seq) = some (u t) := by
      rw [List.find?_map]
      have hf : (A.txs.filter p).find? ((fun r => r.seq == t.seq) ∘ u) = some t := by
        rw [List.find?_eq_some_iff_append]
        have hmem : t ∈ A.txs.filter p := List.mem_filter.mpr ⟨ht, hp⟩
        obtain ⟨as, bs, e⟩ := List.append_of_mem hmem
        refine ⟨by simp [hu t], as, bs, e, ?_⟩
        intro x hx
        have hx' : x ∈ A.txs.filter p := by rw [e]; exact List.mem_append_left _ hx
        simp only [Function.comp, hu x, Bool.not_eq_true', beq_eq_false_iff_ne, ne_eq]
        intro e2
        have hxt : x = t := pairwise_lt_inj hs.tx_seq (List.mem_filter.mp hx').1 ht e2
        subst hxt
        -- `x` occurs before itself in a list without repetitions
        have hnd : (A.txs.filter p).Pairwise (fun a b => a.seq < b.seq) := hs.tx_seq.filter p
        rw [e, List.pairwise_append] at hnd
        have := hnd.2.2 x hx x (List.mem_cons_self ..)
        omega
      rw [hf]; rfl
    simp only [this, hp, if_true]
  · have : ((A.txs.filter p).map u).find? (fun r => r.seq == t.seq) = none := by
      rw [List.find?_eq_none]
      intro x hx
      obtain ⟨x0, hx0, rfl⟩ := List.mem_map.mp hx
      rw [List.mem_filter] at hx0
      simp only [hu x0, beq_iff_eq]
      intro e
      have := pairwise_lt_inj hs.tx_seq hx0.1 ht e
      subst this
      exact hp hx0.2
    simp only [this, hp]
    simp

-- ---------------------------------------------------------------- the update trigger on accounts

theorem foldl_acctUpdHist_hist (rows : List AAcct) (A : ADB) (hd : rows.Pairwise (fun a b => a.seq ≠ b.seq)) (s : Nat) :
    histOf (rows.foldl aAcctUpdHist A).acctMeta s =
      match rows.find? (fun r => r.seq == s) with
      | some r => histOf A.acctMeta s ++ [(nextRevP (histOf A.acctMeta s), r.md)]
      | none => histOf A.acctMeta s := by
  induction rows generalizing A with
  | nil => rfl
  | cons r rs ih =>
    rw [List.pairwise_cons] at hd
    rw [List.foldl_cons, ih _ hd.2]
    have h1 : histOf (aAcctUpdHist A r).acctMeta s =
        if r.seq == s then histOf A.acctMeta s ++ [(nextRevP (histOf A.acctMeta s), r.md)] else histOf A.acctMeta s := by
      simp only [aAcctUpdHist, histOf_append_one]
      by_cases hs : (r.seq == s) = true
      · simp only [hs, if_true]
        have : r.seq = s := by simpa using hs
        rw [nextRev_eq, this]
      · simp [hs]
    by_cases hs : (r.seq == s) = true
    · have hs' : r.seq = s := by simpa using hs
      have hnone : rs.find? (fun r => r.seq == s) = none := by
        rw [List.find?_eq_none]
        intro x hx
        have := hd.1 x hx
        simp only [beq_iff_eq]
        intro e; exact this (hs'.trans e.symm)
      simp only [hnone, List.find?_cons, hs, h1, if_true]
    · simp only [List.find?_cons, hs, h1]
      simp

theorem aUpdateAccounts_hist (A : ADB) (p : AAcct → Bool) (u : AAcct → AAcct) (hu : ∀ r, (u r).seq = r.seq) (hs : Sane A) (t : AAcct)
    (ht : t ∈ A.accounts) :
    histOf (aUpdateAccounts A p u).acctMeta t.seq =
      if p t then histOf A.acctMeta t.seq ++ [(nextRevP (histOf A.acctMeta t.seq), (u t).md)] else histOf A.acctMeta t.seq := by
  unfold aUpdateAccounts
  have hd : ((A.accounts.filter p).map u).Pairwise (fun a b => a.seq ≠ b.seq) := by
    rw [List.pairwise_map]
    exact (hs.acct_seq.filter p).imp (fun {a b} hab => by rw [hu a, hu b]; omega)
  rw [foldl_acctUpdHist_hist _ _ hd]
  by_cases hp : p t = true
  · have : ((A.accounts.filter p).map u).find? (fun r => r.seq == t.seq) = some (u t) := by
      rw [List.find?_map]
      have hf : (A.accounts.filter p).find? ((fun r => r.seq == t.seq) ∘ u) = some t := by
        rw [List.find?_eq_some_iff_append]
        have hmem : t ∈ A.accounts.filter p := List.mem_filter.mpr ⟨ht, hp⟩
        obtain ⟨as, bs, e⟩ := List.append_of_mem hmem
        refine ⟨by simp [hu t], as, bs, e, ?_⟩
        intro x hx
        have hx' : x ∈ A.accounts.filter p := by rw [e]; exact List.mem_append_left _ hx
        simp only [Function.comp, hu x, Bool.not_eq_true', beq_eq_false_iff_ne, ne_eq]
        intro e2
        have hxt : x = t := pairwise_lt_inj hs.acct_seq (List.mem_filter.mp hx').1 ht e2
        subst hxt
        have hnd : (A.accounts.filter p).Pairwise (fun a b => a.seq < b.seq) := hs.acct_seq.filter p
        rw [e, List.pairwise_append] at hnd
        have := hnd.2.2 x hx x (List.mem_cons_self ..)
        omega
      rw [hf]; rfl
    simp only [this, hp, if_true]
  · have : ((A.accounts.filter p).map u).find? (fun r => r.seq == t.seq) = none := by
      rw [List.find?_eq_none]
      intro x hx
      obtain ⟨x0, hx0, rfl⟩ := List.mem_map.mp hx
      rw [List.mem_filter] at hx0
      simp only [hu x0, beq_iff_eq]
      intro e
      have := pairwise_lt_inj hs.acct_seq hx0.1 ht e
      subst this
      exact hp hx0.2
    simp only [this, hp]
    simp

end StoreSql
