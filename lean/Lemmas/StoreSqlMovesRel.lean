import Lemmas.StoreSqlMoves
import Lemmas.StoreSqlTx
/-! C04 stage 2, layer 3b: **the rows of `moves` are the replayed moves**: the rows of ledger `l`, in `seq` order, correspond one
to one to the moves the replay records for `l` (same account, asset, amount, side and effective date).  With `VolOk` this is what
makes the totals stored in the rows the replay's volumes. -/
namespace StoreSql
open Sql Schema Store

structure MoveC (r : AMove) (m : Move) : Prop where
  account : r.account = m.account
  asset : r.asset = m.asset
  amount : r.amount = m.amount
  side : r.isSource = m.isSource
  eff : r.eff = m.effective

def MovesRel (A : ADB) (l : String) (ms : List Move) : Prop := Rel2 MoveC (A.moves.filter (fun r => r.ledger == l)) ms

theorem Rel2.append {α β : Type} {R : α → β → Prop} {as as' : List α} {bs bs' : List β} (h : Rel2 R as bs) (h' : Rel2 R as' bs') :
    Rel2 R (as ++ as') (bs ++ bs') := by
  induction h with
  | nil => exact h'
  | cons r _ ih => exact .cons r ih

theorem movesRel_insertMove (A : ADB) (hs : Sane A) (txSeq : Val) (l l' : String) (ins : Val) (eff : Int) (a x : String) (amt : Nat) (src ex : Bool)
    (acc : Nat) (ms : List Move) (d : Int) (txId : Nat) (h : MovesRel A l' ms) :
    MovesRel (aInsertMove A txSeq l ins eff a x amt src ex acc) l'
      (if l' = l then ms ++ [{ account := a, asset := x, amount := amt, isSource := src, insertedAt := d, effective := eff, txId := txId }] else ms) := by
  unfold MovesRel at h ⊢
  rw [aInsertMove_eq _ _ _ _ _ _ _ _ _ _ _ hs.mv_lt]
  simp only [List.filter_append]
  rw [filter_map_ledger A.moves (·.ledger) l' _ (fun r => (patchMove_id ..).2.1)]
  have hold : Rel2 MoveC ((A.moves.filter (fun r => r.ledger == l')).map (patchMove eff x amt src ex acc)) ms := by
    have := Rel2.map_mem (R' := MoveC) (patchMove eff x amt src ex acc) (fun m : Move => m) h (by
      intro r _ m _ hr
      obtain ⟨_, _, _, p4, p5, p6, p7, p8, _⟩ := patchMove_id eff x amt src ex acc r
      exact ⟨by rw [p4]; exact hr.account, by rw [p5]; exact hr.asset, by rw [p6]; exact hr.amount, by rw [p8]; exact hr.side,
        by rw [p7]; exact hr.eff⟩)
    simpa using this
  by_cases hl : l' = l
  · subst hl
    simp only [if_true, List.filter_cons, newMove_fields, beq_self_eq_true, List.filter_nil]
    exact hold.snoc ⟨rfl, rfl, rfl, rfl, rfl⟩
  · have hl2 : ¬ l = l' := fun e => hl e.symm
    simp only [hl, if_false, List.filter_cons, newMove_fields, beq_iff_eq, hl2, List.filter_nil, List.append_nil]
    exact hold

theorem movesRel_congr {A A' : ADB} (h1 : A'.moves = A.moves) {l : String} {ms : List Move} (h : MovesRel A l ms) : MovesRel A' l ms := by
  unfold MovesRel at h ⊢; rw [h1]; exact h

theorem movesRel_insertMove_same (A : ADB) (hs : Sane A) (txSeq : Val) (l : String) (ins : Val) (eff : Int) (a x : String) (amt : Nat) (src ex : Bool)
    (acc : Nat) (ms : List Move) (d : Int) (txId : Nat) (h : MovesRel A l ms) :
    MovesRel (aInsertMove A txSeq l ins eff a x amt src ex acc) l
      (ms ++ [{ account := a, asset := x, amount := amt, isSource := src, insertedAt := d, effective := eff, txId := txId }]) := by
  have := movesRel_insertMove A hs txSeq l l ins eff a x amt src ex acc ms d txId h
  simpa using this

theorem movesRel_insertMove_other (A : ADB) (hs : Sane A) (txSeq : Val) (l l' : String) (hl : l' ≠ l) (ins : Val) (eff : Int) (a x : String) (amt : Int)
    (src ex : Bool) (acc : Nat) (ms : List Move) (h : MovesRel A l' ms) :
    MovesRel (aInsertMove A txSeq l ins eff a x amt src ex acc) l' ms := by
  unfold MovesRel at h ⊢
  rw [aInsertMove_eq _ _ _ _ _ _ _ _ _ _ _ hs.mv_lt]
  simp only [List.filter_append]
  rw [filter_map_ledger A.moves (·.ledger) l' _ (fun r => (patchMove_id ..).2.1)]
  have hl2 : ¬ l = l' := fun e => hl e.symm
  simp only [List.filter_cons, newMove_fields, beq_iff_eq, hl2, List.filter_nil]
  have := Rel2.map_mem (R' := MoveC) (patchMove eff x amt src ex acc) (fun m : Move => m) h (by
    intro r _ m _ hr
    obtain ⟨_, _, _, p4, p5, p6, p7, p8, _⟩ := patchMove_id eff x amt src ex acc r
    exact ⟨by rw [p4]; exact hr.account, by rw [p5]; exact hr.asset, by rw [p6]; exact hr.amount, by rw [p8]; exact hr.side,
      by rw [p7]; exact hr.eff⟩)
  simpa using this

theorem movesRel_insertPosting (A : ADB) (hs : Sane A) (txSeq : Val) (l l' : String) (ins : Val) (eff : Int) (p : Posting)
    (am : List (String × Meta)) (ms : List Move) (d : Int) (txId : Nat) (h : MovesRel A l' ms) :
    MovesRel (aInsertPosting A txSeq l ins eff p am) l' (if l' = l then ms ++ postingMoves d eff txId p else ms) := by
  unfold aInsertPosting
  have s1 := sane_upsertAccount A l p.source (amKvs am p.source) ins hs
  have s2 := sane_upsertAccount _ l p.destination (amKvs am p.destination) ins s1
  obtain ⟨k1, k2⟩ := posting_accts A l p (amKvs am p.source) (amKvs am p.destination) ins
  have a1 := acctSeqOf_spec _ l p.source k1
  have s3 := sane_insertMove _ txSeq l ins eff p.source p.asset p.amount true (A.accounts.any (acctKey l p.source)) _ s2 a1
  have h2 : MovesRel (aUpsertAccount (aUpsertAccount A l p.source (amKvs am p.source) ins) l p.destination (amKvs am p.destination) ins) l' ms :=
    movesRel_congr (by simp) h
  by_cases hl : l' = l
  · subst hl
    simp only [if_true]
    have e : ms ++ postingMoves d eff txId p =
        (ms ++ [{ account := p.source, asset := p.asset, amount := p.amount, isSource := true, insertedAt := d, effective := eff, txId := txId }]) ++
          [{ account := p.destination, asset := p.asset, amount := p.amount, isSource := false, insertedAt := d, effective := eff, txId := txId }] := by
      simp [postingMoves]
    rw [e]
    apply movesRel_insertMove_same _ s3
    apply movesRel_insertMove_same _ s2
    exact h2
  · simp only [hl, if_false]
    apply movesRel_insertMove_other _ s3 _ _ _ hl
    apply movesRel_insertMove_other _ s2 _ _ _ hl
    exact h2

theorem movesRel_postings (ps : List Posting) (A : ADB) (hs : Sane A) (txSeq : Val) (l l' : String) (ins : Val) (eff : Int)
    (am : List (String × Meta)) (ms : List Move) (d : Int) (txId : Nat) (h : MovesRel A l' ms) :
    MovesRel (ps.foldl (fun A p => aInsertPosting A txSeq l ins eff p am) A) l'
      (if l' = l then ms ++ ps.flatMap (postingMoves d eff txId) else ms) := by
  induction ps generalizing A ms with
  | nil => by_cases hl : l' = l <;> simpa [hl] using h
  | cons p ps ih =>
    have h1 := movesRel_insertPosting A hs txSeq l l' ins eff p am ms d txId h
    have := ih _ (sane_frame_insertPosting A txSeq l ins eff p am hs).1 _ h1
    by_cases hl : l' = l
    · subst hl; simpa [List.append_assoc] using this
    · simpa [hl] using this

theorem movesRel_insertTransaction (A : ADB) (hs : Sane A) (l l' : String) (tx : Tx) (dv : Val) (d : Int) (am : List (String × Meta))
    (ms : List Move) (h : MovesRel A l' ms) :
    MovesRel (aInsertTransaction A l tx dv am) l' (if l' = l then ms ++ txMoves d tx else ms) := by
  have := movesRel_postings tx.postings (aTxInserted A l tx) (sane_txInserted A l tx hs) (.int A.txSeq) l l' dv tx.timestamp am ms d tx.id
    (movesRel_congr (A := A) rfl h)
  exact movesRel_congr (A := tx.postings.foldl (fun B p => aInsertPosting B (.int A.txSeq) l dv tx.timestamp p am) (aTxInserted A l tx)) rfl this

theorem movesRel_step (A : ADB) (v : View) (log : CLog) (hs : Sane A) (h : ∀ l, MovesRel A l (v l).moves) :
    ∀ l', MovesRel (aStep A log) l' (step v log l').moves := by
  intro l'
  have hs' := sane_logged A log hs
  have h' : ∀ l, MovesRel (aLogged A log) l (v l).moves := fun l => movesRel_congr (A := A) (A' := aLogged A log) rfl (h l)
  unfold aStep
  generalize aLogged A log = B at hs' h'
  obtain ⟨l, id, d, ik, payload⟩ := log
  simp only [step]
  cases payload with
  | newTx tx am =>
    simp only [aHandle]
    have key := movesRel_insertTransaction B hs' l l' tx (.ts d) d am _ (h' l')
    refine movesRel_congr (accountMeta_moves ..) ?_
    by_cases hl : l' = l
    · subst hl; simpa [stepLedger, applyPayload, insertTx] using key
    · simpa [hl] using key
  | revert rid tx =>
    simp only [aHandle, aRevertTransaction]
    have key := movesRel_insertTransaction B hs' l l' tx (.ts d) d [] _ (h' l')
    refine movesRel_congr (aUpdateTxs_proj _ _ _).2.2.2.1 ?_
    by_cases hl : l' = l
    · subst hl; simpa [stepLedger, applyPayload, insertTx] using key
    · simpa [hl] using key
  | setMeta t m =>
    have : (step v ⟨l, id, d, ik, .setMeta t m⟩ l').moves = (v l').moves := by
      by_cases hl : l' = l
      · subst hl; cases t <;> simp [step, stepLedger, applyPayload]
      · simp [step, hl]
    simp only [step] at this
    rw [this]
    cases t with
    | account a => exact movesRel_congr (by simp [aHandle]) (h' l')
    | transaction tid => exact movesRel_congr (by simp [aHandle, aUpdateTransactionMetadata]) (h' l')
  | delMeta t k =>
    have : (step v ⟨l, id, d, ik, .delMeta t k⟩ l').moves = (v l').moves := by
      by_cases hl : l' = l
      · subst hl; cases t <;> simp [step, stepLedger, applyPayload]
      · simp [step, hl]
    simp only [step] at this
    rw [this]
    cases t with
    | account a => exact movesRel_congr (by simp [aHandle, aDeleteAccountMetadata]) (h' l')
    | transaction tid => exact movesRel_congr (by simp [aHandle, aDeleteTransactionMetadata]) (h' l')

end StoreSql
