import Mathlib.Tactic.Linarith
import Lemmas.Funding
/-! `Allotment.Allocate`: floored shares plus leftover units front to back. -/
namespace Num

def floors (ps : List Rat') (n : Int) : List Int := ps.map (fun p => (n * p.num) / p.den)

def PosDen (ps : List Rat') : Prop := ∀ p ∈ ps, 0 < p.den

/-- number of leftover units handed out by `bumpLoop` -/
theorem bumpLoop_length (n : Int) (xs : List Int) (acc : Int) : (bumpLoop n xs acc).length = xs.length := by
  induction xs generalizing acc with
  | nil => simp [bumpLoop]
  | cons x xs ih => simp only [bumpLoop]; split <;> simp [ih]

theorem bumpLoop_sum (n : Int) (xs : List Int) (acc : Int) (h1 : acc ≤ n) (h2 : n ≤ acc + xs.length) :
    (bumpLoop n xs acc).sum = xs.sum + (n - acc) := by
  induction xs generalizing acc with
  | nil => simp [bumpLoop] at *; omega
  | cons x xs ih =>
    simp only [bumpLoop]
    split
    · rename_i hlt
      have := ih (acc + 1) (by omega) (by simp at h2; omega)
      simp [this]; omega
    · rename_i hge
      have hacc : acc = n := by omega
      have := ih acc h1 (by simp at h2 ⊢; omega)
      simp [this]; omega

/-- entry `i` of the result: its floor, plus one iff `i` is among the first `n - acc` entries -/
theorem bumpLoop_get (n : Int) (xs : List Int) (acc : Int) (h1 : acc ≤ n) (i : Nat) (hi : i < xs.length) :
    (bumpLoop n xs acc)[i]'(by simpa [bumpLoop_length] using hi) = xs[i] + (if (i : Int) < n - acc then 1 else 0) := by
  induction xs generalizing acc i with
  | nil => simp at hi
  | cons x xs ih =>
    simp only [bumpLoop]
    split
    · rename_i hlt
      cases i with
      | zero => simp; omega
      | succ i =>
        have := ih (acc + 1) (by omega) i (by simpa using hi)
        simp only [List.getElem_cons_succ, this]
        have : ((i + 1 : Nat) : Int) < n - acc ↔ (i : Int) < n - (acc + 1) := by omega
        simp only [this]
    · rename_i hge
      cases i with
      | zero => simp; omega
      | succ i =>
        have := ih acc h1 i (by simpa using hi)
        simp only [List.getElem_cons_succ, this]
        have h3 : ¬ ((i : Int) < n - acc) := by omega
        have h4 : ¬ (((i + 1 : Nat) : Int) < n - acc) := by omega
        simp only [h3, h4, if_false]

theorem ratSum_den_pos (ps : List Rat') (h : PosDen ps) : 0 < (ratSum ps).2 := by
  induction ps with
  | nil => simp [ratSum]
  | cons r rs ih =>
    have h1 : 0 < r.den := h r List.mem_cons_self
    have h2 := ih (fun p hp => h p (List.mem_cons_of_mem _ hp))
    simp only [ratSum]
    exact Nat.mul_pos h1 h2

/-- the heart: with `(a, d) = ratSum ps` (so `Σ pᵢ = a / d`), the floors sum to at most `n·a/d` and miss it
by less than one unit per entry -/
theorem floors_bounds (ps : List Rat') (n : Int) (hn : 0 ≤ n) (h : PosDen ps) :
    ((ratSum ps).2 : Int) * (floors ps n).sum ≤ n * (ratSum ps).1 ∧
    (n * (ratSum ps).1 < (ratSum ps).2 * ((floors ps n).sum + ps.length) ∨ (ps = [] )) := by
  induction ps with
  | nil => simp [floors, ratSum]
  | cons r rs ih =>
    have hr : 0 < r.den := h r List.mem_cons_self
    have hrs : PosDen rs := fun p hp => h p (List.mem_cons_of_mem _ hp)
    obtain ⟨ih1, ih2⟩ := ih hrs
    have hd := ratSum_den_pos rs hrs
    have hdI : (0 : Int) < ((ratSum rs).2 : Int) := by exact_mod_cast hd
    have hrI : (0 : Int) < (r.den : Int) := by exact_mod_cast hr
    -- the floor of the head
    have hq1 : (r.den : Int) * ((n * r.num) / r.den) ≤ n * r.num := Int.mul_ediv_self_le (by omega)
    have hq2 : n * r.num < (r.den : Int) * ((n * r.num) / r.den + 1) := by
      have := Int.lt_ediv_add_one_mul_self (n * r.num) hrI
      linarith
    simp only [floors, List.map_cons, List.sum_cons, ratSum, List.length_cons] at *
    push_cast
    refine ⟨by nlinarith, Or.inl ?_⟩
    rcases ih2 with ih2 | rfl
    · nlinarith
    · simp [ratSum] at *
      nlinarith

/-- **nothing lost or created**: when the portions add up to one, the shares add up to the amount -/
theorem allocate_sum (ps : List Rat') (n : Int) (hn : 0 ≤ n) (h : PosDen ps)
    (hone : (ratSum ps).1 = (ratSum ps).2) (hne : ps ≠ []) : (allocate ps n).sum = n := by
  obtain ⟨h1, h2⟩ := floors_bounds ps n hn h
  have hd := ratSum_den_pos ps h
  have hdI : (0 : Int) < ((ratSum ps).2 : Int) := by exact_mod_cast hd
  rw [hone] at h1 h2
  have hle : (floors ps n).sum ≤ n := by nlinarith
  have hlt : n < (floors ps n).sum + ps.length := by
    rcases h2 with h2 | h2
    · nlinarith
    · exact absurd h2 hne
  unfold allocate
  have hlen : (floors ps n).length = ps.length := by simp [floors]
  have := bumpLoop_sum n (floors ps n) (floors ps n).sum hle (by rw [hlen]; omega)
  simp only [floors] at this ⊢
  rw [this]; omega

/-- **shape**: each share is the floored fraction, the leftover units go one each to the earliest entries -/
theorem allocate_shape (ps : List Rat') (n : Int) (hn : 0 ≤ n) (h : PosDen ps)
    (hone : (ratSum ps).1 = (ratSum ps).2) (i : Nat) (hi : i < ps.length) :
    (allocate ps n)[i]'(by simp [allocate, bumpLoop_length]; exact hi) =
      (n * (ps[i]).num) / (ps[i]).den + (if (i : Int) < n - (floors ps n).sum then 1 else 0) := by
  obtain ⟨h1, _⟩ := floors_bounds ps n hn h
  have hd := ratSum_den_pos ps h
  have hdI : (0 : Int) < ((ratSum ps).2 : Int) := by exact_mod_cast hd
  rw [hone] at h1
  have hle : (floors ps n).sum ≤ n := by nlinarith
  have := bumpLoop_get n (floors ps n) (floors ps n).sum hle i (by simpa [floors] using hi)
  simp only [allocate, floors] at this ⊢
  rw [this]; simp

theorem allocate_length (ps : List Rat') (n : Int) : (allocate ps n).length = ps.length := by
  simp [allocate, bumpLoop_length]

/-- shares are non-negative for a non-negative amount -/
theorem bumpLoop_nonneg (n : Int) (xs : List Int) (acc : Int) (h : ∀ x ∈ xs, 0 ≤ x) : ∀ y ∈ bumpLoop n xs acc, 0 ≤ y := by
  induction xs generalizing acc with
  | nil => simp [bumpLoop]
  | cons x xs ih =>
    have hx := h x List.mem_cons_self
    have hxs : ∀ y ∈ xs, 0 ≤ y := fun y hy => h y (List.mem_cons_of_mem _ hy)
    simp only [bumpLoop]
    split <;> intro y hy <;> rcases List.mem_cons.mp hy with rfl | hy
    · omega
    · exact ih _ hxs y hy
    · exact hx
    · exact ih _ hxs y hy

theorem allocate_nonneg (ps : List Rat') (n : Int) (hn : 0 ≤ n) : ∀ y ∈ allocate ps n, 0 ≤ y := by
  apply bumpLoop_nonneg
  intro x hx
  simp only [List.mem_map] at hx
  obtain ⟨p, _, rfl⟩ := hx
  exact Int.ediv_nonneg (Int.mul_nonneg hn (by omega)) (by omega)

end Num
