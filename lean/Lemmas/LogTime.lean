import Model.Log.Time
/-! Helper lemmas for `time_roundtrip` (Props/C13): printing then parsing a well-formed time. -/
namespace LogM

theorem digitVal_digitChar (k : Nat) (h : k < 10) : digitVal (digitChar k) = some k := by
  match k, h with
  | 0, _ => rfl | 1, _ => rfl | 2, _ => rfl | 3, _ => rfl | 4, _ => rfl
  | 5, _ => rfl | 6, _ => rfl | 7, _ => rfl | 8, _ => rfl | 9, _ => rfl
  | k + 10, h => omega

theorem num2_pad2 (n : Nat) (h : n < 100) (rest : List Char) : num2 (pad2 n ++ rest) = some (n, rest) := by
  have h1 : n / 10 % 10 < 10 := Nat.mod_lt _ (by decide)
  have h2 : n % 10 < 10 := Nat.mod_lt _ (by decide)
  simp only [pad2, List.cons_append, List.nil_append, num2, digitVal_digitChar _ h1, digitVal_digitChar _ h2]
  congr 2
  omega

theorem num12_pad2 (n : Nat) (h : n < 100) (rest : List Char) : num12 (pad2 n ++ rest) = some (n, rest) := by
  have h1 : n / 10 % 10 < 10 := Nat.mod_lt _ (by decide)
  have h2 : n % 10 < 10 := Nat.mod_lt _ (by decide)
  simp only [pad2, List.cons_append, List.nil_append, num12, digitVal_digitChar _ h1, digitVal_digitChar _ h2]
  congr 2
  omega

theorem num2_pad2' (n : Nat) (h : n < 100) : num2 (pad2 n) = some (n, []) := by
  simpa using num2_pad2 n h []

theorem num4_padYear (y : Int) (h0 : 0 ≤ y) (h1 : y ≤ 9999) (rest : List Char) :
    num4 (padYear y ++ rest) = some (y.toNat, rest) := by
  have hy : 0 ≤ y ∧ y < 10000 := ⟨h0, by omega⟩
  have a1 : y.toNat / 1000 % 10 < 10 := Nat.mod_lt _ (by decide)
  have a2 : y.toNat / 100 % 10 < 10 := Nat.mod_lt _ (by decide)
  have a3 : y.toNat / 10 % 10 < 10 := Nat.mod_lt _ (by decide)
  have a4 : y.toNat % 10 < 10 := Nat.mod_lt _ (by decide)
  simp only [padYear, hy, and_self, if_true, List.cons_append, List.nil_append, num4,
    digitVal_digitChar _ a1, digitVal_digitChar _ a2, digitVal_digitChar _ a3, digitVal_digitChar _ a4]
  congr 2
  omega


/-! fraction -/

theorem fracVal_trimZ (ds : List Nat) (w : Nat) : fracVal (trimZ ds) w = fracVal ds w := by
  induction ds generalizing w with
  | nil => rfl
  | cons d ds ih =>
    cases w with
    | zero => simp [fracVal]
    | succ w =>
      have ihw := ih w
      simp only [trimZ]
      split
      · rename_i hnil
        rw [hnil] at ihw
        have h0 : fracVal ds w = 0 := by rw [← ihw]; cases w <;> rfl
        by_cases hd : d = 0
        · simp [hd, fracVal, h0]
        · simp [hd, fracVal, h0]
          cases w <;> rfl
      · rename_i r rs hcons
        rw [hcons] at ihw
        simp [fracVal, ihw]

theorem trimZ_lt (ds : List Nat) (h : ∀ d ∈ ds, d < 10) : ∀ d ∈ trimZ ds, d < 10 := by
  induction ds with
  | nil => simp [trimZ]
  | cons d ds ih =>
    have ihd := ih (fun x hx => h x (List.mem_cons_of_mem _ hx))
    have hd := h d (List.mem_cons_self ..)
    simp only [trimZ]
    split
    · by_cases h0 : d = 0
      · simp [h0]
      · simp [h0]; exact hd
    · rename_i r rs hcons
      rw [hcons] at ihd
      intro x hx
      cases hx with
      | head => exact hd
      | tail _ hx => exact ihd x hx

theorem fracVal_digits9 (n : Nat) (h : n < 1000000000) : fracVal (digits9 n) 9 = n := by
  simp only [digits9, fracVal]
  omega

theorem digits9_lt (n : Nat) : ∀ d ∈ digits9 n, d < 10 := by
  intro d hd
  simp only [digits9, List.mem_cons, List.not_mem_nil, or_false] at hd
  omega

/-- a list of characters that does not continue a run of digits -/
def NoDigitHead : List Char → Prop
  | [] => True
  | c :: _ => digitVal c = none

theorem spanDigits_map (ds : List Nat) (h : ∀ d ∈ ds, d < 10) (rest : List Char) (hr : NoDigitHead rest) :
    spanDigits (ds.map digitChar ++ rest) = (ds, rest) := by
  induction ds with
  | nil =>
    cases rest with
    | nil => rfl
    | cons c cs => simp only [NoDigitHead] at hr; simp [spanDigits, hr]
  | cons d ds ih =>
    have hd := h d (List.mem_cons_self ..)
    have := ih (fun x hx => h x (List.mem_cons_of_mem _ hx))
    simp [spanDigits, digitVal_digitChar d hd, this]

theorem parseFrac_fmtFrac (n : Nat) (h : n < 1000000000) (rest : List Char) (hr : NoDigitHead rest)
    (hsep : ∀ c cs, rest = c :: cs → c ≠ '.' ∧ c ≠ ',') :
    parseFrac (fmtFrac n ++ rest) = (n, rest) := by
  by_cases h0 : n = 0
  · subst h0
    simp only [fmtFrac, if_true, List.nil_append]
    unfold parseFrac
    split
    · rename_i sep c r
      have := hsep sep (c :: r) rfl
      simp [this.1, this.2]
    · rfl
  · have hv : fracVal (trimZ (digits9 n)) 9 = n := by rw [fracVal_trimZ, fracVal_digits9 n h]
    have hlt := trimZ_lt (digits9 n) (digits9_lt n)
    cases htz : trimZ (digits9 n) with
    | nil => rw [htz] at hv; simp [fracVal] at hv; omega
    | cons d ds =>
      rw [htz] at hv hlt
      have hd : d < 10 := hlt d (List.mem_cons_self ..)
      have hsp := spanDigits_map (d :: ds) hlt rest hr
      simp only [List.map_cons, List.cons_append] at hsp
      simp only [fmtFrac, h0, if_false, htz, List.map_cons, List.cons_append, parseFrac,
        digitVal_digitChar d hd, Option.isSome_some, true_or, and_self, if_true, hsp, hv]


/-! zone -/

theorem expect_cons (c : Char) (rest : List Char) : expect c (c :: rest) = some rest := by simp [expect]

theorem parseZone_fmtZone (off : Int) (h60 : off % 60 = 0) (hlo : -90000 < off) (hhi : off < 90000) :
    parseZone (fmtZone off) = .ok off := by
  by_cases h0 : off = 0
  · subst h0; rfl
  · by_cases hneg : off < 0
    · have hz : zoneMinutes off = - (((-off).toNat / 60 : Nat) : Int) := by simp [zoneMinutes, hneg]
      have hzneg : zoneMinutes off < 0 := by rw [hz]; omega
      have ha : (zoneMinutes off).natAbs = (-off).toNat / 60 := by rw [hz, Int.natAbs_neg, Int.natAbs_natCast]
      have b1 : (-off).toNat / 60 / 60 < 100 := by omega
      have b2 : (-off).toNat / 60 % 60 < 100 := by omega
      simp only [fmtZone, h0, if_false, hzneg, if_true, ha, parseZone]
      simp [num2_pad2 _ b1, expect_cons, num2_pad2' _ b2]
      rw [if_neg (by omega)]
      congr 1
      omega
    · have hz : zoneMinutes off = ((off.toNat / 60 : Nat) : Int) := by simp [zoneMinutes, hneg]
      have hzneg : ¬ zoneMinutes off < 0 := by rw [hz]; omega
      have ha : (zoneMinutes off).natAbs = off.toNat / 60 := by rw [hz, Int.natAbs_natCast]
      have b1 : off.toNat / 60 / 60 < 100 := by omega
      have b2 : off.toNat / 60 % 60 < 100 := by omega
      simp only [fmtZone, h0, if_false, hzneg, ha, parseZone]
      simp [num2_pad2 _ b1, expect_cons, num2_pad2' _ b2]
      rw [if_neg (by omega)]
      congr 1
      omega

theorem fmtZone_head (off : Int) : NoDigitHead (fmtZone off) ∧ ∀ c cs, fmtZone off = c :: cs → c ≠ '.' ∧ c ≠ ',' := by
  unfold fmtZone
  by_cases h0 : off = 0
  · simp [h0, NoDigitHead, digitVal]
  · by_cases hz : zoneMinutes off < 0
    · simp [h0, hz, NoDigitHead, digitVal]
      done
    · simp [h0, hz, NoDigitHead, digitVal]
      done


/-! the whole timestamp -/

theorem parseRaw_fmtChars (t : Time) (wf : TimeWF t) : parseRaw (fmtChars t) = .ok t := by
  obtain ⟨hy0, hy1, hm1, hm2, hd1, hd2, hh, hmi, hs, hn, _, ho⟩ := wf
  have hz := fmtZone_head t.off
  have hfr := parseFrac_fmtFrac t.nanos hn (fmtZone t.off) hz.1 hz.2
  have hzone := parseZone_fmtZone t.off (by omega) (by omega) (by omega)
  have hdd : t.day ≤ 31 := by
    have : daysIn t.month t.year ≤ 31 := by unfold daysIn; split <;> (try split) <;> omega
    omega
  have hrange : ¬ (t.month < 1 ∨ 12 < t.month ∨ t.day < 1 ∨ daysIn t.month t.year < t.day ∨
      23 < t.hour ∨ 59 < t.min ∨ 59 < t.sec) := by omega
  have hyc : ((t.year.toNat : Nat) : Int) = t.year := by omega
  unfold parseRaw fmtChars
  simp only [num4_padYear t.year hy0 hy1, expect_cons, num2_pad2 t.month (by omega), num2_pad2 t.day (by omega),
    num12_pad2 t.hour (by omega), num2_pad2 t.min (by omega), num2_pad2 t.sec (by omega), hfr, hzone, hyc]
  rw [if_neg hrange]

theorem roundMicro_wf (t : Time) (wf : TimeWF t) : roundMicro t = t := by
  obtain ⟨_, _, _, _, _, _, _, _, _, _, h, _⟩ := wf
  simp [roundMicro, h]

theorem toUTC_wf (t : Time) (wf : TimeWF t) : toUTC t = t := by
  obtain ⟨_, _, _, _, _, _, _, _, _, _, _, h⟩ := wf
  simp [toUTC, h]

theorem parseTime_formatTime (t : Time) (wf : TimeWF t) : parseTime (formatTime t) = .ok t := by
  have hr : readable t = true := by
    obtain ⟨hy0, hy1, _⟩ := wf
    simp [readable, hy0, hy1]
  simp [parseTime, formatTime, parseRaw_fmtChars t wf, roundMicro_wf t wf, toUTC_wf t wf, hr]

end LogM
