import Lemmas.SpecFloor
/-! Lock sets of `Spec` (C02): every account a run of `Spec` touches is in the lock sets `Spec` reports.

* the parts of every funding a source provides belong to the accounts the source *evaluates to*
  (`sourceAccts`, whatever way each is named: literal, variable, metadata-derived variable) — `evalSource_accts`;
* destinations only re-cut those fundings (`take`, `takeMax`, `concat`, `reverse`) and emit them to accounts that are
  either literals of the destination or values of account variables — `evalDest_locks`;
* hence every posting of a send has its source among `vsourceAccts env src` (= what `lockWrite` collects) and its
  destination among the account literals of the text or the account-typed variables (= what `lockRead` collects);
* the environment `prepare` builds gives an account value only to variables *declared* with type `account`
  (`prepare_typed`), which is what `lockRead` enumerates.

No frame/balance reasoning is needed here except in the last section (`tracked`: a posting's (source, asset) is one of
the balances the run was started on). -/
namespace Num

theorem AcctsIn.mono {P Q : Acct → Prop} {f : Parts} (h : AcctsIn P f) (hpq : ∀ a, P a → Q a) : AcctsIn Q f :=
  fun p hp => hpq _ (h p hp)

/-! ### sources: parts belong to the accounts the source evaluates to -/

theorem sourceAccts_acct {env : VEnv} {e : Expr} {od : Overdraft} {a : Acct} (h : evalAcct env e = .ok a) :
    sourceAccts env (.acct e od) = [a] := by
  simp only [sourceAccts, h]

mutual
theorem evalSource_accts (env : VEnv) (asset : Asset) : (s : Source) → (b : Bal) → (f : Fund) → (fb : Option Acct) →
    (b' : Bal) → evalSource env asset s b = .ok (f, fb, b') →
    AcctsIn (· ∈ sourceAccts env s) f.parts ∧ ∀ w, fb = some w → w ∈ sourceAccts env s
  | .acct e od, b, f, fb, b', h => by
    obtain ⟨a, oa, o, unb, p, ha, _, hw, rfl, rfl⟩ := evalSource_acct_inv h
    have hp := (withdrawAll_part hw).1
    rw [sourceAccts_acct ha]
    refine ⟨AcctsIn.cons (by simp [hp]) (AcctsIn.nil _), ?_⟩
    intro w hw'
    split at hw'
    · simp only [Option.some.injEq] at hw'; simp [hw']
    · cases hw'
  | .maxed cap s, b, f, fb, b', h => by
    obtain ⟨f0, fb0, b1, ma, mn, hs, _, _, _, rfl, hc⟩ := evalSource_maxed_inv h
    have h0 := evalSource_accts env asset s b f0 fb0 b1 hs
    simp only [sourceAccts]
    refine ⟨?_, by intro w hw; cases hw⟩
    rcases hc with ⟨_, rfl, _⟩ | ⟨w, p, hfb, hw, hasm⟩
    · exact (takeMax_acctsIn f0.parts mn h0.1).1
    · obtain ⟨t, _, rfl, _⟩ := withdrawAlways_inv hw
      rw [(assemble_pair hasm).2.2]
      exact concat_acctsIn (takeMax_acctsIn f0.parts mn h0.1).1 (AcctsIn.cons (h0.2 w hfb) (AcctsIn.nil _))
  | .inorder ss, b, f, fb, b', h => by
    obtain ⟨fs, hs, hasm⟩ := evalSource_inorder_inv h
    have h0 := evalSources_accts env asset ss b fs fb b' hs
    simp only [sourceAccts]
    refine ⟨?_, h0.2⟩
    rw [(assemble_ok hasm).2.2]
    exact catAll_acctsIn (AcctsIn.nil _) h0.1
theorem evalSources_accts (env : VEnv) (asset : Asset) : (ss : SourceList) → (b : Bal) → (fs : List Fund) →
    (fb : Option Acct) → (b' : Bal) → evalSources env asset ss b = .ok (fs, fb, b') →
    (∀ f ∈ fs, AcctsIn (· ∈ sourcesAccts env ss) f.parts) ∧ ∀ w, fb = some w → w ∈ sourcesAccts env ss
  | .nil, b, fs, fb, b', h => by
    obtain ⟨rfl, rfl, rfl⟩ := evalSources_nil_inv h
    exact ⟨(by intro f hf; cases hf), (by intro w hw; cases hw)⟩
  | .cons s rest, b, fs, fb, b', h => by
    obtain ⟨f, fb1, b1, fs', fb2, hs, hr, rfl, rfl⟩ := evalSources_cons_inv h
    have h1 := evalSource_accts env asset s b f fb1 b1 hs
    have h2 := evalSources_accts env asset rest b1 fs' fb2 b' hr
    simp only [sourcesAccts]
    constructor
    · intro g hg
      rcases List.mem_cons.mp hg with rfl | hg
      · exact h1.1.mono (fun a ha => List.mem_append_left _ ha)
      · exact (h2.1 g hg).mono (fun a ha => List.mem_append_right _ ha)
    · intro w hw
      cases rest with
      | nil => exact List.mem_append_left _ (h1.2 w hw)
      | cons s' r' => exact List.mem_append_right _ (h2.2 w hw)
end

theorem takeFromSource_accts {P : Acct → Prop} {fb : Option Acct} {f t : Fund} {ma : Asset} {mn : Int} {b b' : Bal}
    (h : takeFromSource fb f ma mn b = .ok (t, b')) (hf : AcctsIn P f.parts) (hfb : ∀ w, fb = some w → P w) :
    AcctsIn P t.parts := by
  cases fb with
  | none =>
    obtain ⟨taken, rest, _, ht, rfl, _⟩ := takeFromSource_none_inv h
    exact (take_acctsIn hf ht).1
  | some w =>
    obtain ⟨p, _, _, hw, hasm⟩ := takeFromSource_some_inv h
    obtain ⟨t0, _, rfl, _⟩ := withdrawAlways_inv hw
    rw [(assemble_pair hasm).2.2]
    exact concat_acctsIn (takeMax_acctsIn f.parts mn hf).1 (AcctsIn.cons (hfb w rfl) (AcctsIn.nil _))

theorem evalAllotSources_accts (env : VEnv) (asset ma : Asset) : (items : List (PortionSpec × Source)) →
    (parts : List Int) → (b b' : Bal) → (ts : List Fund) →
    evalAllotSources env asset ma items parts b = .ok (ts, b') →
    ∀ t ∈ ts, AcctsIn (· ∈ items.flatMap (fun it => sourceAccts env it.2)) t.parts
  | [], parts, b, b', ts, h => by
    obtain ⟨rfl, _⟩ := evalAllotSources_nil_inv h
    intro t ht; cases ht
  | it :: rest, parts, b, b', ts, h => by
    obtain ⟨p, ps, f, fb, b1, t, b2, ts', _, hs, ht, hr, rfl⟩ := evalAllotSources_cons_inv h
    have h1 := evalSource_accts env asset it.2 b f fb b1 hs
    have h2 := takeFromSource_accts ht h1.1 h1.2
    have h3 := evalAllotSources_accts env asset ma rest ps b2 b' ts' hr
    intro g hg
    simp only [List.flatMap_cons]
    rcases List.mem_cons.mp hg with rfl | hg
    · exact h2.mono (fun a ha => List.mem_append_left _ ha)
    · exact (h3 g hg).mono (fun a ha => List.mem_append_right _ ha)

/-! ### where an account value comes from: a literal of the expression or a variable -/

/-- `a` is the value of some variable of the environment -/
def IsVarAcct (env : VEnv) (a : Acct) : Prop := ∃ n, lookupVar env n = some (.acct a)

theorem evalExpr_acct {env : VEnv} {e : Expr} {a : Acct} (h : evalExpr env e = .ok (.acct a)) :
    e = .acct a ∨ ∃ n, e = .var n ∧ lookupVar env n = some (.acct a) := by
  cases e with
  | acct a' => simp only [evalExpr, Except.ok.injEq, Val.acct.injEq] at h; left; rw [h]
  | var n =>
    simp only [evalExpr] at h
    cases hl : lookupVar env n with
    | none => simp [hl] at h
    | some v => simp only [hl, Except.ok.injEq] at h; right; exact ⟨n, rfl, by rw [hl, h]⟩
  | mon ae n =>
    simp only [evalExpr] at h
    split at h <;> cases h
  | add l r =>
    simp only [evalExpr] at h
    split at h
    · cases h
    · split at h
      · cases h
      · split at h
        · cases h
        · split at h <;> cases h
        · cases h
  | sub l r =>
    simp only [evalExpr] at h
    split at h
    · cases h
    · split at h
      · cases h
      · split at h
        · cases h
        · split at h <;> cases h
        · cases h
  | asset _ => simp [evalExpr] at h
  | num _ => simp [evalExpr] at h
  | str _ => simp [evalExpr] at h
  | portion _ => simp [evalExpr] at h
  | badPortion => simp [evalExpr] at h

theorem evalAcct_origin {env : VEnv} {e : Expr} {a : Acct} (h : evalAcct env e = .ok a) :
    a ∈ exprLits e ∨ IsVarAcct env a := by
  have he : evalExpr env e = .ok (.acct a) := by
    unfold evalAcct at h
    split at h
    · simp only [Except.ok.injEq] at h; subst h; assumption
    · cases h
    · cases h
  rcases evalExpr_acct he with rfl | ⟨n, rfl, hl⟩
  · left; simp [exprLits]
  · right; exact ⟨n, hl⟩

/-! ### destinations -/

/-- what a destination (or a send) does, seen from the lock sets: it appends postings whose source satisfies `S` and
whose destination satisfies `D`; what it hands back (`r`) is still made of `S` accounts -/
def Moves (S D : Acct → Prop) (r : Fund) (st st' : St) : Prop :=
  (∃ new, st'.postings = st.postings ++ new ∧ ∀ p ∈ new, S p.src ∧ D p.dst) ∧ AcctsIn S r.parts

theorem Moves.refl {S D : Acct → Prop} {r : Fund} (st : St) (hr : AcctsIn S r.parts) : Moves S D r st st :=
  ⟨⟨[], by simp, by intro p hp; cases hp⟩, hr⟩

theorem Moves.trans {S D : Acct → Prop} {m r : Fund} {st st1 st2 : St} (h1 : Moves S D m st st1)
    (h2 : Moves S D r st1 st2) : Moves S D r st st2 := by
  obtain ⟨⟨n1, hp1, hn1⟩, _⟩ := h1
  obtain ⟨⟨n2, hp2, hn2⟩, hr⟩ := h2
  refine ⟨⟨n1 ++ n2, by rw [hp2, hp1, List.append_assoc], ?_⟩, hr⟩
  intro p hp
  rcases List.mem_append.mp hp with hp | hp
  · exact hn1 p hp
  · exact hn2 p hp

/-- the sub-destination handed back `k`; it is put in front of the remainder -/
theorem Moves.pair {S D : Acct → Prop} {k c : Fund} {a : Asset} {rem : Parts} {st st1 : St}
    (h1 : Moves S D k st st1) (hasm : assemble [k, ⟨a, rem⟩] = .ok c) (hrem : AcctsIn S rem) : Moves S D c st st1 := by
  refine ⟨h1.1, ?_⟩
  rw [(assemble_pair hasm).2.2]
  exact concat_acctsIn h1.2 hrem

mutual
theorem evalDest_locks (env : VEnv) (S D : Acct → Prop) (hV : ∀ a, IsVarAcct env a → D a) :
    (d : Dest) → (f r : Fund) → (st st' : St) → evalDest env d f st = .ok (r, st') →
    (∀ a ∈ destLits d, D a) → AcctsIn S f.parts → Moves S D r st st'
  | .acct e, f, r, st, st', h, hL, hf => by
    obtain ⟨taken, rest, a, ht, ha, rfl, rfl⟩ := evalDest_acct_inv h
    have h2 := take_acctsIn hf ht
    have hDa : D a := by
      rcases evalAcct_origin ha with hl | hv
      · exact hL a (by simpa [destLits] using hl)
      · exact hV a hv
    refine ⟨⟨taken.map (fun p => ⟨p.acct, a, p.amt, f.asset⟩), emit_postings _ _ _, ?_⟩, h2.2⟩
    intro p hp
    obtain ⟨q, hq, rfl⟩ := List.mem_map.mp hp
    exact ⟨h2.1 q hq, hDa⟩
  | .inorder caps rest, f, r, st, st', h, hL, hf => by
    obtain ⟨kt, cur, st1, tk, rest2, r0, hc, ht, hk, hasm⟩ := evalDest_inorder_inv h
    have hL1 : ∀ a ∈ capsLits caps, D a := fun a ha => hL a (by simp only [destLits, List.mem_append]; exact Or.inl ha)
    have hL2 : ∀ a ∈ kdLits rest, D a := fun a ha => hL a (by simp only [destLits, List.mem_append]; exact Or.inr ha)
    have h1 := evalCaps_locks env S D hV caps 0 kt f cur st st1 hc hL1 hf
    have h3 := take_acctsIn h1.2.reverse ht
    have hk' := evalKD_locks env S D hV rest ⟨f.asset, rest2.reverse⟩ r0 st1 st' hk hL2 h3.2.reverse
    exact h1.trans (hk'.pair hasm h3.1.reverse)
  | .allot items, f, r, st, st', h, hL, hf => by
    obtain ⟨ps, _, ha⟩ := evalDest_allot_inv h
    exact evalAllot_locks env S D hV items _ f r st st' ha (fun a ha' => hL a (by simpa [destLits] using ha')) hf
theorem evalKD_locks (env : VEnv) (S D : Acct → Prop) (hV : ∀ a, IsVarAcct env a → D a) :
    (kd : KeptOrDest) → (f r : Fund) → (st st' : St) → evalKD env kd f st = .ok (r, st') →
    (∀ a ∈ kdLits kd, D a) → AcctsIn S f.parts → Moves S D r st st'
  | .kept, f, r, st, st', h, _, hf => by
    rw [evalKD_kept] at h
    simp only [Except.ok.injEq, Prod.mk.injEq] at h
    obtain ⟨rfl, rfl⟩ := h
    exact Moves.refl _ hf
  | .to d, f, r, st, st', h, hL, hf => by
    rw [evalKD_to] at h
    exact evalDest_locks env S D hV d f r st st' h (fun a ha => hL a (by simpa [kdLits] using ha)) hf
theorem evalCaps_locks (env : VEnv) (S D : Acct → Prop) (hV : ∀ a, IsVarAcct env a → D a) :
    (cs : CapList) → (kt kt' : Int) → (cur cur' : Fund) → (st st' : St) →
    evalCaps env cs kt cur st = .ok (kt', cur', st') → (∀ a ∈ capsLits cs, D a) → AcctsIn S cur.parts →
    Moves S D cur' st st'
  | .nil, kt, kt', cur, cur', st, st', h, _, hf => by
    obtain ⟨_, rfl, rfl⟩ := evalCaps_nil_inv h
    exact Moves.refl _ hf
  | .cons cap kd rest, kt, kt', cur, cur', st, st', h, hL, hf => by
    obtain ⟨ma, mn, k, st1, c, _, _, _, hk, _, hasm, hr⟩ := evalCaps_cons_inv h
    have hs := takeMax_acctsIn cur.parts mn hf
    have hLk : ∀ a ∈ kdLits kd, D a := fun a ha => hL a (by simp only [capsLits, List.mem_append]; exact Or.inl (Or.inr ha))
    have hLr : ∀ a ∈ capsLits rest, D a := fun a ha => hL a (by simp only [capsLits, List.mem_append]; exact Or.inr ha)
    have hk' := evalKD_locks env S D hV kd ⟨cur.asset, (takeMax cur.parts mn).1⟩ k st st1 hk hLk hs.1
    have h1 : Moves S D c st st1 := hk'.pair hasm hs.2
    exact h1.trans (evalCaps_locks env S D hV rest _ kt' c cur' st1 st' hr hLr h1.2)
theorem evalAllot_locks (env : VEnv) (S D : Acct → Prop) (hV : ∀ a, IsVarAcct env a → D a) :
    (items : AllotList) → (parts : List Int) → (cur r : Fund) → (st st' : St) →
    evalAllot env items parts cur st = .ok (r, st') → (∀ a ∈ allotLits items, D a) → AcctsIn S cur.parts →
    Moves S D r st st'
  | .nil, parts, cur, r, st, st', h, _, hf => by
    obtain ⟨rfl, rfl⟩ := evalAllot_nil_inv h
    exact Moves.refl _ hf
  | .cons ps0 kd rest, parts, cur, r, st, st', h, hL, hf => by
    obtain ⟨p, ps, taken, rem, k, st1, c, _, ht, hk, hasm, hr⟩ := evalAllot_cons_inv h
    have h2 := take_acctsIn hf ht
    have hLk : ∀ a ∈ kdLits kd, D a := fun a ha => hL a (by simp only [allotLits, List.mem_append]; exact Or.inl ha)
    have hLr : ∀ a ∈ allotLits rest, D a := fun a ha => hL a (by simp only [allotLits, List.mem_append]; exact Or.inr ha)
    have hk' := evalKD_locks env S D hV kd ⟨cur.asset, taken⟩ k st st1 hk hLk h2.1
    have h1 : Moves S D c st st1 := hk'.pair hasm h2.2
    exact h1.trans (evalAllot_locks env S D hV rest ps c r st1 st' hr hLr h1.2)
end

/-! ### sends, statements -/

/-- postings are appended; each new one has its source in `S` and its destination in `D` -/
def Appended (S D : Acct → Prop) (ps ps' : List Posting) : Prop :=
  ∃ new, ps' = ps ++ new ∧ ∀ p ∈ new, S p.src ∧ D p.dst

theorem Appended.refl (S D : Acct → Prop) (ps : List Posting) : Appended S D ps ps :=
  ⟨[], by simp, by intro p hp; cases hp⟩

theorem Appended.trans {S D : Acct → Prop} {a b c : List Posting} (h1 : Appended S D a b) (h2 : Appended S D b c) :
    Appended S D a c := by
  obtain ⟨n1, rfl, hn1⟩ := h1
  obtain ⟨n2, rfl, hn2⟩ := h2
  refine ⟨n1 ++ n2, by rw [List.append_assoc], ?_⟩
  intro p hp
  rcases List.mem_append.mp hp with hp | hp
  · exact hn1 p hp
  · exact hn2 p hp

theorem Appended.mono {S D S' D' : Acct → Prop} {a b : List Posting} (h : Appended S D a b)
    (hS : ∀ x, S x → S' x) (hD : ∀ x, D x → D' x) : Appended S' D' a b := by
  obtain ⟨n, e, hn⟩ := h
  exact ⟨n, e, fun p hp => ⟨hS _ (hn p hp).1, hD _ (hn p hp).2⟩⟩

theorem finishSend_locks {env : VEnv} {S D : Acct → Prop} (hV : ∀ a, IsVarAcct env a → D a) {d : Dest} {f : Fund}
    {st st' : St} (h : finishSend env d f st = .ok st') (hL : ∀ a ∈ destLits d, D a) (hf : AcctsIn S f.parts) :
    Appended S D st.postings st'.postings := by
  obtain ⟨rest, st1, hd, rfl⟩ := finishSend_inv h
  exact (evalDest_locks env S D hV d f rest st st1 hd hL hf).1

theorem evalSend_locks {env : VEnv} {D : Acct → Prop} (hV : ∀ a, IsVarAcct env a → D a) {amt : SendAmt}
    {src : VSource} {d : Dest} {st st' : St} (h : evalSend env amt src d st = .ok st') (hL : ∀ a ∈ destLits d, D a) :
    Appended (· ∈ vsourceAccts env src) D st.postings st'.postings := by
  cases amt with
  | mon e =>
    cases src with
    | src s =>
      obtain ⟨a, f, fb, b1, ma, mn, taken, b2, _, hs, _, ht, hfin⟩ := evalSend_mon_src_inv h
      have h1 := evalSource_accts env a s st.bal f fb b1 hs
      have h2 := takeFromSource_accts ht h1.1 h1.2
      exact finishSend_locks (S := (· ∈ vsourceAccts env (.src s))) (st := { st with bal := b2 }) hV hfin hL
        (by simpa [vsourceAccts] using h2)
    | allot items =>
      obtain ⟨ma, mn, a, ps, ts, b1, f, _, _, _, hs, hasm, hfin⟩ := evalSend_mon_allot_inv h
      have h1 := evalAllotSources_accts env a ma items _ st.bal b1 ts hs
      have h2 : AcctsIn (· ∈ vsourceAccts env (.allot items)) f.parts := by
        rw [(assemble_ok hasm).2.2]
        exact catAll_acctsIn (AcctsIn.nil _) (by simpa [vsourceAccts] using h1)
      exact finishSend_locks (st := { st with bal := b1 }) hV hfin hL h2
  | all ae =>
    cases src with
    | src s =>
      obtain ⟨a, f, fb, b1, _, hs, hfin⟩ := evalSend_all_src_inv h
      have h1 := evalSource_accts env a s st.bal f fb b1 hs
      exact finishSend_locks (S := (· ∈ vsourceAccts env (.src s))) (st := { st with bal := b1 }) hV hfin hL
        (by simpa [vsourceAccts] using h1.1)
    | allot items => rw [evalSend_all_allot] at h; cases h

/-- the accounts in source position of one statement -/
def stmtSources (env : VEnv) : Stmt → List Acct
  | .send _ src _ => vsourceAccts env src
  | _ => []

theorem evalStmt_locks {env : VEnv} {S D : Acct → Prop} (hV : ∀ a, IsVarAcct env a → D a) {s : Stmt} {F F' : Full}
    (h : evalStmt env s F = .ok F') (hS : ∀ a ∈ stmtSources env s, S a) (hL : ∀ a ∈ stmtLits s, D a) :
    Appended S D F.st.postings F'.st.postings := by
  by_cases h1 : ∃ amt src d, s = .send amt src d
  · obtain ⟨amt, src, d, rfl⟩ := h1
    obtain ⟨st, hs, rfl⟩ := evalStmt_send_inv h
    have := evalSend_locks hV hs (fun a ha => hL a (by simp only [stmtLits, List.mem_append]; exact Or.inr ha))
    exact this.mono (fun x hx => hS x (by simpa [stmtSources] using hx)) (fun _ hx => hx)
  · by_cases h2 : ∃ e acc, s = .saveMon e acc
    · obtain ⟨e, acc, rfl⟩ := h2
      obtain ⟨ma, mn, a, t, _, _, _, _, rfl⟩ := evalStmt_saveMon_inv h
      exact Appended.refl S D _
    · by_cases h3 : ∃ ae acc, s = .saveAll ae acc
      · obtain ⟨ae, acc, rfl⟩ := h3
        obtain ⟨s, a, t, _, _, _, rfl⟩ := evalStmt_saveAll_inv h
        exact Appended.refl S D _
      · have := evalStmt_other_inv h (fun amt src d hs => h1 ⟨amt, src, d, hs⟩)
          (fun e acc hs => h2 ⟨e, acc, hs⟩) (fun ae acc hs => h3 ⟨ae, acc, hs⟩)
        rw [this]; exact Appended.refl S D _

theorem evalStmts_locks {env : VEnv} {S D : Acct → Prop} (hV : ∀ a, IsVarAcct env a → D a) :
    (ss : List Stmt) → (F F' : Full) → evalStmts env ss F = .ok F' →
    (∀ a ∈ ss.flatMap (stmtSources env), S a) → (∀ a ∈ ss.flatMap stmtLits, D a) →
    Appended S D F.st.postings F'.st.postings
  | [], F, F', h, _, _ => by
    simp only [evalStmts, Except.ok.injEq] at h
    rw [← h]; exact Appended.refl S D _
  | s :: ss, F, F', h, hS, hL => by
    obtain ⟨F1, h1, h2⟩ := evalStmts_cons_inv h
    have a1 := evalStmt_locks hV h1 (fun a ha => hS a (by simp only [List.flatMap_cons, List.mem_append]; exact Or.inl ha))
      (fun a ha => hL a (by simp only [List.flatMap_cons, List.mem_append]; exact Or.inl ha))
    have a2 := evalStmts_locks hV ss F1 F' h2
      (fun a ha => hS a (by simp only [List.flatMap_cons, List.mem_append]; exact Or.inr ha))
      (fun a ha => hL a (by simp only [List.flatMap_cons, List.mem_append]; exact Or.inr ha))
    exact a1.trans a2

/-! ### source accounts are literals of the source or account variables (so `lockWrite ⊆ lockRead`) -/

mutual
theorem sourceAccts_origin (env : VEnv) : (s : Source) → ∀ a ∈ sourceAccts env s, a ∈ sourceLits s ∨ IsVarAcct env a
  | .acct e od, a, ha => by
    simp only [sourceAccts] at ha
    cases he : evalAcct env e with
    | error er => simp [he] at ha
    | ok x =>
      simp only [he, List.mem_singleton] at ha
      subst ha
      rcases evalAcct_origin he with h | h
      · left; simp only [sourceLits, List.mem_append]; exact Or.inl h
      · exact Or.inr h
  | .maxed cap s, a, ha => by
    simp only [sourceAccts] at ha
    rcases sourceAccts_origin env s a ha with h | h
    · left; simp only [sourceLits, List.mem_append]; exact Or.inl h
    · exact Or.inr h
  | .inorder ss, a, ha => by
    simp only [sourceAccts] at ha
    rcases sourcesAccts_origin env ss a ha with h | h
    · left; simpa only [sourceLits] using h
    · exact Or.inr h
theorem sourcesAccts_origin (env : VEnv) : (ss : SourceList) → ∀ a ∈ sourcesAccts env ss, a ∈ sourcesLits ss ∨ IsVarAcct env a
  | .nil, a, ha => by simp [sourcesAccts] at ha
  | .cons s rest, a, ha => by
    simp only [sourcesAccts, List.mem_append] at ha
    rcases ha with ha | ha
    · rcases sourceAccts_origin env s a ha with h | h
      · left; simp only [sourcesLits, List.mem_append]; exact Or.inl h
      · exact Or.inr h
    · rcases sourcesAccts_origin env rest a ha with h | h
      · left; simp only [sourcesLits, List.mem_append]; exact Or.inr h
      · exact Or.inr h
end

theorem stmtSources_origin (env : VEnv) (s : Stmt) : ∀ a ∈ stmtSources env s, a ∈ stmtLits s ∨ IsVarAcct env a := by
  intro a ha
  cases s with
  | send amt src d =>
    simp only [stmtSources] at ha
    cases src with
    | src s0 =>
      simp only [vsourceAccts] at ha
      rcases sourceAccts_origin env s0 a ha with h | h
      · left; simp only [stmtLits, List.mem_append]; exact Or.inl (Or.inr h)
      · exact Or.inr h
    | allot items =>
      simp only [vsourceAccts, List.mem_flatMap] at ha
      obtain ⟨it, hit, hin⟩ := ha
      rcases sourceAccts_origin env it.2 a hin with h | h
      · left; simp only [stmtLits, List.mem_append, List.mem_flatMap]; exact Or.inl (Or.inr ⟨it, hit, h⟩)
      · exact Or.inr h
  | _ => simp [stmtSources] at ha

/-! ### the lists `lockRead` / `lockWrite` are built from -/

theorem mem_dedupFold {α : Type} [BEq α] [LawfulBEq α] (l acc : List α) (x : α) :
    x ∈ l.foldl (fun acc x => if acc.contains x then acc else acc ++ [x]) acc ↔ x ∈ acc ∨ x ∈ l := by
  induction l generalizing acc with
  | nil => simp
  | cons y ys ih =>
    rw [List.foldl_cons, ih]
    by_cases hc : acc.contains y = true
    · have hy : y ∈ acc := List.contains_iff_mem.mp hc
      rw [if_pos hc]
      simp only [List.mem_cons]
      constructor
      · rintro (h | h)
        · exact Or.inl h
        · exact Or.inr (Or.inr h)
      · rintro (h | h | h)
        · exact Or.inl h
        · exact Or.inl (h ▸ hy)
        · exact Or.inr h
    · rw [if_neg hc]
      simp only [List.mem_append, List.mem_cons, List.not_mem_nil, or_false]
      constructor
      · rintro ((h | h) | h)
        · exact Or.inl h
        · exact Or.inr (Or.inl h)
        · exact Or.inr (Or.inr h)
      · rintro (h | h | h)
        · exact Or.inl (Or.inl h)
        · exact Or.inl (Or.inr h)
        · exact Or.inr h

theorem mem_dedupSorted (l : List String) (x : String) : x ∈ dedupSorted l ↔ x ∈ l := by
  unfold dedupSorted
  rw [List.mem_mergeSort, mem_dedupFold]
  simp

theorem lockWrite_eq (P : Script) (env : VEnv) :
    lockWrite P env = dedupSorted ((P.stmts.flatMap (stmtSources env)).filter (· ≠ "world")) := by
  unfold lockWrite
  congr

theorem mem_lockWrite {P : Script} {env : VEnv} {a : Acct} :
    a ∈ lockWrite P env ↔ a ∈ P.stmts.flatMap (stmtSources env) ∧ a ≠ "world" := by
  rw [lockWrite_eq, mem_dedupSorted, List.mem_filter]
  simp

/-- the account-typed variables with their values -/
def varAccts (P : Script) (env : VEnv) : List Acct :=
  P.vars.filterMap (fun d => if d.ty = .account then (match lookupVar env d.name with | some (.acct a) => some a | _ => none) else none)

theorem lockRead_eq (P : Script) (env : VEnv) :
    lockRead P env = dedupSorted ((P.vars.flatMap declLits ++ P.stmts.flatMap stmtLits ++ varAccts P env).filter (· ≠ "world")) := by
  unfold lockRead varAccts
  congr

theorem mem_lockRead {P : Script} {env : VEnv} {a : Acct} :
    a ∈ lockRead P env ↔
      (a ∈ P.vars.flatMap declLits ∨ a ∈ P.stmts.flatMap stmtLits ∨ a ∈ varAccts P env) ∧ a ≠ "world" := by
  rw [lockRead_eq, mem_dedupSorted, List.mem_filter, List.mem_append, List.mem_append]
  simp [or_assoc]

theorem mem_varAccts {P : Script} {env : VEnv} {a : Acct} {d : VarDecl} (hd : d ∈ P.vars) (ht : d.ty = .account)
    (hl : lookupVar env d.name = some (.acct a)) : a ∈ varAccts P env := by
  unfold varAccts
  rw [List.mem_filterMap]
  exact ⟨d, hd, by simp [ht, hl]⟩

/-! ### the environment `prepare` builds: only variables declared `account` hold an account -/

/-- every account value in `env` belongs to a name declared (in `decls`) with type `account` -/
def EnvTyped (decls : List VarDecl) (env : VEnv) : Prop :=
  ∀ n a, (n, Val.acct a) ∈ env → ∃ d ∈ decls, d.name = n ∧ d.ty = .account

theorem parseValue_acct {ty : Ty} {raw : String} {a : Acct} (h : parseValue ty raw = some (.acct a)) : ty = .account := by
  cases ty with
  | account => rfl
  | asset => simp only [parseValue] at h; split at h <;> cases h
  | number => simp only [parseValue, Option.map_eq_some_iff] at h; obtain ⟨_, _, h⟩ := h; cases h
  | string => simp only [parseValue] at h; cases h
  | portion => simp only [parseValue, Option.map_eq_some_iff] at h; obtain ⟨_, _, h⟩ := h; cases h
  | monetary =>
    simp only [parseValue] at h
    split at h
    · split at h
      · split at h <;> cases h
      · cases h
    · cases h

theorem lookupVar_mem {env : VEnv} {n : String} {v : Val} (h : lookupVar env n = some v) : (n, v) ∈ env := by
  unfold lookupVar at h
  rw [Option.map_eq_some_iff] at h
  obtain ⟨⟨n', v'⟩, hf, hv⟩ := h
  have hp := List.find?_some hf
  have hm := List.mem_of_find?_eq_some hf
  simp only [decide_eq_true_eq] at hp
  simp only at hv
  subst hp hv
  exact hm

theorem EnvTyped.snoc {decls : List VarDecl} {env : VEnv} (h : EnvTyped decls env) {n : String} {v : Val}
    (hv : ∀ a, v = .acct a → ∃ d ∈ decls, d.name = n ∧ d.ty = .account) : EnvTyped decls (env ++ [(n, v)]) := by
  intro n' a hm
  rcases List.mem_append.mp hm with hm | hm
  · exact h n' a hm
  · simp only [List.mem_singleton, Prod.mk.injEq] at hm
    obtain ⟨rfl, hva⟩ := hm
    exact hv a hva.symm

/-- one step of the fold in `bindPlain` -/
def bindStep (vars : List (String × String)) (acc : Except Err VEnv) (d : VarDecl) : Except Err VEnv :=
  match acc with
  | .error er => .error er
  | .ok env =>
    match (vars.find? (·.1 = d.name)).map (·.2) with
    | none => .error .invalidVars
    | some raw => match parseValue d.ty raw with
      | none => .error .invalidVars
      | some v => .ok (env ++ [(d.name, v)])

theorem bindStep_ok {vars : List (String × String)} {acc : Except Err VEnv} {d : VarDecl} {e0 : VEnv}
    (h : bindStep vars acc d = .ok e0) : ∃ e1 raw v, acc = .ok e1 ∧ parseValue d.ty raw = some v ∧ e0 = e1 ++ [(d.name, v)] := by
  unfold bindStep at h
  split at h
  · cases h
  · rename_i e1
    split at h
    · cases h
    · rename_i raw _
      split at h
      · cases h
      · rename_i v hpv
        simp only [Except.ok.injEq] at h
        exact ⟨e1, raw, v, rfl, hpv, h.symm⟩

theorem bindFold_typed {decls : List VarDecl} (vars : List (String × String)) :
    (ds : List VarDecl) → (acc : Except Err VEnv) → (env : VEnv) → (∀ d ∈ ds, d ∈ decls) →
    (∀ e0, acc = .ok e0 → EnvTyped decls e0) → ds.foldl (bindStep vars) acc = .ok env → EnvTyped decls env
  | [], acc, env, _, hacc, hf => hacc env hf
  | d :: ds, acc, env, hsub, hacc, hf => by
    rw [List.foldl_cons] at hf
    refine bindFold_typed vars ds _ env (fun x hx => hsub x (List.mem_cons_of_mem _ hx)) ?_ hf
    intro e0 he0
    obtain ⟨e1, raw, v, rfl, hpv, rfl⟩ := bindStep_ok he0
    refine (hacc e1 rfl).snoc ?_
    intro a hva
    subst hva
    exact ⟨d, hsub d List.mem_cons_self, rfl, parseValue_acct hpv⟩

theorem bindPlain_eq (decls : List VarDecl) (vars : List (String × String)) :
    bindPlain decls vars =
      (match (decls.filter (fun d => match d.origin with | .none => true | _ => false)).foldl (bindStep vars) (.ok []) with
       | .error er => .error er
       | .ok env =>
         if vars.all (fun kv => (decls.filter (fun d => match d.origin with | .none => true | _ => false)).any
            (fun d => d.name = kv.1)) then .ok env else .error .invalidVars) := by
  unfold bindPlain
  rfl

theorem bindPlain_typed {decls : List VarDecl} {vars : List (String × String)} {env : VEnv}
    (h : bindPlain decls vars = .ok env) : EnvTyped decls env := by
  rw [bindPlain_eq] at h
  split at h
  · cases h
  · rename_i env0 hfold
    split at h
    · simp only [Except.ok.injEq] at h
      subst h
      exact bindFold_typed vars _ _ _ (fun d hd => (List.mem_filter.mp hd).1) (fun e0 he0 => by
        simp only [Except.ok.injEq] at he0; subst he0; intro n a hm; cases hm) hfold
    · cases h

theorem resolveVars_typed {decls : List VarDecl} (store : Store) {plain : VEnv} (hp : EnvTyped decls plain) :
    (ds : List VarDecl) → (env env' : VEnv) → (∀ d ∈ ds, d ∈ decls) → EnvTyped decls env →
    resolveVars store plain ds env = .ok env' → EnvTyped decls env'
  | [], env, env', _, he, h => by
    simp only [resolveVars, Except.ok.injEq] at h
    subst h; exact he
  | d :: ds, env, env', hsub, he, h => by
    have hsub' : ∀ x ∈ ds, x ∈ decls := fun x hx => hsub x (List.mem_cons_of_mem _ hx)
    have hd : d ∈ decls := hsub d List.mem_cons_self
    unfold resolveVars at h
    split at h
    · -- plain variable
      split at h
      · rename_i v hl
        refine resolveVars_typed store hp ds _ env' hsub' (he.snoc ?_) h
        intro a hva
        subst hva
        exact hp d.name a (lookupVar_mem hl)
      · cases h
    · -- meta
      split at h
      · cases h
      · split at h
        · cases h
        · split at h
          · cases h
          · rename_i v hpv
            refine resolveVars_typed store hp ds _ env' hsub' (he.snoc ?_) h
            intro a hva
            subst hva
            exact ⟨d, hd, rfl, parseValue_acct hpv⟩
    · -- balance
      split at h
      · cases h
      · split at h
        · cases h
        · refine resolveVars_typed store hp ds _ env' hsub' (he.snoc ?_) h
          intro a hva
          cases hva

theorem prepare_typed {P : Script} {req : Request} {store : Store} {env : VEnv} (h : prepare P req store = .ok env) :
    EnvTyped P.vars env := by
  unfold prepare at h
  split at h
  · cases h
  · split at h
    · cases h
    · rename_i plain hb
      exact resolveVars_typed store (bindPlain_typed hb) P.vars [] env (fun d hd => hd)
        (by intro n a hm; cases hm) h

/-- an account held by a variable of a prepared environment is enumerated by `lockRead` -/
theorem isVarAcct_varAccts {P : Script} {req : Request} {store : Store} {env : VEnv}
    (h : prepare P req store = .ok env) {a : Acct} (hv : IsVarAcct env a) : a ∈ varAccts P env := by
  obtain ⟨n, hl⟩ := hv
  obtain ⟨d, hd, hn, ht⟩ := prepare_typed h n a (lookupVar_mem hl)
  exact mem_varAccts hd ht (by rw [hn]; exact hl)

/-! ### the whole run -/

/-- a successful run, with the lock sets and the list of balances it reports -/
theorem run_inv_locks {P : Script} {req : Request} {store : Store} {r : Result} (h : run P req store = .ok r) :
    ∃ env F, prepare P req store = .ok env ∧
      evalStmts env P.stmts { st := { bal := initBal store (needed env P.stmts), postings := [] } } = .ok F ∧
      r.postings = F.st.postings ∧ r.lockRead = lockRead P env ∧ r.lockWrite = lockWrite P env ∧
      r.finalBal.map (·.1) = run.dedupPairs (needed env P.stmts) := by
  simp only [run] at h
  cases hp : prepare P req store with
  | error er => simp [hp] at h
  | ok env =>
    simp only [hp] at h
    cases hc : checkBalanceVars env P.vars with
    | error er => simp [hc] at h
    | ok u =>
      simp only [hc] at h
      cases he : evalStmts env P.stmts { st := { bal := initBal store (needed env P.stmts), postings := [] } } with
      | error er => simp [he] at h
      | ok F =>
        simp only [he] at h
        split at h
        · cases h
        · simp only [Except.ok.injEq] at h
          refine ⟨env, F, rfl, he, ?_, ?_, ?_, ?_⟩ <;> rw [← h]
          simp [List.map_map, Function.comp_def]

/-- **every posting of an accepted run**: its source is one of the accounts in source position (as evaluated), its
destination is an account literal of a statement or the value of a variable declared `account` -/
theorem run_postings_locked {P : Script} {req : Request} {store : Store} {r : Result} (h : run P req store = .ok r) :
    ∀ p ∈ r.postings, (p.src = "world" ∨ p.src ∈ r.lockWrite) ∧ (p.dst = "world" ∨ p.dst ∈ r.lockRead) := by
  obtain ⟨env, F, hp, he, hpost, hR, hW, _⟩ := run_inv_locks h
  have hV : ∀ a, IsVarAcct env a → (a ∈ P.stmts.flatMap stmtLits ∨ a ∈ varAccts P env) :=
    fun a ha => Or.inr (isVarAcct_varAccts hp ha)
  have := evalStmts_locks (S := (· ∈ P.stmts.flatMap (stmtSources env)))
    (D := fun a => a ∈ P.stmts.flatMap stmtLits ∨ a ∈ varAccts P env) hV P.stmts _ F he (fun a ha => ha)
    (fun a ha => Or.inl ha)
  obtain ⟨new, hnew, hall⟩ := this
  simp only [List.nil_append] at hnew
  intro p hpm
  rw [hpost, hnew] at hpm
  obtain ⟨hs, hd⟩ := hall p hpm
  constructor
  · by_cases hw : p.src = "world"
    · exact Or.inl hw
    · right; rw [hW, mem_lockWrite]; exact ⟨hs, hw⟩
  · by_cases hw : p.dst = "world"
    · exact Or.inl hw
    · right; rw [hR, mem_lockRead]
      exact ⟨hd.elim (fun x => Or.inr (Or.inl x)) (fun x => Or.inr (Or.inr x)), hw⟩

/-- every write-locked account is also in the read set (as `involvedAccounts ⊇ involvedSources` in the code) -/
theorem run_lockWrite_subset {P : Script} {req : Request} {store : Store} {r : Result} (h : run P req store = .ok r) :
    ∀ a ∈ r.lockWrite, a ∈ r.lockRead := by
  obtain ⟨env, F, hp, _, _, hR, hW, _⟩ := run_inv_locks h
  intro a ha
  rw [hW, mem_lockWrite] at ha
  rw [hR, mem_lockRead]
  refine ⟨?_, ha.2⟩
  obtain ⟨s, hs, has⟩ := List.mem_flatMap.mp ha.1
  rcases stmtSources_origin env s a has with hl | hv
  · exact Or.inr (Or.inl (List.mem_flatMap.mpr ⟨s, hs, hl⟩))
  · exact Or.inr (Or.inr (isVarAcct_varAccts hp hv))

/-! ### which balances a run reads: sources of sends (write-locked) and targets of `save` (read-locked) -/

/-- the accounts `save … from` names in one statement -/
def stmtSaves (env : VEnv) : Stmt → List Acct
  | .saveMon _ acc => (match evalAcct env acc with | .ok a => [a] | .error _ => [])
  | .saveAll _ acc => (match evalAcct env acc with | .ok a => [a] | .error _ => [])
  | _ => []

theorem neededOf_origin (env : VEnv) (s : Stmt) :
    ∀ k ∈ neededOf env s, k.1 ∈ stmtSources env s ∨ k.1 ∈ stmtSaves env s := by
  intro k hk
  cases s with
  | send amt src d =>
    left
    cases amt with
    | mon e =>
      simp only [neededOf] at hk
      split at hk
      · obtain ⟨x, hx, rfl⟩ := List.mem_map.mp hk; exact hx
      · cases hk
    | all ae =>
      simp only [neededOf] at hk
      split at hk
      · obtain ⟨x, hx, rfl⟩ := List.mem_map.mp hk; exact hx
      · cases hk
  | saveMon e acc =>
    right
    simp only [neededOf] at hk
    split at hk
    · rename_i s0 a0 _ ha
      simp only [List.mem_singleton] at hk
      subst hk
      simp [stmtSaves, ha]
    · cases hk
  | saveAll ae acc =>
    right
    simp only [neededOf] at hk
    split at hk
    · rename_i s0 a0 _ ha
      simp only [List.mem_singleton] at hk
      subst hk
      simp [stmtSaves, ha]
    · cases hk
  | setTxMeta _ _ => simp [neededOf] at hk
  | setAccountMeta _ _ _ => simp [neededOf] at hk
  | print _ => simp [neededOf] at hk
  | fail => simp [neededOf] at hk

theorem stmtSaves_origin (env : VEnv) (s : Stmt) : ∀ a ∈ stmtSaves env s, a ∈ stmtLits s ∨ IsVarAcct env a := by
  intro a ha
  cases s with
  | saveMon e acc =>
    simp only [stmtSaves] at ha
    cases he : evalAcct env acc with
    | error er => simp [he] at ha
    | ok x =>
      simp only [he, List.mem_singleton] at ha
      subst ha
      rcases evalAcct_origin he with h | h
      · left; simp only [stmtLits, List.mem_append]; exact Or.inr h
      · exact Or.inr h
  | saveAll ae acc =>
    simp only [stmtSaves] at ha
    cases he : evalAcct env acc with
    | error er => simp [he] at ha
    | ok x =>
      simp only [he, List.mem_singleton] at ha
      subst ha
      rcases evalAcct_origin he with h | h
      · left; simp only [stmtLits, List.mem_append]; exact Or.inr h
      · exact Or.inr h
  | _ => simp [stmtSaves] at ha

theorem mem_finalBal {P : Script} {r : Result} {env : VEnv}
    (hfb : r.finalBal.map (·.1) = run.dedupPairs (needed env P.stmts)) {k : (Acct × Asset) × Int} (hk : k ∈ r.finalBal) :
    k.1 ∈ needed env P.stmts := by
  have : k.1 ∈ r.finalBal.map (·.1) := List.mem_map.mpr ⟨k, hk, rfl⟩
  rw [hfb] at this
  unfold run.dedupPairs at this
  rw [mem_dedupFold] at this
  rcases this with h | h
  · cases h
  · exact h

/-- **every balance a run reads**: the account is `world`, or write-locked (a source of a send), or the target of a
`save` statement, which is read-locked (its balance cannot reach a posting unless the account is also a source —
and then it is write-locked) -/
theorem run_balances_locked {P : Script} {req : Request} {store : Store} {r : Result} (h : run P req store = .ok r) :
    ∀ k ∈ r.finalBal, k.1.1 = "world" ∨ k.1.1 ∈ r.lockWrite ∨
      (k.1.1 ∈ r.lockRead ∧ ∃ env, prepare P req store = .ok env ∧ k.1.1 ∈ P.stmts.flatMap (stmtSaves env)) := by
  obtain ⟨env, F, hp, _, _, hR, hW, hfb⟩ := run_inv_locks h
  intro k hk
  have hn := mem_finalBal hfb hk
  unfold needed at hn
  obtain ⟨s, hs, hks⟩ := List.mem_flatMap.mp hn
  by_cases hw : k.1.1 = "world"
  · exact Or.inl hw
  · right
    rcases neededOf_origin env s k.1 hks with hsrc | hsv
    · left; rw [hW, mem_lockWrite]; exact ⟨List.mem_flatMap.mpr ⟨s, hs, hsrc⟩, hw⟩
    · right
      refine ⟨?_, env, hp, List.mem_flatMap.mpr ⟨s, hs, hsv⟩⟩
      rw [hR, mem_lockRead]
      refine ⟨?_, hw⟩
      rcases stmtSaves_origin env s _ hsv with hl | hv
      · exact Or.inr (Or.inl (List.mem_flatMap.mpr ⟨s, hs, hl⟩))
      · exact Or.inr (Or.inr (isVarAcct_varAccts hp hv))

/-! ### tracked: the (source, asset) of every posting is one of the balances the run was started on

The set of tracked (account, asset) pairs never changes during a run (every update is of an existing entry), and
every part of every funding belongs to a tracked pair in the funding's asset. -/

/-- the tracked pairs of `b` are exactly `K` -/
def DomIs (K : Acct → Asset → Prop) (b : Bal) : Prop := ∀ x A, (b.get x A).isSome ↔ K x A

/-- every part of `f` belongs to a tracked (account, asset of `f`) -/
def Tracked (K : Acct → Asset → Prop) (f : Fund) : Prop := AcctsIn (fun x => K x f.asset) f.parts

theorem DomIs.upd {K : Acct → Asset → Prop} {b : Bal} (hd : DomIs K b) {a : Acct} {s : Asset} (hK : K a s) (v : Int) :
    DomIs K (b.upd a s v) := by
  intro x A
  rw [upd_get]
  by_cases hx : x = a ∧ A = s
  · obtain ⟨rfl, rfl⟩ := hx; simp [hK]
  · simp only [hx, if_false]; exact hd x A

theorem DomIs.of_get {K : Acct → Asset → Prop} {b : Bal} (hd : DomIs K b) {a : Acct} {s : Asset} {t : Int}
    (h : b.get a s = some t) : K a s := (hd a s).mp (by rw [h]; rfl)

theorem withdrawAll_dom {K : Acct → Asset → Prop} {b b' : Bal} {a : Acct} {s : Asset} {o : Int} {p : Part}
    (hd : DomIs K b) (h : withdrawAll b a s o = .ok (p, b')) : DomIs K b' ∧ K p.acct s := by
  obtain ⟨t, hb, h1 | h1⟩ := withdrawAll_inv h
  · obtain ⟨_, rfl, rfl⟩ := h1; exact ⟨hd.upd (hd.of_get hb) _, hd.of_get hb⟩
  · obtain ⟨_, rfl, rfl⟩ := h1; exact ⟨hd, hd.of_get hb⟩

theorem withdrawAlways_dom {K : Acct → Asset → Prop} {b b' : Bal} {a : Acct} {s : Asset} {n : Int} {p : Part}
    (hd : DomIs K b) (h : withdrawAlways b a s n = .ok (p, b')) : DomIs K b' ∧ K p.acct s := by
  obtain ⟨t, hb, rfl, rfl⟩ := withdrawAlways_inv h
  exact ⟨hd.upd (hd.of_get hb) _, hd.of_get hb⟩

theorem repay_dom {K : Acct → Asset → Prop} (s : Asset) : (ps : Parts) → (b : Bal) → DomIs K b →
    AcctsIn (fun x => K x s) ps → DomIs K (repay b s ps)
  | [], b, hd, _ => by simpa [repay] using hd
  | p :: ps, b, hd, hp => by
    unfold repay
    split
    · exact repay_dom s ps b hd hp.tail
    · exact repay_dom s ps _ (hd.upd hp.head _) hp.tail

theorem credit_dom {K : Acct → Asset → Prop} {b : Bal} (hd : DomIs K b) (d : Acct) (s : Asset) (f : Parts) :
    DomIs K (credit b d s f) := by
  unfold credit
  split
  · exact hd
  · split
    · exact hd
    · rename_i t ht; exact hd.upd (hd.of_get ht) _

theorem Tracked.pair {K : Acct → Asset → Prop} {k r : Fund} {a : Asset} {rem : Parts}
    (h : assemble [k, ⟨a, rem⟩] = .ok r) (hk : Tracked K k) (hr : AcctsIn (fun x => K x a) rem) : Tracked K r := by
  obtain ⟨h1, h2, h3⟩ := assemble_pair h
  unfold Tracked at hk ⊢
  rw [h3, h1]
  rw [h2] at hk
  exact concat_acctsIn hk hr

theorem Tracked.assemble {K : Acct → Asset → Prop} {fs : List Fund} {r : Fund} (h : assemble fs = .ok r)
    (hf : ∀ f ∈ fs, Tracked K f) : Tracked K r := by
  obtain ⟨_, hall, hp⟩ := assemble_ok h
  unfold Tracked
  rw [hp]
  exact catAll_acctsIn (AcctsIn.nil _) (fun f hf' => by
    have := hf f hf'; unfold Tracked at this; rw [hall f hf'] at this; exact this)

mutual
theorem evalSource_tracked (K : Acct → Asset → Prop) (env : VEnv) (asset : Asset) : (s : Source) → (b : Bal) →
    (f : Fund) → (fb : Option Acct) → (b' : Bal) → evalSource env asset s b = .ok (f, fb, b') → DomIs K b →
    DomIs K b' ∧ Tracked K f
  | .acct e od, b, f, fb, b', h, hd => by
    obtain ⟨a, oa, o, unb, p, _, _, hw, rfl, _⟩ := evalSource_acct_inv h
    have := withdrawAll_dom hd hw
    exact ⟨this.1, AcctsIn.cons this.2 (AcctsIn.nil _)⟩
  | .maxed cap s, b, f, fb, b', h, hd => by
    obtain ⟨f0, fb0, b1, ma, mn, hs, _, _, hfa, _, hc⟩ := evalSource_maxed_inv h
    have h0 := evalSource_tracked K env asset s b f0 fb0 b1 hs hd
    have htm := takeMax_acctsIn f0.parts mn h0.2
    have hd2 := repay_dom f0.asset _ b1 h0.1 htm.2
    rcases hc with ⟨_, rfl, rfl⟩ | ⟨w, p, _, hw, hasm⟩
    · exact ⟨hd2, htm.1⟩
    · have := withdrawAlways_dom hd2 hw
      exact ⟨this.1, Tracked.pair hasm htm.1 (AcctsIn.cons this.2 (AcctsIn.nil _))⟩
  | .inorder ss, b, f, fb, b', h, hd => by
    obtain ⟨fs, hs, hasm⟩ := evalSource_inorder_inv h
    have h0 := evalSources_tracked K env asset ss b fs fb b' hs hd
    exact ⟨h0.1, Tracked.assemble hasm h0.2⟩
theorem evalSources_tracked (K : Acct → Asset → Prop) (env : VEnv) (asset : Asset) : (ss : SourceList) → (b : Bal) →
    (fs : List Fund) → (fb : Option Acct) → (b' : Bal) → evalSources env asset ss b = .ok (fs, fb, b') → DomIs K b →
    DomIs K b' ∧ ∀ f ∈ fs, Tracked K f
  | .nil, b, fs, fb, b', h, hd => by
    obtain ⟨rfl, rfl, rfl⟩ := evalSources_nil_inv h
    exact ⟨hd, (by intro f hf; cases hf)⟩
  | .cons s rest, b, fs, fb, b', h, hd => by
    obtain ⟨f, fb1, b1, fs', fb2, hs, hr, rfl, _⟩ := evalSources_cons_inv h
    have h1 := evalSource_tracked K env asset s b f fb1 b1 hs hd
    have h2 := evalSources_tracked K env asset rest b1 fs' fb2 b' hr h1.1
    refine ⟨h2.1, ?_⟩
    intro g hg
    rcases List.mem_cons.mp hg with rfl | hg
    · exact h1.2
    · exact h2.2 g hg
end

theorem takeFromSource_tracked {K : Acct → Asset → Prop} {fb : Option Acct} {f t : Fund} {ma : Asset} {mn : Int}
    {b b' : Bal} (h : takeFromSource fb f ma mn b = .ok (t, b')) (hd : DomIs K b) (hf : Tracked K f) :
    DomIs K b' ∧ Tracked K t := by
  cases fb with
  | none =>
    obtain ⟨taken, rest, _, ht, rfl, rfl⟩ := takeFromSource_none_inv h
    have := take_acctsIn hf ht
    exact ⟨repay_dom _ _ _ hd this.2, this.1⟩
  | some w =>
    obtain ⟨p, _, hfa, hw, hasm⟩ := takeFromSource_some_inv h
    have htm := takeMax_acctsIn f.parts mn hf
    have hd2 := repay_dom f.asset _ b hd htm.2
    have := withdrawAlways_dom hd2 hw
    exact ⟨this.1, Tracked.pair hasm htm.1 (AcctsIn.cons this.2 (AcctsIn.nil _))⟩

theorem evalAllotSources_tracked (K : Acct → Asset → Prop) (env : VEnv) (asset ma : Asset) :
    (items : List (PortionSpec × Source)) → (parts : List Int) → (b b' : Bal) → (ts : List Fund) →
    evalAllotSources env asset ma items parts b = .ok (ts, b') → DomIs K b → DomIs K b' ∧ ∀ t ∈ ts, Tracked K t
  | [], parts, b, b', ts, h, hd => by
    obtain ⟨rfl, rfl⟩ := evalAllotSources_nil_inv h
    exact ⟨hd, (by intro t ht; cases ht)⟩
  | it :: rest, parts, b, b', ts, h, hd => by
    obtain ⟨p, ps, f, fb, b1, t, b2, ts', _, hs, ht, hr, rfl⟩ := evalAllotSources_cons_inv h
    have h1 := evalSource_tracked K env asset it.2 b f fb b1 hs hd
    have h2 := takeFromSource_tracked ht h1.1 h1.2
    have h3 := evalAllotSources_tracked K env asset ma rest ps b2 b' ts' hr h2.1
    refine ⟨h3.1, ?_⟩
    intro g hg
    rcases List.mem_cons.mp hg with rfl | hg
    · exact h2.2
    · exact h3.2 g hg

/-- postings are appended, each from a tracked (source, asset) -/
def AppendedT (K : Acct → Asset → Prop) (ps ps' : List Posting) : Prop :=
  ∃ new, ps' = ps ++ new ∧ ∀ p ∈ new, K p.src p.asset

theorem AppendedT.refl (K : Acct → Asset → Prop) (ps : List Posting) : AppendedT K ps ps :=
  ⟨[], by simp, by intro p hp; cases hp⟩

theorem AppendedT.trans {K : Acct → Asset → Prop} {a b c : List Posting} (h1 : AppendedT K a b) (h2 : AppendedT K b c) :
    AppendedT K a c := by
  obtain ⟨n1, rfl, hn1⟩ := h1
  obtain ⟨n2, rfl, hn2⟩ := h2
  refine ⟨n1 ++ n2, by rw [List.append_assoc], ?_⟩
  intro p hp
  rcases List.mem_append.mp hp with hp | hp
  · exact hn1 p hp
  · exact hn2 p hp

/-- what a destination does, seen from the tracked pairs -/
def MovesT (K : Acct → Asset → Prop) (f r : Fund) (st st' : St) : Prop :=
  DomIs K st'.bal ∧ Tracked K r ∧ r.asset = f.asset ∧ AppendedT K st.postings st'.postings

theorem MovesT.refl {K : Acct → Asset → Prop} {f : Fund} {st : St} (hd : DomIs K st.bal) (hf : Tracked K f) :
    MovesT K f f st st := ⟨hd, hf, rfl, AppendedT.refl K _⟩

theorem MovesT.trans {K : Acct → Asset → Prop} {f m r : Fund} {st st1 st2 : St} (h1 : MovesT K f m st st1)
    (h2 : MovesT K m r st1 st2) : MovesT K f r st st2 :=
  ⟨h2.1, h2.2.1, by rw [h2.2.2.1, h1.2.2.1], h1.2.2.2.trans h2.2.2.2⟩

theorem MovesT.pair {K : Acct → Asset → Prop} {f f1 k c : Fund} {a : Asset} {rem : Parts} {st st1 : St}
    (h1 : MovesT K f1 k st st1) (hasm : assemble [k, ⟨a, rem⟩] = .ok c) (hfa : f.asset = a)
    (hrem : AcctsIn (fun x => K x a) rem) : MovesT K f c st st1 :=
  ⟨h1.1, Tracked.pair hasm h1.2.1 hrem, by rw [(assemble_pair hasm).1, hfa], h1.2.2.2⟩

mutual
theorem evalDest_tracked (K : Acct → Asset → Prop) (env : VEnv) : (d : Dest) → (f r : Fund) → (st st' : St) →
    evalDest env d f st = .ok (r, st') → DomIs K st.bal → Tracked K f → MovesT K f r st st'
  | .acct e, f, r, st, st', h, hd, hf => by
    obtain ⟨taken, rest, a, ht, _, rfl, rfl⟩ := evalDest_acct_inv h
    have h2 := take_acctsIn hf ht
    refine ⟨credit_dom hd _ _ _, h2.2, rfl, taken.map (fun p => ⟨p.acct, a, p.amt, f.asset⟩), emit_postings _ _ _, ?_⟩
    intro p hp
    obtain ⟨q, hq, rfl⟩ := List.mem_map.mp hp
    exact h2.1 q hq
  | .inorder caps rest, f, r, st, st', h, hd, hf => by
    obtain ⟨kt, cur, st1, tk, rest2, r0, hc, ht, hk, hasm⟩ := evalDest_inorder_inv h
    have h1 := evalCaps_tracked K env caps 0 kt f cur st st1 hc hd hf
    have hcur : AcctsIn (fun x => K x f.asset) cur.parts := by
      have := h1.2.1; unfold Tracked at this; rw [h1.2.2.1] at this; exact this
    have h3 := take_acctsIn hcur.reverse ht
    have hk' := evalKD_tracked K env rest ⟨f.asset, rest2.reverse⟩ r0 st1 st' hk h1.1 h3.2.reverse
    exact h1.trans (hk'.pair (f := cur) hasm h1.2.2.1 h3.1.reverse)
  | .allot items, f, r, st, st', h, hd, hf => by
    obtain ⟨ps, _, ha⟩ := evalDest_allot_inv h
    exact evalAllot_tracked K env items _ f r st st' ha hd hf
theorem evalKD_tracked (K : Acct → Asset → Prop) (env : VEnv) : (kd : KeptOrDest) → (f r : Fund) → (st st' : St) →
    evalKD env kd f st = .ok (r, st') → DomIs K st.bal → Tracked K f → MovesT K f r st st'
  | .kept, f, r, st, st', h, hd, hf => by
    rw [evalKD_kept] at h
    simp only [Except.ok.injEq, Prod.mk.injEq] at h
    obtain ⟨rfl, rfl⟩ := h
    exact MovesT.refl hd hf
  | .to d, f, r, st, st', h, hd, hf => by
    rw [evalKD_to] at h
    exact evalDest_tracked K env d f r st st' h hd hf
theorem evalCaps_tracked (K : Acct → Asset → Prop) (env : VEnv) : (cs : CapList) → (kt kt' : Int) →
    (cur cur' : Fund) → (st st' : St) → evalCaps env cs kt cur st = .ok (kt', cur', st') → DomIs K st.bal →
    Tracked K cur → MovesT K cur cur' st st'
  | .nil, kt, kt', cur, cur', st, st', h, hd, hf => by
    obtain ⟨_, rfl, rfl⟩ := evalCaps_nil_inv h
    exact MovesT.refl hd hf
  | .cons cap kd rest, kt, kt', cur, cur', st, st', h, hd, hf => by
    obtain ⟨ma, mn, k, st1, c, _, _, _, hk, _, hasm, hr⟩ := evalCaps_cons_inv h
    have hs := takeMax_acctsIn cur.parts mn hf
    have hk' := evalKD_tracked K env kd ⟨cur.asset, (takeMax cur.parts mn).1⟩ k st st1 hk hd hs.1
    have h1 : MovesT K cur c st st1 := hk'.pair hasm rfl hs.2
    exact h1.trans (evalCaps_tracked K env rest _ kt' c cur' st1 st' hr h1.1 h1.2.1)
theorem evalAllot_tracked (K : Acct → Asset → Prop) (env : VEnv) : (items : AllotList) → (parts : List Int) →
    (cur r : Fund) → (st st' : St) → evalAllot env items parts cur st = .ok (r, st') → DomIs K st.bal →
    Tracked K cur → MovesT K cur r st st'
  | .nil, parts, cur, r, st, st', h, hd, hf => by
    obtain ⟨rfl, rfl⟩ := evalAllot_nil_inv h
    exact MovesT.refl hd hf
  | .cons ps0 kd rest, parts, cur, r, st, st', h, hd, hf => by
    obtain ⟨p, ps, taken, rem, k, st1, c, _, ht, hk, hasm, hr⟩ := evalAllot_cons_inv h
    have h2 := take_acctsIn hf ht
    have hk' := evalKD_tracked K env kd ⟨cur.asset, taken⟩ k st st1 hk hd h2.1
    have h1 : MovesT K cur c st st1 := hk'.pair hasm rfl h2.2
    exact h1.trans (evalAllot_tracked K env rest ps c r st1 st' hr h1.1 h1.2.1)
end

theorem finishSend_tracked {K : Acct → Asset → Prop} {env : VEnv} {d : Dest} {f : Fund} {st st' : St}
    (h : finishSend env d f st = .ok st') (hd : DomIs K st.bal) (hf : Tracked K f) :
    DomIs K st'.bal ∧ AppendedT K st.postings st'.postings := by
  obtain ⟨rest, st1, he, rfl⟩ := finishSend_inv h
  have := evalDest_tracked K env d f rest st st1 he hd hf
  exact ⟨repay_dom _ _ _ this.1 this.2.1, this.2.2.2⟩

theorem evalSend_tracked {K : Acct → Asset → Prop} {env : VEnv} {amt : SendAmt} {src : VSource} {d : Dest}
    {st st' : St} (h : evalSend env amt src d st = .ok st') (hd : DomIs K st.bal) :
    DomIs K st'.bal ∧ AppendedT K st.postings st'.postings := by
  cases amt with
  | mon e =>
    cases src with
    | src s =>
      obtain ⟨a, f, fb, b1, ma, mn, taken, b2, _, hs, _, ht, hfin⟩ := evalSend_mon_src_inv h
      have h1 := evalSource_tracked K env a s st.bal f fb b1 hs hd
      have h2 := takeFromSource_tracked ht h1.1 h1.2
      exact finishSend_tracked (st := { st with bal := b2 }) hfin h2.1 h2.2
    | allot items =>
      obtain ⟨ma, mn, a, ps, ts, b1, f, _, _, _, hs, hasm, hfin⟩ := evalSend_mon_allot_inv h
      have h1 := evalAllotSources_tracked K env a ma items _ st.bal b1 ts hs hd
      exact finishSend_tracked (st := { st with bal := b1 }) hfin h1.1 (Tracked.assemble hasm h1.2)
  | all ae =>
    cases src with
    | src s =>
      obtain ⟨a, f, fb, b1, _, hs, hfin⟩ := evalSend_all_src_inv h
      have h1 := evalSource_tracked K env a s st.bal f fb b1 hs hd
      exact finishSend_tracked (st := { st with bal := b1 }) hfin h1.1 h1.2
    | allot items => rw [evalSend_all_allot] at h; cases h

theorem evalStmt_tracked {K : Acct → Asset → Prop} {env : VEnv} {s : Stmt} {F F' : Full}
    (h : evalStmt env s F = .ok F') (hd : DomIs K F.st.bal) :
    DomIs K F'.st.bal ∧ AppendedT K F.st.postings F'.st.postings := by
  by_cases h1 : ∃ amt src d, s = .send amt src d
  · obtain ⟨amt, src, d, rfl⟩ := h1
    obtain ⟨st, hs, rfl⟩ := evalStmt_send_inv h
    exact evalSend_tracked hs hd
  · by_cases h2 : ∃ e acc, s = .saveMon e acc
    · obtain ⟨e, acc, rfl⟩ := h2
      obtain ⟨ma, mn, a, t, _, _, _, ht, rfl⟩ := evalStmt_saveMon_inv h
      exact ⟨hd.upd (hd.of_get ht) _, AppendedT.refl K _⟩
    · by_cases h3 : ∃ ae acc, s = .saveAll ae acc
      · obtain ⟨ae, acc, rfl⟩ := h3
        obtain ⟨s, a, t, _, _, ht, rfl⟩ := evalStmt_saveAll_inv h
        refine ⟨?_, AppendedT.refl K _⟩
        dsimp only
        split
        · exact hd.upd (hd.of_get ht) _
        · exact hd
      · have := evalStmt_other_inv h (fun amt src d hs => h1 ⟨amt, src, d, hs⟩)
          (fun e acc hs => h2 ⟨e, acc, hs⟩) (fun ae acc hs => h3 ⟨ae, acc, hs⟩)
        rw [this]; exact ⟨hd, AppendedT.refl K _⟩

theorem evalStmts_tracked {K : Acct → Asset → Prop} {env : VEnv} : (ss : List Stmt) → (F F' : Full) →
    evalStmts env ss F = .ok F' → DomIs K F.st.bal → DomIs K F'.st.bal ∧ AppendedT K F.st.postings F'.st.postings
  | [], F, F', h, hd => by
    simp only [evalStmts, Except.ok.injEq] at h
    rw [← h]; exact ⟨hd, AppendedT.refl K _⟩
  | s :: ss, F, F', h, hd => by
    obtain ⟨F1, h1, h2⟩ := evalStmts_cons_inv h
    have a1 := evalStmt_tracked h1 hd
    have a2 := evalStmts_tracked ss F1 F' h2 a1.1
    exact ⟨a2.1, a1.2.trans a2.2⟩

theorem initBal_dom (store : Store) (nd : List (Acct × Asset)) :
    DomIs (fun x A => nd.contains (x, A) = true) (initBal store nd) := by
  intro x A
  simp only [initBal]
  by_cases hc : nd.contains (x, A) = true
  · simp
  · simp

/-- **the (source, asset) of every posting of an accepted run is one of the balances the run read** -/
theorem run_postings_tracked {P : Script} {req : Request} {store : Store} {r : Result} (h : run P req store = .ok r) :
    ∀ p ∈ r.postings, (p.src, p.asset) ∈ r.finalBal.map (·.1) := by
  obtain ⟨env, F, _, he, hpost, _, _, hfb⟩ := run_inv_locks h
  have := evalStmts_tracked P.stmts _ F he (initBal_dom store (needed env P.stmts))
  obtain ⟨_, new, hnew, hall⟩ := this
  simp only [List.nil_append] at hnew
  intro p hp
  rw [hpost, hnew] at hp
  have hK := hall p hp
  rw [hfb]
  unfold run.dedupPairs
  rw [mem_dedupFold]
  exact Or.inr (List.contains_iff_mem.mp hK)

end Num
