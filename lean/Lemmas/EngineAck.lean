import Model.Engine.Ack
/-! Invariant of the `Ack` component (C06). -/
namespace Engine.Ack
open Engine

/-! ### association lists keyed by the request -/

theorem find_none {β : Type} (m : List (Nat × β)) (a : Nat)
    (h : (m.find? (·.1 = a)).map (·.2) = none) : ∀ l, (a, l) ∉ m := by
  intro l hl
  simp only [Option.map_eq_none_iff, List.find?_eq_none] at h
  have := h (a, l) hl
  simp at this

theorem find_some_mem {β : Type} (m : List (Nat × β)) (a : Nat) (l : β)
    (h : (m.find? (·.1 = a)).map (·.2) = some l) : (a, l) ∈ m := by
  cases hf : m.find? (·.1 = a) with
  | none => simp [hf] at h
  | some x =>
    simp only [hf, Option.map_some, Option.some.injEq] at h
    have hm := List.mem_of_find?_eq_some hf
    have hp := List.find?_some hf
    simp only [decide_eq_true_eq] at hp
    have : x = (a, l) := by cases x; simp_all
    rw [← this]; exact hm

theorem find_of_nodup {β : Type} (m : List (Nat × β)) (a : Nat) (l : β)
    (hn : (m.map (·.1)).Nodup) (hm : (a, l) ∈ m) : (m.find? (·.1 = a)).map (·.2) = some l := by
  induction m with
  | nil => cases hm
  | cons x m ih =>
    simp only [List.map_cons, List.nodup_cons] at hn
    rcases List.mem_cons.mp hm with hx | hx
    · subst hx; simp
    · have hne : x.1 ≠ a := by
        intro he
        apply hn.1
        rw [he]
        exact List.mem_map.mpr ⟨(a, l), hx, rfl⟩
      rw [List.find?_cons_of_neg (by simpa using hne)]
      exact ih hn.2 hx

theorem mem_tagsOf {xs : List (Nat × LogE)} {a : Nat} : a ∈ tagsOf xs ↔ ∃ l, (a, l) ∈ xs := by
  unfold tagsOf
  constructor
  · intro h
    obtain ⟨x, hx, rfl⟩ := List.mem_map.mp h
    exact ⟨x.2, hx⟩
  · rintro ⟨l, hl⟩
    exact List.mem_map.mpr ⟨(a, l), hl, rfl⟩

theorem tagsOf_append (xs ys : List (Nat × LogE)) : tagsOf (xs ++ ys) = tagsOf xs ++ tagsOf ys := by
  simp [tagsOf]

theorem logOf_none {s : S} {a : Nat} (h : logOf s a = none) : ∀ l, (a, l) ∉ s.mine := find_none s.mine a h

theorem logOf_mem {s : S} {a : Nat} {l : LogE} (h : logOf s a = some l) : (a, l) ∈ s.mine := find_some_mem s.mine a l h

theorem logOf_of_mem {dry : Nat → Bool} {s : S} (hi : Inv dry s) {a : Nat} {l : LogE} (h : (a, l) ∈ s.mine) :
    logOf s a = some l := find_of_nodup s.mine a l hi.once h

/-- what is persisted is tagged: every `written` entry is in the store -/
theorem written_durable {dry : Nat → Bool} {s : S} (hi : Inv dry s) {a : Nat} {l : LogE} (h : (a, l) ∈ s.written) :
    l ∈ s.durable := by
  rw [hi.store]
  exact List.mem_append_right _ (List.mem_map.mpr ⟨(a, l), h, rfl⟩)

theorem init_inv (dry : Nat → Bool) (funding : List LogE) : Inv dry (init funding) := by
  refine ⟨by simp [init], ?_, by simp [init, tagsOf], by simp [init, tagsOf], ?_, ?_, ?_, ?_, ?_, ?_⟩ <;>
    simp [init]

/-! ### the steps that leave the state alone -/

theorem arrive_same {dry : Nat → Bool} {s s' : S} {a : Nat} {pt : String}
    (h : step dry s (.arrive a pt) = .ok s') : s' = s := by
  simp only [step] at h
  split at h
  · split at h
    · split at h
      · simp only [Except.ok.injEq] at h; exact h.symm
      · cases h
    · cases h
  · simp only [Except.ok.injEq] at h; exact h.symm

/-- a request is woken only when the log it committed is persisted -/
theorem wake_requires_durable {dry : Nat → Bool} {s s' : S} {a : Nat}
    (h : step dry s (.arrive a "done") = .ok s') (hd : dry a = false) :
    ∃ l, logOf s a = some l ∧ (a, l) ∈ s.written := by
  simp only [step] at h
  split at h
  · split at h
    · rename_i l hl
      split at h
      · rename_i hw; exact ⟨l, hl, hw⟩
      · cases h
    · cases h
  · rename_i hc
    simp [hd] at hc

/-! ### the steps that change it -/

theorem commit_inv {dry : Nat → Bool} {s s' : S} {a : Nat} {l : LogE} {lt : Int} (hi : Inv dry s)
    (h : step dry s (.committed a l lt) = .ok s') : Inv dry s' := by
  simp only [step] at h
  split at h
  · cases h
  · rename_i hdry
    split at h
    · cases h
    · rename_i hlog
      split at h
      · cases h
      · rename_i hans
        simp only [Except.ok.injEq] at h
        subst h
        have hnone : logOf s a = none := by
          cases hl : logOf s a with
          | none => rfl
          | some x => simp [hl] at hlog
        have hfresh : ∀ l', (a, l') ∉ s.mine := logOf_none hnone
        have hkey : a ∉ tagsOf s.mine := by
          intro hk
          obtain ⟨l', hl'⟩ := mem_tagsOf.mp hk
          exact hfresh l' hl'
        have hkey2 : a ∉ tagsOf (s.written ++ s.pending) := by
          intro hk
          obtain ⟨l', hl'⟩ := mem_tagsOf.mp hk
          exact hfresh l' (hi.sub _ hl')
        have herr : a ∉ s.errs := by
          intro he
          apply hans
          simp [answered, he]
        have hack : ∀ x ∈ s.acks, x.a ≠ a := by
          intro x hx he
          apply hans
          simp only [answered, Bool.or_eq_true, List.any_eq_true, decide_eq_true_eq]
          exact Or.inr ⟨x, hx, he⟩
        have happ : s.written ++ (s.pending ++ [(a, l)]) = (s.written ++ s.pending) ++ [(a, l)] := by
          simp [List.append_assoc]
        refine ⟨hi.store, ?_, ?_, ?_, ?_, hi.acked, ?_, ?_, ?_, hi.foundOk⟩
        · intro x hx
          simp only [happ] at hx
          rcases List.mem_append.mp hx with hx | hx
          · exact List.mem_cons_of_mem _ (hi.sub x hx)
          · simp only [List.mem_singleton] at hx
            subst hx; exact List.mem_cons_self
        · show (tagsOf ((a, l) :: s.mine)).Nodup
          simp only [tagsOf, List.map_cons, List.nodup_cons]
          exact ⟨hkey, hi.once⟩
        · show (tagsOf (s.written ++ (s.pending ++ [(a, l)]))).Nodup
          rw [happ, tagsOf_append, List.nodup_append]
          refine ⟨hi.tags, by simp [tagsOf], ?_⟩
          intro x hx y hy hxy
          simp only [tagsOf, List.map_cons, List.map_nil, List.mem_singleton] at hy
          subst hy; subst hxy
          exact hkey2 hx
        · intro x hx
          rcases List.mem_cons.mp hx with hx | hx
          · subst hx; simpa using hdry
          · exact hi.real x hx
        · intro x hx l' hl'
          rcases List.mem_cons.mp hl' with he | hm
          · exact absurd (Prod.mk.inj he).1 (hack x hx)
          · exact hi.own x hx l' hm
        · intro b hb l' hl'
          rcases List.mem_cons.mp hl' with he | hm
          · have : b = a := (Prod.mk.inj he).1
            subst this; exact herr hb
          · exact hi.clean b hb l' hm
        · intro b hb
          have hl := hi.lost b hb
          refine ⟨?_, ?_⟩
          · show b ∈ tagsOf ((a, l) :: s.mine)
            simp only [tagsOf, List.map_cons]
            exact List.mem_cons_of_mem _ hl.1
          · show b ∉ tagsOf (s.written ++ (s.pending ++ [(a, l)]))
            rw [happ, tagsOf_append]
            intro hm
            rcases List.mem_append.mp hm with hm | hm
            · exact hl.2 hm
            · simp only [tagsOf, List.map_cons, List.map_nil, List.mem_singleton] at hm
              subst hm; exact hkey hl.1

theorem gate_inv {dry : Nat → Bool} {s s' : S} {n : Nat} {ok : Bool} (hi : Inv dry s)
    (h : step dry s (.gate n ok) = .ok s') : Inv dry s' := by
  simp only [step] at h
  split at h
  · cases h
  · cases ok with
    | false => simp at h; subst h; exact hi
    | true =>
      simp only [if_true, Except.ok.injEq] at h
      subst h
      have hall : (s.written ++ s.pending.take n) ++ s.pending.drop n = s.written ++ s.pending := by
        rw [List.append_assoc, List.take_append_drop]
      refine ⟨?_, ?_, hi.once, ?_, hi.real, ?_, ?_, hi.clean, ?_, ?_⟩
      · show s.durable ++ (s.pending.take n).map (·.2) = s.base ++ (s.written ++ s.pending.take n).map (·.2)
        rw [hi.store, List.map_append, List.append_assoc]
      · intro x hx
        apply hi.sub
        rw [← hall]; exact hx
      · show (tagsOf ((s.written ++ s.pending.take n) ++ s.pending.drop n)).Nodup
        rw [hall]; exact hi.tags
      · intro x hx
        obtain ⟨h1, h2, h3⟩ := hi.acked x hx
        exact ⟨List.mem_append_left _ h1, h2, h3⟩
      · intro x hx l hl
        obtain ⟨h1, h2⟩ := hi.own x hx l hl
        exact ⟨h1, List.mem_append_left _ h2⟩
      · intro b hb
        have hl := hi.lost b hb
        refine ⟨hl.1, ?_⟩
        show b ∉ tagsOf ((s.written ++ s.pending.take n) ++ s.pending.drop n)
        rw [hall]; exact hl.2
      · intro x hx
        exact List.mem_append_left _ (hi.foundOk x hx)

theorem crash_inv {dry : Nat → Bool} {s s' : S} (hi : Inv dry s)
    (h : step dry s .crash = .ok s') : Inv dry s' := by
  simp only [step, Except.ok.injEq] at h
  subst h
  have hnd := hi.tags
  rw [tagsOf_append, List.nodup_append] at hnd
  refine ⟨hi.store, ?_, hi.once, ?_, hi.real, hi.acked, hi.own, hi.clean, ?_, hi.foundOk⟩
  · intro x hx
    simp only [List.append_nil] at hx
    exact hi.sub x (List.mem_append_left _ hx)
  · show (tagsOf (s.written ++ [])).Nodup
    simp only [List.append_nil]; exact hnd.1
  · intro b hb
    show b ∈ tagsOf s.mine ∧ b ∉ tagsOf (s.written ++ [])
    simp only [List.append_nil]
    rcases List.mem_append.mp hb with hb | hb
    · have hb' : b ∈ tagsOf s.pending := hb
      refine ⟨?_, ?_⟩
      · obtain ⟨l, hl⟩ := mem_tagsOf.mp hb'
        exact mem_tagsOf.mpr ⟨l, hi.sub _ (List.mem_append_right _ hl)⟩
      · intro hw
        exact hnd.2.2 b hw b hb' rfl
    · have hl := hi.lost b hb
      refine ⟨hl.1, ?_⟩
      intro hw
      apply hl.2
      rw [tagsOf_append]; exact List.mem_append_left _ hw

theorem ikRead_inv {dry : Nat → Bool} {s s' : S} {a : Nat} {key : String} {found : Option Nat} (hi : Inv dry s)
    (h : step dry s (.ikRead a key found) = .ok s') : Inv dry s' := by
  cases found with
  | none => simp only [step, Except.ok.injEq] at h; subst h; exact hi
  | some id =>
    simp only [step] at h
    split at h
    · rename_i l hl
      simp only [Except.ok.injEq] at h
      subst h
      refine ⟨hi.store, hi.sub, hi.once, hi.tags, hi.real, hi.acked, hi.own, hi.clean, hi.lost, ?_⟩
      intro x hx
      rcases List.mem_cons.mp hx with hx | hx
      · subst hx; exact List.mem_of_find?_eq_some hl
      · exact hi.foundOk x hx
    · cases h

theorem finish_inv {dry : Nat → Bool} {s s' : S} {a : Nat} {ok : Bool} {err : String} {txid : Option Nat}
    (hi : Inv dry s) (h : step dry s (.finish a ok err txid) = .ok s') : Inv dry s' := by
  cases ok with
  | false =>
    simp only [step] at h
    split at h
    · cases h
    · rename_i hlog
      simp only [Except.ok.injEq] at h
      subst h
      have hnone : logOf s a = none := by
        cases hl : logOf s a with
        | none => rfl
        | some x => simp [hl] at hlog
      refine ⟨hi.store, hi.sub, hi.once, hi.tags, hi.real, hi.acked, hi.own, ?_, hi.lost, hi.foundOk⟩
      intro b hb l
      rcases List.mem_cons.mp hb with hb | hb
      · subst hb; exact logOf_none hnone l
      · exact hi.clean b hb l
  | true =>
    simp only [step] at h
    split at h
    · simp only [Except.ok.injEq] at h; subst h; exact hi
    · rename_i hdry
      have hdry' : dry a = false := by simpa using hdry
      split at h
      · rename_i l hl
        split at h
        · cases h
        · rename_i hw
          split at h
          · cases h
          · rename_i hc
            simp only [Except.ok.injEq] at h
            subst h
            have hw' : (a, l) ∈ s.written := by simpa using hw
            refine ⟨hi.store, hi.sub, hi.once, hi.tags, hi.real, ?_, ?_, hi.clean, hi.lost, hi.foundOk⟩
            · intro x hx
              rcases List.mem_cons.mp hx with hx | hx
              · subst hx
                refine ⟨written_durable hi hw', ?_, hdry'⟩
                intro htx
                apply Classical.byContradiction
                intro hne
                exact hc ⟨htx, hne⟩
              · exact hi.acked x hx
            · intro x hx l' hl'
              rcases List.mem_cons.mp hx with hx | hx
              · subst hx
                have := logOf_of_mem hi hl'
                rw [hl] at this
                cases this
                exact ⟨rfl, hw'⟩
              · exact hi.own x hx l' hl'
      · rename_i hl
        split at h
        · rename_i l hf
          split at h
          · cases h
          · rename_i hc
            simp only [Except.ok.injEq] at h
            subst h
            have hfm : (a, l) ∈ s.found := find_some_mem s.found a l hf
            refine ⟨hi.store, hi.sub, hi.once, hi.tags, hi.real, ?_, ?_, hi.clean, hi.lost, hi.foundOk⟩
            · intro x hx
              rcases List.mem_cons.mp hx with hx | hx
              · subst hx
                refine ⟨hi.foundOk _ hfm, ?_, hdry'⟩
                intro htx
                apply Classical.byContradiction
                intro hne
                exact hc ⟨htx, hne⟩
              · exact hi.acked x hx
            · intro x hx l' hl'
              rcases List.mem_cons.mp hx with hx | hx
              · subst hx
                exact absurd hl' (logOf_none hl l')
              · exact hi.own x hx l' hl'
        · cases h

/-- every accepted event preserves the invariant, whatever requests are previews -/
theorem step_inv (dry : Nat → Bool) (s : S) (e : Ev) (s' : S) (hi : Inv dry s) (h : step dry s e = .ok s') :
    Inv dry s' := by
  cases e with
  | committed a l lt => exact commit_inv hi h
  | gate n ok => exact gate_inv hi h
  | crash => exact crash_inv hi h
  | ikRead a key found => exact ikRead_inv hi h
  | arrive a pt => rw [arrive_same h]; exact hi
  | finish a ok err txid => exact finish_inv hi h
  | resume _ _ => simp [step] at h; subst h; exact hi
  | refRead _ _ _ => simp [step] at h; subst h; exact hi
  | txRead _ _ _ _ => simp [step] at h; subst h; exact hi
  | balRead _ _ _ _ => simp [step] at h; subst h; exact hi
  | lock _ _ _ => simp [step] at h; subst h; exact hi
  | unlock _ => simp [step] at h; subst h; exact hi
  | publish _ _ => simp [step] at h; subst h; exact hi
  | taken _ _ _ _ => simp [step] at h; subst h; exact hi

/-! ### what only grows -/

/-- `s'` extends `s`: the store only grows at its end; commits, answers and losses are never forgotten -/
structure Ext (s s' : S) : Prop where
  base : s'.base = s.base
  durable : ∃ t, s'.durable = s.durable ++ t
  mine : ∀ x ∈ s.mine, x ∈ s'.mine
  acks : ∀ x ∈ s.acks, x ∈ s'.acks
  errs : ∀ a ∈ s.errs, a ∈ s'.errs
  dropped : ∀ a ∈ s.dropped, a ∈ s'.dropped

theorem Ext.refl (s : S) : Ext s s :=
  ⟨rfl, ⟨[], by simp⟩, fun _ h => h, fun _ h => h, fun _ h => h, fun _ h => h⟩

theorem Ext.trans {s₁ s₂ s₃ : S} (h₁ : Ext s₁ s₂) (h₂ : Ext s₂ s₃) : Ext s₁ s₃ := by
  obtain ⟨t₁, e₁⟩ := h₁.durable
  obtain ⟨t₂, e₂⟩ := h₂.durable
  refine ⟨h₂.base.trans h₁.base, ⟨t₁ ++ t₂, by rw [e₂, e₁, List.append_assoc]⟩, ?_, ?_, ?_, ?_⟩
  · exact fun x h => h₂.mine x (h₁.mine x h)
  · exact fun x h => h₂.acks x (h₁.acks x h)
  · exact fun x h => h₂.errs x (h₁.errs x h)
  · exact fun x h => h₂.dropped x (h₁.dropped x h)

theorem step_ext (dry : Nat → Bool) (s : S) (e : Ev) (s' : S) (h : step dry s e = .ok s') : Ext s s' := by
  cases e with
  | committed a l lt =>
    simp only [step] at h
    split at h
    · cases h
    · split at h
      · cases h
      · split at h
        · cases h
        · simp only [Except.ok.injEq] at h
          subst h
          exact ⟨rfl, ⟨[], by simp⟩, fun _ h => List.mem_cons_of_mem _ h, fun _ h => h, fun _ h => h, fun _ h => h⟩
  | gate n ok =>
    simp only [step] at h
    split at h
    · cases h
    · cases ok with
      | false => simp at h; subst h; exact Ext.refl s
      | true =>
        simp only [if_true, Except.ok.injEq] at h
        subst h
        exact ⟨rfl, ⟨_, rfl⟩, fun _ h => h, fun _ h => h, fun _ h => h, fun _ h => h⟩
  | crash =>
    simp only [step, Except.ok.injEq] at h
    subst h
    exact ⟨rfl, ⟨[], by simp⟩, fun _ h => h, fun _ h => h, fun _ h => h, fun _ h => List.mem_append_right _ h⟩
  | ikRead a key found =>
    cases found with
    | none => simp only [step, Except.ok.injEq] at h; subst h; exact Ext.refl s
    | some id =>
      simp only [step] at h
      split at h
      · simp only [Except.ok.injEq] at h
        subst h
        exact ⟨rfl, ⟨[], by simp⟩, fun _ h => h, fun _ h => h, fun _ h => h, fun _ h => h⟩
      · cases h
  | arrive a pt => rw [arrive_same h]; exact Ext.refl s
  | finish a ok err txid =>
    cases ok with
    | false =>
      simp only [step] at h
      split at h
      · cases h
      · simp only [Except.ok.injEq] at h
        subst h
        exact ⟨rfl, ⟨[], by simp⟩, fun _ h => h, fun _ h => h, fun _ h => List.mem_cons_of_mem _ h, fun _ h => h⟩
    | true =>
      simp only [step] at h
      split at h
      · simp only [Except.ok.injEq] at h; subst h; exact Ext.refl s
      · split at h
        · split at h
          · cases h
          · split at h
            · cases h
            · simp only [Except.ok.injEq] at h
              subst h
              exact ⟨rfl, ⟨[], by simp⟩, fun _ h => h, fun _ h => List.mem_cons_of_mem _ h, fun _ h => h, fun _ h => h⟩
        · split at h
          · split at h
            · cases h
            · simp only [Except.ok.injEq] at h
              subst h
              exact ⟨rfl, ⟨[], by simp⟩, fun _ h => h, fun _ h => List.mem_cons_of_mem _ h, fun _ h => h, fun _ h => h⟩
          · cases h
  | resume _ _ => simp [step] at h; subst h; exact Ext.refl s
  | refRead _ _ _ => simp [step] at h; subst h; exact Ext.refl s
  | txRead _ _ _ _ => simp [step] at h; subst h; exact Ext.refl s
  | balRead _ _ _ _ => simp [step] at h; subst h; exact Ext.refl s
  | lock _ _ _ => simp [step] at h; subst h; exact Ext.refl s
  | unlock _ => simp [step] at h; subst h; exact Ext.refl s
  | publish _ _ => simp [step] at h; subst h; exact Ext.refl s
  | taken _ _ _ _ => simp [step] at h; subst h; exact Ext.refl s

theorem run_ext (dry : Nat → Bool) (es : List Ev) (s s' : S) (h : runOn (step dry) s es = .ok s') : Ext s s' := by
  induction es generalizing s with
  | nil => simp [runOn] at h; subst h; exact Ext.refl s
  | cons e es ih =>
    simp only [runOn] at h
    cases hs : step dry s e with
    | error m => simp [hs] at h
    | ok s1 => simp only [hs] at h; exact (step_ext dry s e s1 hs).trans (ih s1 h)

theorem run_inv (dry : Nat → Bool) (es : List Ev) (s s' : S) (hi : Inv dry s) (h : runOn (step dry) s es = .ok s') :
    Inv dry s' :=
  runOn_inv (step dry) (Inv dry) (step_inv dry) es s s' hi h

/-! ### consequences of the invariant used by the property theorems -/

/-- a request whose log is not (or no longer) among the persisted ones of this run cannot be woken nor answered
successfully: the machine rejects both events -/
theorem unpersisted_rejected {dry : Nat → Bool} {s : S} (hi : Inv dry s) {a : Nat} (hm : a ∈ tagsOf s.mine)
    (hw : a ∉ tagsOf s.written) (err : String) (t : Option Nat) :
    (∃ m, step dry s (.arrive a "done") = .error m) ∧ (∃ m, step dry s (.finish a true err t) = .error m) := by
  obtain ⟨l, hl⟩ := mem_tagsOf.mp hm
  have hlog := logOf_of_mem hi hl
  have hd : dry a = false := hi.real _ hl
  have hnw : (a, l) ∉ s.written := fun h => hw (mem_tagsOf.mpr ⟨l, h⟩)
  constructor
  · exact ⟨"ack: woken before its log was persisted", by simp [step, hd, hlog, hnw]⟩
  · exact ⟨"ack: acknowledged before persisted", by simp [step, hd, hlog, hnw]⟩

theorem pending_not_written {dry : Nat → Bool} {s : S} (hi : Inv dry s) {x : Nat × LogE} (hx : x ∈ s.pending) :
    x.1 ∈ tagsOf s.mine ∧ x.1 ∉ tagsOf s.written := by
  have hnd := hi.tags
  rw [tagsOf_append, List.nodup_append] at hnd
  have hp : x.1 ∈ tagsOf s.pending := mem_tagsOf.mpr ⟨x.2, hx⟩
  exact ⟨mem_tagsOf.mpr ⟨x.2, hi.sub x (List.mem_append_right _ hx)⟩, fun hw => hnd.2.2 x.1 hw x.1 hp rfl⟩

theorem dropped_not_acked {dry : Nat → Bool} {s : S} (hi : Inv dry s) {a : Nat} (ha : a ∈ s.dropped) :
    ∀ y ∈ s.acks, y.a ≠ a := by
  intro y hy he
  obtain ⟨hm, hn⟩ := hi.lost a ha
  obtain ⟨l, hl⟩ := mem_tagsOf.mp hm
  have := (hi.own y hy l (by rw [he]; exact hl)).2
  apply hn
  rw [tagsOf_append]
  exact List.mem_append_left _ (mem_tagsOf.mpr ⟨l, by rw [← he]; exact this⟩)

end Engine.Ack
