import Model.Numscript.Funding
/-! Lemmas about the funding algebra (A0). -/
namespace Num

def NonNeg (f : Parts) : Prop := ∀ p ∈ f, 0 ≤ p.amt

/-- amount of account `x` inside a funding -/
def amtOf (f : Parts) (x : Acct) : Int := ((f.filter (fun p => p.acct = x)).map (·.amt)).sum

@[simp] theorem total_nil : total [] = 0 := rfl
@[simp] theorem total_cons (p : Part) (f : Parts) : total (p :: f) = p.amt + total f := by
  simp [total]
theorem total_append (f g : Parts) : total (f ++ g) = total f + total g := by
  induction f with
  | nil => simp
  | cons p ps ih => simp [ih]; omega

@[simp] theorem amtOf_nil (x : Acct) : amtOf [] x = 0 := rfl
theorem amtOf_cons (p : Part) (f : Parts) (x : Acct) :
    amtOf (p :: f) x = (if p.acct = x then p.amt else 0) + amtOf f x := by
  unfold amtOf
  by_cases h : p.acct = x <;> simp [List.filter_cons, h]
theorem amtOf_append (f g : Parts) (x : Acct) : amtOf (f ++ g) x = amtOf f x + amtOf g x := by
  induction f with
  | nil => simp
  | cons p ps ih => simp [amtOf_cons, ih]; omega

theorem NonNeg.tail {p : Part} {f : Parts} (h : NonNeg (p :: f)) : NonNeg f :=
  fun q hq => h q (List.mem_cons_of_mem _ hq)
theorem NonNeg.head {p : Part} {f : Parts} (h : NonNeg (p :: f)) : 0 ≤ p.amt := h p List.mem_cons_self
theorem NonNeg.cons {p : Part} {f : Parts} (hp : 0 ≤ p.amt) (h : NonNeg f) : NonNeg (p :: f) := by
  intro q hq
  rcases List.mem_cons.mp hq with rfl | hq
  · exact hp
  · exact h q hq
theorem NonNeg.append {f g : Parts} (hf : NonNeg f) (hg : NonNeg g) : NonNeg (f ++ g) := by
  intro q hq
  rcases List.mem_append.mp hq with h | h
  · exact hf q h
  · exact hg q h
theorem nonNeg_nil : NonNeg [] := fun _ h => by simp at h

theorem total_nonneg {f : Parts} (h : NonNeg f) : 0 ≤ total f := by
  induction f with
  | nil => simp
  | cons p ps ih => have := h.head; have := ih h.tail; simp; omega

theorem amtOf_nonneg {f : Parts} (x : Acct) (h : NonNeg f) : 0 ≤ amtOf f x := by
  induction f with
  | nil => simp
  | cons p ps ih =>
    have := h.head; have := ih h.tail
    rw [amtOf_cons]; split <;> omega

/-! ### takeLoop -/

/-- conservation: what is taken plus what remains is what was there -/
theorem takeLoop_total (f : Parts) (n : Int) :
    total (takeLoop f n).1 + total (takeLoop f n).2.1 = total f := by
  induction f generalizing n with
  | nil => simp [takeLoop]
  | cons p ps ih =>
    by_cases hn : n > 0
    · by_cases hgt : p.amt > n
      · simp [takeLoop, hn, hgt]; omega
      · have := ih (n - p.amt)
        simp only [takeLoop, hn, hgt, if_true, if_false, total_cons]; omega
    · simp [takeLoop, hn]

/-- per account conservation -/
theorem takeLoop_amtOf (f : Parts) (n : Int) (x : Acct) :
    amtOf (takeLoop f n).1 x + amtOf (takeLoop f n).2.1 x = amtOf f x := by
  induction f generalizing n with
  | nil => simp [takeLoop]
  | cons p ps ih =>
    by_cases hn : n > 0
    · by_cases hgt : p.amt > n
      · simp only [takeLoop, hn, hgt, if_true, amtOf_cons, amtOf_nil]
        split <;> omega
      · have := ih (n - p.amt)
        simp only [takeLoop, hn, hgt, if_true, if_false, amtOf_cons]; omega
    · simp [takeLoop, hn]

/-- what is taken is `n` minus what is still missing (for a non-negative request) -/
theorem takeLoop_taken (f : Parts) (n : Int) (hn : 0 ≤ n) (hf : NonNeg f) :
    total (takeLoop f n).1 = n - (takeLoop f n).2.2 ∧ 0 ≤ (takeLoop f n).2.2 := by
  induction f generalizing n with
  | nil => simp [takeLoop]; omega
  | cons p ps ih =>
    have hp := hf.head
    by_cases hn' : n > 0
    · by_cases hgt : p.amt > n
      · simp [takeLoop, hn', hgt]
      · have := ih (n - p.amt) (by omega) hf.tail
        simp only [takeLoop, hn', hgt, if_true, if_false, total_cons]; omega
    · simp [takeLoop, hn']; omega

theorem takeLoop_nonneg (f : Parts) (n : Int) (h : NonNeg f) :
    NonNeg (takeLoop f n).1 ∧ NonNeg (takeLoop f n).2.1 := by
  induction f generalizing n with
  | nil => simp [takeLoop, nonNeg_nil]
  | cons p ps ih =>
    have hp := h.head
    have hps := h.tail
    by_cases hn : n > 0
    · by_cases hgt : p.amt > n
      · simp only [takeLoop, hn, hgt, if_true]
        exact ⟨NonNeg.cons (by simp; omega) nonNeg_nil, NonNeg.cons (by simp; omega) hps⟩
      · have := ih (n - p.amt) hps
        simp only [takeLoop, hn, hgt, if_true, if_false]
        exact ⟨NonNeg.cons hp this.1, this.2⟩
    · simp only [takeLoop, hn, if_false]
      exact ⟨nonNeg_nil, h⟩

/-- if the funding holds at least `n`, nothing is missing -/
theorem takeLoop_enough (f : Parts) (n : Int) (hf : NonNeg f) (h : n ≤ total f) (hn : 0 ≤ n) :
    (takeLoop f n).2.2 = 0 := by
  induction f generalizing n with
  | nil => simp at h; simp [takeLoop]; omega
  | cons p ps ih =>
    by_cases hn' : n > 0
    · by_cases hgt : p.amt > n
      · simp [takeLoop, hn', hgt]
      · have hp := hf.head
        have := ih (n - p.amt) hf.tail (by simp at h; omega) (by omega)
        simp only [takeLoop, hn', hgt, if_true, if_false]; exact this
    · simp [takeLoop, hn']; omega

/-- if the funding holds less than `n`, the shortfall is exactly the difference and everything is taken -/
theorem takeLoop_short (f : Parts) (n : Int) (hf : NonNeg f) (h : total f < n) :
    (takeLoop f n).2.2 = n - total f ∧ (takeLoop f n).2.1 = [] := by
  induction f generalizing n with
  | nil => simp [takeLoop]
  | cons p ps ih =>
    have hp := hf.head
    have htp := total_nonneg hf.tail
    simp at h
    have hn' : n > 0 := by omega
    have hgt : ¬ p.amt > n := by omega
    have := ih (n - p.amt) hf.tail (by omega)
    simp only [takeLoop, hn', hgt, if_true, if_false, total_cons]
    exact ⟨by omega, this.2⟩

/-! ### take / takeMax -/

theorem takeMax_total (f : Parts) (n : Int) : total (takeMax f n).1 + total (takeMax f n).2 = total f := by
  simpa [takeMax] using takeLoop_total f n

theorem takeMax_amtOf (f : Parts) (n : Int) (x : Acct) :
    amtOf (takeMax f n).1 x + amtOf (takeMax f n).2 x = amtOf f x := by
  simpa [takeMax] using takeLoop_amtOf f n x

theorem takeMax_nonneg (f : Parts) (n : Int) (h : NonNeg f) : NonNeg (takeMax f n).1 ∧ NonNeg (takeMax f n).2 := by
  simpa [takeMax] using takeLoop_nonneg f n h

/-- a cap is never exceeded, and is reached whenever the funding can reach it -/
theorem takeMax_le (f : Parts) (n : Int) (hn : 0 ≤ n) (hf : NonNeg f) :
    total (takeMax f n).1 ≤ n ∧ total (takeMax f n).1 = min n (total f) := by
  have h1 := takeLoop_taken f n hn hf
  by_cases h : n ≤ total f
  · have := takeLoop_enough f n hf h hn
    simp only [takeMax]; omega
  · have := takeLoop_short f n hf (by omega)
    simp only [takeMax]; omega

theorem takeLoop_nonpos (f : Parts) (n : Int) (hn : n ≤ 0) : takeLoop f n = ([], f, n) := by
  cases f with
  | nil => simp [takeLoop]
  | cons p ps => have : ¬ n > 0 := by omega
                 simp [takeLoop, this]

theorem takePre_total (f : Parts) (n : Int) : total (takePre f n) = 0 := by
  unfold takePre; split
  · cases f <;> simp
  · simp
theorem takePre_amtOf (f : Parts) (n : Int) (x : Acct) : amtOf (takePre f n) x = 0 := by
  unfold takePre; split
  · cases f <;> simp [amtOf_cons]
  · simp
theorem takePre_nonneg (f : Parts) (n : Int) : NonNeg (takePre f n) := by
  unfold takePre; split
  · cases f with
    | nil => exact nonNeg_nil
    | cons p ps => exact NonNeg.cons (by simp) nonNeg_nil
  · exact nonNeg_nil

theorem take_eq_some {f : Parts} {n : Int} {t r : Parts} (h : take f n = some (t, r)) :
    (takeLoop f n).2.2 = 0 ∧ t = takePre f n ++ (takeLoop f n).1 ∧ r = (takeLoop f n).2.1 := by
  unfold take at h
  by_cases hz : (takeLoop f n).2.2 = 0
  · simp only [hz, if_true, Option.some.injEq, Prod.mk.injEq] at h
    exact ⟨hz, h.1.symm, h.2.symm⟩
  · simp [hz] at h

/-- `Take` only succeeds for a non-negative amount -/
theorem take_some_req {f : Parts} {n : Int} {t r : Parts} (h : take f n = some (t, r)) : 0 ≤ n := by
  by_cases hn : 0 ≤ n
  · exact hn
  · have h1 := takeLoop_nonpos f n (by omega)
    have := (take_eq_some h).1
    rw [h1] at this
    simp at this; omega

/-- a successful `Take` yields exactly `n`, and nothing is lost -/
theorem take_total {f : Parts} {n : Int} {t r : Parts} (hf : NonNeg f) (h : take f n = some (t, r)) :
    total t = n ∧ total t + total r = total f := by
  have hn := take_some_req h
  have h1 := takeLoop_taken f n hn hf
  have hc := takeLoop_total f n
  obtain ⟨hz, rfl, rfl⟩ := take_eq_some h
  rw [total_append, takePre_total]
  omega

theorem take_amtOf {f : Parts} {n : Int} {t r : Parts} (h : take f n = some (t, r)) (x : Acct) :
    amtOf t x + amtOf r x = amtOf f x := by
  have hc := takeLoop_amtOf f n x
  obtain ⟨hz, rfl, rfl⟩ := take_eq_some h
  rw [amtOf_append, takePre_amtOf]
  omega

theorem take_nonneg {f : Parts} {n : Int} {t r : Parts} (hf : NonNeg f) (h : take f n = some (t, r)) :
    NonNeg t ∧ NonNeg r := by
  have hl := takeLoop_nonneg f n hf
  obtain ⟨hz, rfl, rfl⟩ := take_eq_some h
  exact ⟨NonNeg.append (takePre_nonneg f n) hl.1, hl.2⟩

/-- `Take` succeeds exactly when the funding holds enough (for non-negative parts) -/
theorem take_isSome_iff (f : Parts) (n : Int) (hf : NonNeg f) : (take f n).isSome ↔ 0 ≤ n ∧ n ≤ total f := by
  constructor
  · intro h
    obtain ⟨⟨t, r⟩, htr⟩ := Option.isSome_iff_exists.mp h
    have := take_total hf htr
    have hr := total_nonneg (take_nonneg hf htr).2
    exact ⟨take_some_req htr, by omega⟩
  · intro ⟨h0, h1⟩
    have := takeLoop_enough f n hf h1 h0
    simp [take, this]

/-! ### concat -/

theorem concat_total (f g : Parts) : total (concat f g) = total f + total g := by
  fun_induction concat f g <;> simp_all <;> omega

theorem concat_amtOf (f g : Parts) (x : Acct) : amtOf (concat f g) x = amtOf f x + amtOf g x := by
  fun_induction concat f g <;> simp_all [amtOf_cons] <;> (try split) <;> omega

theorem concat_nonneg {f g : Parts} (hf : NonNeg f) (hg : NonNeg g) : NonNeg (concat f g) := by
  fun_induction concat f g with
  | case1 => exact hg
  | case2 l h gs heq =>
    exact NonNeg.cons (by have := hf.head; have := hg.head; simp; omega) hg.tail
  | case3 l h gs hne => exact NonNeg.cons hf.head hg
  | case4 l => exact hf
  | case5 p q f g ih => exact NonNeg.cons hf.head (ih hf.tail hg)

end Num
