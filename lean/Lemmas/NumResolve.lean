import Lemmas.NumCompile
/-! `ResolveResources` / `ResolveBalances` on a well-formed resource table never panic, and produce values of the
resources' types. -/
namespace Num
open VM

theorem parseValue_bty {ty : Ty} {s : String} {v : Val} (h : parseValue ty s = some v) : (BVal.ofVal v).bty = ty.toB := by
  cases ty <;> simp only [parseValue] at h
  · split at h
    · cases h; rfl
    · cases h
  · split at h
    · cases h; rfl
    · cases h
  · simp only [Option.map_eq_some_iff] at h
    obtain ⟨n, _, rfl⟩ := h; rfl
  · cases h; rfl
  · split at h
    · split at h
      · split at h
        · cases h; rfl
        · cases h
      · cases h
    · cases h
  · simp only [Option.map_eq_some_iff] at h
    obtain ⟨n, _, rfl⟩ := h; rfl

/-- a parsed value is never a monetary with a nil amount -/
theorem ofVal_ne_monNil (v : Val) (a : String) : BVal.ofVal v ≠ .monNil a := by
  cases v <;> simp [BVal.ofVal]

/-- the caller's variables fit the `Variable` resources -/
def VarsTyped (rs : List Resource) (vars : List (String × BVal)) : Prop :=
  ∀ (i : Nat) (ty : Ty) (name : String), rs[i]? = some (Resource.var ty name) →
    ∃ v, (vars.find? (·.1 = name)).map (·.2) = some v ∧ v.bty = ty.toB

/-- the values resolved so far have the types of their resources -/
structure TypedVals (pre : List Resource) (vals : List BVal) : Prop where
  len : vals.length = pre.length
  ty : ∀ (i : Nat) (r : Resource), pre[i]? = some r → ∃ v : BVal, vals[i]? = some v ∧ v.bty = r.bty

theorem TypedVals.snoc {pre : List Resource} {vals : List BVal} (h : TypedVals pre vals) {r : Resource} {v : BVal}
    (hv : v.bty = r.bty) : TypedVals (pre ++ [r]) (vals ++ [v]) := by
  refine ⟨by simp [h.len], ?_⟩
  intro i r0 hi
  rcases Nat.lt_or_ge i pre.length with hlt | hge
  · rw [List.getElem?_append_left hlt] at hi
    obtain ⟨v0, h1, h2⟩ := h.ty i r0 hi
    exact ⟨v0, by rw [List.getElem?_append_left (by rw [h.len]; exact hlt)]; exact h1, h2⟩
  · rw [List.getElem?_append_right hge] at hi
    have hi0 : i - pre.length = 0 := by
      rcases Nat.eq_zero_or_pos (i - pre.length) with h0 | h0
      · exact h0
      · rw [List.getElem?_eq_none (by simp only [List.length_cons, List.length_nil]; omega)] at hi; cases hi
    rw [hi0] at hi
    simp only [List.getElem?_cons_zero, Option.some.injEq] at hi
    subst hi
    refine ⟨v, ?_, hv⟩
    rw [List.getElem?_append_right (by rw [h.len]; exact hge), h.len, hi0]; rfl

theorem TypedVals.acct {pre : List Resource} {vals : List BVal} (h : TypedVals pre vals) {a : Addr}
    (ha : HasTy pre a .account) : ∃ x, vals[a]? = some (.acct x) := by
  obtain ⟨r, h1, h2⟩ := ha
  obtain ⟨v, h3, h4⟩ := h.ty a r h1
  rw [h2] at h4
  cases v <;> simp [BVal.bty] at h4
  exact ⟨_, h3⟩

theorem TypedVals.asset {pre : List Resource} {vals : List BVal} (h : TypedVals pre vals) {a : Addr}
    (ha : HasTy pre a .asset) : ∃ x, vals[a]? = some (.asset x) := by
  obtain ⟨r, h1, h2⟩ := ha
  obtain ⟨v, h3, h4⟩ := h.ty a r h1
  rw [h2] at h4
  cases v <;> simp [BVal.bty] at h4
  exact ⟨_, h3⟩

/-- `HasTy` in the whole table at an address below `pre.length` is `HasTy` in the prefix -/
theorem HasTy.prefix {pre rest : List Resource} {a : Addr} {t : BTy} (h : HasTy (pre ++ rest) a t) (hlt : a < pre.length) :
    HasTy pre a t := by
  obtain ⟨r, h1, h2⟩ := h
  rw [List.getElem?_append_left hlt] at h1
  exact ⟨r, h1, h2⟩

theorem derefAcct_ok {vals : List BVal} {a : Addr} {x : String} (h : vals[a]? = some (.acct x)) : derefAcct vals a = .ok x := by
  simp [derefAcct, h]

/-- the unresolved balance variables are addresses of monetary-typed resources -/
def UnresOK (rs : List Resource) (un : List (Addr × String)) : Prop := ∀ e ∈ un, HasTy rs e.1 .monetary

/-- one round of `ResolveResources` on a well-formed table: no panic, and the invariant is kept -/
theorem resolveOne_ok (store : Store) (vars : List (String × BVal)) {pre rest : List Resource} {r : Resource} {R : Resolved}
    (hwf : WFres (pre ++ r :: rest)) (hvars : VarsTyped (pre ++ r :: rest) vars)
    (ht : TypedVals pre R.vals) (hu : UnresOK pre R.unresolved) :
    match resolveOne store vars R r with
    | .ok R' => TypedVals (pre ++ [r]) R'.vals ∧ UnresOK (pre ++ [r]) R'.unresolved
    | .error _ => True
    | .panic _ => False := by
  have hidx : (pre ++ r :: rest)[pre.length]? = some r := by simp
  have hw := hwf pre.length r hidx
  have hu' : UnresOK (pre ++ [r]) R.unresolved := fun e he => (hu e he).append _
  cases r with
  | const v =>
    simp only [resolveOne]
    exact ⟨ht.snoc rfl, hu'⟩
  | var ty name =>
    simp only [resolveOne]
    obtain ⟨v, h1, h2⟩ := hvars pre.length ty name hidx
    rw [h1]
    exact ⟨ht.snoc (by simpa [Resource.bty] using h2), hu'⟩
  | varMeta ty name a key =>
    simp only [resolveOne]
    obtain ⟨x, hx⟩ := ht.acct (hw.2.prefix hw.1)
    rw [derefAcct_ok hx]
    simp only
    cases hm : store.accountMeta x key with
    | none => trivial
    | some raw =>
      simp only
      cases hp : parseValue ty raw with
      | none => trivial
      | some v => exact ⟨ht.snoc (by simpa [Resource.bty] using parseValue_bty hp), hu'⟩
  | varBalance name a s =>
    simp only [resolveOne]
    obtain ⟨x, hx⟩ := ht.acct (hw.2.1.prefix hw.1)
    obtain ⟨y, hy⟩ := ht.asset (hw.2.2.2.prefix hw.2.2.1)
    rw [derefAcct_ok hx]
    simp only [hy]
    refine ⟨ht.snoc rfl, ?_⟩
    intro e he
    rcases List.mem_append.mp he with h | h
    · exact hu' e h
    · simp only [List.mem_singleton] at h; subst h
      exact ⟨.varBalance name a s, by rw [ht.len]; simp, rfl⟩
  | monetary a n =>
    simp only [resolveOne]
    obtain ⟨y, hy⟩ := ht.asset (hw.2.prefix hw.1)
    simp only [hy]
    exact ⟨ht.snoc rfl, hu'⟩

theorem resolveLoop_ok (store : Store) (vars : List (String × BVal)) {pre rest : List Resource} {R : Resolved}
    (hwf : WFres (pre ++ rest)) (hvars : VarsTyped (pre ++ rest) vars)
    (ht : TypedVals pre R.vals) (hu : UnresOK pre R.unresolved) :
    match resolveLoop store vars rest R with
    | .ok R' => TypedVals (pre ++ rest) R'.vals ∧ UnresOK (pre ++ rest) R'.unresolved
    | .error _ => True
    | .panic _ => False := by
  induction rest generalizing pre R with
  | nil => simpa [resolveLoop] using ⟨ht, hu⟩
  | cons r rest ih =>
    simp only [resolveLoop]
    have h1 := resolveOne_ok store vars hwf hvars ht hu
    cases hr : resolveOne store vars R r with
    | ok R' =>
      rw [hr] at h1
      simp only
      have := ih (pre := pre ++ [r]) (R := R') (by simpa using hwf) (by simpa using hvars) h1.1 h1.2
      simpa using this
    | error e => trivial
    | panic k => rw [hr] at h1; exact h1

/-- **`ResolveResources` never panics** on a well-formed table with well-typed variables, and every resolved
value has the type of its resource -/
theorem resolveResources_ok (prog : Program) (vars : List (String × BVal)) (store : Store)
    (hwf : WFres prog.resources) (hvars : VarsTyped prog.resources vars) :
    match resolveResources prog vars store with
    | .ok R => TypedVals prog.resources R.vals ∧ UnresOK prog.resources R.unresolved
    | .error _ => True
    | .panic _ => False := by
  have := resolveLoop_ok store vars (pre := []) (rest := prog.resources) (R := {}) (by simpa using hwf) (by simpa using hvars)
    ⟨rfl, by intro i r h; simp at h⟩ (by intro e he; simp at he)
  simpa [resolveResources] using this

theorem TypedVals.set {rs : List Resource} {vals : List BVal} (h : TypedVals rs vals) {idx : Addr} {v : BVal}
    (hv : ∀ r, rs[idx]? = some r → v.bty = r.bty) : TypedVals rs (vals.set idx v) := by
  refine ⟨by simp [h.len], ?_⟩
  intro i r hi
  obtain ⟨v0, h1, h2⟩ := h.ty i r hi
  by_cases hii : idx = i
  · subst hii
    exact ⟨v, by rw [List.getElem?_set_self (getElem?_lt h1)], hv r hi⟩
  · exact ⟨v0, by rw [List.getElem?_set_ne hii]; exact h1, h2⟩

theorem resolveBalanceVars_ok (store : Store) {rs : List Resource} {un : List (Addr × String)} {vals : List BVal}
    (ht : TypedVals rs vals) (hu : UnresOK rs un) :
    match resolveBalanceVars store un vals with
    | .ok vals' => TypedVals rs vals'
    | .error _ => True
    | .panic _ => False := by
  induction un generalizing vals with
  | nil => simpa [resolveBalanceVars] using ht
  | cons e rest ih =>
    obtain ⟨idx, address⟩ := e
    have hm := hu (idx, address) (List.mem_cons_self ..)
    obtain ⟨r, h1, h2⟩ := hm
    obtain ⟨v, h3, h4⟩ := ht.ty idx r h1
    rw [h2] at h4
    have hrest : UnresOK rs rest := fun e he => hu e (List.mem_cons_of_mem _ he)
    have step : ∀ s, TypedVals rs (vals.set idx (.mon s (store.balance address s))) :=
      fun s => ht.set (by intro r' hr'; rw [h1] at hr'; cases hr'; simp [BVal.bty, h2])
    simp only [resolveBalanceVars, h3]
    cases v <;> simp [BVal.bty] at h4
    · rename_i s n
      by_cases hneg : store.balance address s < 0
      · simp [hneg]
      · simp only [hneg, ↓reduceIte]; exact ih (step s) hrest
    · rename_i s
      by_cases hneg : store.balance address s < 0
      · simp [hneg]
      · simp only [hneg, ↓reduceIte]; exact ih (step s) hrest

theorem needAssets_ok (store : Store) {rs : List Resource} {vals : List BVal} (ht : TypedVals rs vals) (a : Acct)
    {l : List Addr} (hl : ∀ x ∈ l, HasTy rs x .asset ∨ HasTy rs x .monetary) (b : Balances) :
    (needAssets store vals a l b).isPanic = false := by
  induction l generalizing b with
  | nil => simp [needAssets, Outcome.isPanic]
  | cons x rest ih =>
    simp only [needAssets]
    have hx := hl x (List.mem_cons_self ..)
    have : ∃ v, vals[x]? = some v ∧ (assetOf v).isSome := by
      rcases hx with ⟨r, h1, h2⟩ | ⟨r, h1, h2⟩
      · obtain ⟨v, h3, h4⟩ := ht.ty x r h1
        rw [h2] at h4
        cases v <;> simp [BVal.bty] at h4
        exact ⟨_, h3, rfl⟩
      · obtain ⟨v, h3, h4⟩ := ht.ty x r h1
        rw [h2] at h4
        cases v <;> simp [BVal.bty] at h4
        · exact ⟨_, h3, rfl⟩
        · exact ⟨_, h3, rfl⟩
    obtain ⟨v, hv, hs⟩ := this
    simp only [hv]
    cases ha : assetOf v with
    | none => simp [ha] at hs
    | some s => exact ih (fun y hy => hl y (List.mem_cons_of_mem _ hy)) _

theorem needAccounts_ok (store : Store) {rs : List Resource} {vals : List BVal} (ht : TypedVals rs vals)
    {nb : List (Addr × List Addr)} (hn : WFneeded rs nb) (b : Balances) :
    (needAccounts store vals nb b).isPanic = false := by
  induction nb generalizing b with
  | nil => simp [needAccounts, Outcome.isPanic]
  | cons e rest ih =>
    obtain ⟨addr, assets⟩ := e
    obtain ⟨h1, h2⟩ := hn (addr, assets) (List.mem_cons_self ..)
    obtain ⟨x, hx⟩ := ht.acct h1
    simp only [needAccounts, hx]
    have := needAssets_ok store ht x h2 (b.ensureAcct x)
    cases hr : needAssets store vals x assets (b.ensureAcct x) with
    | ok b' => exact ih (fun e he => hn e (List.mem_cons_of_mem _ he)) b'
    | error e => simp [Outcome.isPanic]
    | panic k => simp [hr, Outcome.isPanic] at this

/-- **`ResolveBalances` never panics** after a successful `ResolveResources` on well-formed tables -/
theorem resolveBalances_ok (prog : Program) (R : Resolved) (store : Store)
    (ht : TypedVals prog.resources R.vals) (hu : UnresOK prog.resources R.unresolved)
    (hn : WFneeded prog.resources prog.needed) :
    (resolveBalances prog R store).isPanic = false ∧
    ∀ vals b, resolveBalances prog R store = .ok (vals, b) → TypedVals prog.resources vals := by
  have h1 := resolveBalanceVars_ok store ht hu
  unfold resolveBalances
  cases hr : resolveBalanceVars store R.unresolved R.vals with
  | error e => simp [Outcome.isPanic]
  | panic k => rw [hr] at h1; exact h1.elim
  | ok vals =>
    rw [hr] at h1
    simp only
    have h2 := needAccounts_ok store h1 hn ⟨[], [], ⟨fun _ _ => none⟩⟩
    cases hb : needAccounts store vals prog.needed ⟨[], [], ⟨fun _ _ => none⟩⟩ with
    | error e => simp [Outcome.isPanic]
    | panic k => simp [hb, Outcome.isPanic] at h2
    | ok b =>
      refine ⟨by simp [Outcome.isPanic], ?_⟩
      intro vals' b' h
      simp only [Outcome.ok.injEq, Prod.mk.injEq] at h
      obtain ⟨rfl, _⟩ := h; exact h1

/-! ### `SetVarsFromJSON` produces well-typed variables -/

def lookupB (l : List (String × BVal)) (n : String) : Option BVal := (l.find? (·.1 = n)).map (·.2)

theorem lookupB_cons (x : String × BVal) (xs : List (String × BVal)) (n : String) :
    lookupB (x :: xs) n = if x.1 = n then some x.2 else lookupB xs n := by
  unfold lookupB
  rw [List.find?_cons]
  by_cases h : x.1 = n <;> simp [h]

theorem setKey_cons (x : String × BVal) (xs : List (String × BVal)) (k : String) (v : BVal) :
    setKey (x :: xs) k v = if x.1 = k then setKey xs k v else x :: setKey xs k v := by
  unfold setKey
  rw [List.filter_cons]
  by_cases h : x.1 = k <;> simp [h]

theorem lookupB_setKey (l : List (String × BVal)) (k n : String) (v : BVal) :
    lookupB (setKey l k v) n = if n = k then some v else lookupB l n := by
  induction l with
  | nil =>
    show lookupB [(k, v)] n = _
    rw [lookupB_cons]
    by_cases h : n = k
    · simp [h]
    · have : ¬ k = n := fun e => h e.symm
      simp [h, this, lookupB]
  | cons x xs ih =>
    rw [setKey_cons]
    by_cases hx : x.1 = k
    · rw [if_pos hx, ih, lookupB_cons]
      by_cases h : n = k
      · simp [h]
      · have : ¬ x.1 = n := by rw [hx]; exact fun e => h e.symm
        simp [h, this]
    · rw [if_neg hx, lookupB_cons, ih, lookupB_cons]
      by_cases h : n = k
      · subst h
        simp [hx]
      · simp [h]
theorem lookupB_setKey_self (l : List (String × BVal)) (k : String) (v : BVal) : lookupB (setKey l k v) k = some v := by
  rw [lookupB_setKey]; simp

theorem lookupB_setKey_ne (l : List (String × BVal)) {k n : String} (v : BVal) (h : n ≠ k) :
    lookupB (setKey l k v) n = lookupB l n := by
  rw [lookupB_setKey]; simp [h]

theorem varNames_cons_none {r : Resource} {rest : List Resource} (h : varNameOf r = none) : varNames (r :: rest) = varNames rest := by
  simp [varNames, h]

theorem setVarsLoop_typed {rs : List Resource} {raw : List (String × String)} {acc out : List (String × BVal)}
    (h : setVarsLoop rs raw acc = .ok out) (hnd : (varNames rs).Nodup) :
    (∀ (i : Nat) (ty : Ty) (name : String), rs[i]? = some (Resource.var ty name) → ∃ v, lookupB out name = some v ∧ v.bty = ty.toB) ∧
    (∀ n, n ∉ varNames rs → lookupB out n = lookupB acc n) := by
  induction rs generalizing raw acc with
  | nil =>
    simp only [setVarsLoop] at h
    split at h
    · simp only [Except.ok.injEq] at h; subst h
      exact ⟨by intro i ty name hi; simp at hi, fun _ _ => rfl⟩
    · cases h
  | cons r rest ih =>
    cases r with
    | var ty name =>
      simp only [setVarsLoop] at h
      split at h
      · cases h
      · rename_i rawv hraw
        split at h
        · cases h
        · rename_i v hp
          have hnd' : (varNames rest).Nodup ∧ name ∉ varNames rest := by
            simp only [varNames, List.filterMap_cons, varNameOf, List.nodup_cons] at hnd
            exact ⟨hnd.2, hnd.1⟩
          obtain ⟨ih1, ih2⟩ := ih h hnd'.1
          constructor
          · intro i ty' name' hi
            cases i with
            | zero =>
              simp only [List.getElem?_cons_zero, Option.some.injEq, Resource.var.injEq] at hi
              obtain ⟨rfl, rfl⟩ := hi
              refine ⟨BVal.ofVal v, ?_, parseValue_bty hp⟩
              rw [ih2 name hnd'.2, lookupB_setKey_self]
            | succ j => exact ih1 j ty' name' (by simpa using hi)
          · intro n hn
            simp only [varNames, List.filterMap_cons, varNameOf, List.mem_cons, not_or] at hn
            rw [ih2 n hn.2, lookupB_setKey_ne _ _ hn.1]
    | const v =>
      simp only [setVarsLoop] at h
      obtain ⟨ih1, ih2⟩ := ih h (by rw [varNames_cons_none rfl] at hnd; exact hnd)
      exact ⟨by intro i ty name hi; cases i with
        | zero => simp at hi
        | succ j => exact ih1 j ty name (by simpa using hi),
        by intro n hn; rw [varNames_cons_none rfl] at hn; exact ih2 n hn⟩
    | varMeta t nm a k =>
      simp only [setVarsLoop] at h
      obtain ⟨ih1, ih2⟩ := ih h (by rw [varNames_cons_none rfl] at hnd; exact hnd)
      exact ⟨by intro i ty name hi; cases i with
        | zero => simp at hi
        | succ j => exact ih1 j ty name (by simpa using hi),
        by intro n hn; rw [varNames_cons_none rfl] at hn; exact ih2 n hn⟩
    | varBalance nm a k =>
      simp only [setVarsLoop] at h
      obtain ⟨ih1, ih2⟩ := ih h (by rw [varNames_cons_none rfl] at hnd; exact hnd)
      exact ⟨by intro i ty name hi; cases i with
        | zero => simp at hi
        | succ j => exact ih1 j ty name (by simpa using hi),
        by intro n hn; rw [varNames_cons_none rfl] at hn; exact ih2 n hn⟩
    | monetary a k =>
      simp only [setVarsLoop] at h
      obtain ⟨ih1, ih2⟩ := ih h (by rw [varNames_cons_none rfl] at hnd; exact hnd)
      exact ⟨by intro i ty name hi; cases i with
        | zero => simp at hi
        | succ j => exact ih1 j ty name (by simpa using hi),
        by intro n hn; rw [varNames_cons_none rfl] at hn; exact ih2 n hn⟩

/-- what `SetVarsFromJSON` accepts fits the `Variable` resources (when their names are pairwise distinct) -/
theorem setVarsFromJSON_typed {prog : Program} {raw : List (String × String)} {vars : List (String × BVal)}
    (hnd : (varNames prog.resources).Nodup) (h : setVarsFromJSON prog raw = .ok vars) : VarsTyped prog.resources vars :=
  fun i ty name hi => (setVarsLoop_typed h hnd).1 i ty name hi

end Num
