import Lemmas.TxStrings
/-! Plumbing for C09: what `collect` puts into the tables; the generated declarations pass the static check; the
variable map binds every declared name to its intended value. -/
set_option linter.unusedSimpArgs false
namespace Num
namespace Tx

/-! ### what `collect` puts into the tables -/

theorem mem_addAcct {as : List String} {a x : String} : x ∈ addAcct as a ↔ x ∈ as ∨ (x = a ∧ a ≠ "world") := by
  unfold addAcct
  by_cases hw : a = "world"
  · simp [hw]
  · by_cases hc : as.contains a = true
    · have : a ∈ as := by simpa using hc
      simp only [hw, if_false, hc, if_true]
      constructor
      · exact Or.inl
      · rintro (h | ⟨h, _⟩)
        · exact h
        · exact h ▸ this
    · simp only [hw, if_false, hc]
      simp [hw]

theorem mem_addMon {ms : List (String × String)} {p : Posting} {m : String × String} :
    m ∈ addMon ms p → m ∈ ms ∨ m = (monKey p, monVal p) := by
  unfold addMon
  split
  · exact Or.inl
  · intro h
    rcases List.mem_append.1 h with h | h
    · exact Or.inl h
    · exact Or.inr (by simpa using h)

theorem addMon_mono {ms : List (String × String)} {p : Posting} {m : String × String} (h : m ∈ ms) : m ∈ addMon ms p := by
  unfold addMon
  split
  · exact h
  · exact List.mem_append_left _ h

theorem addMon_has (ms : List (String × String)) (p : Posting) : ∃ m ∈ addMon ms p, m.1 = monKey p := by
  unfold addMon
  by_cases h : ms.any (fun m => decide (m.1 = monKey p)) = true
  · simp only [h, if_true]
    obtain ⟨m, hm, hk⟩ := List.any_eq_true.1 h
    exact ⟨m, hm, by simpa using hk⟩
  · simp only [h]
    exact ⟨(monKey p, monVal p), by simp, rfl⟩

theorem collect_accts_mono (ps : List Posting) : ∀ (t : Tables) (a : String), a ∈ t.accts → a ∈ (collect ps t).accts := by
  induction ps with
  | nil => intro t a h; exact h
  | cons p ps ih =>
    intro t a h
    exact ih _ a (mem_addAcct.2 (Or.inl (mem_addAcct.2 (Or.inl h))))

theorem collect_accts_has (ps : List Posting) : ∀ (t : Tables) (p : Posting), p ∈ ps →
    (p.src = "world" ∨ p.src ∈ (collect ps t).accts) ∧ (p.dst = "world" ∨ p.dst ∈ (collect ps t).accts) := by
  induction ps with
  | nil => intro t p h; simp at h
  | cons q ps ih =>
    intro t p h
    rcases List.mem_cons.1 h with e | e
    · subst e
      constructor
      · by_cases hw : p.src = "world"
        · exact Or.inl hw
        · exact Or.inr (collect_accts_mono ps _ _ (mem_addAcct.2 (Or.inl (mem_addAcct.2 (Or.inr ⟨rfl, hw⟩)))))
      · by_cases hw : p.dst = "world"
        · exact Or.inl hw
        · exact Or.inr (collect_accts_mono ps _ _ (mem_addAcct.2 (Or.inr ⟨rfl, hw⟩)))
    · exact ih _ p e

theorem collect_accts_from (ps : List Posting) : ∀ (t : Tables) (a : String), a ∈ (collect ps t).accts →
    a ∈ t.accts ∨ ∃ p ∈ ps, a = p.src ∨ a = p.dst := by
  induction ps with
  | nil => intro t a h; exact Or.inl h
  | cons q ps ih =>
    intro t a h
    rcases ih _ a h with h | ⟨p, hp, hpa⟩
    · rcases mem_addAcct.1 h with h | ⟨h, _⟩
      · rcases mem_addAcct.1 h with h | ⟨h, _⟩
        · exact Or.inl h
        · exact Or.inr ⟨q, by simp, Or.inl h⟩
      · exact Or.inr ⟨q, by simp, Or.inr h⟩
    · exact Or.inr ⟨p, by simp [hp], hpa⟩

theorem collect_mons_mono (ps : List Posting) : ∀ (t : Tables) (m : String × String), m ∈ t.mons → m ∈ (collect ps t).mons := by
  induction ps with
  | nil => intro t m h; exact h
  | cons p ps ih => intro t m h; exact ih _ m (addMon_mono h)

theorem collect_mons_has (ps : List Posting) : ∀ (t : Tables) (p : Posting), p ∈ ps →
    ∃ m ∈ (collect ps t).mons, m.1 = monKey p := by
  induction ps with
  | nil => intro t p h; simp at h
  | cons q ps ih =>
    intro t p h
    rcases List.mem_cons.1 h with e | e
    · subst e
      obtain ⟨m, hm, hk⟩ := addMon_has t.mons p
      exact ⟨m, collect_mons_mono ps _ m hm, hk⟩
    · exact ih _ p e

theorem collect_mons_from (ps : List Posting) : ∀ (t : Tables) (m : String × String), m ∈ (collect ps t).mons →
    m ∈ t.mons ∨ ∃ q ∈ ps, m = (monKey q, monVal q) := by
  induction ps with
  | nil => intro t m h; exact Or.inl h
  | cons q ps ih =>
    intro t m h
    rcases ih _ m h with h | ⟨p, hp, hpm⟩
    · rcases mem_addMon h with h | h
      · exact Or.inl h
      · exact Or.inr ⟨q, by simp, h⟩
    · exact Or.inr ⟨p, by simp [hp], hpm⟩

/-! ### names, declarations -/


theorem mem_number {α} (f : Nat → String) (l : List α) : ∀ (k : Nat) (n : String) (x : α),
    (n, x) ∈ number f l k ↔ ∃ i, l[i]? = some x ∧ n = f (k + i) := by
  induction l with
  | nil => intro k n x; simp [number]
  | cons y ys ih =>
    intro k n x
    simp only [number, List.mem_cons, Prod.mk.injEq, ih]
    constructor
    · rintro (⟨h1, h2⟩ | ⟨i, h1, h2⟩)
      · exact ⟨0, by simp [h2], by simp [h1]⟩
      · exact ⟨i + 1, by simp [h1], by rw [h2]; congr 1; omega⟩
    · rintro ⟨i, h1, h2⟩
      cases i with
      | zero => left; simp at h1; exact ⟨by simpa using h2, h1.symm⟩
      | succ j => right; exact ⟨j, by simpa using h1, by rw [h2]; congr 1; omega⟩

theorem find_unique {α} {l : List (String × α)} {n : String} {e0 : String × α}
    (hu : ∀ e ∈ l, e.1 = n → e = e0) (hm : e0 ∈ l) (hn : e0.1 = n) : l.find? (fun e => e.1 = n) = some e0 := by
  induction l with
  | nil => simp at hm
  | cons y ys ih =>
    by_cases hy : y.1 = n
    · have := hu y (by simp) hy
      rw [List.find?_cons_of_pos (by simpa using hy), this]
    · have hm' : e0 ∈ ys := by
        rcases List.mem_cons.1 hm with e | e
        · exact absurd (e ▸ hn) hy
        · exact e
      rw [List.find?_cons_of_neg (by simpa using hy)]
      exact ih (fun e he => hu e (by simp [he])) hm'

theorem mem_sortNames {l : List String} {x : String} : x ∈ sortNames l ↔ x ∈ l :=
  (List.mergeSort_perm l _).mem_iff

theorem nodup_sortNames {l : List String} (h : l.Nodup) : (sortNames l).Nodup :=
  (List.mergeSort_perm l _).nodup_iff.2 h

theorem mem_acctNames {t : Tables} {n : String} : n ∈ acctNames t ↔ ∃ i, i < t.accts.length ∧ n = vaName i := by
  simp [acctNames, eq_comm]

theorem mem_monNames {t : Tables} {n : String} : n ∈ monNames t ↔ ∃ j, j < t.mons.length ∧ n = vmName j := by
  simp [monNames, eq_comm]

theorem nodup_acctNames (t : Tables) : (acctNames t).Nodup := by
  unfold acctNames
  rw [List.Nodup, List.pairwise_map]
  exact (List.nodup_range (n := t.accts.length)).imp (fun h e => h (vaName_inj e))

theorem nodup_monNames (t : Tables) : (monNames t).Nodup := by
  unfold monNames
  rw [List.Nodup, List.pairwise_map]
  exact (List.nodup_range (n := t.mons.length)).imp (fun h e => h (vmName_inj e))

theorem mem_decls {t : Tables} {d : VarDecl} :
    d ∈ decls t ↔ (∃ i, i < t.accts.length ∧ d = ⟨.account, vaName i, .none⟩) ∨
                  (∃ j, j < t.mons.length ∧ d = ⟨.monetary, vmName j, .none⟩) := by
  simp only [decls, List.mem_append, List.mem_map, mem_sortNames, mem_acctNames, mem_monNames]
  constructor
  · rintro (⟨n, ⟨i, hi, rfl⟩, rfl⟩ | ⟨n, ⟨j, hj, rfl⟩, rfl⟩)
    · exact Or.inl ⟨i, hi, rfl⟩
    · exact Or.inr ⟨j, hj, rfl⟩
  · rintro (⟨i, hi, rfl⟩ | ⟨j, hj, rfl⟩)
    · exact Or.inl ⟨_, ⟨i, hi, rfl⟩, rfl⟩
    · exact Or.inr ⟨_, ⟨j, hj, rfl⟩, rfl⟩

theorem decls_origin {t : Tables} {d : VarDecl} (h : d ∈ decls t) : d.origin = .none := by
  rcases mem_decls.1 h with ⟨_, _, rfl⟩ | ⟨_, _, rfl⟩ <;> rfl

theorem nodup_decl_names (t : Tables) : ((decls t).map (·.name)).Nodup := by
  simp only [decls, List.map_append, List.map_map]
  have e1 : ((fun (d : VarDecl) => d.name) ∘ fun n => (⟨.account, n, .none⟩ : VarDecl)) = id := rfl
  have e2 : ((fun (d : VarDecl) => d.name) ∘ fun n => (⟨.monetary, n, .none⟩ : VarDecl)) = id := rfl
  rw [e1, e2, List.map_id, List.map_id, List.nodup_append]
  refine ⟨nodup_sortNames (nodup_acctNames t), nodup_sortNames (nodup_monNames t), ?_⟩
  intro a ha b hb
  obtain ⟨i, _, rfl⟩ := mem_acctNames.1 (mem_sortNames.1 ha)
  obtain ⟨j, _, rfl⟩ := mem_monNames.1 (mem_sortNames.1 hb)
  exact vaName_ne_vmName i j


theorem lookup_of_mem {env : VEnv} {n : String} (h : ∃ v, (n, v) ∈ env) :
    ∃ v, lookupVar env n = some v ∧ (n, v) ∈ env := by
  obtain ⟨v0, hv0⟩ := h
  unfold lookupVar
  cases hf : env.find? (fun e => decide (e.1 = n)) with
  | none =>
    have := List.find?_eq_none.1 hf (n, v0) hv0
    simp at this
  | some e =>
    have h1 := List.find?_some hf
    have h2 := List.mem_of_find?_eq_some hf
    have : e.1 = n := by simpa using h1
    refine ⟨e.2, rfl, ?_⟩
    rw [← this]; exact h2

/-! ### the static check -/

theorem checkVars_plain : ∀ (ds : List VarDecl) (Γ : TEnv), (∀ d ∈ ds, d.origin = .none) →
    (Γ.map (·.1) ++ ds.map (·.name)).Nodup → checkVars ds Γ = some (Γ ++ ds.map (fun d => (d.name, d.ty))) := by
  intro ds
  induction ds with
  | nil => intro Γ _ _; simp [checkVars]
  | cons d ds ih =>
    intro Γ ho hn
    have hd : Γ.any (fun e => decide (e.1 = d.name)) = false := by
      rw [List.any_eq_false]
      intro e he hc
      have hc : e.1 = d.name := by simpa using hc
      rw [List.nodup_append] at hn
      exact hn.2.2 e.1 (List.mem_map.2 ⟨e, he, rfl⟩) d.name (by simp) hc
    have hor : d.origin = .none := ho d (by simp)
    unfold checkVars
    simp only [hd, hor]
    have := ih (Γ ++ [(d.name, d.ty)]) (fun x hx => ho x (by simp [hx])) (by
      simpa [List.append_assoc] using hn)
    simpa [List.append_assoc] using this

theorem tyOf_var {Γ : TEnv} {n : String} {ty : Ty} (hm : (n, ty) ∈ Γ) (hu : ∀ e ∈ Γ, e.1 = n → e.2 = ty) :
    tyOf Γ (.var n) = some ty := by
  unfold tyOf
  cases hf : Γ.find? (fun e => decide (e.1 = n)) with
  | none =>
    have := List.find?_eq_none.1 hf (n, ty) hm
    simp at this
  | some e =>
    have h1 : e.1 = n := by simpa using List.find?_some hf
    have h2 := List.mem_of_find?_eq_some hf
    simp [hu e h2 h1]

/-- the type environment of the generated declarations -/
def tenv (t : Tables) : TEnv := (decls t).map (fun d => (d.name, d.ty))

theorem tenv_va {t : Tables} {i : Nat} (hi : i < t.accts.length) : tyOf (tenv t) (.var (vaName i)) = some .account := by
  apply tyOf_var
  · exact List.mem_map.2 ⟨⟨.account, vaName i, .none⟩, mem_decls.2 (Or.inl ⟨i, hi, rfl⟩), rfl⟩
  · intro e he hn
    obtain ⟨d, hd, rfl⟩ := List.mem_map.1 he
    rcases mem_decls.1 hd with ⟨_, _, rfl⟩ | ⟨j, _, rfl⟩
    · rfl
    · exact absurd hn.symm (vaName_ne_vmName i j)

theorem tenv_vm {t : Tables} {j : Nat} (hj : j < t.mons.length) : tyOf (tenv t) (.var (vmName j)) = some .monetary := by
  apply tyOf_var
  · exact List.mem_map.2 ⟨⟨.monetary, vmName j, .none⟩, mem_decls.2 (Or.inr ⟨j, hj, rfl⟩), rfl⟩
  · intro e he hn
    obtain ⟨d, hd, rfl⟩ := List.mem_map.1 he
    rcases mem_decls.1 hd with ⟨i, _, rfl⟩ | ⟨_, _, rfl⟩
    · exact absurd hn (vaName_ne_vmName i j)
    · rfl

theorem checkVars_decls (t : Tables) : checkVars (decls t) [] = some (tenv t) := by
  have := checkVars_plain (decls t) [] (fun d hd => decls_origin hd) (by simpa using nodup_decl_names t)
  simpa [tenv] using this

/-- a posting whose accounts and amount have their variables -/
structure Covered (t : Tables) (p : Posting) : Prop where
  src : p.src = "world" ∨ p.src ∈ t.accts
  dst : p.dst = "world" ∨ p.dst ∈ t.accts
  mon : ∃ m ∈ t.mons, m.1 = monKey p

theorem acctVar_lt {t : Tables} {a : String} (h : a ∈ t.accts) : t.accts.idxOf a < t.accts.length :=
  List.idxOf_lt_length_of_mem h

theorem monVar_lt {t : Tables} {p : Posting} (h : ∃ m ∈ t.mons, m.1 = monKey p) :
    t.mons.findIdx (fun m => decide (m.1 = monKey p)) < t.mons.length := by
  apply List.findIdx_lt_length_of_exists
  obtain ⟨m, hm, hk⟩ := h
  exact ⟨m, hm, by simpa using hk⟩

theorem tyOf_acct (Γ : TEnv) (a : String) : tyOf Γ (.acct a) = some .account := by simp [tyOf]

theorem checkStmt_sendOf {t : Tables} {ub : Bool} {p : Posting} (h : Covered t p) :
    checkStmt (tenv t) (sendOf t ub p) = true := by
  have hm : tyOf (tenv t) (.var (monVar t.mons p)) = some .monetary := tenv_vm (monVar_lt h.mon)
  have hd : tyOf (tenv t) (if p.dst = "world" then Expr.acct "world" else Expr.var (acctVar t.accts p.dst)) = some .account := by
    by_cases hw : p.dst = "world"
    · simp [hw, tyOf_acct]
    · simp only [hw, if_false]
      exact tenv_va (acctVar_lt (h.dst.resolve_left hw))
  by_cases hw : p.src = "world"
  · simp [sendOf, checkStmt, hm, hd, hw, checkVSource, checkSource, tyOf_acct, isWorldLit, checkDest]
  · have hs : tyOf (tenv t) (.var (acctVar t.accts p.src)) = some .account := tenv_va (acctVar_lt (h.src.resolve_left hw))
    cases ub <;> simp [sendOf, checkStmt, hm, hd, hw, checkVSource, checkSource, hs, isWorldLit, checkDest]

theorem check_txToScript {t : Tables} {ub : Bool} {ps : List Posting} (h : ∀ p ∈ ps, Covered t p) :
    check ⟨decls t, ps.map (sendOf t ub)⟩ = true := by
  unfold check
  simp only [checkVars_decls, List.all_map, List.all_eq_true]
  intro p hp
  exact checkStmt_sendOf (h p hp)


/-! ### binding the variable map -/

/-- the step function of `bindPlain` -/
def bindStep (vars : List (String × String)) (acc : Except Err VEnv) (d : VarDecl) : Except Err VEnv :=
  match acc with
  | .error er => .error er
  | .ok env =>
    match (vars.find? (·.1 = d.name)).map (·.2) with
    | none => .error .invalidVars
    | some raw => match parseValue d.ty raw with
      | none => .error .invalidVars
      | some v => .ok (env ++ [(d.name, v)])

theorem bindPlain_eq (decls : List VarDecl) (vars : List (String × String)) :
    bindPlain decls vars =
      match (decls.filter (fun d => match d.origin with | .none => true | _ => false)).foldl (bindStep vars) (.ok []) with
      | .error er => .error er
      | .ok env =>
        if vars.all (fun kv => (decls.filter (fun d => match d.origin with | .none => true | _ => false)).any (fun d => d.name = kv.1))
        then .ok env else .error .invalidVars := rfl

theorem bind_fold (G : String → Val → Prop) (vars : List (String × String)) : ∀ (ds : List VarDecl) (acc : VEnv),
    (∀ d ∈ ds, ∃ raw v, (vars.find? (·.1 = d.name)).map (·.2) = some raw ∧ parseValue d.ty raw = some v ∧ G d.name v) →
    (∀ e ∈ acc, G e.1 e.2) →
    ∃ env, ds.foldl (bindStep vars) (.ok acc) = .ok env ∧ (∀ e ∈ env, G e.1 e.2) ∧
      (∀ d ∈ ds, ∃ v, (d.name, v) ∈ env) ∧ (∀ e ∈ acc, e ∈ env) := by
  intro ds
  induction ds with
  | nil => intro acc _ ha; exact ⟨acc, rfl, ha, by simp, fun _ h => h⟩
  | cons d ds ih =>
    intro acc hd ha
    obtain ⟨raw, v, h1, h2, h3⟩ := hd d (by simp)
    have hstep : bindStep vars (.ok acc) d = .ok (acc ++ [(d.name, v)]) := by
      simp only [bindStep, h1, h2]
    obtain ⟨env, e1, e2, e3, e4⟩ := ih (acc ++ [(d.name, v)]) (fun x hx => hd x (by simp [hx])) (by
      intro e he
      rcases List.mem_append.1 he with h | h
      · exact ha e h
      · have : e = (d.name, v) := by simpa using h
        rw [this]; exact h3)
    refine ⟨env, by rw [List.foldl_cons, hstep, e1], e2, ?_, fun e he => e4 e (by simp [he])⟩
    intro x hx
    rcases List.mem_cons.1 hx with h | h
    · exact ⟨v, h ▸ e4 _ (by simp)⟩
    · exact e3 x h

theorem resolve_plain (G : String → Val → Prop) (store : Store) (plain : VEnv) : ∀ (ds : List VarDecl) (env0 : VEnv),
    (∀ d ∈ ds, d.origin = .none ∧ ∃ v, (d.name, v) ∈ plain) → (∀ e ∈ plain, G e.1 e.2) → (∀ e ∈ env0, G e.1 e.2) →
    ∃ env, resolveVars store plain ds env0 = .ok env ∧ (∀ e ∈ env, G e.1 e.2) ∧
      (∀ d ∈ ds, ∃ v, (d.name, v) ∈ env) ∧ (∀ e ∈ env0, e ∈ env) := by
  intro ds
  induction ds with
  | nil => intro env0 _ _ h0; exact ⟨env0, rfl, h0, by simp, fun _ h => h⟩
  | cons d ds ih =>
    intro env0 hd hp h0
    obtain ⟨ho, hv⟩ := hd d (by simp)
    obtain ⟨v, hl, hmem⟩ := lookup_of_mem hv
    obtain ⟨env, e1, e2, e3, e4⟩ := ih (env0 ++ [(d.name, v)]) (fun x hx => hd x (by simp [hx])) hp (by
      intro e he
      rcases List.mem_append.1 he with h | h
      · exact h0 e h
      · have : e = (d.name, v) := by simpa using h
        rw [this]; exact hp _ hmem)
    refine ⟨env, ?_, e2, ?_, fun e he => e4 e (by simp [he])⟩
    · unfold resolveVars
      simp only [ho, hl]
      exact e1
    · intro x hx
      rcases List.mem_cons.1 hx with h | h
      · exact ⟨v, h ▸ e4 _ (by simp)⟩
      · exact e3 x h


/-- the intended value of a generated name -/
def Good (t : Tables) (n : String) (v : Val) : Prop :=
  (∃ i a, t.accts[i]? = some a ∧ n = vaName i ∧ v = .acct a) ∨
  (∃ j q, t.mons[j]? = some (monKey q, monVal q) ∧ n = vmName j ∧ v = .mon q.asset q.amt)

theorem good_unique {t : Tables} {n : String} {v v' : Val} (h : Good t n v) (h' : Good t n v') : v = v' := by
  rcases h with ⟨i, a, h1, h2, h3⟩ | ⟨j, q, h1, h2, h3⟩
  · rcases h' with ⟨i', a', h1', h2', h3'⟩ | ⟨j', q', h1', h2', h3'⟩
    · have : i = i' := vaName_inj (h2.symm.trans h2')
      subst this
      rw [h1] at h1'
      rw [h3, h3', Option.some.inj h1']
    · exact absurd (h2.symm.trans h2') (vaName_ne_vmName i j')
  · rcases h' with ⟨i', a', h1', h2', h3'⟩ | ⟨j', q', h1', h2', h3'⟩
    · exact absurd (h2'.symm.trans h2) (vaName_ne_vmName i' j)
    · have : j = j' := vmName_inj (h2.symm.trans h2')
      subst this
      rw [h1] at h1'
      have hk : monKey q = monKey q' := (Prod.mk.inj (Option.some.inj h1')).1
      obtain ⟨e1, e2⟩ := monKey_inj hk
      rw [h3, h3', e1, e2]

/-- the tables built from a list of valid postings -/
structure TablesOK (t : Tables) (ps : List Posting) : Prop where
  cov : ∀ p ∈ ps, Covered t p
  accts : ∀ a ∈ t.accts, validAccount a = true
  mons : ∀ m ∈ t.mons, ∃ q, m = (monKey q, monVal q) ∧ validAsset q.asset = true ∧ 0 ≤ q.amt

theorem validPosting_iff {p : Posting} : validPosting p = true ↔
    0 ≤ p.amt ∧ validAccount p.src = true ∧ validAccount p.dst = true ∧ validAsset p.asset = true := by
  simp [validPosting, and_assoc]

theorem tables_ok {ps : List Posting} (hv : ∀ p ∈ ps, validPosting p = true) : TablesOK (tables ps) ps := by
  refine ⟨fun p hp => ?_, fun a ha => ?_, fun m hm => ?_⟩
  · obtain ⟨h1, h2⟩ := collect_accts_has ps ⟨[], []⟩ p hp
    exact ⟨h1, h2, collect_mons_has ps ⟨[], []⟩ p hp⟩
  · rcases collect_accts_from ps ⟨[], []⟩ a ha with h | ⟨p, hp, h | h⟩
    · simp at h
    · rw [h]; exact (validPosting_iff.1 (hv p hp)).2.1
    · rw [h]; exact (validPosting_iff.1 (hv p hp)).2.2.1
  · rcases collect_mons_from ps ⟨[], []⟩ m hm with h | ⟨q, hq, h⟩
    · simp at h
    · exact ⟨q, h, (validPosting_iff.1 (hv q hq)).2.2.2, (validPosting_iff.1 (hv q hq)).1⟩

theorem varsMap_find_va {t : Tables} {i : Nat} {a : String} (h : t.accts[i]? = some a) :
    (varsMap t).find? (fun e => e.1 = vaName i) = some (vaName i, a) := by
  apply find_unique
  · intro e he hn
    rcases List.mem_append.1 he with h1 | h1
    · obtain ⟨i', h2, h3⟩ := (mem_number vaName t.accts 0 e.1 e.2).1 h1
      have : i' = i := by
        apply vaName_inj
        rw [← hn, h3]; simp
      subst this
      rw [h] at h2
      have e2 : e.2 = a := (Option.some.inj h2).symm
      exact Prod.ext hn e2
    · obtain ⟨j, _, h3⟩ := (mem_number vmName _ 0 e.1 e.2).1 h1
      exact absurd (hn.symm.trans h3) (vaName_ne_vmName i _)
  · exact List.mem_append_left _ ((mem_number vaName t.accts 0 _ _).2 ⟨i, h, by simp⟩)
  · rfl

theorem varsMap_find_vm {t : Tables} {j : Nat} {m : String × String} (h : t.mons[j]? = some m) :
    (varsMap t).find? (fun e => e.1 = vmName j) = some (vmName j, m.2) := by
  have hj : (t.mons.map (·.2))[j]? = some m.2 := by simp [h]
  apply find_unique
  · intro e he hn
    rcases List.mem_append.1 he with h1 | h1
    · obtain ⟨i, _, h3⟩ := (mem_number vaName t.accts 0 e.1 e.2).1 h1
      exact absurd (h3.symm.trans hn) (vaName_ne_vmName _ j)
    · obtain ⟨j', h2, h3⟩ := (mem_number vmName _ 0 e.1 e.2).1 h1
      have : j' = j := by
        apply vmName_inj
        rw [← hn, h3]; simp
      subst this
      rw [hj] at h2
      exact Prod.ext hn (Option.some.inj h2).symm
  · exact List.mem_append_right _ ((mem_number vmName _ 0 _ _).2 ⟨j, hj, by simp⟩)
  · rfl


theorem decl_bindable {t : Tables} {ps : List Posting} (hok : TablesOK t ps) {d : VarDecl} (hd : d ∈ decls t) :
    ∃ raw v, ((varsMap t).find? (·.1 = d.name)).map (·.2) = some raw ∧ parseValue d.ty raw = some v ∧ Good t d.name v := by
  rcases mem_decls.1 hd with ⟨i, hi, rfl⟩ | ⟨j, hj, rfl⟩
  · have hget : t.accts[i]? = some t.accts[i] := by simp [hi]
    refine ⟨t.accts[i], .acct t.accts[i], ?_, ?_, Or.inl ⟨i, _, hget, rfl, rfl⟩⟩
    · show ((varsMap t).find? (fun e => e.1 = vaName i)).map (·.2) = _
      rw [varsMap_find_va hget]; rfl
    · have := hok.accts _ (List.getElem_mem hi)
      simp [parseValue, this]
  · have hget : t.mons[j]? = some t.mons[j] := by simp [hj]
    obtain ⟨q, hq, hqa, hqn⟩ := hok.mons _ (List.getElem_mem hj)
    refine ⟨monVal q, .mon q.asset q.amt, ?_, parse_monVal hqa hqn, Or.inr ⟨j, q, by rw [hget, hq], rfl, rfl⟩⟩
    show ((varsMap t).find? (fun e => e.1 = vmName j)).map (·.2) = _
    rw [varsMap_find_vm hget, hq]; rfl

theorem varsMap_declared {t : Tables} {kv : String × String} (h : kv ∈ varsMap t) : ∃ d ∈ decls t, d.name = kv.1 := by
  rcases List.mem_append.1 h with h1 | h1
  · obtain ⟨i, h2, h3⟩ := (mem_number vaName t.accts 0 kv.1 kv.2).1 h1
    have hi : i < t.accts.length := by
      rcases Nat.lt_or_ge i t.accts.length with h | h
      · exact h
      · simp [h] at h2
    exact ⟨⟨.account, vaName i, .none⟩, mem_decls.2 (Or.inl ⟨i, hi, rfl⟩), by rw [h3]; simp⟩
  · obtain ⟨j, h2, h3⟩ := (mem_number vmName _ 0 kv.1 kv.2).1 h1
    have hj : j < t.mons.length := by
      rcases Nat.lt_or_ge j t.mons.length with h | h
      · exact h
      · simp [List.getElem?_eq_none, h] at h2
    exact ⟨⟨.monetary, vmName j, .none⟩, mem_decls.2 (Or.inr ⟨j, hj, rfl⟩), by rw [h3]; simp⟩

theorem filter_plain_decls (t : Tables) (f : VarDecl → Bool) (hf : ∀ d, d.origin = .none → f d = true) :
    (decls t).filter f = decls t :=
  List.filter_eq_self.2 (fun d hd => hf d (decls_origin hd))

/-- the generated script passes the check, the variable map binds, and every generated name resolves to its value -/
theorem prepare_ok {ps : List Posting} (hv : ∀ p ∈ ps, validPosting p = true) (ub : Bool) (md : List (String × String))
    (store : Store) :
    ∃ env, prepare (txToScript ps ub).1 ⟨(txToScript ps ub).2, md⟩ store = .ok env ∧
      ∀ p ∈ ps,
        (p.src ≠ "world" → lookupVar env (acctVar (tables ps).accts p.src) = some (.acct p.src)) ∧
        (p.dst ≠ "world" → lookupVar env (acctVar (tables ps).accts p.dst) = some (.acct p.dst)) ∧
        lookupVar env (monVar (tables ps).mons p) = some (.mon p.asset p.amt) := by
  have hok := tables_ok hv
  generalize ht : tables ps = t at hok
  have hcheck : check ⟨decls t, ps.map (sendOf t ub)⟩ = true := check_txToScript hok.cov
  obtain ⟨plain, b1, b2, b3, _⟩ := bind_fold (Good t) (varsMap t) (decls t) [] (fun d hd => decl_bindable hok hd) (by simp)
  have hall : (varsMap t).all (fun kv => (decls t).any (fun d => d.name = kv.1)) = true := by
    rw [List.all_eq_true]
    intro kv hkv
    obtain ⟨d, hd, hn⟩ := varsMap_declared hkv
    exact List.any_eq_true.2 ⟨d, hd, by simpa using hn⟩
  have hbind : bindPlain (decls t) (varsMap t) = .ok plain := by
    rw [bindPlain_eq, filter_plain_decls t _ (fun d hd => by simp only [hd]), b1]
    simp only [hall, if_true]
  obtain ⟨env, r1, r2, r3, _⟩ := resolve_plain (Good t) store plain (decls t) []
    (fun d hd => ⟨decls_origin hd, b3 d hd⟩) b2 (by simp)
  refine ⟨env, ?_, ?_⟩
  · simp only [prepare, txToScript, ht, hcheck, hbind]
    exact r1
  · -- every generated name resolves
    have hlook : ∀ n v, (∃ d ∈ decls t, d.name = n) → Good t n v → lookupVar env n = some v := by
      intro n v ⟨d, hd, hn⟩ hg
      obtain ⟨v0, hv0⟩ := r3 d hd
      obtain ⟨v', hl, hm⟩ := lookup_of_mem ⟨v0, hn ▸ hv0⟩
      rw [hl, good_unique hg (r2 _ hm)]
    have hacct : ∀ a, a ∈ t.accts → lookupVar env (acctVar t.accts a) = some (.acct a) := by
      intro a ha
      have hi := acctVar_lt ha
      have hget : t.accts[t.accts.idxOf a]? = some a := by
        rw [List.getElem?_eq_getElem hi]; simp
      exact hlook _ _ ⟨⟨.account, vaName _, .none⟩, mem_decls.2 (Or.inl ⟨_, hi, rfl⟩), rfl⟩
        (Or.inl ⟨_, a, hget, rfl, rfl⟩)
    intro p hp
    have hc := hok.cov p hp
    refine ⟨fun hw => hacct _ (hc.src.resolve_left hw), fun hw => hacct _ (hc.dst.resolve_left hw), ?_⟩
    have hj := monVar_lt hc.mon
    have hkey : (t.mons[t.mons.findIdx (fun m => decide (m.1 = monKey p))]).1 = monKey p := by
      have := List.findIdx_getElem (w := hj)
      simpa using this
    obtain ⟨q, hq, _, _⟩ := hok.mons _ (List.getElem_mem hj)
    have hkq : monKey q = monKey p := by rw [hq] at hkey; exact hkey
    obtain ⟨e1, e2⟩ := monKey_inj hkq
    have hget : t.mons[t.mons.findIdx (fun m => decide (m.1 = monKey p))]? = some (monKey q, monVal q) := by
      rw [List.getElem?_eq_getElem hj, hq]
    have := hlook (vmName _) (.mon q.asset q.amt) ⟨⟨.monetary, vmName _, .none⟩, mem_decls.2 (Or.inr ⟨_, hj, rfl⟩), rfl⟩
      (Or.inr ⟨_, q, hget, rfl, rfl⟩)
    rw [e1, e2] at this
    exact this

end Tx
end Num
