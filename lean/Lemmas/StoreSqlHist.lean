import Lemmas.StoreSqlJson
/-! C04 stage 2, layer 2c: **metadata histories**.

The projection appends a row to a revision table on every `update` of the base row (also when the metadata did not change: a
revert, the double revision 0 / 1 at insertion) and skips the update — hence the revision — when `upsert_account` finds the new
metadata contained in the old; the replay appends a revision on every metadata entry of the log.  The executable comparison
(`canonHist`) removes successive repetitions (and the initial `{}` of an account) from both before comparing them.  `Sim S P`:
the two histories (oldest first) have, up to equality of finite maps, the same canonical form; it is kept by a joint step, by a
repetition on the left and by a repetition on the right. -/
namespace StoreSql
open Sql Store

-- ---------------------------------------------------------------- equality of finite maps on J

def Eqv (x y : J) : Prop := ∃ a b, x = .obj a ∧ y = .obj b ∧ MObj a ∧ MObj b ∧ KEq a b

theorem Eqv.symm {x y : J} (h : Eqv x y) : Eqv y x := by
  obtain ⟨a, b, rfl, rfl, ha, hb, e⟩ := h
  exact ⟨b, a, rfl, rfl, hb, ha, e.symm⟩

theorem Eqv.trans {x y z : J} (h : Eqv x y) (g : Eqv y z) : Eqv x z := by
  obtain ⟨a, b, rfl, rfl, ha, hb, e⟩ := h
  obtain ⟨b', c, hb', rfl, _, hc, e'⟩ := g
  cases hb'
  exact ⟨a, c, rfl, rfl, ha, hc, e.trans e'⟩

theorem Eqv.refl_left {x y : J} (h : Eqv x y) : Eqv x x := h.trans h.symm
theorem Eqv.refl_right {x y : J} (h : Eqv x y) : Eqv y y := h.symm.trans h

theorem Eqv.beq {x y : J} (h : Eqv x y) : (x == y) = true := by
  obtain ⟨a, b, rfl, rfl, ha, hb, e⟩ := h
  exact (beq_obj_iff ha hb).mpr e

theorem eqv_of_beq {x y : J} (hx : Eqv x x) (hy : Eqv y y) (h : (x == y) = true) : Eqv x y := by
  obtain ⟨a, _, rfl, _, ha, _, _⟩ := hx
  obtain ⟨b, _, rfl, _, hb, _, _⟩ := hy
  exact ⟨a, b, rfl, rfl, ha, hb, (beq_obj_iff ha hb).mp h⟩

theorem eqv_obj {a b : Kvs} (ha : MObj a) (hb : MObj b) (e : KEq a b) : Eqv (.obj a) (.obj b) := ⟨a, b, rfl, rfl, ha, hb, e⟩

/-- `==` respects equality of finite maps -/
theorem beq_congr {y q s p : J} (h1 : Eqv y q) (h2 : Eqv s p) : (y == s) = (q == p) := by
  rw [Bool.eq_iff_iff]
  constructor
  · intro h
    exact ((h1.symm.trans (eqv_of_beq h1.refl_left h2.refl_left h)).trans h2).beq
  · intro h
    exact ((h1.trans (eqv_of_beq h1.refl_right h2.refl_right h)).trans h2.symm).beq

theorem eqv_empty_iff {x y : J} (h : Eqv x y) : x = .obj [] ↔ y = .obj [] := by
  obtain ⟨a, b, rfl, rfl, _, _, e⟩ := h
  constructor
  · intro ha; cases ha; rw [KEq_nil e]
  · intro hb; cases hb; rw [KEq_nil e.symm]

-- ---------------------------------------------------------------- elementwise relation

inductive Rel2 {α β : Type} (R : α → β → Prop) : List α → List β → Prop
  | nil : Rel2 R [] []
  | cons {a b as bs} : R a b → Rel2 R as bs → Rel2 R (a :: as) (b :: bs)

theorem Rel2.snoc {α β : Type} {R : α → β → Prop} {as : List α} {bs : List β} {a : α} {b : β} (h : Rel2 R as bs) (r : R a b) :
    Rel2 R (as ++ [a]) (bs ++ [b]) := by
  induction h with
  | nil => exact .cons r .nil
  | cons r' _ ih => exact .cons r' ih

theorem Rel2.length {α β : Type} {R : α → β → Prop} {as : List α} {bs : List β} (h : Rel2 R as bs) : as.length = bs.length := by
  induction h with
  | nil => rfl
  | cons _ _ ih => simp [ih]

theorem beqList_of_rel2 {as bs : List J} (h : Rel2 Eqv as bs) : J.beqList as bs = true := by
  induction h with
  | nil => simp [J.beqList]
  | cons r _ ih =>
    simp only [J.beqList, Bool.and_eq_true, ih, and_true]
    exact r.beq

-- ---------------------------------------------------------------- canonHist, step by step

def cstep (acc : List J × J) (y : J) : List J × J := if y == acc.2 then acc else (acc.1 ++ [y], y)
def crun (x : J) (rest : List J) : List J × J := rest.foldl cstep ([x], x)
def dropLead : List J → List J
  | (.obj []) :: y :: more => y :: more
  | other => other

theorem canonHist_cons (x : J) (rest : List J) : canonHist (x :: rest) = dropLead (crun x rest).1 := by
  unfold canonHist dropLead crun
  rfl

/-- the state of the canonicalisation after a non-empty list -/
def cs : List J → Option (List J × J)
  | [] => none
  | x :: rest => some (crun x rest)

theorem cs_snoc (xs : List J) (y : J) :
    cs (xs ++ [y]) = some (match cs xs with | none => ([y], y) | some st => cstep st y) := by
  cases xs with
  | nil => rfl
  | cons x rest => simp [cs, crun, List.foldl_append]

theorem canonHist_of_cs {xs : List J} {st : List J × J} (h : cs xs = some st) : canonHist xs = dropLead st.1 := by
  cases xs with
  | nil => cases h
  | cons x rest => simp only [cs, Option.some.injEq] at h; rw [canonHist_cons, h]

theorem foldl_cstep_prefix (pre kept : List J) (last : J) (xs : List J) :
    xs.foldl cstep (pre ++ kept, last) = (pre ++ (xs.foldl cstep (kept, last)).1, (xs.foldl cstep (kept, last)).2) := by
  induction xs generalizing kept last with
  | nil => rfl
  | cons y ys ih =>
    simp only [List.foldl_cons]
    by_cases h : (y == last) = true
    · simp only [cstep, h, if_true]; exact ih kept last
    · simp only [cstep, h, Bool.false_eq_true, if_false]
      rw [List.append_assoc]
      exact ih (kept ++ [y]) y

theorem crun_head (x : J) (rest : List J) : ∃ tl, (crun x rest).1 = x :: tl := by
  have := foldl_cstep_prefix [x] [] x rest
  simp only [List.append_nil, List.singleton_append] at this
  unfold crun
  exact ⟨_, congrArg Prod.fst this⟩

-- ---------------------------------------------------------------- Sim

/-- the two histories (oldest first, non-empty) canonicalise to elementwise equal lists; the last kept value of each is (as a
finite map) the last value of the history -/
def Sim (S P : List J) : Prop :=
  ∃ s p zs zp, cs S = some s ∧ cs P = some p ∧ Rel2 Eqv s.1 p.1 ∧ Eqv s.2 p.2 ∧
    S.getLast? = some zs ∧ P.getLast? = some zp ∧ Eqv s.2 zs ∧ Eqv p.2 zp

theorem Sim.base {y q : J} (h : Eqv y q) : Sim [y] [q] :=
  ⟨([y], y), ([q], q), y, q, rfl, rfl, .cons h .nil, h, rfl, rfl, h.refl_left, h.refl_right⟩

theorem Sim.last {S P : List J} (h : Sim S P) : ∃ zs zp, S.getLast? = some zs ∧ P.getLast? = some zp ∧ Eqv zs zp := by
  obtain ⟨s, p, zs, zp, _, _, _, e, h1, h2, e1, e2⟩ := h
  exact ⟨zs, zp, h1, h2, (e1.symm.trans e).trans e2⟩

/-- a joint step: both sides append equal maps -/
theorem Sim.both {S P : List J} (h : Sim S P) {y q : J} (e : Eqv y q) : Sim (S ++ [y]) (P ++ [q]) := by
  obtain ⟨s, p, zs, zp, c1, c2, r, el, h1, h2, e1, e2⟩ := h
  have hb : (y == s.2) = (q == p.2) := beq_congr e el
  refine ⟨cstep s y, cstep p q, y, q, by rw [cs_snoc, c1], by rw [cs_snoc, c2], ?_, ?_, by simp, by simp, ?_, ?_⟩
  · by_cases hy : (y == s.2) = true
    · simp only [cstep, hy, ← hb, if_true]; exact r
    · simp only [cstep, hy, ← hb, Bool.false_eq_true, if_false]; exact r.snoc e
  · by_cases hy : (y == s.2) = true
    · simp only [cstep, hy, ← hb, if_true]; exact el
    · simp only [cstep, hy, ← hb, Bool.false_eq_true, if_false]; exact e
  · by_cases hy : (y == s.2) = true
    · simp only [cstep, hy, if_true]; exact (eqv_of_beq e.refl_left el.refl_left hy).symm
    · simp only [cstep, hy, Bool.false_eq_true, if_false]; exact e.refl_left
  · by_cases hq : (q == p.2) = true
    · simp only [cstep, hq, if_true]; exact (eqv_of_beq e.refl_right el.refl_right hq).symm
    · simp only [cstep, hq, Bool.false_eq_true, if_false]; exact e.refl_right

/-- the projection repeats its latest value -/
theorem Sim.left {S P : List J} (h : Sim S P) {y z : J} (hz : S.getLast? = some z) (e : Eqv y z) : Sim (S ++ [y]) P := by
  obtain ⟨s, p, zs, zp, c1, c2, r, el, h1, h2, e1, e2⟩ := h
  rw [hz] at h1; cases h1
  have hy : (y == s.2) = true := (e.trans e1.symm).beq
  exact ⟨s, p, y, zp, by rw [cs_snoc, c1]; simp [cstep, hy], c2, r, el, by simp, h2, e1.trans e.symm, e2⟩

/-- the replay repeats its latest value -/
theorem Sim.right {S P : List J} (h : Sim S P) {q z : J} (hz : P.getLast? = some z) (e : Eqv q z) : Sim S (P ++ [q]) := by
  obtain ⟨s, p, zs, zp, c1, c2, r, el, h1, h2, e1, e2⟩ := h
  rw [hz] at h2; cases h2
  have hq : (q == p.2) = true := (e.trans e2.symm).beq
  exact ⟨s, p, zs, q, c1, by rw [cs_snoc, c2]; simp [cstep, hq], r, el, h1, by simp, e1, e2.trans e.symm⟩

theorem dropLead_rel2 {as bs : List J} (h : Rel2 Eqv as bs) : Rel2 Eqv (dropLead as) (dropLead bs) := by
  cases h with
  | nil => exact .nil
  | cons r1 t =>
    rename_i a b as' bs'
    cases t with
    | nil =>
      have : ∀ x : J, dropLead [x] = [x] := by
        intro x; unfold dropLead; split
        · rename_i heq; cases heq
        · rfl
      rw [this, this]; exact .cons r1 .nil
    | cons r2 t' =>
      rename_i a2 b2 as2 bs2
      by_cases ha : a = .obj []
      · have hb := (eqv_empty_iff r1).mp ha
        subst ha; subst hb
        exact .cons r2 t'
      · have hb : ¬ b = .obj [] := fun e => ha ((eqv_empty_iff r1).mpr e)
        have d1 : dropLead (a :: a2 :: as2) = a :: a2 :: as2 := by
          unfold dropLead; split
          · rename_i heq; cases heq; exact absurd rfl ha
          · rfl
        have d2 : dropLead (b :: b2 :: bs2) = b :: b2 :: bs2 := by
          unfold dropLead; split
          · rename_i heq; cases heq; exact absurd rfl hb
          · rfl
        rw [d1, d2]; exact .cons r1 (.cons r2 t')

/-- **what the executable comparison checks** -/
theorem Sim.canon {S P : List J} (h : Sim S P) : J.beqList (canonHist S) (canonHist P) = true := by
  obtain ⟨s, p, _, _, c1, c2, r, _⟩ := h
  rw [canonHist_of_cs c1, canonHist_of_cs c2]
  exact beqList_of_rel2 (dropLead_rel2 r)

/-- accounts: the replay's history may start with the `{}` of the account's creation, which the comparison drops when something
else follows -/
def SimA (S P : List J) : Prop :=
  Sim S P ∨ ∃ p0 rest, P = J.obj [] :: p0 :: rest ∧ ¬ p0 = J.obj [] ∧ Eqv p0 p0 ∧ Sim S (p0 :: rest)

theorem SimA.last {S P : List J} (h : SimA S P) : ∃ zs zp, S.getLast? = some zs ∧ P.getLast? = some zp ∧ Eqv zs zp := by
  rcases h with h | ⟨p0, rest, rfl, _, _, h⟩
  · exact h.last
  · obtain ⟨zs, zp, h1, h2, e⟩ := h.last
    refine ⟨zs, zp, h1, ?_, e⟩
    rw [List.getLast?_cons_cons]; exact h2

theorem SimA.both {S P : List J} (h : SimA S P) {y q : J} (e : Eqv y q) : SimA (S ++ [y]) (P ++ [q]) := by
  rcases h with h | ⟨p0, rest, rfl, hne, hp, h⟩
  · exact .inl (h.both e)
  · exact .inr ⟨p0, rest ++ [q], rfl, hne, hp, h.both e⟩

theorem SimA.left {S P : List J} (h : SimA S P) {y z : J} (hz : S.getLast? = some z) (e : Eqv y z) : SimA (S ++ [y]) P := by
  rcases h with h | ⟨p0, rest, rfl, hne, hp, h⟩
  · exact .inl (h.left hz e)
  · exact .inr ⟨p0, rest, rfl, hne, hp, h.left hz e⟩

theorem SimA.right {S P : List J} (h : SimA S P) {q z : J} (hz : P.getLast? = some z) (e : Eqv q z) : SimA S (P ++ [q]) := by
  rcases h with h | ⟨p0, rest, rfl, hne, hp, h⟩
  · exact .inl (h.right hz e)
  · refine .inr ⟨p0, rest ++ [q], rfl, hne, hp, h.right ?_ e⟩
    rw [List.getLast?_cons_cons] at hz; exact hz

theorem SimA.canon {S P : List J} (h : SimA S P) : J.beqList (canonHist S) (canonHist P) = true := by
  rcases h with h | ⟨p0, rest, rfl, hne, hp, h⟩
  · exact h.canon
  · obtain ⟨s, p, _, _, c1, c2, r, _⟩ := h
    rw [canonHist_of_cs c1, canonHist_cons]
    simp only [cs, Option.some.injEq] at c2
    have hb : ¬ (p0 == J.obj []) = true := by
      intro hbe
      obtain ⟨a, _, rfl, _, ha, _, _⟩ := hp
      have := (beq_obj_iff ha mobj_nil).mp hbe
      exact hne (by rw [KEq_nil this.symm])
    have e1 : crun (J.obj []) (p0 :: rest) = (J.obj [] :: (crun p0 rest).1, (crun p0 rest).2) := by
      simp only [crun, List.foldl_cons, cstep, hb, Bool.false_eq_true, if_false]
      exact foldl_cstep_prefix [J.obj []] [p0] p0 rest
    rw [e1, c2]
    obtain ⟨tl, htl⟩ := crun_head p0 rest
    rw [c2] at htl
    have d2 : dropLead (J.obj [] :: p.1) = p.1 := by rw [htl]; rfl
    rw [d2]
    -- the left canonical list starts with a non-empty object too
    have d1 : dropLead s.1 = s.1 := by
      rw [htl] at r
      generalize s.1 = s1 at r
      cases r with
      | cons r1 t =>
        rename_i a as'
        have ha : ¬ a = .obj [] := fun e => hne ((eqv_empty_iff r1).mp e)
        unfold dropLead; split
        · rename_i heq; cases heq; exact absurd rfl ha
        · rfl
    rw [d1]
    exact beqList_of_rel2 r

-- ---------------------------------------------------------------- revision numbers

/-- the revision rows of one base row in table order, the next revision number, and the values oldest first: revision 1 at
insertion (and, for a transaction, revision 0 with the same value at the end of `insert_transaction`), then 2, 3, … -/
inductive HistOk : List (Val × Kvs) → Int → List Kvs → Prop
  | one (m : Kvs) : HistOk [(.int 1, m)] 2 [m]
  | two (m : Kvs) : HistOk [(.int 1, m), (.int 0, m)] 2 [m, m]
  | snoc {rows : List (Val × Kvs)} {k : Int} {vals : List Kvs} (y : Kvs) : HistOk rows k vals → HistOk (rows ++ [(.int k, y)]) (k + 1) (vals ++ [y])

theorem HistOk.bound {rows : List (Val × Kvs)} {k : Int} {vals : List Kvs} (h : HistOk rows k vals) :
    ∀ r ∈ rows, ∃ i : Int, r.1 = .int i ∧ i < k := by
  induction h with
  | one m => intro r hr; simp only [List.mem_singleton] at hr; subst hr; exact ⟨1, rfl, by omega⟩
  | two m =>
    intro r hr
    simp only [List.mem_cons, List.not_mem_nil, or_false] at hr
    rcases hr with rfl | rfl
    · exact ⟨1, rfl, by omega⟩
    · exact ⟨0, rfl, by omega⟩
  | snoc y _ ih =>
    intro r hr
    rcases List.mem_append.mp hr with hr | hr
    · obtain ⟨i, e, hi⟩ := ih r hr; exact ⟨i, e, by omega⟩
    · simp only [List.mem_singleton] at hr; subst hr; exact ⟨_, rfl, by omega⟩

theorem HistOk.ne_nil {rows : List (Val × Kvs)} {k : Int} {vals : List Kvs} (h : HistOk rows k vals) : vals ≠ [] := by
  cases h <;> simp

theorem pickBest_append {R : Type} (before : R → R → Bool) (best : Option R) (xs ys : List R) :
    pickBest before best (xs ++ ys) = pickBest before (pickBest before best xs) ys := by
  induction xs generalizing best with
  | nil => rfl
  | cons x xs ih =>
    cases best with
    | none => simpa [pickBest] using ih (some x)
    | some b => simp only [List.cons_append, pickBest]; exact ih _

def revKey : List (Key (Val × Kvs)) := [{ get := fun r => r.1, desc := true }]

/-- the row `order by revision desc limit 1` picks carries the greatest revision -/
theorem HistOk.max {rows : List (Val × Kvs)} {k : Int} {vals : List Kvs} (h : HistOk rows k vals) :
    (pickBest (lexBefore revKey) none rows).map (·.1) = some (.int (k - 1)) := by
  induction h with
  | one m => rfl
  | two m => simp [pickBest, lexBefore, revKey, keyBefore, Val.isNullB, Val.lt?]
  | @snoc rows k vals y _ ih =>
    rw [pickBest_append]
    cases hb : pickBest (lexBefore revKey) none rows with
    | none => rw [hb] at ih; cases ih
    | some b =>
      rw [hb] at ih
      simp only [Option.map_some, Option.some.injEq] at ih
      have : lexBefore revKey (Val.int k, y) b = true := by
        simp [lexBefore, revKey, keyBefore, ih, Val.isNullB, Val.lt?]; omega
      simp [pickBest, this]

theorem insertByRevision_last (r : Val × J) (xs : List (Val × J)) (h : ∀ x ∈ xs, (Val.lt? r.1 x.1).getD false = false) :
    insertByRevision r xs = xs ++ [r] := by
  induction xs with
  | nil => rfl
  | cons x xs ih =>
    have hx := h x (List.mem_cons_self ..)
    simp only [insertByRevision, hx, Bool.false_eq_true, if_false, List.cons_append]
    rw [ih (fun y hy => h y (List.mem_cons_of_mem _ hy))]

theorem mem_insertByRevision (r x : Val × J) (xs : List (Val × J)) : x ∈ insertByRevision r xs ↔ x = r ∨ x ∈ xs := by
  induction xs with
  | nil => simp [insertByRevision]
  | cons y ys ih =>
    simp only [insertByRevision]
    split
    · simp
    · simp only [List.mem_cons, ih]
      constructor
      · rintro (h | h | h)
        · exact .inr (.inl h)
        · exact .inl h
        · exact .inr (.inr h)
      · rintro (h | h | h)
        · exact .inr (.inl h)
        · exact .inl h
        · exact .inr (.inr h)

def jrow (r : Val × Kvs) : Val × J := (r.1, J.obj r.2)

/-- sorting the revision rows by revision number gives the values oldest first -/
theorem HistOk.sorted {rows : List (Val × Kvs)} {k : Int} {vals : List Kvs} (h : HistOk rows k vals) :
    sortByRevision (rows.map jrow) = vals.map J.obj := by
  have key : ((rows.map jrow).foldl (fun acc r => insertByRevision r acc) []).map (·.2) = vals.map J.obj ∧
      ∀ x ∈ (rows.map jrow).foldl (fun acc r => insertByRevision r acc) [], ∃ i : Int, x.1 = .int i ∧ i < k := by
    induction h with
    | one m =>
      refine ⟨rfl, ?_⟩
      intro x hx
      simp only [List.map_cons, List.map_nil, List.foldl_cons, List.foldl_nil, insertByRevision, List.mem_singleton] at hx
      subst hx; exact ⟨1, rfl, by omega⟩
    | two m =>
      have e : ([((Val.int 1, m) : Val × Kvs), (Val.int 0, m)].map jrow).foldl (fun acc r => insertByRevision r acc) [] =
          [(Val.int 0, J.obj m), (Val.int 1, J.obj m)] := by
        simp [jrow, insertByRevision, Val.lt?]
      rw [e]
      refine ⟨rfl, ?_⟩
      intro x hx
      simp only [List.mem_cons, List.not_mem_nil, or_false] at hx
      rcases hx with rfl | rfl
      · exact ⟨0, rfl, by omega⟩
      · exact ⟨1, rfl, by omega⟩
    | @snoc rows k vals y _ ih =>
      obtain ⟨ih1, ih2⟩ := ih
      rw [List.map_append, List.foldl_append]
      simp only [List.map_cons, List.map_nil, List.foldl_cons, List.foldl_nil]
      have hlast : insertByRevision (jrow (Val.int k, y)) ((rows.map jrow).foldl (fun acc r => insertByRevision r acc) []) =
          ((rows.map jrow).foldl (fun acc r => insertByRevision r acc) []) ++ [jrow (Val.int k, y)] := by
        apply insertByRevision_last
        intro x hx
        obtain ⟨i, e, hi⟩ := ih2 x hx
        have : ¬ k < i := by omega
        simp [jrow, e, Val.lt?, this]
      rw [hlast]
      refine ⟨by simp [ih1, jrow], ?_⟩
      intro x hx
      rcases List.mem_append.mp hx with hx | hx
      · obtain ⟨i, e, hi⟩ := ih2 x hx; exact ⟨i, e, by omega⟩
      · simp only [List.mem_singleton] at hx; subst hx; exact ⟨k, rfl, by omega⟩
  exact key.1

end StoreSql
