import Lemmas.NumSim
/-! `NeededBalances` of a compiled program, resolved to values, is `Spec.needed` (as a set), so the second loop of
`ResolveBalances` builds exactly `Spec.initBal`. -/
namespace Num
open VM

/-! ### only the statement visitors touch `neededBalances` -/

def NdEq (st st' : CState) : Prop := st'.needed = st.needed

theorem NdEq.refl (st : CState) : NdEq st st := rfl
theorem NdEq.trans {a b c : CState} (h1 : NdEq a b) (h2 : NdEq b c) : NdEq a c := Eq.trans h2 h1
theorem NdEq.addSources (st : CState) (l : List Addr) : NdEq st (addSources st l) := rfl

theorem appendResource_nd {st st' : CState} {r : Resource} {a : Addr} (h : appendResource st r = .ok (a, st')) : NdEq st st' := by
  obtain ⟨_, rfl⟩ := appendResource_ok h; rfl

theorem allocRes_nd {st st' : CState} {r : Resource} {a : Addr} (h : allocRes st r = .ok (a, st')) : NdEq st st' := by
  unfold allocRes at h
  cases r with
  | const v =>
    simp only at h
    split at h
    · simp only [Except.ok.injEq, Prod.mk.injEq] at h
      obtain ⟨_, rfl⟩ := h; exact NdEq.refl _
    · exact appendResource_nd h
  | var _ _ => exact appendResource_nd h
  | varMeta _ _ _ _ => exact appendResource_nd h
  | varBalance _ _ _ => exact appendResource_nd h
  | monetary _ _ => exact appendResource_nd h

theorem emitSeq_nd {st st' : CState} {es : List Emit} {c : Code} (h : emitSeq st es = .ok (c, st')) : NdEq st st' := by
  induction es generalizing st c with
  | nil =>
    simp only [emitSeq, Except.ok.injEq, Prod.mk.injEq] at h
    obtain ⟨_, rfl⟩ := h; exact NdEq.refl _
  | cons e es ih =>
    cases e with
    | op i =>
      simp only [emitSeq] at h
      split at h
      · cases h
      · rename_i c' st1 hr
        simp only [Except.ok.injEq, Prod.mk.injEq] at h
        obtain ⟨_, rfl⟩ := h; exact ih hr
    | pushAddr a =>
      simp only [emitSeq] at h
      split at h
      · cases h
      · rename_i c' st1 hr
        simp only [Except.ok.injEq, Prod.mk.injEq] at h
        obtain ⟨_, rfl⟩ := h; exact ih hr
    | pushInt n =>
      simp only [emitSeq] at h
      split at h
      · cases h
      · rename_i a st1 ha
        split at h
        · cases h
        · rename_i c' st2 hr
          simp only [Except.ok.injEq, Prod.mk.injEq] at h
          obtain ⟨_, rfl⟩ := h
          exact (allocRes_nd ha).trans (ih hr)
    | bump n =>
      simp only [emitSeq] at h
      split at h
      · cases h
      · rename_i a st1 ha
        split at h
        · cases h
        · rename_i c' st2 hr
          simp only [Except.ok.injEq, Prod.mk.injEq] at h
          obtain ⟨_, rfl⟩ := h
          exact (allocRes_nd ha).trans (ih hr)

theorem litOut_nd {st : CState} {ty : BTy} {v : BVal} {o : ExprOut} (h : litOut st ty v = .ok o) : NdEq st o.st := by
  unfold litOut at h
  split at h
  · cases h
  · rename_i a st1 ha
    simp only [Except.ok.injEq] at h
    subst h
    exact allocRes_nd ha

theorem visitExpr_nd {st : CState} {e : Expr} {o : ExprOut} (h : visitExpr st e = .ok o) : NdEq st o.st := by
  induction e generalizing st o with
  | acct a => exact litOut_nd h
  | asset a => exact litOut_nd h
  | num n => exact litOut_nd h
  | str s => exact litOut_nd h
  | portion r => exact litOut_nd h
  | badPortion => simp [visitExpr] at h
  | mon ae n ih =>
    simp only [visitExpr] at h
    split at h
    · cases h
    · rename_i ao hao
      have hext := ih (o := ao) hao
      split at h
      · cases h
      · split at h
        · cases h
        · split at h
          · simp only [Except.ok.injEq] at h; subst h
            exact hext
          · split at h
            · cases h
            · rename_i m st1 hm
              simp only [Except.ok.injEq] at h; subst h
              exact hext.trans (allocRes_nd hm)
  | var n =>
    simp only [visitExpr] at h
    split at h
    · cases h
    · split at h
      · cases h
      · simp only [Except.ok.injEq] at h; subst h
        exact NdEq.refl _
  | add l r ihl ihr =>
    simp only [visitExpr] at h
    split at h
    · cases h
    · rename_i lo hlo
      have hel := ihl (o := lo) hlo
      split at h
      · split at h
        · cases h
        · rename_i ro hro
          split at h
          · cases h
          · simp only [Except.ok.injEq] at h; subst h
            exact hel.trans (ihr (o := ro) hro)
      · split at h
        · split at h
          · cases h
          · rename_i ro hro
            split at h
            · cases h
            · simp only [Except.ok.injEq] at h; subst h
              exact hel.trans (ihr (o := ro) hro)
        · cases h
  | sub l r ihl ihr =>
    simp only [visitExpr] at h
    split at h
    · cases h
    · rename_i lo hlo
      have hel := ihl (o := lo) hlo
      split at h
      · split at h
        · cases h
        · rename_i ro hro
          split at h
          · cases h
          · simp only [Except.ok.injEq] at h; subst h
            exact hel.trans (ihr (o := ro) hro)
      · split at h
        · split at h
          · cases h
          · rename_i ro hro
            split at h
            · cases h
            · simp only [Except.ok.injEq] at h; subst h
              exact hel.trans (ihr (o := ro) hro)
        · cases h

theorem visitTyped_nd {st st' : CState} {want : BTy} {e : Expr} {a : Addr} {c : Code}
    (h : visitTyped st want e = .ok (a, c, st')) : NdEq st st' := by
  unfold visitTyped at h
  split at h
  · cases h
  · rename_i o ho
    split at h
    · cases h
    · split at h
      · cases h
      · simp only [Except.ok.injEq, Prod.mk.injEq] at h
        obtain ⟨_, _, rfl⟩ := h
        exact visitExpr_nd ho

theorem srcBody_nd {st st1 : CState} {pa c : Code} {w : Bool} {a : Addr} {od : Overdraft} {fb : Option Addr}
    (hb : (match od with
          | .none =>
            match emitSeq st [.pushInt 0, .op .monetaryNew, .op .takeAll] with
            | .error er => .error er
            | .ok (c, st1) => .ok (pa ++ c, st1, if w then some a else none)
          | .upTo x =>
            if w then .error .static else
            match visitExpr st x with
            | .error er => .error er
            | .ok xo => if xo.ty ≠ .monetary then .error .static else .ok (xo.code ++ [.takeAll], xo.st, none)
          | .unbounded =>
            if w then .error .static else
            match emitSeq st [.pushInt 0, .op .monetaryNew, .op .takeAll] with
            | .error er => .error er
            | .ok (c, st1) => .ok (pa ++ c, st1, some a) : Except CompileErr (Code × CState × Option Addr)) = .ok (c, st1, fb)) :
    NdEq st st1 := by
  cases od with
  | none =>
    simp only at hb
    split at hb
    · cases hb
    · rename_i c' st1' hs
      simp only [Except.ok.injEq, Prod.mk.injEq] at hb
      obtain ⟨_, rfl, _⟩ := hb; exact emitSeq_nd hs
  | upTo x =>
    simp only at hb
    split at hb
    · cases hb
    · split at hb
      · cases hb
      · rename_i xo hxo
        split at hb
        · cases hb
        · simp only [Except.ok.injEq, Prod.mk.injEq] at hb
          obtain ⟨_, rfl, _⟩ := hb; exact visitExpr_nd hxo
  | unbounded =>
    simp only at hb
    split at hb
    · cases hb
    · split at hb
      · cases hb
      · rename_i c' st1' hs
        simp only [Except.ok.injEq, Prod.mk.injEq] at hb
        obtain ⟨_, rfl, _⟩ := hb; exact emitSeq_nd hs

mutual
theorem visitSource_nd {st : CState} {pa : Code} {isAll : Bool} {s : Source} {so : SrcOut}
    (h : visitSource st pa isAll s = .ok so) : NdEq st so.st := by
  cases s with
  | acct e od =>
    simp only [visitSource] at h
    split at h
    · cases h
    · rename_i o ho
      split at h
      · cases h
      · split at h
        · cases h
        · split at h
          · cases h
          · rename_i c st1 fb hb
            split at h
            · cases h
            · simp only [Except.ok.injEq] at h; subst h
              exact (visitExpr_nd ho).trans ((srcBody_nd hb).trans (NdEq.addSources st1 _))
  | maxed cap s =>
    simp only [visitSource] at h
    split at h
    · cases h
    · rename_i so1 hso
      split at h
      · cases h
      · rename_i co hco
        split at h
        · cases h
        · split at h
          · cases h
          · rename_i c st1 hs
            simp only [Except.ok.injEq] at h; subst h
            exact (visitSource_nd hso).trans ((visitExpr_nd hco).trans ((emitSeq_nd hs).trans (NdEq.addSources _ so1.needed)))
  | inorder ss =>
    simp only [visitSource] at h
    split at h
    · cases h
    · rename_i so1 n hso
      split at h
      · cases h
      · rename_i c st1 hs
        simp only [Except.ok.injEq] at h; subst h
        exact (visitSources_nd hso).trans ((emitSeq_nd hs).trans (NdEq.addSources _ so1.needed))
theorem visitSources_nd {st : CState} {pa : Code} {isAll : Bool} {ss : SourceList} {nd em : List Addr} {so : SrcOut} {n : Nat}
    (h : visitSources st pa isAll ss nd em = .ok (so, n)) : NdEq st so.st := by
  cases ss with
  | nil =>
    simp only [visitSources, Except.ok.injEq, Prod.mk.injEq] at h
    obtain ⟨rfl, _⟩ := h; exact NdEq.refl _
  | cons s rest =>
    simp only [visitSources] at h
    split at h
    · cases h
    · rename_i so1 hso
      split at h
      · cases h
      · split at h
        · cases h
        · split at h
          · cases h
          · rename_i ro n' hro
            simp only [Except.ok.injEq, Prod.mk.injEq] at h
            obtain ⟨rfl, _⟩ := h
            exact (visitSource_nd hso).trans (visitSources_nd (so := ro) hro)
end

theorem visitPortions_nd {st st' : CState} {ps : List PortionSpec} {hv hr hv' hr' : Bool} {c : Code}
    (h : visitPortions st ps hv hr = .ok (c, st', hv', hr')) : NdEq st st' := by
  induction ps generalizing st hv hr c with
  | nil =>
    simp only [visitPortions, Except.ok.injEq, Prod.mk.injEq] at h
    obtain ⟨_, rfl, _⟩ := h; exact NdEq.refl _
  | cons p rest ih =>
    simp only [visitPortions] at h
    split at h
    · cases h
    · rename_i c1 st1 hv1 hr1 hone
      split at h
      · cases h
      · rename_i c2 st2 hv2 hr2 hrest
        simp only [Except.ok.injEq, Prod.mk.injEq] at h
        obtain ⟨_, rfl, rfl, rfl⟩ := h
        refine NdEq.trans ?_ (ih hrest)
        cases p with
        | const r =>
          simp only at hone
          split at hone
          · cases hone
          · rename_i a st1' ha
            simp only [Except.ok.injEq, Prod.mk.injEq] at hone
            obtain ⟨_, rfl, _⟩ := hone; exact allocRes_nd ha
        | badConst => cases hone
        | var n =>
          simp only at hone
          split at hone
          · cases hone
          · rename_i o ho
            split at hone
            · cases hone
            · simp only [Except.ok.injEq, Prod.mk.injEq] at hone
              obtain ⟨_, rfl, _⟩ := hone; exact visitExpr_nd ho
        | remaining =>
          simp only at hone
          split at hone
          · cases hone
          · split at hone
            · cases hone
            · rename_i a st1' ha
              simp only [Except.ok.injEq, Prod.mk.injEq] at hone
              obtain ⟨_, rfl, _⟩ := hone; exact allocRes_nd ha

theorem visitAllotment_nd {st st' : CState} {ps : List PortionSpec} {c : Code}
    (h : visitAllotment st ps = .ok (c, st')) : NdEq st st' := by
  unfold visitAllotment at h
  split at h
  · cases h
  · rename_i c1 st1 hv hr hp
    simp only at h
    split at h
    · cases h
    · split at h
      · cases h
      · split at h
        · cases h
        · split at h
          · cases h
          · split at h
            · cases h
            · rename_i c2 st2 hs
              simp only [Except.ok.injEq, Prod.mk.injEq] at h
              obtain ⟨_, rfl⟩ := h
              exact (visitPortions_nd hp).trans (emitSeq_nd hs)

mutual
theorem visitDest_nd {st st' : CState} {d : Dest} {c : Code} (h : visitDest st d = .ok (c, st')) : NdEq st st' := by
  cases d with
  | acct e =>
    simp only [visitDest] at h
    split at h
    · cases h
    · rename_i o ho
      split at h
      · cases h
      · simp only [Except.ok.injEq, Prod.mk.injEq] at h
        obtain ⟨_, rfl⟩ := h; exact visitExpr_nd ho
  | inorder caps rest =>
    simp only [visitDest] at h
    split at h
    · cases h
    · rename_i c0 st0 h0
      split at h
      · cases h
      · rename_i c1 st1 h1
        split at h
        · cases h
        · rename_i c2 st2 h2
          split at h
          · cases h
          · rename_i c3 st3 h3
            split at h
            · cases h
            · rename_i c4 st4 h4
              simp only [Except.ok.injEq, Prod.mk.injEq] at h
              obtain ⟨_, rfl⟩ := h
              exact (emitSeq_nd h0).trans ((visitCaps_nd h1).trans ((emitSeq_nd h2).trans ((visitKD_nd h3).trans (emitSeq_nd h4))))
  | allot items =>
    simp only [visitDest] at h
    split at h
    · cases h
    · rename_i c1 st1 h1
      split at h
      · cases h
      · rename_i c2 st2 h2
        split at h
        · cases h
        · rename_i c3 st3 h3
          simp only [Except.ok.injEq, Prod.mk.injEq] at h
          obtain ⟨_, rfl⟩ := h
          exact (visitAllotment_nd h1).trans ((emitSeq_nd h2).trans (visitAllocDest_nd h3))
theorem visitKD_nd {st st' : CState} {kd : KeptOrDest} {c : Code} (h : visitKD st kd = .ok (c, st')) : NdEq st st' := by
  cases kd with
  | kept =>
    simp only [visitKD, Except.ok.injEq, Prod.mk.injEq] at h
    obtain ⟨_, rfl⟩ := h; exact NdEq.refl _
  | «to» d =>
    simp only [visitKD] at h
    exact visitDest_nd h
theorem visitCaps_nd {st st' : CState} {cs : CapList} {c : Code} (h : visitCaps st cs = .ok (c, st')) : NdEq st st' := by
  cases cs with
  | nil =>
    simp only [visitCaps, Except.ok.injEq, Prod.mk.injEq] at h
    obtain ⟨_, rfl⟩ := h; exact NdEq.refl _
  | cons cap kd rest =>
    simp only [visitCaps] at h
    split at h
    · cases h
    · rename_i o ho
      split at h
      · cases h
      · split at h
        · cases h
        · rename_i c1 st1 h1
          split at h
          · cases h
          · rename_i c2 st2 h2
            split at h
            · cases h
            · rename_i c3 st3 h3
              split at h
              · cases h
              · rename_i c4 st4 h4
                simp only [Except.ok.injEq, Prod.mk.injEq] at h
                obtain ⟨_, rfl⟩ := h
                exact (visitExpr_nd ho).trans ((emitSeq_nd h1).trans ((visitKD_nd h2).trans ((emitSeq_nd h3).trans (visitCaps_nd h4))))
theorem visitAllocDest_nd {st st' : CState} {al : AllotList} {c : Code} (h : visitAllocDest st al = .ok (c, st')) : NdEq st st' := by
  cases al with
  | nil =>
    simp only [visitAllocDest, Except.ok.injEq, Prod.mk.injEq] at h
    obtain ⟨_, rfl⟩ := h; exact NdEq.refl _
  | cons p kd rest =>
    simp only [visitAllocDest] at h
    split at h
    · cases h
    · rename_i c1 st1 h1
      split at h
      · cases h
      · rename_i c2 st2 h2
        split at h
        · cases h
        · rename_i c3 st3 h3
          split at h
          · cases h
          · rename_i c4 st4 h4
            simp only [Except.ok.injEq, Prod.mk.injEq] at h
            obtain ⟨_, rfl⟩ := h
            exact (emitSeq_nd h1).trans ((visitKD_nd h2).trans ((emitSeq_nd h3).trans (visitAllocDest_nd h4)))
end

theorem visitDestination_nd {st st' : CState} {d : Dest} {c : Code} (h : visitDestination st d = .ok (c, st')) : NdEq st st' := by
  unfold visitDestination at h
  split at h
  · cases h
  · rename_i c1 st1 h1
    simp only [Except.ok.injEq, Prod.mk.injEq] at h
    obtain ⟨_, rfl⟩ := h; exact visitDest_nd h1

theorem visitVar_nd {st st' : CState} {d : VarDecl} (h : visitVar st d = .ok st') : NdEq st st' := by
  obtain ⟨_, st0, r, _, rfl, ho⟩ := visitVar_cases h
  show st0.needed = st.needed
  cases hor : d.origin with
  | none => rw [hor] at ho; rw [ho.1]
  | metaOf acc key =>
    rw [hor] at ho
    obtain ⟨a, c, hv, _⟩ := ho
    exact visitTyped_nd hv
  | balance acc ae =>
    rw [hor] at ho
    obtain ⟨_, a, c, st1, s, c', hv1, hv2, _⟩ := ho
    exact (visitTyped_nd hv1).trans (visitTyped_nd hv2)

theorem visitVarList_nd {st st' : CState} {ds : List VarDecl} (h : visitVarList st ds = .ok st') : NdEq st st' := by
  induction ds generalizing st with
  | nil => simp only [visitVarList, Except.ok.injEq] at h; subst h; exact NdEq.refl _
  | cons d rest ih =>
    simp only [visitVarList] at h
    split at h
    · cases h
    · rename_i st1 h1
      exact (visitVar_nd h1).trans (ih h)

/-! ### what `setNeededBalances` adds -/

theorem setNeeded1_inv {nb : List (Addr × List Addr)} {acc addr a x : Addr} (h : InNeeded (setNeeded1 nb acc addr) a x) :
    InNeeded nb a x ∨ (a = acc ∧ x = addr) := by
  obtain ⟨e, he, h1, h2⟩ := h
  unfold setNeeded1 at he
  split at he
  · obtain ⟨e0, he0, rfl⟩ := List.mem_map.mp he
    by_cases hc : e0.1 == acc
    · simp only [hc, if_true] at h1 h2
      rcases mem_insertAddr h2 with h2 | h2
      · exact Or.inl ⟨e0, he0, h1, h2⟩
      · exact Or.inr ⟨by rw [← h1]; simpa using hc, h2⟩
    · simp only [hc] at h1 h2
      exact Or.inl ⟨e0, he0, h1, h2⟩
  · rcases List.mem_append.mp he with he | he
    · exact Or.inl ⟨e, he, h1, h2⟩
    · simp only [List.mem_singleton] at he; subst he
      simp only [List.mem_singleton] at h2
      exact Or.inr ⟨h1.symm, h2⟩

theorem foldl_setNeeded1_inv {l : List Addr} {nb : List (Addr × List Addr)} {addr a x : Addr}
    (h : InNeeded (l.foldl (fun nb acc => setNeeded1 nb acc addr) nb) a x) : InNeeded nb a x ∨ (a ∈ l ∧ x = addr) := by
  induction l generalizing nb with
  | nil => exact Or.inl h
  | cons y ys ih =>
    simp only [List.foldl_cons] at h
    rcases ih h with h | ⟨h1, h2⟩
    · rcases setNeeded1_inv h with h | ⟨h1, h2⟩
      · exact Or.inl h
      · exact Or.inr ⟨by simp [h1], h2⟩
    · exact Or.inr ⟨List.mem_cons_of_mem _ h1, h2⟩

theorem setNeeded_iff (st : CState) (l : List Addr) (addr : Addr) (a x : Addr) :
    InNeeded (setNeeded st l addr).needed a x ↔ InNeeded st.needed a x ∨ (a ∈ l ∧ x = addr) := by
  constructor
  · exact foldl_setNeeded1_inv
  · rintro (h | ⟨h1, rfl⟩)
    · exact foldl_setNeeded1_mono h
    · exact setNeeded_mem st x h1

/-! ### resolved pairs -/

/-- the (account, asset) pair is recorded in `NeededBalances`, under some addresses -/
def NeedPair (V : List BVal) (nb : List (Addr × List Addr)) (acct : Acct) (asset : Asset) : Prop :=
  ∃ a x, InNeeded nb a x ∧ V[a]? = some (.acct acct) ∧ ∃ v, V[x]? = some v ∧ assetOf v = some asset

/-- going from `st` to `st'` records exactly the pairs `ps` -/
def NewPairs (V : List BVal) (st st' : CState) (ps : List (Acct × Asset)) : Prop :=
  ∀ acct asset, NeedPair V st'.needed acct asset ↔ NeedPair V st.needed acct asset ∨ (acct, asset) ∈ ps

theorem NewPairs.of_nd {V : List BVal} {st st' : CState} (h : NdEq st st') : NewPairs V st st' [] := by
  intro acct asset
  rw [show st'.needed = st.needed from h]
  simp

theorem NewPairs.trans {V : List BVal} {a b c : CState} {ps qs : List (Acct × Asset)} (h1 : NewPairs V a b ps) (h2 : NewPairs V b c qs) :
    NewPairs V a c (ps ++ qs) := by
  intro acct asset
  rw [h2 acct asset, h1 acct asset, List.mem_append, or_assoc]

theorem NewPairs.nd_left {V : List BVal} {a b c : CState} {ps : List (Acct × Asset)} (h1 : NdEq a b) (h2 : NewPairs V b c ps) :
    NewPairs V a c ps := by
  have := (NewPairs.of_nd (V := V) h1).trans h2
  simpa using this

theorem NewPairs.nd_right {V : List BVal} {a b c : CState} {ps : List (Acct × Asset)} (h1 : NewPairs V a b ps) (h2 : NdEq b c) :
    NewPairs V a c ps := by
  have := h1.trans (NewPairs.of_nd (V := V) h2)
  simpa using this

/-- the addresses `l` resolve exactly to the accounts `xs` -/
def AcctsOf (V : List BVal) (l : List Addr) (xs : List Acct) : Prop :=
  ∀ x, x ∈ xs ↔ ∃ a ∈ l, V[a]? = some (.acct x)

theorem newPairs_setNeeded {V : List BVal} (st : CState) {l : List Addr} {m : Addr} {xs : List Acct} {s0 : Asset}
    (hacc : AcctsOf V l xs) (hm : ∃ v, V[m]? = some v ∧ assetOf v = some s0) :
    NewPairs V st (setNeeded st l m) (xs.map (fun x => (x, s0))) := by
  intro acct asset
  constructor
  · rintro ⟨a, x, hin, hVa, v, hVx, hv⟩
    rcases (setNeeded_iff st l m a x).mp hin with h | ⟨h1, rfl⟩
    · exact Or.inl ⟨a, x, h, hVa, v, hVx, hv⟩
    · right
      obtain ⟨v', hv1, hv2⟩ := hm
      rw [hVx] at hv1; cases hv1
      rw [hv] at hv2; cases hv2
      exact List.mem_map.mpr ⟨acct, (hacc acct).mpr ⟨a, h1, hVa⟩, rfl⟩
  · rintro (⟨a, x, hin, rest⟩ | h)
    · exact ⟨a, x, (setNeeded_iff st l m a x).mpr (Or.inl hin), rest⟩
    · obtain ⟨y, hy, heq⟩ := List.mem_map.mp h
      simp only [Prod.mk.injEq] at heq
      obtain ⟨rfl, rfl⟩ := heq
      obtain ⟨a, ha, hVa⟩ := (hacc y).mp hy
      exact ⟨a, m, (setNeeded_iff st l m a m).mpr (Or.inr ⟨ha, rfl⟩), hVa, hm⟩

/-! ### the accounts of a source -/

theorem mem_insertAddr_iff {l : List Addr} {a x : Addr} : x ∈ insertAddr l a ↔ x ∈ l ∨ x = a := by
  constructor
  · exact mem_insertAddr
  · unfold insertAddr
    rintro (h | rfl)
    · split
      · exact h
      · exact List.mem_append_left _ h
    · split
      · rename_i h; simpa using h
      · simp

theorem mem_unionAddr_iff {l xs : List Addr} {x : Addr} : x ∈ unionAddr l xs ↔ x ∈ l ∨ x ∈ xs := by
  unfold unionAddr
  induction xs generalizing l with
  | nil => simp
  | cons y ys ih =>
    simp only [List.foldl_cons]
    rw [ih, mem_insertAddr_iff, List.mem_cons]
    constructor
    · rintro ((h | h) | h)
      · exact Or.inl h
      · exact Or.inr (Or.inl h)
      · exact Or.inr (Or.inr h)
    · rintro (h | h | h)
      · exact Or.inl (Or.inl h)
      · exact Or.inl (Or.inr h)
      · exact Or.inr h

/-- an account expression through `visitExpr`: its address holds the account `evalAcct` gives (which cannot fail) -/
theorem acctExprAddr_ok {R : List Resource} {V : List BVal} {env : VEnv} (cx : Ctx R V env) {st : CState} {e : Expr} {o : ExprOut}
    (hv : visitExpr st e = .ok o) (hsub : Sub o.st R) (hidx : VarIdxOK st) (hty : o.ty = .account) {a : Addr} (ha : o.addr = some a) :
    ∃ x, evalAcct env e = .ok x ∧ V[a]? = some (.acct x) := by
  have sp := expr_ok cx hv hsub hidx (visitExpr_noPortion hv (by rw [hty]; decide))
  obtain ⟨v, hv1, hv2⟩ := sp.2 _ ha
  rw [leftOperand_leaf hv (by rw [hty]; exact ⟨by decide, by decide⟩)] at hv1
  have h1 := sp.1
  rw [hv1] at h1
  obtain ⟨x, rfl⟩ := ofVal_bty_acct (h1.1.trans hty)
  exact ⟨x, by simp [evalAcct, hv1], hv2⟩

mutual
theorem source_accts {R : List Resource} {V : List BVal} {env : VEnv} (cx : Ctx R V env) {st : CState} {pa : Code} {isAll : Bool}
    {s : Source} {so : SrcOut} (hv : visitSource st pa isAll s = .ok so) (hsub : Sub so.st R) (hidx : VarIdxOK st) :
    AcctsOf V so.needed (sourceAccts env s) := by
  cases s with
  | acct e od =>
    simp only [visitSource] at hv
    split at hv
    · cases hv
    · rename_i o ho
      split at hv
      · cases hv
      · rename_i hty
        split at hv
        · cases hv
        · rename_i a haddr
          split at hv
          · cases hv
          · rename_i c st1 fb hb
            split at hv
            · cases hv
            · simp only [Except.ok.injEq] at hv; subst hv
              have hext := (srcBody_ext hb).trans (Ext.addSources st1 [a])
              obtain ⟨x, hx, hVa⟩ := acctExprAddr_ok cx ho (hsub.of_ext hext) hidx (Classical.not_not.mp hty) haddr
              intro y
              simp only [sourceAccts, hx, List.mem_singleton]
              constructor
              · rintro rfl; exact ⟨a, rfl, hVa⟩
              · rintro ⟨a', rfl, h'⟩
                rw [hVa] at h'; cases h'; rfl
  | maxed cap s =>
    simp only [visitSource] at hv
    split at hv
    · cases hv
    · rename_i so1 hso
      split at hv
      · cases hv
      · rename_i co hco
        split at hv
        · cases hv
        · split at hv
          · cases hv
          · rename_i c st1 hs
            simp only [Except.ok.injEq] at hv; subst hv
            have hext := (visitExpr_ext hco).trans ((emitSeq_ext hs).trans (Ext.addSources _ so1.needed))
            simp only [sourceAccts]
            exact source_accts cx hso (hsub.of_ext hext) hidx
  | inorder ss =>
    simp only [visitSource] at hv
    split at hv
    · cases hv
    · rename_i so1 n hso
      split at hv
      · cases hv
      · rename_i c st1 hs
        simp only [Except.ok.injEq] at hv; subst hv
        have hext := (emitSeq_ext hs).trans (Ext.addSources _ so1.needed)
        have := sources_accts cx hso (hsub.of_ext hext) hidx (xs0 := []) (by intro a ha; cases ha) (by intro x; simp)
        simpa [sourceAccts] using this
theorem sources_accts {R : List Resource} {V : List BVal} {env : VEnv} (cx : Ctx R V env) {st : CState} {pa : Code} {isAll : Bool}
    {ss : SourceList} {nd em : List Addr} {so : SrcOut} {n : Nat}
    (hv : visitSources st pa isAll ss nd em = .ok (so, n)) (hsub : Sub so.st R) (hidx : VarIdxOK st) {xs0 : List Acct}
    (hndA : AcctAddrs st.resources nd) (hnd : AcctsOf V nd xs0) : AcctsOf V so.needed (xs0 ++ sourcesAccts env ss) := by
  cases ss with
  | nil =>
    simp only [visitSources, Except.ok.injEq, Prod.mk.injEq] at hv
    obtain ⟨rfl, _⟩ := hv
    simpa [sourcesAccts] using hnd
  | cons s rest =>
    simp only [visitSources] at hv
    split at hv
    · cases hv
    · rename_i so1 hso
      split at hv
      · cases hv
      · split at hv
        · cases hv
        · split at hv
          · cases hv
          · rename_i ro n' hro
            simp only [Except.ok.injEq, Prod.mk.injEq] at hv
            obtain ⟨rfl, _⟩ := hv
            have hsubr : Sub ro.st R := hsub
            obtain ⟨he1, ha1⟩ := visitSource_ok hso
            have hnd' : AcctAddrs so1.st.resources (unionAddr nd so1.needed) := by
              intro a ha
              rcases mem_unionAddr ha with h | h
              · exact he1.hasTy (hndA a h)
              · exact ha1 a h
            have he2 := (visitSources_ok (so := ro) hro hnd').1
            have ih1 := source_accts cx hso (hsubr.of_ext he2) hidx
            have hnd2 : AcctsOf V (unionAddr nd so1.needed) (xs0 ++ sourceAccts env s) := by
              intro x
              rw [List.mem_append, hnd x, ih1 x]
              constructor
              · rintro (⟨a, ha, h⟩ | ⟨a, ha, h⟩)
                · exact ⟨a, mem_unionAddr_iff.mpr (Or.inl ha), h⟩
                · exact ⟨a, mem_unionAddr_iff.mpr (Or.inr ha), h⟩
              · rintro ⟨a, ha, h⟩
                rcases mem_unionAddr_iff.mp ha with ha | ha
                · exact Or.inl ⟨a, ha, h⟩
                · exact Or.inr ⟨a, ha, h⟩
            have ih2 := sources_accts cx hro hsubr (he1.varIdxOK hidx) hnd' hnd2
            simpa [sourcesAccts, List.append_assoc] using ih2
end

/-! ### what each statement records -/

theorem assetOf_mon (s : Asset) (n : Int) : assetOf (.mon s n) = some s := rfl
theorem assetOf_asset (s : Asset) : assetOf (.asset s) = some s := rfl

/-- the sources of a source allotment: each records its accounts against the monetary of the send -/
theorem allotSources_needed {R : List Resource} {V : List BVal} {env : VEnv} (cx : Ctx R V env) {pa : Code} {m : Addr} {s0 : Asset}
    (hm : ∃ v, V[m]? = some v ∧ assetOf v = some s0)
    {items : List (PortionSpec × Source)} {st st' : CState} {i : Nat} {c : Code}
    (hmt : HasTy st.resources m .monetary)
    (hv : visitAllotSources st pa m items i = .ok (c, st')) (hsub : Sub st' R) (hidx : VarIdxOK st) :
    NewPairs V st st' ((items.flatMap (fun it => sourceAccts env it.2)).map (fun x => (x, s0))) := by
  induction items generalizing st i c with
  | nil =>
    simp only [visitAllotSources, Except.ok.injEq, Prod.mk.injEq] at hv
    obtain ⟨_, rfl⟩ := hv
    simpa using NewPairs.of_nd (V := V) (NdEq.refl st)
  | cons it rest ih =>
    obtain ⟨p, s⟩ := it
    simp only [visitAllotSources] at hv
    split at hv
    · cases hv
    · rename_i so hso
      split at hv
      · cases hv
      · rename_i c1 st1 h1
        split at hv
        · cases hv
        · rename_i c2 st2 h2
          simp only [Except.ok.injEq, Prod.mk.injEq] at hv
          obtain ⟨_, rfl⟩ := hv
          obtain ⟨hs1, hs2⟩ := visitSource_ok hso
          have eN := Ext.setNeeded so.st so.needed m hs2 (Or.inr (hs1.hasTy hmt))
          have e1 := hs1.trans (eN.trans (emitSeq_ext h1))
          have e2 := visitAllotSources_ext (e1.hasTy hmt) h2
          have hsubS : Sub so.st R := (hsub.of_ext e2).of_ext (eN.trans (emitSeq_ext h1))
          have hacc := source_accts cx hso hsubS hidx
          have hA : NewPairs V st st1 ((sourceAccts env s).map (fun x => (x, s0))) :=
            ((newPairs_setNeeded so.st hacc hm).nd_left (visitSource_nd hso)).nd_right (emitSeq_nd h1)
          have hB := ih (e1.hasTy hmt) h2 (e1.varIdxOK hidx)
          have := hA.trans hB
          simpa [List.flatMap_cons] using this

theorem stmt_needed {R : List Resource} {V : List BVal} {env : VEnv} (cx : Ctx R V env) {st st' : CState} {s : Stmt} {c : Code}
    (hv : visitStmt st s = .ok (c, st')) (hsub : Sub st' R) (hidx : VarIdxOK st) :
    NewPairs V st st' (neededOf env s) := by
  cases s with
  | fail =>
    simp only [visitStmt, Except.ok.injEq, Prod.mk.injEq] at hv
    obtain ⟨_, rfl⟩ := hv
    exact NewPairs.of_nd (NdEq.refl _)
  | print e =>
    simp only [visitStmt] at hv
    split at hv
    · cases hv
    · rename_i o ho
      simp only [Except.ok.injEq, Prod.mk.injEq] at hv
      obtain ⟨_, rfl⟩ := hv
      exact NewPairs.of_nd (visitExpr_nd ho)
  | setTxMeta key v =>
    simp only [visitStmt] at hv
    split at hv
    · cases hv
    · rename_i o ho
      split at hv
      · cases hv
      · rename_i k st1 hk
        simp only [Except.ok.injEq, Prod.mk.injEq] at hv
        obtain ⟨_, rfl⟩ := hv
        exact NewPairs.of_nd ((visitExpr_nd ho).trans (allocRes_nd hk))
  | setAccountMeta acc key v =>
    simp only [visitStmt] at hv
    split at hv
    · cases hv
    · rename_i o ho
      split at hv
      · cases hv
      · rename_i k st1 hk
        split at hv
        · cases hv
        · rename_i aA c2 st2 h2
          simp only [Except.ok.injEq, Prod.mk.injEq] at hv
          obtain ⟨_, rfl⟩ := hv
          exact NewPairs.of_nd ((visitExpr_nd ho).trans ((allocRes_nd hk).trans (visitTyped_nd h2)))
  | saveMon e acc =>
    simp only [visitStmt] at hv
    split at hv
    · cases hv
    · rename_i mA c1 st1 hm
      split at hv
      · cases hv
      · rename_i aA c2 st2 h2
        simp only [Except.ok.injEq, Prod.mk.injEq] at hv
        obtain ⟨_, rfl⟩ := hv
        have hsub2 : Sub st2 R := hsub
        obtain ⟨he1, _⟩ := visitTyped_ok hm
        obtain ⟨he2, _⟩ := visitTyped_ok h2
        obtain ⟨_, s0, n0, hla, hVm⟩ := monTyped_ok cx hm (hsub2.of_ext he2) hidx (visitTyped_noPortion hm (by decide))
        obtain ⟨x, hx, hVa⟩ := acctAddr_ok cx h2 hsub2 (he1.varIdxOK hidx) (visitTyped_noPortion h2 (by decide))
        have hacc : AcctsOf V [aA] [x] := by
          intro y
          simp only [List.mem_singleton]
          constructor
          · rintro rfl; exact ⟨aA, rfl, hVa⟩
          · rintro ⟨a', rfl, h'⟩; rw [hVa] at h'; cases h'; rfl
        have := (newPairs_setNeeded st2 hacc ⟨_, hVm, assetOf_mon s0 n0⟩).nd_left ((visitTyped_nd hm).trans (visitTyped_nd h2))
        simpa [neededOf, hla, hx] using this
  | saveAll ae acc =>
    simp only [visitStmt] at hv
    split at hv
    · cases hv
    · rename_i sA c1 st1 hm
      split at hv
      · cases hv
      · rename_i aA c2 st2 h2
        simp only [Except.ok.injEq, Prod.mk.injEq] at hv
        obtain ⟨_, rfl⟩ := hv
        have hsub2 : Sub st2 R := hsub
        obtain ⟨he1, _⟩ := visitTyped_ok hm
        obtain ⟨he2, _⟩ := visitTyped_ok h2
        obtain ⟨s0, hs0, hVs⟩ := assetAddr_ok cx hm (hsub2.of_ext he2) hidx (visitTyped_noPortion hm (by decide))
        obtain ⟨x, hx, hVa⟩ := acctAddr_ok cx h2 hsub2 (he1.varIdxOK hidx) (visitTyped_noPortion h2 (by decide))
        have hacc : AcctsOf V [aA] [x] := by
          intro y
          simp only [List.mem_singleton]
          constructor
          · rintro rfl; exact ⟨aA, rfl, hVa⟩
          · rintro ⟨a', rfl, h'⟩; rw [hVa] at h'; cases h'; rfl
        have := (newPairs_setNeeded st2 hacc ⟨_, hVs, assetOf_asset s0⟩).nd_left ((visitTyped_nd hm).trans (visitTyped_nd h2))
        simpa [neededOf, hs0, hx] using this
  | send amt src d =>
    simp only [visitStmt] at hv
    split at hv
    · cases hv
    · rename_i c1 st1 hsrc
      split at hv
      · cases hv
      · rename_i c2 st2 hdst
        simp only [Except.ok.injEq, Prod.mk.injEq] at hv
        obtain ⟨_, rfl⟩ := hv
        have hsub2 : Sub st2 R := hsub
        have hed := visitDestination_ext hdst
        have hsub1 : Sub st1 R := hsub2.of_ext hed
        refine NewPairs.nd_right ?_ (visitDestination_nd hdst)
        cases amt with
        | mon e =>
          cases src with
          | src sc =>
            simp only [visitSendSource] at hsrc
            split at hsrc
            · cases hsrc
            · rename_i mA c0 stA hm
              split at hsrc
              · cases hsrc
              · rename_i so hso
                split at hsrc
                · cases hsrc
                · rename_i eo heo
                  split at hsrc
                  · cases hsrc
                  · rename_i ct stT hct
                    simp only [Except.ok.injEq, Prod.mk.injEq] at hsrc
                    obtain ⟨_, rfl⟩ := hsrc
                    obtain ⟨heA, tA⟩ := visitTyped_ok hm
                    obtain ⟨heS, aS⟩ := visitSource_ok hso
                    have heN := Ext.setNeeded so.st so.needed mA aS (Or.inr (heS.hasTy tA))
                    have heE := visitExpr_ext heo
                    have heT := emitSeq_ext hct
                    have hsubS : Sub so.st R := ((hsub1.of_ext heT).of_ext heE).of_ext heN
                    have hsubA : Sub stA R := hsubS.of_ext heS
                    obtain ⟨_, a0, n0, hla, hVm⟩ := monTyped_ok cx hm hsubA hidx (visitTyped_noPortion hm (by decide))
                    have hacc := source_accts cx hso hsubS (heA.varIdxOK hidx)
                    have := ((newPairs_setNeeded so.st hacc ⟨_, hVm, assetOf_mon a0 n0⟩).nd_left
                      ((visitTyped_nd hm).trans (visitSource_nd hso))).nd_right ((visitExpr_nd heo).trans (emitSeq_nd hct))
                    simpa [neededOf, hla, vsourceAccts] using this
          | allot items =>
            simp only [visitSendSource] at hsrc
            split at hsrc
            · cases hsrc
            · rename_i mA c0 stA hm
              split at hsrc
              · cases hsrc
              · rename_i eo heo
                split at hsrc
                · cases hsrc
                · rename_i ca stB hal
                  split at hsrc
                  · cases hsrc
                  · rename_i cs stC has
                    split at hsrc
                    · cases hsrc
                    · rename_i cf stD hfin
                      simp only [Except.ok.injEq, Prod.mk.injEq] at hsrc
                      obtain ⟨_, rfl⟩ := hsrc
                      obtain ⟨heA, tA⟩ := visitTyped_ok hm
                      have heE := visitExpr_ext heo
                      have heL := visitAllotment_ext hal
                      have hmB : HasTy stB.resources mA .monetary := heL.hasTy (heE.hasTy tA)
                      have heS := visitAllotSources_ext hmB has
                      have heF := emitSeq_ext hfin
                      have hsubC : Sub stC R := hsub1.of_ext heF
                      have hsubA : Sub stA R := ((hsubC.of_ext heS).of_ext heL).of_ext heE
                      obtain ⟨_, a0, n0, hla, hVm⟩ := monTyped_ok cx hm hsubA hidx (visitTyped_noPortion hm (by decide))
                      have hidxB : VarIdxOK stB := (heA.trans (heE.trans heL)).varIdxOK hidx
                      have := ((allotSources_needed cx ⟨_, hVm, assetOf_mon a0 n0⟩ hmB has hsubC hidxB).nd_left
                        ((visitTyped_nd hm).trans ((visitExpr_nd heo).trans (visitAllotment_nd hal)))).nd_right (emitSeq_nd hfin)
                      simpa [neededOf, hla, vsourceAccts] using this
        | all ae =>
          cases src with
          | src sc =>
            simp only [visitSendSource] at hsrc
            split at hsrc
            · cases hsrc
            · rename_i aA c0 stA hm
              split at hsrc
              · cases hsrc
              · rename_i so hso
                simp only [Except.ok.injEq, Prod.mk.injEq] at hsrc
                obtain ⟨_, rfl⟩ := hsrc
                obtain ⟨heA, tA⟩ := visitTyped_ok hm
                obtain ⟨heS, aS⟩ := visitSource_ok hso
                have hsubS : Sub so.st R := hsub1
                have hsubA : Sub stA R := hsubS.of_ext heS
                obtain ⟨a0, ha0, hVa⟩ := assetAddr_ok cx hm hsubA hidx (visitTyped_noPortion hm (by decide))
                have hacc := source_accts cx hso hsubS (heA.varIdxOK hidx)
                have := (newPairs_setNeeded so.st hacc ⟨_, hVa, assetOf_asset a0⟩).nd_left
                  ((visitTyped_nd hm).trans (visitSource_nd hso))
                simpa [neededOf, ha0, vsourceAccts] using this
          | allot items =>
            simp only [visitSendSource] at hsrc
            split at hsrc
            · cases hsrc
            · cases hsrc

theorem stmts_needed {R : List Resource} {V : List BVal} {env : VEnv} (cx : Ctx R V env) {st st' : CState} {ss : List Stmt} {c : Code}
    (hv : visitStmts st ss = .ok (c, st')) (hsub : Sub st' R) (hidx : VarIdxOK st) :
    NewPairs V st st' (needed env ss) := by
  induction ss generalizing st c with
  | nil =>
    simp only [visitStmts, Except.ok.injEq, Prod.mk.injEq] at hv
    obtain ⟨_, rfl⟩ := hv
    exact NewPairs.of_nd (NdEq.refl _)
  | cons s rest ih =>
    simp only [visitStmts] at hv
    split at hv
    · cases hv
    · rename_i c1 st1 h1
      split at hv
      · cases hv
      · rename_i c2 st2 h2
        simp only [Except.ok.injEq, Prod.mk.injEq] at hv
        obtain ⟨_, rfl⟩ := hv
        have he2 := visitStmts_ext h2
        have he1 := visitStmt_ext h1
        have hA := stmt_needed cx h1 (hsub.of_ext he2) hidx
        have hB := ih h2 (he1.varIdxOK hidx)
        have := hA.trans hB
        simpa [needed, List.flatMap_cons] using this

/-- **`NeededBalances`, resolved, is `Spec.needed`** -/
theorem compile_needed {P : Script} {prog : Program} (hc : compile P = .ok prog) {V : List BVal} {env : VEnv}
    (cx : Ctx prog.resources V env) (acct : Acct) (asset : Asset) :
    NeedPair V prog.needed acct asset ↔ (acct, asset) ∈ needed env P.stmts := by
  obtain ⟨st0, code, st, h0, h1, rfl⟩ := compile_parts hc
  have hidx : VarIdxOK st0 := visitVarList_idxOK (by intro n a hl; simp [lookupIdx] at hl) h0
  have hnd0 : st0.needed = [] := visitVarList_nd h0
  have := stmts_needed cx h1 (fun _ _ h => h) hidx acct asset
  rw [this, hnd0]
  constructor
  · rintro (⟨a, x, ⟨e, he, _⟩, _⟩ | h)
    · cases he
    · exact h
  · exact Or.inr

end Num
