import Model.Engine.SkelSys
import Model.Engine.SkelAutoEvents
import Model.Engine.Events
import Model.Engine.Chain
/-! The system that interprets the regenerated skeleton (`SkelSys`), scheduled at its yield points (`RunY`), refines the
`Events` machine (C16, preview clauses of C14).

`Model/Engine/SkelAutoEvents.lean` is the automaton every control path is checked against; here: what its flags mean
in a state of the system (`LInv`), that one item of one request keeps that meaning and emits only events `Events`
accepts (`item_step`), that the other requests are not disturbed (`other_linv`), and the simulation (`stepY_inv`,
`runY_refines`). -/
namespace Engine.Skel.EventsRef
open Engine Engine.Skel Engine.Skel.Sys

-- ------------------------------------------------------------------------------------------------ the automaton

theorem erun_snoc (ep : String) (ph : EPh) (xs : Path) (x : Item) :
    erun ep ph (xs ++ [x]) = (erun ep ph xs).bind (fun ph' => estep ep ph' x) := by
  induction xs generalizing ph with
  | nil => cases h : estep ep ph x <;> simp [erun, h]
  | cons y ys ih =>
    simp only [List.cons_append, erun]
    cases estep ep ph y with
    | none => simp
    | some ph' => exact ih ph'

theorem erun_cons_acc (ep : String) (ph : EPh) (x : Item) (rest : Path) (h : eacc (erun ep ph (x :: rest)) = true) :
    ∃ ph', estep ep ph x = some ph' ∧ eacc (erun ep ph' rest) = true := by
  simp only [erun] at h
  cases hc : estep ep ph x with
  | none => simp [hc, eacc] at h
  | some ph' => exact ⟨ph', rfl, by simpa [hc] using h⟩

-- ------------------------------------------------------------------------------------------------ ids are positions

theorem idsOk_le (i : Nat) (ls : List LogE) (h : Chain.idsOk i ls) : ∀ l ∈ ls, i ≤ l.id := by
  induction ls generalizing i with
  | nil => intro l hl; cases hl
  | cons x xs ih =>
    intro l hl
    obtain ⟨h1, _, _, h4⟩ := h
    rcases List.mem_cons.1 hl with rfl | hl
    · omega
    · have := ih (i + 1) h4 l hl; omega

/-- in a log whose ids are the positions, looking an id up returns the entry that carries it -/
theorem find_by_id (i : Nat) (ls : List LogE) (h : Chain.idsOk i ls) (l : LogE) (hl : l ∈ ls) :
    ls.find? (fun x => x.id = l.id) = some l := by
  induction ls generalizing i with
  | nil => cases hl
  | cons x xs ih =>
    obtain ⟨h1, _, _, h4⟩ := h
    rcases List.mem_cons.1 hl with rfl | hl
    · simp
    · have hle := idsOk_le (i + 1) xs h4 l hl
      have hne : ¬ x.id = l.id := by omega
      simp only [List.find?_cons, hne, decide_false]
      exact ih (i + 1) h4 hl

theorem idsOk_append_left (i : Nat) (xs ys : List LogE) (h : Chain.idsOk i (xs ++ ys)) : Chain.idsOk i xs := by
  induction xs generalizing i with
  | nil => trivial
  | cons x xs ih =>
    obtain ⟨h1, h2, h3, h4⟩ := h
    exact ⟨h1, h2, h3, ih (i + 1) h4⟩

-- ------------------------------------------------------------------------------------------------ requests

/-- what the request says about itself agrees with what the `Events` machine is told about it -/
structure JobOK (dry isTxKind : Nat → Bool) (j : Job) : Prop where
  dry : j.req.dry = dry j.a
  isTx : j.isTx = isTxKind j.a
  kind : kindOfEp j.ep = some j.req.kind

theorem isTxEp_eq (j : Job) (h : kindOfEp j.ep = some j.req.kind) : isTxEp j.ep = j.isTx := by
  unfold kindOfEp at h
  unfold isTxEp Job.isTx
  split at h
  · rename_i he; simp at h; simp [he, ← h]
  · split at h
    · rename_i he; simp at h; simp [he, ← h]
    · split at h
      · rename_i he; simp at h; simp [he, ← h]
      · split at h
        · rename_i he; simp at h; simp [he, ← h]
        · cases h

theorem kindOfEp_revert (ep : String) (h : kindOfEp ep = some .revert) : ep = "RevertTransaction" := by
  unfold kindOfEp at h
  split at h
  · cases h
  · split at h
    · assumption
    · split at h
      · cases h
      · split at h <;> cases h

/-- a create / revert log carries a transaction id -/
def TxHasId (l : LogE) : Prop := (l.kind = .create ∨ l.kind = .revert) → l.txid.isSome = true

/-- the event an entry point builds from a log of its own kind describes that log -/
theorem describes_bus (j : Job) (l : LogE) (hk : kindOfEp j.ep = some j.req.kind) (h1 : l.kind = j.req.kind)
    (h2 : j.req.kind = .revert → l.reverts = some j.req.target) (h3 : TxHasId l) :
    Events.describes (busOf (publishKindOf j.ep) j l) l = true := by
  unfold kindOfEp at hk
  unfold TxHasId at h3
  split at hk
  · rename_i he
    simp only [Option.some.injEq] at hk
    have h4 := h3 (.inl (by rw [h1, ← hk]))
    obtain ⟨t, ht⟩ := Option.isSome_iff_exists.1 h4
    simp [he, publishKindOf, busOf, Events.describes, h1, ← hk, ht]
  · split at hk
    · rename_i he
      simp only [Option.some.injEq] at hk
      have h4 := h3 (.inr (by rw [h1, ← hk]))
      obtain ⟨t, ht⟩ := Option.isSome_iff_exists.1 h4
      simp [he, publishKindOf, busOf, Events.describes, h1, ← hk, ht, h2 hk.symm]
    · split at hk
      · rename_i he
        simp only [Option.some.injEq] at hk
        simp [he, publishKindOf, busOf, Events.describes, h1, ← hk]
      · split at hk
        · rename_i he
          simp only [Option.some.injEq] at hk
          simp [he, publishKindOf, busOf, Events.describes, h1, ← hk]
        · cases hk

-- ------------------------------------------------------------------------------------------------ what the flags mean

def mineOf (E : Events.S) (a : Nat) : Option LogE := (E.mine.find? (·.1 = a)).map (·.2)
def foundOf (E : Events.S) (a : Nat) : Option Nat := (E.found.find? (·.1 = a)).map (·.2)

theorem entryOf_eq (E : Events.S) (a : Nat) :
    Events.entryOf E a = (match mineOf E a with
      | some l => some l
      | none => match foundOf E a with
        | some id => E.durable.find? (·.id = id)
        | none => none) := rfl

/-- the log a request chains is of the request's kind, names the reverted transaction, and carries a transaction id if
the request creates a transaction -/
def OwnLog (j : Job) (l : LogE) : Prop :=
  l.kind = j.req.kind ∧ (j.req.kind = .revert → l.reverts = some j.req.target) ∧ (j.isTx = true → l.txid.isSome = true)

/-- the commander's `lastTXID` against the machine's: one ahead between `allocTxid` and `append` -/
def LT (sh : Shared) (E : Events.S) (al : Bool) : Prop := sh.lastTx = E.lastTx + (if al then 1 else 0)

/-- one request: its registers and the machine's records about it, phase by phase -/
structure LInv (sh : Shared) (E : Events.S) (j : Job) (rg : Regs) (ph : EPh) : Prop where
  live : ph.dead = false
  dry : ∀ b, ph.dry = some b → j.req.dry = b
  tx : ph.tx = true → rg.txid.isSome = true
  ch0 : ph.ch = false → rg.chained = none
  ch1 : ph.ch = true → ∃ l, rg.chained = some l ∧ OwnLog j l
  mine : mineOf E j.a = if ph.app then rg.chained else none
  appq : ph.app = true → ∃ l, rg.chained = some l ∧ ((j.a, l) ∈ sh.queue ∨ l ∈ sh.store)
  durApp : ph.dur = true → ph.app = true
  dur : ph.dur = true → ∃ l, rg.chained = some l ∧ l ∈ sh.store
  fnd : foundOf E j.a = if ph.fnd then rg.found.map (·.id) else none
  fndS : ph.fnd = true → ∃ l, rg.found = some l ∧ l ∈ sh.store
  kOk : ph.kOk = true → ∃ l, rg.found = some l ∧ l.kind = j.req.kind
  idOk : ph.idOk = true → ∃ l, rg.found = some l ∧ l.reverts = some j.req.target
  pkS : ph.pk = .inSeg → ∃ t, rg.txid = some t ∧ (t : Int) = E.lastTx + 1
  pkR : ph.pk = .recorded → j.req.dry = true → ∃ t, rg.txid = some t ∧ Events.peekOf E j.a = some (t : Int)
  pub : ph.pub = true → ∃ e ∈ E.published, ∃ l, Events.describes e l = true ∧ (if ph.app then rg.chained = some l else rg.found = some l)
  ansI : ph.ans = .ikRead → rg.answer = (rg.found.getD default).txid
  ansP : ph.ans = .preview → rg.answer = rg.txid

/-- store, queue and position against the machine's -/
structure Glob (sh : Shared) (E : Events.S) : Prop where
  dur : E.durable = sh.store
  pend : E.pending = sh.queue.map (·.2)
  lt : -1 ≤ E.lastTx
  txS : ∀ l ∈ sh.store, TxHasId l
  txQ : ∀ q ∈ sh.queue, TxHasId q.2

/-- what a step leaves alone, for a request `b` that did not take it -/
structure Frame (sh sh' : Shared) (E E' : Events.S) (b : Nat) : Prop where
  store : ∀ l ∈ sh.store, l ∈ sh'.store
  queue : ∀ q ∈ sh.queue, q ∈ sh'.queue ∨ q.2 ∈ sh'.store
  pub : ∀ e ∈ E.published, e ∈ E'.published
  mine : mineOf E' b = mineOf E b
  found : foundOf E' b = foundOf E b
  peek : Events.peekOf E' b = Events.peekOf E b

/-- what one item of request `j` has to achieve -/
def StepOK (dry isTxKind : Nat → Bool) (sh : Shared) (E : Events.S) (j : Job) (rg : Regs) (x : Item) (ph' : EPh) : Prop :=
  ∃ E', runOn (Events.step dry isTxKind) E (evsOf sh j rg x) = .ok E' ∧
    LInv (effSh sh j rg x) E' j (effRg sh j rg x) ph' ∧ LT (effSh sh j rg x) E' ph'.al ∧ Glob (effSh sh j rg x) E' ∧
    ∀ b, b ≠ j.a → Frame sh (effSh sh j rg x) E E' b

theorem frame_refl (sh : Shared) (E : Events.S) (b : Nat) : Frame sh sh E E b :=
  ⟨fun _ h => h, fun _ h => .inl h, fun _ h => h, rfl, rfl, rfl⟩

theorem find_cons_ne {α : Type} (xs : List (Nat × α)) (a b : Nat) (x : α) (h : b ≠ a) :
    ((a, x) :: xs).find? (fun y => y.1 = b) = xs.find? (fun y => y.1 = b) := by
  simp [Ne.symm h]

theorem find_cons_eq {α : Type} (xs : List (Nat × α)) (a : Nat) (x : α) :
    ((a, x) :: xs).find? (fun y => y.1 = a) = some (a, x) := by
  simp

section
set_option linter.unusedSectionVars false
variable (dry isTxKind : Nat → Bool) (sh : Shared) (E : Events.S) (j : Job) (rg : Regs) (ph ph' : EPh)
  (hj : JobOK dry isTxKind j) (hL : LInv sh E j rg ph) (hLT : LT sh E ph.al) (hG : Glob sh E)
include hj hL hLT hG

theorem step_yield (pt : String) (o : Outcome) (v : Via) (hph : estep' j.ep ph (.act (.yield pt) o v) = some ph') :
    StepOK dry isTxKind sh E j rg (.act (.yield pt) o v) ph' := by
  simp only [estep'] at hph
  split at hph
  · cases hph
  rename_i hal
  have hal : ph.al = false := by simpa using hal
  have hfr : ∀ b, b ≠ j.a → Frame sh sh E { E with peeked := (j.a, E.lastTx + 1) :: E.peeked } b := fun b hb =>
    ⟨fun _ h => h, fun _ h => .inl h, fun _ h => h, rfl, rfl, by simp [Events.peekOf, find_cons_ne _ _ _ _ hb]⟩
  by_cases hw : pt = "wait" ∧ dry j.a = true
  · have hrun : runOn (Events.step dry isTxKind) E (evsOf sh j rg (.act (.yield pt) o v)) =
        .ok { E with peeked := (j.a, E.lastTx + 1) :: E.peeked } := by simp [evsOf, runOn, Events.step, hw]
    split at hph
    · rename_i hpk
      obtain rfl := Option.some.inj hph
      exact ⟨_, hrun, { hL with pkR := fun h => by rw [hpk] at h; cases h }, hLT, ⟨hG.dur, hG.pend, hG.lt, hG.txS, hG.txQ⟩, hfr⟩
    · rename_i hpk
      rw [if_pos hw.1] at hph
      obtain rfl := Option.some.inj hph
      obtain ⟨t, ht1, ht2⟩ := hL.pkS hpk
      refine ⟨_, hrun, { hL with pkS := fun h => (by cases h), pkR := fun _ _ => ⟨t, ht1, ?_⟩ }, hLT, ⟨hG.dur, hG.pend, hG.lt, hG.txS, hG.txQ⟩, hfr⟩
      simp [Events.peekOf, ht2]
    · rw [if_pos hw.1] at hph; cases hph
  · have hrun : runOn (Events.step dry isTxKind) E (evsOf sh j rg (.act (.yield pt) o v)) = .ok E := by
      simp [evsOf, runOn, Events.step, hw]
    split at hph
    · obtain rfl := Option.some.inj hph
      exact ⟨_, hrun, hL, hLT, hG, fun b _ => frame_refl sh E b⟩
    · rename_i hpk
      split at hph
      · rename_i hpt
        obtain rfl := Option.some.inj hph
        have hd : j.req.dry = false := by
          rw [hj.dry]
          cases h : dry j.a with
          | false => rfl
          | true => exact absurd ⟨hpt, h⟩ hw
        exact ⟨_, hrun, { hL with pkS := fun h => (by cases h), pkR := fun _ h => by rw [hd] at h; cases h }, hLT, hG,
          fun b _ => frame_refl sh E b⟩
      · cases hph
    · split at hph
      · cases hph
      · obtain rfl := Option.some.inj hph
        exact ⟨_, hrun, hL, hLT, hG, fun b _ => frame_refl sh E b⟩


omit hj hLT in
/-- the entry `Events` attributes to the request, once it has appended or found one -/
theorem entry_of (hids : Chain.idsOk 0 sh.store) (l : LogE)
    (h : if ph.app then rg.chained = some l else (ph.fnd = true ∧ rg.found = some l)) :
    Events.entryOf E j.a = some l := by
  rw [entryOf_eq, hL.mine]
  cases happ : ph.app with
  | true =>
    simp only [happ, if_true] at h
    simp [h]
  | false =>
    simp only [happ, Bool.false_eq_true, if_false] at h
    obtain ⟨l', h1, h2⟩ := hL.fndS h.1
    rw [h.2] at h1
    cases h1
    rw [hL.fnd, h.1, h.2, hG.dur]
    simp only [if_true, Option.map_some]
    exact find_by_id 0 _ hids l h2


theorem step_fin (hids : Chain.idsOk 0 sh.store) (ok : Bool) (cls : String) (hph : estep' j.ep ph (.fin ok cls) = some ph') :
    StepOK dry isTxKind sh E j rg (.fin ok cls) ph' := by
  simp only [estep'] at hph
  split at hph
  · cases hph
  have key : ∀ E', runOn (Events.step dry isTxKind) E (evsOf sh j rg (.fin ok cls)) = .ok E' →
      (∃ ak, E' = { E with acked := ak }) → ph = ph' → StepOK dry isTxKind sh E j rg (.fin ok cls) ph' := by
    intro E' hrun hE hp
    obtain ⟨ak, hE⟩ := hE
    subst hE; subst hp
    exact ⟨_, hrun, { hL with }, hLT, ⟨hG.dur, hG.pend, hG.lt, hG.txS, hG.txQ⟩,
      fun b _ => ⟨fun _ h => h, fun _ h => .inl h, fun _ h => h, rfl, rfl, rfl⟩⟩
  split at hph
  · -- an error answer
    rename_i hok
    have hok : ok = false := by simpa using hok
    subst hok
    exact key E (by simp [evsOf, runOn, Events.step]) ⟨E.acked, rfl⟩ (Option.some.inj hph)
  rename_i hok
  have hok : ok = true := by simpa using hok
  subst hok
  split at hph
  · cases hph
  · -- a real write
    rename_i hdry
    have hd : dry j.a = false := by rw [← hj.dry]; exact hL.dry _ hdry
    split at hph
    · rename_i hc
      simp only [Bool.and_eq_true, Bool.or_eq_true] at hc
      obtain ⟨e, he, l, hdesc, hl⟩ := hL.pub hc.1
      have hent : Events.entryOf E j.a = some l := by
        apply entry_of sh E j rg ph hL hG hids l
        cases happ : ph.app with
        | true => simpa [happ] using hl
        | false =>
          have hf : ph.fnd = true := by simpa [happ] using hc.2
          simpa [happ, hf] using hl
      have hany : E.published.any (fun e => Events.describes e l) = true := List.any_eq_true.2 ⟨e, he, hdesc⟩
      exact key { E with acked := (j.a, l) :: E.acked } (by simp [evsOf, runOn, Events.step, hd, hent, hany]) ⟨_, rfl⟩
        (Option.some.inj hph)
    · cases hph
  · -- a preview
    rename_i hdry
    have hd : dry j.a = true := by rw [← hj.dry]; exact hL.dry _ hdry
    split at hph
    · cases hph
    rename_i happ
    have happ : ph.app = false := by simpa using happ
    have hmine : mineOf E j.a = none := by rw [hL.mine, happ]; rfl
    split at hph
    · -- not a transaction
      rename_i htx
      have htx : isTxKind j.a = false := by rw [← hj.isTx, ← isTxEp_eq j hj.kind]; simpa using htx
      refine key E ?_ ⟨E.acked, rfl⟩ (Option.some.inj hph)
      simp only [evsOf, runOn, Events.step, hd, htx, if_true]
      cases Events.entryOf E j.a <;> simp
    · split at hph
      · -- the key is recorded: answered with that entry
        rename_i hf
        split at hph
        · rename_i hans
          obtain ⟨l, h1, h2⟩ := hL.fndS hf
          have hent : Events.entryOf E j.a = some l :=
            entry_of sh E j rg ph hL hG hids l (by simp [happ, hf, h1])
          have ha : rg.answer = l.txid := by rw [hL.ansI hans, h1]; rfl
          exact key E (by simp [evsOf, runOn, Events.step, hd, hent, ha]) ⟨E.acked, rfl⟩ (Option.some.inj hph)
        · cases hph
      · rename_i hf
        have hf : ph.fnd = false := by simpa using hf
        split at hph
        · rename_i hc
          simp only [Bool.and_eq_true, decide_eq_true_eq] at hc
          have hent : Events.entryOf E j.a = none := by
            rw [entryOf_eq, hmine, hL.fnd, hf]; rfl
          obtain ⟨t, ht1, ht2⟩ := hL.pkR hc.2 (by rw [hj.dry]; exact hd)
          have ha : rg.answer = some t := by rw [hL.ansP hc.1, ht1]
          exact key E (by simp [evsOf, runOn, Events.step, hd, hent, ha, ht2]) ⟨E.acked, rfl⟩ (Option.some.inj hph)
        · cases hph


theorem step_readIk (key : String) (v : Via) (hen : enabled sh j rg (.act (.readIk key) .ok v) = true)
    (hph : estep' j.ep ph (.act (.readIk key) .ok v) = some ph') :
    StepOK dry isTxKind sh E j rg (.act (.readIk key) .ok v) ph' := by
  simp only [estep'] at hph
  split at hph
  · cases hph
  rename_i hc
  simp only [Bool.or_eq_true, bne_iff_ne, ne_eq, not_or, Bool.not_eq_true, Decidable.not_not] at hc
  obtain rfl := Option.some.inj hph
  simp only [enabled] at hen
  obtain ⟨l, hl⟩ := Option.isSome_iff_exists.1 hen
  have hmem : l ∈ sh.store := List.mem_of_find?_eq_some hl
  refine ⟨{ E with found := (j.a, l.id) :: E.found }, by simp [evsOf, runOn, Events.step, hl], ?_, hLT,
    ⟨hG.dur, hG.pend, hG.lt, hG.txS, hG.txQ⟩,
    fun b hb => ⟨fun _ h => h, fun _ h => .inl h, fun _ h => h, rfl, by simp [foundOf, find_cons_ne _ _ _ _ hb], rfl⟩⟩
  simp only [effSh, effRg, hl]
  exact { hL with
    fnd := by simp [foundOf]
    fndS := fun _ => ⟨l, rfl, hmem⟩
    kOk := fun h => (by cases h)
    idOk := fun h => (by cases h)
    pub := fun h => (by rw [hc.1] at h; cases h)
    ansI := fun h => (by rw [hc.2] at h; cases h)
    ansP := hL.ansP }

theorem step_alloc (o : Outcome) (v : Via) (hph : estep' j.ep ph (.act .allocTxid o v) = some ph') :
    StepOK dry isTxKind sh E j rg (.act .allocTxid o v) ph' := by
  simp only [estep'] at hph
  split at hph
  · cases hph
  rename_i hal
  have hal : ph.al = false := by simpa using hal
  obtain rfl := Option.some.inj hph
  refine ⟨E, rfl, { hL with }, ?_, ⟨hG.dur, hG.pend, hG.lt, hG.txS, hG.txQ⟩, fun b _ => ⟨fun _ h => h, fun _ h => .inl h, fun _ h => h, rfl, rfl, rfl⟩⟩
  simp only [LT, hal, effSh] at hLT ⊢
  simp at hLT ⊢
  omega

theorem step_stamp (o : Outcome) (v : Via) (hph : estep' j.ep ph (.act .stampTxid o v) = some ph') :
    StepOK dry isTxKind sh E j rg (.act .stampTxid o v) ph' := by
  simp only [estep'] at hph
  split at hph
  · rename_i hc
    simp only [Bool.and_eq_true, decide_eq_true_eq] at hc
    obtain rfl := Option.some.inj hph
    refine ⟨E, rfl, ?_, hLT, ⟨hG.dur, hG.pend, hG.lt, hG.txS, hG.txQ⟩, fun b _ => frame_refl sh E b⟩
    exact { hL with
      tx := fun _ => rfl
      pkS := fun h => (by rw [hc.1] at h; cases h)
      pkR := fun h => (by rw [hc.1] at h; cases h)
      ansP := fun h => (by rw [hc.2] at h; cases h) }
  · cases hph

theorem step_peek (o : Outcome) (v : Via) (hph : estep' j.ep ph (.act .peekTxid o v) = some ph') :
    StepOK dry isTxKind sh E j rg (.act .peekTxid o v) ph' := by
  simp only [estep'] at hph
  split at hph
  · rename_i hc
    simp only [Bool.and_eq_true, decide_eq_true_eq, Bool.not_eq_true'] at hc
    obtain rfl := Option.some.inj hph
    have hlt : sh.lastTx = E.lastTx := by simpa [LT, hc.1.2] using hLT
    refine ⟨E, rfl, ?_, hLT, ⟨hG.dur, hG.pend, hG.lt, hG.txS, hG.txQ⟩, fun b _ => frame_refl sh E b⟩
    exact { hL with
      tx := fun _ => rfl
      pkS := fun _ => ⟨(sh.lastTx + 1).toNat, rfl, by have := hG.lt; rw [hlt]; omega⟩
      pkR := fun h => (by cases h)
      ansP := fun h => (by rw [hc.2] at h; cases h) }
  · cases hph


theorem step_chain (o : Outcome) (v : Via) (hph : estep' j.ep ph (.act .chainLog o v) = some ph') :
    StepOK dry isTxKind sh E j rg (.act .chainLog o v) ph' := by
  simp only [estep'] at hph
  split at hph
  · rename_i hc
    simp only [Bool.and_eq_true, Bool.not_eq_true', Bool.or_eq_true] at hc
    obtain rfl := Option.some.inj hph
    have happ := hc.1
    refine ⟨E, rfl, ?_, hLT, ⟨hG.dur, hG.pend, hG.lt, hG.txS, hG.txQ⟩, fun b _ => ⟨fun _ h => h, fun _ h => .inl h, fun _ h => h, rfl, rfl, rfl⟩⟩
    have hdur : ph.dur = false := by
      cases h : ph.dur with
      | false => rfl
      | true => have := hL.durApp h; rw [happ] at this; cases this
    exact { hL with
      ch0 := fun h => (by cases h)
      ch1 := fun _ => ⟨_, rfl, rfl, (by
        intro hk; simp [Job.content, hk]), (by
        intro htx
        rcases hc.2 with h | h
        · exact hL.tx h
        · rw [isTxEp_eq j hj.kind, htx] at h; cases h)⟩
      mine := by rw [hL.mine]; simp [happ]
      appq := fun h => (by rw [happ] at h; cases h)
      dur := fun h => (by rw [hdur] at h; cases h)
      pub := fun h => (by
        obtain ⟨e, he, l, h1, h2⟩ := hL.pub h
        have h3 : rg.found = some l := by simpa [happ] using h2
        refine ⟨e, he, l, h1, ?_⟩
        simp only [happ, Bool.false_eq_true, if_false]
        exact h3) }
  · cases hph

theorem step_append (og : String) (cs : List String) (o : Outcome) (v : Via)
    (hph : estep' j.ep ph (.act (.append og cs) o v) = some ph') :
    StepOK dry isTxKind sh E j rg (.act (.append og cs) o v) ph' := by
  simp only [estep'] at hph
  split at hph
  · rename_i hc
    simp only [Bool.and_eq_true, decide_eq_true_eq, Bool.not_eq_true'] at hc
    obtain ⟨⟨⟨⟨⟨hog, hdry⟩, hch⟩, happ⟩, hpub⟩, hpk⟩ := hc
    obtain rfl := Option.some.inj hph
    subst hog
    obtain ⟨l, hl, hown⟩ := hL.ch1 hch
    have hd : dry j.a = false := by rw [← hj.dry]; exact hL.dry _ hdry
    have hdur : ph.dur = false := by
      cases h : ph.dur with
      | false => rfl
      | true => have := hL.durApp h; rw [happ] at this; cases this
    have hlt : -1 ≤ sh.lastTx := by
      have := hG.lt
      unfold LT at hLT
      split at hLT <;> omega
    refine ⟨{ E with mine := (j.a, l) :: E.mine, pending := E.pending ++ [l], lastTx := sh.lastTx },
      by simp [evsOf, runOn, Events.step, hd, hl], ?_, by simp [LT, effSh], ⟨hG.dur, by simp [effSh, hG.pend, hl], hlt, hG.txS, ?_⟩, ?_⟩
    · simp only [effSh, effRg, if_true, hl, Option.getD_some]
      exact { hL with
        mine := by simp [mineOf, hl]
        appq := fun _ => ⟨l, hl, .inl (by simp)⟩
        durApp := fun _ => rfl
        dur := fun h => (by rw [hdur] at h; cases h)
        pkS := fun h => (by rw [hpk] at h; cases h)
        pub := fun h => (by rw [hpub] at h; cases h) }
    · intro q hq
      simp only [effSh, if_true, hl, Option.getD_some, List.mem_append, List.mem_singleton] at hq
      rcases hq with hq | rfl
      · exact hG.txQ q hq
      · intro hk
        apply hown.2.2
        have hk' : l.kind = .create ∨ l.kind = .revert := hk
        unfold Job.isTx
        rw [← hown.1]
        rcases hk' with h | h <;> simp [h]
    · intro b hb
      refine ⟨fun _ h => h, fun q h => .inl (by simp [effSh, h]), fun _ h => h, by simp [mineOf, find_cons_ne _ _ _ _ hb], rfl, rfl⟩
  · cases hph

theorem step_wait (c : String) (o : Outcome) (v : Via) (hen : enabled sh j rg (.act (.wait c) o v) = true)
    (hph : estep' j.ep ph (.act (.wait c) o v) = some ph') :
    StepOK dry isTxKind sh E j rg (.act (.wait c) o v) ph' := by
  simp only [estep'] at hph
  split at hph
  · rename_i hc
    simp only [Bool.and_eq_true, decide_eq_true_eq] at hc
    obtain rfl := Option.some.inj hph
    have hq : sh.queue.any (fun q => q.1 = j.a) = false := by simpa [enabled, hc.1] using hen
    refine ⟨E, rfl, ?_, hLT, hG, fun b _ => frame_refl sh E b⟩
    exact { hL with
      durApp := fun _ => hc.2
      dur := fun _ => (by
        obtain ⟨l, h1, h2⟩ := hL.appq hc.2
        refine ⟨l, h1, ?_⟩
        rcases h2 with h2 | h2
        · have := List.any_eq_false.1 hq _ h2
          simp at this
        · exact h2) }
  · obtain rfl := Option.some.inj hph
    exact ⟨E, rfl, hL, hLT, hG, fun b _ => frame_refl sh E b⟩

theorem step_answer (pv : Prov) (o : Outcome) (v : Via) (hph : estep' j.ep ph (.act (.answer pv) o v) = some ph') :
    StepOK dry isTxKind sh E j rg (.act (.answer pv) o v) ph' := by
  simp only [estep'] at hph
  obtain rfl := Option.some.inj hph
  refine ⟨E, rfl, ?_, hLT, hG, fun b _ => frame_refl sh E b⟩
  exact { hL with
    ansI := fun h => (by
      simp only [ansOf] at h
      split at h
      · cases h
      · split at h
        · rename_i h1 h2; simp [effRg, logOfOrigin, h2]
        · cases h)
    ansP := fun h => (by
      simp only [ansOf] at h
      split at h
      · cases h
      · split at h
        · cases h
        · rename_i h1 h2; simp [effRg, logOfOrigin, h1, h2]) }


theorem step_publish (hids : Chain.idsOk 0 sh.store) (k : String) (args : List Prov) (o : Outcome) (v : Via)
    (hph : estep' j.ep ph (.act (.publish k args) o v) = some ph') :
    StepOK dry isTxKind sh E j rg (.act (.publish k args) o v) ph' := by
  simp only [estep'] at hph
  split at hph
  · rename_i hc
    simp only [Bool.and_eq_true, decide_eq_true_eq] at hc
    obtain ⟨hdry, hk⟩ := hc
    subst hk
    have hd : dry j.a = false := by rw [← hj.dry]; exact hL.dry _ hdry
    have key : ∀ l, logOfOrigin rg j (publishOrigin args) = l → Events.entryOf E j.a = some l → l ∈ sh.store →
        l.kind = j.req.kind → (j.req.kind = .revert → l.reverts = some j.req.target) →
        (if ph.app then rg.chained = some l else rg.found = some l) → { ph with pub := true } = ph' →
        StepOK dry isTxKind sh E j rg (.act (.publish (publishKindOf j.ep) args) o v) ph' := by
      intro l hlo hent hmem hkind hrev hreg hp
      subst hp
      have hdesc := describes_bus j l hj.kind hkind hrev (hG.txS l hmem)
      have hmemE : l ∈ E.durable := by rw [hG.dur]; exact hmem
      have hany : E.durable.any (Events.describes (busOf (publishKindOf j.ep) j l)) = true :=
        List.any_eq_true.2 ⟨l, hmemE, hdesc⟩
      refine ⟨{ E with published := busOf (publishKindOf j.ep) j l :: E.published },
        by simp [evsOf, runOn, Events.step, hd, hlo, hany, hent, hdesc, hmemE], ?_, hLT,
        ⟨hG.dur, hG.pend, hG.lt, hG.txS, hG.txQ⟩,
        fun b _ => ⟨fun _ h => h, fun _ h => .inl h, fun _ h => List.mem_cons_of_mem _ h, rfl, rfl, rfl⟩⟩
      exact { hL with pub := fun _ => ⟨_, List.mem_cons_self .., l, hdesc, hreg⟩ }
    split at hph
    · -- the request's own log
      rename_i horig
      split at hph
      · rename_i hc
        simp only [Bool.and_eq_true] at hc
        obtain ⟨l, h1, h2⟩ := hL.dur hc.2
        have hch : ph.ch = true := by
          cases h : ph.ch with
          | true => rfl
          | false => have := hL.ch0 h; rw [h1] at this; cases this
        obtain ⟨l', h3, hown⟩ := hL.ch1 hch
        rw [h1] at h3
        cases h3
        exact key l (by simp [logOfOrigin, horig, h1]) (entry_of sh E j rg ph hL hG hids l (by simp [hc.1, h1])) h2
          hown.1 hown.2.1 (by simp [hc.1, h1]) (Option.some.inj hph)
      · cases hph
    · split at hph
      · -- the log found for the idempotency key
        rename_i hn horig
        split at hph
        · rename_i hc
          simp only [Bool.and_eq_true, Bool.not_eq_true', Bool.or_eq_true, bne_iff_ne, ne_eq] at hc
          obtain ⟨⟨⟨happ, hf⟩, hkk⟩, hid⟩ := hc
          obtain ⟨l, h1, h2⟩ := hL.fndS hf
          obtain ⟨l', h3, hkind⟩ := hL.kOk hkk
          rw [h1] at h3
          cases h3
          have hrev : j.req.kind = .revert → l.reverts = some j.req.target := by
            intro hkr
            have hep := kindOfEp_revert j.ep (by rw [hj.kind, hkr])
            rcases hid with hid | hid
            · exact absurd hep hid
            · obtain ⟨l', h3, h4⟩ := hL.idOk hid
              rw [h1] at h3
              cases h3
              exact h4
          exact key l (by simp [logOfOrigin, horig, h1]) (entry_of sh E j rg ph hL hG hids l (by simp [happ, hf, h1])) h2
            hkind hrev (by simp [happ, h1]) (Option.some.inj hph)
        · cases hph
      · cases hph
  · cases hph

theorem step_choose (atom : String) (b : Bool) (hen : enabled sh j rg (.choose atom b) = true)
    (hph : estep' j.ep ph (.choose atom b) = some ph') :
    StepOK dry isTxKind sh E j rg (.choose atom b) ph' := by
  have hfr : ∀ b, b ≠ j.a → Frame sh sh E E b := fun b _ => frame_refl sh E b
  simp only [estep'] at hph
  simp only [enabled] at hen
  split at hph
  · rename_i ha
    subst ha
    have hb : b = j.req.dry := by simpa [atomOk] using hen
    split at hph
    · obtain rfl := Option.some.inj hph
      exact ⟨E, rfl, { hL with dry := fun b' h => (by cases h; exact hb.symm) }, hLT, hG, hfr⟩
    · rename_i b' hb'
      have := hL.dry b' hb'
      split at hph
      · obtain rfl := Option.some.inj hph
        exact ⟨E, rfl, hL, hLT, hG, hfr⟩
      · rename_i hne
        exact absurd (hb.trans this) hne
  · split at hph
    · rename_i ha
      subst ha
      have hb : b = j.isTx := by simpa [atomOk] using hen
      split at hph
      · obtain rfl := Option.some.inj hph
        exact ⟨E, rfl, hL, hLT, hG, hfr⟩
      · rename_i hne
        exact absurd (hb.trans (isTxEp_eq j hj.kind).symm) hne
    · split at hph
      · rename_i ha
        subst ha
        split at hph
        · rename_i hc
          simp only [Bool.and_eq_true, Bool.not_eq_true'] at hc
          obtain ⟨⟨hb, hf⟩, hch⟩ := hc
          subst hb
          obtain ⟨l, h1, h2⟩ := hL.fndS hf
          have hch0 := hL.ch0 hch
          have : l.kind = j.req.kind := by simpa [atomOk, returned, hch0, h1] using hen
          obtain rfl := Option.some.inj hph
          exact ⟨E, rfl, { hL with kOk := fun _ => ⟨l, h1, this⟩ }, hLT, hG, hfr⟩
        · obtain rfl := Option.some.inj hph
          exact ⟨E, rfl, hL, hLT, hG, hfr⟩
      · split at hph
        · rename_i ha
          subst ha
          split at hph
          · rename_i hc
            simp only [Bool.and_eq_true, Bool.not_eq_true'] at hc
            obtain ⟨⟨hb, hf⟩, hch⟩ := hc
            subst hb
            obtain ⟨l, h1, h2⟩ := hL.fndS hf
            have hch0 := hL.ch0 hch
            have : l.reverts = some j.req.target := by simpa [atomOk, returned, hch0, h1] using hen
            obtain rfl := Option.some.inj hph
            exact ⟨E, rfl, { hL with idOk := fun _ => ⟨l, h1, this⟩ }, hLT, hG, hfr⟩
          · obtain rfl := Option.some.inj hph
            exact ⟨E, rfl, hL, hLT, hG, hfr⟩
        · obtain rfl := Option.some.inj hph
          exact ⟨E, rfl, hL, hLT, hG, hfr⟩


end

-- ------------------------------------------------------------------------------------------------ the other items

/-- items `Events` and the automaton do not look at -/
def silent : Item → Bool
  | .act (.yield _) _ _ => false
  | .fin _ _ => false
  | .act (.readIk _) .ok _ => false
  | .act .allocTxid _ _ => false
  | .act .stampTxid _ _ => false
  | .act .peekTxid _ _ => false
  | .act .chainLog _ _ => false
  | .act (.append _ _) _ _ => false
  | .act (.wait _) _ _ => false
  | .act (.publish _ _) _ _ => false
  | .act (.answer _) _ _ => false
  | .choose _ _ => false
  | _ => true

theorem estep'_silent (ep : String) (ph : EPh) (x : Item) (h : silent x = true) : estep' ep ph x = some ph := by
  unfold estep'
  split <;> simp_all [silent]

theorem effSh_silent (sh : Shared) (j : Job) (rg : Regs) (x : Item) (h : silent x = true) :
    (effSh sh j rg x).store = sh.store ∧ (effSh sh j rg x).queue = sh.queue ∧ (effSh sh j rg x).lastTx = sh.lastTx := by
  unfold effSh
  split <;> simp_all [silent]

theorem effRg_silent (sh : Shared) (j : Job) (rg : Regs) (x : Item) (h : silent x = true) :
    (effRg sh j rg x).txid = rg.txid ∧ (effRg sh j rg x).chained = rg.chained ∧ (effRg sh j rg x).found = rg.found ∧
    (effRg sh j rg x).answer = rg.answer := by
  unfold effRg
  split <;> simp_all [silent]

/-- events `Events` lets pass unchanged -/
def ign : Ev → Bool
  | .arrive .. => false
  | .committed .. => false
  | .gate .. => false
  | .crash => false
  | .publish .. => false
  | .finish .. => false
  | .ikRead _ _ (some _) => false
  | _ => true

theorem step_ign (dry isTxKind : Nat → Bool) (E : Events.S) (ev : Ev) (h : ign ev = true) :
    Events.step dry isTxKind E ev = .ok E := by
  cases ev with
  | ikRead a k f => cases f <;> simp_all [ign, Events.step]
  | _ => simp_all [ign, Events.step]

theorem runOn_ign (dry isTxKind : Nat → Bool) (E : Events.S) (evs : List Ev) (h : ∀ ev ∈ evs, ign ev = true) :
    runOn (Events.step dry isTxKind) E evs = .ok E := by
  induction evs with
  | nil => rfl
  | cons e es ih =>
    simp only [runOn, step_ign dry isTxKind E e (h e (List.mem_cons_self ..))]
    exact ih (fun ev hev => h ev (List.mem_cons_of_mem _ hev))

theorem evs_silent (sh : Shared) (j : Job) (rg : Regs) (x : Item) (h : silent x = true) :
    ∀ ev ∈ evsOf sh j rg x, ign ev = true := by
  unfold evsOf
  split <;> (try split) <;> simp_all [silent, ign]
  intro ev x y z _ h
  subst h
  rfl

theorem linv_congr (sh sh' : Shared) (E : Events.S) (j : Job) (rg rg' : Regs) (ph : EPh)
    (e1 : sh'.store = sh.store) (e2 : sh'.queue = sh.queue) (r1 : rg'.txid = rg.txid) (r2 : rg'.chained = rg.chained)
    (r3 : rg'.found = rg.found) (r4 : rg'.answer = rg.answer) (h : LInv sh E j rg ph) : LInv sh' E j rg' ph :=
  { live := h.live, dry := h.dry, tx := by rw [r1]; exact h.tx, ch0 := by rw [r2]; exact h.ch0, ch1 := by rw [r2]; exact h.ch1,
    mine := by rw [r2]; exact h.mine, appq := by rw [r2, e1, e2]; exact h.appq, durApp := h.durApp,
    dur := by rw [r2, e1]; exact h.dur, fnd := by rw [r3]; exact h.fnd, fndS := by rw [r3, e1]; exact h.fndS,
    kOk := by rw [r3]; exact h.kOk, idOk := by rw [r3]; exact h.idOk, pkS := by rw [r1]; exact h.pkS,
    pkR := by rw [r1]; exact h.pkR, pub := by rw [r2, r3]; exact h.pub, ansI := by rw [r3, r4]; exact h.ansI,
    ansP := by rw [r1, r4]; exact h.ansP }

theorem step_silent (dry isTxKind : Nat → Bool) (sh : Shared) (E : Events.S) (j : Job) (rg : Regs) (ph ph' : EPh)
    (hL : LInv sh E j rg ph) (hLT : LT sh E ph.al) (hG : Glob sh E) (x : Item) (hs : silent x = true)
    (hph : estep' j.ep ph x = some ph') : StepOK dry isTxKind sh E j rg x ph' := by
  rw [estep'_silent _ _ _ hs] at hph
  obtain rfl := Option.some.inj hph
  obtain ⟨e1, e2, e3⟩ := effSh_silent sh j rg x hs
  obtain ⟨r1, r2, r3, r4⟩ := effRg_silent sh j rg x hs
  refine ⟨E, runOn_ign dry isTxKind E _ (evs_silent sh j rg x hs), linv_congr sh _ E j rg _ ph e1 e2 r1 r2 r3 r4 hL, ?_,
    ⟨hG.dur.trans e1.symm, by rw [e2]; exact hG.pend, hG.lt, by rw [e1]; exact hG.txS, by rw [e2]; exact hG.txQ⟩, ?_⟩
  · unfold LT at hLT ⊢
    rw [e3]
    exact hLT
  · intro b _
    exact ⟨by rw [e1]; exact fun _ h => h, by rw [e2]; exact fun _ h => .inl h, fun _ h => h, rfl, rfl, rfl⟩

/-- **one item of one request**: `Events` accepts what it emits, the request's part of the invariant moves with its
phase, the others' records are untouched -/
theorem item_step (dry isTxKind : Nat → Bool) (sh : Shared) (E : Events.S) (j : Job) (rg : Regs) (ph ph' : EPh)
    (hj : JobOK dry isTxKind j) (hL : LInv sh E j rg ph) (hLT : LT sh E ph.al) (hG : Glob sh E)
    (hids : Chain.idsOk 0 sh.store) (x : Item) (hen : enabled sh j rg x = true) (hph : estep j.ep ph x = some ph') :
    StepOK dry isTxKind sh E j rg x ph' := by
  have hph' : estep' j.ep ph x = some ph' := by simpa [estep, hL.live] using hph
  cases x with
  | act a o v =>
    cases a with
    | yield pt => exact step_yield dry isTxKind sh E j rg ph ph' hj hL hLT hG pt o v hph'
    | readIk key =>
      cases o with
      | ok => exact step_readIk dry isTxKind sh E j rg ph ph' hj hL hLT hG key v hen hph'
      | _ => exact step_silent dry isTxKind sh E j rg ph ph' hL hLT hG _ rfl hph'
    | allocTxid => exact step_alloc dry isTxKind sh E j rg ph ph' hj hL hLT hG o v hph'
    | stampTxid => exact step_stamp dry isTxKind sh E j rg ph ph' hj hL hLT hG o v hph'
    | peekTxid => exact step_peek dry isTxKind sh E j rg ph ph' hj hL hLT hG o v hph'
    | chainLog => exact step_chain dry isTxKind sh E j rg ph ph' hj hL hLT hG o v hph'
    | append og cs => exact step_append dry isTxKind sh E j rg ph ph' hj hL hLT hG og cs o v hph'
    | wait c => exact step_wait dry isTxKind sh E j rg ph ph' hj hL hLT hG c o v hen hph'
    | publish k args => exact step_publish dry isTxKind sh E j rg ph ph' hj hL hLT hG hids k args o v hph'
    | answer pv => exact step_answer dry isTxKind sh E j rg ph ph' hj hL hLT hG pv o v hph'
    | _ => exact step_silent dry isTxKind sh E j rg ph ph' hL hLT hG _ rfl hph'
  | choose atom b => exact step_choose dry isTxKind sh E j rg ph ph' hj hL hLT hG atom b hen hph'
  | fin ok cls => exact step_fin dry isTxKind sh E j rg ph ph' hj hL hLT hG hids ok cls hph'
  | panic w => exact step_silent dry isTxKind sh E j rg ph ph' hL hLT hG _ rfl hph'

/-- a request that did not move keeps its part of the invariant -/
theorem other_linv (sh sh' : Shared) (E E' : Events.S) (j : Job) (rg : Regs) (ph : EPh) (h : LInv sh E j rg ph)
    (hF : Frame sh sh' E E' j.a) (hpk : ph.pk ≠ .inSeg) : LInv sh' E' j rg ph :=
  { h with
    mine := by rw [hF.mine]; exact h.mine
    appq := fun ha => (by
      obtain ⟨l, h1, h2⟩ := h.appq ha
      refine ⟨l, h1, ?_⟩
      rcases h2 with h2 | h2
      · exact hF.queue _ h2
      · exact .inr (hF.store _ h2))
    dur := fun hd => (by
      obtain ⟨l, h1, h2⟩ := h.dur hd
      exact ⟨l, h1, hF.store _ h2⟩)
    fnd := by rw [hF.found]; exact h.fnd
    fndS := fun hf => (by
      obtain ⟨l, h1, h2⟩ := h.fndS hf
      exact ⟨l, h1, hF.store _ h2⟩)
    pkS := fun hh => absurd hh hpk
    pkR := fun hh hd => (by rw [hF.peek]; exact h.pkR hh hd)
    pub := fun hp => (by
      obtain ⟨e, he, r⟩ := h.pub hp
      exact ⟨e, hF.pub e he, r⟩) }

-- ------------------------------------------------------------------------------------------------ the invariant

/-- a segment ends only with nothing allocated-and-unappended and no peek unrecorded -/
theorem seg_end (ep : String) (ph ph' : EPh) (x : Item) (rest : Path) (hlive : ph.dead = false) (hlive' : ph'.dead = false)
    (hph : estep ep ph x = some ph') (hrest : eacc (erun ep ph' rest) = true)
    (hend : (endsSegment x || rest.isEmpty) = true) : ph'.al = false ∧ ph'.pk ≠ .inSeg := by
  simp only [Bool.or_eq_true] at hend
  rcases hend with hend | hend
  · simp only [estep, hlive, Bool.false_eq_true, if_false] at hph
    cases x with
    | act a o v =>
      cases a <;> simp [endsSegment] at hend
      simp only [estep'] at hph
      split at hph
      · cases hph
      · rename_i hal
        split at hph
        · rename_i hpk; obtain rfl := Option.some.inj hph; simp [hpk, hal]
        · split at hph
          · obtain rfl := Option.some.inj hph; simp [hal]
          · cases hph
        · rename_i hpk
          split at hph
          · cases hph
          · obtain rfl := Option.some.inj hph; simp [hpk, hal]
    | fin ok cls =>
      simp only [estep'] at hph
      split at hph
      · cases hph
      · rename_i hc
        simp only [Bool.or_eq_true, decide_eq_true_eq, not_or, Bool.not_eq_true] at hc
        have : ph' = ph := by
          split at hph
          · exact (Option.some.inj hph).symm
          · split at hph
            · cases hph
            · split at hph
              · exact (Option.some.inj hph).symm
              · cases hph
            · split at hph
              · cases hph
              · split at hph
                · exact (Option.some.inj hph).symm
                · split at hph
                  · split at hph
                    · exact (Option.some.inj hph).symm
                    · cases hph
                  · split at hph
                    · exact (Option.some.inj hph).symm
                    · cases hph
        subst this
        exact hc
    | _ => simp [endsSegment] at hend
  · have : rest = [] := by simpa using hend
    subst this
    simp only [erun, eacc, efinal, hlive', Bool.false_or, Bool.and_eq_true, Bool.not_eq_true', bne_iff_ne, ne_eq] at hrest
    exact hrest

/-- one request in a state of the system: where the automaton is, and what its flags mean -/
structure PInv (dry isTxKind : Nat → Bool) (rn : Option Nat) (sh : Shared) (E : Events.S) (p : Proc) (ph : EPh) : Prop where
  run : erun p.job.ep {} p.done = some ph
  rest : eacc (erun p.job.ep ph p.todo) = true
  job : JobOK dry isTxKind p.job
  linv : LInv sh E p.job p.regs ph
  /-- a request that is not in the middle of a segment has nothing allocated and no peek in flight -/
  seg : rn ≠ some p.job.a → ph.al = false ∧ ph.pk ≠ .inSeg
  lt : rn = some p.job.a → LT sh E ph.al

structure GInv (dry isTxKind : Nat → Bool) (y : YState) (E : Events.S) : Prop where
  glob : Glob y.st.sh E
  nodup : (y.st.procs.map (·.job.a)).Nodup
  /-- between segments the machine's `lastTx` is the commander's -/
  idle : y.running = none → y.st.sh.lastTx = E.lastTx
  owner : ∀ a, y.running = some a → ∃ p ∈ y.st.procs, p.alive = true ∧ p.job.a = a
  procs : ∀ p ∈ y.st.procs, p.alive = true → ∃ ph, PInv dry isTxKind y.running y.st.sh E p ph
  /-- the machine has records only about requests that exist -/
  known : ∀ b, (mineOf E b ≠ none ∨ foundOf E b ≠ none) → ∃ p ∈ y.st.procs, p.job.a = b

theorem others_ne (pre post : List Proc) (P q : Proc) (hnd : ((pre ++ P :: post).map (·.job.a)).Nodup)
    (hq : q ∈ pre ∨ q ∈ post) : q.job.a ≠ P.job.a := by
  simp only [List.map_append, List.map_cons] at hnd
  have h1 := List.nodup_append.1 hnd
  rcases hq with hq | hq
  · intro he
    exact h1.2.2 _ (List.mem_map_of_mem hq) _ (List.mem_cons_self ..) he
  · intro he
    have h2 := (List.nodup_cons.1 h1.2.1).1
    exact h2 (he ▸ List.mem_map_of_mem hq)

theorem init_linv (sh : Shared) (E : Events.S) (j : Job) (h1 : mineOf E j.a = none) (h2 : foundOf E j.a = none) :
    LInv sh E j {} {} :=
  { live := rfl, dry := fun _ h => (by cases h), tx := fun h => (by cases h), ch0 := fun _ => rfl, ch1 := fun h => (by cases h),
    mine := h1, appq := fun h => (by cases h), durApp := fun h => (by cases h), dur := fun h => (by cases h), fnd := h2,
    fndS := fun h => (by cases h), kOk := fun h => (by cases h), idOk := fun h => (by cases h), pkS := fun h => (by cases h),
    pkR := fun h => (by cases h), pub := fun h => (by cases h), ansI := fun h => (by cases h), ansP := fun h => (by cases h) }

theorem countTx_eq (ls : List LogE) : Events.countTx ls = countTx ls := rfl

/-- **the step lemma**: whatever the system does next under the yield-point discipline, `Events` accepts the events and
the invariant is kept -/
theorem stepY_inv (dry isTxKind : Nat → Bool) (adm : Job → Path → Prop)
    (hadm : ∀ j p, adm j p → eaccepts j.ep p = true ∧ JobOK dry isTxKind j)
    (y y' : YState) (evs : List Ev) (h : StepY adm y evs y') (E : Events.S) (hi : GInv dry isTxKind y E)
    (hids : Chain.idsOk 0 y.st.sh.store) :
    ∃ E', runOn (Events.step dry isTxKind) E evs = .ok E' ∧ GInv dry isTxKind y' E' := by
  cases h with
  | item pre post j rg dn x rest hp hen hq hrun =>
    have hmemP : (⟨j, rg, dn, true, x :: rest⟩ : Proc) ∈ y.st.procs := by rw [hp]; simp
    obtain ⟨ph, hP⟩ := hi.procs _ hmemP rfl
    obtain ⟨ph', hph, hrest⟩ := erun_cons_acc j.ep ph x rest hP.rest
    have hLT : LT y.st.sh E ph.al := by
      rcases hrun with hr | hr
      · have := (hP.seg (by rw [hr]; simp)).1
        rw [this]
        simp [LT, hi.idle hr]
      · exact hP.lt hr
    obtain ⟨E', hrunE, hL', hLT', hG', hF⟩ :=
      item_step dry isTxKind y.st.sh E j rg ph ph' hP.job hP.linv hLT hi.glob hids x hen hph
    have hnd := hi.nodup
    rw [hp] at hnd
    have hse := seg_end j.ep ph ph' x rest hP.linv.live hL'.live hph hrest
    have main : ∀ r', (r' = none → ph'.al = false ∧ ph'.pk ≠ .inSeg) → (r' = none ∨ r' = some j.a) →
        GInv dry isTxKind ⟨⟨effSh y.st.sh j rg x, pre ++ ⟨j, effRg y.st.sh j rg x, dn ++ [x], true, rest⟩ :: post⟩, r'⟩ E' := by
      intro r' hr1 hr2
      have hother : ∀ q, (q ∈ pre ∨ q ∈ post) → q.alive = true →
          ∃ phq, PInv dry isTxKind r' (effSh y.st.sh j rg x) E' q phq := by
        intro q hq hal
        obtain ⟨phq, hQ⟩ := hi.procs q (by rw [hp]; rcases hq with hq | hq <;> simp [hq]) hal
        have hne : q.job.a ≠ j.a := others_ne pre post ⟨j, rg, dn, true, x :: rest⟩ q hnd hq
        have hnr : y.running ≠ some q.job.a := by
          rcases hrun with hr | hr <;> rw [hr]
          · simp
          · intro he; exact hne (Option.some.inj he).symm
        have hs := hQ.seg hnr
        refine ⟨phq, hQ.run, hQ.rest, hQ.job, other_linv _ _ E E' q.job q.regs phq hQ.linv (hF _ hne) hs.2, fun _ => hs, ?_⟩
        intro hr
        rcases hr2 with h | h <;> rw [h] at hr
        · cases hr
        · exact absurd (Option.some.inj hr).symm hne
      refine ⟨hG', ?_, ?_, ?_, ?_, ?_⟩
      · simpa using hnd
      · intro hr
        have := (hr1 hr).1
        unfold LT at hLT'
        rw [this] at hLT'
        simpa using hLT'
      · intro a ha
        rcases hr2 with h | h <;> rw [h] at ha
        · cases ha
        · exact ⟨⟨j, effRg y.st.sh j rg x, dn ++ [x], true, rest⟩, by simp, rfl, Option.some.inj ha⟩
      · intro q hq hal
        simp only [List.mem_append, List.mem_cons] at hq
        rcases hq with hq | rfl | hq
        · exact hother q (.inl hq) hal
        · refine ⟨ph', by simp [erun_snoc, hP.run, hph], hrest, hP.job, hL', ?_, fun _ => hLT'⟩
          intro hne
          rcases hr2 with h | h
          · exact hr1 h
          · exact absurd h hne
        · exact hother q (.inr hq) hal
      · intro b hb
        by_cases hbj : b = j.a
        · exact ⟨⟨j, effRg y.st.sh j rg x, dn ++ [x], true, rest⟩, by simp, hbj.symm⟩
        · have hf := hF b hbj
          rw [hf.mine, hf.found] at hb
          obtain ⟨p, hp1, hp2⟩ := hi.known b hb
          rw [hp] at hp1
          simp only [List.mem_append, List.mem_cons] at hp1
          rcases hp1 with hp1 | rfl | hp1
          · exact ⟨p, by simp [hp1], hp2⟩
          · exact absurd hp2.symm hbj
          · exact ⟨p, by simp [hp1], hp2⟩
    refine ⟨E', hrunE, ?_⟩
    by_cases hend : (endsSegment x || rest.isEmpty) = true
    · rw [if_pos hend]
      exact main none (fun _ => hse hend) (.inl rfl)
    · rw [if_neg hend]
      exact main (some j.a) (fun h => by cases h) (.inr rfl)
  | gate n ok h0 hn hrun =>
    have hlen : E.pending.length = y.st.sh.queue.length := by rw [hi.glob.pend]; simp
    have hcond : ¬ (n = 0 ∨ n > E.pending.length) := by omega
    cases ok with
    | false =>
      refine ⟨E, by simp [runOn, Events.step, hcond], ?_⟩
      obtain ⟨st, r⟩ := y
      simp only at hrun
      subst hrun
      simpa using hi
    | true =>
      refine ⟨{ E with durable := E.durable ++ E.pending.take n, pending := E.pending.drop n },
        by simp [runOn, Events.step, hcond], ?_⟩
      simp only [if_true]
      have hfr : ∀ b, Frame y.st.sh (persist y.st.sh n) E
          { E with durable := E.durable ++ E.pending.take n, pending := E.pending.drop n } b := by
        intro b
        refine ⟨fun l hl => by simp [persist, hl], ?_, fun _ h => h, rfl, rfl, rfl⟩
        intro q hq
        rw [← List.take_append_drop n y.st.sh.queue] at hq
        rcases List.mem_append.1 hq with hq | hq
        · exact .inr (by simp only [persist, List.mem_append, List.mem_map]; exact .inr ⟨q, hq, rfl⟩)
        · exact .inl hq
      refine ⟨⟨by simp [persist, hi.glob.dur, hi.glob.pend, List.map_take], by simp [persist, hi.glob.pend, List.map_drop],
        hi.glob.lt, ?_, ?_⟩, hi.nodup, fun _ => hi.idle hrun, fun a ha => (by cases ha), ?_, hi.known⟩
      · intro l hl
        simp only [persist, List.mem_append, List.mem_map] at hl
        rcases hl with hl | ⟨q, hq, rfl⟩
        · exact hi.glob.txS l hl
        · exact hi.glob.txQ q (List.mem_of_mem_take hq)
      · intro q hq
        exact hi.glob.txQ q (List.mem_of_mem_drop hq)
      · intro q hq hal
        obtain ⟨phq, hQ⟩ := hi.procs q hq hal
        have hs := hQ.seg (by rw [hrun]; simp)
        exact ⟨phq, hQ.run, hQ.rest, hQ.job, other_linv _ _ E _ q.job q.regs phq hQ.linv (hfr _) hs.2, fun _ => hs,
          fun h => by cases h⟩
  | crash =>
    refine ⟨{ E with pending := [], lastTx := (Events.countTx E.durable : Int) - 1 }, by simp [runOn, Events.step], ?_⟩
    refine ⟨⟨hi.glob.dur, by simp [restart], by simp only; omega, hi.glob.txS, by simp [restart]⟩, ?_, ?_, fun a ha => (by cases ha), ?_, ?_⟩
    · have := hi.nodup
      simpa [List.map_map, Function.comp_def] using this
    · intro _
      simp [restart, hi.glob.dur, countTx_eq]
    · intro q hq hal
      simp only [List.mem_map] at hq
      obtain ⟨q0, _, rfl⟩ := hq
      simp at hal
    · intro b hb
      obtain ⟨p, hp1, hp2⟩ := hi.known b hb
      exact ⟨{ p with alive := false, todo := [] }, List.mem_map.2 ⟨p, hp1, rfl⟩, hp2⟩
  | arrive j p hfresh hadm' =>
    obtain ⟨hacc, hjob⟩ := hadm j p hadm'
    have hnew : ∀ q ∈ y.st.procs, q.job.a ≠ j.a := hfresh
    have hm : mineOf E j.a = none ∧ foundOf E j.a = none := by
      cases h1 : mineOf E j.a with
      | some l =>
        obtain ⟨q, hq1, hq2⟩ := hi.known j.a (.inl (by simp [h1]))
        exact absurd hq2 (hnew q hq1)
      | none =>
        cases h2 : foundOf E j.a with
        | some l =>
          obtain ⟨q, hq1, hq2⟩ := hi.known j.a (.inr (by simp [h2]))
          exact absurd hq2 (hnew q hq1)
        | none => exact ⟨rfl, rfl⟩
    have hnr : y.running ≠ some j.a := by
      intro hr
      obtain ⟨q, hq1, _, hq2⟩ := hi.owner j.a hr
      exact hnew q hq1 hq2
    refine ⟨E, rfl, ⟨hi.glob, ?_, hi.idle, ?_, ?_, ?_⟩⟩
    · simp only [List.map_append, List.map_cons, List.map_nil]
      refine List.nodup_append.2 ⟨hi.nodup, by simp, ?_⟩
      intro a ha b hb
      simp only [List.mem_map] at ha
      obtain ⟨q, hq, rfl⟩ := ha
      simp only [List.mem_singleton] at hb
      subst hb
      exact hfresh q hq
    · intro a ha
      obtain ⟨q, hq, hal, hqa⟩ := hi.owner a ha
      exact ⟨q, by simp [hq], hal, hqa⟩
    · intro q hq hal
      simp only [List.mem_append, List.mem_singleton] at hq
      rcases hq with hq | rfl
      · exact hi.procs q hq hal
      · exact ⟨{}, rfl, hacc, hjob, init_linv _ E j hm.1 hm.2, fun _ => ⟨rfl, by simp⟩, fun h => absurd h hnr⟩
    · intro b hb
      obtain ⟨q, hq1, hq2⟩ := hi.known b hb
      exact ⟨q, by simp [hq1], hq2⟩

theorem init_ginv (dry isTxKind : Nat → Bool) (store : List LogE) (hstore : ∀ l ∈ store, TxHasId l) :
    GInv dry isTxKind ⟨init store, none⟩ (Events.init store) := by
  refine ⟨⟨rfl, rfl, ?_, hstore, by simp [init, restart]⟩, by simp [init], ?_, fun a ha => (by cases ha), ?_, ?_⟩
  · simp only [Events.init]; omega
  · intro _; simp [init, restart, Events.init, countTx_eq]
  · intro p hp; simp [init] at hp
  · intro b hb
    simp [mineOf, foundOf, Events.init] at hb

/-- **`SkelSys`, scheduled at its yield points, refines `Events`** -/
theorem runY_refines (dry isTxKind : Nat → Bool) (adm : Job → Path → Prop)
    (hadm : ∀ j p, adm j p → eaccepts j.ep p = true ∧ JobOK dry isTxKind j)
    (y0 y : YState) (tr : List Ev) (h : RunY adm y0 tr y)
    (hchain : ∀ tr' y', RunY adm y0 tr' y' → Chain.idsOk 0 y'.st.sh.store)
    (E0 : Events.S) (hi : GInv dry isTxKind y0 E0) :
    ∃ E, runOn (Events.step dry isTxKind) E0 tr = .ok E ∧ GInv dry isTxKind y E := by
  induction h with
  | nil => exact ⟨E0, rfl, hi⟩
  | cons y1 y2 evs tr hrun hstep ih =>
    obtain ⟨E1, h1, hi1⟩ := ih
    obtain ⟨E2, h2, hi2⟩ := stepY_inv dry isTxKind adm hadm y1 y2 evs hstep E1 hi1 (hchain _ _ hrun)
    exact ⟨E2, by rw [runOn_append, h1]; exact h2, hi2⟩

-- ------------------------------------------------------------------------------------------------ admission is monotone

theorem step_mono {adm adm' : Job → Path → Prop} (hm : ∀ j p, adm j p → adm' j p) {st st' : State} {evs : List Ev}
    (h : Step adm st evs st') : Step adm' st evs st' := by
  cases h with
  | item pre post j rg dn x rest hp hen hq => exact Step.item _ pre post j rg dn x rest hp hen hq
  | gate n ok h0 hn => exact Step.gate _ n ok h0 hn
  | crash => exact Step.crash _
  | arrive j p hf ha => exact Step.arrive _ j p hf (hm j p ha)

theorem run_mono {adm adm' : Job → Path → Prop} (hm : ∀ j p, adm j p → adm' j p) {st st' : State} {tr : List Ev}
    (h : Run adm st tr st') : Run adm' st tr st' := by
  induction h with
  | nil => exact Run.nil _
  | cons st1 st2 evs tr _ hs ih => exact Run.cons _ _ _ _ _ ih (step_mono hm hs)

/-- every event of an accepted sequence was accepted in the state its predecessors led to -/
theorem runOn_split {S : Type} (step : S → Ev → Except String S) (s s' : S) (pre post : List Ev) (ev : Ev)
    (h : runOn step s (pre ++ ev :: post) = .ok s') :
    ∃ s1 s2, runOn step s pre = .ok s1 ∧ step s1 ev = .ok s2 ∧ runOn step s2 post = .ok s' := by
  rw [runOn_append] at h
  cases h1 : runOn step s pre with
  | error m => simp [h1] at h
  | ok s1 =>
    simp only [h1, runOn] at h
    cases h2 : step s1 ev with
    | error m => simp [h2] at h
    | ok s2 => exact ⟨s1, s2, rfl, h2, by simpa [h2] using h⟩

end Engine.Skel.EventsRef
