import Lemmas.StoreSqlTx
import Lemmas.StoreReplay
/-! C04 stage 2, layer 3c: **the `accounts` table and its revision table against the replayed accounts**.

`AcctsRel am d A l accts`: the rows of ledger `l` in the typed `accounts` table and the replayed account records `accts` are the
same accounts (same addresses, as many), and each row with its revision rows canonicalises to the record's metadata history
(`SimA`).  While a NEW_TRANSACTION entry with script metadata `am` is being projected the SQL is AHEAD of the replay for the
accounts of the postings that `am` mentions: `insert_posting` hands their metadata to `upsert_account` at once, the replay only
touches them and applies `am` after all postings.  `AcctOkX am d` allows that: the row is related either to the record or to the
record as it will be once `am`'s entry for that address is applied. -/
namespace StoreSql
open Sql Schema Store

def reviseRec (d : Int) (m : Meta) (rec : AcctRec) : AcctRec :=
  { rec with metaHist := (d, Meta.merge (histCurrent rec.metaHist) m) :: rec.metaHist }

def AcctOk (A : ADB) (r : AAcct) (rec : AcctRec) : Prop :=
  ∃ k vals, HistOk (histOf A.acctMeta r.seq) k vals ∧ vals.getLast? = some r.md ∧
    SimA (vals.map J.obj) (rec.metaHist.reverse.map (fun e => metaJ e.2))

def AcctOkX (am : List (String × Meta)) (d : Int) (A : ADB) (r : AAcct) (rec : AcctRec) : Prop :=
  AcctOk A r rec ∨ ∃ km, am.find? (fun km => km.1 == rec.address) = some km ∧ NodupKeys km.2 ∧ AcctOk A r (reviseRec d km.2 rec)

structure AcctsRel (am : List (String × Meta)) (d : Int) (A : ADB) (l : String) (accts : List AcctRec) : Prop where
  nodup : (accts.map (·.address)).Nodup
  count : (A.accounts.filter (fun r => r.ledger == l)).length = accts.length
  fwd : ∀ rec ∈ accts, ∃ r ∈ A.accounts, r.ledger = l ∧ r.address = rec.address ∧ AcctOkX am d A r rec
  bwd : ∀ r ∈ A.accounts, r.ledger = l → ∃ rec ∈ accts, rec.address = r.address

theorem acctsRel_empty (d : Int) (l : String) : AcctsRel [] d {} l [] :=
  ⟨by simp, rfl, by simp, by simp⟩

/-- the current metadata of a related row is, as a finite map, the replayed current metadata -/
theorem AcctOk.current {A : ADB} {r : AAcct} {rec : AcctRec} (h : AcctOk A r rec) :
    rec.metaHist ≠ [] ∧ Eqv (.obj r.md) (metaJ (histCurrent rec.metaHist)) := by
  obtain ⟨k, vals, _, hl, hs⟩ := h
  obtain ⟨zs, zp, h1, h2, e⟩ := hs.last
  have e1 : zs = .obj r.md := by
    rw [List.getLast?_map, hl] at h1
    simpa using h1.symm
  cases hm : rec.metaHist with
  | nil => rw [hm] at h2; cases h2
  | cons x xs =>
    refine ⟨by simp, ?_⟩
    rw [hm] at h2
    simp only [List.reverse_cons, List.map_append, List.map_cons, List.map_nil, List.getLast?_append, List.getLast?_singleton,
      Option.some_or, Option.some.injEq] at h2
    rw [← e1]
    simpa [histCurrent, ← h2] using e

/-- one step of both sides: the table is mapped by `g` and extended by `ex`, the record list mapped by `gs` and extended by `exs` -/
theorem acctsRel_step {am am' : List (String × Meta)} {d : Int} {A A' : ADB} {l : String} {accts accts' : List AcctRec}
    (h : AcctsRel am d A l accts)
    (g : AAcct → AAcct) (ex : List AAcct) (gs : AcctRec → AcctRec) (exs : List AcctRec)
    (hA : A'.accounts = A.accounts.map g ++ ex) (hg : ∀ r, (g r).ledger = r.ledger ∧ (g r).address = r.address)
    (hS : accts' = accts.map gs ++ exs) (hgs : ∀ rec, (gs rec).address = rec.address)
    (hcount : (ex.filter (fun r => r.ledger == l)).length = exs.length)
    (hexs_nodup : (exs.map (·.address)).Nodup)
    (hexs_new : ∀ rec ∈ exs, rec.address ∉ accts.map (·.address))
    (hexs_fwd : ∀ rec ∈ exs, ∃ r ∈ ex, r.ledger = l ∧ r.address = rec.address ∧ AcctOkX am' d A' r rec)
    (hex_bwd : ∀ r ∈ ex, r.ledger = l → ∃ rec ∈ exs, rec.address = r.address)
    (hold : ∀ rec ∈ accts, ∀ r ∈ A.accounts, r.ledger = l → r.address = rec.address → AcctOkX am d A r rec → AcctOkX am' d A' (g r) (gs rec)) :
    AcctsRel am' d A' l accts' := by
  subst hS
  constructor
  · rw [List.map_append, List.map_map, List.nodup_append]
    have e : (accts.map ((·.address) ∘ gs)) = accts.map (·.address) := List.map_congr_left (fun rec _ => hgs rec)
    rw [e]
    refine ⟨h.nodup, hexs_nodup, ?_⟩
    intro x hx y hy exy
    subst exy
    obtain ⟨rec, hrec, rfl⟩ := List.mem_map.mp hy
    exact hexs_new rec hrec hx
  · rw [hA, List.filter_append, List.length_append, List.length_append, List.length_map, hcount,
      filter_map_ledger A.accounts (·.ledger) l g (fun r => (hg r).1), List.length_map, h.count]
  · intro rec hrec
    rcases List.mem_append.mp hrec with hrec | hrec
    · obtain ⟨rec0, hrec0, rfl⟩ := List.mem_map.mp hrec
      obtain ⟨r, hr, e1, e2, hx⟩ := h.fwd rec0 hrec0
      refine ⟨g r, by rw [hA]; exact List.mem_append_left _ (List.mem_map.mpr ⟨r, hr, rfl⟩), by rw [(hg r).1]; exact e1,
        by rw [(hg r).2, hgs]; exact e2, hold rec0 hrec0 r hr e1 e2 hx⟩
    · obtain ⟨r, hr, e1, e2, hx⟩ := hexs_fwd rec hrec
      exact ⟨r, by rw [hA]; exact List.mem_append_right _ hr, e1, e2, hx⟩
  · intro r hr hl
    rw [hA] at hr
    rcases List.mem_append.mp hr with hr | hr
    · obtain ⟨r0, hr0, rfl⟩ := List.mem_map.mp hr
      obtain ⟨rec, hrec, e⟩ := h.bwd r0 hr0 (by rw [← (hg r0).1]; exact hl)
      exact ⟨gs rec, List.mem_append_left _ (List.mem_map.mpr ⟨rec, hrec, rfl⟩), by rw [hgs, (hg r0).2]; exact e⟩
    · obtain ⟨rec, hrec, e⟩ := hex_bwd r hr hl
      exact ⟨rec, List.mem_append_right _ hrec, e⟩

theorem acctOk_congr {A A' : ADB} {r : AAcct} {rec : AcctRec} (h : histOf A'.acctMeta r.seq = histOf A.acctMeta r.seq) (hk : AcctOk A r rec) :
    AcctOk A' r rec := by
  obtain ⟨k, vals, h1, h2, h3⟩ := hk
  exact ⟨k, vals, by rw [h]; exact h1, h2, h3⟩

theorem acctOkX_congr {am : List (String × Meta)} {d : Int} {A A' : ADB} {r : AAcct} {rec : AcctRec}
    (h : histOf A'.acctMeta r.seq = histOf A.acctMeta r.seq) (hk : AcctOkX am d A r rec) : AcctOkX am d A' r rec := by
  rcases hk with hk | ⟨km, h1, h2, h3⟩
  · exact .inl (acctOk_congr h hk)
  · exact .inr ⟨km, h1, h2, acctOk_congr h h3⟩

/-- the relation only looks at `accounts` and `accounts_metadata` -/
theorem acctsRel_congr {am : List (String × Meta)} {d : Int} {A A' : ADB} {l : String} {accts : List AcctRec}
    (h1 : A'.accounts = A.accounts) (h2 : A'.acctMeta = A.acctMeta) (h : AcctsRel am d A l accts) : AcctsRel am d A' l accts := by
  refine acctsRel_step h id [] id [] (by simp [h1]) (fun _ => ⟨rfl, rfl⟩) (by simp) (fun _ => rfl) rfl (by simp) (by simp) (by simp) (by simp) ?_
  intro rec _ r _ _ _ hx
  exact acctOkX_congr (by rw [h2]) hx

theorem acctsRel_weaken {am : List (String × Meta)} {d d' : Int} {A : ADB} {l : String} {accts : List AcctRec} (h : AcctsRel [] d A l accts) :
    AcctsRel am d' A l accts := by
  refine ⟨h.nodup, h.count, ?_, h.bwd⟩
  intro rec hrec
  obtain ⟨r, hr, e1, e2, hx⟩ := h.fwd rec hrec
  refine ⟨r, hr, e1, e2, ?_⟩
  rcases hx with hx | ⟨km, h1, _⟩
  · exact .inl hx
  · simp at h1

-- ---------------------------------------------------------------- one row and its record

def upsP (l a : String) (m : Kvs) (r : AAcct) : Bool := acctKey l a r && !(J.contains (.obj r.md) (.obj m))
def upsU (m : Kvs) (dv : Val) (r : AAcct) : AAcct := { r with md := J.concatKvs r.md m, upd := dv }

theorem aUpsertAccount_exists (A : ADB) (l a : String) (m : Kvs) (dv : Val) (h : A.accounts.any (acctKey l a) = true) :
    aUpsertAccount A l a m dv = aUpdateAccounts A (upsP l a m) (upsU m dv) := by
  simp only [aUpsertAccount, h, if_true]
  rfl

/-- `upsert_account` on an existing account vs. the replay appending the merged metadata -/
theorem acctOk_upsert (A : ADB) (hs : Sane A) (l a : String) (m' : Meta) (hm : NodupKeys m') (dv : Val) (d : Int) (r0 : AAcct) (hr0 : r0 ∈ A.accounts)
    (hkey : acctKey l a r0 = true) (rec0 : AcctRec) (h : AcctOk A r0 rec0) :
    AcctOk (aUpdateAccounts A (upsP l a (kvsOf m')) (upsU (kvsOf m') dv)) (if upsP l a (kvsOf m') r0 then upsU (kvsOf m') dv r0 else r0)
      (reviseRec d m' rec0) := by
  obtain ⟨hne, hcur⟩ := h.current
  obtain ⟨ha, hp, e⟩ := eqv_unpack hcur
  obtain ⟨k, vals, h1, h2, h3⟩ := h
  have hh := aUpdateAccounts_hist A (upsP l a (kvsOf m')) (upsU (kvsOf m') dv) (fun _ => rfl) hs r0 hr0
  have hmerged : MObj (kvsOf (Meta.merge (histCurrent rec0.metaHist) m')) := mobj_kvsOf (nodup_merge hp m')
  have hP : (reviseRec d m' rec0).metaHist.reverse.map (fun e => metaJ e.2) =
      rec0.metaHist.reverse.map (fun e => metaJ e.2) ++ [metaJ (Meta.merge (histCurrent rec0.metaHist) m')] := by
    simp [reviseRec]
  by_cases hc : J.contains (.obj r0.md) (.obj (kvsOf m')) = true
  · have hp0 : upsP l a (kvsOf m') r0 = false := by simp [upsP, hc]
    simp only [hp0, Bool.false_eq_true, if_false] at hh ⊢
    refine ⟨k, vals, by rw [hh]; exact h1, h2, ?_⟩
    rw [hP]
    obtain ⟨zs, zp, g1, g2, _⟩ := h3.last
    have ez : zp = metaJ (histCurrent rec0.metaHist) := by
      cases hmh : rec0.metaHist with
      | nil => exact absurd hmh hne
      | cons x xs =>
        rw [hmh] at g2
        simp only [List.reverse_cons, List.map_append, List.map_cons, List.map_nil, List.getLast?_append, List.getLast?_singleton,
          Option.some_or, Option.some.injEq] at g2
        simp [histCurrent, ← g2]
    subst ez
    apply h3.right g2
    rw [metaJ_eq, metaJ_eq]
    refine eqv_obj hmerged (mobj_kvsOf hp) ?_
    exact ((KEq_merge e m' hm).symm.trans (concat_of_contains (mobj_kvsOf hm) hc)).trans e
  · have hp0 : upsP l a (kvsOf m') r0 = true := by simp [upsP, hkey, hc]
    simp only [hp0, if_true] at hh ⊢
    refine ⟨k + 1, vals ++ [(upsU (kvsOf m') dv r0).md], ?_, by simp, ?_⟩
    · show HistOk (histOf _ r0.seq) _ _
      rw [hh, nextRevP_ok h1]; exact .snoc _ h1
    · rw [hP, List.map_append]
      apply h3.both
      rw [metaJ_eq]
      exact eqv_obj (mobj_concatKvs ha (mobj_kvsOf hm)) hmerged (KEq_merge e m' hm)

/-- a row that is already related to the record with `m'` merged in contains `m'`: the upsert does nothing -/
theorem ahead_contains {A : ADB} {r0 : AAcct} {rec0 : AcctRec} {d : Int} {m' : Meta} (hm : NodupKeys m') (h : AcctOk A r0 (reviseRec d m' rec0)) :
    J.contains (.obj r0.md) (.obj (kvsOf m')) = true := by
  obtain ⟨_, hcur⟩ := h.current
  have hc2 : Eqv (.obj r0.md) (metaJ (Meta.merge (histCurrent rec0.metaHist) m')) := hcur
  obtain ⟨ha, _, e⟩ := eqv_unpack hc2
  apply contains_of_concat_eq (mobj_kvsOf hm)
  intro k
  have e1 := e k
  have e2 := lookup_kvsOf_merge (histCurrent rec0.metaHist) m' hm k
  rw [lookup_concatKvs] at e2 ⊢
  rw [e1, e2]
  cases J.lookup k (kvsOf m') <;> rfl

/-- rows the `update` does not select keep their relation -/
theorem acctOkX_untouched {am : List (String × Meta)} {d : Int} (A : ADB) (hs : Sane A) (p : AAcct → Bool) (u : AAcct → AAcct) (hu : ∀ r, (u r).seq = r.seq)
    (r : AAcct) (hr : r ∈ A.accounts) (hp : p r = false) (rec : AcctRec) (h : AcctOkX am d A r rec) :
    AcctOkX am d (aUpdateAccounts A p u) r rec := by
  apply acctOkX_congr _ h
  have := aUpdateAccounts_hist A p u hu hs r hr
  simpa [hp] using this

/-- `delete_account_metadata` vs. the replay appending the metadata without the key -/
theorem acctOk_delete (A : ADB) (hs : Sane A) (p : AAcct → Bool) (key : String) (dv : Val) (d : Int) (r0 : AAcct) (hr0 : r0 ∈ A.accounts)
    (hp0 : p r0 = true) (rec0 : AcctRec) (h : AcctOk A r0 rec0) :
    AcctOk (aUpdateAccounts A p (fun r => { r with md := J.removeKey key r.md, upd := dv })) { r0 with md := J.removeKey key r0.md, upd := dv }
      { rec0 with metaHist := (d, Meta.erase (histCurrent rec0.metaHist) key) :: rec0.metaHist } := by
  obtain ⟨hne, hcur⟩ := h.current
  obtain ⟨ha, hp, e⟩ := eqv_unpack hcur
  obtain ⟨k, vals, h1, h2, h3⟩ := h
  have hh := aUpdateAccounts_hist A p (fun r => { r with md := J.removeKey key r.md, upd := dv }) (fun _ => rfl) hs r0 hr0
  simp only [hp0, if_true] at hh
  refine ⟨k + 1, vals ++ [J.removeKey key r0.md], ?_, by simp, ?_⟩
  · show HistOk (histOf _ r0.seq) _ _
    rw [hh, nextRevP_ok h1]; exact .snoc _ h1
  · simp only [List.reverse_cons, List.map_append, List.map_cons, List.map_nil]
    apply h3.both
    rw [metaJ_eq]
    exact eqv_obj (mobj_removeKey ha key) (mobj_kvsOf (nodup_erase hp key)) (KEq_erase e key)

/-- a created account: revision 1 carries the metadata it was created with; the replay has `{}` (creation) and then the merged map -/
theorem acctOk_create (A : ADB) (hs : Sane A) (l a : String) (m' : Meta) (hm : NodupKeys m') (dv : Val) (d d0 : Int)
    (hno : A.accounts.any (acctKey l a) = false) :
    let new : AAcct := { seq := A.acctSeq, ledger := l, address := a, ins := dv, upd := dv, md := kvsOf m' }
    (aUpsertAccount A l a (kvsOf m') dv).accounts = A.accounts ++ [new] ∧
    (∀ r ∈ A.accounts, histOf (aUpsertAccount A l a (kvsOf m') dv).acctMeta r.seq = histOf A.acctMeta r.seq) ∧
    AcctOk (aUpsertAccount A l a (kvsOf m') dv) new (reviseRec d m' { address := a, firstSeen := d0, metaHist := [(d0, [])] }) ∧
    (m' = [] → AcctOk (aUpsertAccount A l a (kvsOf m') dv) new { address := a, firstSeen := d0, metaHist := [(d0, [])] }) := by
  intro new
  have hA : aUpsertAccount A l a (kvsOf m') dv =
      aAcctInsHist { A with accounts := A.accounts ++ [new], acctSeq := A.acctSeq + 1 } new := by
    simp [aUpsertAccount, hno, new]
  have hmeta : (aUpsertAccount A l a (kvsOf m') dv).acctMeta =
      A.acctMeta ++ [{ seq := A.acctMetaSeq, ledger := l, base := A.acctSeq, md := kvsOf m', revision := .int 1, date := dv }] := by
    rw [hA]; rfl
  have hnew : histOf (aUpsertAccount A l a (kvsOf m') dv).acctMeta new.seq = [(.int 1, kvsOf m')] := by
    rw [hmeta, histOf_append_one]
    have hnone : histOf A.acctMeta A.acctSeq = [] := by
      unfold histOf
      rw [List.filter_eq_nil_iff.mpr (fun x hx => by have := hs.am_lt x hx; simp; omega)]
      rfl
    simp [new, hnone]
  have hmo : MObj (kvsOf m') := mobj_kvsOf hm
  refine ⟨by rw [hA]; rfl, ?_, ?_, ?_⟩
  · intro r hr
    rw [hmeta]
    apply histOf_append_other
    intro x hx
    simp only [List.mem_singleton] at hx
    subst hx
    have := hs.acct_lt r hr
    simp; omega
  · refine ⟨2, [kvsOf m'], by rw [hnew]; exact .one _, rfl, ?_⟩
    have hmerged : MObj (kvsOf (Meta.merge [] m')) := mobj_kvsOf (nodup_merge (by simp) m')
    have e0 : Eqv (J.obj (kvsOf m')) (metaJ (Meta.merge [] m')) := by
      rw [metaJ_eq]
      refine eqv_obj hmo hmerged ?_
      intro k
      rw [lookup_kvsOf_merge [] m' hm k, lookup_concatKvs]
      cases J.lookup k (kvsOf m') <;> rfl
    simp only [reviseRec, histCurrent, List.reverse_cons, List.reverse_nil, List.nil_append, List.map_cons, List.map_nil, List.singleton_append]
    by_cases hq : metaJ (Meta.merge [] m') = J.obj []
    · left
      have e1 : Eqv (J.obj (kvsOf m')) (metaJ ([] : Meta)) := by
        have : metaJ ([] : Meta) = J.obj [] := rfl
        rw [this, ← hq]; exact e0
      have := (Sim.base e1).right (by rfl) (e0.symm.trans e1)
      simpa using this
    · right
      exact ⟨metaJ (Meta.merge [] m'), [], rfl, hq, e0.refl_right, Sim.base e0⟩
  · intro hm0
    subst hm0
    refine ⟨2, [kvsOf []], by rw [hnew]; exact .one _, rfl, .inl ?_⟩
    exact Sim.base (eqv_obj mobj_nil mobj_nil (KEq.refl _))

-- ---------------------------------------------------------------- the whole table, one `upsert_account` / `delete_account_metadata`

theorem acctsRel_exists {am : List (String × Meta)} {d : Int} {A : ADB} {l : String} {accts : List AcctRec} (h : AcctsRel am d A l accts) (a : String) :
    A.accounts.any (acctKey l a) = hasAcct accts a := by
  rw [Bool.eq_iff_iff, List.any_eq_true, hasAcct, List.any_eq_true]
  constructor
  · rintro ⟨r, hr, hk⟩
    simp only [acctKey, Bool.and_eq_true, beq_iff_eq] at hk
    obtain ⟨rec, hrec, e⟩ := h.bwd r hr hk.1
    exact ⟨rec, hrec, by simp [e, hk.2]⟩
  · rintro ⟨rec, hrec, hk⟩
    obtain ⟨r, hr, e1, e2, _⟩ := h.fwd rec hrec
    simp only [beq_iff_eq] at hk
    exact ⟨r, hr, by simp [acctKey, e1, e2, hk]⟩

theorem contains_nil (a : Kvs) : J.contains (.obj a) (.obj []) = true := by simp [J.contains, J.containsKvs]

theorem reviseAcct_eq (as : List AcctRec) (a : String) (d : Int) (m : Meta) :
    reviseAcct as a d (fun cur => Meta.merge cur m) = as.map (fun rec => if rec.address == a then reviseRec d m rec else rec) := rfl

/-- the script metadata `insert_posting` hands to `upsert_account` for address `a` -/
def amMeta (am : List (String × Meta)) (a : String) : Meta :=
  match am.find? (fun km => km.1 == a) with
  | some km => km.2
  | none => []

theorem amKvs_eq (am : List (String × Meta)) (a : String) : amKvs am a = kvsOf (amMeta am a) := by
  unfold amKvs amMeta
  cases am.find? (fun km => km.1 == a) <;> rfl

def WFam (am : List (String × Meta)) : Prop := ∀ km ∈ am, NodupKeys km.2

theorem amMeta_nodup {am : List (String × Meta)} (h : WFam am) (a : String) : NodupKeys (amMeta am a) := by
  unfold amMeta
  cases hf : am.find? (fun km => km.1 == a) with
  | none => simp [NodupKeys]
  | some km => exact h km (List.mem_of_find?_eq_some hf)

/-- a posting's `upsert_account(address, script metadata of that address)` vs. the replay touching the address -/
theorem acctsRel_touch {am : List (String × Meta)} {d : Int} {A : ADB} {l : String} {accts : List AcctRec} (hs : Sane A) (hw : WFam am)
    (h : AcctsRel am d A l accts) (a : String) (dv : Val) :
    AcctsRel am d (aUpsertAccount A l a (kvsOf (amMeta am a)) dv) l (touch accts a d) := by
  have hex := acctsRel_exists h a
  by_cases hany : A.accounts.any (acctKey l a) = true
  · have hhas : hasAcct accts a = true := by rw [← hex]; exact hany
    rw [aUpsertAccount_exists A l a _ dv hany]
    simp only [touch, hhas, if_true]
    refine acctsRel_step h (fun r => if upsP l a (kvsOf (amMeta am a)) r then upsU (kvsOf (amMeta am a)) dv r else r) [] id []
      (by simp) (fun r => by by_cases hp : upsP l a (kvsOf (amMeta am a)) r = true <;> simp [hp, upsU]) (by simp) (fun _ => rfl) rfl
      (by simp) (by simp) (by simp) (by simp) ?_
    intro rec hrec r hr hl hadr hx
    simp only [id]
    by_cases ha : rec.address = a
    · have hk : acctKey l a r = true := by simp [acctKey, hl, hadr, ha]
      cases hf : am.find? (fun km => km.1 == a) with
      | none =>
        have hm0 : amMeta am a = [] := by simp [amMeta, hf]
        have hp : upsP l a (kvsOf (amMeta am a)) r = false := by simp [upsP, hm0, kvsOf, contains_nil]
        simp only [hp, Bool.false_eq_true, if_false]
        exact acctOkX_untouched A hs (upsP l a (kvsOf (amMeta am a))) (upsU (kvsOf (amMeta am a)) dv) (fun _ => rfl) r hr hp rec hx
      | some km =>
        have hm0 : amMeta am a = km.2 := by simp [amMeta, hf]
        have hkm : NodupKeys km.2 := hw km (List.mem_of_find?_eq_some hf)
        rcases hx with hx | ⟨km', f', n', hx⟩
        · right
          refine ⟨km, by rw [ha]; exact hf, hkm, ?_⟩
          rw [hm0]
          exact acctOk_upsert A hs l a km.2 hkm dv d r hr hk rec hx
        · have : km' = km := by rw [ha, hf] at f'; cases f'; rfl
          subst this
          have hc := ahead_contains n' hx
          have hp : upsP l a (kvsOf (amMeta am a)) r = false := by simp [upsP, hm0, hc]
          simp only [hp, Bool.false_eq_true, if_false]
          exact acctOkX_untouched A hs (upsP l a (kvsOf (amMeta am a))) (upsU (kvsOf (amMeta am a)) dv) (fun _ => rfl) r hr hp rec (.inr ⟨km', f', n', hx⟩)
    · have hp : upsP l a (kvsOf (amMeta am a)) r = false := by
        have : ¬ r.address = a := fun e => ha (hadr.symm.trans e)
        simp [upsP, acctKey, this]
      simp only [hp, Bool.false_eq_true, if_false]
      exact acctOkX_untouched A hs (upsP l a (kvsOf (amMeta am a))) (upsU (kvsOf (amMeta am a)) dv) (fun _ => rfl) r hr hp rec hx
  · have hany' : A.accounts.any (acctKey l a) = false := by simpa using hany
    have hhas : hasAcct accts a = false := by rw [← hex]; exact hany'
    obtain ⟨c1, c2, c3, c4⟩ := acctOk_create A hs l a (amMeta am a) (amMeta_nodup hw a) dv d d hany'
    simp only [touch, hhas, Bool.false_eq_true, if_false]
    have hnotin : a ∉ accts.map (·.address) := fun hin => by
      have := (hasAcct_iff accts a).mpr hin; rw [hhas] at this; cases this
    refine acctsRel_step h id [{ seq := A.acctSeq, ledger := l, address := a, ins := dv, upd := dv, md := kvsOf (amMeta am a) }] id
      [{ address := a, firstSeen := d, metaHist := [(d, [])] }] (by rw [c1]; simp) (fun _ => ⟨rfl, rfl⟩) (by simp) (fun _ => rfl) (by simp) (by simp)
      (by intro rec hrec; simp only [List.mem_singleton] at hrec; subst hrec; exact hnotin) ?_ ?_ ?_
    · intro rec hrec
      simp only [List.mem_singleton] at hrec
      subst hrec
      refine ⟨_, List.mem_singleton.mpr rfl, rfl, rfl, ?_⟩
      cases hf : am.find? (fun km => km.1 == a) with
      | none =>
        have hm0 : amMeta am a = [] := by simp [amMeta, hf]
        exact .inl (c4 hm0)
      | some km =>
        have hm0 : amMeta am a = km.2 := by simp [amMeta, hf]
        exact .inr ⟨km, hf, hw km (List.mem_of_find?_eq_some hf), by rw [← hm0]; exact c3⟩
    · intro r hr _
      simp only [List.mem_singleton] at hr
      subst hr
      exact ⟨_, List.mem_singleton.mpr rfl, rfl⟩
    · intro rec _ r hr _ _ hx
      exact acctOkX_congr (c2 r hr) hx

theorem acctOkX_tail {a : String} {m' : Meta} {rest : List (String × Meta)} {d : Int} {A : ADB} {r : AAcct} {rec : AcctRec} (hne : ¬ rec.address = a)
    (h : AcctOkX ((a, m') :: rest) d A r rec) : AcctOkX rest d A r rec := by
  rcases h with h | ⟨km, f, n, h⟩
  · exact .inl h
  · have : (a == rec.address) = false := by simpa using (fun e : a = rec.address => hne e.symm)
    simp only [List.find?_cons, this] at f
    exact .inr ⟨km, f, n, h⟩

/-- `upsert_account(a, m')` for the first remaining entry `(a, m')` of the script metadata (or of a SET_METADATA entry) vs. the replay's
`setAcctMeta` -/
theorem acctsRel_set {rest : List (String × Meta)} {d : Int} {A : ADB} {l : String} {accts : List AcctRec} (hs : Sane A)
    (a : String) (m' : Meta) (hm : NodupKeys m') (h : AcctsRel ((a, m') :: rest) d A l accts) (dv : Val) :
    AcctsRel rest d (aUpsertAccount A l a (kvsOf m') dv) l (setAcctMeta accts a d m') := by
  have hex := acctsRel_exists h a
  unfold setAcctMeta
  rw [reviseAcct_eq]
  by_cases hany : A.accounts.any (acctKey l a) = true
  · have hhas : hasAcct accts a = true := by rw [← hex]; exact hany
    rw [aUpsertAccount_exists A l a _ dv hany]
    simp only [touch, hhas, if_true]
    refine acctsRel_step h (fun r => if upsP l a (kvsOf m') r then upsU (kvsOf m') dv r else r) []
      (fun rec => if rec.address == a then reviseRec d m' rec else rec) []
      (by simp) (fun r => by by_cases hp : upsP l a (kvsOf m') r = true <;> simp [hp, upsU]) (by simp)
      (fun rec => by by_cases hr : (rec.address == a) = true <;> simp [hr, reviseRec]) rfl
      (by simp) (by simp) (by simp) (by simp) ?_
    intro rec hrec r hr hl hadr hx
    by_cases ha : rec.address = a
    · have hk : acctKey l a r = true := by simp [acctKey, hl, hadr, ha]
      simp only [ha, beq_self_eq_true, if_true]
      left
      rcases hx with hx | ⟨km', f', n', hx⟩
      · exact acctOk_upsert A hs l a m' hm dv d r hr hk rec hx
      · have : km' = (a, m') := by simp [ha] at f'; exact f'.symm
        subst this
        have hc := ahead_contains n' hx
        have hp : upsP l a (kvsOf m') r = false := by simp [upsP, hc]
        simp only [hp, Bool.false_eq_true, if_false]
        apply acctOk_congr _ hx
        have := aUpdateAccounts_hist A (upsP l a (kvsOf m')) (upsU (kvsOf m') dv) (fun _ => rfl) hs r hr
        simpa [hp] using this
    · have hp : upsP l a (kvsOf m') r = false := by
        have : ¬ r.address = a := fun e => ha (hadr.symm.trans e)
        simp [upsP, acctKey, this]
      simp only [hp, Bool.false_eq_true, if_false, beq_iff_eq, ha]
      exact acctOkX_untouched A hs (upsP l a (kvsOf m')) (upsU (kvsOf m') dv) (fun _ => rfl) r hr hp rec (acctOkX_tail ha hx)
  · have hany' : A.accounts.any (acctKey l a) = false := by simpa using hany
    have hhas : hasAcct accts a = false := by rw [← hex]; exact hany'
    obtain ⟨c1, c2, c3, _⟩ := acctOk_create A hs l a m' hm dv d d hany'
    simp only [touch, hhas, Bool.false_eq_true, if_false, List.map_append, List.map_cons, List.map_nil, beq_self_eq_true, if_true]
    have hnotin : a ∉ accts.map (·.address) := fun hin => by
      have := (hasAcct_iff accts a).mpr hin; rw [hhas] at this; cases this
    refine acctsRel_step h id [{ seq := A.acctSeq, ledger := l, address := a, ins := dv, upd := dv, md := kvsOf m' }]
      (fun rec => if rec.address == a then reviseRec d m' rec else rec)
      [reviseRec d m' { address := a, firstSeen := d, metaHist := [(d, [])] }] (by rw [c1]; simp) (fun _ => ⟨rfl, rfl⟩) rfl
      (fun rec => by by_cases hr : (rec.address == a) = true <;> simp [hr, reviseRec]) (by simp) (by simp)
      (by intro rec hrec; simp only [List.mem_singleton] at hrec; subst hrec; exact hnotin) ?_ ?_ ?_
    · intro rec hrec
      simp only [List.mem_singleton] at hrec
      subst hrec
      exact ⟨_, List.mem_singleton.mpr rfl, rfl, rfl, .inl c3⟩
    · intro r hr _
      simp only [List.mem_singleton] at hr
      subst hr
      exact ⟨_, List.mem_singleton.mpr rfl, rfl⟩
    · intro rec hrec r hr _ _ hx
      have ha : ¬ rec.address = a := fun e => hnotin (e ▸ List.mem_map.mpr ⟨rec, hrec, rfl⟩)
      simp only [id, beq_iff_eq, ha, if_false]
      exact acctOkX_congr (c2 r hr) (acctOkX_tail ha hx)

/-- `delete_account_metadata` vs. the replay's `reviseAcct … erase` -/
theorem acctsRel_del {d : Int} {A : ADB} {l : String} {accts : List AcctRec} (hs : Sane A) (a key : String) (h : AcctsRel [] d A l accts) (dv : Val) :
    AcctsRel [] d (aDeleteAccountMetadata A l a key dv) l (reviseAcct accts a d (fun cur => Meta.erase cur key)) := by
  unfold aDeleteAccountMetadata reviseAcct
  refine acctsRel_step h (fun r => if (r.address == a && r.ledger == l) then { r with md := J.removeKey key r.md, upd := dv } else r) []
    (fun r => if r.address == a then { r with metaHist := (d, Meta.erase (histCurrent r.metaHist) key) :: r.metaHist } else r) []
    (by simp) (fun r => by by_cases hp : (r.address == a && r.ledger == l) = true <;> simp [hp]) (by simp)
    (fun rec => by by_cases hr : (rec.address == a) = true <;> simp [hr]) rfl (by simp) (by simp) (by simp) (by simp) ?_
  intro rec hrec r hr hl hadr hx
  rcases hx with hx | ⟨km, f, _⟩
  · by_cases ha : rec.address = a
    · have hp : (r.address == a && r.ledger == l) = true := by simp [hl, hadr, ha]
      simp only [hp, if_true, ha, beq_self_eq_true]
      left
      have := acctOk_delete A hs (fun r => r.address == a && r.ledger == l) key dv d r hr hp rec hx
      simpa [ha] using this
    · have hp : (r.address == a && r.ledger == l) = false := by
        have : ¬ r.address = a := fun e => ha (hadr.symm.trans e)
        simp [this]
      simp only [hp, Bool.false_eq_true, if_false, beq_iff_eq, ha]
      exact acctOkX_untouched A hs _ (fun r => { r with md := J.removeKey key r.md, upd := dv }) (fun _ => rfl) r hr hp rec (.inl hx)
  · simp at f

/-- an account operation of ledger `l` seen from another ledger -/
theorem acctsRel_other_update {d : Int} {A : ADB} {l l' : String} {accts : List AcctRec} (hs : Sane A) (hne : l' ≠ l) (p : AAcct → Bool)
    (u : AAcct → AAcct) (hp : ∀ r, p r = true → r.ledger = l) (hu : ∀ r, (u r).seq = r.seq ∧ (u r).ledger = r.ledger ∧ (u r).address = r.address)
    (h : AcctsRel [] d A l' accts) : AcctsRel [] d (aUpdateAccounts A p u) l' accts := by
  refine acctsRel_step h (fun r => if p r then u r else r) [] id []
    (by simp) (fun r => by by_cases hpr : p r = true <;> simp [hpr, hu r]) (by simp) (fun _ => rfl) rfl (by simp) (by simp) (by simp) (by simp) ?_
  intro rec _ r hr hl _ hx
  have hpr : p r = false := by
    cases hpp : p r with
    | false => rfl
    | true => exact absurd ((hp r hpp).symm.trans hl) (fun e => hne e.symm)
  simp only [hpr, Bool.false_eq_true, if_false, id]
  exact acctOkX_untouched A hs p u (fun r => (hu r).1) r hr hpr rec hx

theorem acctsRel_other_upsert {d : Int} {A : ADB} {l l' : String} {accts : List AcctRec} (hs : Sane A) (hne : l' ≠ l) (a : String) (m : Kvs) (dv : Val)
    (h : AcctsRel [] d A l' accts) : AcctsRel [] d (aUpsertAccount A l a m dv) l' accts := by
  by_cases hany : A.accounts.any (acctKey l a) = true
  · rw [aUpsertAccount_exists A l a m dv hany]
    exact acctsRel_other_update hs hne _ _ (fun r hr => by simp [upsP, acctKey] at hr; exact hr.1.1) (fun r => ⟨rfl, rfl, rfl⟩) h
  · have hany' : A.accounts.any (acctKey l a) = false := by simpa using hany
    have hA : aUpsertAccount A l a m dv =
        aAcctInsHist { A with accounts := A.accounts ++ [{ seq := A.acctSeq, ledger := l, address := a, ins := dv, upd := dv, md := m }], acctSeq := A.acctSeq + 1 }
          { seq := A.acctSeq, ledger := l, address := a, ins := dv, upd := dv, md := m } := by
      simp [aUpsertAccount, hany']
    have hl2 : ¬ l = l' := fun e => hne e.symm
    refine acctsRel_step h id [{ seq := A.acctSeq, ledger := l, address := a, ins := dv, upd := dv, md := m }] id []
      (by rw [hA]; simp [aAcctInsHist]) (fun _ => ⟨rfl, rfl⟩) (by simp) (fun _ => rfl) (by simp [hl2]) (by simp) (by simp) (by simp)
      (by intro r hr hl; simp only [List.mem_singleton] at hr; subst hr; exact absurd hl hl2) ?_
    intro rec _ r hr _ _ hx
    apply acctOkX_congr _ hx
    rw [hA]
    simp only [aAcctInsHist]
    apply histOf_append_other
    intro x hx
    simp only [List.mem_singleton] at hx
    subst hx
    have := hs.acct_lt r hr
    simp; omega

-- ---------------------------------------------------------------- postings, transactions, log entries

@[simp] theorem aInsertMove_acctMeta (A : ADB) (txSeq : Val) (l : String) (ins : Val) (eff : Int) (a x : String) (amt : Int) (src ex : Bool) (acc : Nat) :
    (aInsertMove A txSeq l ins eff a x amt src ex acc).acctMeta = A.acctMeta := rfl

theorem aInsertPosting_accts (A : ADB) (txSeq : Val) (l : String) (ins : Val) (eff : Int) (p : Posting) (am : List (String × Meta)) :
    (aInsertPosting A txSeq l ins eff p am).accounts =
      (aUpsertAccount (aUpsertAccount A l p.source (kvsOf (amMeta am p.source)) ins) l p.destination (kvsOf (amMeta am p.destination)) ins).accounts ∧
    (aInsertPosting A txSeq l ins eff p am).acctMeta =
      (aUpsertAccount (aUpsertAccount A l p.source (kvsOf (amMeta am p.source)) ins) l p.destination (kvsOf (amMeta am p.destination)) ins).acctMeta := by
  simp only [aInsertPosting, aInsertMove_accounts, aInsertMove_acctMeta, amKvs_eq]
  exact ⟨trivial, trivial⟩

theorem acctsRel_postings {am : List (String × Meta)} {d : Int} {l : String} (hw : WFam am) (ps : List Posting) (A : ADB) (hs : Sane A)
    (txSeq : Val) (ins : Val) (eff : Int) (accts : List AcctRec) (h : AcctsRel am d A l accts) :
    AcctsRel am d (ps.foldl (fun A p => aInsertPosting A txSeq l ins eff p am) A) l (touchAll accts (postingAccounts ps) d) := by
  induction ps generalizing A accts with
  | nil => exact h
  | cons p ps ih =>
    have s1 := sane_upsertAccount A l p.source (kvsOf (amMeta am p.source)) ins hs
    have h1 := acctsRel_touch hs hw h p.source ins
    have h2 := acctsRel_touch s1 hw h1 p.destination ins
    obtain ⟨e1, e2⟩ := aInsertPosting_accts A txSeq l ins eff p am
    have h3 : AcctsRel am d (aInsertPosting A txSeq l ins eff p am) l (touch (touch accts p.source d) p.destination d) :=
      acctsRel_congr e1 e2 h2
    have := ih _ (sane_frame_insertPosting A txSeq l ins eff p am hs).1 _ h3
    simpa [postingAccounts, touchAll, List.foldl_append] using this

theorem acctsRel_postings_other {d : Int} {l l' : String} (hne : l' ≠ l) (am : List (String × Meta)) (ps : List Posting) (A : ADB) (hs : Sane A)
    (txSeq : Val) (ins : Val) (eff : Int) (accts : List AcctRec) (h : AcctsRel [] d A l' accts) :
    AcctsRel [] d (ps.foldl (fun A p => aInsertPosting A txSeq l ins eff p am) A) l' accts := by
  induction ps generalizing A with
  | nil => exact h
  | cons p ps ih =>
    have s1 := sane_upsertAccount A l p.source (kvsOf (amMeta am p.source)) ins hs
    have h1 := acctsRel_other_upsert hs hne p.source (kvsOf (amMeta am p.source)) ins h
    have h2 := acctsRel_other_upsert s1 hne p.destination (kvsOf (amMeta am p.destination)) ins h1
    obtain ⟨e1, e2⟩ := aInsertPosting_accts A txSeq l ins eff p am
    exact ih _ (sane_frame_insertPosting A txSeq l ins eff p am hs).1 (acctsRel_congr e1 e2 h2)

theorem aInsertTransaction_accts (A : ADB) (l : String) (tx : Tx) (dv : Val) (am : List (String × Meta)) :
    (aInsertTransaction A l tx dv am).accounts =
      (tx.postings.foldl (fun B p => aInsertPosting B (.int A.txSeq) l dv tx.timestamp p am) (aTxInserted A l tx)).accounts ∧
    (aInsertTransaction A l tx dv am).acctMeta =
      (tx.postings.foldl (fun B p => aInsertPosting B (.int A.txSeq) l dv tx.timestamp p am) (aTxInserted A l tx)).acctMeta := ⟨rfl, rfl⟩

theorem acctsRel_insertTransaction {am : List (String × Meta)} {d : Int} {l : String} (hw : WFam am) (A : ADB) (hs : Sane A) (tx : Tx) (dv : Val)
    (accts : List AcctRec) (h : AcctsRel am d A l accts) :
    AcctsRel am d (aInsertTransaction A l tx dv am) l (touchAll accts (postingAccounts tx.postings) d) := by
  obtain ⟨e1, e2⟩ := aInsertTransaction_accts A l tx dv am
  refine acctsRel_congr e1 e2 ?_
  exact acctsRel_postings hw tx.postings (aTxInserted A l tx) (sane_txInserted A l tx hs) _ dv tx.timestamp accts
    (acctsRel_congr (A := A) rfl rfl h)

theorem acctsRel_insertTransaction_other {d : Int} {l l' : String} (hne : l' ≠ l) (am : List (String × Meta)) (A : ADB) (hs : Sane A) (tx : Tx) (dv : Val)
    (accts : List AcctRec) (h : AcctsRel [] d A l' accts) : AcctsRel [] d (aInsertTransaction A l tx dv am) l' accts := by
  obtain ⟨e1, e2⟩ := aInsertTransaction_accts A l tx dv am
  refine acctsRel_congr e1 e2 ?_
  exact acctsRel_postings_other hne am tx.postings (aTxInserted A l tx) (sane_txInserted A l tx hs) _ dv tx.timestamp accts
    (acctsRel_congr (A := A) rfl rfl h)

theorem acctsRel_accountMeta {d : Int} {l : String} (am : List (String × Meta)) (hw : WFam am) (A : ADB) (hs : Sane A) (dv : Val)
    (accts : List AcctRec) (h : AcctsRel am d A l accts) :
    AcctsRel [] d (am.foldl (fun A km => aUpsertAccount A l km.1 (kvsOf km.2) dv) A) l (applyAccountMeta accts am d) := by
  induction am generalizing A accts with
  | nil => exact h
  | cons km rest ih =>
    obtain ⟨a, m'⟩ := km
    have hm : NodupKeys m' := hw (a, m') (List.mem_cons_self ..)
    have h1 := acctsRel_set hs a m' hm h dv
    exact ih (fun km hkm => hw km (List.mem_cons_of_mem _ hkm)) _ (sane_upsertAccount A l a (kvsOf m') dv hs) _ h1

theorem acctsRel_accountMeta_other {d : Int} {l l' : String} (hne : l' ≠ l) (am : List (String × Meta)) (A : ADB) (hs : Sane A) (dv : Val)
    (accts : List AcctRec) (h : AcctsRel [] d A l' accts) :
    AcctsRel [] d (am.foldl (fun A km => aUpsertAccount A l km.1 (kvsOf km.2) dv) A) l' accts := by
  induction am generalizing A with
  | nil => exact h
  | cons km rest ih =>
    exact ih _ (sane_upsertAccount A l km.1 (kvsOf km.2) dv hs) (acctsRel_other_upsert hs hne km.1 (kvsOf km.2) dv h)

/-- **every log entry keeps the accounts table related to the replayed accounts, for every ledger** -/
theorem acctsRel_log (A : ADB) (v : View) (log : CLog) (hs : Sane A) (hw : WFLog log) (h : ∀ l, AcctsRel [] 0 A l (v l).accts) :
    ∀ l', AcctsRel [] 0 (aStep A log) l' (step v log l').accts := by
  intro l'
  have hs' := sane_logged A log hs
  have h' : ∀ l, AcctsRel [] 0 (aLogged A log) l (v l).accts := fun l => acctsRel_congr (A := A) (A' := aLogged A log) rfl rfl (h l)
  unfold aStep
  generalize aLogged A log = B at hs' h'
  obtain ⟨l, id, d, ik, payload⟩ := log
  simp only [step]
  by_cases hl : l' = l
  · subst hl
    simp only [if_true]
    cases payload with
    | newTx tx am =>
      have hwam : WFam am := hw.2
      have h1 := acctsRel_insertTransaction hwam B hs' tx (.ts d) _ (acctsRel_weaken (am := am) (d' := d) (h' l'))
      have h2 := acctsRel_accountMeta am hwam _ (sane_frame_insertTransaction B l' tx (.ts d) am hs').1 (.ts tx.timestamp) _ h1
      have h3 : AcctsRel [] 0 _ l' _ := acctsRel_weaken h2
      simpa [aHandle, stepLedger, applyPayload, insertTx] using h3
    | revert rid tx =>
      have h1 := acctsRel_insertTransaction (am := []) (by intro km hkm; cases hkm) B hs' tx (.ts d) _ (acctsRel_weaken (am := []) (d' := d) (h' l'))
      have h2 : AcctsRel [] 0 _ l' _ := acctsRel_weaken h1
      have h3 := acctsRel_congr (A' := aRevertTransaction (aInsertTransaction B l' tx (.ts d) []) l' rid (.ts tx.timestamp))
        (by simp [aRevertTransaction]) (by simp [aRevertTransaction]) h2
      simpa [aHandle, stepLedger, applyPayload, insertTx] using h3
    | setMeta t m =>
      cases t with
      | account a =>
        have h1 := acctsRel_set (rest := []) hs' a m hw (acctsRel_weaken (d' := d) (h' l')) (.ts d)
        have h2 : AcctsRel [] 0 _ l' _ := acctsRel_weaken h1
        simpa [aHandle, stepLedger, applyPayload] using h2
      | transaction tid =>
        have h3 := acctsRel_congr (A' := aUpdateTransactionMetadata B l' tid (kvsOf m) (.ts d))
          (by simp [aUpdateTransactionMetadata]) (by simp [aUpdateTransactionMetadata]) (h' l')
        simpa [aHandle, stepLedger, applyPayload] using h3
    | delMeta t k =>
      cases t with
      | account a =>
        have h1 := acctsRel_del hs' a k (acctsRel_weaken (am := []) (d' := d) (h' l')) (.ts d)
        have h2 : AcctsRel [] 0 _ l' _ := acctsRel_weaken h1
        simpa [aHandle, stepLedger, applyPayload] using h2
      | transaction tid =>
        have h3 := acctsRel_congr (A' := aDeleteTransactionMetadata B l' tid k (.ts d))
          (by simp [aDeleteTransactionMetadata]) (by simp [aDeleteTransactionMetadata]) (h' l')
        simpa [aHandle, stepLedger, applyPayload] using h3
  · simp only [hl, if_false]
    cases payload with
    | newTx tx am =>
      have h1 := acctsRel_insertTransaction_other hl am B hs' tx (.ts d) _ (h' l')
      exact acctsRel_accountMeta_other hl am _ (sane_frame_insertTransaction B l tx (.ts d) am hs').1 (.ts tx.timestamp) _ h1
    | revert rid tx =>
      have h1 := acctsRel_insertTransaction_other hl [] B hs' tx (.ts d) _ (h' l')
      exact acctsRel_congr (A' := aRevertTransaction (aInsertTransaction B l tx (.ts d) []) l rid (.ts tx.timestamp))
        (by simp [aRevertTransaction]) (by simp [aRevertTransaction]) h1
    | setMeta t m =>
      cases t with
      | account a => exact acctsRel_other_upsert hs' hl a (kvsOf m) (.ts d) (h' l')
      | transaction tid =>
        exact acctsRel_congr (A' := aUpdateTransactionMetadata B l tid (kvsOf m) (.ts d))
          (by simp [aUpdateTransactionMetadata]) (by simp [aUpdateTransactionMetadata]) (h' l')
    | delMeta t k =>
      cases t with
      | account a =>
        exact acctsRel_other_update hs' hl _ _ (fun r hr => by simp at hr; exact hr.2) (fun r => ⟨rfl, rfl, rfl⟩) (h' l')
      | transaction tid =>
        exact acctsRel_congr (A' := aDeleteTransactionMetadata B l tid k (.ts d))
          (by simp [aDeleteTransactionMetadata]) (by simp [aDeleteTransactionMetadata]) (h' l')

end StoreSql
