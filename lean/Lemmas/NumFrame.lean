import Lemmas.NumResolve
/-! Frame lemmas: what the code emitted by each visitor does to the machine, in the vocabulary of `Spec`. -/
namespace Num
open VM

theorem exec_append (V : List BVal) (c1 c2 : Code) (m : Machine) :
    exec V (c1 ++ c2) m =
      (match exec V c1 m with | .ok m' => exec V c2 m' | .error e => .error e | .panic k => .panic k) := by
  induction c1 generalizing m with
  | nil => simp [exec]
  | cons i is ih =>
    simp only [List.cons_append, exec]
    cases step V i m with
    | ok m' => simpa using ih m'
    | error e => rfl
    | panic k => rfl

theorem exec_cons (V : List BVal) (i : Instr) (c : Code) (m : Machine) :
    exec V (i :: c) m = (match step V i m with | .ok m' => exec V c m' | .error e => .error e | .panic k => .panic k) := rfl

/-- the resource table of the state is a prefix of the final table `R` -/
def Sub (st : CState) (R : List Resource) : Prop := ∀ (a : Addr) (r : Resource), st.resources[a]? = some r → R[a]? = some r

theorem Sub.of_ext {st st' : CState} {R : List Resource} (h : Sub st' R) (he : Ext st st') : Sub st R :=
  fun a r hr => h a r (he.get hr)

/-- the resolved values are the values of the resources under the variable environment `env` -/
def Resolves (R : List Resource) (V : List BVal) (env : VEnv) : Prop :=
  ∀ (i : Nat) (r : Resource), R[i]? = some r →
    match r with
    | .const v => V[i]? = some v
    | .monetary a k => ∃ s, V[a]? = some (.asset s) ∧ V[i]? = some (.mon s k)
    | .var _ n => ∃ x, lookupVar env n = some x ∧ V[i]? = some (BVal.ofVal x)
    | .varMeta _ n _ _ => ∃ x, lookupVar env n = some x ∧ V[i]? = some (BVal.ofVal x)
    | .varBalance n _ _ => ∃ x, lookupVar env n = some x ∧ V[i]? = some (BVal.ofVal x)

structure Ctx (R : List Resource) (V : List BVal) (env : VEnv) : Prop where
  res : Resolves R V env
  typed : TypedVals R V

theorem Resolves.decl {R : List Resource} {V : List BVal} {env : VEnv} (h : Resolves R V env) {i : Nat} {r : Resource} {n : String}
    (hr : R[i]? = some r) (hn : declName r = some n) : ∃ x, lookupVar env n = some x ∧ V[i]? = some (BVal.ofVal x) := by
  have := h i r hr
  cases r with
  | const v => simp [declName] at hn
  | monetary a k => simp [declName] at hn
  | var t n' => simp only [declName, Option.some.injEq] at hn; subst hn; exact this
  | varMeta t n' a k => simp only [declName, Option.some.injEq] at hn; subst hn; exact this
  | varBalance n' a s => simp only [declName, Option.some.injEq] at hn; subst hn; exact this

/-- push one value -/
def VM.Machine.push (m : Machine) (v : BVal) : Machine := { m with stack := v :: m.stack }

theorem step_apush {V : List BVal} {a : Addr} {v : BVal} (h : V[a]? = some v) (m : Machine) :
    step V (.apush a) m = .ok (m.push v) := by
  simp [step, h, Machine.push]

def Expr.noPortion : Expr → Bool
  | .portion _ => false
  | .badPortion => false
  | .mon ae _ => ae.noPortion
  | .add l r => l.noPortion && r.noPortion
  | .sub l r => l.noPortion && r.noPortion
  | _ => true

/-- `ValueEquals` is equality on everything but portions and allotments -/
theorem valueEquals_eq {c v : BVal} (h : valueEquals c v = true) (hv : ∀ r, v ≠ .portion r) (hv' : ∀ r, v ≠ .allotment r) : c = v := by
  cases c <;> cases v <;> simp_all [valueEquals]

theorem ofVal_bty_acct {v : Val} (h : (BVal.ofVal v).bty = .account) : ∃ a, v = .acct a := by
  cases v <;> simp [BVal.ofVal, BVal.bty] at h; exact ⟨_, rfl⟩
theorem ofVal_bty_asset {v : Val} (h : (BVal.ofVal v).bty = .asset) : ∃ a, v = .asset a := by
  cases v <;> simp [BVal.ofVal, BVal.bty] at h; exact ⟨_, rfl⟩
theorem ofVal_bty_num {v : Val} (h : (BVal.ofVal v).bty = .number) : ∃ a, v = .num a := by
  cases v <;> simp [BVal.ofVal, BVal.bty] at h; exact ⟨_, rfl⟩
theorem ofVal_bty_mon {v : Val} (h : (BVal.ofVal v).bty = .monetary) : ∃ a n, v = .mon a n := by
  cases v <;> simp [BVal.ofVal, BVal.bty] at h; exact ⟨_, _, rfl⟩

theorem ofVal_inj {v w : Val} (h : BVal.ofVal v = BVal.ofVal w) : v = w := by
  cases v <;> cases w <;> simp_all [BVal.ofVal]

/-- what the code of an expression does: it pushes the value `evalExpr` gives (or fails the same way); and the
address `VisitExpr` returns holds the value of the leftmost operand -/
def ExprSpec (V : List BVal) (env : VEnv) (e : Expr) (o : ExprOut) : Prop :=
  (match evalExpr env e with
   | .ok v => (BVal.ofVal v).bty = o.ty ∧ ∀ m, exec V o.code m = .ok (m.push (BVal.ofVal v))
   | .error er => ∀ m, exec V o.code m = .error er) ∧
  (∀ a, o.addr = some a → ∃ v, evalExpr env (leftOperand e) = .ok v ∧ V[a]? = some (BVal.ofVal v))

theorem exec_apush {V : List BVal} {a : Addr} {v : BVal} (h : V[a]? = some v) (m : Machine) :
    exec V [.apush a] m = .ok (m.push v) := by
  simp [exec, step_apush h]

theorem lit_spec {R : List Resource} {V : List BVal} {env : VEnv} (cx : Ctx R V env) {st : CState} {ty : BTy} {o : ExprOut}
    (w : Val) (h : litOut st ty (BVal.ofVal w) = .ok o) (hsub : Sub o.st R) (hp : ∀ r, w ≠ .portion r)
    (hty : (BVal.ofVal w).bty = ty) {e : Expr} (he : evalExpr env e = .ok w) (hl : leftOperand e = e) : ExprSpec V env e o := by
  unfold litOut at h
  split at h
  · cases h
  · rename_i a st1 ha
    simp only [Except.ok.injEq] at h; subst h
    obtain ⟨_, c, hc, hveq⟩ := allocConst_ok ha
    have hcv : c = BVal.ofVal w := valueEquals_eq hveq
      (by intro r hr; cases w <;> simp [BVal.ofVal] at hr; exact hp _ (by rw [hr]))
      (by intro r hr; cases w <;> simp [BVal.ofVal] at hr)
    subst hcv
    have hV : V[a]? = some (BVal.ofVal w) := cx.res a _ (hsub a _ hc)
    refine ⟨?_, ?_⟩
    · rw [he]; exact ⟨hty, fun m => exec_apush hV m⟩
    · intro a' ha'
      simp only [Option.some.injEq] at ha'; subst ha'
      rw [hl]; exact ⟨w, he, hV⟩

theorem leftOperand_leaf {st : CState} {e : Expr} {o : ExprOut} (h : visitExpr st e = .ok o)
    (ht : o.ty ≠ .number ∧ o.ty ≠ .monetary) : leftOperand e = e := by
  cases e with
  | add l r =>
    simp only [visitExpr] at h
    split at h
    · cases h
    · split at h
      · split at h
        · cases h
        · split at h
          · cases h
          · simp only [Except.ok.injEq] at h; subst h; exact absurd rfl ht.1
      · split at h
        · split at h
          · cases h
          · split at h
            · cases h
            · simp only [Except.ok.injEq] at h; subst h; exact absurd rfl ht.2
        · cases h
  | sub l r =>
    simp only [visitExpr] at h
    split at h
    · cases h
    · split at h
      · split at h
        · cases h
        · split at h
          · cases h
          · simp only [Except.ok.injEq] at h; subst h; exact absurd rfl ht.1
      · split at h
        · split at h
          · cases h
          · split at h
            · cases h
            · simp only [Except.ok.injEq] at h; subst h; exact absurd rfl ht.2
        · cases h
  | _ => rfl

theorem leftOperand_of_asset {st : CState} {e : Expr} {o : ExprOut} (h : visitExpr st e = .ok o) (ht : o.ty = .asset) :
    leftOperand e = e := leftOperand_leaf h (by rw [ht]; exact ⟨by decide, by decide⟩)

theorem step_binop_num (V : List BVal) (m : Machine) (a b : Int) :
    step V .iadd ((m.push (.num a)).push (.num b)) = .ok (m.push (.num (a + b))) ∧
    step V .isub ((m.push (.num a)).push (.num b)) = .ok (m.push (.num (a - b))) := by
  simp [step, popNum, Machine.push]

theorem expr_ok {R : List Resource} {V : List BVal} {env : VEnv} (cx : Ctx R V env) {st : CState} {e : Expr} {o : ExprOut}
    (hv : visitExpr st e = .ok o) (hsub : Sub o.st R) (hidx : VarIdxOK st) (hnp : e.noPortion = true) : ExprSpec V env e o := by
  induction e generalizing st o with
  | acct a => exact lit_spec cx (.acct a) hv hsub (by intro r h; cases h) rfl rfl rfl
  | asset a => exact lit_spec cx (.asset a) hv hsub (by intro r h; cases h) rfl rfl rfl
  | num n => exact lit_spec cx (.num n) hv hsub (by intro r h; cases h) rfl rfl rfl
  | str s => exact lit_spec cx (.str s) hv hsub (by intro r h; cases h) rfl rfl rfl
  | portion r => simp [Expr.noPortion] at hnp
  | badPortion => simp [Expr.noPortion] at hnp
  | var n =>
    simp only [visitExpr] at hv
    split at hv
    · cases hv
    · rename_i idx hidx'
      split at hv
      · cases hv
      · rename_i r hr
        simp only [Except.ok.injEq] at hv; subst hv
        obtain ⟨r', h1, h2⟩ := hidx n idx hidx'
        rw [hr] at h1; cases h1
        obtain ⟨x, hx, hV⟩ := cx.res.decl (hsub idx r hr) h2
        obtain ⟨v', hv1, hv2⟩ := cx.typed.ty idx r (hsub idx r hr)
        rw [hV] at hv1; cases hv1
        refine ⟨?_, ?_⟩
        · simp only [evalExpr, hx]
          exact ⟨hv2, fun m => exec_apush hV m⟩
        · intro a' ha'
          simp only [Option.some.injEq] at ha'; subst ha'
          exact ⟨x, by simp [leftOperand, evalExpr, hx], hV⟩
  | mon ae k ih =>
    simp only [Expr.noPortion] at hnp
    simp only [visitExpr] at hv
    split at hv
    · cases hv
    · rename_i ao hao
      split at hv
      · cases hv
      · rename_i hty
        have hty' : ao.ty = .asset := Classical.not_not.mp hty
        split at hv
        · cases hv
        · rename_i aa haa
          -- the resource at the returned address is `monetary aa k`, in a state below `o.st`
          have key : ∃ m, o = ⟨.monetary, some m, [.apush m], o.st⟩ ∧ o.st.resources[m]? = some (.monetary aa k) ∧ Ext ao.st o.st := by
            split at hv
            · rename_i m hm
              simp only [Except.ok.injEq] at hv; subst hv
              exact ⟨m, rfl, findMonetary_some hm, Ext.refl _⟩
            · split at hv
              · cases hv
              · rename_i m st1 hm
                simp only [Except.ok.injEq] at hv; subst hv
                have hasset : HasTy ao.st.resources aa .asset := by
                  have := (visitExpr_ok hao).2 aa haa
                  rw [hty'] at this; exact this
                obtain ⟨he2, r', hr', hrr⟩ := allocRes_ok rfl (by intro x k' hx; cases hx; exact hasset) hm
                simp only at hrr; subst hrr
                exact ⟨m, rfl, hr', he2⟩
          obtain ⟨m, ho, hm, hext⟩ := key
          have ihae := ih (o := ao) hao (hsub.of_ext hext) hidx hnp
          obtain ⟨va, hva, hVa⟩ := ihae.2 aa haa
          rw [leftOperand_of_asset hao hty'] at hva
          have h1 := ihae.1
          rw [hva] at h1
          obtain ⟨s, rfl⟩ := ofVal_bty_asset (h1.1.trans hty')
          obtain ⟨s', hs1, hs2⟩ := cx.res m _ (hsub m _ hm)
          rw [hVa] at hs1
          simp only [BVal.ofVal, Option.some.injEq, BVal.asset.injEq] at hs1; subst hs1
          rw [ho]
          refine ⟨?_, ?_⟩
          · simp only [evalExpr, hva]
            exact ⟨rfl, fun m' => exec_apush hs2 m'⟩
          · intro a' ha'
            simp only [Option.some.injEq] at ha'; subst ha'
            exact ⟨.mon s k, by simp [leftOperand, evalExpr, hva], hs2⟩
  | add l r ihl ihr =>
    simp only [Expr.noPortion, Bool.and_eq_true] at hnp
    simp only [visitExpr] at hv
    split at hv
    · cases hv
    · rename_i lo hlo
      have hel := visitExpr_ext hlo
      split at hv
      · rename_i hnum
        split at hv
        · cases hv
        · rename_i ro hro
          split at hv
          · cases hv
          · rename_i hrt
            have hrt' : ro.ty = .number := Classical.not_not.mp hrt
            simp only [Except.ok.injEq] at hv; subst hv
            have her := visitExpr_ext hro
            have sl := ihl (o := lo) hlo (hsub.of_ext her) hidx hnp.1
            have sr := ihr (o := ro) hro hsub (hel.varIdxOK hidx) hnp.2
            refine ⟨?_, by intro a ha; cases ha⟩
            simp only [evalExpr]
            have h1 := sl.1
            cases hl : evalExpr env l with
            | error er =>
              rw [hl] at h1
              intro m; simp [exec_append, h1 m]
            | ok lv =>
              rw [hl] at h1
              obtain ⟨a, rfl⟩ := ofVal_bty_num (h1.1.trans hnum)
              have h2 := sr.1
              cases hr : evalExpr env r with
              | error er =>
                rw [hr] at h2
                intro m; simp [exec_append, h1.2 m, h2 _]
              | ok rv =>
                rw [hr] at h2
                obtain ⟨b, rfl⟩ := ofVal_bty_num (h2.1.trans hrt')
                refine ⟨rfl, ?_⟩
                intro m
                simp only [exec_append, h1.2 m, h2.2, BVal.ofVal, (step_binop_num V m a b).1, exec]
      · split at hv
        · rename_i hmon
          split at hv
          · cases hv
          · rename_i ro hro
            split at hv
            · cases hv
            · rename_i hrt
              have hrt' : ro.ty = .monetary := Classical.not_not.mp hrt
              simp only [Except.ok.injEq] at hv; subst hv
              have her := visitExpr_ext hro
              have sl := ihl (o := lo) hlo (hsub.of_ext her) hidx hnp.1
              have sr := ihr (o := ro) hro hsub (hel.varIdxOK hidx) hnp.2
              refine ⟨?_, ?_⟩
              · simp only [evalExpr]
                have h1 := sl.1
                cases hl : evalExpr env l with
                | error er =>
                  rw [hl] at h1
                  intro m; simp [exec_append, h1 m]
                | ok lv =>
                  rw [hl] at h1
                  obtain ⟨sa, a, rfl⟩ := ofVal_bty_mon (h1.1.trans hmon)
                  have h2 := sr.1
                  cases hr : evalExpr env r with
                  | error er =>
                    rw [hr] at h2
                    intro m; simp [exec_append, h1.2 m, h2 _]
                  | ok rv =>
                    rw [hr] at h2
                    obtain ⟨sb, b, rfl⟩ := ofVal_bty_mon (h2.1.trans hrt')
                    by_cases hs : sa = sb
                    · subst hs
                      simp only [if_true]
                      refine ⟨rfl, ?_⟩
                      intro m
                      simp [exec_append, h1.2 m, h2.2, exec, step, popMon, Machine.push, BVal.ofVal]
                    · simp only [hs, if_false]
                      intro m
                      simp [exec_append, h1.2 m, h2.2, exec, step, popMon, Machine.push, BVal.ofVal, hs]
              · intro a ha
                simp only [leftOperand]
                exact sl.2 a ha
        · cases hv
  | sub l r ihl ihr =>
    simp only [Expr.noPortion, Bool.and_eq_true] at hnp
    simp only [visitExpr] at hv
    split at hv
    · cases hv
    · rename_i lo hlo
      have hel := visitExpr_ext hlo
      split at hv
      · rename_i hnum
        split at hv
        · cases hv
        · rename_i ro hro
          split at hv
          · cases hv
          · rename_i hrt
            have hrt' : ro.ty = .number := Classical.not_not.mp hrt
            simp only [Except.ok.injEq] at hv; subst hv
            have her := visitExpr_ext hro
            have sl := ihl (o := lo) hlo (hsub.of_ext her) hidx hnp.1
            have sr := ihr (o := ro) hro hsub (hel.varIdxOK hidx) hnp.2
            refine ⟨?_, by intro a ha; cases ha⟩
            simp only [evalExpr]
            have h1 := sl.1
            cases hl : evalExpr env l with
            | error er =>
              rw [hl] at h1
              intro m; simp [exec_append, h1 m]
            | ok lv =>
              rw [hl] at h1
              obtain ⟨a, rfl⟩ := ofVal_bty_num (h1.1.trans hnum)
              have h2 := sr.1
              cases hr : evalExpr env r with
              | error er =>
                rw [hr] at h2
                intro m; simp [exec_append, h1.2 m, h2 _]
              | ok rv =>
                rw [hr] at h2
                obtain ⟨b, rfl⟩ := ofVal_bty_num (h2.1.trans hrt')
                refine ⟨rfl, ?_⟩
                intro m
                simp only [exec_append, h1.2 m, h2.2, BVal.ofVal, (step_binop_num V m a b).2, exec]
      · split at hv
        · rename_i hmon
          split at hv
          · cases hv
          · rename_i ro hro
            split at hv
            · cases hv
            · rename_i hrt
              have hrt' : ro.ty = .monetary := Classical.not_not.mp hrt
              simp only [Except.ok.injEq] at hv; subst hv
              have her := visitExpr_ext hro
              have sl := ihl (o := lo) hlo (hsub.of_ext her) hidx hnp.1
              have sr := ihr (o := ro) hro hsub (hel.varIdxOK hidx) hnp.2
              refine ⟨?_, ?_⟩
              · simp only [evalExpr]
                have h1 := sl.1
                cases hl : evalExpr env l with
                | error er =>
                  rw [hl] at h1
                  intro m; simp [exec_append, h1 m]
                | ok lv =>
                  rw [hl] at h1
                  obtain ⟨sa, a, rfl⟩ := ofVal_bty_mon (h1.1.trans hmon)
                  have h2 := sr.1
                  cases hr : evalExpr env r with
                  | error er =>
                    rw [hr] at h2
                    intro m; simp [exec_append, h1.2 m, h2 _]
                  | ok rv =>
                    rw [hr] at h2
                    obtain ⟨sb, b, rfl⟩ := ofVal_bty_mon (h2.1.trans hrt')
                    by_cases hs : sa = sb
                    · subst hs
                      simp only [if_true]
                      refine ⟨rfl, ?_⟩
                      intro m
                      simp [exec_append, h1.2 m, h2.2, exec, step, popMon, Machine.push, BVal.ofVal]
                    · simp only [hs, if_false]
                      intro m
                      simp [exec_append, h1.2 m, h2.2, exec, step, popMon, Machine.push, BVal.ofVal, hs]
              · intro a ha
                simp only [leftOperand]
                exact sl.2 a ha
        · cases hv

/-! ### balances: the VM's primitives are `Spec`'s on machines whose inner maps exist -/

/-- every tracked amount lives in an account that has an inner map, and the entries `E` (the needed balances of
the program) exist -/
def BalOK (A : List Acct) (E : List (Acct × Asset)) (b : Bal) : Prop :=
  (∀ a s, (b.get a s).isSome = true → A.contains a = true) ∧ (∀ e ∈ E, (b.get e.1 e.2).isSome = true)

variable {E : List (Acct × Asset)}

/-- every part of a funding comes from an account that has an inner map -/
def PartsIn (A : List Acct) (ps : Parts) : Prop := ∀ p ∈ ps, A.contains p.acct = true

theorem BalOK.upd {A : List Acct} {b : Bal} (h : BalOK A E b) {a : Acct} (ha : A.contains a = true) (s : Asset) (v : Int) :
    BalOK A E (b.upd a s v) := by
  constructor
  · intro a' s' hs
    simp only [Bal.upd] at hs
    split at hs
    · rename_i hc; rw [hc.1]; exact ha
    · exact h.1 a' s' hs
  · intro e he
    simp only [Bal.upd]
    split
    · rfl
    · exact h.2 e he

theorem withdrawAll_eq {B : Balances} (hok : BalOK B.accts E B.bal) (a : Acct) (s : Asset) (o : Int) :
    match Num.withdrawAll B.bal a s o with
    | .error er => VM.withdrawAll B a s o = .error er
    | .ok (p, b') => p.acct = a ∧ B.accts.contains a = true ∧ BalOK B.accts E b' ∧ ∃ ks, VM.withdrawAll B a s o = .ok (p, ⟨B.accts, ks, b'⟩) := by
  unfold Num.withdrawAll VM.withdrawAll Balances.hasAcct
  cases hg : B.bal.get a s with
  | none =>
    simp only
    split <;> rfl
  | some t =>
    have ha : B.accts.contains a = true := hok.1 a s (by simp [hg])
    simp only [ha, Bool.not_true, Bool.false_eq_true, if_false]
    by_cases hc : t + o > 0
    · simp only [hc, if_true]
      refine ⟨?_, ?_, hok.upd ha _ _, _, rfl⟩ <;> first | rfl | trivial | exact ha
    · simp only [hc, if_false]
      refine ⟨?_, ?_, hok, B.keys, rfl⟩ <;> first | rfl | trivial | exact ha

theorem withdrawAlways_eq {B : Balances} (hok : BalOK B.accts E B.bal) (a : Acct) (s : Asset) (n : Int) :
    match Num.withdrawAlways B.bal a s n with
    | .error er => VM.withdrawAlways B a s n = .error er
    | .ok (p, b') => p = ⟨a, n⟩ ∧ B.accts.contains a = true ∧ BalOK B.accts E b' ∧ ∃ ks, VM.withdrawAlways B a s n = .ok (p, ⟨B.accts, ks, b'⟩) := by
  unfold Num.withdrawAlways VM.withdrawAlways Balances.hasAcct
  cases hg : B.bal.get a s with
  | none =>
    simp only
    split <;> rfl
  | some t =>
    have ha : B.accts.contains a = true := hok.1 a s (by simp [hg])
    simp only [ha, Bool.not_true, Bool.false_eq_true, if_false]
    refine ⟨?_, ?_, hok.upd ha _ _, _, rfl⟩ <;> first | rfl | trivial | exact ha

theorem repay_eq {A : List Acct} {ks : List (Acct × Asset)} {b : Bal} (hok : BalOK A E b) (s : Asset) {ps : Parts} (hp : PartsIn A ps) :
    BalOK A E (Num.repay b s ps) ∧ ∃ ks', VM.repay ⟨A, ks, b⟩ s ps = some ⟨A, ks', Num.repay b s ps⟩ := by
  induction ps generalizing ks b with
  | nil => exact ⟨hok, ks, rfl⟩
  | cons p rest ih =>
    have hrest : PartsIn A rest := fun q hq => hp q (List.mem_cons_of_mem _ hq)
    simp only [Num.repay, VM.repay]
    by_cases hw : p.acct = "world"
    · simp only [hw, if_true]
      exact ih hok hrest
    · have ha : A.contains p.acct = true := hp p (List.mem_cons_self ..)
      simp only [hw, if_false, Balances.hasAcct, ha, Bool.not_true, Bool.false_eq_true]
      exact ih (hok.upd ha _ _) hrest

theorem takeLoop_partsIn {A : List Acct} {f : Parts} (h : PartsIn A f) (n : Int) :
    PartsIn A (takeLoop f n).1 ∧ PartsIn A (takeLoop f n).2.1 := by
  induction f generalizing n with
  | nil =>
    simp only [takeLoop]
    exact ⟨(by intro q hq; cases hq), (by intro q hq; cases hq)⟩
  | cons p ps ih =>
    have hp : A.contains p.acct = true := h p (List.mem_cons_self ..)
    have hps : PartsIn A ps := fun q hq => h q (List.mem_cons_of_mem _ hq)
    simp only [takeLoop]
    split
    · split
      · constructor
        · intro q hq; simp only [List.mem_singleton] at hq; subst hq; exact hp
        · intro q hq
          rcases List.mem_cons.mp hq with h' | hq
          · rw [h']; exact hp
          · exact hps q hq
      · obtain ⟨h1, h2⟩ := ih hps (n - p.amt)
        constructor
        · intro q hq
          rcases List.mem_cons.mp hq with h' | hq
          · rw [h']; exact hp
          · exact h1 q hq
        · exact h2
    · exact ⟨(by intro q hq; cases hq), h⟩

theorem takeMax_partsIn {A : List Acct} {f : Parts} (h : PartsIn A f) (n : Int) :
    PartsIn A (takeMax f n).1 ∧ PartsIn A (takeMax f n).2 := takeLoop_partsIn h n

theorem take_partsIn {A : List Acct} {f : Parts} (h : PartsIn A f) {n : Int} {t r : Parts} (ht : Num.take f n = some (t, r)) :
    PartsIn A t ∧ PartsIn A r := by
  unfold Num.take at ht
  split at ht
  · simp only [Option.some.injEq, Prod.mk.injEq] at ht
    obtain ⟨rfl, rfl⟩ := ht
    obtain ⟨h1, h2⟩ := takeLoop_partsIn h n
    refine ⟨?_, h2⟩
    intro q hq
    rcases List.mem_append.mp hq with hq | hq
    · unfold takePre at hq
      split at hq
      · cases f with
        | nil => simp at hq
        | cons p ps =>
          simp only [List.mem_singleton] at hq; subst hq
          exact h p (List.mem_cons_self ..)
      · cases hq
    · exact h1 q hq
  · cases ht

theorem concat_partsIn {A : List Acct} {f g : Parts} (hf : PartsIn A f) (hg : PartsIn A g) : PartsIn A (concat f g) := by
  induction f with
  | nil => simpa [concat] using hg
  | cons p ps ih =>
    cases ps with
    | nil =>
      cases g with
      | nil => simpa [concat] using hf
      | cons h gs =>
        simp only [concat]
        split
        · intro q hq
          rcases List.mem_cons.mp hq with h' | hq
          · rw [h']; exact hf p (List.mem_cons_self ..)
          · exact hg q (List.mem_cons_of_mem _ hq)
        · intro q hq
          rcases List.mem_cons.mp hq with h' | hq
          · rw [h']; exact hf p (List.mem_cons_self ..)
          · exact hg q hq
    | cons q f' =>
      simp only [concat]
      intro x hx
      rcases List.mem_cons.mp hx with h' | hx
      · rw [h']; exact hf _ (List.mem_cons_self ..)
      · exact ih (fun y hy => hf y (List.mem_cons_of_mem _ hy)) x hx

/-! ### straight-line pieces -/

/-- what the code of an `emitSeq` does -/
def runEmits (V : List BVal) : List Emit → Machine → Outcome Machine
  | [], m => .ok m
  | .op i :: rest, m =>
    match step V i m with
    | .ok m' => runEmits V rest m'
    | .error e => .error e
    | .panic k => .panic k
  | .pushAddr a :: rest, m =>
    match step V (.apush a) m with
    | .ok m' => runEmits V rest m'
    | .error e => .error e
    | .panic k => .panic k
  | .pushInt n :: rest, m => runEmits V rest (m.push (.num n))
  | .bump n :: rest, m =>
    match step V .bump (m.push (.num n)) with
    | .ok m' => runEmits V rest m'
    | .error e => .error e
    | .panic k => .panic k

theorem allocNum_val {R : List Resource} {V : List BVal} {env : VEnv} (cx : Ctx R V env) {st st' : CState} {n : Int} {a : Addr}
    (h : allocRes st (.const (.num n)) = .ok (a, st')) (hsub : Sub st' R) : V[a]? = some (.num n) := by
  obtain ⟨_, c, hc, hveq⟩ := allocConst_ok h
  have : c = .num n := valueEquals_eq hveq (by intro r hr; cases hr) (by intro r hr; cases hr)
  subst this
  exact cx.res a _ (hsub a _ hc)

theorem emitSeq_exec {R : List Resource} {V : List BVal} {env : VEnv} (cx : Ctx R V env) {st st' : CState} {es : List Emit} {c : Code}
    (h : emitSeq st es = .ok (c, st')) (hsub : Sub st' R) : ∀ m, exec V c m = runEmits V es m := by
  induction es generalizing st c with
  | nil =>
    simp only [emitSeq, Except.ok.injEq, Prod.mk.injEq] at h
    obtain ⟨rfl, _⟩ := h; intro m; rfl
  | cons e es ih =>
    cases e with
    | op i =>
      simp only [emitSeq] at h
      split at h
      · cases h
      · rename_i c' st1 hr
        simp only [Except.ok.injEq, Prod.mk.injEq] at h
        obtain ⟨rfl, rfl⟩ := h
        intro m
        simp only [exec, runEmits]
        cases step V i m with
        | ok m' => exact ih hr m'
        | error e => rfl
        | panic k => rfl
    | pushAddr a =>
      simp only [emitSeq] at h
      split at h
      · cases h
      · rename_i c' st1 hr
        simp only [Except.ok.injEq, Prod.mk.injEq] at h
        obtain ⟨rfl, rfl⟩ := h
        intro m
        simp only [exec, runEmits]
        cases step V (.apush a) m with
        | ok m' => exact ih hr m'
        | error e => rfl
        | panic k => rfl
    | pushInt n =>
      simp only [emitSeq] at h
      split at h
      · cases h
      · rename_i a st1 ha
        split at h
        · cases h
        · rename_i c' st2 hr
          simp only [Except.ok.injEq, Prod.mk.injEq] at h
          obtain ⟨rfl, rfl⟩ := h
          intro m
          have hV := allocNum_val cx ha (hsub.of_ext (emitSeq_ext hr))
          simp only [exec, runEmits, step_apush hV]
          exact ih hr _
    | bump n =>
      simp only [emitSeq] at h
      split at h
      · cases h
      · rename_i a st1 ha
        split at h
        · cases h
        · rename_i c' st2 hr
          simp only [Except.ok.injEq, Prod.mk.injEq] at h
          obtain ⟨rfl, rfl⟩ := h
          intro m
          have hV := allocNum_val cx ha (hsub.of_ext (emitSeq_ext hr))
          simp only [exec, runEmits, step_apush hV]
          cases step V .bump (m.push (.num n)) with
          | ok m' => exact ih hr m'
          | error e => rfl
          | panic k => rfl

theorem u64_nat {n : Nat} (h : n < 18446744073709551616) : u64 (n : Int) = n := by
  simp [u64, Nat.mod_eq_of_lt h]

/-- replace stack and amounts (the accounts with an inner map never change during execution) -/
def VM.Machine.upd (m : Machine) (stack : List BVal) (ks : List (Acct × Asset)) (b : Bal) : Machine :=
  { m with stack := stack, balances := ⟨m.balances.accts, ks, b⟩ }

/-- the address the compiler remembers as fallback holds the account `Spec` falls back to -/
def FbRel (V : List BVal) : Option Addr → Option Acct → Prop
  | none, none => True
  | some a, some x => V[a]? = some (.acct x)
  | _, _ => False

theorem isWorldAddr_lit {st : CState} {e : Expr} {o : ExprOut} {a : Addr} (hv : visitExpr st e = .ok o) (hidx : VarIdxOK st)
    (hty : o.ty = .account) (ha : o.addr = some a) : isWorldAddr o.st.resources a = isWorldLit e := by
  cases e with
  | acct s =>
    simp only [visitExpr, litOut] at hv
    split at hv
    · cases hv
    · rename_i a' st1 hal
      simp only [Except.ok.injEq] at hv; subst hv
      simp only [Option.some.injEq] at ha; subst ha
      obtain ⟨_, c, hc, hveq⟩ := allocConst_ok hal
      have : c = .acct s := valueEquals_eq hveq (by intro r hr; cases hr) (by intro r hr; cases hr)
      subst this
      simp only [isWorldAddr, hc, isWorldLit]
      by_cases hw : s = "world" <;> simp [hw]
  | var n =>
    simp only [visitExpr] at hv
    split at hv
    · cases hv
    · rename_i idx hidx'
      split at hv
      · cases hv
      · rename_i r hr
        simp only [Except.ok.injEq] at hv; subst hv
        simp only [Option.some.injEq] at ha; subst ha
        obtain ⟨r', h1, h2⟩ := hidx n idx hidx'
        rw [hr] at h1; cases h1
        cases r <;> simp [declName] at h2 <;> simp [isWorldAddr, hr, isWorldLit]
  | asset s =>
    simp only [visitExpr, litOut] at hv
    split at hv
    · cases hv
    · simp only [Except.ok.injEq] at hv; subst hv; cases hty
  | num s =>
    simp only [visitExpr, litOut] at hv
    split at hv
    · cases hv
    · simp only [Except.ok.injEq] at hv; subst hv; cases hty
  | str s =>
    simp only [visitExpr, litOut] at hv
    split at hv
    · cases hv
    · simp only [Except.ok.injEq] at hv; subst hv; cases hty
  | portion s =>
    simp only [visitExpr, litOut] at hv
    split at hv
    · cases hv
    · simp only [Except.ok.injEq] at hv; subst hv; cases hty
  | badPortion => simp [visitExpr] at hv
  | mon ae k =>
    simp only [visitExpr] at hv
    split at hv
    · cases hv
    · split at hv
      · cases hv
      · split at hv
        · cases hv
        · split at hv
          · simp only [Except.ok.injEq] at hv; subst hv; cases hty
          · split at hv
            · cases hv
            · simp only [Except.ok.injEq] at hv; subst hv; cases hty
  | add l r =>
    simp only [visitExpr] at hv
    split at hv
    · cases hv
    · split at hv
      · split at hv
        · cases hv
        · split at hv
          · cases hv
          · simp only [Except.ok.injEq] at hv; subst hv; cases hty
      · split at hv
        · split at hv
          · cases hv
          · split at hv
            · cases hv
            · simp only [Except.ok.injEq] at hv; subst hv; cases hty
        · cases hv
  | sub l r =>
    simp only [visitExpr] at hv
    split at hv
    · cases hv
    · split at hv
      · split at hv
        · cases hv
        · split at hv
          · cases hv
          · simp only [Except.ok.injEq] at hv; subst hv; cases hty
      · split at hv
        · split at hv
          · cases hv
          · split at hv
            · cases hv
            · simp only [Except.ok.injEq] at hv; subst hv; cases hty
        · cases hv

/-! ### typed views of `expr_ok` -/

theorem acctExpr_ok {R : List Resource} {V : List BVal} {env : VEnv} (cx : Ctx R V env) {st : CState} {e : Expr} {o : ExprOut}
    (hv : visitExpr st e = .ok o) (hsub : Sub o.st R) (hidx : VarIdxOK st) (hnp : e.noPortion = true) (hty : o.ty = .account) :
    match evalAcct env e with
    | .ok x => (∀ m, exec V o.code m = .ok (m.push (.acct x))) ∧ (∀ a, o.addr = some a → V[a]? = some (.acct x))
    | .error er => ∀ m, exec V o.code m = .error er := by
  have sp := expr_ok cx hv hsub hidx hnp
  have h1 := sp.1
  unfold evalAcct
  cases he : evalExpr env e with
  | error er => rw [he] at h1; exact h1
  | ok v =>
    rw [he] at h1
    obtain ⟨x, rfl⟩ := ofVal_bty_acct (h1.1.trans hty)
    refine ⟨h1.2, ?_⟩
    intro a ha
    obtain ⟨v', hv1, hv2⟩ := sp.2 a ha
    rw [leftOperand_leaf hv (by rw [hty]; exact ⟨by decide, by decide⟩), he] at hv1
    cases hv1; exact hv2

theorem assetExpr_ok {R : List Resource} {V : List BVal} {env : VEnv} (cx : Ctx R V env) {st : CState} {e : Expr} {o : ExprOut}
    (hv : visitExpr st e = .ok o) (hsub : Sub o.st R) (hidx : VarIdxOK st) (hnp : e.noPortion = true) (hty : o.ty = .asset) :
    match evalAsset env e with
    | .ok x => (∀ m, exec V o.code m = .ok (m.push (.asset x))) ∧ (∀ a, o.addr = some a → V[a]? = some (.asset x))
    | .error er => ∀ m, exec V o.code m = .error er := by
  have sp := expr_ok cx hv hsub hidx hnp
  have h1 := sp.1
  unfold evalAsset
  cases he : evalExpr env e with
  | error er => rw [he] at h1; exact h1
  | ok v =>
    rw [he] at h1
    obtain ⟨x, rfl⟩ := ofVal_bty_asset (h1.1.trans hty)
    refine ⟨h1.2, ?_⟩
    intro a ha
    obtain ⟨v', hv1, hv2⟩ := sp.2 a ha
    rw [leftOperand_of_asset hv hty, he] at hv1
    cases hv1; exact hv2

theorem monExpr_ok {R : List Resource} {V : List BVal} {env : VEnv} (cx : Ctx R V env) {st : CState} {e : Expr} {o : ExprOut}
    (hv : visitExpr st e = .ok o) (hsub : Sub o.st R) (hidx : VarIdxOK st) (hnp : e.noPortion = true) (hty : o.ty = .monetary) :
    match evalMon env e with
    | .ok (a, n) => ∀ m, exec V o.code m = .ok (m.push (.mon a n))
    | .error er => ∀ m, exec V o.code m = .error er := by
  have sp := expr_ok cx hv hsub hidx hnp
  have h1 := sp.1
  unfold evalMon
  cases he : evalExpr env e with
  | error er => rw [he] at h1; exact h1
  | ok v =>
    rw [he] at h1
    obtain ⟨a, n, rfl⟩ := ofVal_bty_mon (h1.1.trans hty)
    exact h1.2

/-- the address of a monetary expression holds a monetary whose asset is `leftAsset` -/
theorem monAddr_ok {R : List Resource} {V : List BVal} {env : VEnv} (cx : Ctx R V env) {st : CState} {e : Expr} {o : ExprOut}
    (hv : visitExpr st e = .ok o) (hsub : Sub o.st R) (hidx : VarIdxOK st) (hnp : e.noPortion = true) (hty : o.ty = .monetary)
    {a : Addr} (ha : o.addr = some a) : ∃ s n, leftAsset env e = .ok s ∧ V[a]? = some (.mon s n) := by
  have sp := expr_ok cx hv hsub hidx hnp
  obtain ⟨v, hv1, hv2⟩ := sp.2 a ha
  have hb : (BVal.ofVal v).bty = .monetary := by
    obtain ⟨r, hr1, hr2⟩ := (visitExpr_ok hv).2 a ha
    obtain ⟨v', hv3, hv4⟩ := cx.typed.ty a r (hsub a r hr1)
    rw [hv2] at hv3; cases hv3
    rw [hv4, hr2, hty]
  obtain ⟨s, n, rfl⟩ := ofVal_bty_mon hb
  exact ⟨s, n, by simp [leftAsset, evalMon, hv1], hv2⟩

/-! ### a typed expression that is not a portion contains no portion literal -/

theorem visitExpr_noPortion {st : CState} {e : Expr} {o : ExprOut} (h : visitExpr st e = .ok o) (ht : o.ty ≠ .portion) :
    e.noPortion = true := by
  induction e generalizing st o with
  | acct _ => rfl
  | asset _ => rfl
  | num _ => rfl
  | str _ => rfl
  | var _ => rfl
  | portion r =>
    simp only [visitExpr, litOut] at h
    split at h
    · cases h
    · simp only [Except.ok.injEq] at h; subst h; exact absurd rfl ht
  | badPortion => simp [visitExpr] at h
  | mon ae k ih =>
    simp only [Expr.noPortion]
    simp only [visitExpr] at h
    split at h
    · cases h
    · rename_i ao hao
      split at h
      · cases h
      · rename_i hty
        exact ih hao (by rw [Classical.not_not.mp hty]; decide)
  | add l r ihl ihr =>
    simp only [Expr.noPortion, Bool.and_eq_true]
    simp only [visitExpr] at h
    split at h
    · cases h
    · rename_i lo hlo
      split at h
      · rename_i hnum
        split at h
        · cases h
        · rename_i ro hro
          split at h
          · cases h
          · rename_i hrt
            exact ⟨ihl hlo (by rw [hnum]; decide), ihr hro (by rw [Classical.not_not.mp hrt]; decide)⟩
      · split at h
        · rename_i hmon
          split at h
          · cases h
          · rename_i ro hro
            split at h
            · cases h
            · rename_i hrt
              exact ⟨ihl hlo (by rw [hmon]; decide), ihr hro (by rw [Classical.not_not.mp hrt]; decide)⟩
        · cases h
  | sub l r ihl ihr =>
    simp only [Expr.noPortion, Bool.and_eq_true]
    simp only [visitExpr] at h
    split at h
    · cases h
    · rename_i lo hlo
      split at h
      · rename_i hnum
        split at h
        · cases h
        · rename_i ro hro
          split at h
          · cases h
          · rename_i hrt
            exact ⟨ihl hlo (by rw [hnum]; decide), ihr hro (by rw [Classical.not_not.mp hrt]; decide)⟩
      · split at h
        · rename_i hmon
          split at h
          · cases h
          · rename_i ro hro
            split at h
            · cases h
            · rename_i hrt
              exact ⟨ihl hlo (by rw [hmon]; decide), ihr hro (by rw [Classical.not_not.mp hrt]; decide)⟩
        · cases h

theorem visitTyped_noPortion {st st' : CState} {want : BTy} {e : Expr} {a : Addr} {c : Code}
    (h : visitTyped st want e = .ok (a, c, st')) (hw : want ≠ .portion) : e.noPortion = true := by
  unfold visitTyped at h
  split at h
  · cases h
  · rename_i o ho
    split at h
    · cases h
    · rename_i hty
      exact visitExpr_noPortion ho (by rw [Classical.not_not.mp hty]; exact hw)

/-! ### sources -/

mutual
/-- the source fragment — every source: account (any overdraft clause) | `max … from` | in-order lists; the one
side condition: lists shorter than 2^64 (the operand of `FUNDING_ASSEMBLE` travels through `Uint64()`) -/
def Source.frag : Source → Bool
  | .acct _ _ => true
  | .maxed _ s => s.frag
  | .inorder ss => ss.frag && decide (ss.len < 18446744073709551616)
def SourceList.frag : SourceList → Bool
  | .nil => true
  | .cons s rest => s.frag && rest.frag
def SourceList.len : SourceList → Nat
  | .nil => 0
  | .cons _ rest => rest.len + 1
end

@[simp] theorem push_upd (m : Machine) (S : List BVal) (ks : List (Acct × Asset)) (b : Bal) (v : BVal) :
    (m.upd S ks b).push v = m.upd (v :: S) ks b := rfl

@[simp] theorem upd_upd (m : Machine) (S S' : List BVal) (ks ks' : List (Acct × Asset)) (b b' : Bal) :
    (m.upd S ks b).upd S' ks' b' = m.upd S' ks' b' := rfl

@[simp] theorem upd_accts (m : Machine) (S : List BVal) (ks : List (Acct × Asset)) (b : Bal) :
    (m.upd S ks b).balances.accts = m.balances.accts := rfl

/-- what the code of a source does, in `Spec`'s words -/
def SrcSpec (V : List BVal) (env : VEnv) (asset : Asset) (E : List (Acct × Asset)) (s : Source) (so : SrcOut) : Prop :=
  ∀ (m : Machine) (S : List BVal) (ks : List (Acct × Asset)) (b : Bal), BalOK m.balances.accts E b →
    match evalSource env asset s b with
    | .error er => exec V so.code (m.upd S ks b) = .error er
    | .ok (f, fb, b') => FbRel V so.fallback fb ∧ BalOK m.balances.accts E b' ∧ PartsIn m.balances.accts f.parts ∧
        ∃ ks', exec V so.code (m.upd S ks b) = .ok (m.upd (.funding f.asset f.parts :: S) ks' b')

def fundVals (fs : List Fund) : List BVal := fs.map (fun f => BVal.funding f.asset f.parts)

def SrcsSpec (V : List BVal) (env : VEnv) (asset : Asset) (E : List (Acct × Asset)) (ss : SourceList) (so : SrcOut) : Prop :=
  ∀ (m : Machine) (S : List BVal) (ks : List (Acct × Asset)) (b : Bal), BalOK m.balances.accts E b →
    match evalSources env asset ss b with
    | .error er => exec V so.code (m.upd S ks b) = .error er
    | .ok (fs, fb, b') => FbRel V so.fallback fb ∧ BalOK m.balances.accts E b' ∧ (∀ f ∈ fs, PartsIn m.balances.accts f.parts) ∧
        fs.length = ss.len ∧
        ∃ ks', exec V so.code (m.upd S ks b) = .ok (m.upd (fundVals fs.reverse ++ S) ks' b')

/-- `OP_TAKE_ALL` on `mon :: acct :: S` -/
theorem step_takeAll (V : List BVal) (m : Machine) (S : List BVal) (ks : List (Acct × Asset)) (b : Bal)
    (hok : BalOK m.balances.accts E b) (x : Acct) (s : Asset) (o : Int) :
    match Num.withdrawAll b x s o with
    | .error er => step V .takeAll (m.upd (.mon s o :: .acct x :: S) ks b) = .error er
    | .ok (p, b') => p.acct = x ∧ m.balances.accts.contains x = true ∧ BalOK m.balances.accts E b' ∧
        ∃ ks', step V .takeAll (m.upd (.mon s o :: .acct x :: S) ks b) = .ok (m.upd (.funding s [p] :: S) ks' b') := by
  have h := withdrawAll_eq (B := ⟨m.balances.accts, ks, b⟩) hok x s o
  cases hw : Num.withdrawAll b x s o with
  | error er =>
    simp only [hw] at h
    simp [step, popMon, popAcct, Machine.upd, h]
  | ok r =>
    obtain ⟨p, b'⟩ := r
    simp only [hw] at h
    obtain ⟨h1, h2, h3, ks', h4⟩ := h
    refine ⟨h1, h2, h3, ks', ?_⟩
    simp [step, popMon, popAcct, Machine.upd, h4]

/-- `OP_TAKE_ALWAYS` on `mon :: acct :: S` -/
theorem step_takeAlways (V : List BVal) (m : Machine) (S : List BVal) (ks : List (Acct × Asset)) (b : Bal)
    (hok : BalOK m.balances.accts E b) (x : Acct) (s : Asset) (n : Int) :
    match Num.withdrawAlways b x s n with
    | .error er => step V .takeAlways (m.upd (.mon s n :: .acct x :: S) ks b) = .error er
    | .ok (p, b') => p = ⟨x, n⟩ ∧ m.balances.accts.contains x = true ∧ BalOK m.balances.accts E b' ∧
        ∃ ks', step V .takeAlways (m.upd (.mon s n :: .acct x :: S) ks b) = .ok (m.upd (.funding s [p] :: S) ks' b') := by
  have h := withdrawAlways_eq (B := ⟨m.balances.accts, ks, b⟩) hok x s n
  cases hw : Num.withdrawAlways b x s n with
  | error er =>
    simp only [hw] at h
    simp [step, popMon, popAcct, Machine.upd, h]
  | ok r =>
    obtain ⟨p, b'⟩ := r
    simp only [hw] at h
    obtain ⟨h1, h2, h3, ks', h4⟩ := h
    refine ⟨h1, h2, h3, ks', ?_⟩
    simp [step, popMon, popAcct, Machine.upd, h4]

/-- `OP_REPAY` on `funding :: S` whose parts come from accounts with an inner map -/
theorem step_repay (V : List BVal) (m : Machine) (S : List BVal) (ks : List (Acct × Asset)) (b : Bal)
    (hok : BalOK m.balances.accts E b) (s : Asset) {ps : Parts} (hp : PartsIn m.balances.accts ps) :
    BalOK m.balances.accts E (Num.repay b s ps) ∧
    ∃ ks', step V .repay (m.upd (.funding s ps :: S) ks b) = .ok (m.upd S ks' (Num.repay b s ps)) := by
  obtain ⟨h1, ks', h2⟩ := repay_eq (ks := ks) hok s hp
  refine ⟨h1, ks', ?_⟩
  simp [step, popFunding, Machine.upd, h2]

theorem popFundings_ok (a : Asset) (fs : List Fund) (S : List BVal) (h : ∀ f ∈ fs, f.asset = a) :
    popFundings a fs.length (fundVals fs ++ S) = .ok (fs.map (·.parts), S) := by
  induction fs with
  | nil => rfl
  | cons f rest ih =>
    have hf : f.asset = a := h f (List.mem_cons_self ..)
    simp only [fundVals, List.map_cons, List.cons_append, List.length_cons, popFundings, hf, ne_eq, not_true_eq_false, if_false]
    have := ih (fun g hg => h g (List.mem_cons_of_mem _ hg))
    simp only [fundVals] at this
    rw [this]

theorem popFundings_bad (a : Asset) (fs : List Fund) (S : List BVal) (h : ¬ ∀ f ∈ fs, f.asset = a) :
    popFundings a fs.length (fundVals fs ++ S) = .error .invalidScript := by
  induction fs with
  | nil => exact absurd (by intro f hf; cases hf) h
  | cons f rest ih =>
    simp only [fundVals, List.map_cons, List.cons_append, List.length_cons, popFundings]
    by_cases hf : f.asset = a
    · simp only [hf, ne_eq, not_true_eq_false, if_false]
      have : ¬ ∀ g ∈ rest, g.asset = a := by
        intro hall
        apply h
        intro g hg
        rcases List.mem_cons.mp hg with h' | hg
        · rw [h']; exact hf
        · exact hall g hg
      have := ih this
      simp only [fundVals] at this
      rw [this]
    · simp [hf]

/-! stack-only instructions on machines of the form `m.upd stack ks b` -/

theorem step_monetaryNew (V : List BVal) (m : Machine) (S : List BVal) (ks : List (Acct × Asset)) (b : Bal) (n : Int) (a : Asset) :
    step V .monetaryNew (m.upd (.num n :: .asset a :: S) ks b) = .ok (m.upd (.mon a n :: S) ks b) := rfl

theorem step_asset_mon (V : List BVal) (m : Machine) (S : List BVal) (ks : List (Acct × Asset)) (b : Bal) (n : Int) (a : Asset) :
    step V .asset (m.upd (.mon a n :: S) ks b) = .ok (m.upd (.asset a :: S) ks b) := rfl

theorem step_bump1 (V : List BVal) (m : Machine) (S : List BVal) (ks : List (Acct × Asset)) (b : Bal) (x y : BVal) :
    step V .bump (m.upd (.num 1 :: x :: y :: S) ks b) = .ok (m.upd (y :: x :: S) ks b) := rfl

theorem step_bump2 (V : List BVal) (m : Machine) (S : List BVal) (ks : List (Acct × Asset)) (b : Bal) (x y z : BVal) :
    step V .bump (m.upd (.num 2 :: x :: y :: z :: S) ks b) = .ok (m.upd (z :: x :: y :: S) ks b) := rfl

theorem step_delete_mon (V : List BVal) (m : Machine) (S : List BVal) (ks : List (Acct × Asset)) (b : Bal) (n : Int) (a : Asset) :
    step V .delete (m.upd (.mon a n :: S) ks b) = .ok (m.upd S ks b) := rfl

theorem step_takeMax (V : List BVal) (m : Machine) (S : List BVal) (ks : List (Acct × Asset)) (b : Bal) (n : Int) (a fa : Asset) (fp : Parts) :
    step V .takeMax (m.upd (.mon a n :: .funding fa fp :: S) ks b) =
      if n < 0 then .error .runtimeOther else
      if fa ≠ a then .error .invalidScript else
      .ok (m.upd (.funding fa (takeMax fp n).1 :: .funding fa (takeMax fp n).2 :: .mon a (if n > total fp then n - total fp else 0) :: S) ks b) := by
  by_cases h1 : n < 0
  · simp [step, popMon, Machine.upd, h1]
  · by_cases h2 : fa = a
    · simp [step, popMon, popFunding, Machine.upd, h1, h2]
    · simp [step, popMon, popFunding, Machine.upd, h1, h2]

theorem step_take (V : List BVal) (m : Machine) (S : List BVal) (ks : List (Acct × Asset)) (b : Bal) (n : Int) (a fa : Asset) (fp : Parts) :
    step V .take (m.upd (.mon a n :: .funding fa fp :: S) ks b) =
      if fa ≠ a then .error .invalidScript else
      match Num.take fp n with
      | none => .error .insufficient
      | some (taken, rest) => .ok (m.upd (.funding fa taken :: .funding fa rest :: S) ks b) := by
  by_cases h2 : fa = a
  · cases ht : Num.take fp n with
    | none => simp [step, popMon, popFunding, Machine.upd, h2, ht]
    | some r => obtain ⟨t, r'⟩ := r; simp [step, popMon, popFunding, Machine.upd, h2, ht]
  · simp [step, popMon, popFunding, Machine.upd, h2]

/-- `FUNDING_ASSEMBLE` of two fundings `g` (top) and `f` -/
theorem step_assemble2 (V : List BVal) (m : Machine) (S : List BVal) (ks : List (Acct × Asset)) (b : Bal) (fa ga : Asset) (fp gp : Parts) :
    step V .fundingAssemble (m.upd (.num 2 :: .funding ga gp :: .funding fa fp :: S) ks b) =
      if fa ≠ ga then .error .invalidScript else .ok (m.upd (.funding ga (concat (concat [] fp) gp) :: S) ks b) := by
  have : u64 2 = 2 := by decide
  by_cases h : fa = ga
  · simp [step, popNum, popFunding, popFundings, Machine.upd, this, h]
  · simp [step, popNum, popFunding, popFundings, Machine.upd, this, h]

/-- the tail `TAKE_MAX; BUMP 1; REPAY; …` shared by `max … from` and `TakeFromSource` with a fallback, and the
one without: from `mon cap :: funding f :: S` -/
theorem maxTail_none (V : List BVal) (m : Machine) (S : List BVal) (ks : List (Acct × Asset)) (b : Bal)
    (hok : BalOK m.balances.accts E b) (ma fa : Asset) (mn : Int) (fp : Parts) (hp : PartsIn m.balances.accts fp) :
    ∃ ks', runEmits V [.op .takeMax, .bump 1, .op .repay, .bump 1, .op .delete] (m.upd (.mon ma mn :: .funding fa fp :: S) ks b) =
      if mn < 0 then .error .runtimeOther else
      if fa ≠ ma then .error .invalidScript else
      .ok (m.upd (.funding fa (takeMax fp mn).1 :: S) ks' (Num.repay b fa (takeMax fp mn).2)) := by
  obtain ⟨_, ks', hr⟩ := step_repay V m (.funding fa (takeMax fp mn).1 :: .mon ma (if mn > total fp then mn - total fp else 0) :: S)
    ks b hok fa (takeMax_partsIn hp mn).2
  refine ⟨ks', ?_⟩
  by_cases h1 : mn < 0
  · simp [runEmits, step_takeMax, h1]
  · by_cases h2 : fa = ma
    · subst h2
      simp only [runEmits, step_takeMax, h1, if_false, ne_eq, not_true_eq_false, push_upd, step_bump1, hr, step_delete_mon]
    · simp [runEmits, step_takeMax, h1, h2]

theorem maxTail_some (V : List BVal) (m : Machine) (S : List BVal) (ks : List (Acct × Asset)) (b : Bal)
    (hok : BalOK m.balances.accts E b) (ma fa : Asset) (mn : Int) (fp : Parts) (hp : PartsIn m.balances.accts fp)
    (fbA : Addr) (w : Acct) (hw : V[fbA]? = some (.acct w)) :
    ∃ ks', runEmits V [.op .takeMax, .bump 1, .op .repay, .pushAddr fbA, .bump 2, .op .takeAlways, .pushInt 2, .op .fundingAssemble]
        (m.upd (.mon ma mn :: .funding fa fp :: S) ks b) =
      if mn < 0 then .error .runtimeOther else
      if fa ≠ ma then .error .invalidScript else
      match Num.withdrawAlways (Num.repay b fa (takeMax fp mn).2) w ma (if mn > total fp then mn - total fp else 0) with
      | .error er => .error er
      | .ok (p, b3) => .ok (m.upd (.funding ma (concat (concat [] (takeMax fp mn).1) [p]) :: S) ks' b3) := by
  obtain ⟨hok2, ks1, hr⟩ := step_repay V m (.funding fa (takeMax fp mn).1 :: .mon ma (if mn > total fp then mn - total fp else 0) :: S)
    ks b hok fa (takeMax_partsIn hp mn).2
  have hta := step_takeAlways V m (.funding fa (takeMax fp mn).1 :: S) ks1 (Num.repay b fa (takeMax fp mn).2) hok2 w ma
    (if mn > total fp then mn - total fp else 0)
  by_cases h1 : mn < 0
  · exact ⟨ks, by simp [runEmits, step_takeMax, h1]⟩
  · by_cases h2 : fa = ma
    · subst h2
      cases hwa : Num.withdrawAlways (Num.repay b fa (takeMax fp mn).2) w fa (if mn > total fp then mn - total fp else 0) with
      | error er =>
        simp only [hwa] at hta
        refine ⟨ks, ?_⟩
        simp only [runEmits, step_takeMax, h1, if_false, ne_eq, not_true_eq_false, push_upd, step_bump1, hr,
          step_apush hw, step_bump2, hta]
      | ok r =>
        obtain ⟨p, b3⟩ := r
        simp only [hwa] at hta
        obtain ⟨_, _, _, ks2, hs⟩ := hta
        refine ⟨ks2, ?_⟩
        simp only [runEmits, step_takeMax, h1, if_false, ne_eq, not_true_eq_false, push_upd, step_bump1, hr,
          step_apush hw, step_bump2, hs, step_assemble2]
    · exact ⟨ks, by simp [runEmits, step_takeMax, h1, h2]⟩

theorem assemble_two (fa ga : Asset) (fp gp : Parts) :
    assemble [⟨fa, fp⟩, ⟨ga, gp⟩] = if fa = ga then .ok ⟨ga, concat (concat [] fp) gp⟩ else .error .invalidScript := by
  by_cases h : fa = ga <;> simp [assemble, h]

/-- `FUNDING_ASSEMBLE n` over the fundings of an in-order list -/
theorem step_assembleN (V : List BVal) (m : Machine) (S : List BVal) (ks : List (Acct × Asset)) (b : Bal) (fs : List Fund)
    (hlen : fs.length < 18446744073709551616) :
    step V .fundingAssemble (m.upd (.num fs.length :: (fundVals fs.reverse ++ S)) ks b) =
      match assemble fs with
      | .error er => .error er
      | .ok r => .ok (m.upd (.funding r.asset r.parts :: S) ks b) := by
  simp only [step, popNum, Machine.upd, u64_nat hlen]
  cases hl : fs.reverse with
  | nil =>
    have : fs = [] := by simpa using hl
    subst this
    simp [assemble]
  | cons l rest =>
    have hfs : fs = rest.reverse ++ [l] := by
      have := congrArg List.reverse hl
      simpa using this
    have hne : fs.length ≠ 0 := by rw [hfs]; simp
    have hlast : fs.getLast? = some l := by rw [hfs]; simp
    simp only [hne, if_false, fundVals, List.map_cons, List.cons_append, popFunding]
    have hlen' : fs.length - 1 = rest.length := by rw [hfs]; simp
    rw [hlen']
    simp only [assemble, hlast]
    by_cases hall : ∀ f ∈ rest, f.asset = l.asset
    · have := popFundings_ok l.asset rest S hall
      simp only [fundVals] at this
      rw [this]
      have hall' : (fs.all fun f => decide (f.asset = l.asset)) = true := by
        rw [hfs]; simp only [List.all_append, List.all_reverse, Bool.and_eq_true, List.all_eq_true, decide_eq_true_eq]
        exact ⟨hall, by simp⟩
      simp only [hall', if_true]
      congr 3
      rw [hfs]
      simp [List.foldl_append, List.foldr_map]
    · have := popFundings_bad l.asset rest S hall
      simp only [fundVals] at this
      rw [this]
      have hall' : (fs.all fun f => decide (f.asset = l.asset)) = false := by
        rw [hfs]
        simp only [List.all_append, List.all_reverse, Bool.and_eq_false_iff]
        left
        rw [List.all_eq_false]
        simpa using hall
      simp [hall']

mutual
theorem source_ok {R : List Resource} {V : List BVal} {env : VEnv} (cx : Ctx R V env) (asset : Asset) {pa : Code}
    (hpa : ∀ m, exec V pa m = .ok (m.push (.asset asset)))
    {st : CState} {isAll : Bool} {s : Source} {so : SrcOut}
    (hv : visitSource st pa isAll s = .ok so) (hsub : Sub so.st R) (hidx : VarIdxOK st) (hf : s.frag = true) :
    SrcSpec V env asset E s so := by
  cases s with
  | acct e od =>
    simp only [visitSource] at hv
    split at hv
    · cases hv
    · rename_i o ho
      split at hv
      · cases hv
      · rename_i hty
        have hty' : o.ty = .account := Classical.not_not.mp hty
        split at hv
        · cases hv
        · rename_i a haddr
          split at hv
          · cases hv
          · rename_i c st1 fb hb
            split at hv
            · cases hv
            · simp only [Except.ok.injEq] at hv; subst hv
              have hsub1 : Sub st1 R := hsub
              have hext1 := srcBody_ext hb
              have hacc := acctExpr_ok cx ho (hsub1.of_ext hext1) hidx (visitExpr_noPortion ho (by rw [hty']; decide)) hty'
              have hworld := isWorldAddr_lit ho hidx hty' haddr
              intro m S ks b hok
              simp only [evalSource]
              cases hx : evalAcct env e with
              | error er =>
                rw [hx] at hacc
                simp [exec_append, hacc _]
              | ok x =>
                rw [hx] at hacc
                obtain ⟨hex, hVa⟩ := hacc
                have hVa := hVa a haddr
                simp only
                cases od with
                | none =>
                  simp only at hb
                  split at hb
                  · cases hb
                  · rename_i c' st1' hs
                    simp only [Except.ok.injEq, Prod.mk.injEq] at hb
                    obtain ⟨rfl, rfl, rfl⟩ := hb
                    have hc' := emitSeq_exec cx hs hsub1
                    have hta := step_takeAll V m S ks b hok x asset 0
                    cases hwd : Num.withdrawAll b x asset 0 with
                    | error er =>
                      simp only [hwd] at hta
                      simp only [hwd, exec_append, hex, hpa, hc', runEmits, push_upd, step_monetaryNew, hta]
                    | ok r =>
                      obtain ⟨p, b'⟩ := r
                      simp only [hwd] at hta
                      obtain ⟨hp1, hp2, hp3, ks', hp4⟩ := hta
                      simp only [hwd]
                      refine ⟨?_, hp3, ?_, ks', ?_⟩
                      · rw [hworld]
                        cases hwl : isWorldLit e <;> simp [FbRel, hVa]
                      · intro q hq
                        simp only [List.mem_singleton] at hq; subst hq; rw [hp1]; exact hp2
                      · simp only [exec_append, hex, hpa, hc', runEmits, push_upd, step_monetaryNew, hp4]
                | upTo xx =>
                  simp only at hb
                  split at hb
                  · cases hb
                  · rename_i hnw
                    split at hb
                    · cases hb
                    · rename_i xo hxo
                      split at hb
                      · cases hb
                      · rename_i hxt
                        simp only [Except.ok.injEq, Prod.mk.injEq] at hb
                        obtain ⟨rfl, rfl, rfl⟩ := hb
                        have hmon := monExpr_ok cx hxo hsub1 ((visitExpr_ext ho).varIdxOK hidx)
                          (visitExpr_noPortion hxo (by rw [Classical.not_not.mp hxt]; decide)) (Classical.not_not.mp hxt)
                        cases hxm : evalMon env xx with
                        | error er =>
                          rw [hxm] at hmon
                          simp only [hxm, exec_append, hex, hmon]
                        | ok r =>
                          obtain ⟨xa, xn⟩ := r
                          rw [hxm] at hmon
                          simp only at hmon
                          have hta := step_takeAll V m S ks b hok x xa xn
                          simp only [hxm]
                          cases hwd : Num.withdrawAll b x xa xn with
                          | error er =>
                            simp only [hwd] at hta
                            simp only [hwd, exec_append, hex, hmon, push_upd, exec, hta]
                          | ok r =>
                            obtain ⟨p, b'⟩ := r
                            simp only [hwd] at hta
                            obtain ⟨hp1, hp2, hp3, ks', hp4⟩ := hta
                            simp only [hwd]
                            have hwf : isWorldLit e = false := by
                              rw [← hworld]; simpa using hnw
                            refine ⟨?_, hp3, ?_, ks', ?_⟩
                            · simp [hwf, FbRel]
                            · intro q hq
                              simp only [List.mem_singleton] at hq; subst hq; rw [hp1]; exact hp2
                            · simp only [exec_append, hex, hmon, push_upd, exec, hp4]
                | unbounded =>
                  simp only at hb
                  split at hb
                  · cases hb
                  · split at hb
                    · cases hb
                    · rename_i c' st1' hs
                      simp only [Except.ok.injEq, Prod.mk.injEq] at hb
                      obtain ⟨rfl, rfl, rfl⟩ := hb
                      have hc' := emitSeq_exec cx hs hsub1
                      have hta := step_takeAll V m S ks b hok x asset 0
                      cases hwd : Num.withdrawAll b x asset 0 with
                      | error er =>
                        simp only [hwd] at hta
                        simp only [hwd, exec_append, hex, hpa, hc', runEmits, push_upd, step_monetaryNew, hta]
                      | ok r =>
                        obtain ⟨p, b'⟩ := r
                        simp only [hwd] at hta
                        obtain ⟨hp1, hp2, hp3, ks', hp4⟩ := hta
                        simp only [hwd]
                        refine ⟨?_, hp3, ?_, ks', ?_⟩
                        · simp [FbRel, hVa]
                        · intro q hq
                          simp only [List.mem_singleton] at hq; subst hq; rw [hp1]; exact hp2
                        · simp only [exec_append, hex, hpa, hc', runEmits, push_upd, step_monetaryNew, hp4]
  | maxed cap s =>
    simp only [Source.frag] at hf
    simp only [visitSource] at hv
    split at hv
    · cases hv
    · rename_i so1 hso
      split at hv
      · cases hv
      · rename_i co hco
        split at hv
        · cases hv
        · rename_i hct
          split at hv
          · cases hv
          · rename_i c st1 hs
            simp only [Except.ok.injEq] at hv; subst hv
            have hsub1 : Sub st1 R := hsub
            have hes := emitSeq_ext hs
            have hec := visitExpr_ext hco
            have hso1 := (visitSource_ok hso).1
            have ih := source_ok cx asset hpa hso ((hsub1.of_ext hes).of_ext hec) hidx hf
            have hmon := monExpr_ok cx hco (hsub1.of_ext hes) (hso1.varIdxOK hidx)
              (visitExpr_noPortion hco (by rw [Classical.not_not.mp hct]; decide)) (Classical.not_not.mp hct)
            intro m S ks b hok
            have h1 := ih m S ks b hok
            simp only [evalSource]
            cases hsrc : evalSource env asset s b with
            | error er =>
              rw [hsrc] at h1
              simp only [exec_append, h1]
            | ok r =>
              obtain ⟨f, fb, b1⟩ := r
              rw [hsrc] at h1
              obtain ⟨hfb, hok1, hparts, ks1, hex⟩ := h1
              simp only
              cases hcm : evalMon env cap with
              | error er =>
                rw [hcm] at hmon
                simp only [exec_append, hex, hmon]
              | ok r =>
                obtain ⟨ma, mn⟩ := r
                rw [hcm] at hmon
                simp only at hmon
                simp only
                cases hfbk : so1.fallback with
                | none =>
                  have hfb' : fb = none := by
                    cases fb with
                    | none => rfl
                    | some w => rw [hfbk] at hfb; exact hfb.elim
                  subst hfb'
                  simp only [hfbk] at hs
                  have hc := emitSeq_exec cx hs hsub1
                  obtain ⟨ks2, htail⟩ := maxTail_none V m S ks1 b1 hok1 ma f.asset mn f.parts hparts
                  by_cases h1 : mn < 0
                  · simp only [h1, if_true]
                    simp only [h1, if_true] at htail
                    simp only [exec_append, hex, hmon, push_upd, hc, htail]
                  · by_cases h2 : f.asset = ma
                    · simp only [h1, h2, if_false, ne_eq, not_true_eq_false]
                      simp only [h1, h2, if_false, ne_eq, not_true_eq_false] at htail
                      refine ⟨trivial, (repay_eq (ks := ks1) hok1 _ (takeMax_partsIn hparts mn).2).1, (takeMax_partsIn hparts mn).1, ks2, ?_⟩
                      simp only [exec_append, hex, hmon, push_upd, hc, htail, h2]
                    · simp only [h1, h2, if_false, ne_eq, not_false_eq_true, if_true]
                      simp only [h1, h2, if_false, ne_eq, not_false_eq_true, if_true] at htail
                      simp only [exec_append, hex, hmon, push_upd, hc, htail]
                | some fbA =>
                  rw [hfbk] at hfb
                  simp only [hfbk] at hs
                  have hc := emitSeq_exec cx hs hsub1
                  cases fb with
                  | none => exact hfb.elim
                  | some w =>
                    simp only [FbRel] at hfb
                    obtain ⟨ks2, htail⟩ := maxTail_some V m S ks1 b1 hok1 ma f.asset mn f.parts hparts fbA w hfb
                    by_cases h1 : mn < 0
                    · simp only [h1, if_true]
                      simp only [h1, if_true] at htail
                      simp only [exec_append, hex, hmon, push_upd, hc, htail]
                    · by_cases h2 : f.asset = ma
                      · simp only [h1, h2, if_false, ne_eq, not_true_eq_false]
                        simp only [h1, h2, if_false, ne_eq, not_true_eq_false] at htail
                        have hok2 := (repay_eq (ks := ks1) hok1 f.asset (takeMax_partsIn hparts mn).2).1
                        rw [h2] at hok2
                        have hwa := withdrawAlways_eq (B := ⟨m.balances.accts, ks1, Num.repay b1 ma (takeMax f.parts mn).2⟩) hok2 w ma
                          (if mn > total f.parts then mn - total f.parts else 0)
                        cases hwd : Num.withdrawAlways (Num.repay b1 ma (takeMax f.parts mn).2) w ma
                            (if mn > total f.parts then mn - total f.parts else 0) with
                        | error er =>
                          simp only [hwd] at htail
                          simp only [exec_append, hex, hmon, push_upd, hc, htail, h2]
                        | ok r =>
                          obtain ⟨p, b3⟩ := r
                          simp only [hwd] at htail hwa
                          obtain ⟨hp1, hp2, hp3, _⟩ := hwa
                          simp only [assemble_two, if_true]
                          refine ⟨trivial, hp3, ?_, ks2, ?_⟩
                          · apply concat_partsIn (concat_partsIn (by intro q hq; cases hq) (takeMax_partsIn hparts mn).1)
                            intro q hq
                            simp only [List.mem_singleton] at hq; subst hq; rw [hp1]; exact hp2
                          · simp only [exec_append, hex, hmon, push_upd, hc, htail, h2]
                      · simp only [h1, h2, if_false, ne_eq, not_false_eq_true, if_true]
                        simp only [h1, h2, if_false, ne_eq, not_false_eq_true, if_true] at htail
                        simp only [exec_append, hex, hmon, push_upd, hc, htail]
  | inorder ss =>
    simp only [Source.frag, Bool.and_eq_true, decide_eq_true_eq] at hf
    simp only [visitSource] at hv
    split at hv
    · cases hv
    · rename_i so1 n hso
      split at hv
      · cases hv
      · rename_i c st1 hs
        simp only [Except.ok.injEq] at hv; subst hv
        have hsub1 : Sub st1 R := hsub
        have hes := emitSeq_ext hs
        obtain ⟨hn, ih⟩ := sources_ok cx asset hpa hso (hsub1.of_ext hes) hidx hf.1 (by intro a ha; cases ha)
        have hc := emitSeq_exec cx hs hsub1
        intro m S ks b hok
        have h1 := ih m S ks b hok
        simp only [evalSource]
        cases hsrc : evalSources env asset ss b with
        | error er =>
          rw [hsrc] at h1
          simp only [exec_append, h1]
        | ok r =>
          obtain ⟨fs, fb, b1⟩ := r
          rw [hsrc] at h1
          obtain ⟨hfb, hok1, hparts, hlen, ks1, hex⟩ := h1
          have hlt : fs.length < 18446744073709551616 := by rw [hlen]; exact hf.2
          have hasm := step_assembleN V m S ks1 b1 fs hlt
          have hnn : (n : Int) = (fs.length : Int) := by rw [hn, hlen]
          simp only
          cases ha : assemble fs with
          | error er =>
            rw [ha] at hasm
            simp only [exec_append, hex, hc, runEmits, push_upd, hnn, hasm]
          | ok r =>
            rw [ha] at hasm
            refine ⟨hfb, hok1, ?_, ks1, ?_⟩
            · -- the parts of the assembled funding come from the parts of the pieces
              unfold assemble at ha
              split at ha
              · cases ha
              · split at ha
                · simp only [Except.ok.injEq] at ha; subst ha
                  simp only
                  have : ∀ (acc : Parts), PartsIn m.balances.accts acc → ∀ (l : List Fund), (∀ f ∈ l, PartsIn m.balances.accts f.parts) →
                      PartsIn m.balances.accts (l.foldl (fun acc f => concat acc f.parts) acc) := by
                    intro acc hacc l
                    induction l generalizing acc with
                    | nil => intro _; exact hacc
                    | cons g gs ihl =>
                      intro hl
                      exact ihl _ (concat_partsIn hacc (hl g (List.mem_cons_self ..))) (fun f hf => hl f (List.mem_cons_of_mem _ hf))
                  exact this [] (by intro q hq; cases hq) fs hparts
                · cases ha
            · simp only [exec_append, hex, hc, runEmits, push_upd, hnn, hasm]
theorem sources_ok {R : List Resource} {V : List BVal} {env : VEnv} (cx : Ctx R V env) (asset : Asset) {pa : Code}
    (hpa : ∀ m, exec V pa m = .ok (m.push (.asset asset)))
    {st : CState} {isAll : Bool} {ss : SourceList} {nd em : List Addr} {so : SrcOut} {n : Nat}
    (hv : visitSources st pa isAll ss nd em = .ok (so, n)) (hsub : Sub so.st R) (hidx : VarIdxOK st) (hf : ss.frag = true)
    (hnd : AcctAddrs st.resources nd) :
    n = ss.len ∧ SrcsSpec V env asset E ss so := by
  cases ss with
  | nil =>
    simp only [visitSources, Except.ok.injEq, Prod.mk.injEq] at hv
    obtain ⟨rfl, rfl⟩ := hv
    refine ⟨rfl, ?_⟩
    intro m S ks b hok
    simp only [evalSources]
    exact ⟨trivial, hok, (by intro f hf; cases hf), rfl, ks, rfl⟩
  | cons s rest =>
    simp only [SourceList.frag, Bool.and_eq_true] at hf
    simp only [visitSources] at hv
    split at hv
    · cases hv
    · rename_i so1 hso
      split at hv
      · cases hv
      · split at hv
        · cases hv
        · split at hv
          · cases hv
          · rename_i ro n' hro
            simp only [Except.ok.injEq, Prod.mk.injEq] at hv
            obtain ⟨rfl, rfl⟩ := hv
            have hsubr : Sub ro.st R := hsub
            obtain ⟨he1, ha1⟩ := visitSource_ok hso
            have hnd' : AcctAddrs so1.st.resources (unionAddr nd so1.needed) := by
              intro a ha
              rcases mem_unionAddr ha with h | h
              · exact he1.hasTy (hnd a h)
              · exact ha1 a h
            have he2 := (visitSources_ok (so := ro) hro hnd').1
            have ih1 := source_ok cx asset hpa hso (hsubr.of_ext he2) hidx hf.1
            obtain ⟨hn', ih2⟩ := sources_ok cx asset hpa hro hsubr (he1.varIdxOK hidx) hf.2 hnd'
            refine ⟨by simp [SourceList.len, hn'], ?_⟩
            intro m S ks b hok
            have h1 := ih1 m S ks b hok
            simp only [evalSources]
            cases hsrc : evalSource env asset s b with
            | error er =>
              rw [hsrc] at h1
              simp only [exec_append, h1]
            | ok r =>
              obtain ⟨f, fb, b1⟩ := r
              rw [hsrc] at h1
              obtain ⟨hfb1, hok1, hparts1, ks1, hex1⟩ := h1
              have h2 := ih2 m (.funding f.asset f.parts :: S) ks1 b1 hok1
              simp only
              cases hsrcs : evalSources env asset rest b1 with
              | error er =>
                rw [hsrcs] at h2
                simp only [exec_append, hex1, h2]
              | ok r =>
                obtain ⟨fs, fb', b2⟩ := r
                rw [hsrcs] at h2
                obtain ⟨hfb2, hok2, hparts2, hlen2, ks2, hex2⟩ := h2
                refine ⟨?_, hok2, ?_, by simp [SourceList.len, hlen2], ks2, ?_⟩
                · cases rest with
                  | nil => simpa [SourceList.isNil] using hfb1
                  | cons _ _ => simpa [SourceList.isNil] using hfb2
                · intro g hg
                  rcases List.mem_cons.mp hg with h' | hg
                  · rw [h']; exact hparts1
                  · exact hparts2 g hg
                · simp only [exec_append, hex1, hex2]
                  simp [fundVals]
end

end Num
