import Model.Log.Encode
import Lemmas.LogTime
import Lemmas.LogBase64
/-! Helper lemmas for `C13.roundtrip`: decoding the tree `toJson` builds, piece by piece. -/
namespace LogM

theorem mapME_map {α β} (f : α → β) (g : β → Except Err α) (l : List α) (h : ∀ x ∈ l, g (f x) = .ok x) :
    mapME g (l.map f) = .ok l := by
  induction l with
  | nil => rfl
  | cons x xs ih =>
    have hx := h x (List.mem_cons_self ..)
    have := ih (fun y hy => h y (List.mem_cons_of_mem _ hy))
    simp [mapME, hx, this]

theorem time_rt (t : Time) (wf : TimeWF t) : timeOfJson (some (timeJ t)) = .ok t := by
  simp [timeOfJson, timeJ, parseTime_formatTime t wf]

theorem meta_rt (m : Meta) (wf : MetaWF m) : metaOfJson (some (metaJ m)) = .ok m := by
  cases m with
  | none => rfl
  | some kvs =>
    have hm : mapME metaEntry (kvs.map fun kv => (kv.1, Json.str kv.2)) = .ok kvs :=
      mapME_map _ _ kvs (fun x _ => by simp [metaEntry])
    have hn : normMap kvs = kvs := wf
    simp [metaOfJson, metaJ, Json.mkObj, hm, hn]

theorem accMeta_rt (m : AccMeta) (wf : AccMetaWF m) : accMetaOfJson (some (accMetaJ m)) = .ok m := by
  cases m with
  | none => rfl
  | some l =>
    obtain ⟨hn, hall⟩ := wf
    have hm : mapME accMetaEntry (l.map fun kv => (kv.1, metaJ kv.2)) = .ok l :=
      mapME_map _ _ l (fun x hx => by simp [accMetaEntry, meta_rt x.2 (hall x hx)])
    have hn' : normMap l = l := hn
    simp [accMetaOfJson, accMetaJ, Json.mkObj, hm, hn']

theorem posting_rt (p : Posting) : postingOfJson (postingJ p) = .ok p := by
  simp [postingOfJson, postingJ, Json.mkObj, optStr, reqInt]

theorem postings_rt (ps : Option (List Posting)) : postingsOfJson (some (postingsJ ps)) = .ok ps := by
  cases ps with
  | none => rfl
  | some l =>
    have hm : mapME postingOfJson (l.map postingJ) = .ok l := mapME_map _ _ l (fun x _ => posting_rt x)
    simp [postingsOfJson, postingsJ, Json.mkArr, hm]

theorem tx_rt (t : Tx) (wf : TxWF t) : txOfJson (some (txJ t)) = .ok t := by
  obtain ⟨hm, ht⟩ := wf
  have h1 := postings_rt t.postings
  have h2 := meta_rt t.metadata hm
  have h3 := time_rt t.timestamp ht
  by_cases hr : t.reference = ""
  · simp [txOfJson, txJ, Json.mkObj, hr, h1, h2, h3, optStr, reqInt, optBool]
    cases t; simp_all
  · simp [txOfJson, txJ, Json.mkObj, hr, h1, h2, h3, optStr, reqInt, optBool]

theorem upper_account : upper "ACCOUNT" = "ACCOUNT" := by decide
theorem upper_transaction : upper "TRANSACTION" = "TRANSACTION" := by decide

theorem target_rt (tt : String) (tg : TargetId) (wf : TargetWF tt tg) : targetOfJson tt (some (targetJ tg)) = .ok tg := by
  cases tg with
  | account a =>
    have : tt = "ACCOUNT" := wf
    subst this
    simp [targetOfJson, targetJ, upper_account]
  | tx id =>
    obtain ⟨h, h0, h1⟩ := wf
    subst h
    have hne : ¬ ("TRANSACTION" = "ACCOUNT") := by decide
    simp [targetOfJson, targetJ, upper_transaction, hne, h0, h1]

theorem logType_rt (ty : LogType) : LogType.ofName ty.name = .ok ty := by
  cases ty <;> simp [LogType.ofName, LogType.name]

theorem payload_rt (p : Payload) (wf : PayloadWF p) : payloadOfJson p.logType (some (payloadJ p)) = .ok p := by
  cases p with
  | newTx tx am =>
    obtain ⟨h1, h2⟩ := wf
    simp [payloadOfJson, payloadJ, Payload.logType, Json.mkObj, tx_rt tx h1, accMeta_rt am h2]
  | reverted rid tx =>
    have h1 : TxWF tx := wf
    simp [payloadOfJson, payloadJ, Payload.logType, Json.mkObj, tx_rt tx h1, reqInt]
  | setMeta tt tg md =>
    obtain ⟨h1, h2⟩ := wf
    simp [payloadOfJson, payloadJ, Payload.logType, Json.mkObj, target_rt tt tg h1, meta_rt md h2, optStr]
  | delMeta tt tg key =>
    have h1 : TargetWF tt tg := wf
    simp [payloadOfJson, payloadJ, Payload.logType, Json.mkObj, target_rt tt tg h1, optStr]

theorem hash_rt (h : Option (List UInt8)) : hashOfJson (some (hashJ h)) = .ok h := by
  cases h with
  | none => rfl
  | some bs => simp [hashOfJson, hashJ, b64Dec_b64Enc]


/-! `MapWF` made readable: strictly increasing keys are enough -/

theorem insertKV_last {α} (k : String) (v : α) (acc : List (String × α)) (h : ∀ kv ∈ acc, kv.1 < k) :
    insertKV k v acc = acc ++ [(k, v)] := by
  induction acc with
  | nil => rfl
  | cons x xs ih =>
    obtain ⟨k', v'⟩ := x
    have hk : k' < k := h (k', v') (List.mem_cons_self ..)
    have h1 : ¬ k < k' := fun hc => String.lt_irrefl _ (String.lt_trans hc hk)
    have h2 : ¬ k = k' := fun hc => by subst hc; exact String.lt_irrefl _ hk
    simp [insertKV, h1, h2, ih (fun kv hkv => h kv (List.mem_cons_of_mem _ hkv))]

theorem foldl_insert_sorted {α} (pre l : List (String × α)) (h : (pre ++ l).Pairwise (fun a b => a.1 < b.1)) :
    l.foldl (fun acc kv => insertKV kv.1 kv.2 acc) pre = pre ++ l := by
  induction l generalizing pre with
  | nil => simp
  | cons x xs ih =>
    have hx : ∀ kv ∈ pre, kv.1 < x.1 := by
      intro kv hkv
      rw [List.pairwise_append] at h
      exact h.2.2 kv hkv x (List.mem_cons_self ..)
    have h' : ((pre ++ [x]) ++ xs).Pairwise (fun a b => a.1 < b.1) := by simpa using h
    have := ih (pre ++ [x]) h'
    simp only [List.foldl_cons, insertKV_last x.1 x.2 pre hx]
    simpa using this

theorem mapWF_of_sorted {α} [DecidableEq α] (l : List (String × α)) (h : l.Pairwise (fun a b => a.1 < b.1)) : MapWF l := by
  have := foldl_insert_sorted [] l (by simpa using h)
  simpa [MapWF, normMap] using this

end LogM
