import Model.Engine.Chain
/-! Invariant of the `Chain` component. -/
namespace Engine.Chain
open Engine

theorem idsOk_append (i : Nat) (ls ms : List LogE) :
    idsOk i (ls ++ ms) ↔ idsOk i ls ∧ idsOk (i + ls.length) ms := by
  induction ls generalizing i with
  | nil => simp [idsOk]
  | cons l ls ih =>
    simp only [List.cons_append, idsOk, ih (i + 1), List.length_cons]
    have : i + 1 + ls.length = i + (ls.length + 1) := by omega
    rw [this]
    constructor
    · rintro ⟨h1, h2, h3, h4, h5⟩; exact ⟨⟨h1, h2, h3, h4⟩, h5⟩
    · rintro ⟨⟨h1, h2, h3, h4⟩, h5⟩; exact ⟨h1, h2, h3, h4, h5⟩

theorem txOk_append (k : Nat) (ls ms : List LogE) :
    txOk k (ls ++ ms) ↔ txOk k ls ∧ txOk (k + countTx ls) ms := by
  induction ls generalizing k with
  | nil => simp [txOk, countTx]
  | cons l ls ih =>
    cases ht : l.txid with
    | none =>
      have hc : countTx (l :: ls) = countTx ls := by simp [countTx, LogE.isTx, ht]
      simp only [List.cons_append, txOk, ht, ih k, hc]
    | some t =>
      have hc : countTx (l :: ls) = countTx ls + 1 := by simp [countTx, LogE.isTx, ht]
      simp only [List.cons_append, txOk, ht, ih (k + 1), hc]
      have : k + 1 + countTx ls = k + (countTx ls + 1) := by omega
      rw [this]
      constructor
      · rintro ⟨h1, h2, h3⟩; exact ⟨⟨h1, h2⟩, h3⟩
      · rintro ⟨⟨h1, h2⟩, h3⟩; exact ⟨h1, h2, h3⟩

theorem countTx_append (ls ms : List LogE) : countTx (ls ++ ms) = countTx ls + countTx ms := by
  simp [countTx, List.filter_append]

theorem getLast_id_of_idsOk (i : Nat) (ls : List LogE) (h : idsOk i ls) :
    ls.getLast?.map (·.id) = if ls = [] then none else some (i + ls.length - 1) := by
  induction ls generalizing i with
  | nil => simp
  | cons l ls ih =>
    obtain ⟨h1, _, _, h4⟩ := h
    cases ls with
    | nil => simp [h1]
    | cons m ms =>
      have := ih (i + 1) h4
      simp only [List.getLast?_cons_cons]
      rw [this]
      simp; omega

theorem nextId_eq (s : S) (hi : Inv s) : nextId s = (all s).length := by
  have := getLast_id_of_idsOk 0 (all s) hi.chain.1
  unfold nextId
  rw [hi.last, this]
  by_cases h : all s = []
  · simp [h]
  · have : 0 < (all s).length := List.length_pos_iff.mpr h
    simp [h]; omega

theorem reinit_inv (d : List LogE) (h : ChainOK d) : Inv (reinit d) := by
  refine ⟨by simpa [all, reinit] using h, by simp [all, reinit], by simp [all, reinit]⟩

/-- every accepted event preserves the invariant -/
theorem step_inv (s : S) (e : Ev) (s' : S) (hi : Inv s) (h : step s e = .ok s') : Inv s' := by
  cases e with
  | committed a l lt =>
    simp only [step] at h
    split at h
    · cases h
    · rename_i hid
      split at h
      · cases h
      · rename_i hprev
        split at h
        · cases h
        · rename_i hhash
          have hid' : l.id = (all s).length := by
            have := nextId_eq s hi
            simp at hid; omega
          have hhash' : l.hashOk = true := by simpa using hhash
          have hprev' : l.prevId = s.last := by simpa using hprev
          have hlast := getLast_id_of_idsOk 0 (all s) hi.chain.1
          have hpv : l.prevId = (if (all s).length = 0 then none else some ((all s).length - 1)) := by
            rw [hprev', hi.last, hlast]
            by_cases hn : all s = []
            · simp [hn]
            · have : (all s).length ≠ 0 := by simpa using hn
              simp [hn, this]
          have hids : idsOk 0 (all s ++ [l]) := by
            rw [idsOk_append]
            refine ⟨hi.chain.1, ?_⟩
            simp only [idsOk, Nat.zero_add, and_true]
            exact ⟨hid', hhash', hpv⟩
          cases ht : l.txid with
          | none =>
            simp only [ht] at h
            split at h
            · cases h
            · simp only [Except.ok.injEq] at h
              subst h
              have hall : all { s with pending := s.pending ++ [l], last := some l.id } = all s ++ [l] := by
                simp [all]
              refine ⟨?_, ?_, ?_⟩
              · rw [hall]
                refine ⟨hids, ?_⟩
                rw [txOk_append]
                exact ⟨hi.chain.2, by simp [txOk, ht]⟩
              · rw [hall]; simp
              · rw [hall, countTx_append]
                have : countTx [l] = 0 := by simp [countTx, LogE.isTx, ht]
                simp [this, hi.lastTx]
          | some t =>
            simp only [ht] at h
            split at h
            · cases h
            · rename_i htx
              split at h
              · cases h
              · simp only [Except.ok.injEq] at h
                subst h
                have hall : all { s with pending := s.pending ++ [l], last := some l.id, lastTx := s.lastTx + 1 } = all s ++ [l] := by
                  simp [all]
                have htx' : (t : Int) = s.lastTx + 1 := by simpa using htx
                have htc : t = countTx (all s) := by
                  have := hi.lastTx; omega
                refine ⟨?_, ?_, ?_⟩
                · rw [hall]
                  refine ⟨hids, ?_⟩
                  rw [txOk_append]
                  refine ⟨hi.chain.2, ?_⟩
                  simp [txOk, ht, htc]
                · rw [hall]; simp
                · rw [hall, countTx_append]
                  have : countTx [l] = 1 := by simp [countTx, LogE.isTx, ht]
                  simp only [this]
                  have := hi.lastTx
                  push_cast; omega
  | gate n ok =>
    simp only [step] at h
    split at h
    · cases h
    · cases ok with
      | false => simp at h; subst h; exact hi
      | true =>
        simp only [if_true, Except.ok.injEq] at h
        subst h
        have hall : all { s with durable := s.durable ++ s.pending.take n, pending := s.pending.drop n } = all s := by
          simp [all, List.append_assoc, List.take_append_drop]
        exact ⟨by rw [hall]; exact hi.chain, by rw [hall]; exact hi.last, by rw [hall]; exact hi.lastTx⟩
  | crash =>
    simp only [step, Except.ok.injEq] at h
    subst h
    apply reinit_inv
    have h1 := (idsOk_append 0 s.durable s.pending).mp hi.chain.1
    have h2 := (txOk_append 0 s.durable s.pending).mp hi.chain.2
    exact ⟨h1.1, h2.1⟩
  | resume _ _ => simp [step] at h; subst h; exact hi
  | arrive _ _ => simp [step] at h; subst h; exact hi
  | finish _ _ _ _ => simp [step] at h; subst h; exact hi
  | ikRead _ _ _ => simp [step] at h; subst h; exact hi
  | refRead _ _ _ => simp [step] at h; subst h; exact hi
  | txRead _ _ _ _ => simp [step] at h; subst h; exact hi
  | balRead _ _ _ _ => simp [step] at h; subst h; exact hi
  | lock _ _ _ => simp [step] at h; subst h; exact hi
  | unlock _ => simp [step] at h; subst h; exact hi
  | publish _ _ => simp [step] at h; subst h; exact hi
  | taken _ _ _ _ => simp [step] at h; subst h; exact hi

end Engine.Chain
