import Model.Log.Base64
/-! base64: decoding what was encoded gives the bytes back -/
namespace LogM

theorem b64Val_b64Char_fin : ∀ i : Fin 64, b64Val (b64Char i.val) = some i.val ∧ b64Char i.val ≠ '=' := by decide

theorem b64Val_b64Char (i : Nat) (h : i < 64) : b64Val (b64Char i) = some i := (b64Val_b64Char_fin ⟨i, h⟩).1
theorem b64Char_ne_pad (i : Nat) (h : i < 64) : b64Char i ≠ '=' := (b64Val_b64Char_fin ⟨i, h⟩).2

theorem ofNat_toNat_eq (a : UInt8) (n : Nat) (h : n = a.toNat) : UInt8.ofNat n = a := by
  subst h; exact UInt8.ofNat_toNat

theorem b64Dec_b64Enc : ∀ bs : List UInt8, b64Dec (b64Enc bs) = some bs
  | [] => rfl
  | [a] => by
    have ha : a.toNat < 256 := a.toNat_lt
    have h1 : a.toNat * 65536 / 262144 < 64 := by omega
    have h2 : a.toNat * 65536 / 4096 % 64 < 64 := by omega
    simp only [b64Enc, b64Dec, b64Val_b64Char _ h1, b64Val_b64Char _ h2]
    simp
    apply ofNat_toNat_eq; omega
  | [a, b] => by
    have ha : a.toNat < 256 := a.toNat_lt
    have hb : b.toNat < 256 := b.toNat_lt
    have h1 : (a.toNat * 65536 + b.toNat * 256) / 262144 < 64 := by omega
    have h2 : (a.toNat * 65536 + b.toNat * 256) / 4096 % 64 < 64 := by omega
    have h3 : (a.toNat * 65536 + b.toNat * 256) / 64 % 64 < 64 := by omega
    simp only [b64Enc, b64Dec, b64Val_b64Char _ h1, b64Val_b64Char _ h2, b64Val_b64Char _ h3, b64Char_ne_pad _ h3]
    simp
    constructor <;> (apply ofNat_toNat_eq; omega)
  | a :: b :: c :: rest => by
    have ih := b64Dec_b64Enc rest
    have ha : a.toNat < 256 := a.toNat_lt
    have hb : b.toNat < 256 := b.toNat_lt
    have hc : c.toNat < 256 := c.toNat_lt
    have h1 : (a.toNat * 65536 + b.toNat * 256 + c.toNat) / 262144 < 64 := by omega
    have h2 : (a.toNat * 65536 + b.toNat * 256 + c.toNat) / 4096 % 64 < 64 := by omega
    have h3 : (a.toNat * 65536 + b.toNat * 256 + c.toNat) / 64 % 64 < 64 := by omega
    have h4 : (a.toNat * 65536 + b.toNat * 256 + c.toNat) % 64 < 64 := by omega
    simp only [b64Enc, b64Dec, b64Val_b64Char _ h1, b64Val_b64Char _ h2, b64Val_b64Char _ h3, b64Val_b64Char _ h4,
      b64Char_ne_pad _ h3, b64Char_ne_pad _ h4, ih]
    simp
    refine ⟨?_, ?_, ?_⟩ <;> (apply ofNat_toNat_eq; omega)

end LogM
