import Model.Store.Spec
/-! Helper lemmas about `Store.replay` (C04).  Property statements live in `Props/C04.lean`. -/
namespace Store

-- ---------------------------------------------------------------- sums

theorem sum_map_add {α} (l : List α) (f g : α → Nat) :
    (l.map (fun a => f a + g a)).sum = (l.map f).sum + (l.map g).sum := by
  induction l with
  | nil => simp
  | cons x xs ih => simp [ih]; omega

theorem sum_map_zero {α} (l : List α) : (l.map (fun _ => (0 : Nat))).sum = 0 := by
  induction l with
  | nil => simp
  | cons x xs ih => simpa using ih

theorem sum_map_ite_eq (l : List String) (x : String) (c : Nat) (hn : l.Nodup) (hx : x ∈ l) :
    (l.map (fun a => if x = a then c else 0)).sum = c := by
  induction l with
  | nil => cases hx
  | cons y ys ih =>
    have hn' := List.nodup_cons.mp hn
    by_cases hxy : x = y
    · subst hxy
      have : (ys.map (fun a => if x = a then c else 0)) = ys.map (fun _ => 0) := by
        apply List.map_congr_left
        intro a ha
        have : x ≠ a := fun h => hn'.1 (h ▸ ha)
        simp [this]
      simp [this, sum_map_zero]
    · have hx' : x ∈ ys := by
        cases hx with
        | head => exact absurd rfl hxy
        | tail _ h => exact h
      simp [hxy, ih hn'.2 hx']

-- ---------------------------------------------------------------- volumes

/-- total over all accounts -/
def selAll (w : When) (asset : String) (src : Bool) (m : Move) : Bool :=
  m.asset == asset && m.isSource == src && w m.insertedAt m.effective

def total (ms : List Move) (w : When) (asset : String) (src : Bool) : Nat :=
  ((ms.filter (selAll w asset src)).map (·.amount)).sum

theorem volume_nil (w : When) (a x : String) (s : Bool) : volume [] w a x s = 0 := by simp [volume]

theorem volume_cons (m : Move) (ms : List Move) (w : When) (a x : String) (s : Bool) :
    volume (m :: ms) w a x s = (if sel w a x s m then m.amount else 0) + volume ms w a x s := by
  unfold volume
  by_cases h : sel w a x s m = true <;> simp [h]

theorem volume_append (ms ns : List Move) (w : When) (a x : String) (s : Bool) :
    volume (ms ++ ns) w a x s = volume ms w a x s + volume ns w a x s := by
  simp [volume, List.filter_append, List.sum_append]

theorem total_cons (m : Move) (ms : List Move) (w : When) (x : String) (s : Bool) :
    total (m :: ms) w x s = (if selAll w x s m then m.amount else 0) + total ms w x s := by
  unfold total
  by_cases h : selAll w x s m = true <;> simp [h]

theorem total_append (ms ns : List Move) (w : When) (x : String) (s : Bool) :
    total (ms ++ ns) w x s = total ms w x s + total ns w x s := by
  simp [total, List.filter_append, List.sum_append]

theorem sel_eq (w : When) (a x : String) (s : Bool) (m : Move) :
    sel w a x s m = (decide (m.account = a) && selAll w x s m) := by
  by_cases h : m.account = a <;> simp [sel, selAll, Bool.and_assoc, h]

/-- summing the per-account volumes over a duplicate-free list that contains every account of the moves gives the total -/
theorem sum_volume_eq_total (as : List String) (ms : List Move) (w : When) (x : String) (s : Bool)
    (hn : as.Nodup) (hc : ∀ m ∈ ms, m.account ∈ as) :
    (as.map (fun a => volume ms w a x s)).sum = total ms w x s := by
  induction ms with
  | nil => simp [volume_nil, total, sum_map_zero]
  | cons m ms ih =>
    have hm : m.account ∈ as := hc m (List.mem_cons_self ..)
    have ih' := ih (fun m' h' => hc m' (List.mem_cons_of_mem _ h'))
    simp only [volume_cons, total_cons]
    rw [sum_map_add, ih']
    congr 1
    by_cases hs : selAll w x s m = true
    · have : (fun a => if sel w a x s m = true then m.amount else 0) = (fun a => if m.account = a then m.amount else 0) := by
        funext a; simp [sel_eq, hs]
      rw [this, sum_map_ite_eq as m.account m.amount hn hm]; simp [hs]
    · have : (fun a => if sel w a x s m = true then m.amount else 0) = (fun _ => 0) := by
        funext a; simp [sel_eq, hs]
      rw [this, sum_map_zero]; simp [hs]

/-- the two moves of a posting carry the same amount on the same asset and dates: totals stay balanced -/
theorem total_txMoves_balanced (d : Int) (tx : Tx) (w : When) (x : String) :
    total (txMoves d tx) w x false = total (txMoves d tx) w x true := by
  unfold txMoves
  induction tx.postings with
  | nil => simp [total]
  | cons p ps ih =>
    simp only [List.flatMap_cons, total_append, ih]
    congr 1
    simp only [postingMoves, total_cons, selAll]
    by_cases hx : (p.asset == x) = true <;> by_cases hw : w d tx.timestamp = true <;> simp [hx, hw, total]

-- ---------------------------------------------------------------- accounts

theorem hasAcct_iff (as : List AcctRec) (a : String) : hasAcct as a = true ↔ a ∈ as.map (·.address) := by
  simp [hasAcct, List.any_eq_true]

theorem touch_addresses (as : List AcctRec) (a : String) (d : Int) :
    (touch as a d).map (·.address) = if a ∈ as.map (·.address) then as.map (·.address) else as.map (·.address) ++ [a] := by
  unfold touch
  by_cases h : hasAcct as a = true
  · have := (hasAcct_iff as a).mp h
    simp [h, this]
  · have h' : ¬ a ∈ as.map (·.address) := fun hh => h ((hasAcct_iff as a).mpr hh)
    simp [h, h']

theorem touch_nodup (as : List AcctRec) (a : String) (d : Int) (hn : (as.map (·.address)).Nodup) :
    ((touch as a d).map (·.address)).Nodup := by
  rw [touch_addresses]
  by_cases h : a ∈ as.map (·.address)
  · simp [h, hn]
  · simp only [h, if_false]
    rw [List.nodup_append]
    refine ⟨hn, by simp, ?_⟩
    intro x hx y hy
    simp at hy
    subst hy
    intro hxy; subst hxy; exact h hx

theorem touch_mem (as : List AcctRec) (a : String) (d : Int) : a ∈ (touch as a d).map (·.address) := by
  rw [touch_addresses]
  by_cases h : a ∈ as.map (·.address) <;> simp [h]

theorem touch_mono (as : List AcctRec) (a b : String) (d : Int) (hb : b ∈ as.map (·.address)) :
    b ∈ (touch as a d).map (·.address) := by
  rw [touch_addresses]
  by_cases h : a ∈ as.map (·.address)
  · simp only [h, if_true]; exact hb
  · simp only [h, if_false]; exact List.mem_append_left _ hb

theorem touchAll_nodup (addrs : List String) (as : List AcctRec) (d : Int) (hn : (as.map (·.address)).Nodup) :
    ((touchAll as addrs d).map (·.address)).Nodup := by
  induction addrs generalizing as with
  | nil => simpa [touchAll] using hn
  | cons a rest ih =>
    simp only [touchAll, List.foldl_cons]
    exact ih (touch as a d) (touch_nodup as a d hn)

theorem touchAll_mono (addrs : List String) (as : List AcctRec) (d : Int) (b : String) (hb : b ∈ as.map (·.address)) :
    b ∈ (touchAll as addrs d).map (·.address) := by
  induction addrs generalizing as with
  | nil => simpa [touchAll] using hb
  | cons a rest ih =>
    simp only [touchAll, List.foldl_cons]
    exact ih (touch as a d) (touch_mono as a b d hb)

theorem touchAll_mem (addrs : List String) (as : List AcctRec) (d : Int) (b : String) (hb : b ∈ addrs) :
    b ∈ (touchAll as addrs d).map (·.address) := by
  induction addrs generalizing as with
  | nil => cases hb
  | cons a rest ih =>
    simp only [touchAll, List.foldl_cons]
    cases hb with
    | head => exact touchAll_mono rest (touch as b d) d b (touch_mem as b d)
    | tail _ h => exact ih (touch as a d) h

theorem reviseAcct_addresses (as : List AcctRec) (a : String) (d : Int) (f : Meta → Meta) :
    (reviseAcct as a d f).map (·.address) = as.map (·.address) := by
  unfold reviseAcct
  rw [List.map_map]
  apply List.map_congr_left
  intro r _
  by_cases h : r.address = a <;> simp [h]

theorem setAcctMeta_nodup (as : List AcctRec) (a : String) (d : Int) (m : Meta) (hn : (as.map (·.address)).Nodup) :
    ((setAcctMeta as a d m).map (·.address)).Nodup := by
  unfold setAcctMeta; rw [reviseAcct_addresses]; exact touch_nodup as a d hn

theorem setAcctMeta_mono (as : List AcctRec) (a b : String) (d : Int) (m : Meta) (hb : b ∈ as.map (·.address)) :
    b ∈ (setAcctMeta as a d m).map (·.address) := by
  unfold setAcctMeta; rw [reviseAcct_addresses]; exact touch_mono as a b d hb

theorem applyAccountMeta_nodup (am : List (String × Meta)) (as : List AcctRec) (d : Int) (hn : (as.map (·.address)).Nodup) :
    ((applyAccountMeta as am d).map (·.address)).Nodup := by
  induction am generalizing as with
  | nil => simpa [applyAccountMeta] using hn
  | cons km rest ih =>
    simp only [applyAccountMeta, List.foldl_cons]
    exact ih _ (setAcctMeta_nodup as km.1 d km.2 hn)

theorem applyAccountMeta_mono (am : List (String × Meta)) (as : List AcctRec) (d : Int) (b : String)
    (hb : b ∈ as.map (·.address)) : b ∈ (applyAccountMeta as am d).map (·.address) := by
  induction am generalizing as with
  | nil => simpa [applyAccountMeta] using hb
  | cons km rest ih =>
    simp only [applyAccountMeta, List.foldl_cons]
    exact ih _ (setAcctMeta_mono as km.1 b d km.2 hb)

theorem txMoves_accounts (d : Int) (tx : Tx) (m : Move) (hm : m ∈ txMoves d tx) :
    m.account ∈ postingAccounts tx.postings := by
  unfold txMoves at hm
  unfold postingAccounts
  simp only [List.mem_flatMap] at hm ⊢
  obtain ⟨p, hp, hmp⟩ := hm
  refine ⟨p, hp, ?_⟩
  simp [postingMoves] at hmp
  rcases hmp with h | h <;> simp [h]

-- ---------------------------------------------------------------- the invariant behind conservation

/-- accounts are listed once, every move belongs to a listed account, and per asset the moves are balanced -/
structure Balanced (st : LedgerState) : Prop where
  nodup : (accounts st).Nodup
  covered : ∀ m ∈ st.moves, m.account ∈ accounts st
  bal : ∀ (w : When) (x : String), total st.moves w x false = total st.moves w x true

theorem balanced_empty : Balanced {} := ⟨by simp [accounts], by simp, by simp [total]⟩

theorem balanced_insertTx (st : LedgerState) (d : Int) (tx : Tx) (h : Balanced st) : Balanced (insertTx st d tx) := by
  refine ⟨?_, ?_, ?_⟩
  · exact touchAll_nodup _ _ _ h.nodup
  · intro m hm
    simp only [insertTx, List.mem_append] at hm
    cases hm with
    | inl hm => exact touchAll_mono _ _ _ _ (h.covered m hm)
    | inr hm => exact touchAll_mem _ _ _ _ (txMoves_accounts d tx m hm)
  · intro w x
    simp only [insertTx, total_append, h.bal w x, total_txMoves_balanced]

theorem balanced_accts (st : LedgerState) (as : List AcctRec) (h : Balanced st)
    (hn : (as.map (·.address)).Nodup) (hm : ∀ b ∈ st.accts.map (·.address), b ∈ as.map (·.address)) :
    Balanced { st with accts := as } :=
  ⟨hn, fun m hmm => hm _ (h.covered m hmm), h.bal⟩

theorem balanced_txs (st : LedgerState) (ts : List TxRec) (h : Balanced st) : Balanced { st with txs := ts } :=
  ⟨h.nodup, h.covered, h.bal⟩

theorem balanced_applyPayload (st : LedgerState) (d : Int) (p : Payload) (h : Balanced st) :
    Balanced (applyPayload st d p) := by
  cases p with
  | newTx tx am =>
    have h1 := balanced_insertTx st d tx h
    exact balanced_accts _ _ h1 (applyAccountMeta_nodup am _ d h1.nodup) (fun b hb => applyAccountMeta_mono am _ d b hb)
  | revert rid tx => exact balanced_txs _ _ (balanced_insertTx st d tx h)
  | setMeta t m =>
    cases t with
    | account a => exact balanced_accts _ _ h (setAcctMeta_nodup _ a d m h.nodup) (fun b hb => setAcctMeta_mono _ a b d m hb)
    | transaction id => exact balanced_txs _ _ h
  | delMeta t k =>
    cases t with
    | account a =>
      exact balanced_accts _ _ h (by rw [reviseAcct_addresses]; exact h.nodup) (fun b hb => by rw [reviseAcct_addresses]; exact hb)
    | transaction id => exact balanced_txs _ _ h

theorem balanced_step (st : LedgerState) (log : CLog) (h : Balanced st) : Balanced (stepLedger st log) := by
  have := balanced_applyPayload st log.date log.payload h
  exact ⟨this.nodup, this.covered, this.bal⟩

theorem balanced_replayFrom (logs : List CLog) (st : LedgerState) (h : Balanced st) : Balanced (replayLedgerFrom st logs) := by
  induction logs generalizing st with
  | nil => simpa [replayLedgerFrom] using h
  | cons l ls ih =>
    simp only [replayLedgerFrom, List.foldl_cons]
    exact ih _ (balanced_step st l h)

-- ---------------------------------------------------------------- the global fold and the per-ledger fold

theorem replayFrom_filter (logs : List CLog) (v : View) (l : String) :
    replayFrom v logs l = replayLedgerFrom (v l) (logs.filter (fun x => x.ledger == l)) := by
  induction logs generalizing v with
  | nil => simp [replayFrom, replayLedgerFrom]
  | cons x xs ih =>
    simp only [replayFrom, List.foldl_cons] at ih ⊢
    rw [ih]
    by_cases h : l = x.ledger
    · subst h; simp [step, replayLedgerFrom]
    · have h' : (x.ledger == l) = false := by simpa using fun hh => h hh.symm
      simp [step, h, h']

theorem replay_filter (logs : List CLog) (l : String) :
    replay logs l = replayLedger (logs.filter (fun x => x.ledger == l)) := by
  simp [replay, replayLedger, replayFrom_filter]

end Store
