import Model.Engine.Events
/-! Invariant of the `Events` component (C16). -/
namespace Engine.Events
open Engine

theorem init_inv (dry : Nat → Bool) (funding : List LogE) : Inv dry (init funding) := by
  refine ⟨?_, ?_, ?_⟩ <;> simp [init]

/-- what only grows: the store (at its end), the bus, the answers -/
structure Ext (s s' : S) : Prop where
  durable : ∃ t, s'.durable = s.durable ++ t
  published : ∀ e ∈ s.published, e ∈ s'.published
  acked : ∀ x ∈ s.acked, x ∈ s'.acked

theorem Ext.refl (s : S) : Ext s s := ⟨⟨[], by simp⟩, fun _ h => h, fun _ h => h⟩

theorem Ext.trans {s₁ s₂ s₃ : S} (h₁ : Ext s₁ s₂) (h₂ : Ext s₂ s₃) : Ext s₁ s₃ := by
  obtain ⟨t₁, e₁⟩ := h₁.durable
  obtain ⟨t₂, e₂⟩ := h₂.durable
  exact ⟨⟨t₁ ++ t₂, by rw [e₂, e₁, List.append_assoc]⟩, fun x h => h₂.published x (h₁.published x h),
    fun x h => h₂.acked x (h₁.acked x h)⟩

/-- an accepted `publish`: the publisher is a real write, the event describes *its* entry, and that entry is
persisted at that moment -/
theorem publish_ok {dry : Nat → Bool} {isTx : Nat → Bool} {s s' : S} {a : Nat} {e : BusEv}
    (h : step dry isTx s (.publish a e) = .ok s') :
    dry a = false ∧ s' = { s with published := e :: s.published } ∧
      ∃ l, entryOf s a = some l ∧ describes e l = true ∧ l ∈ s.durable := by
  simp only [step] at h
  split at h
  · cases h
  · rename_i hdry
    split at h
    · split at h
      · rename_i l hl
        split at h
        · rename_i hc
          simp only [Except.ok.injEq] at h
          exact ⟨by simpa using hdry, h.symm, l, hl, hc.1, hc.2⟩
        · cases h
      · cases h
    · cases h

/-- an accepted successful answer of a real write: its entry has been published -/
theorem finish_ok {dry : Nat → Bool} {isTx : Nat → Bool} {s s' : S} {a : Nat} {err : String} {t : Option Nat}
    (hd : dry a = false) (h : step dry isTx s (.finish a true err t) = .ok s') :
    ∃ l, entryOf s a = some l ∧ s' = { s with acked := (a, l) :: s.acked } ∧
      ∃ e ∈ s.published, describes e l = true := by
  simp only [step] at h
  split at h
  · rename_i hdry; rw [hd] at hdry; cases hdry
  · split at h
    · rename_i l hl
      split at h
      · rename_i hp
        simp only [Except.ok.injEq] at h
        obtain ⟨e, he, hde⟩ := List.any_eq_true.mp hp
        exact ⟨l, hl, h.symm, e, he, hde⟩
      · cases h
    · cases h

/-- the answer of a preview leaves the state alone -/
theorem finish_dry_same {dry : Nat → Bool} {isTx : Nat → Bool} {s s' : S} {a : Nat} {err : String} {t : Option Nat}
    (hd : dry a = true) (h : step dry isTx s (.finish a true err t) = .ok s') : s' = s := by
  simp only [step, hd, if_true] at h
  split at h
  · split at h
    · cases h
    · simp only [Except.ok.injEq] at h; exact h.symm
  · split at h
    · cases h
    · simp only [Except.ok.injEq] at h; exact h.symm

/-- every accepted event preserves the invariant and only extends store, bus and answers -/
theorem step_inv_ext (dry : Nat → Bool) (isTx : Nat → Bool) (s : S) (e : Ev) (s' : S) (hi : Inv dry s)
    (h : step dry isTx s e = .ok s') : Inv dry s' ∧ Ext s s' := by
  cases e with
  | arrive a pt =>
    simp only [step] at h
    split at h
    · simp only [Except.ok.injEq] at h; subst h
      exact ⟨⟨hi.faithful, hi.ackedPub, hi.real⟩, ⟨[], by simp⟩, fun _ h => h, fun _ h => h⟩
    · simp only [Except.ok.injEq] at h; subst h; exact ⟨hi, Ext.refl s⟩
  | committed a l lt =>
    simp only [step] at h
    split at h
    · cases h
    · rename_i hdry
      simp only [Except.ok.injEq] at h; subst h
      refine ⟨⟨hi.faithful, hi.ackedPub, ?_⟩, ⟨[], by simp⟩, fun _ h => h, fun _ h => h⟩
      intro x hx
      rcases List.mem_cons.mp hx with hx | hx
      · subst hx; simpa using hdry
      · exact hi.real x hx
  | gate n ok =>
    simp only [step] at h
    split at h
    · cases h
    · cases ok with
      | false => simp at h; subst h; exact ⟨hi, Ext.refl s⟩
      | true =>
        simp only [if_true, Except.ok.injEq] at h
        subst h
        refine ⟨⟨?_, hi.ackedPub, hi.real⟩, ⟨_, rfl⟩, fun _ h => h, fun _ h => h⟩
        intro e he
        obtain ⟨l, hl, hd⟩ := hi.faithful e he
        exact ⟨l, List.mem_append_left _ hl, hd⟩
  | crash =>
    simp only [step, Except.ok.injEq] at h
    subst h
    exact ⟨⟨hi.faithful, hi.ackedPub, hi.real⟩, ⟨[], by simp⟩, fun _ h => h, fun _ h => h⟩
  | ikRead a key found =>
    cases found with
    | none => simp only [step, Except.ok.injEq] at h; subst h; exact ⟨hi, Ext.refl s⟩
    | some id =>
      simp only [step, Except.ok.injEq] at h
      subst h
      exact ⟨⟨hi.faithful, hi.ackedPub, hi.real⟩, ⟨[], by simp⟩, fun _ h => h, fun _ h => h⟩
  | publish a e =>
    obtain ⟨_, hs, l, _, hd, hl⟩ := publish_ok h
    subst hs
    refine ⟨⟨?_, ?_, hi.real⟩, ⟨[], by simp⟩, fun _ h => List.mem_cons_of_mem _ h, fun _ h => h⟩
    · intro e' he'
      rcases List.mem_cons.mp he' with he' | he'
      · subst he'; exact ⟨l, hl, hd⟩
      · exact hi.faithful e' he'
    · intro x hx
      obtain ⟨h1, e', he', hd'⟩ := hi.ackedPub x hx
      exact ⟨h1, e', List.mem_cons_of_mem _ he', hd'⟩
  | finish a ok err txid =>
    cases ok with
    | false => simp only [step, Except.ok.injEq] at h; subst h; exact ⟨hi, Ext.refl s⟩
    | true =>
      cases hd : dry a with
      | true => rw [finish_dry_same hd h]; exact ⟨hi, Ext.refl s⟩
      | false =>
        obtain ⟨l, _, hs, e, he, hde⟩ := finish_ok hd h
        subst hs
        refine ⟨⟨hi.faithful, ?_, hi.real⟩, ⟨[], by simp⟩, fun _ h => h, fun _ h => List.mem_cons_of_mem _ h⟩
        intro x hx
        rcases List.mem_cons.mp hx with hx | hx
        · subst hx; exact ⟨hd, e, he, hde⟩
        · exact hi.ackedPub x hx
  | resume _ _ => simp [step] at h; subst h; exact ⟨hi, Ext.refl s⟩
  | refRead _ _ _ => simp [step] at h; subst h; exact ⟨hi, Ext.refl s⟩
  | txRead _ _ _ _ => simp [step] at h; subst h; exact ⟨hi, Ext.refl s⟩
  | balRead _ _ _ _ => simp [step] at h; subst h; exact ⟨hi, Ext.refl s⟩
  | lock _ _ _ => simp [step] at h; subst h; exact ⟨hi, Ext.refl s⟩
  | unlock _ => simp [step] at h; subst h; exact ⟨hi, Ext.refl s⟩
  | taken _ _ _ _ => simp [step] at h; subst h; exact ⟨hi, Ext.refl s⟩

theorem step_inv (dry : Nat → Bool) (isTx : Nat → Bool) (s : S) (e : Ev) (s' : S) (hi : Inv dry s)
    (h : step dry isTx s e = .ok s') : Inv dry s' := (step_inv_ext dry isTx s e s' hi h).1

theorem run_inv (dry : Nat → Bool) (isTx : Nat → Bool) (es : List Ev) (s s' : S) (hi : Inv dry s)
    (h : runOn (step dry isTx) s es = .ok s') : Inv dry s' :=
  runOn_inv (step dry isTx) (Inv dry) (step_inv dry isTx) es s s' hi h

theorem run_ext (dry : Nat → Bool) (isTx : Nat → Bool) (es : List Ev) (s s' : S) (hi : Inv dry s)
    (h : runOn (step dry isTx) s es = .ok s') : Ext s s' := by
  induction es generalizing s with
  | nil => simp [runOn] at h; subst h; exact Ext.refl s
  | cons e es ih =>
    simp only [runOn] at h
    cases hs : step dry isTx s e with
    | error m => simp [hs] at h
    | ok s1 =>
      simp only [hs] at h
      have := step_inv_ext dry isTx s e s1 hi hs
      exact this.2.trans (ih s1 this.1 h)

end Engine.Events
