import Lemmas.PaginatePage
/-! Helper lemmas for C17: following `next` from a position of the listing shows the rest of the listing, page by
page, and every page links back to the one before it.  `xfer` is the trip of a query through a cursor token. -/
namespace Paginate

theorem stepCol_of_ok {F} {tbl : List Row} {keep : Row → Bool} {q : ColQuery F} {pg : Page (ColQuery F)}
    (h : pageCol tbl keep q = .ok pg) : stepCol tbl keep q = some pg := by
  simp [stepCol, h]

theorem Linked.cons {Q} {step : Q → Option (Page Q)} {xfer : Q → Option Q} {pg pg1 : Page Q} {pages : List (Page Q)}
    (h0 : LinksBack step xfer pg pg1) (h : Linked step xfer (pg1 :: pages)) : Linked step xfer (pg :: pg1 :: pages) := by
  intro k a b ha hb
  cases k with
  | zero =>
    simp at ha hb
    subst ha hb
    exact h0
  | succ k => exact h k a b (by simpa using ha) (by simpa using hb)

theorem Linked.single {Q} (step : Q → Option (Page Q)) (xfer : Q → Option Q) (pg : Page Q) : Linked step xfer [pg] := by
  intro k a b ha hb
  simp at hb

/-- the `previous` link of a forward page that does not start the listing -/
theorem fwd_previous {F} {tbl : List Row} (hU : UniqueIds tbl) (keep : Row → Bool) (ps : Nat) (o : Order) (f : F)
    (l0 : Row) (pre : List Row) (y : Row) (B : List Row) (hpre : pre ≠ [])
    (hL : listing tbl keep o = pre ++ y :: B) (hl0 : (listing tbl keep o).head? = some l0) (pg : Page (ColQuery F))
    (hpg : stepCol tbl keep ⟨ps, some l0.id, idColumn, some y.id, o, f, false⟩ = some pg) :
    pg.previous = some ⟨ps, some l0.id, idColumn, some y.id, o, f, true⟩ := by
  have hs := listing_strict o hU keep
  rw [hL] at hs hl0
  obtain ⟨_, _, h3⟩ := List.pairwise_append.mp hs
  have hlt : o.ltb l0.id y.id = true := by
    cases pre with
    | nil => exact absurd rfl hpre
    | cons p0 pre' =>
      simp at hl0
      subst hl0
      exact h3 p0 (by simp) y (by simp)
  have hprev : prevOf (⟨ps, some l0.id, idColumn, some y.id, o, f, false⟩ : ColQuery F) y.id l0.id
      = some ⟨ps, some l0.id, idColumn, some y.id, o, f, true⟩ := by
    cases o <;> simp [prevOf, Order.ltb] at * <;> omega
  unfold stepCol at hpg
  rcases page_fwd hU keep ps l0.id o f pre y B hL with ⟨_, h⟩ | ⟨A, y', B', _, _, h⟩
  · rw [h] at hpg; simp at hpg; subst hpg; exact hprev
  · rw [h] at hpg; simp at hpg; subst hpg; exact hprev


/-- the link between two consecutive forward pages, the second starting at `y` -/
theorem links_back_at {F} {tbl : List Row} (hU : UniqueIds tbl) (keep : Row → Bool) (ps : Nat) (hps : 1 ≤ ps) (o : Order) (f : F)
    (xfer : ColQuery F → Option (ColQuery F))
    (hx : ∀ b p r, xfer ⟨ps, b, idColumn, p, o, f, r⟩ = some ⟨ps, b, idColumn, p, o, f, r⟩)
    (l0 : Row) (hl0 : (listing tbl keep o).head? = some l0)
    (pre A : List Row) (y : Row) (B : List Row) (hA : A.length = ps) (hL : listing tbl keep o = pre ++ A ++ y :: B)
    (pg pg1 : Page (ColQuery F)) (hpg : pg.data = A)
    (hpg1 : stepCol tbl keep ⟨ps, some l0.id, idColumn, some y.id, o, f, false⟩ = some pg1) :
    LinksBack (stepCol tbl keep) xfer pg pg1 := by
  have hne : pre ++ A ≠ [] := by
    intro h
    have : A = [] := (List.append_eq_nil_iff.mp h).2
    rw [this] at hA; simp at hA; omega
  have hprev := fwd_previous hU keep ps o f l0 (pre ++ A) y B hne hL hl0 pg1 hpg1
  obtain ⟨prev, hrev⟩ := page_rev hU keep ps hps l0.id o f pre A y B hA hL
  refine ⟨_, _, ⟨A, true, prev, some ⟨ps, some l0.id, idColumn, some y.id, o, f, false⟩⟩, hprev, hx _ _ _, by simp [stepCol, hrev],
    hpg.symm, ?_⟩
  exact ⟨_, _, pg1, rfl, hx _ _ _, hpg1, rfl⟩

theorem walk_fwd_spec {F} {tbl : List Row} (hU : UniqueIds tbl) (keep : Row → Bool) (ps : Nat) (hps : 1 ≤ ps) (o : Order) (f : F)
    (xfer : ColQuery F → Option (ColQuery F))
    (hx : ∀ b p r, xfer ⟨ps, b, idColumn, p, o, f, r⟩ = some ⟨ps, b, idColumn, p, o, f, r⟩)
    (l0 : Row) (hl0 : (listing tbl keep o).head? = some l0) :
    ∀ (n : Nat) (pre : List Row) (x : Row) (rest : List Row), (x :: rest).length ≤ n →
      listing tbl keep o = pre ++ x :: rest →
      ∀ fuel, (x :: rest).length ≤ fuel →
      ∃ pg pages, stepCol tbl keep ⟨ps, some l0.id, idColumn, some x.id, o, f, false⟩ = some pg ∧
        walk (stepCol tbl keep) xfer fuel ⟨ps, some l0.id, idColumn, some x.id, o, f, false⟩ = some (pg :: pages) ∧
        allData (pg :: pages) = x :: rest ∧ Linked (stepCol tbl keep) xfer (pg :: pages) := by
  intro n
  induction n with
  | zero => intro pre x rest h; simp at h
  | succ n ih =>
    intro pre x rest hn hL fuel hfuel
    cases fuel with
    | zero => simp at hfuel
    | succ fuel =>
      rcases page_fwd hU keep ps l0.id o f pre x rest hL with ⟨hlen, hpage⟩ | ⟨A, y, B, hS, hA, hpage⟩
      · have hstep := stepCol_of_ok hpage
        exact ⟨_, [], hstep, by simp [walk, hstep], by simp [allData], Linked.single _ _ _⟩
      · have hL' : listing tbl keep o = pre ++ A ++ y :: B := by rw [hL, hS, List.append_assoc]
        have hlen : (x :: rest).length = ps + (y :: B).length := by rw [hS]; simp [hA]
        obtain ⟨pg1, pages, hstep1, hwalk1, hdata1, hlinked1⟩ :=
          ih (pre ++ A) y B (by omega) hL' fuel (by omega)
        have hstep := stepCol_of_ok hpage
        refine ⟨_, pg1 :: pages, hstep, ?_, ?_, ?_⟩
        · simp [walk, hstep, hx, hwalk1]
        · simp only [allData, List.flatMap_cons] at hdata1 ⊢
          rw [hdata1, hS]
        · exact Linked.cons (links_back_at hU keep ps hps o f xfer hx l0 hl0 pre A y B hA hL' _ pg1 rfl hstep1) hlinked1

/-- following `next` from the first page of a column-paginated list -/
theorem walk_col_spec {F} {tbl : List Row} (hU : UniqueIds tbl) (keep : Row → Bool) (ps : Nat) (hps : 1 ≤ ps) (o : Order) (f : F)
    (xfer : ColQuery F → Option (ColQuery F))
    (hx : ∀ b p r, xfer ⟨ps, b, idColumn, p, o, f, r⟩ = some ⟨ps, b, idColumn, p, o, f, r⟩)
    (fuel : Nat) (hfuel : (listing tbl keep o).length < fuel) :
    ∃ pages, walk (stepCol tbl keep) xfer fuel (firstCol ps o f) = some pages ∧
      allData pages = listing tbl keep o ∧ Linked (stepCol tbl keep) xfer pages := by
  cases fuel with
  | zero => omega
  | succ fuel =>
    unfold firstCol
    rcases page_first (tbl := tbl) keep ps hps o f with ⟨hlen, hpage⟩ | ⟨a, A, y, B, hS, hA, hpage⟩
    · have hstep := stepCol_of_ok hpage
      exact ⟨[⟨listing tbl keep o, false, none, none⟩], by simp [walk, hstep], by simp [allData], Linked.single _ _ _⟩
    · have hstep := stepCol_of_ok hpage
      have hl0 : (listing tbl keep o).head? = some a := by rw [hS]; rfl
      have hlen : (listing tbl keep o).length = ps + (y :: B).length := by rw [hS, List.length_append, hA]
      obtain ⟨pg1, pages, hstep1, hwalk1, hdata1, hlinked1⟩ :=
        walk_fwd_spec hU keep ps hps o f xfer hx a hl0 (y :: B).length (a :: A) y B (Nat.le_refl _) hS fuel (by omega)
      refine ⟨⟨a :: A, true, none, some ⟨ps, some a.id, idColumn, some y.id, o, f, false⟩⟩ :: pg1 :: pages,
        by simp [walk, hstep, hx, hwalk1], ?_, ?_⟩
      · simp only [allData, List.flatMap_cons] at hdata1 ⊢
        rw [hdata1, hS]
      · exact Linked.cons (links_back_at hU keep ps hps o f xfer hx a hl0 [] (a :: A) y B hA (by simpa using hS) _ pg1 rfl hstep1) hlinked1

/-! back along `previous` -/

theorem exists_split_end {α} (n : Nat) (S : List α) (h : n < S.length) : ∃ P A, S = P ++ A ∧ A.length = n ∧ P ≠ [] := by
  refine ⟨S.take (S.length - n), S.drop (S.length - n), (List.take_append_drop _ _).symm, by simp; omega, ?_⟩
  intro hnil
  have := congrArg List.length hnil
  simp at this
  omega

/-- closed form of a backward page, with its own `previous` link -/
theorem page_rev_exact {F} {tbl : List Row} (hU : UniqueIds tbl) (keep : Row → Bool) (ps : Nat) (hps : 1 ≤ ps) (b : Int) (o : Order) (f : F)
    (pre : List Row) (y : Row) (B : List Row) (hL : listing tbl keep o = pre ++ y :: B) :
    pre.length ≤ ps ∧
      pageCol tbl keep (⟨ps, some b, idColumn, some y.id, o, f, true⟩ : ColQuery F) =
        .ok ⟨pre, true, none, some ⟨ps, some b, idColumn, some y.id, o, f, false⟩⟩
    ∨ ∃ P a A, pre = P ++ a :: A ∧ P ≠ [] ∧ (a :: A).length = ps ∧
      pageCol tbl keep (⟨ps, some b, idColumn, some y.id, o, f, true⟩ : ColQuery F) =
        .ok ⟨a :: A, true, some ⟨ps, some b, idColumn, some a.id, o, f, true⟩, some ⟨ps, some b, idColumn, some y.id, o, f, false⟩⟩ := by
  rw [pageCol_rev hU keep ps b o f pre B y hL]
  by_cases hlen : pre.length ≤ ps
  · left
    refine ⟨hlen, ?_⟩
    rw [List.take_of_length_le (by simp; omega)]
    exact pageRows_rev_all ps b idColumn y.id o f pre hlen
  · right
    obtain ⟨P, A, hS, hA, hP⟩ := exists_split_end ps pre (by omega)
    cases A with
    | nil => simp at hA; omega
    | cons a A =>
      refine ⟨P, a, A, hS, hP, hA, ?_⟩
      rcases List.eq_nil_or_concat P with rfl | ⟨P0, z, rfl⟩
      · exact absurd rfl hP
      · have e : (P0.concat z ++ a :: A).reverse = (a :: A).reverse ++ z :: P0.reverse := by simp
        have hl : (a :: A).reverse.length = ps := by simpa using hA
        rw [hS, e, ← hl, List.take_length_add_append]
        simp only [List.take_succ_cons, List.take_zero]
        rw [hl]
        exact pageRows_rev_more ps b idColumn y.id o f a A z hA

/-- following `previous` from a position shows everything before that position, page by page, backwards -/
theorem walk_back_spec {F} {tbl : List Row} (hU : UniqueIds tbl) (keep : Row → Bool) (ps : Nat) (hps : 1 ≤ ps) (b : Int) (o : Order) (f : F)
    (xfer : ColQuery F → Option (ColQuery F))
    (hx : ∀ b p r, xfer ⟨ps, b, idColumn, p, o, f, r⟩ = some ⟨ps, b, idColumn, p, o, f, r⟩) :
    ∀ (n : Nat) (pre : List Row) (y : Row) (B : List Row), pre.length ≤ n → listing tbl keep o = pre ++ y :: B →
      ∀ fuel, pre.length < fuel →
      ∃ pages, walkBack (stepCol tbl keep) xfer fuel ⟨ps, some b, idColumn, some y.id, o, f, true⟩ = some pages ∧
        allData pages.reverse = pre := by
  intro n
  induction n with
  | zero =>
    intro pre y B hn hL fuel hfuel
    have hpre : pre = [] := List.eq_nil_of_length_eq_zero (by omega)
    subst hpre
    cases fuel with
    | zero => simp at hfuel
    | succ fuel =>
      rcases page_rev_exact hU keep ps hps b o f [] y B hL with ⟨_, hpage⟩ | ⟨P, a, A, hS, _, _, _⟩
      · exact ⟨[⟨[], true, none, some ⟨ps, some b, idColumn, some y.id, o, f, false⟩⟩], by simp [walkBack, stepCol_of_ok hpage],
          by simp [allData]⟩
      · simp at hS
  | succ n ih =>
    intro pre y B hn hL fuel hfuel
    cases fuel with
    | zero => omega
    | succ fuel =>
      rcases page_rev_exact hU keep ps hps b o f pre y B hL with ⟨_, hpage⟩ | ⟨P, a, A, hS, hP, hA, hpage⟩
      · exact ⟨[⟨pre, true, none, some ⟨ps, some b, idColumn, some y.id, o, f, false⟩⟩], by simp [walkBack, stepCol_of_ok hpage],
          by simp [allData]⟩
      · have hL' : listing tbl keep o = P ++ a :: (A ++ y :: B) := by rw [hL, hS]; simp
        have hlen : pre.length = P.length + ps := by rw [hS, List.length_append, hA]
        obtain ⟨pages, hwalk, hdata⟩ := ih P a (A ++ y :: B) (by omega) hL' fuel (by omega)
        refine ⟨⟨a :: A, true, some ⟨ps, some b, idColumn, some a.id, o, f, true⟩, some ⟨ps, some b, idColumn, some y.id, o, f, false⟩⟩ :: pages,
          by simp [walkBack, stepCol_of_ok hpage, hx, hwalk], ?_⟩
        simp only [allData, List.reverse_cons, List.flatMap_append, List.flatMap_cons, List.flatMap_nil, List.append_nil] at hdata ⊢
        rw [hdata, hS]

/-! offset pagination -/

theorem page_off {F} {tbl : List Row} (keep : Row → Bool) (so : Order) (ps : Nat) (hps : 1 ≤ ps) (o : Order) (f : F) (off : Nat) :
    let prev : Option (OffQuery F) := if off > 0 then some ⟨off - ps, o, ps, f⟩ else none
    ((listing tbl keep so).drop off).length ≤ ps ∧
      pageOff tbl keep so (⟨off, o, ps, f⟩ : OffQuery F) = ⟨(listing tbl keep so).drop off, false, prev, none⟩
    ∨ ∃ A y B, (listing tbl keep so).drop off = A ++ y :: B ∧ A.length = ps ∧
      pageOff tbl keep so (⟨off, o, ps, f⟩ : OffQuery F) = ⟨A, true, prev, some ⟨off + ps, o, ps, f⟩⟩ := by
  intro prev
  have hps' : ps > 0 := by omega
  by_cases hlen : ((listing tbl keep so).drop off).length ≤ ps
  · left
    refine ⟨hlen, ?_⟩
    have h2 : ((listing tbl keep so).drop off).take (ps + 1) = (listing tbl keep so).drop off :=
      List.take_of_length_le (by omega)
    simp only [pageOff, select_plain, hps', if_true, limit, h2]
    simp [prev]
    intro _
    have := hlen
    simp at this
    omega
  · right
    obtain ⟨A, y, B, hS, hA⟩ := exists_split ps ((listing tbl keep so).drop off) (by omega)
    refine ⟨A, y, B, hS, hA, ?_⟩
    have h2 : ((listing tbl keep so).drop off).take (ps + 1) = A ++ [y] := by
      rw [hS, ← hA, List.take_length_add_append]; rfl
    have h3 : ps ≠ 0 := by omega
    simp only [pageOff, select_plain, hps', if_true, limit, h2]
    simp [hA, h3, prev]


theorem walk_off_spec {F} {tbl : List Row} (keep : Row → Bool) (so : Order) (ps : Nat) (hps : 1 ≤ ps) (o : Order) (f : F)
    (xfer : OffQuery F → Option (OffQuery F))
    (hx : ∀ off, off ≤ (listing tbl keep so).length → xfer ⟨off, o, ps, f⟩ = some ⟨off, o, ps, f⟩) :
    ∀ (n off : Nat), ((listing tbl keep so).drop off).length ≤ n → off ≤ (listing tbl keep so).length →
      ∀ fuel, ((listing tbl keep so).drop off).length < fuel →
      ∃ pages, walk (stepOff tbl keep so) xfer fuel ⟨off, o, ps, f⟩ = some (pageOff tbl keep so ⟨off, o, ps, f⟩ :: pages) ∧
        allData (pageOff tbl keep so ⟨off, o, ps, f⟩ :: pages) = (listing tbl keep so).drop off ∧
        Linked (stepOff tbl keep so) xfer (pageOff tbl keep so ⟨off, o, ps, f⟩ :: pages) := by
  intro n
  induction n with
  | zero =>
    intro off hn hoff fuel hfuel
    cases fuel with
    | zero => omega
    | succ fuel =>
      rcases page_off (tbl := tbl) keep so ps hps o f off with ⟨hlen, hpage⟩ | ⟨A, y, B, hS, hA, hpage⟩
      · refine ⟨[], by simp [walk, stepOff, hpage], by simp [allData, hpage], Linked.single _ _ _⟩
      · rw [hS] at hn; simp at hn
  | succ n ih =>
    intro off hn hoff fuel hfuel
    cases fuel with
    | zero => omega
    | succ fuel =>
      rcases page_off (tbl := tbl) keep so ps hps o f off with ⟨hlen, hpage⟩ | ⟨A, y, B, hS, hA, hpage⟩
      · refine ⟨[], by simp [walk, stepOff, hpage], by simp [allData, hpage], Linked.single _ _ _⟩
      · have hdrop : (listing tbl keep so).drop (off + ps) = y :: B := by
          rw [← List.drop_drop, hS, ← hA, List.drop_left]
        have hlen : ((listing tbl keep so).drop off).length = ps + (y :: B).length := by rw [hS, List.length_append, hA]
        have hoff' : off + ps ≤ (listing tbl keep so).length := by
          have := congrArg List.length hdrop
          simp at this
          omega
        obtain ⟨pages, hwalk1, hdata1, hlinked1⟩ := ih (off + ps) (by rw [hdrop]; omega) hoff' fuel (by rw [hdrop]; omega)
        refine ⟨pageOff tbl keep so ⟨off + ps, o, ps, f⟩ :: pages, ?_, ?_, ?_⟩
        · simp [walk, stepOff, hpage, hx _ hoff', hwalk1]
        · simp only [allData, List.flatMap_cons] at hdata1 ⊢
          rw [hdata1, hdrop, hpage, hS]
        · refine Linked.cons ?_ hlinked1
          have hp1 : (pageOff tbl keep so (⟨off + ps, o, ps, f⟩ : OffQuery F)).previous = some ⟨off, o, ps, f⟩ := by
            rcases page_off (tbl := tbl) keep so ps hps o f (off + ps) with ⟨_, h⟩ | ⟨_, _, _, _, _, h⟩ <;>
              · rw [h]; simp; omega
          refine ⟨_, _, _, hp1, hx _ hoff, rfl, rfl, ?_⟩
          exact ⟨_, _, _, by rw [hpage], hx _ hoff', rfl, rfl⟩

end Paginate
