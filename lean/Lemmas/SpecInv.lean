import Model.Numscript.Spec
/-! Inversion lemmas for the `Spec` interpreter: what a successful evaluation of each construct is made of.
Pure unfolding of the definitions of `Model/Numscript/Spec.lean`, stated once so that the conservation
(C03) and floor (C01) proofs do not have to case-split the interpreter again. -/
namespace Num

/-- close an equation that is either syntactically trivial or among the hypotheses -/
local macro "eqn" : term => `(by first | rfl | assumption)

/-- overdraft clause of a source account: (asset the withdrawal is made in, overdraft, unbounded?) -/
def odVal (env : VEnv) (asset : Asset) : Overdraft → Except Err (Asset × Int × Bool)
  | .none => .ok (asset, 0, false)
  | .upTo x => match evalMon env x with
    | .ok (xa, xn) => .ok (xa, xn, false)
    | .error er => .error er
  | .unbounded => .ok (asset, 0, true)

/-- what is drawn from the fallback account when a cap / amount exceeds what the funding holds -/
def missingOf (mn : Int) (f : Parts) : Int := if mn > total f then mn - total f else 0

theorem missingOf_nonneg (mn : Int) (f : Parts) : 0 ≤ missingOf mn f := by
  unfold missingOf; split <;> omega

theorem withdrawAll_inv {b b' : Bal} {a : Acct} {s : Asset} {o : Int} {p : Part}
    (h : withdrawAll b a s o = .ok (p, b')) :
    ∃ t, b.get a s = some t ∧
      ((0 < t + o ∧ p = ⟨a, t + o⟩ ∧ b' = b.upd a s (-o)) ∨ (t + o ≤ 0 ∧ p = ⟨a, 0⟩ ∧ b' = b)) := by
  unfold withdrawAll at h
  cases hb : b.get a s with
  | none => simp [hb] at h
  | some t =>
    simp only [hb] at h
    by_cases hpos : t + o > 0
    · simp only [hpos, if_true, Except.ok.injEq, Prod.mk.injEq] at h
      exact ⟨t, rfl, Or.inl ⟨hpos, h.1.symm, h.2.symm⟩⟩
    · simp only [hpos, if_false, Except.ok.injEq, Prod.mk.injEq] at h
      exact ⟨t, rfl, Or.inr ⟨by omega, h.1.symm, h.2.symm⟩⟩

theorem withdrawAlways_inv {b b' : Bal} {a : Acct} {s : Asset} {n : Int} {p : Part}
    (h : withdrawAlways b a s n = .ok (p, b')) :
    ∃ t, b.get a s = some t ∧ p = ⟨a, n⟩ ∧ b' = b.upd a s (t - n) := by
  unfold withdrawAlways at h
  cases hb : b.get a s with
  | none => simp [hb] at h
  | some t =>
    simp only [hb, Except.ok.injEq, Prod.mk.injEq] at h
    exact ⟨t, rfl, h.1.symm, h.2.symm⟩

/-! ### sources -/

theorem evalSource_acct_eq (env : VEnv) (asset : Asset) (e : Expr) (od : Overdraft) (b : Bal) :
    evalSource env asset (.acct e od) b =
      (match evalAcct env e with
       | .error er => .error er
       | .ok a =>
         match odVal env asset od with
         | .error er => .error er
         | .ok (oa, o, unb) =>
           match withdrawAll b a oa o with
           | .error er => .error er
           | .ok (p, b') => .ok (⟨oa, [p]⟩, if isWorldLit e || unb then some a else none, b')) := by
  cases od <;> simp only [evalSource, odVal] <;> rfl

theorem evalSource_acct_inv {env : VEnv} {asset : Asset} {e : Expr} {od : Overdraft} {b b' : Bal} {f : Fund}
    {fb : Option Acct} (h : evalSource env asset (.acct e od) b = .ok (f, fb, b')) :
    ∃ a oa o unb p, evalAcct env e = .ok a ∧ odVal env asset od = .ok (oa, o, unb) ∧
      withdrawAll b a oa o = .ok (p, b') ∧ f = ⟨oa, [p]⟩ ∧
      fb = (if isWorldLit e || unb then some a else none) := by
  rw [evalSource_acct_eq] at h
  cases ha : evalAcct env e with
  | error er => simp [ha] at h
  | ok a =>
    simp only [ha] at h
    cases hv : odVal env asset od with
    | error er => simp [hv] at h
    | ok v =>
      obtain ⟨oa, o, unb⟩ := v
      simp only [hv] at h
      cases hw : withdrawAll b a oa o with
      | error er => simp [hw] at h
      | ok r =>
        obtain ⟨p, b1⟩ := r
        simp only [hw, Except.ok.injEq, Prod.mk.injEq] at h
        obtain ⟨h1, h2, h3⟩ := h
        subst h3
        exact ⟨a, oa, o, unb, p, rfl, rfl, hw, h1.symm, h2.symm⟩

theorem evalSource_maxed_inv {env : VEnv} {asset : Asset} {cap : Expr} {s : Source} {b b' : Bal} {f : Fund}
    {fb : Option Acct} (h : evalSource env asset (.maxed cap s) b = .ok (f, fb, b')) :
    ∃ f0 fb0 b1 ma mn, evalSource env asset s b = .ok (f0, fb0, b1) ∧ evalMon env cap = .ok (ma, mn) ∧
      0 ≤ mn ∧ f0.asset = ma ∧ fb = none ∧
      ((fb0 = none ∧ f = ⟨f0.asset, (takeMax f0.parts mn).1⟩ ∧ b' = repay b1 f0.asset (takeMax f0.parts mn).2) ∨
       (∃ w p, fb0 = some w ∧
          withdrawAlways (repay b1 f0.asset (takeMax f0.parts mn).2) w ma (missingOf mn f0.parts) = .ok (p, b') ∧
          assemble [⟨f0.asset, (takeMax f0.parts mn).1⟩, ⟨ma, [p]⟩] = .ok f)) := by
  simp only [evalSource] at h
  cases hs : evalSource env asset s b with
  | error er => simp [hs] at h
  | ok r0 =>
    obtain ⟨f0, fb0, b1⟩ := r0
    simp only [hs] at h
    cases hm : evalMon env cap with
    | error er => simp [hm] at h
    | ok m =>
      obtain ⟨ma, mn⟩ := m
      simp only [hm] at h
      by_cases hneg : mn < 0
      · simp [hneg] at h
      · simp only [hneg, if_false] at h
        by_cases hasset : f0.asset = ma
        · simp only [hasset, ne_eq, not_true_eq_false, if_false] at h
          refine ⟨f0, fb0, b1, ma, mn, rfl, rfl, by omega, hasset, ?_⟩
          cases fb0 with
          | none =>
            simp only [Except.ok.injEq, Prod.mk.injEq] at h
            obtain ⟨h1, h2, h3⟩ := h
            exact ⟨h2.symm, Or.inl ⟨rfl, by rw [← h1, hasset], by rw [← h3, hasset]⟩⟩
          | some w =>
            simp only at h
            rw [hasset]
            change (match withdrawAlways (repay b1 ma (takeMax f0.parts mn).2) w ma (missingOf mn f0.parts) with
              | .error er => .error er
              | .ok (p, b3) => match assemble [⟨ma, (takeMax f0.parts mn).1⟩, ⟨ma, [p]⟩] with
                | .error er => .error er
                | .ok r => .ok (r, none, b3)) = (.ok (f, fb, b') : Except Err (Fund × Option Acct × Bal)) at h
            cases hw : withdrawAlways (repay b1 ma (takeMax f0.parts mn).2) w ma (missingOf mn f0.parts) with
            | error er => simp [hw] at h
            | ok r =>
              obtain ⟨p, b3⟩ := r
              simp only [hw] at h
              cases hasm : assemble [⟨ma, (takeMax f0.parts mn).1⟩, ⟨ma, [p]⟩] with
              | error er => simp [hasm] at h
              | ok r =>
                simp only [hasm, Except.ok.injEq, Prod.mk.injEq] at h
                obtain ⟨h1, h2, h3⟩ := h
                subst h1 h3
                exact ⟨h2.symm, Or.inr ⟨w, p, rfl, hw, hasm⟩⟩
        · simp [hasset] at h

theorem evalSource_inorder_inv {env : VEnv} {asset : Asset} {ss : SourceList} {b b' : Bal} {f : Fund}
    {fb : Option Acct} (h : evalSource env asset (.inorder ss) b = .ok (f, fb, b')) :
    ∃ fs, evalSources env asset ss b = .ok (fs, fb, b') ∧ assemble fs = .ok f := by
  simp only [evalSource] at h
  cases hs : evalSources env asset ss b with
  | error er => simp [hs] at h
  | ok r0 =>
    obtain ⟨fs, fb0, b1⟩ := r0
    simp only [hs] at h
    cases hasm : assemble fs with
    | error er => simp [hasm] at h
    | ok r =>
      simp only [hasm, Except.ok.injEq, Prod.mk.injEq] at h
      obtain ⟨h1, h2, h3⟩ := h
      subst h1 h2 h3
      exact ⟨fs, rfl, hasm⟩

theorem evalSources_nil_inv {env : VEnv} {asset : Asset} {b b' : Bal} {fs : List Fund} {fb : Option Acct}
    (h : evalSources env asset .nil b = .ok (fs, fb, b')) : fs = [] ∧ fb = none ∧ b' = b := by
  simp only [evalSources, Except.ok.injEq, Prod.mk.injEq] at h
  exact ⟨h.1.symm, h.2.1.symm, h.2.2.symm⟩

/-- the fallback an ordered list hands up: that of its LAST source -/
def pickFb : SourceList → Option Acct → Option Acct → Option Acct
  | .nil, fb1, _ => fb1
  | .cons _ _, _, fb2 => fb2

theorem evalSources_cons_inv {env : VEnv} {asset : Asset} {s : Source} {rest : SourceList} {b b' : Bal}
    {fs : List Fund} {fb : Option Acct} (h : evalSources env asset (.cons s rest) b = .ok (fs, fb, b')) :
    ∃ f fb1 b1 fs' fb2, evalSource env asset s b = .ok (f, fb1, b1) ∧
      evalSources env asset rest b1 = .ok (fs', fb2, b') ∧ fs = f :: fs' ∧
      fb = pickFb rest fb1 fb2 := by
  simp only [evalSources] at h
  cases hs : evalSource env asset s b with
  | error er => simp [hs] at h
  | ok r0 =>
    obtain ⟨f, fb1, b1⟩ := r0
    simp only [hs] at h
    cases hr : evalSources env asset rest b1 with
    | error er => simp [hr] at h
    | ok r1 =>
      obtain ⟨fs', fb2, b2⟩ := r1
      simp only [hr, Except.ok.injEq, Prod.mk.injEq] at h
      obtain ⟨h1, h2, h3⟩ := h
      subst h3
      refine ⟨f, fb1, b1, fs', fb2, rfl, hr, h1.symm, ?_⟩
      rw [← h2]; cases rest <;> rfl

/-! ### takeFromSource -/

theorem takeFromSource_none_inv {f : Fund} {ma : Asset} {mn : Int} {b b' : Bal} {t : Fund}
    (h : takeFromSource none f ma mn b = .ok (t, b')) :
    ∃ taken rest, f.asset = ma ∧ take f.parts mn = some (taken, rest) ∧ t = ⟨f.asset, taken⟩ ∧
      b' = repay b f.asset rest := by
  simp only [takeFromSource] at h
  by_cases hasset : f.asset = ma
  · simp only [hasset, ne_eq, not_true_eq_false, if_false] at h
    cases ht : take f.parts mn with
    | none => simp [ht] at h
    | some r =>
      obtain ⟨taken, rest⟩ := r
      simp only [ht, Except.ok.injEq, Prod.mk.injEq] at h
      refine ⟨taken, rest, hasset, rfl, ?_, ?_⟩
      · rw [← h.1, hasset]
      · rw [← h.2, hasset]
  · simp [hasset] at h

theorem takeFromSource_some_inv {w : Acct} {f : Fund} {ma : Asset} {mn : Int} {b b' : Bal} {t : Fund}
    (h : takeFromSource (some w) f ma mn b = .ok (t, b')) :
    ∃ p, 0 ≤ mn ∧ f.asset = ma ∧
      withdrawAlways (repay b f.asset (takeMax f.parts mn).2) w ma (missingOf mn f.parts) = .ok (p, b') ∧
      assemble [⟨f.asset, (takeMax f.parts mn).1⟩, ⟨ma, [p]⟩] = .ok t := by
  simp only [takeFromSource] at h
  by_cases hneg : mn < 0
  · simp [hneg] at h
  · simp only [hneg, if_false] at h
    by_cases hasset : f.asset = ma
    · simp only [hasset, ne_eq, not_true_eq_false, if_false] at h
      rw [hasset]
      change (match withdrawAlways (repay b ma (takeMax f.parts mn).2) w ma (missingOf mn f.parts) with
        | .error er => .error er
        | .ok (p, b3) => match assemble [⟨ma, (takeMax f.parts mn).1⟩, ⟨ma, [p]⟩] with
          | .error er => .error er
          | .ok r => .ok (r, b3)) = (.ok (t, b') : Except Err (Fund × Bal)) at h
      cases hw : withdrawAlways (repay b ma (takeMax f.parts mn).2) w ma (missingOf mn f.parts) with
      | error er => simp [hw] at h
      | ok r =>
        obtain ⟨p, b3⟩ := r
        simp only [hw] at h
        cases hasm : assemble [⟨ma, (takeMax f.parts mn).1⟩, ⟨ma, [p]⟩] with
        | error er => simp [hasm] at h
        | ok r =>
          simp only [hasm, Except.ok.injEq, Prod.mk.injEq] at h
          obtain ⟨h1, h2⟩ := h
          subst h1 h2
          exact ⟨p, by omega, rfl, rfl, hasm⟩
    · simp [hasset] at h

/-! ### destinations -/

theorem evalDest_acct_inv {env : VEnv} {e : Expr} {f r : Fund} {st st' : St}
    (h : evalDest env (.acct e) f st = .ok (r, st')) :
    ∃ taken rest a, take f.parts (total f.parts) = some (taken, rest) ∧ evalAcct env e = .ok a ∧
      r = ⟨f.asset, rest⟩ ∧ st' = emit a ⟨f.asset, taken⟩ st := by
  simp only [evalDest] at h
  cases ht : take f.parts (total f.parts) with
  | none => simp [ht] at h
  | some tr =>
    obtain ⟨taken, rest⟩ := tr
    simp only [ht] at h
    cases ha : evalAcct env e with
    | error er => simp [ha] at h
    | ok a =>
      simp only [ha, Except.ok.injEq, Prod.mk.injEq] at h
      exact ⟨taken, rest, a, rfl, rfl, h.1.symm, h.2.symm⟩

theorem evalDest_inorder_inv {env : VEnv} {caps : CapList} {rest : KeptOrDest} {f r : Fund} {st st' : St}
    (h : evalDest env (.inorder caps rest) f st = .ok (r, st')) :
    ∃ kt cur st1 tk rest2 r0, evalCaps env caps 0 f st = .ok (kt, cur, st1) ∧
      take cur.parts.reverse kt = some (tk, rest2) ∧
      evalKD env rest ⟨f.asset, rest2.reverse⟩ st1 = .ok (r0, st') ∧
      assemble [r0, ⟨f.asset, tk.reverse⟩] = .ok r := by
  simp only [evalDest] at h
  cases hc : evalCaps env caps 0 f st with
  | error er => simp [hc] at h
  | ok c =>
    obtain ⟨kt, cur, st1⟩ := c
    simp only [hc] at h
    cases ht : take cur.parts.reverse kt with
    | none => simp [ht] at h
    | some tr =>
      obtain ⟨tk, rest2⟩ := tr
      simp only [ht] at h
      cases hk : evalKD env rest ⟨f.asset, rest2.reverse⟩ st1 with
      | error er => simp [hk] at h
      | ok kr =>
        obtain ⟨r0, st2⟩ := kr
        simp only [hk] at h
        cases hasm : assemble [r0, ⟨f.asset, tk.reverse⟩] with
        | error er => simp [hasm] at h
        | ok res =>
          simp only [hasm, Except.ok.injEq, Prod.mk.injEq] at h
          obtain ⟨h1, h2⟩ := h
          subst h1 h2
          exact ⟨kt, cur, st1, tk, rest2, r0, rfl, ht, hk, hasm⟩

theorem evalDest_allot_inv {env : VEnv} {items : AllotList} {f r : Fund} {st st' : St}
    (h : evalDest env (.allot items) f st = .ok (r, st')) :
    ∃ ps, resolvePortions env (allotPortions items) = .ok ps ∧
      evalAllot env items (allocate ps (total f.parts)) f st = .ok (r, st') := by
  simp only [evalDest] at h
  cases hp : resolvePortions env (allotPortions items) with
  | error er => simp [hp] at h
  | ok ps =>
    simp only [hp] at h
    exact ⟨ps, rfl, h⟩

theorem evalKD_kept (env : VEnv) (f : Fund) (st : St) : evalKD env .kept f st = .ok (f, st) := by
  simp only [evalKD]
theorem evalKD_to (env : VEnv) (d : Dest) (f : Fund) (st : St) : evalKD env (.to d) f st = evalDest env d f st := by
  simp only [evalKD]

theorem evalCaps_nil_inv {env : VEnv} {kt kt' : Int} {cur cur' : Fund} {st st' : St}
    (h : evalCaps env .nil kt cur st = .ok (kt', cur', st')) : kt' = kt ∧ cur' = cur ∧ st' = st := by
  simp only [evalCaps, Except.ok.injEq, Prod.mk.injEq] at h
  exact ⟨h.1.symm, h.2.1.symm, h.2.2.symm⟩

theorem evalCaps_cons_inv {env : VEnv} {cap : Expr} {kd : KeptOrDest} {rest : CapList} {kt kt' : Int}
    {cur curF : Fund} {st st' : St}
    (h : evalCaps env (.cons cap kd rest) kt cur st = .ok (kt', curF, st')) :
    ∃ ma mn k st1 cur', evalMon env cap = .ok (ma, mn) ∧ 0 ≤ mn ∧ cur.asset = ma ∧
      evalKD env kd ⟨cur.asset, (takeMax cur.parts mn).1⟩ st = .ok (k, st1) ∧ k.asset = cur.asset ∧
      assemble [k, ⟨cur.asset, (takeMax cur.parts mn).2⟩] = .ok cur' ∧
      evalCaps env rest (kt + total k.parts) cur' st1 = .ok (kt', curF, st') := by
  simp only [evalCaps] at h
  cases hm : evalMon env cap with
  | error er => simp [hm] at h
  | ok m =>
    obtain ⟨ma, mn⟩ := m
    simp only [hm] at h
    by_cases hneg : mn < 0
    · simp [hneg] at h
    · simp only [hneg, if_false] at h
      by_cases hasset : cur.asset = ma
      · simp only [hasset, ne_eq, not_true_eq_false, if_false] at h
        rw [hasset]
        cases hk : evalKD env kd ⟨ma, (takeMax cur.parts mn).1⟩ st with
        | error er => simp [hk] at h
        | ok kr =>
          obtain ⟨k, st1⟩ := kr
          simp only [hk] at h
          by_cases hka : k.asset = ma
          · simp only [hka, ne_eq, not_true_eq_false, if_false] at h
            cases hasm : assemble [k, ⟨ma, (takeMax cur.parts mn).2⟩] with
            | error er => simp [hasm] at h
            | ok cur' =>
              simp only [hasm] at h
              exact ⟨ma, mn, k, st1, cur', eqn, by omega, eqn, eqn, hka, eqn, h⟩
          · simp [hka] at h
      · simp [hasset] at h

theorem evalAllot_nil_inv {env : VEnv} {parts : List Int} {cur r : Fund} {st st' : St}
    (h : evalAllot env .nil parts cur st = .ok (r, st')) : r = cur ∧ st' = st := by
  simp only [evalAllot, Except.ok.injEq, Prod.mk.injEq] at h
  exact ⟨h.1.symm, h.2.symm⟩

theorem evalAllot_cons_inv {env : VEnv} {ps0 : PortionSpec} {kd : KeptOrDest} {rest : AllotList} {parts : List Int}
    {cur r : Fund} {st st' : St}
    (h : evalAllot env (.cons ps0 kd rest) parts cur st = .ok (r, st')) :
    ∃ p ps taken rem k st1 cur', parts = p :: ps ∧ take cur.parts p = some (taken, rem) ∧
      evalKD env kd ⟨cur.asset, taken⟩ st = .ok (k, st1) ∧
      assemble [k, ⟨cur.asset, rem⟩] = .ok cur' ∧
      evalAllot env rest ps cur' st1 = .ok (r, st') := by
  simp only [evalAllot] at h
  cases parts with
  | nil => simp at h
  | cons p ps =>
    simp only at h
    cases ht : take cur.parts p with
    | none => simp [ht] at h
    | some tr =>
      obtain ⟨taken, rem⟩ := tr
      simp only [ht] at h
      cases hk : evalKD env kd ⟨cur.asset, taken⟩ st with
      | error er => simp [hk] at h
      | ok kr =>
        obtain ⟨k, st1⟩ := kr
        simp only [hk] at h
        cases hasm : assemble [k, ⟨cur.asset, rem⟩] with
        | error er => simp [hasm] at h
        | ok cur' =>
          simp only [hasm] at h
          exact ⟨p, ps, taken, rem, k, st1, cur', eqn, eqn, eqn, eqn, h⟩

/-! ### statements -/

theorem finishSend_inv {env : VEnv} {d : Dest} {f : Fund} {st st' : St} (h : finishSend env d f st = .ok st') :
    ∃ rest st1, evalDest env d f st = .ok (rest, st1) ∧
      st' = { st1 with bal := repay st1.bal rest.asset rest.parts } := by
  simp only [finishSend] at h
  cases hd : evalDest env d f st with
  | error er => simp [hd] at h
  | ok r =>
    obtain ⟨rest, st1⟩ := r
    simp only [hd, Except.ok.injEq] at h
    exact ⟨rest, st1, rfl, h.symm⟩

theorem evalSend_mon_src_inv {env : VEnv} {e : Expr} {s : Source} {d : Dest} {st st' : St}
    (h : evalSend env (.mon e) (.src s) d st = .ok st') :
    ∃ a f fb b1 ma mn taken b2, leftAsset env e = .ok a ∧ evalSource env a s st.bal = .ok (f, fb, b1) ∧
      evalMon env e = .ok (ma, mn) ∧ takeFromSource fb f ma mn b1 = .ok (taken, b2) ∧
      finishSend env d taken { st with bal := b2 } = .ok st' := by
  simp only [evalSend] at h
  cases hl : leftAsset env e with
  | error er => simp [hl] at h
  | ok a =>
    simp only [hl] at h
    cases hs : evalSource env a s st.bal with
    | error er => simp [hs] at h
    | ok r =>
      obtain ⟨f, fb, b1⟩ := r
      simp only [hs] at h
      cases hm : evalMon env e with
      | error er => simp [hm] at h
      | ok m =>
        obtain ⟨ma, mn⟩ := m
        simp only [hm] at h
        cases ht : takeFromSource fb f ma mn b1 with
        | error er => simp [ht] at h
        | ok tr =>
          obtain ⟨taken, b2⟩ := tr
          simp only [ht] at h
          exact ⟨a, f, fb, b1, ma, mn, taken, b2, eqn, eqn, eqn, eqn, h⟩

theorem evalSend_all_src_inv {env : VEnv} {ae : Expr} {s : Source} {d : Dest} {st st' : St}
    (h : evalSend env (.all ae) (.src s) d st = .ok st') :
    ∃ a f fb b1, evalAsset env ae = .ok a ∧ evalSource env a s st.bal = .ok (f, fb, b1) ∧
      finishSend env d f { st with bal := b1 } = .ok st' := by
  simp only [evalSend] at h
  cases hl : evalAsset env ae with
  | error er => simp [hl] at h
  | ok a =>
    simp only [hl] at h
    cases hs : evalSource env a s st.bal with
    | error er => simp [hs] at h
    | ok r =>
      obtain ⟨f, fb, b1⟩ := r
      simp only [hs] at h
      exact ⟨a, f, fb, b1, eqn, eqn, h⟩

theorem evalSend_mon_allot_inv {env : VEnv} {e : Expr} {items : List (PortionSpec × Source)} {d : Dest} {st st' : St}
    (h : evalSend env (.mon e) (.allot items) d st = .ok st') :
    ∃ ma mn a ps ts b1 f, evalMon env e = .ok (ma, mn) ∧ leftAsset env e = .ok a ∧
      resolvePortions env (items.map (·.1)) = .ok ps ∧
      evalAllotSources env a ma items (allocate ps mn) st.bal = .ok (ts, b1) ∧ assemble ts = .ok f ∧
      finishSend env d f { st with bal := b1 } = .ok st' := by
  simp only [evalSend] at h
  cases hm : evalMon env e with
  | error er => simp [hm] at h
  | ok m =>
    obtain ⟨ma, mn⟩ := m
    simp only [hm] at h
    cases hl : leftAsset env e with
    | error er => simp [hl] at h
    | ok a =>
      simp only [hl] at h
      cases hp : resolvePortions env (items.map (·.1)) with
      | error er => simp [hp] at h
      | ok ps =>
        simp only [hp] at h
        cases hs : evalAllotSources env a ma items (allocate ps mn) st.bal with
        | error er => simp [hs] at h
        | ok r =>
          obtain ⟨ts, b1⟩ := r
          simp only [hs] at h
          cases hasm : assemble ts with
          | error er => simp [hasm] at h
          | ok f =>
            simp only [hasm] at h
            exact ⟨ma, mn, a, ps, ts, b1, f, eqn, eqn, eqn, eqn, eqn, h⟩

theorem evalSend_all_allot (env : VEnv) (ae : Expr) (items : List (PortionSpec × Source)) (d : Dest) (st : St) :
    evalSend env (.all ae) (.allot items) d st = .error .compile := by
  simp only [evalSend]

theorem evalAllotSources_nil_inv {env : VEnv} {asset ma : Asset} {parts : List Int} {b b' : Bal} {ts : List Fund}
    (h : evalAllotSources env asset ma [] parts b = .ok (ts, b')) : ts = [] ∧ b' = b := by
  simp only [evalAllotSources, Except.ok.injEq, Prod.mk.injEq] at h
  exact ⟨h.1.symm, h.2.symm⟩

theorem evalAllotSources_cons_inv {env : VEnv} {asset ma : Asset} {it : PortionSpec × Source}
    {rest : List (PortionSpec × Source)} {parts : List Int} {b b' : Bal} {ts : List Fund}
    (h : evalAllotSources env asset ma (it :: rest) parts b = .ok (ts, b')) :
    ∃ p ps f fb b1 t b2 ts', parts = p :: ps ∧ evalSource env asset it.2 b = .ok (f, fb, b1) ∧
      takeFromSource fb f ma p b1 = .ok (t, b2) ∧
      evalAllotSources env asset ma rest ps b2 = .ok (ts', b') ∧ ts = t :: ts' := by
  obtain ⟨q, s⟩ := it
  simp only [evalAllotSources] at h
  cases parts with
  | nil => simp at h
  | cons p ps =>
    simp only at h
    cases hs : evalSource env asset s b with
    | error er => simp [hs] at h
    | ok r =>
      obtain ⟨f, fb, b1⟩ := r
      simp only [hs] at h
      cases ht : takeFromSource fb f ma p b1 with
      | error er => simp [ht] at h
      | ok tr =>
        obtain ⟨t, b2⟩ := tr
        simp only [ht] at h
        cases hr : evalAllotSources env asset ma rest ps b2 with
        | error er => simp [hr] at h
        | ok rr =>
          obtain ⟨ts', b3⟩ := rr
          simp only [hr, Except.ok.injEq, Prod.mk.injEq] at h
          obtain ⟨h1, h2⟩ := h
          subst h2
          exact ⟨p, ps, f, fb, b1, t, b2, ts', eqn, eqn, eqn, eqn, h1.symm⟩

theorem evalStmt_send_inv {env : VEnv} {amt : SendAmt} {src : VSource} {d : Dest} {F F' : Full}
    (h : evalStmt env (.send amt src d) F = .ok F') :
    ∃ st, evalSend env amt src d F.st = .ok st ∧ F' = { F with st := st } := by
  simp only [evalStmt] at h
  cases hs : evalSend env amt src d F.st with
  | error er => simp [hs] at h
  | ok st =>
    simp only [hs, Except.ok.injEq] at h
    exact ⟨st, rfl, h.symm⟩

theorem evalStmt_saveMon_inv {env : VEnv} {e acc : Expr} {F F' : Full}
    (h : evalStmt env (.saveMon e acc) F = .ok F') :
    ∃ ma mn a t, evalMon env e = .ok (ma, mn) ∧ evalAcct env acc = .ok a ∧ 0 ≤ mn ∧
      F.st.bal.get a ma = some t ∧
      F' = { F with st := { F.st with bal := F.st.bal.upd a ma (t - mn) } } := by
  simp only [evalStmt] at h
  cases hm : evalMon env e with
  | error er => simp [hm] at h
  | ok m =>
    obtain ⟨ma, mn⟩ := m
    simp only [hm] at h
    cases ha : evalAcct env acc with
    | error er => simp [ha] at h
    | ok a =>
      simp only [ha] at h
      by_cases hneg : mn < 0
      · simp [hneg] at h
      · simp only [hneg, if_false] at h
        cases hb : F.st.bal.get a ma with
        | none => simp [hb] at h
        | some t =>
          simp only [hb, Except.ok.injEq] at h
          exact ⟨ma, mn, a, t, eqn, eqn, by omega, eqn, h.symm⟩

theorem evalStmt_saveAll_inv {env : VEnv} {ae acc : Expr} {F F' : Full}
    (h : evalStmt env (.saveAll ae acc) F = .ok F') :
    ∃ s a t, evalAsset env ae = .ok s ∧ evalAcct env acc = .ok a ∧ F.st.bal.get a s = some t ∧
      F' = { F with st := { F.st with bal := if t > 0 then F.st.bal.upd a s 0 else F.st.bal } } := by
  simp only [evalStmt] at h
  cases hm : evalAsset env ae with
  | error er => simp [hm] at h
  | ok s =>
    simp only [hm] at h
    cases ha : evalAcct env acc with
    | error er => simp [ha] at h
    | ok a =>
      simp only [ha] at h
      cases hb : F.st.bal.get a s with
      | none => simp [hb] at h
      | some t =>
        simp only [hb, Except.ok.injEq] at h
        exact ⟨s, a, t, eqn, eqn, eqn, h.symm⟩

/-- the statements that move no funds leave balances and postings alone -/
theorem evalStmt_other_inv {env : VEnv} {s : Stmt} {F F' : Full} (h : evalStmt env s F = .ok F')
    (h1 : ∀ amt src d, s ≠ .send amt src d) (h2 : ∀ e acc, s ≠ .saveMon e acc) (h3 : ∀ ae acc, s ≠ .saveAll ae acc) :
    F'.st = F.st := by
  cases s with
  | send amt src d => exact absurd rfl (h1 amt src d)
  | saveMon e acc => exact absurd rfl (h2 e acc)
  | saveAll ae acc => exact absurd rfl (h3 ae acc)
  | setTxMeta k v =>
    simp only [evalStmt] at h
    cases hv : evalExpr env v with
    | error er => simp [hv] at h
    | ok x => simp only [hv, Except.ok.injEq] at h; rw [← h]
  | setAccountMeta acc k v =>
    simp only [evalStmt] at h
    cases hv : evalExpr env v with
    | error er => simp [hv] at h
    | ok x =>
      simp only [hv] at h
      cases ha : evalAcct env acc with
      | error er => simp [ha] at h
      | ok a => simp only [ha, Except.ok.injEq] at h; rw [← h]
  | print e =>
    simp only [evalStmt] at h
    cases hv : evalExpr env e with
    | error er => simp [hv] at h
    | ok x => simp only [hv, Except.ok.injEq] at h; rw [← h]
  | fail => simp [evalStmt] at h

theorem evalStmts_cons_inv {env : VEnv} {s : Stmt} {ss : List Stmt} {F F' : Full}
    (h : evalStmts env (s :: ss) F = .ok F') :
    ∃ F1, evalStmt env s F = .ok F1 ∧ evalStmts env ss F1 = .ok F' := by
  simp only [evalStmts] at h
  cases hs : evalStmt env s F with
  | error er => simp [hs] at h
  | ok F1 =>
    simp only [hs] at h
    exact ⟨F1, rfl, h⟩

/-- a successful run: the environment, the final interpreter state, and where the postings come from -/
theorem run_inv {P : Script} {req : Request} {store : Store} {r : Result} (h : run P req store = .ok r) :
    ∃ env F, prepare P req store = .ok env ∧
      evalStmts env P.stmts { st := { bal := initBal store (needed env P.stmts), postings := [] } } = .ok F ∧
      r.postings = F.st.postings := by
  simp only [run] at h
  cases hp : prepare P req store with
  | error er => simp [hp] at h
  | ok env =>
    simp only [hp] at h
    cases hc : checkBalanceVars env P.vars with
    | error er => simp [hc] at h
    | ok u =>
      simp only [hc] at h
      cases he : evalStmts env P.stmts { st := { bal := initBal store (needed env P.stmts), postings := [] } } with
      | error er => simp [he] at h
      | ok F =>
        simp only [he] at h
        split at h
        · cases h
        · simp only [Except.ok.injEq] at h
          exact ⟨env, F, eqn, eqn, by rw [← h]⟩

end Num
