import Model.Engine.SkelSys
import Model.Engine.SkelAutoFloor
import Model.Engine.Floor
import Lemmas.EngineFloorLock
/-! The system that interprets the regenerated skeleton (`SkelSys`) refines the `Floor` machine (C02), under item-level
interleaving, given what the script's result must satisfy (`JobOk`: the facts §3.4 takes from the Numscript side). -/
namespace Engine.Skel.FloorRef
open Engine Engine.Skel Engine.Skel.Sys

theorem frun_snoc (tx : Bool) (ph : FPh) (xs : Path) (x : Item) :
    frun tx ph (xs ++ [x]) = (frun tx ph xs).bind (fun ph' => fstep tx ph' (ftok x)) := by
  induction xs generalizing ph with
  | nil =>
    simp only [List.nil_append, frun]
    cases h : fstep tx ph (ftok x) <;> simp [h]
  | cons y ys ih =>
    simp only [List.cons_append, frun]
    cases fstep tx ph (ftok y) with
    | none => simp
    | some ph' => exact ih ph'

theorem frun_cons_some (tx : Bool) (ph : FPh) (x : Item) (rest : Path) (h : (frun tx ph (x :: rest)).isSome = true) :
    ∃ ph', fstep tx ph (ftok x) = some ph' ∧ (frun tx ph' rest).isSome = true := by
  simp only [frun] at h
  cases hc : fstep tx ph (ftok x) with
  | none => simp [hc] at h
  | some ph' => exact ⟨ph', rfl, by simpa [hc] using h⟩

-- ------------------------------------------------------------------------------------------------ locks, reads, balances

/-- the FIFO recheck only moves holds from the queue to the holders -/
theorem recheck_perm (hs q : List Floor.Hold) : ((Floor.recheck hs q).1 ++ (Floor.recheck hs q).2).Perm (hs ++ q) := by
  induction q generalizing hs with
  | nil => simp [Floor.recheck_nil]
  | cons x q ih =>
    rw [Floor.recheck_cons]
    by_cases hc : Floor.compatible hs x = true
    · simp only [hc, if_true]
      refine (ih (hs ++ [x])).trans ?_
      simp
    · simp only [hc]
      have := ih hs
      refine List.Perm.trans ?_ (List.perm_middle.symm)
      refine List.Perm.trans (List.perm_middle) ?_
      exact List.Perm.cons x this

/-- the balances a request has read and not yet used -/
def readsOf (s : Floor.S) (a : Nat) : List (Nat × Acct × String × Int) := s.reads.filter (fun r => r.1 = a)

/-- the balances of the job the `Floor` machine records: those of accounts other than `world`, most recent first -/
def jreads (j : Job) : List (Acct × String × Int) := (j.bals.filter (fun b => b.1 ≠ "world")).reverse

def lookupRead (rs : List (Acct × String × Int)) (x : Acct) (asset : String) : Option Int :=
  (rs.find? (fun b => b.1 = x ∧ b.2.1 = asset)).map (·.2.2)

theorem readOf_eq (s : Floor.S) (a : Nat) (x : Acct) (asset : String) :
    Floor.readOf s a x asset = lookupRead ((readsOf s a).map (·.2)) x asset := by
  unfold Floor.readOf lookupRead readsOf
  induction s.reads with
  | nil => rfl
  | cons r rs ih =>
    simp only [List.find?_cons, List.filter_cons]
    by_cases hr : r.1 = a
    · by_cases hx : r.2.1 = x ∧ r.2.2.1 = asset
      · simp [hr, hx]
      · simp only [hr, true_and, hx, decide_false, decide_true, if_true, List.map_cons, List.find?_cons]
        exact ih
    · simp only [hr, false_and, decide_false, Bool.false_eq_true, if_false]
      exact ih

theorem balanceOf_logs (ls ms : List Floor.Entry) (h : ls.map (·.log) = ms.map (·.log)) (x : Acct) (asset : String) :
    Floor.balanceOf ls x asset = Floor.balanceOf ms x asset := by
  unfold Floor.balanceOf
  suffices H : ∀ (acc : Int), List.foldl (fun acc (e : Floor.Entry) => e.log.postings.foldl (fun acc p =>
      if p.asset = asset then (if p.dst = x then acc + p.amt else acc) - (if p.src = x then p.amt else 0) else acc) acc) acc ls =
      List.foldl (fun acc (e : Floor.Entry) => e.log.postings.foldl (fun acc p =>
      if p.asset = asset then (if p.dst = x then acc + p.amt else acc) - (if p.src = x then p.amt else 0) else acc) acc) acc ms from H 0
  induction ls generalizing ms with
  | nil =>
    intro acc
    cases ms with
    | nil => rfl
    | cons m ms => simp at h
  | cons l ls ih =>
    intro acc
    cases ms with
    | nil => simp at h
    | cons m ms =>
      simp only [List.map_cons, List.cons.injEq] at h
      simp only [List.foldl_cons, h.1]
      exact ih ms h.2 _

-- ------------------------------------------------------------------------------------------------ the invariant

/-- what the script's result must satisfy (the Numscript side of §3.4: `exec_floor`, `exec_sources_locked`; stated on
`Spec` and checked by the differentials): the balances it reads and the accounts it touches lie inside its lock sets,
every bounded source was read, and the postings respect the floor against the balances read -/
structure JobOk (grant : Nat → Option Int) (j : Job) : Prop where
  balsLocked : ∀ b ∈ j.bals, b.1 = "world" ∨ (j.r.contains b.1 || j.w.contains b.1) = true
  postLocked : j.postings.all (fun p => (p.src = "world" || j.w.contains p.src) && (p.dst = "world" || j.r.contains p.dst || j.w.contains p.dst)) = true
  srcRead : j.postings.all (fun p => p.src = "world" || (lookupRead (jreads j) p.src p.asset).isSome) = true
  floor : Floor.floorOk (grant j.a) (fun x asset => (lookupRead (jreads j) x asset).getD 0) j.postings = true
  metaEmpty : j.isTx = false → j.postings = []

def holds (s : Floor.S) : List Floor.Hold := s.holders ++ s.queue

def holdOfJob (j : Job) : Floor.Hold := ⟨j.a, j.r, j.w⟩

structure FPI (s : Floor.S) (p : Proc) (ph : FPh) : Prop where
  run : frun p.job.isTx {} p.done = some ph
  rest : p.alive = true → (frun p.job.isTx ph p.todo).isSome = true
  chp : ∀ l, p.regs.chained = some l → l.postings = p.job.postings
  noneH : ph.lock ≠ .held → ∀ h ∈ holds s, h.a ≠ p.job.a
  heldH : ph.lock = .held → p.alive = true → holdOfJob p.job ∈ holds s
  rds : p.alive = true →
    readsOf s p.job.a = if ph.read = true ∧ ph.committed = false ∧ ph.lock = .held then (jreads p.job).map (fun b => (p.job.a, b)) else []
  np : (ph.committed = false ∨ ph.waited = true) → ∀ e ∈ s.pending, e.by_ ≠ p.job.a
  wc : ph.waited = true → ph.committed = true
  rl : ph.lock = .none → ph.read = false

structure FInv (grant : Nat → Option Int) (st : State) (s : Floor.S) : Prop where
  dur : s.durable.map (·.log) = st.sh.store
  pend : s.pending.map (fun e => (e.by_, e.log)) = st.sh.queue
  hold : s.holders = st.sh.holders
  que : s.queue = st.sh.lqueue
  nodup : (st.procs.map (·.job.a)).Nodup
  hnodup : ((holds s).map (·.a)).Nodup
  howner : ∀ h ∈ holds s, ∃ p ∈ st.procs, p.alive = true ∧ p.job.a = h.a
  procs : ∀ p ∈ st.procs, ∃ ph, FPI s p ph
  jobs : ∀ p ∈ st.procs, JobOk grant p.job

/-- what a step of actor `a` may do to what `Floor` knows about the others -/
structure Others (a : Nat) (s s' : Floor.S) : Prop where
  hold : ∀ h : Floor.Hold, h.a ≠ a → (h ∈ holds s' ↔ h ∈ holds s)
  rds : ∀ b, b ≠ a → readsOf s' b = readsOf s b
  pnd : ∀ e : Floor.Entry, e.by_ ≠ a → (e ∈ s'.pending ↔ e ∈ s.pending)

theorem Others.refl (a : Nat) (s : Floor.S) : Others a s s := ⟨fun _ _ => Iff.rfl, fun _ _ => rfl, fun _ _ => Iff.rfl⟩

theorem fpi_other (s s' : Floor.S) (a : Nat) (q : Proc) (ph : FPh) (h : FPI s q ph) (hne : q.job.a ≠ a) (ho : Others a s s') :
    FPI s' q ph := by
  refine { run := h.run, rest := h.rest, chp := h.chp, noneH := ?_, heldH := ?_, rds := ?_, np := ?_, wc := h.wc, rl := h.rl }
  · intro hl x hx hxa
    have : x.a ≠ a := by rw [hxa]; exact hne
    exact h.noneH hl x ((ho.hold x this).1 hx) hxa
  · intro hl hal
    exact (ho.hold _ (by exact hne)).2 (h.heldH hl hal)
  · intro hal
    rw [ho.rds _ hne]; exact h.rds hal
  · intro hc e he hea
    have : e.by_ ≠ a := by rw [hea]; exact hne
    exact h.np hc e ((ho.pnd e this).1 he) hea

-- ------------------------------------------------------------------------------------------------ frames

/-- the events `Floor` may react to -/
def isFloorEv : Ev → Bool
  | .lock .. => true
  | .unlock .. => true
  | .balRead .. => true
  | .committed .. => true
  | .gate .. => true
  | .crash => true
  | .resume _ pt => pt = "lock-granted"
  | _ => false

theorem floor_ignores (grant : Nat → Option Int) (s : Floor.S) (ev : Ev) (h : isFloorEv ev = false) : Floor.step grant s ev = .ok s := by
  cases ev <;> simp_all [isFloorEv, Floor.step]

theorem runOn_ignored (grant : Nat → Option Int) (s : Floor.S) (evs : List Ev) (h : ∀ ev ∈ evs, isFloorEv ev = false) :
    runOn (Floor.step grant) s evs = .ok s := by
  induction evs with
  | nil => rfl
  | cons e es ih =>
    simp only [runOn, floor_ignores grant s e (h e (List.mem_cons_self ..))]
    exact ih (fun ev hev => h ev (List.mem_cons_of_mem _ hev))

theorem ftok_append_ne (o : String) : (if o = "chained" then FTok.appendC else FTok.appendX) ≠ FTok.other := by
  split <;> simp

theorem effSh_other (sh : Shared) (j : Job) (rg : Regs) (x : Item) (hx : ftok x = .other) :
    (effSh sh j rg x).store = sh.store ∧ (effSh sh j rg x).queue = sh.queue ∧ (effSh sh j rg x).holders = sh.holders ∧
    (effSh sh j rg x).lqueue = sh.lqueue := by
  unfold effSh
  split <;> simp_all [ftok, ftok_append_ne]

theorem effRg_other (sh : Shared) (j : Job) (rg : Regs) (x : Item) (hx : ftok x = .other) :
    (effRg sh j rg x).chained = rg.chained := by
  unfold effRg
  split <;> simp_all [ftok]

theorem evs_other (sh : Shared) (j : Job) (rg : Regs) (x : Item) (hx : ftok x = .other) :
    ∀ ev ∈ evsOf sh j rg x, isFloorEv ev = false := by
  unfold evsOf
  split <;> (try split) <;> simp_all [ftok, isFloorEv, ftok_append_ne]

-- ------------------------------------------------------------------------------------------------ reading balances

/-- the balance reads of a request that holds its locks, one after the other: `Floor` accepts them and records those
of accounts other than `world` -/
theorem balReads_run (grant : Nat → Option Int) (a : Nat) (h : Floor.Hold) (bals : List (Acct × String × Int)) :
    ∀ (s : Floor.S), Floor.holdOf s a = some h → s.pending.any (fun e => decide (e.by_ = a)) = false →
      (∀ b ∈ bals, b.1 = "world" ∨ (h.r.contains b.1 || h.w.contains b.1) = true) →
      (∀ b ∈ bals, b.1 = "world" ∨ b.2.2 = Floor.balanceOf s.durable b.1 b.2.1) →
      runOn (Floor.step grant) s (bals.map (fun b => Ev.balRead a b.1 b.2.1 b.2.2)) =
        .ok { s with reads := ((bals.filter (fun b => b.1 ≠ "world")).reverse.map (fun b => (a, b))) ++ s.reads } := by
  induction bals with
  | nil => intro s _ _ _ _; rfl
  | cons b bs ih =>
    intro s hh hp hl hv
    have hl' : ∀ b' ∈ bs, b'.1 = "world" ∨ (h.r.contains b'.1 || h.w.contains b'.1) = true :=
      fun b' hb' => hl b' (List.mem_cons_of_mem _ hb')
    have hv' : ∀ b' ∈ bs, b'.1 = "world" ∨ b'.2.2 = Floor.balanceOf s.durable b'.1 b'.2.1 :=
      fun b' hb' => hv b' (List.mem_cons_of_mem _ hb')
    simp only [List.map_cons, runOn]
    by_cases hw : b.1 = "world"
    · simp only [Floor.step, hw, if_true]
      rw [ih s hh hp hl' hv']
      simp [List.filter_cons, hw]
    · have hlb := (hl b (List.mem_cons_self ..)).resolve_left hw
      have hvb := (hv b (List.mem_cons_self ..)).resolve_left hw
      have hstep : Floor.step grant s (Ev.balRead a b.1 b.2.1 b.2.2) = .ok { s with reads := (a, b.1, b.2.1, b.2.2) :: s.reads } := by
        have hlb' : ¬ b.1 ∈ h.r → b.1 ∈ h.w := by
          intro hn
          simpa [hn] using hlb
        simp [Floor.step, hw, hp, hh, hvb]
        exact hlb'
      rw [hstep]
      simp only
      have := ih { s with reads := (a, b.1, b.2.1, b.2.2) :: s.reads } hh hp hl' hv'
      rw [this]
      simp [List.filter_cons, hw]

-- ------------------------------------------------------------------------------------------------ one item

theorem ftok_cases (x : Item) :
    ftok x = .other ∨ (∃ v, x = .act .lock .ok v) ∨ (∃ o v, x = .act .unlock o v) ∨ (∃ v, x = .act .readBalances .ok v) ∨
    (∃ o v, x = .act .chainLog o v) ∨ (∃ og cs o v, x = .act (.append og cs) o v) ∨ (∃ o v, x = .act (.wait "persisted") o v) ∨
    (∃ o v, x = .act (.yield "lock-granted") o v) := by
  cases x with
  | act a o v =>
    cases a <;> try (simp [ftok]; done)
    · rename_i pt
      by_cases h : pt = "lock-granted"
      · subst h; simp
      · simp [ftok, h]
    · cases o <;> simp [ftok]
    · cases o <;> simp [ftok]
    · rename_i c
      by_cases h : c = "persisted"
      · subst h; simp
      · simp [ftok, h]
  | _ => simp [ftok]

theorem eq_of_nodup_actors {l : List Floor.Hold} (hnd : (l.map (·.a)).Nodup) {x y : Floor.Hold} (hx : x ∈ l) (hy : y ∈ l)
    (h : x.a = y.a) : x = y := by
  induction l with
  | nil => cases hx
  | cons z zs ih =>
    simp only [List.map_cons, List.nodup_cons] at hnd
    rcases List.mem_cons.1 hx with rfl | hx' <;> rcases List.mem_cons.1 hy with rfl | hy'
    · rfl
    · exact absurd (List.mem_map_of_mem (f := (·.a)) hy') (h ▸ hnd.1)
    · exact absurd (List.mem_map_of_mem (f := (·.a)) hx') (h ▸ hnd.1)
    · exact ih hnd.2 hx' hy'

/-- with one hold per request, the first hold of `a` among the holders is THE hold of `a` -/
theorem holdOf_of_mem (s : Floor.S) (a : Nat) (h : Floor.Hold) (hm : h ∈ s.holders) (ha : h.a = a)
    (hnd : ((holds s).map (·.a)).Nodup) : Floor.holdOf s a = some h := by
  unfold Floor.holdOf
  obtain ⟨h', hf⟩ := Floor.find_hold_of_mem hm ha
  obtain ⟨hm', ha'⟩ := Floor.find_hold_some hf
  rw [hf]
  have hnd' : (s.holders.map (·.a)).Nodup := by
    unfold holds at hnd
    rw [List.map_append] at hnd
    exact (List.nodup_append.1 hnd).1
  have : h' = h := eq_of_nodup_actors hnd' hm' hm (ha'.trans ha.symm)
  rw [this]

theorem holdOf_none (s : Floor.S) (a : Nat) (h : ∀ x ∈ holds s, x.a ≠ a) : Floor.holdOf s a = none := by
  unfold Floor.holdOf
  rw [List.find?_eq_none]
  intro x hx
  have := h x (by unfold holds; exact List.mem_append_left _ hx)
  simpa using this

end Engine.Skel.FloorRef
