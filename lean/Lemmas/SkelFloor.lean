import Model.Engine.SkelSys
import Model.Engine.SkelAutoFloor
import Model.Engine.Floor
import Lemmas.EngineFloorLock
/-! The system that interprets the regenerated skeleton (`SkelSys`) refines the `Floor` machine (C02), under item-level
interleaving, given what the script's result must satisfy (`JobOk`: the facts §3.4 takes from the Numscript side). -/
namespace Engine.Skel.FloorRef
open Engine Engine.Skel Engine.Skel.Sys

theorem frun_snoc (tx : Bool) (ph : FPh) (xs : Path) (x : Item) :
    frun tx ph (xs ++ [x]) = (frun tx ph xs).bind (fun ph' => fstep tx ph' (ftok x)) := by
  induction xs generalizing ph with
  | nil =>
    simp only [List.nil_append, frun]
    cases h : fstep tx ph (ftok x) <;> simp [h]
  | cons y ys ih =>
    simp only [List.cons_append, frun]
    cases fstep tx ph (ftok y) with
    | none => simp
    | some ph' => exact ih ph'

theorem frun_cons_some (tx : Bool) (ph : FPh) (x : Item) (rest : Path) (h : (frun tx ph (x :: rest)).isSome = true) :
    ∃ ph', fstep tx ph (ftok x) = some ph' ∧ (frun tx ph' rest).isSome = true := by
  simp only [frun] at h
  cases hc : fstep tx ph (ftok x) with
  | none => simp [hc] at h
  | some ph' => exact ⟨ph', rfl, by simpa [hc] using h⟩

-- ------------------------------------------------------------------------------------------------ locks, reads, balances

/-- the FIFO recheck only moves holds from the queue to the holders -/
theorem recheck_perm (hs q : List Floor.Hold) : ((Floor.recheck hs q).1 ++ (Floor.recheck hs q).2).Perm (hs ++ q) := by
  induction q generalizing hs with
  | nil => simp [Floor.recheck_nil]
  | cons x q ih =>
    rw [Floor.recheck_cons]
    by_cases hc : Floor.compatible hs x = true
    · simp only [hc, if_true]
      refine (ih (hs ++ [x])).trans ?_
      simp
    · simp only [hc]
      have := ih hs
      refine List.Perm.trans ?_ (List.perm_middle.symm)
      refine List.Perm.trans (List.perm_middle) ?_
      exact List.Perm.cons x this

/-- the balances a request has read and not yet used -/
def readsOf (s : Floor.S) (a : Nat) : List (Nat × Acct × String × Int) := s.reads.filter (fun r => r.1 = a)

/-- the balances of the job the `Floor` machine records: those of accounts other than `world`, most recent first -/
def jreads (j : Job) : List (Acct × String × Int) := (j.bals.filter (fun b => b.1 ≠ "world")).reverse

def lookupRead (rs : List (Acct × String × Int)) (x : Acct) (asset : String) : Option Int :=
  (rs.find? (fun b => b.1 = x ∧ b.2.1 = asset)).map (·.2.2)

theorem readOf_eq (s : Floor.S) (a : Nat) (x : Acct) (asset : String) :
    Floor.readOf s a x asset = lookupRead ((readsOf s a).map (·.2)) x asset := by
  unfold Floor.readOf lookupRead readsOf
  induction s.reads with
  | nil => rfl
  | cons r rs ih =>
    simp only [List.find?_cons, List.filter_cons]
    by_cases hr : r.1 = a
    · by_cases hx : r.2.1 = x ∧ r.2.2.1 = asset
      · simp [hr, hx]
      · simp only [hr, true_and, hx, decide_false, decide_true, if_true, List.map_cons, List.find?_cons]
        exact ih
    · simp only [hr, false_and, decide_false, Bool.false_eq_true, if_false]
      exact ih

theorem balanceOf_logs (ls ms : List Floor.Entry) (h : ls.map (·.log) = ms.map (·.log)) (x : Acct) (asset : String) :
    Floor.balanceOf ls x asset = Floor.balanceOf ms x asset := by
  unfold Floor.balanceOf
  suffices H : ∀ (acc : Int), List.foldl (fun acc (e : Floor.Entry) => e.log.postings.foldl (fun acc p =>
      if p.asset = asset then (if p.dst = x then acc + p.amt else acc) - (if p.src = x then p.amt else 0) else acc) acc) acc ls =
      List.foldl (fun acc (e : Floor.Entry) => e.log.postings.foldl (fun acc p =>
      if p.asset = asset then (if p.dst = x then acc + p.amt else acc) - (if p.src = x then p.amt else 0) else acc) acc) acc ms from H 0
  induction ls generalizing ms with
  | nil =>
    intro acc
    cases ms with
    | nil => rfl
    | cons m ms => simp at h
  | cons l ls ih =>
    intro acc
    cases ms with
    | nil => simp at h
    | cons m ms =>
      simp only [List.map_cons, List.cons.injEq] at h
      simp only [List.foldl_cons, h.1]
      exact ih ms h.2 _

-- ------------------------------------------------------------------------------------------------ the invariant

/-- what the script's result must satisfy (the Numscript side of §3.4: `exec_floor`, `exec_sources_locked`; stated on
`Spec` and checked by the differentials): the balances it reads and the accounts it touches lie inside its lock sets,
every bounded source was read, and the postings respect the floor against the balances read -/
structure JobOk (grant : Nat → Option Int) (j : Job) : Prop where
  balsLocked : ∀ b ∈ j.bals, b.1 = "world" ∨ (j.r.contains b.1 || j.w.contains b.1) = true
  postLocked : j.postings.all (fun p => (p.src = "world" || j.w.contains p.src) && (p.dst = "world" || j.r.contains p.dst || j.w.contains p.dst)) = true
  srcRead : j.postings.all (fun p => p.src = "world" || (lookupRead (jreads j) p.src p.asset).isSome) = true
  floor : Floor.floorOk (grant j.a) (fun x asset => (lookupRead (jreads j) x asset).getD 0) j.postings = true
  metaEmpty : j.isTx = false → j.postings = []

def holds (s : Floor.S) : List Floor.Hold := s.holders ++ s.queue

def holdOfJob (j : Job) : Floor.Hold := ⟨j.a, j.r, j.w⟩

structure FPI (s : Floor.S) (p : Proc) (ph : FPh) : Prop where
  run : frun p.job.isTx {} p.done = some ph
  rest : p.alive = true → (frun p.job.isTx ph p.todo).isSome = true
  chp : ∀ l, p.regs.chained = some l → l.postings = p.job.postings
  noneH : ph.lock ≠ .held → ∀ h ∈ holds s, h.a ≠ p.job.a
  heldH : ph.lock = .held → p.alive = true → holdOfJob p.job ∈ holds s
  rds : p.alive = true →
    readsOf s p.job.a = if ph.read = true ∧ ph.committed = false ∧ ph.lock = .held then (jreads p.job).map (fun b => (p.job.a, b)) else []
  np : (ph.committed = false ∨ ph.waited = true) → ∀ e ∈ s.pending, e.by_ ≠ p.job.a
  wc : ph.waited = true → ph.committed = true
  rl : ph.lock = .none → ph.read = false

structure FInv (grant : Nat → Option Int) (st : State) (s : Floor.S) : Prop where
  dur : s.durable.map (·.log) = st.sh.store
  pend : s.pending.map (fun e => (e.by_, e.log)) = st.sh.queue
  hold : s.holders = st.sh.holders
  que : s.queue = st.sh.lqueue
  nodup : (st.procs.map (·.job.a)).Nodup
  hnodup : ((holds s).map (·.a)).Nodup
  howner : ∀ h ∈ holds s, ∃ p ∈ st.procs, p.alive = true ∧ p.job.a = h.a
  procs : ∀ p ∈ st.procs, ∃ ph, FPI s p ph
  jobs : ∀ p ∈ st.procs, JobOk grant p.job
  rowner : ∀ r ∈ s.reads, ∃ p ∈ st.procs, p.job.a = r.1
  powner : ∀ e ∈ s.pending, ∃ p ∈ st.procs, p.job.a = e.by_

/-- what a step of actor `a` may do to what `Floor` knows about the others -/
structure Others (a : Nat) (s s' : Floor.S) : Prop where
  hold : ∀ h : Floor.Hold, h.a ≠ a → (h ∈ holds s' ↔ h ∈ holds s)
  rds : ∀ b, b ≠ a → readsOf s' b = readsOf s b
  pnd : ∀ e : Floor.Entry, e.by_ ≠ a → (e ∈ s'.pending ↔ e ∈ s.pending)

theorem Others.refl (a : Nat) (s : Floor.S) : Others a s s := ⟨fun _ _ => Iff.rfl, fun _ _ => rfl, fun _ _ => Iff.rfl⟩

theorem fpi_other (s s' : Floor.S) (a : Nat) (q : Proc) (ph : FPh) (h : FPI s q ph) (hne : q.job.a ≠ a) (ho : Others a s s') :
    FPI s' q ph := by
  refine { run := h.run, rest := h.rest, chp := h.chp, noneH := ?_, heldH := ?_, rds := ?_, np := ?_, wc := h.wc, rl := h.rl }
  · intro hl x hx hxa
    have : x.a ≠ a := by rw [hxa]; exact hne
    exact h.noneH hl x ((ho.hold x this).1 hx) hxa
  · intro hl hal
    exact (ho.hold _ (by exact hne)).2 (h.heldH hl hal)
  · intro hal
    rw [ho.rds _ hne]; exact h.rds hal
  · intro hc e he hea
    have : e.by_ ≠ a := by rw [hea]; exact hne
    exact h.np hc e ((ho.pnd e this).1 he) hea

-- ------------------------------------------------------------------------------------------------ frames

/-- the events `Floor` may react to -/
def isFloorEv : Ev → Bool
  | .lock .. => true
  | .unlock .. => true
  | .balRead .. => true
  | .committed .. => true
  | .gate .. => true
  | .crash => true
  | .resume _ pt => pt = "lock-granted"
  | _ => false

theorem floor_ignores (grant : Nat → Option Int) (s : Floor.S) (ev : Ev) (h : isFloorEv ev = false) : Floor.step grant s ev = .ok s := by
  cases ev <;> simp_all [isFloorEv, Floor.step]

theorem runOn_ignored (grant : Nat → Option Int) (s : Floor.S) (evs : List Ev) (h : ∀ ev ∈ evs, isFloorEv ev = false) :
    runOn (Floor.step grant) s evs = .ok s := by
  induction evs with
  | nil => rfl
  | cons e es ih =>
    simp only [runOn, floor_ignores grant s e (h e (List.mem_cons_self ..))]
    exact ih (fun ev hev => h ev (List.mem_cons_of_mem _ hev))

theorem ftok_append_ne (o : String) : (if o = "chained" then FTok.appendC else FTok.appendX) ≠ FTok.other := by
  split <;> simp

theorem effSh_other (sh : Shared) (j : Job) (rg : Regs) (x : Item) (hx : ftok x = .other) :
    (effSh sh j rg x).store = sh.store ∧ (effSh sh j rg x).queue = sh.queue ∧ (effSh sh j rg x).holders = sh.holders ∧
    (effSh sh j rg x).lqueue = sh.lqueue := by
  unfold effSh
  split <;> simp_all [ftok, ftok_append_ne]

theorem effRg_other (sh : Shared) (j : Job) (rg : Regs) (x : Item) (hx : ftok x = .other) :
    (effRg sh j rg x).chained = rg.chained := by
  unfold effRg
  split <;> simp_all [ftok]

theorem evs_other (sh : Shared) (j : Job) (rg : Regs) (x : Item) (hx : ftok x = .other) :
    ∀ ev ∈ evsOf sh j rg x, isFloorEv ev = false := by
  unfold evsOf
  split <;> (try split) <;> simp_all [ftok, isFloorEv, ftok_append_ne]

-- ------------------------------------------------------------------------------------------------ reading balances

/-- the balance reads of a request that holds its locks, one after the other: `Floor` accepts them and records those
of accounts other than `world` -/
theorem balReads_run (grant : Nat → Option Int) (a : Nat) (h : Floor.Hold) (bals : List (Acct × String × Int)) :
    ∀ (s : Floor.S), Floor.holdOf s a = some h → s.pending.any (fun e => decide (e.by_ = a)) = false →
      (∀ b ∈ bals, b.1 = "world" ∨ (h.r.contains b.1 || h.w.contains b.1) = true) →
      (∀ b ∈ bals, b.1 = "world" ∨ b.2.2 = Floor.balanceOf s.durable b.1 b.2.1) →
      runOn (Floor.step grant) s (bals.map (fun b => Ev.balRead a b.1 b.2.1 b.2.2)) =
        .ok { s with reads := ((bals.filter (fun b => b.1 ≠ "world")).reverse.map (fun b => (a, b))) ++ s.reads } := by
  induction bals with
  | nil => intro s _ _ _ _; rfl
  | cons b bs ih =>
    intro s hh hp hl hv
    have hl' : ∀ b' ∈ bs, b'.1 = "world" ∨ (h.r.contains b'.1 || h.w.contains b'.1) = true :=
      fun b' hb' => hl b' (List.mem_cons_of_mem _ hb')
    have hv' : ∀ b' ∈ bs, b'.1 = "world" ∨ b'.2.2 = Floor.balanceOf s.durable b'.1 b'.2.1 :=
      fun b' hb' => hv b' (List.mem_cons_of_mem _ hb')
    simp only [List.map_cons, runOn]
    by_cases hw : b.1 = "world"
    · simp only [Floor.step, hw, if_true]
      rw [ih s hh hp hl' hv']
      simp [List.filter_cons, hw]
    · have hlb := (hl b (List.mem_cons_self ..)).resolve_left hw
      have hvb := (hv b (List.mem_cons_self ..)).resolve_left hw
      have hstep : Floor.step grant s (Ev.balRead a b.1 b.2.1 b.2.2) = .ok { s with reads := (a, b.1, b.2.1, b.2.2) :: s.reads } := by
        have hlb' : ¬ b.1 ∈ h.r → b.1 ∈ h.w := by
          intro hn
          simpa [hn] using hlb
        simp [Floor.step, hw, hp, hh, hvb]
        exact hlb'
      rw [hstep]
      simp only
      have := ih { s with reads := (a, b.1, b.2.1, b.2.2) :: s.reads } hh hp hl' hv'
      rw [this]
      simp [List.filter_cons, hw]

-- ------------------------------------------------------------------------------------------------ one item

theorem ftok_cases (x : Item) :
    ftok x = .other ∨ (∃ v, x = .act .lock .ok v) ∨ (∃ o v, x = .act .unlock o v) ∨ (∃ v, x = .act .readBalances .ok v) ∨
    (∃ o v, x = .act .chainLog o v) ∨ (∃ og cs o v, x = .act (.append og cs) o v) ∨ (∃ o v, x = .act (.wait "persisted") o v) ∨
    (∃ o v, x = .act (.yield "lock-granted") o v) := by
  cases x with
  | act a o v =>
    cases a <;> try (simp [ftok]; done)
    · rename_i pt
      by_cases h : pt = "lock-granted"
      · subst h; simp
      · simp [ftok, h]
    · cases o <;> simp [ftok]
    · cases o <;> simp [ftok]
    · rename_i c
      by_cases h : c = "persisted"
      · subst h; simp
      · simp [ftok, h]
  | _ => simp [ftok]

theorem eq_of_nodup_actors {l : List Floor.Hold} (hnd : (l.map (·.a)).Nodup) {x y : Floor.Hold} (hx : x ∈ l) (hy : y ∈ l)
    (h : x.a = y.a) : x = y := by
  induction l with
  | nil => cases hx
  | cons z zs ih =>
    simp only [List.map_cons, List.nodup_cons] at hnd
    rcases List.mem_cons.1 hx with rfl | hx' <;> rcases List.mem_cons.1 hy with rfl | hy'
    · rfl
    · exact absurd (List.mem_map_of_mem (f := (·.a)) hy') (h ▸ hnd.1)
    · exact absurd (List.mem_map_of_mem (f := (·.a)) hx') (h ▸ hnd.1)
    · exact ih hnd.2 hx' hy'

/-- with one hold per request, the first hold of `a` among the holders is THE hold of `a` -/
theorem holdOf_of_mem (s : Floor.S) (a : Nat) (h : Floor.Hold) (hm : h ∈ s.holders) (ha : h.a = a)
    (hnd : ((holds s).map (·.a)).Nodup) : Floor.holdOf s a = some h := by
  unfold Floor.holdOf
  obtain ⟨h', hf⟩ := Floor.find_hold_of_mem hm ha
  obtain ⟨hm', ha'⟩ := Floor.find_hold_some hf
  rw [hf]
  have hnd' : (s.holders.map (·.a)).Nodup := by
    unfold holds at hnd
    rw [List.map_append] at hnd
    exact (List.nodup_append.1 hnd).1
  have : h' = h := eq_of_nodup_actors hnd' hm' hm (ha'.trans ha.symm)
  rw [this]

theorem holdOf_none (s : Floor.S) (a : Nat) (h : ∀ x ∈ holds s, x.a ≠ a) : Floor.holdOf s a = none := by
  unfold Floor.holdOf
  rw [List.find?_eq_none]
  intro x hx
  have := h x (by unfold holds; exact List.mem_append_left _ hx)
  simpa using this

theorem readsOf_filter_self (rs : List (Nat × Acct × String × Int)) (a : Nat) :
    (rs.filter (fun r => decide (r.1 ≠ a))).filter (fun r => decide (r.1 = a)) = [] := by
  rw [List.filter_filter]
  apply List.filter_eq_nil_iff.2
  intro r _
  by_cases h : r.1 = a <;> simp [h]

theorem readsOf_filter_other (rs : List (Nat × Acct × String × Int)) (a b : Nat) (hb : b ≠ a) :
    (rs.filter (fun r => decide (r.1 ≠ a))).filter (fun r => decide (r.1 = b)) = rs.filter (fun r => decide (r.1 = b)) := by
  rw [List.filter_filter]
  apply List.filter_congr
  intro r _
  by_cases h : r.1 = b
  · have : r.1 ≠ a := by rw [h]; exact hb
    simp [h, hb]
  · simp [h]

theorem mem_holds (s : Floor.S) (h : Floor.Hold) : h ∈ holds s ↔ h ∈ s.holders ∨ h ∈ s.queue := by
  unfold holds; exact List.mem_append

/-- what one item of one live request does: `Floor` accepts the events, the request's part of the invariant moves to the
next phase, the others' is untouched -/
theorem item_step (grant : Nat → Option Int) (s : Floor.S) (sh : Shared) (j : Job) (rg : Regs) (dn : Path) (x : Item) (rest : Path)
    (ph ph' : FPh) (hP : FPI s ⟨j, rg, dn, true, x :: rest⟩ ph)
    (hen : enabled sh j rg x = true) (hq : blocked sh j.a = false)
    (hph : fstep j.isTx ph (ftok x) = some ph') (hrest : (frun j.isTx ph' rest).isSome = true)
    (hdur : s.durable.map (·.log) = sh.store) (hpend : s.pending.map (fun e => (e.by_, e.log)) = sh.queue)
    (hhold : s.holders = sh.holders) (hque : s.queue = sh.lqueue)
    (hnd : ((holds s).map (·.a)).Nodup) (hjob : JobOk grant j) :
    ∃ s', runOn (Floor.step grant) s (evsOf sh j rg x) = .ok s' ∧
      FPI s' ⟨j, effRg sh j rg x, dn ++ [x], true, rest⟩ ph' ∧ Others j.a s s' ∧
      s'.durable = s.durable ∧ (effSh sh j rg x).store = sh.store ∧
      s'.pending.map (fun e => (e.by_, e.log)) = (effSh sh j rg x).queue ∧
      s'.holders = (effSh sh j rg x).holders ∧ s'.queue = (effSh sh j rg x).lqueue ∧
      ((holds s').map (·.a)).Nodup ∧ (∀ h ∈ holds s', h ∈ holds s ∨ h.a = j.a) := by
  have hrun' : frun j.isTx {} (dn ++ [x]) = some ph' := by
    rw [frun_snoc, hP.run]; exact hph
  rcases ftok_cases x with hx | ⟨v, rfl⟩ | ⟨o, v, rfl⟩ | ⟨v, rfl⟩ | ⟨o, v, rfl⟩ | ⟨og, cs, o, v, rfl⟩ | ⟨o, v, rfl⟩ | ⟨o, v, rfl⟩
  · -- an item `Floor` does not look at
    rw [hx] at hph
    simp only [fstep, Option.some.injEq] at hph
    subst hph
    obtain ⟨e1, e2, e3, e4⟩ := effSh_other sh j rg x hx
    have r1 := effRg_other sh j rg x hx
    refine ⟨s, runOn_ignored grant s _ (evs_other sh j rg x hx), ?_, Others.refl _ _, rfl, e1, by rw [e2]; exact hpend,
      by rw [e3]; exact hhold, by rw [e4]; exact hque, hnd, fun h hh => .inl hh⟩
    exact { run := hrun', rest := fun _ => hrest, chp := by simpa [r1] using hP.chp, noneH := hP.noneH, heldH := hP.heldH,
            rds := hP.rds, np := hP.np, wc := hP.wc, rl := hP.rl }
  · -- locker.Lock
    have hat : ftok (.act .lock .ok v) = .lockOk := rfl
    rw [hat] at hph
    have hc2 : ph.lock = .none ∧ ph.committed = false := by
      by_cases h : ph.lock = .none ∧ ph.committed = false
      · exact h
      · simp [fstep, h] at hph
    simp only [fstep] at hph
    rw [if_pos hc2] at hph
    simp only [Option.some.injEq] at hph
    subst hph
    have hnone : ∀ h ∈ holds s, h.a ≠ j.a := hP.noneH (by rw [hc2.1]; simp)
    have hread : ph.read = false := hP.rl hc2.1
    have hnd' : ∀ l : List Floor.Hold, l.Perm (holds s ++ [holdOfJob j]) → (l.map (·.a)).Nodup := by
      intro l hl
      refine ((hl.map (·.a)).nodup_iff).2 ?_
      rw [List.map_append]
      refine List.nodup_append.2 ⟨hnd, by simp, ?_⟩
      intro a ha b hb
      simp only [List.mem_map] at ha
      obtain ⟨h, hh, rfl⟩ := ha
      simp only [List.map_cons, List.map_nil, List.mem_singleton] at hb
      subst hb
      exact hnone h hh
    by_cases hc : Floor.compatible s.holders (holdOfJob j) = true
    · have hc' : Floor.compatible sh.holders ⟨j.a, j.r, j.w⟩ = true := by rw [← hhold]; exact hc
      refine ⟨{ s with holders := s.holders ++ [holdOfJob j] }, ?_, ?_, ?_, rfl, rfl, hpend, ?_, ?_, ?_, ?_⟩
      · simp only [evsOf, runOn, Floor.step]
        simp only [holdOfJob] at hc
        simp [hc, holdOfJob]
      · exact { run := hrun', rest := fun _ => hrest, chp := hP.chp, noneH := by simp,
                heldH := fun _ _ => (mem_holds _ _).2 (.inl (by simp)),
                rds := fun hal => by
                  have := hP.rds hal
                  simp only [hread, Bool.false_eq_true, false_and, if_false] at this ⊢
                  exact this,
                np := hP.np, wc := hP.wc, rl := by simp }
      · refine ⟨fun h hne => ?_, fun _ _ => rfl, fun _ _ => Iff.rfl⟩
        simp only [mem_holds, List.mem_append, List.mem_singleton]
        constructor
        · rintro ((h1 | rfl) | h2)
          · exact .inl h1
          · exact absurd rfl hne
          · exact .inr h2
        · rintro (h1 | h2)
          · exact .inl (.inl h1)
          · exact .inr h2
      · simp [effSh, hc', hhold, holdOfJob]
      · simp [effSh, hc', hque]
      · apply hnd'
        unfold holds
        simp only [List.append_assoc]
        exact List.Perm.append_left _ List.perm_append_comm
      · intro h hh
        simp only [mem_holds, List.mem_append, List.mem_singleton] at hh
        rcases hh with (h1 | rfl) | h2
        · exact .inl ((mem_holds _ _).2 (.inl h1))
        · exact .inr rfl
        · exact .inl ((mem_holds _ _).2 (.inr h2))
    · have hc' : ¬ Floor.compatible sh.holders ⟨j.a, j.r, j.w⟩ = true := by rw [← hhold]; exact hc
      refine ⟨{ s with queue := s.queue ++ [holdOfJob j] }, ?_, ?_, ?_, rfl, rfl, hpend, ?_, ?_, ?_, ?_⟩
      · simp only [evsOf, runOn, Floor.step]
        simp only [holdOfJob] at hc
        simp [hc, holdOfJob]
      · exact { run := hrun', rest := fun _ => hrest, chp := hP.chp, noneH := by simp,
                heldH := fun _ _ => (mem_holds _ _).2 (.inr (by simp)),
                rds := fun hal => by
                  have := hP.rds hal
                  simp only [hread, Bool.false_eq_true, false_and, if_false] at this ⊢
                  exact this,
                np := hP.np, wc := hP.wc, rl := by simp }
      · refine ⟨fun h hne => ?_, fun _ _ => rfl, fun _ _ => Iff.rfl⟩
        simp only [mem_holds, List.mem_append, List.mem_singleton]
        constructor
        · rintro (h1 | h2 | rfl)
          · exact .inl h1
          · exact .inr h2
          · exact absurd rfl hne
        · rintro (h1 | h2)
          · exact .inl h1
          · exact .inr (.inl h2)
      · simp [effSh, hc', hhold]
      · simp [effSh, hc', hque, holdOfJob]
      · apply hnd'
        unfold holds
        simp only [List.append_assoc]
        exact List.Perm.refl _
      · intro h hh
        simp only [mem_holds, List.mem_append, List.mem_singleton] at hh
        rcases hh with h1 | h2 | rfl
        · exact .inl ((mem_holds _ _).2 (.inl h1))
        · exact .inl ((mem_holds _ _).2 (.inr h2))
        · exact .inr rfl
  · -- the Unlock
    have hat : ftok (.act .unlock o v) = .unlock := rfl
    rw [hat] at hph
    have hc2 : ph.lock = .held ∧ (ph.committed = false ∨ ph.waited = true) := by
      by_cases h : ph.lock = .held ∧ (ph.committed = false ∨ ph.waited = true)
      · exact h
      · simp [fstep, h] at hph
    simp only [fstep] at hph
    rw [if_pos hc2] at hph
    simp only [Option.some.injEq] at hph
    subst hph
    have hnp : s.pending.any (fun e => decide (e.by_ = j.a)) = false := by
      cases hany : s.pending.any (fun e => decide (e.by_ = j.a)) with
      | false => rfl
      | true =>
        obtain ⟨e, he, hea⟩ := List.any_eq_true.1 hany
        exact absurd (by simpa using hea) (hP.np hc2.2 e he)
    have hqa : ∀ h ∈ s.queue, h.a ≠ j.a := by
      intro h hh hha
      have : sh.lqueue.any (fun h => decide (h.a = j.a)) = true := List.any_eq_true.2 ⟨h, hque ▸ hh, by simpa using hha⟩
      unfold blocked at hq
      rw [hq] at this; cases this
    let r := Floor.recheck (s.holders.filter (fun h => decide (h.a ≠ j.a))) s.queue
    have hperm : (r.1 ++ r.2).Perm (s.holders.filter (fun h => decide (h.a ≠ j.a)) ++ s.queue) := recheck_perm _ _
    have hmem : ∀ h, h ∈ r.1 ++ r.2 ↔ (h ∈ s.holders ∧ h.a ≠ j.a) ∨ h ∈ s.queue := by
      intro h
      rw [hperm.mem_iff]
      simp [List.mem_filter]
    refine ⟨{ s with holders := r.1, queue := r.2, reads := s.reads.filter (fun x => decide (x.1 ≠ j.a)) }, ?_, ?_, ?_, rfl, rfl, hpend,
      ?_, ?_, ?_, ?_⟩
    · simp [evsOf, runOn, Floor.step, hnp, r]
    · exact { run := hrun', rest := fun _ => hrest, chp := hP.chp,
              noneH := fun _ h hh => by
                have := (hmem h).1 (by unfold holds at hh; exact hh)
                rcases this with ⟨_, h2⟩ | h2
                · exact h2
                · exact hqa h h2,
              heldH := by simp,
              rds := fun _ => by
                simp only [readsOf, reduceCtorEq, and_false, if_false]
                exact readsOf_filter_self _ _,
              np := hP.np, wc := hP.wc, rl := by simp }
    · refine ⟨fun h hne => ?_, fun b hb => readsOf_filter_other _ _ _ hb, fun _ _ => Iff.rfl⟩
      have h1 : h ∈ holds { s with holders := r.1, queue := r.2, reads := s.reads.filter (fun x => decide (x.1 ≠ j.a)) } ↔ h ∈ r.1 ++ r.2 := Iff.rfl
      rw [h1, hmem, mem_holds]
      constructor
      · rintro (⟨h2, _⟩ | h2)
        · exact .inl h2
        · exact .inr h2
      · rintro (h2 | h2)
        · exact .inl ⟨h2, hne⟩
        · exact .inr h2
    · simp [effSh, r, hhold, hque]
    · simp [effSh, r, hhold, hque]
    · have h1 : holds { s with holders := r.1, queue := r.2, reads := s.reads.filter (fun x => decide (x.1 ≠ j.a)) } = r.1 ++ r.2 := rfl
      rw [h1]
      refine ((hperm.map (·.a)).nodup_iff).2 ?_
      have hsub : (s.holders.filter (fun h => decide (h.a ≠ j.a)) ++ s.queue).Sublist (s.holders ++ s.queue) :=
        List.Sublist.append (List.filter_sublist) (List.Sublist.refl _)
      exact List.Nodup.sublist (hsub.map _) hnd
    · intro h hh
      have := (hmem h).1 (by unfold holds at hh; exact hh)
      rcases this with ⟨h2, _⟩ | h2
      · exact .inl ((mem_holds _ _).2 (.inl h2))
      · exact .inl ((mem_holds _ _).2 (.inr h2))
  · -- ResolveBalances
    have hat : ftok (.act .readBalances .ok v) = .readOk := rfl
    rw [hat] at hph
    have hc3 : ph.lock = .held ∧ ph.committed = false ∧ ph.read = false := by
      by_cases h : ph.lock = .held ∧ ph.committed = false ∧ ph.read = false
      · exact h
      · simp [fstep, h] at hph
    simp only [fstep] at hph
    rw [if_pos hc3] at hph
    simp only [Option.some.injEq] at hph
    subst hph
    have hqa : ∀ h ∈ s.queue, h.a ≠ j.a := by
      intro h hh hha
      have : sh.lqueue.any (fun h => decide (h.a = j.a)) = true := List.any_eq_true.2 ⟨h, hque ▸ hh, by simpa using hha⟩
      unfold blocked at hq
      rw [hq] at this; cases this
    have hmemH : holdOfJob j ∈ s.holders := by
      rcases (mem_holds _ _).1 (hP.heldH hc3.1 rfl) with h | h
      · exact h
      · exact absurd rfl (hqa _ h)
    have hhold' : Floor.holdOf s j.a = some (holdOfJob j) := holdOf_of_mem s j.a _ hmemH rfl hnd
    have hnp : s.pending.any (fun e => decide (e.by_ = j.a)) = false := by
      cases hany : s.pending.any (fun e => decide (e.by_ = j.a)) with
      | false => rfl
      | true =>
        obtain ⟨e, he, hea⟩ := List.any_eq_true.1 hany
        exact absurd (by simpa using hea) (hP.np (.inl hc3.2.1) e he)
    have hvals : ∀ b ∈ j.bals, b.1 = "world" ∨ b.2.2 = Floor.balanceOf s.durable b.1 b.2.1 := by
      intro b hb
      have hall : j.bals.all (fun b => decide (b.1 = "world") || decide (b.2.2 = balance sh.store b.1 b.2.1)) = true := by
        simpa [enabled] using hen
      have := List.all_eq_true.1 hall b hb
      simp only [Bool.or_eq_true, decide_eq_true_eq] at this
      rcases this with h | h
      · exact .inl h
      · right
        rw [h]
        unfold balance
        apply balanceOf_logs
        rw [List.map_map]
        simpa [Function.comp_def] using hdur.symm
    have hrun := balReads_run grant j.a (holdOfJob j) j.bals s hhold' hnp hjob.balsLocked hvals
    have hold0 : readsOf s j.a = [] := by
      have := hP.rds rfl
      simpa [hc3.2.2] using this
    refine ⟨{ s with reads := ((j.bals.filter (fun b => decide (b.1 ≠ "world"))).reverse.map (fun b => (j.a, b))) ++ s.reads },
      hrun, ?_, ?_, rfl, rfl, hpend, hhold, hque, hnd, fun h hh => .inl hh⟩
    · exact { run := hrun', rest := fun _ => hrest, chp := hP.chp, noneH := hP.noneH, heldH := hP.heldH,
              rds := fun _ => by
                have h1 : List.filter (fun r => decide (r.1 = j.a)) s.reads = [] := hold0
                have h2 : List.filter (fun r => decide (r.1 = j.a))
                    (List.map (fun b => (j.a, b)) (List.filter (fun b => decide (b.1 ≠ "world")) j.bals).reverse) =
                    List.map (fun b => (j.a, b)) (jreads j) := by
                  unfold jreads
                  apply List.filter_eq_self.2
                  intro r hr
                  simp only [List.mem_map] at hr
                  obtain ⟨b, _, rfl⟩ := hr
                  simp
                simp only [readsOf, List.filter_append, h1, h2, List.append_nil, hc3.1, hc3.2.1, and_self, if_true],
              np := hP.np, wc := hP.wc, rl := by simp [hc3.1] }
    · refine ⟨fun _ _ => Iff.rfl, fun b hb => ?_, fun _ _ => Iff.rfl⟩
      simp only [readsOf, List.filter_append]
      have : List.filter (fun r => decide (r.1 = b))
          (List.map (fun b => (j.a, b)) (List.filter (fun b => decide (b.1 ≠ "world")) j.bals).reverse) = [] := by
        apply List.filter_eq_nil_iff.2
        intro r hr
        simp only [List.mem_map] at hr
        obtain ⟨c, _, rfl⟩ := hr
        simpa using Ne.symm hb
      rw [this, List.nil_append]
  · -- chainLog
    have hat : ftok (.act .chainLog o v) = .chain := rfl
    rw [hat] at hph
    simp only [fstep, Option.some.injEq] at hph
    subst hph
    refine ⟨s, rfl, ?_, Others.refl _ _, rfl, rfl, hpend, hhold, hque, hnd, fun h hh => .inl hh⟩
    exact { run := hrun', rest := fun _ => hrest, chp := by intro l hl; simp [effRg] at hl; rw [← hl]; simp [Job.content],
            noneH := hP.noneH, heldH := hP.heldH, rds := hP.rds, np := hP.np, wc := hP.wc, rl := hP.rl }
  · -- Batcher.Append
    have hog : og = "chained" := by
      by_cases h : og = "chained"
      · exact h
      · simp [ftok, h, fstep] at hph
    subst hog
    have hat : ftok (.act (.append "chained" cs) o v) = .appendC := by simp [ftok]
    rw [hat] at hph
    have hnw : ph.waited = false := by
      cases h : ph.waited with
      | false => rfl
      | true =>
        have := hP.wc h
        by_cases hc : ph.committed = false ∧ (if j.isTx = true then ph.lock = .held ∧ ph.read = true else ph.lock = .none)
        · rw [hc.1] at this; cases this
        · simp [fstep, hc] at hph
    have hpost : (rg.chained.getD default).postings = j.postings ∨ (rg.chained.getD default).postings = [] := by
      cases hch : rg.chained with
      | none => right; rfl
      | some l => left; simpa using hP.chp l hch
    have hnp : ∀ e ∈ s.pending, e.by_ ≠ j.a := by
      by_cases hc : ph.committed = false ∧ (if j.isTx = true then ph.lock = .held ∧ ph.read = true else ph.lock = .none)
      · exact hP.np (.inl hc.1)
      · simp [fstep, hc] at hph
    cases htx : j.isTx with
    | true =>
      have hc : ph.committed = false ∧ ph.lock = .held ∧ ph.read = true := by
        by_cases h : ph.committed = false ∧ ph.lock = .held ∧ ph.read = true
        · exact h
        · simp [fstep, htx, h] at hph
      have hph' : ph' = { ph with committed := true } := by
        simp only [fstep, htx, if_true] at hph
        rw [if_pos hc] at hph
        exact (Option.some.inj hph).symm
      subst hph'
      have hqa : ∀ h ∈ s.queue, h.a ≠ j.a := by
        intro h hh hha
        have : sh.lqueue.any (fun h => decide (h.a = j.a)) = true := List.any_eq_true.2 ⟨h, hque ▸ hh, by simpa using hha⟩
        unfold blocked at hq
        rw [hq] at this; cases this
      have hmemH : holdOfJob j ∈ s.holders := by
        rcases (mem_holds _ _).1 (hP.heldH hc.2.1 rfl) with h | h
        · exact h
        · exact absurd rfl (hqa _ h)
      have hhold' : Floor.holdOf s j.a = some (holdOfJob j) := holdOf_of_mem s j.a _ hmemH rfl hnd
      have hrd : readsOf s j.a = (jreads j).map (fun b => (j.a, b)) := by
        have := hP.rds rfl
        simpa [hc.1, hc.2.1, hc.2.2] using this
      have hro : ∀ x asset, Floor.readOf s j.a x asset = lookupRead (jreads j) x asset := by
        intro x asset
        rw [readOf_eq, hrd, List.map_map]
        simp [Function.comp_def]
      have hfun : (fun x asset => (Floor.readOf s j.a x asset).getD 0) = (fun x asset => (lookupRead (jreads j) x asset).getD 0) := by
        funext x asset; rw [hro]
      refine ⟨{ s with pending := s.pending ++ [⟨rg.chained.getD default, j.a⟩], reads := s.reads.filter (fun x => decide (x.1 ≠ j.a)) },
        ?_, ?_, ?_, rfl, rfl, by simp [effSh, hpend], hhold, hque, hnd, fun h hh => .inl hh⟩
      · simp only [evsOf, if_true, runOn, Floor.step, hhold']
        rcases hpost with hp | hp
        · have h1 := hjob.postLocked
          have h2 := hjob.srcRead
          have h3 := hjob.floor
          simp only [hp, holdOfJob, h1, Bool.not_true, Bool.false_eq_true, if_false, hro, h2, hfun, h3]
        · simp [hp, Floor.floorOk]
      · exact { run := hrun', rest := fun _ => hrest, chp := hP.chp, noneH := hP.noneH, heldH := hP.heldH,
                rds := fun _ => by
                  simp only [readsOf, Bool.true_eq_false, false_and, and_false, if_false]
                  exact readsOf_filter_self _ _,
                np := by simp [hnw], wc := fun _ => rfl, rl := hP.rl }
      · refine ⟨fun _ _ => Iff.rfl, fun b hb => readsOf_filter_other _ _ _ hb, fun e he => ?_⟩
        simp only [List.mem_append, List.mem_singleton]
        constructor
        · rintro (h | rfl)
          · exact h
          · exact absurd rfl he
        · exact fun h => .inl h
    | false =>
      have hc : ph.committed = false ∧ ph.lock = .none := by
        by_cases h : ph.committed = false ∧ ph.lock = .none
        · exact h
        · simp [fstep, htx, h] at hph
      have hph' : ph' = { ph with committed := true } := by
        simp only [fstep, htx, Bool.false_eq_true, if_false] at hph
        rw [if_pos hc] at hph
        exact (Option.some.inj hph).symm
      subst hph'
      have hnone : Floor.holdOf s j.a = none := holdOf_none s j.a (hP.noneH (by rw [hc.2]; simp))
      have hempty : (rg.chained.getD default).postings = [] := by
        rcases hpost with hp | hp
        · rw [hp]; exact hjob.metaEmpty htx
        · exact hp
      have hrd : readsOf s j.a = [] := by
        have := hP.rds rfl
        simpa [hP.rl hc.2] using this
      refine ⟨{ s with pending := s.pending ++ [⟨rg.chained.getD default, j.a⟩] },
        ?_, ?_, ?_, rfl, rfl, by simp [effSh, hpend], hhold, hque, hnd, fun h hh => .inl hh⟩
      · simp [evsOf, runOn, Floor.step, hnone, hempty]
      · exact { run := hrun', rest := fun _ => hrest, chp := hP.chp, noneH := hP.noneH, heldH := hP.heldH,
                rds := fun _ => by
                  simp only [Bool.true_eq_false, false_and, and_false, if_false]
                  exact hrd,
                np := by simp [hnw], wc := fun _ => rfl, rl := hP.rl }
      · refine ⟨fun _ _ => Iff.rfl, fun _ _ => rfl, fun e he => ?_⟩
        simp only [List.mem_append, List.mem_singleton]
        constructor
        · rintro (h | rfl)
          · exact h
          · exact absurd rfl he
        · exact fun h => .inl h
  · -- the wait for persistence
    have hat : ftok (.act (.wait "persisted") o v) = .waitP := by simp [ftok]
    rw [hat] at hph
    have hc : ph.committed = true := by
      cases h : ph.committed with
      | true => rfl
      | false => simp [fstep, h] at hph
    simp only [fstep] at hph
    rw [if_pos hc] at hph
    simp only [Option.some.injEq] at hph
    subst hph
    have hqn : sh.queue.any (fun q => decide (q.1 = j.a)) = false := by simpa [enabled] using hen
    refine ⟨s, rfl, ?_, Others.refl _ _, rfl, rfl, hpend, hhold, hque, hnd, fun h hh => .inl hh⟩
    exact { run := hrun', rest := fun _ => hrest, chp := hP.chp, noneH := hP.noneH, heldH := hP.heldH,
            rds := hP.rds,
            np := fun _ e he hea => (by
              have h1 : (e.by_, e.log) ∈ sh.queue := by rw [← hpend]; exact List.mem_map_of_mem (f := fun e => (e.by_, e.log)) he
              have h2 : sh.queue.any (fun q => decide (q.1 = j.a)) = true := List.any_eq_true.2 ⟨_, h1, by simpa using hea⟩
              rw [hqn] at h2; cases h2),
            wc := fun _ => hc, rl := hP.rl }
  · -- a scheduling point called "lock-granted" would be read as a grant
    have hat : ftok (.act (.yield "lock-granted") o v) = .badYield := by simp [ftok]
    rw [hat] at hph
    simp [fstep] at hph

-- ------------------------------------------------------------------------------------------------ the step lemma

/-- a request about which `Floor` knows the same as before keeps its part of the invariant -/
theorem fpi_frame (s s' : Floor.S) (q q' : Proc) (ph : FPh) (h : FPI s q ph)
    (hj : q'.job = q.job) (hr : q'.regs = q.regs) (hd : q'.done = q.done)
    (hrest : q'.alive = true → (frun q.job.isTx ph q'.todo).isSome = true) (hal : q'.alive = true → q.alive = true)
    (hholds : q'.alive = true → ∀ x, x ∈ holds s' ↔ x ∈ holds s) (hnone : ∀ x ∈ holds s', x ∈ holds s)
    (hreads : q'.alive = true → readsOf s' q.job.a = readsOf s q.job.a)
    (hpend : ∀ e ∈ s'.pending, e ∈ s.pending) : FPI s' q' ph := by
  refine { run := by rw [hj, hd]; exact h.run, rest := by rw [hj]; exact hrest, chp := by rw [hj, hr]; exact h.chp,
           noneH := ?_, heldH := ?_, rds := ?_, np := ?_, wc := h.wc, rl := h.rl }
  · intro hl x hx
    rw [hj]; exact h.noneH hl x (hnone x hx)
  · intro hl ha
    rw [hj]; exact (hholds ha _).2 (h.heldH hl (hal ha))
  · intro ha
    rw [hj, hreads ha]; exact h.rds (hal ha)
  · intro hc e he
    rw [hj]; exact h.np hc e (hpend e he)

theorem others_ne (pre post : List Proc) (P q : Proc) (hnd : ((pre ++ P :: post).map (·.job.a)).Nodup)
    (hq : q ∈ pre ∨ q ∈ post) : q.job.a ≠ P.job.a := by
  simp only [List.map_append, List.map_cons] at hnd
  have h1 := List.nodup_append.1 hnd
  rcases hq with hq | hq
  · intro he
    exact h1.2.2 _ (List.mem_map_of_mem hq) _ (List.mem_cons_self ..) he
  · intro he
    have h2 := (List.nodup_cons.1 h1.2.1).1
    exact h2 (he ▸ List.mem_map_of_mem hq)

theorem step_inv (grant : Nat → Option Int) (adm : Job → Path → Prop)
    (hadm : ∀ j p, adm j p → (frun j.isTx {} p).isSome = true ∧ JobOk grant j)
    (st st' : State) (evs : List Ev) (h : Step adm st evs st') (s : Floor.S) (hi : FInv grant st s) :
    ∃ s', runOn (Floor.step grant) s evs = .ok s' ∧ FInv grant st' s' := by
  cases h with
  | item pre post j rg dn x rest hp hen hq =>
    have hmemP : (⟨j, rg, dn, true, x :: rest⟩ : Proc) ∈ st.procs := by rw [hp]; simp
    obtain ⟨ph, hP⟩ := hi.procs _ hmemP
    obtain ⟨ph', hph, hrest⟩ := frun_cons_some j.isTx ph x rest (hP.rest rfl)
    obtain ⟨s', hrun, hP', hO, hdur', hstore, hpend', hhold', hque', hnd', hsub⟩ :=
      item_step grant s st.sh j rg dn x rest ph ph' hP hen hq hph hrest hi.dur hi.pend hi.hold hi.que hi.hnodup
        (hi.jobs _ hmemP)
    have hnd := hi.nodup
    rw [hp] at hnd
    have hnew : ∀ q ∈ st.procs, ∃ q' ∈ pre ++ ⟨j, effRg st.sh j rg x, dn ++ [x], true, rest⟩ :: post,
        q'.job.a = q.job.a ∧ (q.alive = true → q'.alive = true) := by
      intro q hq'
      rw [hp] at hq'
      simp only [List.mem_append, List.mem_cons] at hq'
      rcases hq' with h | rfl | h
      · exact ⟨q, by simp [h], rfl, fun h => h⟩
      · exact ⟨⟨j, effRg st.sh j rg x, dn ++ [x], true, rest⟩, by simp, rfl, fun _ => rfl⟩
      · exact ⟨q, by simp [h], rfl, fun h => h⟩
    refine ⟨s', hrun, ?_⟩
    refine { dur := by rw [hdur', hi.dur, hstore], pend := hpend', hold := hhold', que := hque', nodup := by simpa using hnd,
             hnodup := hnd', howner := ?_, procs := ?_, jobs := ?_, rowner := ?_, powner := ?_ }
    · intro h hh
      rcases hsub h hh with h1 | h1
      · obtain ⟨q, hq', hal, hqa⟩ := hi.howner h h1
        obtain ⟨q', hq'', ha', hal'⟩ := hnew q hq'
        exact ⟨q', hq'', hal' hal, ha'.trans hqa⟩
      · exact ⟨⟨j, effRg st.sh j rg x, dn ++ [x], true, rest⟩, by simp, rfl, h1.symm⟩
    · intro q hq'
      simp only [List.mem_append, List.mem_cons] at hq'
      rcases hq' with hq' | rfl | hq'
      · obtain ⟨phq, hQ⟩ := hi.procs q (by rw [hp]; simp [hq'])
        exact ⟨phq, fpi_other s s' j.a q phq hQ (others_ne pre post _ q hnd (.inl hq')) hO⟩
      · exact ⟨ph', hP'⟩
      · obtain ⟨phq, hQ⟩ := hi.procs q (by rw [hp]; simp [hq'])
        exact ⟨phq, fpi_other s s' j.a q phq hQ (others_ne pre post _ q hnd (.inr hq')) hO⟩
    · intro q hq'
      simp only [List.mem_append, List.mem_cons] at hq'
      rcases hq' with hq' | rfl | hq'
      · exact hi.jobs q (by rw [hp]; simp [hq'])
      · exact hi.jobs ⟨j, rg, dn, true, x :: rest⟩ hmemP
      · exact hi.jobs q (by rw [hp]; simp [hq'])
    · intro r hr
      by_cases hra : r.1 = j.a
      · exact ⟨⟨j, effRg st.sh j rg x, dn ++ [x], true, rest⟩, by simp, hra.symm⟩
      · have hmem : r ∈ readsOf s' r.1 := by unfold readsOf; simp [hr]
        rw [hO.rds r.1 hra] at hmem
        have hr0 : r ∈ s.reads := (List.mem_filter.1 hmem).1
        obtain ⟨q, hq', hqa⟩ := hi.rowner r hr0
        obtain ⟨q', hq'', ha', _⟩ := hnew q hq'
        exact ⟨q', hq'', ha'.trans hqa⟩
    · intro e he
      by_cases hea : e.by_ = j.a
      · exact ⟨⟨j, effRg st.sh j rg x, dn ++ [x], true, rest⟩, by simp, hea.symm⟩
      · have he0 : e ∈ s.pending := (hO.pnd e hea).1 he
        obtain ⟨q, hq', hqa⟩ := hi.powner e he0
        obtain ⟨q', hq'', ha', _⟩ := hnew q hq'
        exact ⟨q', hq'', ha'.trans hqa⟩
  | gate n ok h0 hn =>
    have hlen : s.pending.length = st.sh.queue.length := by rw [← hi.pend]; simp
    have hcond : ¬ (n = 0 ∨ n > s.pending.length) := by omega
    cases ok with
    | false =>
      refine ⟨s, by simp [runOn, Floor.step, hcond], ?_⟩
      simpa using hi
    | true =>
      let s' : Floor.S := { s with durable := s.durable ++ s.pending.take n, pending := (s.pending.drop n) }
      have hrun : runOn (Floor.step grant) s [.gate n true] = .ok s' := by simp [runOn, Floor.step, hcond, s']
      refine ⟨s', hrun, ?_⟩
      simp only [if_true]
      refine { dur := ?_, pend := ?_, hold := hi.hold, que := hi.que, nodup := hi.nodup, hnodup := hi.hnodup, howner := hi.howner,
               procs := ?_, jobs := hi.jobs, rowner := hi.rowner, powner := fun e he => hi.powner e (List.mem_of_mem_drop he) }
      · simp only [s', persist, List.map_append, hi.dur]
        congr 1
        rw [← hi.pend, ← List.map_take, List.map_map]
        rfl
      · simp only [s', persist]
        rw [← hi.pend, ← List.map_drop]
      · intro q hq'
        obtain ⟨phq, hQ⟩ := hi.procs q hq'
        exact ⟨phq, fpi_frame s s' q q phq hQ rfl rfl rfl hQ.rest (fun h => h) (fun _ _ => Iff.rfl) (fun _ h => h) (fun _ => rfl)
          (fun e he => List.mem_of_mem_drop he)⟩
  | crash =>
    let s' : Floor.S := { s with pending := [], holders := [], queue := [], reads := [] }
    have hrun : runOn (Floor.step grant) s [.crash] = .ok s' := by simp [runOn, Floor.step, s']
    refine ⟨s', hrun, ?_⟩
    refine { dur := by simp [s', restart, hi.dur], pend := by simp [s', restart], hold := rfl, que := rfl, nodup := ?_,
             hnodup := by simp [s', holds], howner := by intro h hh; simp [s', holds] at hh, procs := ?_, jobs := ?_,
             rowner := by intro r hr; simp [s'] at hr, powner := by intro e he; simp [s'] at he }
    · have := hi.nodup
      simpa [List.map_map, Function.comp_def] using this
    · intro q hq'
      simp only [List.mem_map] at hq'
      obtain ⟨q0, hq0, rfl⟩ := hq'
      obtain ⟨phq, hQ⟩ := hi.procs q0 hq0
      exact ⟨phq, fpi_frame s s' q0 _ phq hQ rfl rfl rfl (by simp) (by simp) (by simp) (by simp [s', holds]) (by simp)
        (by simp [s'])⟩
    · intro q hq'
      simp only [List.mem_map] at hq'
      obtain ⟨q0, hq0, rfl⟩ := hq'
      exact hi.jobs q0 hq0
  | arrive j p hfresh hadm' =>
    refine ⟨s, rfl, ?_⟩
    refine { dur := hi.dur, pend := hi.pend, hold := hi.hold, que := hi.que, nodup := ?_, hnodup := hi.hnodup, howner := ?_,
             procs := ?_, jobs := ?_, rowner := ?_, powner := ?_ }
    · simp only [List.map_append, List.map_cons, List.map_nil]
      refine List.nodup_append.2 ⟨hi.nodup, by simp, ?_⟩
      intro a ha b hb
      simp only [List.mem_map] at ha
      obtain ⟨q, hq', rfl⟩ := ha
      simp only [List.mem_singleton] at hb
      subst hb
      exact hfresh q hq'
    · intro h hh
      obtain ⟨q, hq', hal, hqa⟩ := hi.howner h hh
      exact ⟨q, by simp [hq'], hal, hqa⟩
    · intro q hq'
      simp only [List.mem_append, List.mem_singleton] at hq'
      rcases hq' with hq' | rfl
      · exact hi.procs q hq'
      · refine ⟨{}, { run := rfl, rest := fun _ => (hadm j p hadm').1, chp := by simp, noneH := ?_, heldH := by simp,
                      rds := ?_, np := ?_, wc := by simp, rl := fun _ => rfl }⟩
        · intro _ h hh hha
          obtain ⟨q, hq', _, hqa⟩ := hi.howner h hh
          exact hfresh q hq' (hqa.trans hha)
        · intro _
          simp only [Bool.false_eq_true, false_and, if_false]
          apply List.filter_eq_nil_iff.2
          intro r hr
          obtain ⟨q, hq', hqa⟩ := hi.rowner r hr
          simp only [decide_eq_true_eq]
          intro hra
          exact hfresh q hq' (hqa.trans hra)
        · intro _ e he hea
          obtain ⟨q, hq', hqa⟩ := hi.powner e he
          exact hfresh q hq' (hqa.trans hea)
    · intro q hq'
      simp only [List.mem_append, List.mem_singleton] at hq'
      rcases hq' with hq' | rfl
      · exact hi.jobs q hq'
      · exact (hadm j p hadm').2
    · intro r hr
      obtain ⟨q, hq', hqa⟩ := hi.rowner r hr
      exact ⟨q, by simp [hq'], hqa⟩
    · intro e he
      obtain ⟨q, hq', hqa⟩ := hi.powner e he
      exact ⟨q, by simp [hq'], hqa⟩

theorem init_inv (grant : Nat → Option Int) (store : List LogE) : FInv grant (init store) (Floor.init store) := by
  refine { dur := by simp [Floor.init, init, restart, Function.comp_def], pend := rfl, hold := rfl, que := rfl, nodup := by simp [init],
           hnodup := by simp [Floor.init, holds], howner := by intro h hh; simp [Floor.init, holds] at hh,
           procs := by intro p hp; simp [init] at hp, jobs := by intro p hp; simp [init] at hp,
           rowner := by intro r hr; simp [Floor.init] at hr, powner := by intro e he; simp [Floor.init] at he }

/-- **`SkelSys` refines `Floor`**: every trace of the system that interprets admitted control paths is accepted -/
theorem run_refines (grant : Nat → Option Int) (adm : Job → Path → Prop)
    (hadm : ∀ j p, adm j p → (frun j.isTx {} p).isSome = true ∧ JobOk grant j)
    (st0 st : State) (tr : List Ev) (h : Run adm st0 tr st) (s0 : Floor.S) (hi : FInv grant st0 s0) :
    ∃ s, runOn (Floor.step grant) s0 tr = .ok s ∧ FInv grant st s := by
  induction h with
  | nil => exact ⟨s0, rfl, hi⟩
  | cons st1 st2 evs tr _ hstep ih =>
    obtain ⟨s1, h1, hi1⟩ := ih
    obtain ⟨s2, h2, hi2⟩ := step_inv grant adm hadm st1 st2 evs hstep s1 hi1
    exact ⟨s2, by rw [runOn_append, h1]; exact h2, hi2⟩

end Engine.Skel.FloorRef
