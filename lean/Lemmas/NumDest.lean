import Lemmas.NumAllot
/-! Frame lemmas for destinations: an account, an ordered destination (`max … to`, `remaining to …` / `remaining
kept`, `kept`), in `Spec`'s words (`evalDest`, `evalKD`, `evalCaps`, `evalAllot`). -/
namespace Num
open VM

variable {E : List (Acct × Asset)}

/-- replace stack, amounts and postings -/
def VM.Machine.upd3 (m : Machine) (stack : List BVal) (ks : List (Acct × Asset)) (b : Bal) (ps : List Posting) : Machine :=
  { m with stack := stack, balances := ⟨m.balances.accts, ks, b⟩, postings := ps }

theorem upd_eq_upd3 (m : Machine) (S : List BVal) (ks : List (Acct × Asset)) (b : Bal) : m.upd S ks b = m.upd3 S ks b m.postings := rfl

/-- replace the postings -/
def VM.Machine.setPost (m : Machine) (ps : List Posting) : Machine := { m with postings := ps }

@[simp] theorem setPost_postings (m : Machine) (ps : List Posting) : (m.setPost ps).postings = ps := rfl
@[simp] theorem setPost_accts (m : Machine) (ps : List Posting) : (m.setPost ps).balances.accts = m.balances.accts := rfl
@[simp] theorem setPost_setPost (m : Machine) (ps ps' : List Posting) : (m.setPost ps).setPost ps' = m.setPost ps' := rfl
@[simp] theorem upd_postings (m : Machine) (S : List BVal) (ks : List (Acct × Asset)) (b : Bal) : (m.upd S ks b).postings = m.postings := rfl
theorem upd3_eq (m : Machine) (S : List BVal) (ks : List (Acct × Asset)) (b : Bal) (ps : List Posting) :
    m.upd3 S ks b ps = (m.setPost ps).upd S ks b := rfl
theorem setPost_self (m : Machine) : m.setPost m.postings = m := rfl

theorem credit_eq {A : List Acct} {ks : List (Acct × Asset)} {b : Bal} (hok : BalOK A E b) (d : Acct) (s : Asset) (f : Parts) :
    BalOK A E (Num.credit b d s f) ∧ ∃ ks', VM.credit ⟨A, ks, b⟩ d s f = ⟨A, ks', Num.credit b d s f⟩ := by
  unfold Num.credit VM.credit Balances.hasAcct
  by_cases hw : d = "world"
  · simp only [hw, if_true]; exact ⟨hok, ks, rfl⟩
  · simp only [hw, if_false]
    cases hg : b.get d s with
    | none =>
      simp only
      refine ⟨hok, ks, ?_⟩
      split <;> rfl
    | some t =>
      have ha : A.contains d = true := hok.1 d s (by simp [hg])
      simp only [ha, Bool.not_true, Bool.false_eq_true, if_false]
      exact ⟨hok.upd ha _ _, _, rfl⟩

theorem step_fundingSum (V : List BVal) (m : Machine) (S : List BVal) (ks : List (Acct × Asset)) (b : Bal) (a : Asset) (p : Parts) :
    step V .fundingSum (m.upd (.funding a p :: S) ks b) = .ok (m.upd (.mon a (total p) :: .funding a p :: S) ks b) := rfl

/-- `OP_SEND` on `acct :: funding :: S` -/
theorem step_send (V : List BVal) (m : Machine) (S : List BVal) (ks : List (Acct × Asset)) (b : Bal)
    (hok : BalOK m.balances.accts E b) (d : Acct) (a : Asset) (p : Parts) :
    BalOK m.balances.accts E (Num.credit b d a p) ∧
    ∃ ks', step V .send (m.upd (.acct d :: .funding a p :: S) ks b) =
      .ok ((m.setPost (m.postings ++ p.map (fun x => ⟨x.acct, d, x.amt, a⟩))).upd S ks' (Num.credit b d a p)) := by
  obtain ⟨h1, ks', h2⟩ := credit_eq (ks := ks) hok d a p
  refine ⟨h1, ks', ?_⟩
  simp [step, popAcct, popFunding, Machine.upd, Machine.setPost, h2]

theorem step_bump3 (V : List BVal) (m : Machine) (S : List BVal) (ks : List (Acct × Asset)) (b : Bal) (x y z w : BVal) :
    step V .bump (m.upd (.num 3 :: x :: y :: z :: w :: S) ks b) = .ok (m.upd (w :: x :: y :: z :: S) ks b) := rfl

theorem step_fundingReverse (V : List BVal) (m : Machine) (S : List BVal) (ks : List (Acct × Asset)) (b : Bal) (a : Asset) (p : Parts) :
    step V .fundingReverse (m.upd (.funding a p :: S) ks b) = .ok (m.upd (.funding a p.reverse :: S) ks b) := rfl

theorem step_monetaryAdd (V : List BVal) (m : Machine) (S : List BVal) (ks : List (Acct × Asset)) (b : Bal) (sa sb : Asset) (x y : Int) :
    step V .monetaryAdd (m.upd (.mon sb y :: .mon sa x :: S) ks b) =
      if sa ≠ sb then .error .invalidScript else .ok (m.upd (.mon sa (x + y) :: S) ks b) := by
  by_cases h : sa = sb <;> simp [step, popMon, Machine.upd, h]

/-! ### the straight-line pieces of an ordered destination -/

/-- the prelude of `DestInOrder`: the kept-total accumulator (zero, in the asset of the funding) under the funding -/
theorem inorder_pre (V : List BVal) (m : Machine) (S : List BVal) (ks : List (Acct × Asset)) (b : Bal) (a : Asset) (p : Parts) :
    runEmits V [.op .fundingSum, .op .asset, .pushInt 0, .op .monetaryNew, .bump 1] (m.upd (.funding a p :: S) ks b) =
      .ok (m.upd (.funding a p :: .mon a 0 :: S) ks b) := rfl

/-- one capped sub-destination, before the sub-destination runs: split off at most the cap -/
theorem caps_head (V : List BVal) (m : Machine) (S : List BVal) (ks : List (Acct × Asset)) (b : Bal)
    (ma ca a : Asset) (mn kt : Int) (cp : Parts) :
    runEmits V [.op .takeMax, .bump 2, .op .delete] (m.upd (.mon ma mn :: .funding ca cp :: .mon a kt :: S) ks b) =
      if mn < 0 then .error .runtimeOther else
      if ca ≠ ma then .error .invalidScript else
      .ok (m.upd (.funding ca (takeMax cp mn).1 :: .funding ca (takeMax cp mn).2 :: .mon a kt :: S) ks b) := by
  simp only [runEmits, step_takeMax]
  by_cases h1 : mn < 0
  · simp [h1]
  · by_cases h2 : ca = ma
    · simp only [h1, h2, if_false, ne_eq, not_true_eq_false, push_upd, step_bump2, step_delete_mon]
    · simp [h1, h2]

/-- one capped sub-destination, after the sub-destination returned what it kept: add it to the kept total and put it
back in front of the remainder -/
theorem caps_tail (V : List BVal) (m : Machine) (S : List BVal) (ks : List (Acct × Asset)) (b : Bal)
    (ka ca a : Asset) (kt : Int) (kp rem : Parts) :
    runEmits V [.op .fundingSum, .bump 3, .op .monetaryAdd, .bump 1, .bump 2, .pushInt 2, .op .fundingAssemble]
        (m.upd (.funding ka kp :: .funding ca rem :: .mon a kt :: S) ks b) =
      if ka ≠ a then .error .invalidScript else
      if ka ≠ ca then .error .invalidScript else
      .ok (m.upd (.funding ca (concat (concat [] kp) rem) :: .mon ka (total kp + kt) :: S) ks b) := by
  simp only [runEmits, step_fundingSum, push_upd, step_bump3, step_monetaryAdd]
  by_cases h1 : ka = a
  · simp only [h1, ne_eq, not_true_eq_false, if_false, push_upd, step_bump1, step_bump2, step_assemble2]
    by_cases h2 : a = ca <;> simp [h2]
  · simp [h1]

/-- the middle of `DestInOrder`: what is kept is taken from the BACK of the funding -/
theorem inorder_mid (V : List BVal) (m : Machine) (S : List BVal) (ks : List (Acct × Asset)) (b : Bal)
    (ca a : Asset) (kt : Int) (cp : Parts) :
    runEmits V [.op .fundingReverse, .bump 1, .op .take, .op .fundingReverse, .bump 1, .op .fundingReverse]
        (m.upd (.funding ca cp :: .mon a kt :: S) ks b) =
      if ca ≠ a then .error .invalidScript else
      match Num.take cp.reverse kt with
      | none => .error .insufficient
      | some (tk, rest2) => .ok (m.upd (.funding ca rest2.reverse :: .funding ca tk.reverse :: S) ks b) := by
  simp only [runEmits, step_fundingReverse, push_upd, step_bump1, step_take]
  by_cases h1 : ca = a
  · simp only [h1, ne_eq, not_true_eq_false, if_false]
    cases Num.take cp.reverse kt with
    | none => rfl
    | some r => obtain ⟨tk, rest2⟩ := r; simp only [step_fundingReverse, push_upd, step_bump1]
  · simp [h1]

/-- put two fundings back together: `r` (below) in front of `t` (on top, after the `BUMP`) -/
theorem join_tail (V : List BVal) (m : Machine) (S : List BVal) (ks : List (Acct × Asset)) (b : Bal)
    (ra ta : Asset) (rp tp : Parts) :
    runEmits V [.bump 1, .pushInt 2, .op .fundingAssemble] (m.upd (.funding ra rp :: .funding ta tp :: S) ks b) =
      if ra ≠ ta then .error .invalidScript else .ok (m.upd (.funding ta (concat (concat [] rp) tp) :: S) ks b) := by
  simp only [runEmits, push_upd, step_bump1, step_assemble2]
  by_cases h : ra = ta <;> simp [h]

/-- one share of a destination allotment, before the sub-destination runs -/
theorem allot_head (V : List BVal) (m : Machine) (S : List BVal) (ks : List (Acct × Asset)) (b : Bal)
    (ca a : Asset) (p : Int) (cp : Parts) :
    runEmits V [.bump 1, .op .take] (m.upd (.funding ca cp :: .mon a p :: S) ks b) =
      if ca ≠ a then .error .invalidScript else
      match Num.take cp p with
      | none => .error .insufficient
      | some (taken, rem) => .ok (m.upd (.funding ca taken :: .funding ca rem :: S) ks b) := by
  simp only [runEmits, push_upd, step_bump1, step_take]
  by_cases h : ca = a
  · simp only [h, ne_eq, not_true_eq_false, if_false]
    cases Num.take cp p with
    | none => rfl
    | some r => rfl
  · simp [h]

/-! ### the destination fragment and what the code of a destination does -/

mutual
/-- the destination fragment — every destination: an account, an ordered destination (`kept` included), an
allotment; with two side conditions that hold of everything the front end produces: fewer than 2^64 shares in one
allotment (the count travels through `Uint64()`), and no portion literal with a zero denominator -/
def Dest.frag : Dest → Bool
  | .acct _ => true
  | .inorder caps rest => caps.frag && rest.frag
  | .allot items => items.frag && decide (allotLen items < 18446744073709551616) && (allotPortions items).all specPos
def KeptOrDest.frag : KeptOrDest → Bool
  | .kept => true
  | .to d => d.frag
def CapList.frag : CapList → Bool
  | .nil => true
  | .cons _ kd rest => kd.frag && rest.frag
def AllotList.frag : AllotList → Bool
  | .nil => true
  | .cons _ kd rest => kd.frag && rest.frag
end

theorem partsIn_reverse {A : List Acct} {ps : Parts} (h : PartsIn A ps) : PartsIn A ps.reverse :=
  fun p hp => h p (List.mem_reverse.mp hp)

/-- what the code of a destination does: it consumes the funding on top of the stack and leaves what was NOT sent -/
def DestSpec (V : List BVal) (env : VEnv) (E : List (Acct × Asset)) (d : Dest) (c : Code) : Prop :=
  ∀ (m : Machine) (S : List BVal) (ks : List (Acct × Asset)) (b : Bal) (f : Fund),
    BalOK m.balances.accts E b → PartsIn m.balances.accts f.parts →
    match evalDest env d f ⟨b, m.postings⟩ with
    | .error er => exec V c (m.upd (.funding f.asset f.parts :: S) ks b) = .error er
    | .ok (r, st2) => BalOK m.balances.accts E st2.bal ∧ PartsIn m.balances.accts r.parts ∧
        ∃ ks', exec V c (m.upd (.funding f.asset f.parts :: S) ks b) =
          .ok ((m.setPost st2.postings).upd (.funding r.asset r.parts :: S) ks' st2.bal)

def KDSpec (V : List BVal) (env : VEnv) (E : List (Acct × Asset)) (kd : KeptOrDest) (c : Code) : Prop :=
  ∀ (m : Machine) (S : List BVal) (ks : List (Acct × Asset)) (b : Bal) (f : Fund),
    BalOK m.balances.accts E b → PartsIn m.balances.accts f.parts →
    match evalKD env kd f ⟨b, m.postings⟩ with
    | .error er => exec V c (m.upd (.funding f.asset f.parts :: S) ks b) = .error er
    | .ok (r, st2) => BalOK m.balances.accts E st2.bal ∧ PartsIn m.balances.accts r.parts ∧
        ∃ ks', exec V c (m.upd (.funding f.asset f.parts :: S) ks b) =
          .ok ((m.setPost st2.postings).upd (.funding r.asset r.parts :: S) ks' st2.bal)

/-- the loop over the capped sub-destinations: the funding on top, the kept total under it -/
def CapsSpec (V : List BVal) (env : VEnv) (E : List (Acct × Asset)) (caps : CapList) (c : Code) : Prop :=
  ∀ (m : Machine) (S : List BVal) (ks : List (Acct × Asset)) (b : Bal) (cur : Fund) (kt : Int),
    BalOK m.balances.accts E b → PartsIn m.balances.accts cur.parts →
    match evalCaps env caps kt cur ⟨b, m.postings⟩ with
    | .error er => exec V c (m.upd (.funding cur.asset cur.parts :: .mon cur.asset kt :: S) ks b) = .error er
    | .ok (kt', cur', st2) => cur'.asset = cur.asset ∧ BalOK m.balances.accts E st2.bal ∧ PartsIn m.balances.accts cur'.parts ∧
        ∃ ks', exec V c (m.upd (.funding cur.asset cur.parts :: .mon cur.asset kt :: S) ks b) =
          .ok ((m.setPost st2.postings).upd (.funding cur'.asset cur'.parts :: .mon cur.asset kt' :: S) ks' st2.bal)

/-- the loop over the shares of a destination allotment: the funding on top, the shares under it (first on top) -/
def AllotSpec (V : List BVal) (env : VEnv) (E : List (Acct × Asset)) (items : AllotList) (c : Code) : Prop :=
  ∀ (m : Machine) (S : List BVal) (ks : List (Acct × Asset)) (b : Bal) (cur : Fund) (parts : List Int),
    parts.length = allotLen items → BalOK m.balances.accts E b → PartsIn m.balances.accts cur.parts →
    match evalAllot env items parts cur ⟨b, m.postings⟩ with
    | .error er => exec V c (m.upd (.funding cur.asset cur.parts :: (parts.map (fun x => BVal.mon cur.asset x) ++ S)) ks b) = .error er
    | .ok (r, st2) => BalOK m.balances.accts E st2.bal ∧ PartsIn m.balances.accts r.parts ∧
        ∃ ks', exec V c (m.upd (.funding cur.asset cur.parts :: (parts.map (fun x => BVal.mon cur.asset x) ++ S)) ks b) =
          .ok ((m.setPost st2.postings).upd (.funding r.asset r.parts :: S) ks' st2.bal)

mutual
theorem dest_ok {R : List Resource} {V : List BVal} {env : VEnv} (cx : Ctx R V env) (hp : VPos V) {st st' : CState} {d : Dest} {c : Code}
    (hv : visitDest st d = .ok (c, st')) (hsub : Sub st' R) (hidx : VarIdxOK st) (hf : d.frag = true) :
    DestSpec V env E d c := by
  cases d with
  | acct e =>
    simp only [visitDest] at hv
    split at hv
    · cases hv
    · rename_i o ho
      split at hv
      · cases hv
      · rename_i hty
        simp only [Except.ok.injEq, Prod.mk.injEq] at hv
        obtain ⟨rfl, rfl⟩ := hv
        have hty' : o.ty = .account := Classical.not_not.mp hty
        have hacc := acctExpr_ok cx ho hsub hidx (visitExpr_noPortion ho (by rw [hty']; decide)) hty'
        intro m S ks b f hok hparts
        simp only [evalDest]
        cases ht : Num.take f.parts (total f.parts) with
        | none =>
          simp only
          simp [exec_append, exec, step_fundingSum, step_take, ht]
        | some r =>
          obtain ⟨taken, rest⟩ := r
          simp only
          obtain ⟨hp1, hp2⟩ := take_partsIn hparts ht
          cases hx : evalAcct env e with
          | error er =>
            rw [hx] at hacc
            simp [exec_append, exec, step_fundingSum, step_take, ht, hacc _]
          | ok d =>
            rw [hx] at hacc
            obtain ⟨hex, _⟩ := hacc
            obtain ⟨hokc, ks1, hsend⟩ := step_send V m (.funding f.asset rest :: S) ks b hok d f.asset taken
            refine ⟨hokc, hp2, ks1, ?_⟩
            simp only [exec_append, exec, step_fundingSum, step_take, ht, ne_eq, not_true_eq_false, if_false, hex, push_upd, hsend]
            rfl
  | inorder caps rest =>
    simp only [Dest.frag, Bool.and_eq_true] at hf
    simp only [visitDest] at hv
    split at hv
    · cases hv
    · rename_i c0 st0 h0
      split at hv
      · cases hv
      · rename_i c1 st1 h1
        split at hv
        · cases hv
        · rename_i c2 st2 h2
          split at hv
          · cases hv
          · rename_i c3 st3 h3
            split at hv
            · cases hv
            · rename_i c4 st4 h4
              simp only [Except.ok.injEq, Prod.mk.injEq] at hv
              obtain ⟨rfl, rfl⟩ := hv
              have e0 := emitSeq_ext h0
              have e1 := visitCaps_ext h1
              have e2 := emitSeq_ext h2
              have e3 := visitKD_ext h3
              have e4 := emitSeq_ext h4
              have hsub3 : Sub st3 R := hsub.of_ext e4
              have hsub2 : Sub st2 R := hsub3.of_ext e3
              have hsub1 : Sub st1 R := hsub2.of_ext e2
              have hsub0 : Sub st0 R := hsub1.of_ext e1
              have hc0 := emitSeq_exec cx h0 hsub0
              have hc2 := emitSeq_exec cx h2 hsub2
              have hc4 := emitSeq_exec cx h4 hsub
              have ihC := caps_ok cx hp h1 hsub1 (e0.varIdxOK hidx) hf.1
              have ihK := kd_ok cx hp h3 hsub3 ((e0.trans (e1.trans e2)).varIdxOK hidx) hf.2
              intro m S ks b f hok hparts
              simp only [evalDest]
              have hC := ihC m S ks b f 0 hok hparts
              cases hcaps : evalCaps env caps 0 f ⟨b, m.postings⟩ with
              | error er =>
                rw [hcaps] at hC
                simp only [exec_append, hc0, inorder_pre, hC]
              | ok r1 =>
                obtain ⟨kt, cur, st1'⟩ := r1
                rw [hcaps] at hC
                obtain ⟨hasset, hok1, hparts1, ks1, hex1⟩ := hC
                obtain ⟨ca, cp⟩ := cur
                simp only at hasset hparts1 hex1
                subst hasset
                simp only
                cases htk : Num.take cp.reverse kt with
                | none =>
                  simp only [exec_append, hc0, inorder_pre, hex1, hc2, inorder_mid, ne_eq, not_true_eq_false, if_false, htk]
                | some r2 =>
                  obtain ⟨tk, rest2⟩ := r2
                  obtain ⟨hp1, hp2⟩ := take_partsIn (partsIn_reverse hparts1) htk
                  have hK := ihK (m.setPost st1'.postings) (.funding f.asset tk.reverse :: S) ks1 st1'.bal ⟨f.asset, rest2.reverse⟩
                    hok1 (partsIn_reverse hp2)
                  simp only [setPost_postings, setPost_accts] at hK
                  simp only
                  cases hkd : evalKD env rest ⟨f.asset, rest2.reverse⟩ st1' with
                  | error er =>
                    rw [hkd] at hK
                    simp only [exec_append, hc0, inorder_pre, hex1, hc2, inorder_mid, ne_eq, not_true_eq_false, if_false, htk, hK]
                  | ok r3 =>
                    obtain ⟨⟨ra, rp⟩, st2'⟩ := r3
                    rw [hkd] at hK
                    obtain ⟨hok2, hparts2, ks2, hex2⟩ := hK
                    simp only [setPost_setPost] at hex2 hparts2
                    simp only [assemble_two]
                    by_cases hra : ra = f.asset
                    · simp only [hra, if_true]
                      refine ⟨hok2, concat_partsIn (concat_partsIn (by intro q hq; cases hq) hparts2) (partsIn_reverse hp1), ks2, ?_⟩
                      simp only [exec_append, hc0, inorder_pre, hex1, hc2, inorder_mid, ne_eq, not_true_eq_false, if_false, htk,
                        hex2, hc4, join_tail, hra]
                    · simp only [hra, if_false]
                      simp only [exec_append, hc0, inorder_pre, hex1, hc2, inorder_mid, ne_eq, not_true_eq_false, if_false, htk,
                        hex2, hc4, join_tail, hra, not_false_eq_true, if_true]
  | allot items =>
    simp only [Dest.frag, Bool.and_eq_true, decide_eq_true_eq, List.all_eq_true] at hf
    obtain ⟨⟨hfi, hlen⟩, hq⟩ := hf
    simp only [visitDest] at hv
    split at hv
    · cases hv
    · rename_i c1 st1 h1
      split at hv
      · cases hv
      · rename_i c2 st2 h2
        split at hv
        · cases hv
        · rename_i c3 st3 h3
          simp only [Except.ok.injEq, Prod.mk.injEq] at hv
          obtain ⟨rfl, rfl⟩ := hv
          have e1 := visitAllotment_ext h1
          have e2 := emitSeq_ext h2
          have e3 := visitAllocDest_ext h3
          have hsub2 : Sub st2 R := hsub.of_ext e3
          have hsub1 : Sub st1 R := hsub2.of_ext e2
          have hA := allotment_ok cx hp h1 hsub1 hidx hq (by rw [allotPortions_length]; exact hlen)
          have hc2 := emitSeq_exec cx h2 hsub2
          have ihA := allot_ok cx hp h3 hsub ((e1.trans e2).varIdxOK hidx) hfi
          intro m S ks b f hok hparts
          simp only [evalDest]
          cases hrp : resolvePortions env (allotPortions items) with
          | error er =>
            rw [hrp] at hA
            simp only [List.cons_append, List.nil_append, exec_cons, step_fundingSum, exec_append, hA]
          | ok al =>
            rw [hrp] at hA
            obtain ⟨al', hrel, hex1⟩ := hA
            have hplen : (allocate al (total f.parts)).length = allotLen items := by
              rw [allocate_length, resolvePortions_length hrp, allotPortions_length]
            have hA2 := ihA m S ks b f (allocate al (total f.parts)) hplen hok hparts
            have hbump : ∀ (m' : Machine) (ks' : List (Acct × Asset)) (b' : Bal),
                step V .bump (m'.upd (.num (allotLen items) :: ((allocate al (total f.parts)).map (fun x => BVal.mon f.asset x) ++ .funding f.asset f.parts :: S)) ks' b') =
                  .ok (m'.upd (.funding f.asset f.parts :: ((allocate al (total f.parts)).map (fun x => BVal.mon f.asset x) ++ S)) ks' b') := by
              intro m' ks' b'
              have := step_bumpN V m' S ks' b' ((allocate al (total f.parts)).map (fun x => BVal.mon f.asset x)) (.funding f.asset f.parts)
                (by rw [List.length_map, hplen]; exact hlen)
              rw [List.length_map, hplen] at this
              exact this
            have hpre : exec V (.fundingSum :: (c1 ++ [.alloc] ++ c2)) (m.upd (.funding f.asset f.parts :: S) ks b) =
                .ok (m.upd (.funding f.asset f.parts :: ((allocate al (total f.parts)).map (fun x => BVal.mon f.asset x) ++ S)) ks b) := by
              simp only [exec_cons, step_fundingSum, exec_append, hex1, push_upd, exec, step_alloc, hc2, runEmits,
                ← allocate_ratsRel hrel, hbump]
            simp only
            cases hev : evalAllot env items (allocate al (total f.parts)) f ⟨b, m.postings⟩ with
            | error er =>
              rw [hev] at hA2
              have : [Instr.fundingSum] ++ c1 ++ [.alloc] ++ c2 ++ c3 = (.fundingSum :: (c1 ++ [.alloc] ++ c2)) ++ c3 := by simp
              rw [this, exec_append, hpre]
              exact hA2
            | ok r =>
              obtain ⟨r, st2'⟩ := r
              rw [hev] at hA2
              obtain ⟨hok2, hparts2, ks2, hex2⟩ := hA2
              refine ⟨hok2, hparts2, ks2, ?_⟩
              have : [Instr.fundingSum] ++ c1 ++ [.alloc] ++ c2 ++ c3 = (.fundingSum :: (c1 ++ [.alloc] ++ c2)) ++ c3 := by simp
              rw [this, exec_append, hpre]
              exact hex2
theorem kd_ok {R : List Resource} {V : List BVal} {env : VEnv} (cx : Ctx R V env) (hp : VPos V) {st st' : CState} {kd : KeptOrDest} {c : Code}
    (hv : visitKD st kd = .ok (c, st')) (hsub : Sub st' R) (hidx : VarIdxOK st) (hf : kd.frag = true) :
    KDSpec V env E kd c := by
  cases kd with
  | kept =>
    simp only [visitKD, Except.ok.injEq, Prod.mk.injEq] at hv
    obtain ⟨rfl, rfl⟩ := hv
    intro m S ks b f hok hparts
    simp only [evalKD]
    exact ⟨hok, hparts, ks, rfl⟩
  | «to» d =>
    simp only [visitKD] at hv
    simp only [KeptOrDest.frag] at hf
    have := dest_ok cx hp hv hsub hidx hf
    intro m S ks b f hok hparts
    simp only [evalKD]
    exact this m S ks b f hok hparts
theorem caps_ok {R : List Resource} {V : List BVal} {env : VEnv} (cx : Ctx R V env) (hp : VPos V) {st st' : CState} {caps : CapList} {c : Code}
    (hv : visitCaps st caps = .ok (c, st')) (hsub : Sub st' R) (hidx : VarIdxOK st) (hf : caps.frag = true) :
    CapsSpec V env E caps c := by
  cases caps with
  | nil =>
    simp only [visitCaps, Except.ok.injEq, Prod.mk.injEq] at hv
    obtain ⟨rfl, rfl⟩ := hv
    intro m S ks b cur kt hok hparts
    simp only [evalCaps]
    exact ⟨trivial, hok, hparts, ks, rfl⟩
  | cons cap kd rest =>
    simp only [CapList.frag, Bool.and_eq_true] at hf
    simp only [visitCaps] at hv
    split at hv
    · cases hv
    · rename_i o ho
      split at hv
      · cases hv
      · rename_i hty
        split at hv
        · cases hv
        · rename_i c1 st1 h1
          split at hv
          · cases hv
          · rename_i c2 st2 h2
            split at hv
            · cases hv
            · rename_i c3 st3 h3
              split at hv
              · cases hv
              · rename_i c4 st4 h4
                simp only [Except.ok.injEq, Prod.mk.injEq] at hv
                obtain ⟨rfl, rfl⟩ := hv
                have hty' : o.ty = .monetary := Classical.not_not.mp hty
                have eo := visitExpr_ext ho
                have e1 := emitSeq_ext h1
                have e2 := visitKD_ext h2
                have e3 := emitSeq_ext h3
                have e4 := visitCaps_ext h4
                have hsub3 : Sub st3 R := hsub.of_ext e4
                have hsub2 : Sub st2 R := hsub3.of_ext e3
                have hsub1 : Sub st1 R := hsub2.of_ext e2
                have hsubo : Sub o.st R := hsub1.of_ext e1
                have hmon := monExpr_ok cx ho hsubo hidx (visitExpr_noPortion ho (by rw [hty']; decide)) hty'
                have hc1 := emitSeq_exec cx h1 hsub1
                have hc3 := emitSeq_exec cx h3 hsub3
                have ihK := kd_ok cx hp h2 hsub2 ((eo.trans e1).varIdxOK hidx) hf.1
                have ihC := caps_ok cx hp h4 hsub ((eo.trans (e1.trans (e2.trans e3))).varIdxOK hidx) hf.2
                intro m S ks b cur kt hok hparts
                simp only [evalCaps]
                cases hcm : evalMon env cap with
                | error er =>
                  rw [hcm] at hmon
                  simp only [exec_append, hmon]
                | ok r0 =>
                  obtain ⟨ma, mn⟩ := r0
                  rw [hcm] at hmon
                  simp only at hmon
                  simp only
                  by_cases hneg : mn < 0
                  · simp only [hneg, if_true]
                    simp only [exec_append, hmon, push_upd, hc1, caps_head, hneg, if_true]
                  · simp only [hneg, if_false]
                    by_cases has : cur.asset = ma
                    · simp only [has, ne_eq, not_true_eq_false, if_false]
                      have hK := ihK m (.funding ma (takeMax cur.parts mn).2 :: .mon ma kt :: S) ks b ⟨ma, (takeMax cur.parts mn).1⟩
                        hok (takeMax_partsIn hparts mn).1
                      cases hkd : evalKD env kd ⟨ma, (takeMax cur.parts mn).1⟩ ⟨b, m.postings⟩ with
                      | error er =>
                        rw [hkd] at hK
                        simp only [exec_append, hmon, push_upd, hc1, caps_head, hneg, if_false, has, ne_eq, not_true_eq_false, hK]
                      | ok r1 =>
                        obtain ⟨⟨ka, kp⟩, st1'⟩ := r1
                        rw [hkd] at hK
                        obtain ⟨hok1, hparts1, ks1, hex1⟩ := hK
                        simp only at hparts1 hex1
                        simp only
                        by_cases hka : ka = ma
                        · simp only [hka, ne_eq, not_true_eq_false, if_false, assemble_two, if_true]
                          have hC := ihC (m.setPost st1'.postings) S ks1 st1'.bal ⟨ma, concat (concat [] kp) (takeMax cur.parts mn).2⟩
                            (kt + total kp) hok1
                            (concat_partsIn (concat_partsIn (by intro q hq; cases hq) hparts1) (takeMax_partsIn hparts mn).2)
                          simp only [setPost_postings, setPost_accts, setPost_setPost] at hC
                          have hcomm : total kp + kt = kt + total kp := Int.add_comm _ _
                          cases hrest : evalCaps env rest (kt + total kp) ⟨ma, concat (concat [] kp) (takeMax cur.parts mn).2⟩ st1' with
                          | error er =>
                            rw [hrest] at hC
                            simp only [exec_append, hmon, push_upd, hc1, caps_head, hneg, if_false, has, ne_eq, not_true_eq_false,
                              hex1, hc3, caps_tail, hka, hcomm, hC]
                          | ok r2 =>
                            obtain ⟨kt', cur', st2'⟩ := r2
                            rw [hrest] at hC
                            obtain ⟨hasset2, hok2, hparts2, ks2, hex2⟩ := hC
                            refine ⟨hasset2, hok2, hparts2, ks2, ?_⟩
                            simp only [exec_append, hmon, push_upd, hc1, caps_head, hneg, if_false, has, ne_eq, not_true_eq_false,
                              hex1, hc3, caps_tail, hka, hcomm, hex2]
                        · simp only [hka, ne_eq, not_false_eq_true, if_true]
                          simp only [exec_append, hmon, push_upd, hc1, caps_head, hneg, if_false, has, ne_eq, not_true_eq_false,
                            hex1, hc3, caps_tail, hka, not_false_eq_true, if_true]
                    · simp only [has, ne_eq, not_false_eq_true, if_true]
                      simp only [exec_append, hmon, push_upd, hc1, caps_head, hneg, if_false, has, ne_eq, not_false_eq_true, if_true]
theorem allot_ok {R : List Resource} {V : List BVal} {env : VEnv} (cx : Ctx R V env) (hp : VPos V) {st st' : CState} {items : AllotList} {c : Code}
    (hv : visitAllocDest st items = .ok (c, st')) (hsub : Sub st' R) (hidx : VarIdxOK st) (hf : items.frag = true) :
    AllotSpec V env E items c := by
  cases items with
  | nil =>
    simp only [visitAllocDest, Except.ok.injEq, Prod.mk.injEq] at hv
    obtain ⟨rfl, rfl⟩ := hv
    intro m S ks b cur parts hlen hok hparts
    have : parts = [] := List.eq_nil_of_length_eq_zero (by simpa [allotLen] using hlen)
    subst this
    simp only [evalAllot]
    exact ⟨hok, hparts, ks, rfl⟩
  | cons p kd rest =>
    simp only [AllotList.frag, Bool.and_eq_true] at hf
    simp only [visitAllocDest] at hv
    split at hv
    · cases hv
    · rename_i c1 st1 h1
      split at hv
      · cases hv
      · rename_i c2 st2 h2
        split at hv
        · cases hv
        · rename_i c3 st3 h3
          split at hv
          · cases hv
          · rename_i c4 st4 h4
            simp only [Except.ok.injEq, Prod.mk.injEq] at hv
            obtain ⟨rfl, rfl⟩ := hv
            have e1 := emitSeq_ext h1
            have e2 := visitKD_ext h2
            have e3 := emitSeq_ext h3
            have e4 := visitAllocDest_ext h4
            have hsub3 : Sub st3 R := hsub.of_ext e4
            have hsub2 : Sub st2 R := hsub3.of_ext e3
            have hsub1 : Sub st1 R := hsub2.of_ext e2
            have hc1 := emitSeq_exec cx h1 hsub1
            have hc3 := emitSeq_exec cx h3 hsub3
            have ihK := kd_ok cx hp h2 hsub2 (e1.varIdxOK hidx) hf.1
            have ihA := allot_ok cx hp h4 hsub ((e1.trans (e2.trans e3)).varIdxOK hidx) hf.2
            intro m S ks b cur parts hlen hok hparts
            cases parts with
            | nil => simp [allotLen] at hlen
            | cons q qs =>
              have hlen' : qs.length = allotLen rest := by simpa [allotLen] using hlen
              simp only [evalAllot, List.map_cons, List.cons_append]
              cases htk : Num.take cur.parts q with
              | none =>
                simp only [exec_append, hc1, allot_head, ne_eq, not_true_eq_false, if_false, htk]
              | some r0 =>
                obtain ⟨taken, rem⟩ := r0
                obtain ⟨hp1, hp2⟩ := take_partsIn hparts htk
                have hK := ihK m (.funding cur.asset rem :: (qs.map (fun x => BVal.mon cur.asset x) ++ S)) ks b ⟨cur.asset, taken⟩ hok hp1
                simp only
                cases hkd : evalKD env kd ⟨cur.asset, taken⟩ ⟨b, m.postings⟩ with
                | error er =>
                  rw [hkd] at hK
                  simp only [exec_append, hc1, allot_head, ne_eq, not_true_eq_false, if_false, htk, hK]
                | ok r1 =>
                  obtain ⟨⟨ka, kp⟩, st1'⟩ := r1
                  rw [hkd] at hK
                  obtain ⟨hok1, hparts1, ks1, hex1⟩ := hK
                  simp only at hparts1 hex1
                  simp only [assemble_two]
                  by_cases hka : ka = cur.asset
                  · simp only [hka, if_true]
                    have hA := ihA (m.setPost st1'.postings) S ks1 st1'.bal ⟨cur.asset, concat (concat [] kp) rem⟩ qs hlen' hok1
                      (concat_partsIn (concat_partsIn (by intro q hq; cases hq) hparts1) hp2)
                    simp only [setPost_postings, setPost_accts, setPost_setPost] at hA
                    cases hrest : evalAllot env rest qs ⟨cur.asset, concat (concat [] kp) rem⟩ st1' with
                    | error er =>
                      rw [hrest] at hA
                      simp only [exec_append, hc1, allot_head, ne_eq, not_true_eq_false, if_false, htk, hex1, hc3, join_tail, hka, hA]
                    | ok r2 =>
                      obtain ⟨r, st2'⟩ := r2
                      rw [hrest] at hA
                      obtain ⟨hok2, hparts2, ks2, hex2⟩ := hA
                      refine ⟨hok2, hparts2, ks2, ?_⟩
                      simp only [exec_append, hc1, allot_head, ne_eq, not_true_eq_false, if_false, htk, hex1, hc3, join_tail, hka, hex2]
                  · simp only [hka, if_false]
                    simp only [exec_append, hc1, allot_head, ne_eq, not_true_eq_false, if_false, htk, hex1, hc3, join_tail, hka,
                      not_false_eq_true, if_true]
end

end Num
