import Model.Engine.Guard
/-! Invariant of the `Guard` component: every accepted event preserves `Inv` (`step_inv`), and the initial state of a
store whose non-empty keys are unique satisfies it (`init_inv`). -/
namespace Engine.Guard
open Engine

/-! ### small list facts -/

/-- reservations are exclusive: one key, one holder -/
theorem held_unique {h : List (String × Nat)} (hn : (h.map (·.1)).Nodup) {k : String} {a b : Nat}
    (ha : (k, a) ∈ h) (hb : (k, b) ∈ h) : a = b := by
  induction h with
  | nil => cases ha
  | cons x xs ih =>
    simp only [List.map_cons, List.nodup_cons] at hn
    have key : ∀ c, (k, c) ∈ xs → k ∈ xs.map (·.1) := fun c hc => List.mem_map.mpr ⟨(k, c), hc, rfl⟩
    rcases List.mem_cons.mp ha with ha | ha
    · rcases List.mem_cons.mp hb with hb | hb
      · have := ha.trans hb.symm
        exact (Prod.mk.inj this).2
      · exact absurd (key b hb) (by rw [← ha] at hn; exact hn.1)
    · rcases List.mem_cons.mp hb with hb | hb
      · exact absurd (key a ha) (by rw [← hb] at hn; exact hn.1)
      · exact ih hn.2 ha hb

theorem isHeld_false {s : S} {k : String} (h : isHeld s k = false) : k ∉ s.held.map (·.1) := by
  intro hm
  obtain ⟨x, hx, hk⟩ := List.mem_map.mp hm
  have : isHeld s k = true := by
    unfold isHeld
    exact List.any_eq_true.mpr ⟨x, hx, by simpa using hk⟩
  rw [h] at this
  cases this

theorem mem_keyed {s : S} {k : String} {e : Entry} :
    e ∈ keyed s k ↔ (e ∈ s.durable ∨ e ∈ s.pending) ∧ e.key = k := by
  unfold keyed
  rw [List.mem_filter, List.mem_append]
  simp only [decide_eq_true_eq]

theorem keyed_eq_nil {s : S} {k : String} :
    keyed s k = [] ↔ ∀ e, (e ∈ s.durable ∨ e ∈ s.pending) → e.key ≠ k := by
  unfold keyed
  rw [List.filter_eq_nil_iff]
  simp only [List.mem_append, decide_eq_true_eq]

/-- the keyed view only depends on `durable ++ pending` -/
theorem keyed_congr {s s' : S} (h : s'.durable ++ s'.pending = s.durable ++ s.pending) (k : String) :
    keyed s' k = keyed s k := by
  unfold keyed
  rw [h]

/-- appending an entry with another key does not change the view of `k` -/
theorem keyed_push_ne (s : S) (e : Entry) (k : String) (h : e.key ≠ k) (held : List (String × Nat))
    (missed : List (Nat × String)) :
    keyed { s with pending := s.pending ++ [e], held := held, missed := missed } k = keyed s k := by
  unfold keyed
  simp only [List.filter_append, List.filter_cons, List.filter_nil, decide_eq_true_eq, h, if_false,
    List.append_nil]

/-- appending an entry with key `k` to a view of `k` that was empty -/
theorem keyed_push_eq (s : S) (e : Entry) (k : String) (h : e.key = k) (hk : keyed s k = [])
    (held : List (String × Nat)) (missed : List (Nat × String)) :
    keyed { s with pending := s.pending ++ [e], held := held, missed := missed } k = [e] := by
  unfold keyed at hk ⊢
  rw [List.filter_append] at hk
  have h1 := List.append_eq_nil_iff.mp hk
  simp only [List.filter_append, List.filter_cons, List.filter_nil, decide_eq_true_eq, h, if_true, h1.1, h1.2,
    List.nil_append]

/-- two entries of a list that holds at most one entry with a property are equal -/
theorem eq_of_filter_length_le_one {α : Type} (p : α → Bool) :
    ∀ (l : List α), (l.filter p).length ≤ 1 → ∀ x y, x ∈ l.filter p → y ∈ l.filter p → x = y := by
  intro l h x y hx hy
  match hl : l.filter p with
  | [] => rw [hl] at hx; cases hx
  | [z] =>
    rw [hl] at hx hy
    rw [List.mem_singleton.mp hx, List.mem_singleton.mp hy]
  | _ :: _ :: _ => rw [hl] at h; simp at h

/-! ### the initial state -/

theorem init_inv (d : List Entry) (h : ∀ k, k ≠ "" → (d.filter (·.key = k)).length ≤ 1) : Inv (init d) := by
  refine ⟨?_, ?_, ?_, ?_⟩
  · intro k hk
    have := h k hk
    simpa [keyed, init] using this
  · simp [init]
  · intro e he; simp [init] at he
  · intro x hx; simp [init] at hx

/-! ### one case per event -/

theorem take_inv (s : S) (a : Nat) (k : String) (hi : Inv s) (hk : isHeld s k = false) :
    Inv { s with held := (k, a) :: s.held } := by
  refine ⟨hi.uniq, ?_, ?_, ?_⟩
  · simp only [List.map_cons, List.nodup_cons]
    exact ⟨isHeld_false hk, hi.heldNodup⟩
  · intro e he hne
    exact List.mem_cons_of_mem _ (hi.protected_ e he hne)
  · intro x hx
    exact ⟨List.mem_cons_of_mem _ (hi.fresh x hx).1, (hi.fresh x hx).2⟩

theorem read_miss_inv (s : S) (a : Nat) (k : String) (hi : Inv s) (hh : (k, a) ∈ s.held)
    (hd : s.durable.any (·.key = k) = false) (hp : s.pending.any (fun e => e.by_ = a ∧ e.key = k) = false) :
    Inv { s with missed := (a, k) :: s.missed } := by
  refine ⟨hi.uniq, hi.heldNodup, hi.protected_, ?_⟩
  intro x hx
  rcases List.mem_cons.mp hx with hx | hx
  · subst hx
    refine ⟨hh, ?_⟩
    intro hne
    show keyed s k = []
    rw [keyed_eq_nil]
    intro e he hek
    rcases he with he | he
    · have : s.durable.any (·.key = k) = true := List.any_eq_true.mpr ⟨e, he, by simpa using hek⟩
      rw [hd] at this; cases this
    · have hpe := hi.protected_ e he (by rw [hek]; exact hne)
      rw [hek] at hpe
      have hby : e.by_ = a := held_unique hi.heldNodup hpe hh
      have : s.pending.any (fun e => e.by_ = a ∧ e.key = k) = true :=
        List.any_eq_true.mpr ⟨e, he, by simp [hby, hek]⟩
      rw [hp] at this; cases this
  · exact hi.fresh x hx

theorem commit_plain_inv (s : S) (a id : Nat) (hi : Inv s) :
    Inv { s with pending := s.pending ++ [⟨"", id, a⟩] } := by
  have hk : ∀ k, k ≠ "" → keyed { s with pending := s.pending ++ [⟨"", id, a⟩] } k = keyed s k := by
    intro k hk
    exact keyed_push_ne s ⟨"", id, a⟩ k (fun h => hk h.symm) s.held s.missed
  refine ⟨?_, hi.heldNodup, ?_, ?_⟩
  · intro k hne
    rw [hk k hne]; exact hi.uniq k hne
  · intro e he hne
    rcases List.mem_append.mp he with he | he
    · exact hi.protected_ e he hne
    · rw [List.mem_singleton.mp he] at hne
      exact absurd rfl hne
  · intro x hx
    refine ⟨(hi.fresh x hx).1, ?_⟩
    intro hne
    rw [hk x.2 hne]; exact (hi.fresh x hx).2 hne

theorem commit_keyed_inv (s : S) (a id : Nat) (k : String) (hi : Inv s) (hne : k ≠ "") (hh : (k, a) ∈ s.held)
    (hm : (a, k) ∈ s.missed) :
    Inv { s with pending := s.pending ++ [⟨k, id, a⟩], missed := s.missed.filter (· ≠ (a, k)) } := by
  have hnil : keyed s k = [] := (hi.fresh (a, k) hm).2 hne
  have hsame : ∀ k', k' ≠ k →
      keyed { s with pending := s.pending ++ [⟨k, id, a⟩], missed := s.missed.filter (· ≠ (a, k)) } k' = keyed s k' := by
    intro k' hk'
    exact keyed_push_ne s ⟨k, id, a⟩ k' (fun h => hk' h.symm) s.held _
  have hnew : keyed { s with pending := s.pending ++ [⟨k, id, a⟩], missed := s.missed.filter (· ≠ (a, k)) } k
      = [⟨k, id, a⟩] := keyed_push_eq s ⟨k, id, a⟩ k rfl hnil s.held _
  refine ⟨?_, hi.heldNodup, ?_, ?_⟩
  · intro k' hk'
    by_cases hkk : k' = k
    · subst hkk; rw [hnew]; exact Nat.le_refl 1
    · rw [hsame k' hkk]; exact hi.uniq k' hk'
  · intro e he hne'
    rcases List.mem_append.mp he with he | he
    · exact hi.protected_ e he hne'
    · rw [List.mem_singleton.mp he]; exact hh
  · intro x hx
    have hx' := List.mem_filter.mp hx
    have hxm : x ∈ s.missed := hx'.1
    have hxne : x ≠ (a, k) := by simpa using hx'.2
    refine ⟨(hi.fresh x hxm).1, ?_⟩
    intro hne'
    have hk2 : x.2 ≠ k := by
      intro hxk
      have h1 : (k, x.1) ∈ s.held := by rw [← hxk]; exact (hi.fresh x hxm).1
      have : x.1 = a := held_unique hi.heldNodup h1 hh
      apply hxne
      rw [← this, ← hxk]
    rw [hsame x.2 hk2]
    exact (hi.fresh x hxm).2 hne'

theorem gate_inv (s : S) (n : Nat) (hi : Inv s) :
    Inv { s with durable := s.durable ++ s.pending.take n, pending := s.pending.drop n } := by
  have hall : ∀ k, keyed { s with durable := s.durable ++ s.pending.take n, pending := s.pending.drop n } k = keyed s k := by
    intro k
    apply keyed_congr
    simp only [List.append_assoc, List.take_append_drop]
  refine ⟨?_, hi.heldNodup, ?_, ?_⟩
  · intro k hk; rw [hall k]; exact hi.uniq k hk
  · intro e he hne
    exact hi.protected_ e (List.mem_of_mem_drop he) hne
  · intro x hx
    refine ⟨(hi.fresh x hx).1, ?_⟩
    intro hne
    rw [hall x.2]; exact (hi.fresh x hx).2 hne

theorem finish_inv (s : S) (a : Nat) (hi : Inv s)
    (hp : s.pending.any (fun e => e.by_ = a ∧ e.key ≠ "") = false) :
    Inv { s with held := s.held.filter (·.2 ≠ a), missed := s.missed.filter (·.1 ≠ a) } := by
  refine ⟨hi.uniq, ?_, ?_, ?_⟩
  · exact List.Sublist.nodup (List.Sublist.map _ List.filter_sublist) hi.heldNodup
  · intro e he hne
    have hby : e.by_ ≠ a := by
      intro hby
      have : s.pending.any (fun e => e.by_ = a ∧ e.key ≠ "") = true :=
        List.any_eq_true.mpr ⟨e, he, by simp [hby, hne]⟩
      rw [hp] at this; cases this
    exact List.mem_filter.mpr ⟨hi.protected_ e he hne, by simpa using hby⟩
  · intro x hx
    have hx' := List.mem_filter.mp hx
    have hxa : x.1 ≠ a := by simpa using hx'.2
    exact ⟨List.mem_filter.mpr ⟨(hi.fresh x hx'.1).1, by simpa using hxa⟩, (hi.fresh x hx'.1).2⟩

theorem crash_inv (s : S) (hi : Inv s) : Inv { s with held := [], missed := [], pending := [] } := by
  refine ⟨?_, ?_, ?_, ?_⟩
  · intro k hk
    have h1 := hi.uniq k hk
    unfold keyed at h1 ⊢
    rw [List.filter_append, List.length_append] at h1
    simp only [List.append_nil]
    omega
  · simp
  · intro e he; cases he
  · intro x hx; cases hx

/-! ### every accepted event preserves the invariant -/

theorem step_inv (s : S) (e : GEv) (s' : S) (hi : Inv s) (h : step s e = .ok s') : Inv s' := by
  cases e with
  | take a k ok =>
    simp only [step] at h
    cases ok with
    | true =>
      simp only [↓reduceIte] at h
      split at h
      · cases h
      · rename_i hk
        simp only [Except.ok.injEq] at h
        subst h
        exact take_inv s a k hi (by simpa using hk)
    | false =>
      simp only [Bool.false_eq_true, ↓reduceIte] at h
      split at h
      · simp only [Except.ok.injEq] at h; subst h; exact hi
      · cases h
  | read a k found =>
    simp only [step] at h
    split at h
    · cases h
    · rename_i hh
      split at h
      · cases h
      · rename_i hf
        split at h
        · cases h
        · rename_i hp
          cases found with
          | true => simp only [↓reduceIte, Except.ok.injEq] at h; subst h; exact hi
          | false =>
            simp only [Bool.false_eq_true, ↓reduceIte, Except.ok.injEq] at h
            subst h
            have hh' : (k, a) ∈ s.held := by simpa using hh
            have hd : s.durable.any (·.key = k) = false := by
              cases hd : s.durable.any (·.key = k) with
              | false => rfl
              | true => rw [hd] at hf; simp at hf
            exact read_miss_inv s a k hi hh' hd (by simpa using hp)
  | commit a k id =>
    simp only [step] at h
    split at h
    · rename_i hk
      simp only [Except.ok.injEq] at h
      subst h; subst hk
      exact commit_plain_inv s a id hi
    · rename_i hk
      split at h
      · cases h
      · rename_i hh
        split at h
        · cases h
        · rename_i hm
          simp only [Except.ok.injEq] at h
          subst h
          exact commit_keyed_inv s a id k hi hk (by simpa using hh) (by simpa using hm)
  | gate n ok =>
    simp only [step] at h
    split at h
    · cases h
    · cases ok with
      | false => simp only [Bool.false_eq_true, ↓reduceIte, Except.ok.injEq] at h; subst h; exact hi
      | true =>
        simp only [↓reduceIte, Except.ok.injEq] at h
        subst h
        exact gate_inv s n hi
  | finish a =>
    simp only [step] at h
    split at h
    · cases h
    · rename_i hp
      simp only [Except.ok.injEq] at h
      subst h
      exact finish_inv s a hi (by simpa using hp)
  | crash =>
    simp only [step, Except.ok.injEq] at h
    subst h
    exact crash_inv s hi
  | other =>
    simp only [step, Except.ok.injEq] at h
    subst h
    exact hi

/-! ### what an accepted event tells -/

/-- an accepted lookup is made under the reservation, is answered from the persisted log, and a hit changes nothing -/
theorem read_ok {s : S} {a : Nat} {k : String} {found : Bool} {s' : S} (h : step s (.read a k found) = .ok s') :
    (k, a) ∈ s.held ∧ found = s.durable.any (·.key = k) ∧ (found = true → s' = s) := by
  simp only [step] at h
  split at h
  · cases h
  · rename_i hh
    split at h
    · cases h
    · rename_i hf
      split at h
      · cases h
      · refine ⟨by simpa using hh, by simpa using hf, ?_⟩
        intro hft
        rw [hft] at h
        simp only [↓reduceIte, Except.ok.injEq] at h
        exact h.symm

/-- an accepted commit of a key is made under the reservation after a lookup that missed -/
theorem commit_ok {s : S} {a id : Nat} {k : String} {s' : S} (hk : k ≠ "") (h : step s (.commit a k id) = .ok s') :
    (k, a) ∈ s.held ∧ (a, k) ∈ s.missed ∧ s'.durable = s.durable ∧ s'.pending = s.pending ++ [⟨k, id, a⟩] := by
  simp only [step] at h
  split at h
  · rename_i hk'; exact absurd hk' hk
  · split at h
    · cases h
    · rename_i hh
      split at h
      · cases h
      · rename_i hm
        simp only [Except.ok.injEq] at h
        subst h
        exact ⟨by simpa using hh, by simpa using hm, rfl, rfl⟩

/-- a refused reservation attempt changes nothing, and the key is held -/
theorem take_refused {s : S} {a : Nat} {k : String} {s' : S} (h : step s (.take a k false) = .ok s') :
    s' = s ∧ isHeld s k = true := by
  simp only [step, Bool.false_eq_true, ↓reduceIte] at h
  split at h
  · rename_i hk
    simp only [Except.ok.injEq] at h
    exact ⟨h.symm, hk⟩
  · cases h

/-- while an entry carries the key, nobody's commit of it is accepted -/
theorem no_commit_while_present {s : S} (hi : Inv s) {k : String} (hk : k ≠ "") {e : Entry}
    (he : e ∈ s.durable ++ s.pending) (hek : e.key = k) (a id : Nat) (s' : S) :
    step s (.commit a k id) ≠ .ok s' := by
  intro h
  have hm := (commit_ok hk h).2.1
  have hnil := (hi.fresh (a, k) hm).2 hk
  have : e ∈ keyed s k := mem_keyed.mpr ⟨List.mem_append.mp he, hek⟩
  rw [hnil] at this
  cases this

/-- without the reservation no commit of the key is accepted -/
theorem no_commit_without_reservation {s : S} {k : String} (hk : k ≠ "") {a : Nat} (hh : (k, a) ∉ s.held)
    (id : Nat) (s' : S) : step s (.commit a k id) ≠ .ok s' :=
  fun h => hh (commit_ok hk h).1

/-- the persisted log only grows -/
theorem step_durable_mono (s : S) (e : GEv) (s' : S) (h : step s e = .ok s') : ∀ x ∈ s.durable, x ∈ s'.durable := by
  intro x hx
  cases e with
  | take a k ok =>
    simp only [step] at h
    split at h <;> split at h <;> first | (simp only [Except.ok.injEq] at h; subst h; exact hx) | cases h
  | read a k found =>
    simp only [step] at h
    split at h
    · cases h
    · split at h
      · cases h
      · split at h
        · cases h
        · split at h <;> (simp only [Except.ok.injEq] at h; subst h; exact hx)
  | commit a k id =>
    simp only [step] at h
    split at h
    · simp only [Except.ok.injEq] at h; subst h; exact hx
    · split at h
      · cases h
      · split at h
        · cases h
        · simp only [Except.ok.injEq] at h; subst h; exact hx
  | gate n ok =>
    simp only [step] at h
    split at h
    · cases h
    · split at h
      · simp only [Except.ok.injEq] at h; subst h; exact List.mem_append_left _ hx
      · simp only [Except.ok.injEq] at h; subst h; exact hx
  | finish a =>
    simp only [step] at h
    split at h
    · cases h
    · simp only [Except.ok.injEq] at h; subst h; exact hx
  | crash => simp only [step, Except.ok.injEq] at h; subst h; exact hx
  | other => simp only [step, Except.ok.injEq] at h; subst h; exact hx

/-- a request that does not hold a key does not come to hold it except by a successful reservation of its own -/
theorem step_not_held (s : S) (e : GEv) (s' : S) (h : step s e = .ok s') {k : String} {a : Nat}
    (hn : (k, a) ∉ s.held) (he : e ≠ .take a k true) : (k, a) ∉ s'.held := by
  cases e with
  | take b k' ok =>
    simp only [step] at h
    cases ok with
    | true =>
      simp only [↓reduceIte] at h
      split at h
      · cases h
      · simp only [Except.ok.injEq] at h
        subst h
        intro hm
        rcases List.mem_cons.mp hm with hm | hm
        · have := Prod.mk.inj hm
          apply he
          rw [this.1, this.2]
        · exact hn hm
    | false =>
      simp only [Bool.false_eq_true, ↓reduceIte] at h
      split at h
      · simp only [Except.ok.injEq] at h; subst h; exact hn
      · cases h
  | read b k' found =>
    simp only [step] at h
    split at h
    · cases h
    · split at h
      · cases h
      · split at h
        · cases h
        · split at h <;> (simp only [Except.ok.injEq] at h; subst h; exact hn)
  | commit b k' id =>
    simp only [step] at h
    split at h
    · simp only [Except.ok.injEq] at h; subst h; exact hn
    · split at h
      · cases h
      · split at h
        · cases h
        · simp only [Except.ok.injEq] at h; subst h; exact hn
  | gate n ok =>
    simp only [step] at h
    split at h
    · cases h
    · split at h <;> (simp only [Except.ok.injEq] at h; subst h; exact hn)
  | finish b =>
    simp only [step] at h
    split at h
    · cases h
    · simp only [Except.ok.injEq] at h; subst h
      intro hm; exact hn (List.mem_filter.mp hm).1
  | crash => simp only [step, Except.ok.injEq] at h; subst h; intro hm; cases hm
  | other => simp only [step, Except.ok.injEq] at h; subst h; exact hn

/-! ### runs of an instance (`view : Ev → GEv`) -/

/-- the machine of one instance -/
def stepOf (view : Ev → GEv) (s : S) (e : Ev) : Except String S := step s (view e)

/-- the store's non-empty keys are unique -/
def UniqueKeys (d : List Entry) : Prop := ∀ k, k ≠ "" → (d.filter (·.key = k)).length ≤ 1

/-- the invariant holds after every accepted run that starts from a store with unique keys -/
theorem run_inv (view : Ev → GEv) (d0 : List Entry) (h0 : UniqueKeys d0) (evs : List Ev) (s : S)
    (h : runOn (stepOf view) (init d0) evs = .ok s) : Inv s :=
  runOn_inv (stepOf view) Inv (fun s e s' hi h => step_inv s (view e) s' hi h) evs _ s (init_inv d0 h0) h

/-- … and after every accepted continuation of a state that satisfies it -/
theorem run_inv_from (view : Ev → GEv) (evs : List Ev) (s s' : S) (hi : Inv s)
    (h : runOn (stepOf view) s evs = .ok s') : Inv s' :=
  runOn_inv (stepOf view) Inv (fun s e s' hi h => step_inv s (view e) s' hi h) evs s s' hi h

theorem run_durable_mono (view : Ev → GEv) (x : Entry) (evs : List Ev) (s s' : S) (hx : x ∈ s.durable)
    (h : runOn (stepOf view) s evs = .ok s') : x ∈ s'.durable :=
  runOn_inv (stepOf view) (fun s => x ∈ s.durable) (fun s e s' hi h => step_durable_mono s (view e) s' h x hi)
    evs s s' hx h

theorem run_not_held (view : Ev → GEv) (k : String) (a : Nat) :
    ∀ (evs : List Ev) (s s' : S), (k, a) ∉ s.held → (∀ e ∈ evs, view e ≠ .take a k true) →
      runOn (stepOf view) s evs = .ok s' → (k, a) ∉ s'.held := by
  intro evs
  induction evs with
  | nil => intro s s' hn _ h; simp only [runOn, Except.ok.injEq] at h; subst h; exact hn
  | cons e es ih =>
    intro s s' hn hall h
    simp only [runOn] at h
    cases hs : stepOf view s e with
    | error m => rw [hs] at h; cases h
    | ok s1 =>
      rw [hs] at h
      exact ih s1 s' (step_not_held s (view e) s1 hs hn (hall e List.mem_cons_self))
        (fun e' he' => hall e' (List.mem_cons_of_mem _ he')) h

end Engine.Guard
