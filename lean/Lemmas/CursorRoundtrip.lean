import Model.Cursor
/-! Helper lemmas for C17: reading back what was written, member by member (`decode ∘ encode = id`). -/
namespace Cursor
open Paginate

mutual
theorem filter_rt : ∀ f : Filter, decodeFilter (encodeFilter f) = .ok f
  | .set op items => by
    have h := items_rt items
    cases op <;> simp [encodeFilter, decodeFilter, SetOp.name, setOpOf, h, Except.map]
  | .kv op key value => by
    cases op <;> simp [encodeFilter, decodeFilter, KvOp.name, setOpOf, kvOpOf]
  | .not e => by
    have h := filter_rt e
    cases e <;> simp_all [encodeFilter, decodeFilter, setOpOf, kvOpOf, Except.map]
theorem items_rt : ∀ fs : List Filter, decodeItems (encodeItems fs) = .ok fs
  | [] => by simp [encodeItems, decodeItems]
  | f :: fs => by
    have h1 := filter_rt f
    have h2 := items_rt fs
    cases f <;> simp_all [encodeItems, decodeItems, encodeFilter, Except.map]
end

theorem qb_rt (qb : Option Filter) : decodeQb (encodeQb qb) = .ok qb := by
  cases qb with
  | none => simp [decodeQb, encodeQb]
  | some f =>
    have h := filter_rt f
    cases f <;> simp_all [decodeQb, encodeQb, encodeFilter, Except.map]

theorem asNat_int (n : Nat) (h : n ≤ uint64Max) : asNat (JVal.int n) = .ok n := by
  simp [asNat, JVal.int, h]

theorem asOptInt_rt (n : Option Int) : asOptInt (optInt n) = .ok n := by
  cases n <;> simp [asOptInt, optInt, JVal.int]

theorem asOrder_rt (o : Order) : asOrder (JVal.int (Order.code o)) = .ok (.ok o) := by
  cases o <;> simp [asOrder, JVal.int, Order.code]

theorem extra_rt (e : Extra) : decodeExtra e.kind (encodeExtra e) = .ok e := by
  cases e with
  | any v => simp [decodeExtra, encodeExtra, Extra.kind]
  | pitVol pit v ev =>
    cases pit <;> simp [decodeExtra, encodeExtra, encodePit, Extra.kind, field, List.lookup, decodePit, asBool, bind, Except.bind, pure, Except.pure]

theorem opts_rt (o : Opts) (h : o.pageSize ≤ uint64Max) : decodeOpts o.extra.kind (encodeOpts o) = .ok o := by
  obtain ⟨qb, ps, extra⟩ := o
  simp [decodeOpts, encodeOpts, field, List.lookup, qb_rt, asNat_int ps h, extra_rt, bind, Except.bind, pure, Except.pure]

theorem col_rt (q : ColQuery Opts) (h : fitsCol q) : decodeCol q.filters.extra.kind (encodeCol q) = .ok q := by
  obtain ⟨ps, bottom, column, pid, order, filters, reverse⟩ := q
  obtain ⟨h1, h2⟩ := h
  simp [decodeCol, encodeCol, decodeColFields, toDec, field, List.lookup, asNat_int ps h1, asOptInt_rt, asStr, asOrder_rt, asBool,
    opts_rt filters h2, bind, Except.bind, pure, Except.pure]

theorem off_rt (q : OffQuery Opts) (h : fitsOff q) : decodeOff q.filters.extra.kind (encodeOff q) = .ok q := by
  obtain ⟨offset, order, ps, filters⟩ := q
  obtain ⟨h1, h2, h3⟩ := h
  simp [decodeOff, encodeOff, decodeOffFields, toDec, field, List.lookup, asNat_int ps h1, asNat_int offset h2, asOrder_rt,
    opts_rt filters h3, bind, Except.bind, pure, Except.pure]

end Cursor
