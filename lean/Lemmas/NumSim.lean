import Lemmas.NumPrepare
/-! `ResolveResources` + the first loop of `ResolveBalances` on a compiled program simulate `Spec.resolveVars` +
`checkBalanceVars`, declaration by declaration. -/
namespace Num
open VM

/-! ### the invariant of the simulation -/

/-- `V` is the table `vals` with every pending `balance(…)` slot (`un`) filled in with the stored balance -/
structure Fill (store : Store) (vals : List BVal) (un : List (Nat × String)) (V : List BVal) : Prop where
  len : V.length = vals.length
  same : ∀ (i : Nat), (∀ a, (i, a) ∉ un) → vals[i]? = V[i]?
  pend : ∀ e ∈ un, ∃ s, vals[e.1]? = some (.monNil s) ∧ V[e.1]? = some (.mon s (store.balance e.2 s))
  nodup : (un.map (·.1)).Nodup
  bound : ∀ e ∈ un, e.1 < vals.length

/-- some pending balance is negative -/
def negU (V : List BVal) (un : List (Nat × String)) : Bool :=
  un.any (fun e => match V[e.1]? with | some (.mon _ n) => decide (n < 0) | _ => false)

structure RInv (store : Store) (rs : List Resource) (vi : List (String × Nat)) (vals : List BVal) (un : List (Nat × String))
    (V : List BVal) (env : VEnv) (b : Bool) : Prop where
  fill : Fill store vals un V
  ctx : Ctx rs V env
  names : env.map (·.1) = vi.map (·.1)
  neg : negU V un = b
  pos : VPos V

theorem Fill.get {store : Store} {vals : List BVal} {un : List (Nat × String)} {V : List BVal} (h : Fill store vals un V)
    {i : Nat} {v : BVal} (hv : V[i]? = some v) (hnm : ∀ s n, v ≠ .mon s n) : vals[i]? = some v := by
  rw [h.same i]
  · exact hv
  · intro a ha
    obtain ⟨s, _, h2⟩ := h.pend (i, a) ha
    simp only at h2
    rw [hv] at h2
    simp only [Option.some.injEq] at h2
    exact hnm _ _ h2

theorem getElem?_snoc_ge {α} {l : List α} {x : α} {i : Nat} (h : l.length < i) : (l ++ [x])[i]? = none := by
  rw [List.getElem?_eq_none]; simp; omega

theorem getElem?_snoc_lt {α} {l : List α} {x : α} {i : Nat} (h : i < l.length) : (l ++ [x])[i]? = l[i]? :=
  List.getElem?_append_left h

theorem negU_snoc {V : List BVal} {un : List (Nat × String)} (v : BVal) (hb : ∀ e ∈ un, e.1 < V.length) :
    negU (V ++ [v]) un = negU V un := by
  unfold negU
  induction un with
  | nil => rfl
  | cons e rest ih =>
    simp only [List.any_cons]
    rw [ih (fun e he => hb e (List.mem_cons_of_mem _ he)), getElem?_snoc_lt (hb e (List.mem_cons_self ..))]

/-- one more resolved value, no new pending slot -/
theorem Fill.snoc_plain {store : Store} {vals : List BVal} {un : List (Nat × String)} {V : List BVal} (h : Fill store vals un V)
    (v : BVal) : Fill store (vals ++ [v]) un (V ++ [v]) := by
  have hlen := h.len
  refine ⟨by simp [hlen], ?_, ?_, h.nodup, ?_⟩
  · intro i hi
    rcases Nat.lt_trichotomy i vals.length with hlt | heq | hgt
    · have hlt' : i < V.length := by omega
      rw [getElem?_snoc_lt hlt, getElem?_snoc_lt hlt']; exact h.same i hi
    · subst heq; rw [getElem?_snoc_len, ← hlen, getElem?_snoc_len]
    · have hgt' : V.length < i := by omega
      rw [getElem?_snoc_ge hgt, getElem?_snoc_ge hgt']
  · intro e he
    obtain ⟨s, h1, h2⟩ := h.pend e he
    have hb := h.bound e he
    have hb' : e.1 < V.length := by omega
    exact ⟨s, by rw [getElem?_snoc_lt hb]; exact h1, by rw [getElem?_snoc_lt hb']; exact h2⟩
  · intro e he
    have := h.bound e he
    rw [List.length_append, List.length_singleton]; omega

/-- one more resolved value: a `balance(…)` variable, pending -/
theorem Fill.snoc_bal {store : Store} {vals : List BVal} {un : List (Nat × String)} {V : List BVal} (h : Fill store vals un V)
    (s : Asset) (a : Acct) :
    Fill store (vals ++ [.monNil s]) (un ++ [(vals.length, a)]) (V ++ [.mon s (store.balance a s)]) := by
  have hlen := h.len
  refine ⟨by simp [hlen], ?_, ?_, ?_, ?_⟩
  · intro i hi
    have hi' : ∀ a', (i, a') ∉ un := fun a' hm => hi a' (List.mem_append_left _ hm)
    rcases Nat.lt_trichotomy i vals.length with hlt | heq | hgt
    · have hlt' : i < V.length := by omega
      rw [getElem?_snoc_lt hlt, getElem?_snoc_lt hlt']; exact h.same i hi'
    · subst heq; exact absurd (List.mem_append_right _ (List.mem_singleton.mpr rfl)) (hi a)
    · have hgt' : V.length < i := by omega
      rw [getElem?_snoc_ge hgt, getElem?_snoc_ge hgt']
  · intro e he
    rcases List.mem_append.mp he with he | he
    · obtain ⟨s', h1, h2⟩ := h.pend e he
      have hb := h.bound e he
      have hb' : e.1 < V.length := by omega
      exact ⟨s', by rw [getElem?_snoc_lt hb]; exact h1, by rw [getElem?_snoc_lt hb']; exact h2⟩
    · simp only [List.mem_singleton] at he; subst he
      exact ⟨s, getElem?_snoc_len _ _, by rw [← hlen]; exact getElem?_snoc_len _ _⟩
  · rw [List.map_append, List.nodup_append]
    refine ⟨h.nodup, by simp, ?_⟩
    intro x hx y hy
    simp only [List.map_cons, List.map_nil, List.mem_singleton] at hy
    obtain ⟨e, he, rfl⟩ := List.mem_map.mp hx
    have := h.bound e he
    omega
  · intro e he
    rw [List.length_append, List.length_singleton]
    rcases List.mem_append.mp he with he | he
    · have := h.bound e he; omega
    · simp only [List.mem_singleton] at he; subst he; simp

theorem lookupVar_append_some {env more : VEnv} {n : String} {x : Val} (h : lookupVar env n = some x) :
    lookupVar (env ++ more) n = some x := by
  unfold lookupVar at h ⊢
  rw [List.find?_append]
  cases hf : env.find? (·.1 = n) with
  | none => simp [hf] at h
  | some p => simpa [hf] using h

theorem lookupVar_none_of_names {env : VEnv} {n : String} (h : n ∉ env.map (·.1)) : lookupVar env n = none := by
  unfold lookupVar
  rw [Option.map_eq_none_iff, List.find?_eq_none]
  intro p hp hpn
  simp only [decide_eq_true_eq] at hpn
  exact h (List.mem_map.mpr ⟨p, hp, hpn⟩)

theorem lookupVar_snoc_self {env : VEnv} {n : String} (x : Val) (h : n ∉ env.map (·.1)) :
    lookupVar (env ++ [(n, x)]) n = some x := by
  have hn := lookupVar_none_of_names h
  unfold lookupVar at hn ⊢
  rw [List.find?_append]
  cases hf : env.find? (·.1 = n) with
  | none => simp
  | some p => simp [hf] at hn

/-- the table grows by one resource whose value is right -/
theorem Ctx.snoc {rs : List Resource} {V : List BVal} {env env' : VEnv} (cx : Ctx rs V env) (r : Resource) (v : BVal)
    (henv : ∀ n x, lookupVar env n = some x → lookupVar env' n = some x)
    (hty : v.bty = r.bty)
    (hnew : match r with
      | .const c => v = c
      | .monetary a k => ∃ s, V[a]? = some (.asset s) ∧ v = .mon s k
      | .var _ n => ∃ x, lookupVar env' n = some x ∧ v = BVal.ofVal x
      | .varMeta _ n _ _ => ∃ x, lookupVar env' n = some x ∧ v = BVal.ofVal x
      | .varBalance n _ _ => ∃ x, lookupVar env' n = some x ∧ v = BVal.ofVal x) :
    Ctx (rs ++ [r]) (V ++ [v]) env' := by
  have hlen := cx.typed.len
  refine ⟨?_, cx.typed.snoc hty⟩
  intro i r0 hi
  rcases snoc_cases hi with ⟨hlt, hi⟩ | ⟨rfl, rfl⟩
  · have := cx.res i r0 hi
    cases r0 with
    | const c => exact getElem?_snoc_left this
    | monetary a k =>
      obtain ⟨s, h1, h2⟩ := this
      exact ⟨s, getElem?_snoc_left h1, getElem?_snoc_left h2⟩
    | var t n =>
      obtain ⟨x, h1, h2⟩ := this
      exact ⟨x, henv n x h1, getElem?_snoc_left h2⟩
    | varMeta t n a k =>
      obtain ⟨x, h1, h2⟩ := this
      exact ⟨x, henv n x h1, getElem?_snoc_left h2⟩
    | varBalance n a k =>
      obtain ⟨x, h1, h2⟩ := this
      exact ⟨x, henv n x h1, getElem?_snoc_left h2⟩
  · have hV : (V ++ [v])[rs.length]? = some v := by rw [← hlen]; exact getElem?_snoc_len _ _
    cases r0 with
    | const c => simp only at hnew; subst hnew; exact hV
    | monetary a k =>
      obtain ⟨s, h1, h2⟩ := hnew
      exact ⟨s, getElem?_snoc_left h1, by rw [hV, h2]⟩
    | var t n =>
      obtain ⟨x, h1, h2⟩ := hnew
      exact ⟨x, h1, by rw [hV, h2]⟩
    | varMeta t n a k =>
      obtain ⟨x, h1, h2⟩ := hnew
      exact ⟨x, h1, by rw [hV, h2]⟩
    | varBalance n a k =>
      obtain ⟨x, h1, h2⟩ := hnew
      exact ⟨x, h1, by rw [hV, h2]⟩

/-! ### literal resources: constants and monetary literals resolve, whatever the store -/

theorem lit_step {store : Store} {vars : List (String × BVal)} {rs : List Resource} {vi : List (String × Nat)} {R : Resolved}
    {V : List BVal} {env : VEnv} {b : Bool} (hi : RInv store rs vi R.vals R.unresolved V env b) {r : Resource}
    (hl : r.isLit = true) (hwf : WFres (rs ++ [r])) (hpos : TablePos (rs ++ [r])) :
    ∃ R' v, resolveOne store vars R r = .ok R' ∧ R'.vals = R.vals ++ [v] ∧ R'.unresolved = R.unresolved ∧
      RInv store (rs ++ [r]) vi R'.vals R'.unresolved (V ++ [v]) env b := by
  have hlenV : V.length = rs.length := hi.ctx.typed.len
  have hb : ∀ e ∈ R.unresolved, e.1 < V.length := fun e he => by rw [hi.fill.len]; exact hi.fill.bound e he
  cases r with
  | const c =>
    refine ⟨_, c, rfl, rfl, rfl, ?_⟩
    exact ⟨hi.fill.snoc_plain c, hi.ctx.snoc (.const c) c (fun _ _ h => h) rfl rfl, hi.names, by rw [negU_snoc c hb]; exact hi.neg,
      hi.pos.snoc (by intro r hr; subst hr; exact hpos r (by simp))⟩
  | monetary a k =>
    have hw := hwf rs.length (.monetary a k) (by simp)
    simp only at hw
    obtain ⟨s, hs⟩ := hi.ctx.typed.asset (hw.2.prefix hw.1)
    have hR : R.vals[a]? = some (.asset s) := hi.fill.get hs (by intro _ _ h; cases h)
    refine ⟨{ R with vals := R.vals ++ [.mon s k] }, .mon s k, by simp only [resolveOne, hR], rfl, rfl, ?_⟩
    exact ⟨hi.fill.snoc_plain _, hi.ctx.snoc (.monetary a k) (.mon s k) (fun _ _ h => h) rfl ⟨s, hs, rfl⟩, hi.names,
      by rw [negU_snoc _ hb]; exact hi.neg, hi.pos.snoc (by intro r hr; cases hr)⟩
  | var _ _ => cases hl
  | varMeta _ _ _ _ => cases hl
  | varBalance _ _ _ => cases hl

theorem resolveLoop_append (store : Store) (vars : List (String × BVal)) (l1 l2 : List Resource) (R : Resolved) :
    resolveLoop store vars (l1 ++ l2) R =
      match resolveLoop store vars l1 R with
      | .ok R' => resolveLoop store vars l2 R'
      | .error e => .error e
      | .panic k => .panic k := by
  induction l1 generalizing R with
  | nil => rfl
  | cons r l1 ih =>
    simp only [List.cons_append, resolveLoop]
    cases resolveOne store vars R r with
    | ok R' => exact ih R'
    | error e => rfl
    | panic k => rfl

theorem WFres.prefix {rs suf : List Resource} (h : WFres (rs ++ suf)) : WFres rs := by
  intro i r hi
  have hlt := getElem?_lt hi
  have := h i r (by rw [List.getElem?_append_left hlt]; exact hi)
  cases r with
  | monetary a k =>
    have h1 : a < rs.length := Nat.lt_trans this.1 hlt
    exact ⟨this.1, this.2.prefix h1⟩
  | varMeta t n a k =>
    have h1 : a < rs.length := Nat.lt_trans this.1 hlt
    exact ⟨this.1, this.2.prefix h1⟩
  | varBalance n a s =>
    have h1 : a < rs.length := Nat.lt_trans this.1 hlt
    have h2 : s < rs.length := Nat.lt_trans this.2.2.1 hlt
    exact ⟨this.1, this.2.1.prefix h1, this.2.2.1, this.2.2.2.prefix h2⟩
  | const _ => trivial
  | var _ _ => trivial

theorem lits_step {store : Store} {vars : List (String × BVal)} {vi : List (String × Nat)} {env : VEnv} {b : Bool}
    {suf : List Resource} (hl : ∀ r ∈ suf, r.isLit = true) {rs : List Resource} {R : Resolved} {V : List BVal}
    (hi : RInv store rs vi R.vals R.unresolved V env b) (hwf : WFres (rs ++ suf)) (hpos : TablePos (rs ++ suf)) :
    ∃ R' V', resolveLoop store vars suf R = .ok R' ∧ R'.unresolved = R.unresolved ∧
      RInv store (rs ++ suf) vi R'.vals R'.unresolved V' env b := by
  induction suf generalizing rs R V with
  | nil => exact ⟨R, V, rfl, rfl, by simpa using hi⟩
  | cons r suf ih =>
    have hwf1 : WFres (rs ++ [r]) := by
      have : rs ++ r :: suf = (rs ++ [r]) ++ suf := by simp
      rw [this] at hwf; exact hwf.prefix
    have hpos1 : TablePos (rs ++ [r]) := by
      intro q hq; apply hpos q
      rcases List.mem_append.mp hq with h | h
      · exact List.mem_append_left _ h
      · simp only [List.mem_singleton] at h; rw [← h]; simp
    obtain ⟨R1, v, h1, _, hu1, hi1⟩ := lit_step (vars := vars) hi (hl r (List.mem_cons_self ..)) hwf1 hpos1
    obtain ⟨R2, V2, h2, hu2, hi2⟩ := ih (fun x hx => hl x (List.mem_cons_of_mem _ hx)) hi1 (by simpa using hwf) (by simpa using hpos)
    refine ⟨R2, V2, by simp only [resolveLoop, h1, h2], hu2.trans hu1, by simpa using hi2⟩

/-! ### one declaration -/

/-- the value `resolveVars` gives one declaration -/
def resolveVar1 (store : Store) (plain : VEnv) (env : VEnv) (d : VarDecl) : Except Err Val :=
  match d.origin with
  | .none =>
    match lookupVar plain d.name with
    | some v => .ok v
    | none => .error .invalidVars
  | .metaOf acc key =>
    match evalAcct env acc with
    | .error er => .error er
    | .ok a =>
      match store.accountMeta a key with
      | none => .error .missingMeta
      | some raw => match parseValue d.ty raw with
        | none => .error .resolve
        | some v => .ok v
  | .balance acc ae =>
    match evalAcct env acc with
    | .error er => .error er
    | .ok a =>
      match evalAsset env ae with
      | .error er => .error er
      | .ok s => .ok (.mon s (store.balance a s))

theorem resolveVars_cons (store : Store) (plain : VEnv) (d : VarDecl) (ds : List VarDecl) (env : VEnv) :
    resolveVars store plain (d :: ds) env =
      match resolveVar1 store plain env d with
      | .error e => .error e
      | .ok v => resolveVars store plain ds (env ++ [(d.name, v)]) := by
  obtain ⟨ty, name, origin⟩ := d
  cases origin with
  | none =>
    simp only [resolveVars, resolveVar1]
    cases lookupVar plain name <;> rfl
  | metaOf acc key =>
    simp only [resolveVars, resolveVar1]
    cases evalAcct env acc with
    | error e => rfl
    | ok a =>
      simp only
      cases store.accountMeta a key with
      | none => rfl
      | some raw =>
        simp only
        cases parseValue ty raw <;> rfl
  | balance acc ae =>
    simp only [resolveVars, resolveVar1]
    cases evalAcct env acc with
    | error e => rfl
    | ok a =>
      simp only
      cases evalAsset env ae <;> rfl

/-- a `balance(…)` declaration whose value is negative -/
def negDecl (d : VarDecl) (v : Val) : Bool :=
  match d.origin, v with
  | .balance _ _, .mon _ n => decide (n < 0)
  | _, _ => false

theorem find_map_ofP (plain : VEnv) (n : String) :
    ((plain.map ofP).find? (·.1 = n)).map (·.2) = (lookupVar plain n).map BVal.ofVal := by
  induction plain with
  | nil => rfl
  | cons p ps ih =>
    simp only [List.map_cons, List.find?_cons, lookupVar] at ih ⊢
    by_cases h : p.1 = n
    · simp [ofP, h]
    · simp only [ofP, h, decide_false] at ih ⊢
      exact ih

theorem negU_append (V : List BVal) (un : List (Nat × String)) (e : Nat × String) :
    negU V (un ++ [e]) = (negU V un || (match V[e.1]? with | some (.mon _ n) => decide (n < 0) | _ => false)) := by
  simp [negU, List.any_append]

theorem ofVal_pos {v : Val} (h : ValPos v) : ∀ r, BVal.ofVal v = .portion r → 0 < r.den := by
  intro r hr
  cases v <;> simp [BVal.ofVal] at hr
  subst hr; exact h _ rfl

theorem decl_step {store : Store} {plain : VEnv} {st st0 : CState} {d : VarDecl} {r : Resource} {R0 : Resolved} {V0 : List BVal}
    {env : VEnv} {b : Bool}
    (hfresh : st.varIdx.any (·.1 = d.name) = false) (hidx : VarIdxOK st)
    (ho : match d.origin with
       | .none => st0 = st ∧ r = .var d.ty d.name
       | .metaOf acc key => ∃ a c, visitTyped st .account acc = .ok (a, c, st0) ∧ r = .varMeta d.ty d.name a key
       | .balance acc ae => d.ty = .monetary ∧ ∃ a c st1 s c', visitTyped st .account acc = .ok (a, c, st1) ∧
           visitTyped st1 .asset ae = .ok (s, c', st0) ∧ r = .varBalance d.name a s)
    (hi : RInv store st0.resources st.varIdx R0.vals R0.unresolved V0 env b)
    (hpl : isPlain d = true → ∃ v, lookupVar plain d.name = some v ∧ (BVal.ofVal v).bty = d.ty.toB ∧ ValPos v) :
    match resolveVar1 store plain env d with
    | .error er => resolveOne store (plain.map ofP) R0 r = .error er
    | .ok v => ∃ R1 V1, resolveOne store (plain.map ofP) R0 r = .ok R1 ∧
        RInv store (st0.resources ++ [r]) (st.varIdx ++ [(d.name, st0.resources.length)]) R1.vals R1.unresolved V1
          (env ++ [(d.name, v)]) (b || negDecl d v) := by
  have hfn : d.name ∉ env.map (·.1) := by
    rw [hi.names]
    intro hm
    obtain ⟨p, hp, hpn⟩ := List.mem_map.mp hm
    have : st.varIdx.any (·.1 = d.name) = true := List.any_eq_true.mpr ⟨p, hp, by simpa using hpn⟩
    rw [hfresh] at this; cases this
  have henv : ∀ (v : Val) n x, lookupVar env n = some x → lookupVar (env ++ [(d.name, v)]) n = some x :=
    fun v n x h => lookupVar_append_some h
  have hself : ∀ v : Val, lookupVar (env ++ [(d.name, v)]) d.name = some v := fun v => lookupVar_snoc_self v hfn
  have hnames : ∀ v : Val, (env ++ [(d.name, v)]).map (·.1) = (st.varIdx ++ [(d.name, st0.resources.length)]).map (·.1) := by
    intro v; simp [hi.names]
  have hb : ∀ e ∈ R0.unresolved, e.1 < V0.length := fun e he => by rw [hi.fill.len]; exact hi.fill.bound e he
  have hlenV : V0.length = st0.resources.length := hi.ctx.typed.len
  cases hor : d.origin with
  | none =>
    rw [hor] at ho
    obtain ⟨_, rfl⟩ := ho
    obtain ⟨v, hv, hty, hvp⟩ := hpl (by simp [isPlain, hor])
    simp only [resolveVar1, hor, hv]
    refine ⟨{ R0 with vals := R0.vals ++ [BVal.ofVal v], involved := involve R0.involved R0.vals.length (BVal.ofVal v) },
      V0 ++ [BVal.ofVal v], ?_, ?_⟩
    · simp only [resolveOne, find_map_ofP, hv, Option.map_some]
    · refine ⟨hi.fill.snoc_plain _, hi.ctx.snoc _ _ (henv v) hty ⟨v, hself v, rfl⟩, hnames v, ?_, hi.pos.snoc (ofVal_pos hvp)⟩
      rw [negU_snoc _ hb, hi.neg]
      simp [negDecl, hor]
  | metaOf acc key =>
    rw [hor] at ho
    obtain ⟨a, c, hvt, rfl⟩ := ho
    obtain ⟨x, hx, hVa⟩ := acctAddr_ok hi.ctx hvt (fun _ _ h => h) hidx (visitTyped_noPortion hvt (by decide))
    have hRa : R0.vals[a]? = some (.acct x) := hi.fill.get hVa (by intro _ _ h; cases h)
    simp only [resolveVar1, hor, hx, resolveOne, derefAcct_ok hRa]
    cases hm : store.accountMeta x key with
    | none => rfl
    | some raw =>
      simp only
      cases hp : parseValue d.ty raw with
      | none => rfl
      | some v =>
        simp only
        refine ⟨_, V0 ++ [BVal.ofVal v], rfl, ?_⟩
        refine ⟨hi.fill.snoc_plain _, hi.ctx.snoc _ _ (henv v) (parseValue_bty hp) ⟨v, hself v, rfl⟩, hnames v, ?_,
          hi.pos.snoc (ofVal_pos (parseValue_valPos hp))⟩
        rw [negU_snoc _ hb, hi.neg]
        simp [negDecl, hor]
  | balance acc ae =>
    rw [hor] at ho
    obtain ⟨hmon, a, c, st1, s, c', hvt1, hvt2, rfl⟩ := ho
    have he2 := (visitTyped_ok hvt2).1
    have he1 := (visitTyped_ok hvt1).1
    have hsub0 : Sub st0 st0.resources := fun _ _ h => h
    obtain ⟨x, hx, hVa⟩ := acctAddr_ok hi.ctx hvt1 (hsub0.of_ext he2) hidx (visitTyped_noPortion hvt1 (by decide))
    obtain ⟨y, hy, hVs⟩ := assetAddr_ok hi.ctx hvt2 hsub0 (he1.varIdxOK hidx) (visitTyped_noPortion hvt2 (by decide))
    have hRa : R0.vals[a]? = some (.acct x) := hi.fill.get hVa (by intro _ _ h; cases h)
    have hRs : R0.vals[s]? = some (.asset y) := hi.fill.get hVs (by intro _ _ h; cases h)
    simp only [resolveVar1, hor, hx, hy, resolveOne, derefAcct_ok hRa, hRs]
    refine ⟨_, V0 ++ [.mon y (store.balance x y)], rfl, ?_⟩
    refine ⟨hi.fill.snoc_bal y x, hi.ctx.snoc _ _ (henv _) rfl ⟨.mon y (store.balance x y), hself _, rfl⟩, hnames _, ?_,
      hi.pos.snoc (by intro r hr; cases hr)⟩
    rw [negU_append, negU_snoc _ hb, hi.neg]
    have : (V0 ++ [BVal.mon y (store.balance x y)])[R0.vals.length]? = some (.mon y (store.balance x y)) := by
      rw [← hi.fill.len]; exact getElem?_snoc_len _ _
    simp only [this, negDecl, hor]

/-! ### all declarations -/

def negDeclAt (env : VEnv) (d : VarDecl) : Bool :=
  match d.origin with
  | .balance _ _ => (match lookupVar env d.name with | some (.mon _ n) => decide (n < 0) | _ => false)
  | _ => false

/-- some `balance(…)` variable is negative -/
def negSpec (env : VEnv) (ds : List VarDecl) : Bool := ds.any (negDeclAt env)

def nonnegDeclAt (env : VEnv) (d : VarDecl) : Bool :=
  match d.origin with
  | .balance _ _ => (match lookupVar env d.name with | some (.mon _ n) => decide (0 ≤ n) | _ => true)
  | _ => true

theorem checkBalanceVars_eq (env : VEnv) (ds : List VarDecl) :
    checkBalanceVars env ds = if negSpec env ds then .error .negativeBalance else .ok () := by
  have : ds.all (nonnegDeclAt env) = !negSpec env ds := by
    unfold negSpec
    induction ds with
    | nil => rfl
    | cons d ds ih =>
      rw [List.all_cons, List.any_cons, ih, Bool.not_or]
      congr 1
      unfold negDeclAt nonnegDeclAt
      cases d.origin with
      | none => rfl
      | metaOf _ _ => rfl
      | balance _ _ =>
        simp only
        cases lookupVar env d.name with
        | none => rfl
        | some v =>
          cases v <;> simp only [Bool.not_false]
          rename_i a n
          by_cases h : n < 0
          · have : ¬ 0 ≤ n := by omega
            simp [h, this]
          · have : 0 ≤ n := by omega
            simp [h, this]
  show (if ds.all (nonnegDeclAt env) then Except.ok () else Except.error Err.negativeBalance) = _
  rw [this]
  cases negSpec env ds <;> rfl

theorem resolveVars_extends {store : Store} {plain : VEnv} {ds : List VarDecl} {env env' : VEnv}
    (h : resolveVars store plain ds env = .ok env') : ∃ more, env' = env ++ more := by
  induction ds generalizing env with
  | nil => simp only [resolveVars, Except.ok.injEq] at h; subst h; exact ⟨[], by simp⟩
  | cons d ds ih =>
    rw [resolveVars_cons] at h
    cases hr : resolveVar1 store plain env d with
    | error e => simp [hr] at h
    | ok v =>
      simp only [hr] at h
      obtain ⟨more, rfl⟩ := ih h
      exact ⟨(d.name, v) :: more, by simp⟩

theorem visitVar_suffix {st st' : CState} {d : VarDecl} (h : visitVar st d = .ok st') :
    ∃ suf, st'.resources = st.resources ++ suf := by
  obtain ⟨_, st0, r, he, rfl, _⟩ := visitVar_cases h
  obtain ⟨⟨lits, e, _⟩, _⟩ := he
  exact ⟨lits ++ [r], by simp [e]⟩

theorem visitVarList_suffix {st st' : CState} {ds : List VarDecl} (h : visitVarList st ds = .ok st') :
    ∃ suf, st'.resources = st.resources ++ suf := by
  induction ds generalizing st with
  | nil => simp only [visitVarList, Except.ok.injEq] at h; subst h; exact ⟨[], by simp⟩
  | cons d rest ih =>
    simp only [visitVarList] at h
    split at h
    · cases h
    · rename_i st1 h1
      obtain ⟨s1, e1⟩ := visitVar_suffix h1
      obtain ⟨s2, e2⟩ := ih h
      exact ⟨s1 ++ s2, by rw [e2, e1, List.append_assoc]⟩

/-- **`ResolveResources` over the declarations is `resolveVars`**: same first error, or a resolved table that is
the value of the resources under `Spec`'s environment once the pending balances are filled in -/
theorem resolve_sim {store : Store} {plain : VEnv} {ds : List VarDecl}
    (hpl : ∀ d ∈ ds, isPlain d = true → ∃ v, lookupVar plain d.name = some v ∧ (BVal.ofVal v).bty = d.ty.toB ∧ ValPos v)
    {st st' : CState} (hv : visitVarList st ds = .ok st') (hidx : VarIdxOK st) (hg : GoodSt st)
    {suf : List Resource} (hsuf : st'.resources = st.resources ++ suf) (hpos : TablePos st'.resources)
    {R : Resolved} {V : List BVal} {env : VEnv} {b : Bool} (hi : RInv store st.resources st.varIdx R.vals R.unresolved V env b) :
    match resolveVars store plain ds env with
    | .error er => resolveLoop store (plain.map ofP) suf R = .error er
    | .ok env' => ∃ R' V', resolveLoop store (plain.map ofP) suf R = .ok R' ∧
        RInv store st'.resources st'.varIdx R'.vals R'.unresolved V' env' (b || negSpec env' ds) := by
  induction ds generalizing st suf R V env b with
  | nil =>
    simp only [visitVarList, Except.ok.injEq] at hv; subst hv
    have : suf = [] := by
      have := congrArg List.length hsuf
      simp at this
      exact this
    subst this
    simp only [resolveVars, resolveLoop]
    exact ⟨R, V, rfl, by simpa [negSpec] using hi⟩
  | cons d rest ih =>
    simp only [visitVarList] at hv
    split at hv
    · cases hv
    · rename_i st1 h1
      obtain ⟨hfresh, st0, r, he, hst1, ho⟩ := visitVar_cases h1
      obtain ⟨lits, elits, hlits⟩ := he.res
      have hg0 : GoodSt st0 := he.good hg
      have hg1 : GoodSt st1 := visitVar_good hg h1
      have hidx1 : VarIdxOK st1 := visitVar_idxOK hidx h1
      have hres1 : st1.resources = st0.resources ++ [r] := by rw [hst1]
      have hvi1 : st1.varIdx = st.varIdx ++ [(d.name, st0.resources.length)] := by rw [hst1, ← he.vars]
      obtain ⟨suf2, hsuf2⟩ := visitVarList_suffix hv
      have hsufeq : suf = lits ++ ([r] ++ suf2) := by
        have : st.resources ++ suf = st.resources ++ (lits ++ ([r] ++ suf2)) := by
          rw [← hsuf, hsuf2, hres1, elits]; simp
        exact List.append_cancel_left this
      have hpos0 : TablePos (st.resources ++ lits) := by
        intro q hq; apply hpos q
        rw [hsuf2, hres1, elits]
        exact List.mem_append_left _ (List.mem_append_left _ hq)
      obtain ⟨R0, V0, hl0, hu0, hi0⟩ := lits_step (vars := plain.map ofP) hlits hi (by rw [← elits]; exact hg0.wf) hpos0
      rw [← elits] at hi0
      have hds := decl_step (plain := plain) hfresh hidx ho hi0 (hpl d (List.mem_cons_self ..))
      rw [resolveVars_cons, hsufeq, resolveLoop_append, hl0]
      simp only [List.singleton_append, resolveLoop]
      cases hr1 : resolveVar1 store plain env d with
      | error er =>
        rw [hr1] at hds
        simp only [hds]
      | ok v =>
        rw [hr1] at hds
        obtain ⟨R1, V1, hro, hi1⟩ := hds
        rw [← hres1, ← hvi1] at hi1
        have := ih (fun d' hd' => hpl d' (List.mem_cons_of_mem _ hd')) hv hidx1 hg1 hsuf2 hi1
        simp only [hro]
        cases hrv : resolveVars store plain rest (env ++ [(d.name, v)]) with
        | error er =>
          rw [hrv] at this
          exact this
        | ok env' =>
          rw [hrv] at this
          obtain ⟨R', V', hloop, hinv⟩ := this
          refine ⟨R', V', hloop, ?_⟩
          have hneg : (b || negDecl d v || negSpec env' rest) = (b || negSpec env' (d :: rest)) := by
            obtain ⟨more, rfl⟩ := resolveVars_extends hrv
            have hfn : d.name ∉ env.map (·.1) := by
              rw [hi.names]
              intro hm
              obtain ⟨p, hp, hpn⟩ := List.mem_map.mp hm
              have : st.varIdx.any (·.1 = d.name) = true := List.any_eq_true.mpr ⟨p, hp, by simpa using hpn⟩
              rw [hfresh] at this; cases this
            have hlk : lookupVar (env ++ [(d.name, v)] ++ more) d.name = some v :=
              lookupVar_append_some (lookupVar_snoc_self v hfn)
            have : negDeclAt (env ++ [(d.name, v)] ++ more) d = negDecl d v := by
              unfold negDeclAt negDecl
              rw [hlk]
              cases d.origin <;> cases v <;> rfl
            simp only [negSpec, List.any_cons, this, Bool.or_assoc]
          rw [← hneg]; exact hinv

/-! ### the first loop of `ResolveBalances` fills the pending slots -/

theorem resolveBalanceVars_fill (store : Store) {un : List (Nat × String)} {vals V : List BVal} (h : Fill store vals un V) :
    resolveBalanceVars store un vals = if negU V un then .error .negativeBalance else .ok V := by
  induction un generalizing vals with
  | nil =>
    simp only [resolveBalanceVars, negU, List.any_nil, Bool.false_eq_true, if_false]
    congr 1
    apply List.ext_getElem?
    intro i
    exact h.same i (by intro a ha; cases ha)
  | cons e rest ih =>
    obtain ⟨idx, address⟩ := e
    obtain ⟨s, h1, h2⟩ := h.pend (idx, address) (List.mem_cons_self ..)
    simp only at h1 h2
    have hnd := h.nodup
    simp only [List.map_cons, List.nodup_cons] at hnd
    simp only [resolveBalanceVars, h1, negU, List.any_cons, h2]
    by_cases hneg : store.balance address s < 0
    · simp [hneg]
    · simp only [hneg, if_false, decide_false, Bool.false_or]
      have hlt : idx < vals.length := h.bound (idx, address) (List.mem_cons_self ..)
      have hfill : Fill store (vals.set idx (.mon s (store.balance address s))) rest V := by
        refine ⟨by simp [h.len], ?_, ?_, hnd.2, ?_⟩
        · intro i hi
          by_cases hii : idx = i
          · subst hii
            rw [List.getElem?_set_self hlt, h2]
          · rw [List.getElem?_set_ne hii]
            apply h.same i
            intro a ha
            rcases List.mem_cons.mp ha with h' | h'
            · simp only [Prod.mk.injEq] at h'; exact hii h'.1.symm
            · exact hi a h'
        · intro e he
          obtain ⟨s', h3, h4⟩ := h.pend e (List.mem_cons_of_mem _ he)
          have hne : idx ≠ e.1 := by
            intro heq
            exact hnd.1 (List.mem_map.mpr ⟨e, he, heq.symm⟩)
          exact ⟨s', by rw [List.getElem?_set_ne hne]; exact h3, h4⟩
        · intro e he
          have := h.bound e (List.mem_cons_of_mem _ he)
          simpa using this
      have := ih hfill
      simp only [negU] at this
      exact this

end Num
