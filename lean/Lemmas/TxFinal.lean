import Lemmas.TxRun
import Lemmas.TxPrepare
/-! `Spec.run` on the script and variable map `txToScript` produces (C09): the whole pipeline. -/
set_option linter.unusedSimpArgs false
namespace Num
namespace Tx

theorem neededOf_sendOf {env : VEnv} {t : Tables} {ub : Bool} {p : Posting}
    (hs : p.src ≠ "world" → lookupVar env (acctVar t.accts p.src) = some (.acct p.src))
    (hm : lookupVar env (monVar t.mons p) = some (.mon p.asset p.amt)) :
    neededOf env (sendOf t ub p) = [(p.src, p.asset)] := by
  by_cases hw : p.src = "world"
  · simp [sendOf, neededOf, leftAsset, leftOperand, evalMon, evalExpr, hm, vsourceAccts, sourceAccts, evalAcct, hw]
  · simp [sendOf, neededOf, leftAsset, leftOperand, evalMon, evalExpr, hm, vsourceAccts, sourceAccts, evalAcct, hw, hs hw]

theorem track_init (store : Store) (nd : List (Acct × Asset)) : Track nd store.balance (initBal store nd) := by
  refine ⟨fun x y hx => ?_, fun y => ?_⟩
  · by_cases hm : (x, y) ∈ nd
    · simp [initBal, hm, hx]
    · simp [initBal, hm]
  · by_cases hm : ("world", y) ∈ nd
    · simp [initBal, hm]
    · simp [initBal, hm]

theorem checkBalanceVars_decls (env : VEnv) (t : Tables) : checkBalanceVars env (decls t) = .ok () := by
  unfold checkBalanceVars
  rw [if_pos]
  rw [List.all_eq_true]
  intro d hd
  rw [decls_origin hd]

/-- the whole pipeline on a list of valid postings: accepted with exactly the postings and the request metadata
when forced or covered by the replay, otherwise `insufficient` — nothing else can happen -/
theorem run_spec {ps : List Posting} (hv : ∀ p ∈ ps, validPosting p = true) (ub : Bool) (md : List (String × String))
    (store : Store) :
    (coveredU ub store.balance ps = true →
      ∃ r, run (txToScript ps ub).1 ⟨(txToScript ps ub).2, md⟩ store = .ok r ∧
        r.postings = ps ∧ r.txMeta = md ∧ r.acctMeta = []) ∧
    (coveredU ub store.balance ps = false →
      run (txToScript ps ub).1 ⟨(txToScript ps ub).2, md⟩ store = .error .insufficient) := by
  obtain ⟨env, hprep, hlook⟩ := prepare_ok hv ub md store
  have hstmts : (txToScript ps ub).1.stmts = ps.map (sendOf (tables ps) ub) := rfl
  have hvars : (txToScript ps ub).1.vars = decls (tables ps) := rfl
  have hready : ∀ p ∈ ps, Ready env (tables ps) (needed env (ps.map (sendOf (tables ps) ub))) p := by
    intro p hp
    obtain ⟨l1, l2, l3⟩ := hlook p hp
    refine ⟨l1, l2, l3, (validPosting_iff.1 (hv p hp)).1, ?_⟩
    unfold needed
    rw [List.mem_flatMap]
    exact ⟨sendOf (tables ps) ub p, List.mem_map.2 ⟨p, hp, rfl⟩, by rw [neededOf_sendOf l1 l3]; simp⟩
  obtain ⟨s1, s2⟩ := stmts_spec (ub := ub) ps
    { st := { bal := initBal store (needed env (ps.map (sendOf (tables ps) ub))), postings := [] } }
    store.balance hready (track_init _ _)
  constructor
  · intro hc
    obtain ⟨F', f1, f2, f3, f4, f5⟩ := s1 hc
    unfold run
    simp only [hprep, hvars, hstmts, checkBalanceVars_decls, f1, f3, f4]
    have hfalse : (md.any fun kv => ([] : List (String × String)).any fun t => decide (t.1 = kv.1)) = false := by simp
    simp only [List.map_nil, hfalse, Bool.false_eq_true, if_false]
    exact ⟨_, rfl, by simpa using f2, by simp, rfl⟩
  · intro hc
    unfold run
    simp only [hprep, hvars, hstmts, checkBalanceVars_decls, s2 hc]

/-! ### requests with an invalid posting -/


theorem bindStep_error (vars : List (String × String)) (e : Err) (d : VarDecl) :
    bindStep vars (.error e) d = .error e := rfl

theorem foldl_bindStep_error (vars : List (String × String)) (e : Err) (ds : List VarDecl) :
    ds.foldl (bindStep vars) (.error e) = .error e := by
  induction ds with
  | nil => rfl
  | cons d ds ih => rw [List.foldl_cons, bindStep_error, ih]

theorem bindStep_cases (vars : List (String × String)) (acc : VEnv) (d : VarDecl) :
    (∃ env, bindStep vars (.ok acc) d = .ok env) ∨ bindStep vars (.ok acc) d = .error .invalidVars := by
  unfold bindStep
  simp only
  split
  · exact Or.inr rfl
  · split
    · exact Or.inr rfl
    · exact Or.inl ⟨_, rfl⟩

/-- a declared variable whose value text does not parse makes the binding fail with `invalidVars` -/
theorem bind_fold_fails (vars : List (String × String)) : ∀ (ds : List VarDecl) (acc : VEnv),
    (∃ d ∈ ds, ∃ raw, (vars.find? (·.1 = d.name)).map (·.2) = some raw ∧ parseValue d.ty raw = none) →
    ds.foldl (bindStep vars) (.ok acc) = .error .invalidVars := by
  intro ds
  induction ds with
  | nil => intro acc h; obtain ⟨d, hd, _⟩ := h; simp at hd
  | cons x xs ih =>
    intro acc h
    obtain ⟨d, hd, raw, h1, h2⟩ := h
    rw [List.foldl_cons]
    rcases List.mem_cons.1 hd with e | e
    · subst e
      have : bindStep vars (.ok acc) d = .error .invalidVars := by
        simp only [bindStep, h1, h2]
      rw [this, foldl_bindStep_error]
    · rcases bindStep_cases vars acc x with ⟨env, he⟩ | he
      · rw [he]; exact ih env ⟨d, e, raw, h1, h2⟩
      · rw [he, foldl_bindStep_error]

/-- some declaration of the generated script carries a value the machine refuses -/
theorem bad_decl {ps : List Posting} {p : Posting} (hp : p ∈ ps) (hv : validPosting p = false) :
    ∃ d ∈ decls (tables ps), ∃ raw, ((varsMap (tables ps)).find? (·.1 = d.name)).map (·.2) = some raw ∧
      parseValue d.ty raw = none := by
  generalize ht : tables ps = t
  have hacct : ∀ a, a ∈ t.accts → validAccount a = false →
      ∃ d ∈ decls t, ∃ raw, ((varsMap t).find? (·.1 = d.name)).map (·.2) = some raw ∧ parseValue d.ty raw = none := by
    intro a ha hbad
    have hi := acctVar_lt ha
    have hget : t.accts[t.accts.idxOf a]? = some a := by
      rw [List.getElem?_eq_getElem hi]; simp
    refine ⟨⟨.account, vaName _, .none⟩, mem_decls.2 (Or.inl ⟨_, hi, rfl⟩), a, ?_, by simp [parseValue, hbad]⟩
    show ((varsMap t).find? (fun e => e.1 = vaName _)).map (·.2) = _
    rw [varsMap_find_va hget]; rfl
  have hcov1 := collect_accts_has ps ⟨[], []⟩ p hp
  have hcov2 := collect_mons_has ps ⟨[], []⟩ p hp
  rw [show collect ps ⟨[], []⟩ = t from ht] at hcov1 hcov2
  by_cases h1 : validAccount p.src = true
  · by_cases h2 : validAccount p.dst = true
    · -- then the monetary is the culprit
      have hmon : ¬ (validAsset p.asset = true ∧ 0 ≤ p.amt) := by
        intro ⟨ha, hn⟩
        have : validPosting p = true := validPosting_iff.2 ⟨hn, h1, h2, ha⟩
        rw [hv] at this; cases this
      obtain ⟨m, hm, hk⟩ := hcov2
      obtain ⟨j, hj, hjm⟩ := List.getElem_of_mem hm
      have hget : t.mons[j]? = some m := by rw [List.getElem?_eq_getElem hj, hjm]
      have hfrom := collect_mons_from ps ⟨[], []⟩ m (by rw [show collect ps ⟨[], []⟩ = t from ht]; exact hm)
      rcases hfrom with h | ⟨q, _, hq⟩
      · simp at h
      · have hkq : monKey q = monKey p := by rw [hq] at hk; exact hk
        obtain ⟨e1, e2⟩ := monKey_inj hkq
        have hval : m.2 = monVal p := by rw [hq]; simp [monVal, e1, e2]
        refine ⟨⟨.monetary, vmName j, .none⟩, mem_decls.2 (Or.inr ⟨j, hj, rfl⟩), monVal p, ?_, parse_monVal_none hmon⟩
        show ((varsMap t).find? (fun e => e.1 = vmName j)).map (·.2) = _
        rw [varsMap_find_vm hget, ← hval]; rfl
    · have hb : validAccount p.dst = false := by simpa using h2
      have hw : p.dst ≠ "world" := fun e => by rw [e, validAccount_world] at hb; cases hb
      exact hacct _ (hcov1.2.resolve_left hw) hb
  · have hb : validAccount p.src = false := by simpa using h1
    have hw : p.src ≠ "world" := fun e => by rw [e, validAccount_world] at hb; cases hb
    exact hacct _ (hcov1.1.resolve_left hw) hb

/-- the machine refuses a request with an invalid posting before anything is executed -/
theorem run_invalid {ps : List Posting} (h : ∃ p ∈ ps, validPosting p = false) (ub : Bool)
    (md : List (String × String)) (store : Store) :
    run (txToScript ps ub).1 ⟨(txToScript ps ub).2, md⟩ store = .error .compile ∨
    run (txToScript ps ub).1 ⟨(txToScript ps ub).2, md⟩ store = .error .invalidVars := by
  obtain ⟨p, hp, hv⟩ := h
  have hbad := bad_decl hp hv
  have hfold := bind_fold_fails (varsMap (tables ps)) (decls (tables ps)) [] hbad
  have hbind : bindPlain (decls (tables ps)) (varsMap (tables ps)) = .error .invalidVars := by
    rw [bindPlain_eq, filter_plain_decls _ _ (fun d hd => by simp only [hd]), hfold]
  unfold run prepare
  by_cases hc : check (txToScript ps ub).1 = true
  · right
    simp only [hc, Bool.not_true, Bool.false_eq_true, if_false]
    have : bindPlain (txToScript ps ub).1.vars (txToScript ps ub).2 = .error .invalidVars := hbind
    simp only [this]
  · left
    have : check (txToScript ps ub).1 = false := by simpa using hc
    simp only [this, Bool.not_false, if_true]

end Tx
end Num
