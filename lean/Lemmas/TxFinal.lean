import Lemmas.TxRun
import Lemmas.TxPrepare
/-! `Spec.run` on the script and variable map `txToScript` produces (C09): the whole pipeline. -/
set_option linter.unusedSimpArgs false
namespace Num
namespace Tx

theorem neededOf_sendOf {env : VEnv} {t : Tables} {ub : Bool} {p : Posting}
    (hs : p.src ≠ "world" → lookupVar env (acctVar t.accts p.src) = some (.acct p.src))
    (hm : lookupVar env (monVar t.mons p) = some (.mon p.asset p.amt)) :
    neededOf env (sendOf t ub p) = [(p.src, p.asset)] := by
  by_cases hw : p.src = "world"
  · simp [sendOf, neededOf, leftAsset, leftOperand, evalMon, evalExpr, hm, vsourceAccts, sourceAccts, evalAcct, hw]
  · simp [sendOf, neededOf, leftAsset, leftOperand, evalMon, evalExpr, hm, vsourceAccts, sourceAccts, evalAcct, hw, hs hw]

theorem track_init (store : Store) (nd : List (Acct × Asset)) : Track nd store.balance (initBal store nd) := by
  refine ⟨fun x y hx => ?_, fun y => ?_⟩
  · by_cases hm : (x, y) ∈ nd
    · simp [initBal, hm, hx]
    · simp [initBal, hm]
  · by_cases hm : ("world", y) ∈ nd
    · simp [initBal, hm]
    · simp [initBal, hm]

theorem checkBalanceVars_decls (env : VEnv) (t : Tables) : checkBalanceVars env (decls t) = .ok () := by
  unfold checkBalanceVars
  rw [if_pos]
  rw [List.all_eq_true]
  intro d hd
  rw [decls_origin hd]

/-- the whole pipeline on a list of valid postings: accepted with exactly the postings and the request metadata
when forced or covered by the replay, otherwise `insufficient` — nothing else can happen -/
theorem run_spec {ps : List Posting} (hv : ∀ p ∈ ps, validPosting p = true) (ub : Bool) (md : List (String × String))
    (store : Store) :
    (coveredU ub store.balance ps = true →
      ∃ r, run (txToScript ps ub).1 ⟨(txToScript ps ub).2, md⟩ store = .ok r ∧
        r.postings = ps ∧ r.txMeta = md ∧ r.acctMeta = []) ∧
    (coveredU ub store.balance ps = false →
      run (txToScript ps ub).1 ⟨(txToScript ps ub).2, md⟩ store = .error .insufficient) := by
  obtain ⟨env, hprep, hlook⟩ := prepare_ok hv ub md store
  have hstmts : (txToScript ps ub).1.stmts = ps.map (sendOf (tables ps) ub) := rfl
  have hvars : (txToScript ps ub).1.vars = decls (tables ps) := rfl
  have hready : ∀ p ∈ ps, Ready env (tables ps) (needed env (ps.map (sendOf (tables ps) ub))) p := by
    intro p hp
    obtain ⟨l1, l2, l3⟩ := hlook p hp
    refine ⟨l1, l2, l3, (validPosting_iff.1 (hv p hp)).1, ?_⟩
    unfold needed
    rw [List.mem_flatMap]
    exact ⟨sendOf (tables ps) ub p, List.mem_map.2 ⟨p, hp, rfl⟩, by rw [neededOf_sendOf l1 l3]; simp⟩
  obtain ⟨s1, s2⟩ := stmts_spec (ub := ub) ps
    { st := { bal := initBal store (needed env (ps.map (sendOf (tables ps) ub))), postings := [] } }
    store.balance hready (track_init _ _)
  constructor
  · intro hc
    obtain ⟨F', f1, f2, f3, f4, f5⟩ := s1 hc
    unfold run
    simp only [hprep, hvars, hstmts, checkBalanceVars_decls, f1, f3, f4]
    have hfalse : (md.any fun kv => ([] : List (String × String)).any fun t => decide (t.1 = kv.1)) = false := by simp
    simp only [List.map_nil, hfalse, Bool.false_eq_true, if_false]
    exact ⟨_, rfl, by simpa using f2, by simp, rfl⟩
  · intro hc
    unfold run
    simp only [hprep, hvars, hstmts, checkBalanceVars_decls, s2 hc]

end Tx
end Num
