import Lemmas.StoreSqlSane
/-! C04 stage 2, layer 2d: **the running totals `insert_move` maintains**.

`VolOk ms`: in the typed `moves` table every row carries
* in `post_commit_volumes` the inputs / outputs of the rows of its account and asset with a `seq` not after its own, and
* in `post_commit_effective_volumes` those of the rows of its account and asset that are not after it in the order
  (effective_date, seq).
`insert_move` keeps this (`volOk_insertMove`): the new row starts from the row `order by seq desc` resp.
`order by effective_date desc, seq desc` picks — the greatest in that order, so its totals are those of ALL rows resp. of all rows
dated `≤` the new date —, and every later-dated row of the account and asset gets the new amount added. -/
namespace StoreSql
open Sql Schema Store

-- ---------------------------------------------------------------- `order by … limit 1` picks a greatest row

theorem pickBest_some {R : Type} (before : R → R → Bool) (irr : ∀ a, before a a = false)
    (tr : ∀ a b c, before a b = true → before b c = true → before a c = true) (b0 : R) (xs : List R) :
    ∃ b, pickBest before (some b0) xs = some b ∧ (b = b0 ∨ b ∈ xs) ∧ (∀ s, before s b0 = false → before s b = false) ∧
      (∀ r ∈ xs, before r b = false) := by
  induction xs generalizing b0 with
  | nil => exact ⟨b0, rfl, .inl rfl, fun _ h => h, by simp⟩
  | cons x xs ih =>
    by_cases hx : before x b0 = true
    · obtain ⟨b, h1, h2, h3, h4⟩ := ih x
      refine ⟨b, by simp [pickBest, hx, h1], ?_, ?_, ?_⟩
      · rcases h2 with rfl | h2
        · exact .inr (List.mem_cons_self ..)
        · exact .inr (List.mem_cons_of_mem _ h2)
      · intro s hs
        apply h3
        cases hsx : before s x with
        | false => rfl
        | true => rw [tr s x b0 hsx hx] at hs; cases hs
      · intro r hr
        rcases List.mem_cons.mp hr with rfl | hr
        · exact h3 _ (irr _)
        · exact h4 r hr
    · have hx' : before x b0 = false := by simpa using hx
      obtain ⟨b, h1, h2, h3, h4⟩ := ih b0
      refine ⟨b, by simp [pickBest, hx', h1], ?_, h3, ?_⟩
      · rcases h2 with rfl | h2
        · exact .inl rfl
        · exact .inr (List.mem_cons_of_mem _ h2)
      · intro r hr
        rcases List.mem_cons.mp hr with rfl | hr
        · exact h3 _ hx'
        · exact h4 r hr

theorem pickBest_none_spec {R : Type} (before : R → R → Bool) (irr : ∀ a, before a a = false)
    (tr : ∀ a b c, before a b = true → before b c = true → before a c = true) (xs : List R) :
    (xs = [] ∧ pickBest before none xs = none) ∨
    ∃ b, pickBest before none xs = some b ∧ b ∈ xs ∧ ∀ r ∈ xs, before r b = false := by
  cases xs with
  | nil => exact .inl ⟨rfl, rfl⟩
  | cons x xs =>
    obtain ⟨b, h1, h2, h3, h4⟩ := pickBest_some before irr tr x xs
    refine .inr ⟨b, by simpa [pickBest] using h1, ?_, ?_⟩
    · rcases h2 with rfl | h2
      · exact List.mem_cons_self ..
      · exact List.mem_cons_of_mem _ h2
    · intro r hr
      rcases List.mem_cons.mp hr with rfl | hr
      · exact h3 _ (irr _)
      · exact h4 r hr

def seqKeys : List (Key AMove) := [{ get := fun r => Val.int r.seq, desc := true }]
def effKeys : List (Key AMove) := [{ get := fun r => Val.ts r.eff, desc := true }, { get := fun r => Val.int r.seq, desc := true }]

theorem seqBefore_eq (a b : AMove) : lexBefore seqKeys a b = decide (b.seq < a.seq) := by
  simp only [lexBefore, seqKeys, keyBefore, Val.isNullB, Val.lt?, Option.getD_some]
  by_cases h : b.seq < a.seq
  · have : (b.seq : Int) < a.seq := by omega
    simp [h, this]
  · have : ¬ (b.seq : Int) < a.seq := by omega
    simp [h, this]

theorem effBefore_eq (a b : AMove) :
    lexBefore effKeys a b = (decide (b.eff < a.eff) || (decide (a.eff = b.eff) && decide (b.seq < a.seq))) := by
  simp only [lexBefore, effKeys, keyBefore, Val.isNullB, Val.lt?, Option.getD_some]
  by_cases h1 : b.eff < a.eff
  · simp [h1]
  · by_cases h2 : a.eff < b.eff
    · have : ¬ a.eff = b.eff := by omega
      simp [h1, h2, this]
    · have : a.eff = b.eff := by omega
      by_cases h3 : b.seq < a.seq
      · have : (b.seq : Int) < a.seq := by omega
        simp [*]
      · have : ¬ (b.seq : Int) < a.seq := by omega
        simp [*]

/-- the move `order by seq desc limit 1` picks: none when no row is selected, otherwise a selected row no selected row has a
greater `seq` than -/
theorem aLastMove_spec (ms : List AMove) (acc : Nat) (x : String) :
    (aLastMove ms acc x = none ∧ ∀ r ∈ ms, moveSel acc x r = false) ∨
    ∃ b, aLastMove ms acc x = some b ∧ b ∈ ms ∧ moveSel acc x b = true ∧ ∀ r ∈ ms, moveSel acc x r = true → r.seq ≤ b.seq := by
  unfold aLastMove selectFirst
  rcases pickBest_none_spec (lexBefore seqKeys) (by intro a; simp [seqBefore_eq])
      (by intro a b c; simp only [seqBefore_eq, decide_eq_true_eq]; omega)
      (ms.filter (fun r => truthy (Val.bool (moveSel acc x r)))) with ⟨h1, h2⟩ | ⟨b, h1, h2, h3⟩
  · refine .inl ⟨h2, ?_⟩
    intro r hr
    have := List.filter_eq_nil_iff.mp h1 r hr
    simpa using this
  · rw [List.mem_filter] at h2
    refine .inr ⟨b, h1, h2.1, by simpa using h2.2, ?_⟩
    intro r hr hsel
    have := h3 r (List.mem_filter.mpr ⟨hr, by simpa using hsel⟩)
    simp only [seqBefore_eq, decide_eq_false_iff_not] at this
    omega

theorem aLastEffMove_spec (ms : List AMove) (acc : Nat) (x : String) (e : Int) :
    (aLastEffMove ms acc x e = none ∧ ∀ r ∈ ms, moveSel acc x r = true → ¬ r.eff ≤ e) ∨
    ∃ b, aLastEffMove ms acc x e = some b ∧ b ∈ ms ∧ moveSel acc x b = true ∧ b.eff ≤ e ∧
      ∀ r ∈ ms, moveSel acc x r = true → r.eff ≤ e → (r.eff < b.eff ∨ (r.eff = b.eff ∧ r.seq ≤ b.seq)) := by
  unfold aLastEffMove selectFirst
  rcases pickBest_none_spec (lexBefore effKeys) (by intro a; simp [effBefore_eq])
      (by
        intro a b c
        simp only [effBefore_eq, Bool.or_eq_true, Bool.and_eq_true, decide_eq_true_eq]
        omega)
      (ms.filter (fun r => truthy (Val.bool (moveSel acc x r && decide (r.eff ≤ e))))) with ⟨h1, h2⟩ | ⟨b, h1, h2, h3⟩
  · refine .inl ⟨h2, ?_⟩
    intro r hr hsel hle
    have := List.filter_eq_nil_iff.mp h1 r hr
    simp [hsel, hle] at this
  · rw [List.mem_filter] at h2
    have hb : moveSel acc x b = true ∧ b.eff ≤ e := by simpa using h2.2
    refine .inr ⟨b, h1, h2.1, hb.1, hb.2, ?_⟩
    intro r hr hsel hle
    have := h3 r (List.mem_filter.mpr ⟨hr, by simp [hsel, hle]⟩)
    simp only [effBefore_eq, Bool.or_eq_false_iff, Bool.and_eq_false_iff, decide_eq_false_iff_not] at this
    omega

-- ---------------------------------------------------------------- sums

def amtIn (m : AMove) : Int := if m.isSource then 0 else m.amount
def amtOut (m : AMove) : Int := if m.isSource then m.amount else 0
def sumOf (g : AMove → Int) (ms : List AMove) : Int := (ms.map g).sum

@[simp] theorem sumOf_nil (g : AMove → Int) : sumOf g [] = 0 := rfl
theorem sumOf_append (g : AMove → Int) (xs ys : List AMove) : sumOf g (xs ++ ys) = sumOf g xs + sumOf g ys := by
  simp [sumOf, List.map_append, List.sum_append]
@[simp] theorem sumOf_singleton (g : AMove → Int) (x : AMove) : sumOf g [x] = g x := by simp [sumOf]

theorem sumOf_filter_congr (g : AMove → Int) (xs : List AMove) (p q : AMove → Bool) (h : ∀ r ∈ xs, p r = q r) :
    sumOf g (xs.filter p) = sumOf g (xs.filter q) := by
  rw [List.filter_congr h]

theorem sumOf_filter_map (g : AMove → Int) (xs : List AMove) (f : AMove → AMove) (p : AMove → Bool) (hg : ∀ r, g (f r) = g r) :
    sumOf g ((xs.map f).filter p) = sumOf g (xs.filter (fun r => p (f r))) := by
  simp only [sumOf, List.filter_map, List.map_map]
  apply congrArg
  apply List.map_congr_left
  intro r _; exact hg r

/-- not after `m` in the order (effective_date, seq) -/
def effLe (r m : AMove) : Bool := decide (r.eff < m.eff) || (decide (r.eff = m.eff) && decide (r.seq ≤ m.seq))

/-- the rows whose amounts `m.post_commit_volumes` resp. `m.post_commit_effective_volumes` add up -/
def upToSeq (m r : AMove) : Bool := moveSel m.acctSeq m.asset r && decide (r.seq ≤ m.seq)
def upToEff (m r : AMove) : Bool := moveSel m.acctSeq m.asset r && effLe r m

structure VolOk (ms : List AMove) : Prop where
  pcvIn : ∀ m ∈ ms, m.pcvIn = sumOf amtIn (ms.filter (upToSeq m))
  pcvOut : ∀ m ∈ ms, m.pcvOut = sumOf amtOut (ms.filter (upToSeq m))
  pcevIn : ∀ m ∈ ms, m.pcevIn = sumOf amtIn (ms.filter (upToEff m))
  pcevOut : ∀ m ∈ ms, m.pcevOut = sumOf amtOut (ms.filter (upToEff m))

theorem volOk_nil : VolOk [] := by constructor <;> simp

/-- one generic column: `fv` the running total, `fe` the effective total, `g` the amount a row contributes -/
structure ColOk (g fv fe : AMove → Int) (ms : List AMove) : Prop where
  v : ∀ m ∈ ms, fv m = sumOf g (ms.filter (upToSeq m))
  e : ∀ m ∈ ms, fe m = sumOf g (ms.filter (upToEff m))

theorem colOk_insert (g fv fe : AMove → Int) (ms : List AMove) (patch : AMove → AMove) (n : AMove) (bv be : Int)
    (hid : ∀ r, (patch r).seq = r.seq ∧ (patch r).acctSeq = r.acctSeq ∧ (patch r).asset = r.asset ∧ (patch r).eff = r.eff ∧
      g (patch r) = g r ∧ fv (patch r) = fv r)
    (hfe : ∀ r ∈ ms, fe (patch r) = fe r + (if moveSel n.acctSeq n.asset r && decide (n.eff < r.eff) then g n else 0))
    (hseq : ∀ r ∈ ms, r.seq < n.seq)
    (hnv : fv n = bv + g n) (hne : fe n = be + g n)
    (hbv : bv = sumOf g (ms.filter (moveSel n.acctSeq n.asset)))
    (hbe : be = sumOf g (ms.filter (fun r => moveSel n.acctSeq n.asset r && decide (r.eff ≤ n.eff))))
    (h : ColOk g fv fe ms) : ColOk g fv fe (ms.map patch ++ [n]) := by
  have selp : ∀ a x r, moveSel a x (patch r) = moveSel a x r := by
    intro a x r; simp [moveSel, (hid r).2.1, (hid r).2.2.1]
  have gp : ∀ r, g (patch r) = g r := fun r => (hid r).2.2.2.2.1
  constructor
  · intro m hm
    rw [List.filter_append, sumOf_append, sumOf_filter_map g ms patch _ gp]
    rcases List.mem_append.mp hm with hm | hm
    · obtain ⟨r, hr, rfl⟩ := List.mem_map.mp hm
      have hn : upToSeq (patch r) n = false := by
        have := hseq r hr
        simp only [upToSeq, (hid r).1, Bool.and_eq_false_iff, decide_eq_false_iff_not]
        right; omega
      rw [(hid r).2.2.2.2.2, h.v r hr]
      simp only [List.filter_cons, hn, Bool.false_eq_true, if_false, List.filter_nil, sumOf_nil, Int.add_zero]
      apply sumOf_filter_congr
      intro r' _
      simp [upToSeq, selp, (hid r).1, (hid r).2.1, (hid r).2.2.1, (hid r').1]
    · simp only [List.mem_singleton] at hm
      subst hm
      have hn : upToSeq m m = true := by simp [upToSeq, moveSel]
      simp only [List.filter_cons, hn, if_true, List.filter_nil, sumOf_singleton]
      rw [hnv, hbv]
      congr 1
      apply sumOf_filter_congr
      intro r' hr'
      have := hseq r' hr'
      simp only [upToSeq, selp, (hid r').1]
      have : r'.seq ≤ m.seq := by omega
      simp [this]
  · intro m hm
    rw [List.filter_append, sumOf_append, sumOf_filter_map g ms patch _ gp]
    rcases List.mem_append.mp hm with hm | hm
    · obtain ⟨r, hr, rfl⟩ := List.mem_map.mp hm
      have hlt := hseq r hr
      have hn : upToEff (patch r) n = (moveSel n.acctSeq n.asset r && decide (n.eff < r.eff)) := by
        simp only [upToEff, effLe, (hid r).1, (hid r).2.1, (hid r).2.2.1, (hid r).2.2.2.1, moveSel]
        have : ¬ n.seq ≤ r.seq := by omega
        simp only [this, decide_false, Bool.and_false, Bool.or_false]
        rw [Bool.eq_iff_iff]
        simp only [Bool.and_eq_true, beq_iff_eq, decide_eq_true_eq]
        constructor
        · rintro ⟨⟨h1, h2⟩, h3⟩; exact ⟨⟨h1.symm, h2.symm⟩, h3⟩
        · rintro ⟨⟨h1, h2⟩, h3⟩; exact ⟨⟨h1.symm, h2.symm⟩, h3⟩
      rw [hfe r hr, h.e r hr]
      have e1 : sumOf g (ms.filter (fun r' => upToEff (patch r) (patch r'))) = sumOf g (ms.filter (upToEff r)) := by
        apply sumOf_filter_congr
        intro r' _
        simp [upToEff, effLe, selp, (hid r).1, (hid r).2.1, (hid r).2.2.1, (hid r).2.2.2.1, (hid r').1, (hid r').2.2.2.1]
      rw [e1]
      congr 1
      by_cases hc : (moveSel n.acctSeq n.asset r && decide (n.eff < r.eff)) = true
      · simp [hn, hc]
      · simp [hn, hc]
    · simp only [List.mem_singleton] at hm
      subst hm
      have hn : upToEff m m = true := by simp [upToEff, effLe, moveSel]
      simp only [List.filter_cons, hn, if_true, List.filter_nil, sumOf_singleton]
      rw [hne, hbe]
      congr 1
      apply sumOf_filter_congr
      intro r' hr'
      have := hseq r' hr'
      simp only [upToEff, effLe, selp, (hid r').1, (hid r').2.2.2.1]
      have h1 : r'.seq ≤ m.seq := by omega
      congr 1
      rw [Bool.eq_iff_iff]
      simp only [h1, decide_true, Bool.and_true, Bool.or_eq_true, decide_eq_true_eq]
      omega

-- ---------------------------------------------------------------- insert_move keeps the totals

theorem filter_none {α} (xs : List α) (p : α → Bool) (h : ∀ r ∈ xs, p r = false) : xs.filter p = [] :=
  List.filter_eq_nil_iff.mpr (fun r hr => by simp [h r hr])

/-- the totals `insert_move` reads off the latest row are those of ALL rows of the account and asset … -/
theorem movePcv_spec (g fv : AMove → Int) (ms : List AMove) (acc : Nat) (x : String) (ex : Bool)
    (hv : ∀ m ∈ ms, fv m = sumOf g (ms.filter (upToSeq m)))
    (hex : ex = false → ∀ r ∈ ms, r.acctSeq ≠ acc) :
    (if ex then (match aLastMove ms acc x with | some r => fv r | none => 0) else 0) = sumOf g (ms.filter (moveSel acc x)) := by
  cases ex with
  | false =>
    rw [filter_none _ _ (fun r hr => by simp [moveSel, hex rfl r hr])]; rfl
  | true =>
    simp only [if_true]
    rcases aLastMove_spec ms acc x with ⟨h1, h2⟩ | ⟨b, h1, hb, hsel, hmax⟩
    · rw [h1, filter_none _ _ h2]; rfl
    · rw [h1]
      simp only
      rw [hv b hb]
      apply sumOf_filter_congr
      intro r hr
      simp only [moveSel, Bool.and_eq_true, beq_iff_eq] at hsel
      simp only [upToSeq, hsel.1, hsel.2]
      by_cases hr' : moveSel acc x r = true
      · have := hmax r hr hr'; simp [hr', this]
      · simp [hr']

/-- … and the effective totals it reads off the row last by (effective_date, seq) among those dated `≤ e` are those of all rows
of the account and asset dated `≤ e` -/
theorem movePcev_spec (g fe : AMove → Int) (ms : List AMove) (acc : Nat) (x : String) (ex : Bool) (e : Int)
    (he : ∀ m ∈ ms, fe m = sumOf g (ms.filter (upToEff m)))
    (hex : ex = false → ∀ r ∈ ms, r.acctSeq ≠ acc) :
    (if ex then (match aLastMove ms acc x with
        | none => 0
        | some _ => (match aLastEffMove ms acc x e with | some r => fe r | none => 0)) else 0) =
      sumOf g (ms.filter (fun r => moveSel acc x r && decide (r.eff ≤ e))) := by
  cases ex with
  | false =>
    rw [filter_none _ _ (fun r hr => by simp [moveSel, hex rfl r hr])]; rfl
  | true =>
    simp only [if_true]
    rcases aLastMove_spec ms acc x with ⟨h1, h2⟩ | ⟨b0, h1, _, _, _⟩
    · rw [h1, filter_none _ _ (fun r hr => by simp [h2 r hr])]
      rfl
    · rw [h1]
      simp only
      rcases aLastEffMove_spec ms acc x e with ⟨g1, g2⟩ | ⟨b, g1, hb, hsel, hle, hmax⟩
      · rw [g1, filter_none _ _ (fun r hr => by
          by_cases hs : moveSel acc x r = true
          · simp [hs, g2 r hr hs]
          · simp [hs])]
        rfl
      · rw [g1]
        simp only
        rw [he b hb]
        apply sumOf_filter_congr
        intro r hr
        simp only [moveSel, Bool.and_eq_true, beq_iff_eq] at hsel
        simp only [upToEff, effLe, hsel.1, hsel.2]
        by_cases hr' : moveSel acc x r = true
        · simp only [hr', Bool.true_and]
          rw [Bool.eq_iff_iff]
          simp only [Bool.or_eq_true, Bool.and_eq_true, decide_eq_true_eq]
          constructor
          · intro h; omega
          · intro h; have := hmax r hr hr' h; omega
        · simp [hr']

theorem volOk_insertMove (A : ADB) (txSeq : Val) (l : String) (ins : Val) (eff : Int) (a x : String) (amt : Int) (src ex : Bool) (acc : Nat)
    (hlt : ∀ r ∈ A.moves, r.seq < A.movesSeq) (h : VolOk A.moves) (hex : ex = false → ∀ r ∈ A.moves, r.acctSeq ≠ acc) :
    VolOk (aInsertMove A txSeq l ins eff a x amt src ex acc).moves := by
  rw [aInsertMove_eq A txSeq l ins eff a x amt src ex acc hlt]
  simp only
  have hpat : ∀ r ∈ A.moves, patchMove eff x amt src ex acc r =
      if moveSel acc x r && decide (eff < r.eff) then bumpEff src amt r else r := by
    intro r hr
    cases ex with
    | true => simp [patchMove]
    | false => simp [patchMove, moveSel, hex rfl r hr]
  have cin : ColOk amtIn (·.pcvIn) (·.pcevIn) (A.moves.map (patchMove eff x amt src ex acc) ++ [newMove A txSeq l ins eff a x amt src ex acc]) := by
    apply colOk_insert amtIn (·.pcvIn) (·.pcevIn) A.moves _ _ (movePcv A.moves acc x ex).1 (movePcev A.moves acc x ex eff).1
    · intro r
      obtain ⟨p1, _, p3, _, p5, p6, p7, p8, p9, _⟩ := patchMove_id eff x amt src ex acc r
      exact ⟨p1, p3, p5, p7, by simp [amtIn, p6, p8], p9⟩
    · intro r hr
      rw [hpat r hr]
      simp only [newMove_fields]
      by_cases hc : (moveSel acc x r && decide (eff < r.eff)) = true
      · cases src <;> simp [hc, bumpEff, amtIn, newMove]
      · simp [hc]
    · intro r hr; simp only [newMove_fields]; exact hlt r hr
    · cases src <;> simp [newMove, amtIn]
    · cases src <;> simp [newMove, amtIn]
    · simp only [newMove_fields]
      have := movePcv_spec amtIn (·.pcvIn) A.moves acc x ex h.pcvIn hex
      rw [← this]; unfold movePcv
      cases ex <;> simp
      cases aLastMove A.moves acc x <;> simp
    · simp only [newMove_fields]
      have := movePcev_spec amtIn (·.pcevIn) A.moves acc x ex eff h.pcevIn hex
      rw [← this]; unfold movePcev
      cases ex <;> simp
      cases aLastMove A.moves acc x <;> simp
      cases aLastEffMove A.moves acc x eff <;> simp
    · exact ⟨h.pcvIn, h.pcevIn⟩
  have cout : ColOk amtOut (·.pcvOut) (·.pcevOut) (A.moves.map (patchMove eff x amt src ex acc) ++ [newMove A txSeq l ins eff a x amt src ex acc]) := by
    apply colOk_insert amtOut (·.pcvOut) (·.pcevOut) A.moves _ _ (movePcv A.moves acc x ex).2 (movePcev A.moves acc x ex eff).2
    · intro r
      obtain ⟨p1, _, p3, _, p5, p6, p7, p8, _, p10⟩ := patchMove_id eff x amt src ex acc r
      exact ⟨p1, p3, p5, p7, by simp [amtOut, p6, p8], p10⟩
    · intro r hr
      rw [hpat r hr]
      simp only [newMove_fields]
      by_cases hc : (moveSel acc x r && decide (eff < r.eff)) = true
      · cases src <;> simp [hc, bumpEff, amtOut, newMove]
      · simp [hc]
    · intro r hr; simp only [newMove_fields]; exact hlt r hr
    · cases src <;> simp [newMove, amtOut]
    · cases src <;> simp [newMove, amtOut]
    · simp only [newMove_fields]
      have := movePcv_spec amtOut (·.pcvOut) A.moves acc x ex h.pcvOut hex
      rw [← this]; unfold movePcv
      cases ex <;> simp
      cases aLastMove A.moves acc x <;> simp
    · simp only [newMove_fields]
      have := movePcev_spec amtOut (·.pcevOut) A.moves acc x ex eff h.pcevOut hex
      rw [← this]; unfold movePcev
      cases ex <;> simp
      cases aLastMove A.moves acc x <;> simp
      cases aLastEffMove A.moves acc x eff <;> simp
    · exact ⟨h.pcvOut, h.pcevOut⟩
  exact ⟨cin.v, cout.v, cin.e, cout.e⟩

-- ---------------------------------------------------------------- … along a posting, a transaction, a log entry

/-- the accounts of `A'` are those of `A` (same `seq`, ledger and address) or were created since -/
def AcctExt (A A' : ADB) : Prop :=
  A.acctSeq ≤ A'.acctSeq ∧
  ∀ r ∈ A'.accounts, (∃ r0 ∈ A.accounts, r0.seq = r.seq ∧ r0.ledger = r.ledger ∧ r0.address = r.address) ∨ A.acctSeq ≤ r.seq

theorem acctExt_upsert (A : ADB) (l a : String) (m : Kvs) (d : Val) : AcctExt A (aUpsertAccount A l a m d) := by
  unfold aUpsertAccount
  split
  · refine ⟨by simp, ?_⟩
    intro r hr
    rw [aUpdateAccounts_accounts, List.mem_map] at hr
    obtain ⟨r0, hr0, rfl⟩ := hr
    left
    refine ⟨r0, hr0, ?_⟩
    split <;> simp
  · refine ⟨by simp [aAcctInsHist], ?_⟩
    intro r hr
    simp only [aAcctInsHist, List.mem_append, List.mem_singleton] at hr
    rcases hr with hr | rfl
    · exact .inl ⟨r, hr, rfl, rfl, rfl⟩
    · exact .inr (Nat.le_refl _)

theorem AcctExt.trans {A B C : ADB} (h1 : AcctExt A B) (h2 : AcctExt B C) : AcctExt A C := by
  refine ⟨Nat.le_trans h1.1 h2.1, ?_⟩
  intro r hr
  rcases h2.2 r hr with ⟨r1, hr1, e1, e2, e3⟩ | h
  · rcases h1.2 r1 hr1 with ⟨r0, hr0, f1, f2, f3⟩ | h
    · exact .inl ⟨r0, hr0, f1.trans e1, f2.trans e2, f3.trans e3⟩
    · exact .inr (by omega)
  · exact .inr (Nat.le_trans h1.1 h)

/-- an account that did not exist before has a `seq` no move refers to -/
theorem fresh_acct_no_moves {A A' : ADB} (hs : Sane A) (hext : AcctExt A A') (l a : String)
    (hno : A.accounts.any (acctKey l a) = false) (hyes : A'.accounts.any (acctKey l a) = true) :
    ∀ r ∈ A.moves, r.acctSeq ≠ acctSeqOf A' l a := by
  obtain ⟨r2, hr2, e1, e2, e3⟩ := acctSeqOf_spec A' l a hyes
  have hge : A.acctSeq ≤ r2.seq := by
    rcases hext.2 r2 hr2 with ⟨r0, hr0, f1, f2, f3⟩ | h
    · have : A.accounts.any (acctKey l a) = true := by
        rw [List.any_eq_true]; exact ⟨r0, hr0, by simp [acctKey, f2, f3, e2, e3]⟩
      rw [hno] at this; cases this
    · exact h
  intro r hr
  obtain ⟨a0, ha0, g1, _⟩ := hs.mv_acct r hr
  have := hs.acct_lt a0 ha0
  omega

theorem volOk_insertPosting (A : ADB) (txSeq : Val) (l : String) (ins : Val) (eff : Int) (p : Posting) (am : List (String × Meta))
    (hs : Sane A) (h : VolOk A.moves) : VolOk (aInsertPosting A txSeq l ins eff p am).moves := by
  unfold aInsertPosting
  have s1 := sane_upsertAccount A l p.source (amKvs am p.source) ins hs
  have s2 := sane_upsertAccount _ l p.destination (amKvs am p.destination) ins s1
  have ext : AcctExt A (aUpsertAccount (aUpsertAccount A l p.source (amKvs am p.source) ins) l p.destination (amKvs am p.destination) ins) :=
    (acctExt_upsert A l p.source _ ins).trans (acctExt_upsert _ l p.destination _ ins)
  obtain ⟨k1, k2⟩ := posting_accts A l p (amKvs am p.source) (amKvs am p.destination) ins
  have a1 := acctSeqOf_spec _ l p.source k1
  have s3 := sane_insertMove _ txSeq l ins eff p.source p.asset p.amount true (A.accounts.any (acctKey l p.source)) _ s2 a1
  have hm2 : (aUpsertAccount (aUpsertAccount A l p.source (amKvs am p.source) ins) l p.destination (amKvs am p.destination) ins).moves = A.moves := by simp
  have v3 : VolOk (aInsertMove (aUpsertAccount (aUpsertAccount A l p.source (amKvs am p.source) ins) l p.destination (amKvs am p.destination) ins)
      txSeq l ins eff p.source p.asset p.amount true (A.accounts.any (acctKey l p.source))
      (acctSeqOf (aUpsertAccount (aUpsertAccount A l p.source (amKvs am p.source) ins) l p.destination (amKvs am p.destination) ins) l p.source)).moves := by
    apply volOk_insertMove _ _ _ _ _ _ _ _ _ _ _ s2.mv_lt (by rw [hm2]; exact h)
    intro hex
    rw [hm2]
    exact fresh_acct_no_moves hs ext l p.source hex k1
  apply volOk_insertMove _ _ _ _ _ _ _ _ _ _ _ s3.mv_lt v3
  intro hex
  have hne : ¬ p.source = p.destination := by
    intro e; simp [e] at hex
  have hno : A.accounts.any (acctKey l p.destination) = false := by simpa [hne] using hex
  rw [aInsertMove_eq _ _ _ _ _ _ _ _ _ _ _ s2.mv_lt]
  simp only [hm2]
  intro r hr
  have hd : acctSeqOf { (aUpsertAccount (aUpsertAccount A l p.source (amKvs am p.source) ins) l p.destination (amKvs am p.destination) ins) with
      moves := A.moves.map (patchMove eff p.asset p.amount true (A.accounts.any (acctKey l p.source))
          (acctSeqOf (aUpsertAccount (aUpsertAccount A l p.source (amKvs am p.source) ins) l p.destination (amKvs am p.destination) ins) l p.source)) ++
        [newMove (aUpsertAccount (aUpsertAccount A l p.source (amKvs am p.source) ins) l p.destination (amKvs am p.destination) ins) txSeq l ins eff p.source p.asset p.amount true
          (A.accounts.any (acctKey l p.source))
          (acctSeqOf (aUpsertAccount (aUpsertAccount A l p.source (amKvs am p.source) ins) l p.destination (amKvs am p.destination) ins) l p.source)],
      movesSeq := (aUpsertAccount (aUpsertAccount A l p.source (amKvs am p.source) ins) l p.destination (amKvs am p.destination) ins).movesSeq + 1 } l p.destination =
      acctSeqOf (aUpsertAccount (aUpsertAccount A l p.source (amKvs am p.source) ins) l p.destination (amKvs am p.destination) ins) l p.destination := rfl
  rw [hd]
  rcases List.mem_append.mp hr with hr | hr
  · obtain ⟨r0, hr0, rfl⟩ := List.mem_map.mp hr
    rw [(patchMove_id ..).2.2.1]
    exact fresh_acct_no_moves hs ext l p.destination hno k2 r0 hr0
  · simp only [List.mem_singleton] at hr
    subst hr
    simp only [newMove_fields]
    obtain ⟨r1, hr1, e1, _, e3⟩ := a1
    obtain ⟨r2, hr2, f1, _, f3⟩ := acctSeqOf_spec _ l p.destination k2
    intro e
    have : r1 = r2 := pairwise_lt_inj s2.acct_seq hr1 hr2 (by rw [e1, f1, e])
    subst this
    exact hne (e3.symm.trans f3)

theorem sane_vol_postings (ps : List Posting) (A : ADB) (txSeq : Val) (l : String) (ins : Val) (eff : Int) (am : List (String × Meta))
    (hs : Sane A) (h : VolOk A.moves) : VolOk (ps.foldl (fun A p => aInsertPosting A txSeq l ins eff p am) A).moves := by
  induction ps generalizing A with
  | nil => exact h
  | cons p ps ih =>
    exact ih _ (sane_frame_insertPosting A txSeq l ins eff p am hs).1 (volOk_insertPosting A txSeq l ins eff p am hs h)

@[simp] theorem accountMeta_moves (am : List (String × Meta)) (A : ADB) (l : String) (d : Val) :
    (am.foldl (fun A km => aUpsertAccount A l km.1 (kvsOf km.2) d) A).moves = A.moves := by
  induction am generalizing A with
  | nil => rfl
  | cons km rest ih => simp [ih]

theorem volOk_insertTransaction (A : ADB) (l : String) (tx : Tx) (d : Val) (am : List (String × Meta)) (hs : Sane A) (h : VolOk A.moves) :
    VolOk (aInsertTransaction A l tx d am).moves :=
  sane_vol_postings tx.postings (aTxInserted A l tx) (.int A.txSeq) l d tx.timestamp am (sane_txInserted A l tx hs) h

/-- **every log entry keeps the running and effective totals of the `moves` table** -/
theorem volOk_step (A : ADB) (log : CLog) (hs : Sane A) (h : VolOk A.moves) : VolOk (aStep A log).moves := by
  have hs' := sane_logged A log hs
  have h' : VolOk (aLogged A log).moves := h
  unfold aStep
  generalize aLogged A log = B at hs' h'
  obtain ⟨l, id, d, ik, payload⟩ := log
  cases payload with
  | newTx tx am => simp only [aHandle, accountMeta_moves]; exact volOk_insertTransaction B l tx _ am hs' h'
  | revert rid tx =>
    simp only [aHandle, aRevertTransaction, (aUpdateTxs_proj _ _ _).2.2.2.1]; exact volOk_insertTransaction B l tx _ [] hs' h'
  | setMeta t m =>
    cases t with
    | account a => simp only [aHandle, aUpsertAccount_moves]; exact h'
    | transaction tid => simp only [aHandle, aUpdateTransactionMetadata, (aUpdateTxs_proj _ _ _).2.2.2.1]; exact h'
  | delMeta t k =>
    cases t with
    | account a => simp only [aHandle, aDeleteAccountMetadata, aUpdateAccounts_moves]; exact h'
    | transaction tid => simp only [aHandle, aDeleteTransactionMetadata, (aUpdateTxs_proj _ _ _).2.2.2.1]; exact h'

end StoreSql
