import Model.Engine.SkelSys
/-! An executable scheduler for `SkelSys` under the yield-point discipline, and its soundness: whatever `execY` computes
is a `RunY`.  Used to exhibit concrete runs of the interpreted skeleton (non-vacuity of the `…_every_schedule`
theorems: real control paths are executable to their end in the system). -/
namespace Engine.Skel.Sys
open Engine Engine.Skel

inductive Move
  | item (a : Nat)                 -- request `a` executes its next item
  | gate (n : Nat) (ok : Bool)
  | crash
  | arrive (j : Job) (p : Path)

def splitAtY (a : Nat) : List Proc → Option (List Proc × Proc × List Proc)
  | [] => none
  | p :: ps =>
    if p.job.a = a then some ([], p, ps)
    else match splitAtY a ps with
      | some (pre, q, post) => some (p :: pre, q, post)
      | none => none

theorem splitAtY_spec (a : Nat) (ps pre post : List Proc) (q : Proc) (h : splitAtY a ps = some (pre, q, post)) :
    ps = pre ++ q :: post := by
  induction ps generalizing pre with
  | nil => simp [splitAtY] at h
  | cons p ps ih =>
    simp only [splitAtY] at h
    split at h
    · simp only [Option.some.injEq, Prod.mk.injEq] at h
      obtain ⟨rfl, rfl, rfl⟩ := h
      rfl
    · split at h
      · rename_i pre' q' post' hs
        simp only [Option.some.injEq, Prod.mk.injEq] at h
        obtain ⟨rfl, rfl, rfl⟩ := h
        rw [ih pre' hs]
        rfl
      · cases h

def moveY (y : YState) : Move → Option (YState × List Ev)
  | .item a =>
    match splitAtY a y.st.procs with
    | some (pre, q, post) =>
      (match q.alive, q.todo with
       | true, x :: rest =>
         if enabled y.st.sh q.job q.regs x && !blocked y.st.sh q.job.a && (decide (y.running = none) || decide (y.running = some q.job.a)) then
           some (⟨⟨effSh y.st.sh q.job q.regs x, pre ++ ⟨q.job, effRg y.st.sh q.job q.regs x, q.done ++ [x], true, rest⟩ :: post⟩,
                  if endsSegment x || rest.isEmpty then none else some q.job.a⟩, evsOf y.st.sh q.job q.regs x)
         else none
       | _, _ => none)
    | none => none
  | .gate n ok =>
    if 0 < n ∧ n ≤ y.st.sh.queue.length ∧ y.running = none then
      some (⟨if ok then ⟨persist y.st.sh n, y.st.procs⟩ else y.st, none⟩, [.gate n ok])
    else none
  | .crash => some (⟨⟨restart y.st.sh.store, y.st.procs.map (fun p => { p with alive := false, todo := [] })⟩, none⟩, [.crash])
  | .arrive j p =>
    if y.st.procs.all (fun q => decide (q.job.a ≠ j.a)) then some (⟨⟨y.st.sh, y.st.procs ++ [⟨j, {}, [], true, p⟩]⟩, y.running⟩, [])
    else none

def execY (y : YState) : List Move → Option (YState × List Ev)
  | [] => some (y, [])
  | m :: ms => match moveY y m with
    | some (y1, evs) => (match execY y1 ms with
      | some (y2, tr) => some (y2, evs ++ tr)
      | none => none)
    | none => none

/-- the requests that arrive in a schedule -/
def arrivals : List Move → List (Job × Path)
  | [] => []
  | .arrive j p :: ms => (j, p) :: arrivals ms
  | _ :: ms => arrivals ms

theorem moveY_sound (adm : Job → Path → Prop) (y y' : YState) (m : Move) (evs : List Ev)
    (hadm : ∀ j p, m = .arrive j p → adm j p) (h : moveY y m = some (y', evs)) : StepY adm y evs y' := by
  cases m with
  | item a =>
    simp only [moveY] at h
    split at h
    · rename_i pre q post hs
      have hp := splitAtY_spec a _ _ _ _ hs
      split at h
      · rename_i x rest hal htodo
        split at h
        · rename_i hc
          simp only [Bool.and_eq_true, Bool.or_eq_true, decide_eq_true_eq, Bool.not_eq_eq_eq_not, Bool.not_true] at hc
          simp only [Option.some.injEq, Prod.mk.injEq] at h
          obtain ⟨rfl, rfl⟩ := h
          have hq : q = ⟨q.job, q.regs, q.done, true, x :: rest⟩ := by
            cases q
            simp_all
          rw [hq] at hp
          exact StepY.item y pre post q.job q.regs q.done x rest hp hc.1.1 hc.1.2 hc.2
        · cases h
      · cases h
    · cases h
  | gate n ok =>
    simp only [moveY] at h
    split at h
    · rename_i hc
      simp only [Option.some.injEq, Prod.mk.injEq] at h
      obtain ⟨rfl, rfl⟩ := h
      exact StepY.gate y n ok hc.1 hc.2.1 hc.2.2
    · cases h
  | crash =>
    simp only [moveY, Option.some.injEq, Prod.mk.injEq] at h
    obtain ⟨rfl, rfl⟩ := h
    exact StepY.crash y
  | arrive j p =>
    simp only [moveY] at h
    split at h
    · rename_i hc
      simp only [Option.some.injEq, Prod.mk.injEq] at h
      obtain ⟨rfl, rfl⟩ := h
      refine StepY.arrive y j p ?_ (hadm j p rfl)
      intro q hq
      have := List.all_eq_true.1 hc q hq
      simpa using this
    · cases h

theorem RunY.head {adm : Job → Path → Prop} {y y1 y2 : YState} {evs tr : List Ev} (hs : StepY adm y evs y1)
    (hr : RunY adm y1 tr y2) : RunY adm y (evs ++ tr) y2 := by
  induction hr with
  | nil =>
    have := RunY.cons y y y1 evs [] (RunY.nil y) hs
    simpa using this
  | cons y3 y4 evs' tr' _ hs' ih =>
    have := RunY.cons y y3 y4 evs' (evs ++ tr') ih hs'
    simpa [List.append_assoc] using this

/-- **whatever the scheduler computes is a run of the system** -/
theorem execY_sound (adm : Job → Path → Prop) (y y' : YState) (ms : List Move) (tr : List Ev)
    (hadm : ∀ jp ∈ arrivals ms, adm jp.1 jp.2) (h : execY y ms = some (y', tr)) : RunY adm y tr y' := by
  induction ms generalizing y tr with
  | nil =>
    simp only [execY, Option.some.injEq, Prod.mk.injEq] at h
    obtain ⟨rfl, rfl⟩ := h
    exact RunY.nil _
  | cons m ms ih =>
    simp only [execY] at h
    split at h
    · rename_i y1 evs hm
      split at h
      · rename_i y2 tr' he
        simp only [Option.some.injEq, Prod.mk.injEq] at h
        obtain ⟨rfl, rfl⟩ := h
        have hs : StepY adm y evs y1 := by
          apply moveY_sound adm y y1 m evs _ hm
          intro j p hmp
          subst hmp
          exact hadm (j, p) (by simp [arrivals])
        have hr : RunY adm y1 tr' y2 := by
          apply ih y1 tr' _ he
          intro jp hjp
          apply hadm jp
          cases m <;> simp [arrivals, hjp]
        exact RunY.head hs hr
      · cases h
    · cases h

end Engine.Skel.Sys
