import Lemmas.EngineChain
import Lemmas.EngineAck
import Lemmas.EngineEvents
import Model.Engine.Guard
import Model.Engine.Floor
/-! The preview (dry-run) clauses of the component machines (C14): the one-step lemmas.  An event of a preview that
the machines accept leaves the *core* of every component alone — the log, the queue, the allocated ids, the answers,
the bus, the reservations and locks of the real requests. -/
namespace Engine.Preview
open Engine

/-- the request an event belongs to (`gate` and `crash` belong to nobody) -/
def reqOf : Ev → Option Nat
  | .resume a _ => some a
  | .arrive a _ => some a
  | .finish a _ _ _ => some a
  | .ikRead a _ _ => some a
  | .refRead a _ _ => some a
  | .txRead a _ _ _ => some a
  | .balRead a _ _ _ => some a
  | .lock a _ _ => some a
  | .unlock a => some a
  | .committed a _ _ => some a
  | .publish a _ => some a
  | .taken a _ _ _ => some a
  | .gate _ _ => none
  | .crash => none

/-- the events carrying request id `a` -/
def ofRequest (a : Nat) (e : Ev) : Bool := reqOf e == some a

def isCommit : Ev → Bool
  | .committed _ _ _ => true
  | _ => false

def isPublish : Ev → Bool
  | .publish _ _ => true
  | _ => false

theorem ofRequest_iff {a : Nat} {e : Ev} : ofRequest a e = true ↔ reqOf e = some a := by
  simp [ofRequest]

/-! ### Ack -/

/-- everything of `Ack` but the per-request scratch (`found`, `errs`) -/
def ackCore (s : Ack.S) := (s.base, s.durable, s.pending, s.written, s.mine, s.acks, s.dropped)

theorem ack_inert (dry : Nat → Bool) (s s' : Ack.S) (e : Ev) (a : Nat) (hr : reqOf e = some a) (hd : dry a = true)
    (h : Ack.step dry s e = .ok s') : isCommit e = false ∧ ackCore s' = ackCore s := by
  cases e with
  | committed b l lt =>
    simp only [reqOf, Option.some.injEq] at hr; subst hr
    simp [Ack.step, hd] at h
  | gate n ok => simp [reqOf] at hr
  | crash => simp [reqOf] at hr
  | ikRead b key found =>
    cases found with
    | none => simp only [Ack.step, Except.ok.injEq] at h; subst h; exact ⟨rfl, rfl⟩
    | some id =>
      simp only [Ack.step] at h
      split at h
      · simp only [Except.ok.injEq] at h; subst h; exact ⟨rfl, rfl⟩
      · cases h
  | arrive b pt => rw [Ack.arrive_same h]; exact ⟨rfl, rfl⟩
  | finish b ok err t =>
    simp only [reqOf, Option.some.injEq] at hr; subst hr
    cases ok with
    | true => simp only [Ack.step, hd, if_true, Except.ok.injEq] at h; subst h; exact ⟨rfl, rfl⟩
    | false =>
      simp only [Ack.step] at h
      split at h
      · cases h
      · simp only [Except.ok.injEq] at h; subst h; exact ⟨rfl, rfl⟩
  | resume _ _ => simp [Ack.step] at h; subst h; exact ⟨rfl, rfl⟩
  | refRead _ _ _ => simp [Ack.step] at h; subst h; exact ⟨rfl, rfl⟩
  | txRead _ _ _ _ => simp [Ack.step] at h; subst h; exact ⟨rfl, rfl⟩
  | balRead _ _ _ _ => simp [Ack.step] at h; subst h; exact ⟨rfl, rfl⟩
  | lock _ _ _ => simp [Ack.step] at h; subst h; exact ⟨rfl, rfl⟩
  | unlock _ => simp [Ack.step] at h; subst h; exact ⟨rfl, rfl⟩
  | publish _ _ => simp [Ack.step] at h; subst h; exact ⟨rfl, rfl⟩
  | taken _ _ _ _ => simp [Ack.step] at h; subst h; exact ⟨rfl, rfl⟩

/-! ### Events -/

/-- everything of `Events` but the per-request scratch (`found`, `peeked`) -/
def eventsCore (s : Events.S) := (s.durable, s.pending, s.mine, s.published, s.lastTx, s.acked)

theorem events_inert (dry isTx : Nat → Bool) (s s' : Events.S) (e : Ev) (a : Nat) (hr : reqOf e = some a)
    (hd : dry a = true) (h : Events.step dry isTx s e = .ok s') :
    isCommit e = false ∧ isPublish e = false ∧ eventsCore s' = eventsCore s := by
  cases e with
  | committed b l lt =>
    simp only [reqOf, Option.some.injEq] at hr; subst hr
    simp [Events.step, hd] at h
  | publish b ev =>
    simp only [reqOf, Option.some.injEq] at hr; subst hr
    simp [Events.step, hd] at h
  | gate n ok => simp [reqOf] at hr
  | crash => simp [reqOf] at hr
  | ikRead b key found =>
    cases found with
    | none => simp only [Events.step, Except.ok.injEq] at h; subst h; exact ⟨rfl, rfl, rfl⟩
    | some id => simp only [Events.step, Except.ok.injEq] at h; subst h; exact ⟨rfl, rfl, rfl⟩
  | arrive b pt =>
    simp only [Events.step] at h
    split at h
    · simp only [Except.ok.injEq] at h; subst h; exact ⟨rfl, rfl, rfl⟩
    · simp only [Except.ok.injEq] at h; subst h; exact ⟨rfl, rfl, rfl⟩
  | finish b ok err t =>
    simp only [reqOf, Option.some.injEq] at hr; subst hr
    cases ok with
    | true => rw [Events.finish_dry_same hd h]; exact ⟨rfl, rfl, rfl⟩
    | false => simp only [Events.step, Except.ok.injEq] at h; subst h; exact ⟨rfl, rfl, rfl⟩
  | resume _ _ => simp [Events.step] at h; subst h; exact ⟨rfl, rfl, rfl⟩
  | refRead _ _ _ => simp [Events.step] at h; subst h; exact ⟨rfl, rfl, rfl⟩
  | txRead _ _ _ _ => simp [Events.step] at h; subst h; exact ⟨rfl, rfl, rfl⟩
  | balRead _ _ _ _ => simp [Events.step] at h; subst h; exact ⟨rfl, rfl, rfl⟩
  | lock _ _ _ => simp [Events.step] at h; subst h; exact ⟨rfl, rfl, rfl⟩
  | unlock _ => simp [Events.step] at h; subst h; exact ⟨rfl, rfl, rfl⟩
  | taken _ _ _ _ => simp [Events.step] at h; subst h; exact ⟨rfl, rfl, rfl⟩

/-! ### Chain -/

/-- `Chain` only looks at commits, batches and crashes -/
theorem chain_ignores (s : Chain.S) (e : Ev) (a : Nat) (hr : reqOf e = some a) (hc : isCommit e = false) :
    Chain.step s e = .ok s := by
  cases e with
  | committed _ _ _ => simp [isCommit] at hc
  | gate _ _ => simp [reqOf] at hr
  | crash => simp [reqOf] at hr
  | resume _ _ => rfl
  | arrive _ _ => rfl
  | finish _ _ _ _ => rfl
  | ikRead _ _ _ => rfl
  | refRead _ _ _ => rfl
  | txRead _ _ _ _ => rfl
  | balRead _ _ _ _ => rfl
  | lock _ _ _ => rfl
  | unlock _ => rfl
  | publish _ _ => rfl
  | taken _ _ _ _ => rfl

/-! ### Guard -/

/-- the guard events a request that commits nothing can cause -/
def gOfReq (a : Nat) : Guard.GEv → Bool
  | .take b _ _ => b == a
  | .read b _ _ => b == a
  | .finish b => b == a
  | .other => true
  | .commit _ _ _ => false
  | .gate _ _ => false
  | .crash => false

/-- the log as the guard sees it, and the reservations and lookups of the real requests -/
def guardCore (dry : Nat → Bool) (s : Guard.S) :=
  (s.durable, s.pending, s.held.filter (fun x => !dry x.2), s.missed.filter (fun x => !dry x.1))

theorem filter_real_of_filter {α : Type} (p q : α → Bool) (l : List α) (h : ∀ x, q x = true → p x = true) :
    (l.filter p).filter q = l.filter q := by
  rw [List.filter_filter]
  apply List.filter_congr
  intro x _
  cases hq : q x with
  | false => simp
  | true => simp [h x hq]

theorem guard_inert (dry : Nat → Bool) (s s' : Guard.S) (g : Guard.GEv) (a : Nat) (hg : gOfReq a g = true)
    (hd : dry a = true) (h : Guard.step s g = .ok s') : guardCore dry s' = guardCore dry s := by
  cases g with
  | take b k ok =>
    have hb : b = a := by simpa [gOfReq] using hg
    subst hb
    simp only [Guard.step] at h
    split at h
    · split at h
      · cases h
      · simp only [Except.ok.injEq] at h; subst h
        simp [guardCore, hd]
    · split at h
      · simp only [Except.ok.injEq] at h; subst h; rfl
      · cases h
  | read b k found =>
    have hb : b = a := by simpa [gOfReq] using hg
    subst hb
    simp only [Guard.step] at h
    repeat' (split at h)
    all_goals first
      | (simp only [Except.ok.injEq] at h; subst h; first | rfl | simp [guardCore, hd])
      | cases h
  | finish b =>
    have hb : b = a := by simpa [gOfReq] using hg
    subst hb
    simp only [Guard.step] at h
    split at h
    · cases h
    · simp only [Except.ok.injEq] at h; subst h
      simp only [guardCore]
      rw [filter_real_of_filter, filter_real_of_filter]
      · intro x hx
        have : x.1 ≠ b := by intro he; rw [he, hd] at hx; simp at hx
        simpa using this
      · intro x hx
        have : x.2 ≠ b := by intro he; rw [he, hd] at hx; simp at hx
        simpa using this
  | other => simp only [Guard.step, Except.ok.injEq] at h; subst h; rfl
  | commit _ _ _ => simp [gOfReq] at hg
  | gate _ _ => simp [gOfReq] at hg
  | crash => simp [gOfReq] at hg

/-- after its `finish` nothing of the request remains reserved or remembered -/
theorem guard_releases (s s' : Guard.S) (a : Nat) (h : Guard.step s (.finish a) = .ok s') :
    (∀ x ∈ s'.held, x.2 ≠ a) ∧ (∀ x ∈ s'.missed, x.1 ≠ a) ∧ s'.durable = s.durable ∧ s'.pending = s.pending := by
  simp only [Guard.step] at h
  split at h
  · cases h
  · simp only [Except.ok.injEq] at h; subst h
    refine ⟨?_, ?_, rfl, rfl⟩
    · intro x hx; simpa using (List.mem_filter.mp hx).2
    · intro x hx; simpa using (List.mem_filter.mp hx).2

/-- a view of the events as guard events that keeps the request and turns only commits into commits -/
def ViewOk (view : Ev → Guard.GEv) : Prop :=
  (∀ e a, reqOf e = some a → isCommit e = false → gOfReq a (view e) = true) ∧
  (∀ a ok err t, view (.finish a ok err t) = .finish a)

theorem ikView_ok : ViewOk Guard.ikView := by
  refine ⟨?_, fun _ _ _ _ => rfl⟩
  intro e a hr hc
  cases e with
  | committed _ _ _ => simp [isCommit] at hc
  | gate _ _ => simp [reqOf] at hr
  | crash => simp [reqOf] at hr
  | taken b what k ok =>
    simp only [reqOf, Option.some.injEq] at hr; subst hr
    unfold Guard.ikView
    split <;> simp_all [gOfReq]
  | ikRead b k f => simp only [reqOf, Option.some.injEq] at hr; subst hr; simp [Guard.ikView, gOfReq]
  | finish b _ _ _ => simp only [reqOf, Option.some.injEq] at hr; subst hr; simp [Guard.ikView, gOfReq]
  | resume _ _ => simp [Guard.ikView, gOfReq]
  | arrive _ _ => simp [Guard.ikView, gOfReq]
  | refRead _ _ _ => simp [Guard.ikView, gOfReq]
  | txRead _ _ _ _ => simp [Guard.ikView, gOfReq]
  | balRead _ _ _ _ => simp [Guard.ikView, gOfReq]
  | lock _ _ _ => simp [Guard.ikView, gOfReq]
  | unlock _ => simp [Guard.ikView, gOfReq]
  | publish _ _ => simp [Guard.ikView, gOfReq]

theorem refView_ok : ViewOk Guard.refView := by
  refine ⟨?_, fun _ _ _ _ => rfl⟩
  intro e a hr hc
  cases e with
  | committed _ _ _ => simp [isCommit] at hc
  | gate _ _ => simp [reqOf] at hr
  | crash => simp [reqOf] at hr
  | taken b what k ok =>
    simp only [reqOf, Option.some.injEq] at hr; subst hr
    unfold Guard.refView
    split <;> simp_all [gOfReq]
  | refRead b k f => simp only [reqOf, Option.some.injEq] at hr; subst hr; simp [Guard.refView, gOfReq]
  | finish b _ _ _ => simp only [reqOf, Option.some.injEq] at hr; subst hr; simp [Guard.refView, gOfReq]
  | resume _ _ => simp [Guard.refView, gOfReq]
  | arrive _ _ => simp [Guard.refView, gOfReq]
  | ikRead _ _ _ => simp [Guard.refView, gOfReq]
  | txRead _ _ _ _ => simp [Guard.refView, gOfReq]
  | balRead _ _ _ _ => simp [Guard.refView, gOfReq]
  | lock _ _ _ => simp [Guard.refView, gOfReq]
  | unlock _ => simp [Guard.refView, gOfReq]
  | publish _ _ => simp [Guard.refView, gOfReq]

theorem revView_ok (isRevert : Nat → Bool) : ViewOk (Guard.revView isRevert) := by
  refine ⟨?_, fun _ _ _ _ => rfl⟩
  intro e a hr hc
  cases e with
  | committed _ _ _ => simp [isCommit] at hc
  | gate _ _ => simp [reqOf] at hr
  | crash => simp [reqOf] at hr
  | taken b what k ok =>
    simp only [reqOf, Option.some.injEq] at hr; subst hr
    unfold Guard.revView
    split <;> simp_all [gOfReq]
  | txRead b t f r =>
    simp only [reqOf, Option.some.injEq] at hr; subst hr
    simp only [Guard.revView]
    split <;> simp [gOfReq]
  | finish b _ _ _ => simp only [reqOf, Option.some.injEq] at hr; subst hr; simp [Guard.revView, gOfReq]
  | resume _ _ => simp [Guard.revView, gOfReq]
  | arrive _ _ => simp [Guard.revView, gOfReq]
  | ikRead _ _ _ => simp [Guard.revView, gOfReq]
  | refRead _ _ _ => simp [Guard.revView, gOfReq]
  | balRead _ _ _ _ => simp [Guard.revView, gOfReq]
  | lock _ _ _ => simp [Guard.revView, gOfReq]
  | unlock _ => simp [Guard.revView, gOfReq]
  | publish _ _ => simp [Guard.revView, gOfReq]

/-! ### Floor -/

/-- the log as the floor sees it (persisted and queued entries with their producers) -/
def floorCore (s : Floor.S) := (s.durable, s.pending)

theorem floor_inert (grant : Nat → Option Int) (s s' : Floor.S) (e : Ev) (a : Nat) (hr : reqOf e = some a)
    (hc : isCommit e = false) (h : Floor.step grant s e = .ok s') : s'.durable = s.durable ∧ s'.pending = s.pending := by
  cases e with
  | committed _ _ _ => simp [isCommit] at hc
  | gate _ _ => simp [reqOf] at hr
  | crash => simp [reqOf] at hr
  | lock b r w =>
    simp only [Floor.step] at h
    split at h
    · simp only [Except.ok.injEq] at h; subst h; exact ⟨rfl, rfl⟩
    · simp only [Except.ok.injEq] at h; subst h; exact ⟨rfl, rfl⟩
  | resume b pt =>
    simp only [Floor.step] at h
    split at h
    · cases h
    · simp only [Except.ok.injEq] at h; subst h; exact ⟨rfl, rfl⟩
  | unlock b =>
    simp only [Floor.step] at h
    split at h
    · cases h
    · simp only [Except.ok.injEq] at h; subst h; exact ⟨rfl, rfl⟩
  | balRead b x asset v =>
    simp only [Floor.step] at h
    repeat' (split at h)
    all_goals first
      | (simp only [Except.ok.injEq] at h; subst h; exact ⟨rfl, rfl⟩)
      | cases h
  | arrive _ _ => simp [Floor.step] at h; subst h; exact ⟨rfl, rfl⟩
  | finish _ _ _ _ => simp [Floor.step] at h; subst h; exact ⟨rfl, rfl⟩
  | ikRead _ _ _ => simp [Floor.step] at h; subst h; exact ⟨rfl, rfl⟩
  | refRead _ _ _ => simp [Floor.step] at h; subst h; exact ⟨rfl, rfl⟩
  | txRead _ _ _ _ => simp [Floor.step] at h; subst h; exact ⟨rfl, rfl⟩
  | publish _ _ => simp [Floor.step] at h; subst h; exact ⟨rfl, rfl⟩
  | taken _ _ _ _ => simp [Floor.step] at h; subst h; exact ⟨rfl, rfl⟩

/-- the FIFO recheck grants only what was waiting -/
theorem recheck_mem (hs q : List Floor.Hold) :
    (∀ h ∈ (Floor.recheck hs q).1, h ∈ hs ∨ h ∈ q) ∧ (∀ h ∈ (Floor.recheck hs q).2, h ∈ q) := by
  induction q generalizing hs with
  | nil => simp [Floor.recheck]
  | cons x q ih =>
    simp only [Floor.recheck]
    split
    · obtain ⟨h1, h2⟩ := ih (hs ++ [x])
      refine ⟨?_, ?_⟩
      · intro h hh
        rcases h1 h hh with hm | hm
        · rcases List.mem_append.mp hm with hm | hm
          · exact Or.inl hm
          · simp only [List.mem_singleton] at hm; subst hm; exact Or.inr List.mem_cons_self
        · exact Or.inr (List.mem_cons_of_mem _ hm)
      · intro h hh; exact List.mem_cons_of_mem _ (h2 h hh)
    · obtain ⟨h1, h2⟩ := ih hs
      refine ⟨?_, ?_⟩
      · intro h hh
        rcases h1 h hh with hm | hm
        · exact Or.inl hm
        · exact Or.inr (List.mem_cons_of_mem _ hm)
      · intro h hh
        rcases List.mem_cons.mp hh with hm | hm
        · subst hm; exact List.mem_cons_self
        · exact List.mem_cons_of_mem _ (h2 h hm)

/-- after its `unlock` the request holds no lock and none of its balance reads is remembered; a hold of the request
among the new holders can only be one that was (still) waiting in the queue -/
theorem floor_releases (grant : Nat → Option Int) (s s' : Floor.S) (a : Nat)
    (h : Floor.step grant s (.unlock a) = .ok s') :
    (∀ x ∈ s'.holders, x.a = a → x ∈ s.queue) ∧ (∀ x ∈ s'.queue, x ∈ s.queue) ∧ (∀ r ∈ s'.reads, r.1 ≠ a) ∧
      s'.durable = s.durable ∧ s'.pending = s.pending := by
  simp only [Floor.step] at h
  split at h
  · cases h
  · simp only [Except.ok.injEq] at h; subst h
    obtain ⟨h1, h2⟩ := recheck_mem (s.holders.filter (·.a ≠ a)) s.queue
    refine ⟨?_, h2, ?_, rfl, rfl⟩
    · intro x hx hxa
      rcases h1 x hx with hm | hm
      · have := (List.mem_filter.mp hm).2
        simp [hxa] at this
      · exact hm
    · intro r hr; simpa using (List.mem_filter.mp hr).2

/-! ### the id a preview is answered with -/

/-- the only step that touches the peeked ids is a preview reaching its commit point -/
theorem peeked_step (dry isTx : Nat → Bool) (s s' : Events.S) (e : Ev) (h : Events.step dry isTx s e = .ok s') :
    s'.peeked = s.peeked ∨ ∃ b, e = .arrive b "wait" ∧ s'.peeked = (b, s.lastTx + 1) :: s.peeked := by
  cases e with
  | arrive b pt =>
    simp only [Events.step] at h
    split at h
    · rename_i hc
      simp only [Except.ok.injEq] at h; subst h
      exact Or.inr ⟨b, by rw [hc.1], rfl⟩
    · simp only [Except.ok.injEq] at h; subst h; exact Or.inl rfl
  | committed b l lt =>
    simp only [Events.step] at h
    split at h
    · cases h
    · simp only [Except.ok.injEq] at h; subst h; exact Or.inl rfl
  | gate n ok =>
    simp only [Events.step] at h
    split at h
    · cases h
    · split at h
      · simp only [Except.ok.injEq] at h; subst h; exact Or.inl rfl
      · simp only [Except.ok.injEq] at h; subst h; exact Or.inl rfl
  | crash => simp only [Events.step, Except.ok.injEq] at h; subst h; exact Or.inl rfl
  | ikRead b key found =>
    cases found with
    | none => simp only [Events.step, Except.ok.injEq] at h; subst h; exact Or.inl rfl
    | some id => simp only [Events.step, Except.ok.injEq] at h; subst h; exact Or.inl rfl
  | publish b ev =>
    obtain ⟨_, hs, _⟩ := Events.publish_ok h
    subst hs; exact Or.inl rfl
  | finish b ok err t =>
    cases ok with
    | false => simp only [Events.step, Except.ok.injEq] at h; subst h; exact Or.inl rfl
    | true =>
      cases hd : dry b with
      | true => rw [Events.finish_dry_same hd h]; exact Or.inl rfl
      | false =>
        obtain ⟨l, _, hs, _⟩ := Events.finish_ok hd h
        subst hs; exact Or.inl rfl
  | resume _ _ => simp [Events.step] at h; subst h; exact Or.inl rfl
  | refRead _ _ _ => simp [Events.step] at h; subst h; exact Or.inl rfl
  | txRead _ _ _ _ => simp [Events.step] at h; subst h; exact Or.inl rfl
  | balRead _ _ _ _ => simp [Events.step] at h; subst h; exact Or.inl rfl
  | lock _ _ _ => simp [Events.step] at h; subst h; exact Or.inl rfl
  | unlock _ => simp [Events.step] at h; subst h; exact Or.inl rfl
  | taken _ _ _ _ => simp [Events.step] at h; subst h; exact Or.inl rfl

/-- what a preview peeked is kept until it answers, whatever the other requests do in between -/
theorem peek_kept (dry isTx : Nat → Bool) (a : Nat) (es : List Ev) (s s' : Events.S)
    (hne : ∀ e ∈ es, e ≠ .arrive a "wait") (h : runOn (Events.step dry isTx) s es = .ok s') :
    Events.peekOf s' a = Events.peekOf s a := by
  induction es generalizing s with
  | nil => simp [runOn] at h; subst h; rfl
  | cons e es ih =>
    simp only [runOn] at h
    cases hs : Events.step dry isTx s e with
    | error m => simp [hs] at h
    | ok s1 =>
      simp only [hs] at h
      rw [ih s1 (fun e' he' => hne e' (List.mem_cons_of_mem _ he')) h]
      rcases peeked_step dry isTx s s1 e hs with hp | ⟨b, he, hp⟩
      · simp [Events.peekOf, hp]
      · have hba : b ≠ a := by
          intro hba
          apply hne e List.mem_cons_self
          rw [he, hba]
        simp only [Events.peekOf, hp]
        rw [List.find?_cons_of_neg (by simpa using hba)]

/-! ### the product of the components (what trace validation runs over one event sequence) -/

structure Cfg where
  dry : Nat → Bool                 -- which requests are previews
  isTx : Nat → Bool                -- which requests are of a transaction kind (create, revert)
  isRevert : Nat → Bool
  grant : Nat → Option Int         -- the overdraft a request's script grants (`none` = unbounded)

structure World where
  chain : Chain.S
  ack : Ack.S
  events : Events.S
  ik : Guard.S
  ref : Guard.S
  rev : Guard.S
  floor : Floor.S

/-- every component looks at the event; the product accepts iff all of them do -/
def World.step (c : Cfg) (w : World) (e : Ev) : Except String World :=
  match Chain.step w.chain e with
  | .error m => .error m
  | .ok ch =>
  match Ack.step c.dry w.ack e with
  | .error m => .error m
  | .ok ak =>
  match Events.step c.dry c.isTx w.events e with
  | .error m => .error m
  | .ok ev =>
  match Guard.step w.ik (Guard.ikView e) with
  | .error m => .error m
  | .ok g1 =>
  match Guard.step w.ref (Guard.refView e) with
  | .error m => .error m
  | .ok g2 =>
  match Guard.step w.rev (Guard.revView c.isRevert e) with
  | .error m => .error m
  | .ok g3 =>
  match Floor.step c.grant w.floor e with
  | .error m => .error m
  | .ok fl => .ok ⟨ch, ak, ev, g1, g2, g3, fl⟩

theorem World.step_ok {c : Cfg} {w w' : World} {e : Ev} (h : World.step c w e = .ok w') :
    Chain.step w.chain e = .ok w'.chain ∧ Ack.step c.dry w.ack e = .ok w'.ack ∧
    Events.step c.dry c.isTx w.events e = .ok w'.events ∧
    Guard.step w.ik (Guard.ikView e) = .ok w'.ik ∧ Guard.step w.ref (Guard.refView e) = .ok w'.ref ∧
    Guard.step w.rev (Guard.revView c.isRevert e) = .ok w'.rev ∧ Floor.step c.grant w.floor e = .ok w'.floor := by
  unfold World.step at h
  split at h
  · cases h
  · rename_i h1
    split at h
    · cases h
    · rename_i h2
      split at h
      · cases h
      · rename_i h3
        split at h
        · cases h
        · rename_i h4
          split at h
          · cases h
          · rename_i h5
            split at h
            · cases h
            · rename_i h6
              split at h
              · cases h
              · rename_i h7
                simp only [Except.ok.injEq] at h
                subst h
                exact ⟨h1, h2, h3, h4, h5, h6, h7⟩

/-- the core of the product: the whole `Chain` state (log, queue, `lastLog`, `lastTXID`), and the cores of the others -/
def World.core (c : Cfg) (w : World) :=
  (w.chain, ackCore w.ack, eventsCore w.events, guardCore c.dry w.ik, guardCore c.dry w.ref, guardCore c.dry w.rev,
   floorCore w.floor)

/-- an event of a preview -/
def previewEv (dry : Nat → Bool) (e : Ev) : Bool :=
  match reqOf e with
  | some a => dry a
  | none => false

theorem world_inert (c : Cfg) (w w' : World) (e : Ev) (a : Nat) (hr : reqOf e = some a) (hd : c.dry a = true)
    (h : World.step c w e = .ok w') :
    isCommit e = false ∧ isPublish e = false ∧ World.core c w' = World.core c w := by
  obtain ⟨h1, h2, h3, h4, h5, h6, h7⟩ := World.step_ok h
  obtain ⟨hc, ha⟩ := ack_inert c.dry _ _ e a hr hd h2
  obtain ⟨_, hp, he⟩ := events_inert c.dry c.isTx _ _ e a hr hd h3
  have hch : w'.chain = w.chain := by
    rw [chain_ignores w.chain e a hr hc] at h1
    simp only [Except.ok.injEq] at h1; exact h1.symm
  have g1 := guard_inert c.dry _ _ _ a (ikView_ok.1 e a hr hc) hd h4
  have g2 := guard_inert c.dry _ _ _ a (refView_ok.1 e a hr hc) hd h5
  have g3 := guard_inert c.dry _ _ _ a ((revView_ok c.isRevert).1 e a hr hc) hd h6
  have hf := floor_inert c.grant _ _ e a hr hc h7
  refine ⟨hc, hp, ?_⟩
  simp only [World.core, hch, ha, he, g1, g2, g3, floorCore, hf.1, hf.2]

theorem world_run_inert (c : Cfg) (es : List Ev) (w w' : World) (hes : ∀ e ∈ es, previewEv c.dry e = true)
    (h : runOn (World.step c) w es = .ok w') : World.core c w' = World.core c w := by
  induction es generalizing w with
  | nil => simp [runOn] at h; subst h; rfl
  | cons e es ih =>
    simp only [runOn] at h
    cases hs : World.step c w e with
    | error m => simp [hs] at h
    | ok w1 =>
      simp only [hs] at h
      rw [ih w1 (fun e' he' => hes e' (List.mem_cons_of_mem _ he')) h]
      have hp := hes e List.mem_cons_self
      unfold previewEv at hp
      cases hr : reqOf e with
      | none => simp [hr] at hp
      | some a =>
        simp only [hr] at hp
        exact (world_inert c w w1 e a hr hp hs).2.2

/-! ### as if the previews had never been made: `Chain` -/

/-- a sequence `Ack` accepts contains no commit of a preview -/
theorem ack_run_no_preview_commit (dry : Nat → Bool) (es : List Ev) (s s' : Ack.S)
    (h : runOn (Ack.step dry) s es = .ok s') : ∀ e ∈ es, previewEv dry e = true → isCommit e = false := by
  induction es generalizing s with
  | nil => intro e he; cases he
  | cons e es ih =>
    simp only [runOn] at h
    cases hs : Ack.step dry s e with
    | error m => simp [hs] at h
    | ok s1 =>
      simp only [hs] at h
      intro e' he' hp
      rcases List.mem_cons.mp he' with he' | he'
      · subst he'
        unfold previewEv at hp
        cases hr : reqOf e' with
        | none => simp [hr] at hp
        | some a =>
          simp only [hr] at hp
          exact (ack_inert dry s s1 e' a hr hp hs).1
      · exact ih s1 h e' he' hp

/-- removing events `Chain` does not look at changes nothing, exactly -/
theorem chain_erase (keep : Ev → Bool) (es : List Ev) (s : Chain.S)
    (hk : ∀ e ∈ es, keep e = false → (reqOf e).isSome = true ∧ isCommit e = false) :
    runOn Chain.step s (es.filter keep) = runOn Chain.step s es := by
  induction es generalizing s with
  | nil => rfl
  | cons e es ih =>
    have ih' := fun s => ih s (fun e' he' => hk e' (List.mem_cons_of_mem _ he'))
    cases hke : keep e with
    | true =>
      rw [List.filter_cons_of_pos (by simp [hke])]
      simp only [runOn]
      cases Chain.step s e with
      | error m => rfl
      | ok s1 => exact ih' s1
    | false =>
      rw [List.filter_cons_of_neg (by simp [hke])]
      obtain ⟨hr, hc⟩ := hk e List.mem_cons_self hke
      cases hra : reqOf e with
      | none => simp [hra] at hr
      | some a =>
        simp only [runOn, chain_ignores s e a hra hc]
        exact ih' s

end Engine.Preview
