import Lemmas.SpecConserve
/-! C01 — the accounting invariant behind `no_overdraw`, carried through the `Spec` interpreter
(DESIGN.md appendix A, "Proof architecture for C01").

For every account `x ≠ world` and asset `A` whose overdraft is bounded by the script (`g x A = some gv`):
`R x A = T x A + saved x A + fl x A` where `R` is the real balance (initial balance plus the postings emitted so
far), `T` the tracked balance of the interpreter, `saved` what `save` set aside, and `fl` the amount of `x`
currently in flight over ALL live fundings (a frame parameter: every function is specified by how it changes
`fl`); and `T + saved ≥ -gv` unless nothing of `x` is in flight. -/
namespace Num

/-! ### real balances and the floor -/

/-- the effect of one posting on the real balances -/
def applyPosting (R : Acct → Asset → Int) (p : Posting) : Acct → Asset → Int :=
  fun x A => R x A - (if p.src = x ∧ p.asset = A then p.amt else 0) + (if p.dst = x ∧ p.asset = A then p.amt else 0)

/-- real balances after a list of postings, applied in order -/
def realBal (R : Acct → Asset → Int) : List Posting → Acct → Asset → Int
  | [] => R
  | p :: ps => realBal (applyPosting R p) ps

/-- walk the postings in order with the running real balance `R`; a posting whose source is not `world` and
whose overdraft is bounded (`g src asset = some gv`) is either empty or leaves its source at `-gv` or above -/
def FloorOK (g : Acct → Asset → Option Int) (R : Acct → Asset → Int) : List Posting → Prop
  | [] => True
  | p :: ps =>
    (p.src ≠ "world" → ∀ gv, g p.src p.asset = some gv → p.amt = 0 ∨ -gv ≤ R p.src p.asset - p.amt) ∧
    FloorOK g (applyPosting R p) ps

theorem realBal_append (R : Acct → Asset → Int) (ps qs : List Posting) :
    realBal R (ps ++ qs) = realBal (realBal R ps) qs := by
  induction ps generalizing R with
  | nil => rfl
  | cons p ps ih => simp only [List.cons_append, realBal, ih]

theorem FloorOK_append (g : Acct → Asset → Option Int) (R : Acct → Asset → Int) (ps qs : List Posting) :
    FloorOK g R (ps ++ qs) ↔ FloorOK g R ps ∧ FloorOK g (realBal R ps) qs := by
  induction ps generalizing R with
  | nil => simp [FloorOK, realBal]
  | cons p ps ih => simp only [List.cons_append, FloorOK, realBal, ih, and_assoc]

/-! ### accounts of a funding -/

/-- every part of the funding belongs to an account satisfying `P` -/
def AcctsIn (P : Acct → Prop) (f : Parts) : Prop := ∀ p ∈ f, P p.acct

theorem AcctsIn.nil (P : Acct → Prop) : AcctsIn P [] := fun _ h => by simp at h
theorem AcctsIn.cons {P : Acct → Prop} {p : Part} {f : Parts} (hp : P p.acct) (h : AcctsIn P f) :
    AcctsIn P (p :: f) := by
  intro q hq
  rcases List.mem_cons.mp hq with rfl | hq
  · exact hp
  · exact h q hq
theorem AcctsIn.head {P : Acct → Prop} {p : Part} {f : Parts} (h : AcctsIn P (p :: f)) : P p.acct :=
  h p List.mem_cons_self
theorem AcctsIn.tail {P : Acct → Prop} {p : Part} {f : Parts} (h : AcctsIn P (p :: f)) : AcctsIn P f :=
  fun q hq => h q (List.mem_cons_of_mem _ hq)
theorem AcctsIn.append {P : Acct → Prop} {f g : Parts} (hf : AcctsIn P f) (hg : AcctsIn P g) :
    AcctsIn P (f ++ g) := by
  intro q hq
  rcases List.mem_append.mp hq with h | h
  · exact hf q h
  · exact hg q h
theorem AcctsIn.reverse {P : Acct → Prop} {f : Parts} (h : AcctsIn P f) : AcctsIn P f.reverse :=
  fun q hq => h q (List.mem_reverse.mp hq)

theorem takeLoop_acctsIn {P : Acct → Prop} (f : Parts) (n : Int) (h : AcctsIn P f) :
    AcctsIn P (takeLoop f n).1 ∧ AcctsIn P (takeLoop f n).2.1 := by
  induction f generalizing n with
  | nil => simp [takeLoop, AcctsIn.nil]
  | cons p ps ih =>
    have hp := h.head
    have hps := h.tail
    by_cases hn : n > 0
    · by_cases hgt : p.amt > n
      · simp only [takeLoop, hn, hgt, if_true]
        exact ⟨AcctsIn.cons hp (AcctsIn.nil P), AcctsIn.cons hp hps⟩
      · have := ih (n - p.amt) hps
        simp only [takeLoop, hn, hgt, if_true, if_false]
        exact ⟨AcctsIn.cons hp this.1, this.2⟩
    · simp only [takeLoop, hn, if_false]
      exact ⟨AcctsIn.nil P, h⟩

theorem takeMax_acctsIn {P : Acct → Prop} (f : Parts) (n : Int) (h : AcctsIn P f) :
    AcctsIn P (takeMax f n).1 ∧ AcctsIn P (takeMax f n).2 := by
  simpa [takeMax] using takeLoop_acctsIn f n h

theorem takePre_acctsIn {P : Acct → Prop} (f : Parts) (n : Int) (h : AcctsIn P f) : AcctsIn P (takePre f n) := by
  unfold takePre; split
  · cases f with
    | nil => exact AcctsIn.nil P
    | cons p ps => exact AcctsIn.cons h.head (AcctsIn.nil P)
  · exact AcctsIn.nil P

theorem take_acctsIn {P : Acct → Prop} {f t r : Parts} {n : Int} (h : AcctsIn P f) (ht : take f n = some (t, r)) :
    AcctsIn P t ∧ AcctsIn P r := by
  have hl := takeLoop_acctsIn f n h
  obtain ⟨_, rfl, rfl⟩ := take_eq_some ht
  exact ⟨(takePre_acctsIn f n h).append hl.1, hl.2⟩

theorem concat_acctsIn {P : Acct → Prop} {f g : Parts} (hf : AcctsIn P f) (hg : AcctsIn P g) :
    AcctsIn P (concat f g) := by
  fun_induction concat f g with
  | case1 => exact hg
  | case2 l h gs heq => exact AcctsIn.cons hf.head hg.tail
  | case3 l h gs hne => exact AcctsIn.cons hf.head hg
  | case4 l => exact hf
  | case5 p q f g ih => exact AcctsIn.cons hf.head (ih hf.tail hg)

theorem catAll_acctsIn {P : Acct → Prop} {acc : Parts} {fs : List Fund} (ha : AcctsIn P acc)
    (hf : ∀ f ∈ fs, AcctsIn P f.parts) : AcctsIn P (catAll acc fs) := by
  induction fs generalizing acc with
  | nil => simpa using ha
  | cons f fs ih =>
    simp only [catAll_cons]
    exact ih (concat_acctsIn ha (hf f List.mem_cons_self)) (fun g hg => hf g (List.mem_cons_of_mem _ hg))

/-! ### the context, good fundings, amounts in flight -/

/-- what the invariant is relative to: the overdraft bound `g` of every (account, asset) (`none` = unbounded),
the set `K` of tracked (account, asset) pairs, and what `save` has set aside so far -/
structure Cx where
  g : Acct → Asset → Option Int
  K : Acct → Asset → Prop
  saved : Acct → Asset → Int

/-- a live funding: no negative part, every part belongs to a tracked (account, asset) -/
def Good (c : Cx) (f : Fund) : Prop := NonNeg f.parts ∧ AcctsIn (fun x => c.K x f.asset) f.parts

/-- the amount of account `x`, asset `A` carried by the funding `f` -/
def flOf (f : Fund) (x : Acct) (A : Asset) : Int := if f.asset = A then amtOf f.parts x else 0

theorem flOf_nonneg {f : Fund} (h : NonNeg f.parts) (x : Acct) (A : Asset) : 0 ≤ flOf f x A := by
  unfold flOf; split
  · exact amtOf_nonneg x h
  · omega

theorem flOf_nil (a : Asset) (x : Acct) (A : Asset) : flOf ⟨a, []⟩ x A = 0 := by simp [flOf]

theorem flOf_single (a : Asset) (p : Part) (x : Acct) (A : Asset) :
    flOf ⟨a, [p]⟩ x A = if p.acct = x ∧ a = A then p.amt else 0 := by
  unfold flOf
  by_cases h1 : a = A <;> by_cases h2 : p.acct = x <;> simp [h1, h2, amtOf_cons]

theorem flOf_cons (a : Asset) (p : Part) (ps : Parts) (x : Acct) (A : Asset) :
    flOf ⟨a, p :: ps⟩ x A = flOf ⟨a, [p]⟩ x A + flOf ⟨a, ps⟩ x A := by
  unfold flOf
  by_cases h1 : a = A <;> simp [h1, amtOf_cons]

theorem flOf_takeMax (a : Asset) (p : Parts) (n : Int) (x : Acct) (A : Asset) :
    flOf ⟨a, (takeMax p n).1⟩ x A + flOf ⟨a, (takeMax p n).2⟩ x A = flOf ⟨a, p⟩ x A := by
  unfold flOf
  by_cases h1 : a = A <;> simp [h1, takeMax_amtOf]

theorem flOf_take {a : Asset} {p t r : Parts} {n : Int} (h : take p n = some (t, r)) (x : Acct) (A : Asset) :
    flOf ⟨a, t⟩ x A + flOf ⟨a, r⟩ x A = flOf ⟨a, p⟩ x A := by
  unfold flOf
  by_cases h1 : a = A <;> simp [h1, take_amtOf h]

theorem flOf_reverse (a : Asset) (p : Parts) (x : Acct) (A : Asset) : flOf ⟨a, p.reverse⟩ x A = flOf ⟨a, p⟩ x A := by
  unfold flOf
  by_cases h1 : a = A <;> simp [h1, amtOf_reverse]

theorem flOf_eta (f : Fund) (x : Acct) (A : Asset) : flOf ⟨f.asset, f.parts⟩ x A = flOf f x A := rfl

theorem flOf_pair {k : Fund} {a : Asset} {rem : Parts} {r : Fund} (h : assemble [k, ⟨a, rem⟩] = .ok r)
    (x : Acct) (A : Asset) : flOf r x A = flOf k x A + flOf ⟨a, rem⟩ x A := by
  obtain ⟨h1, h2, _⟩ := assemble_pair h
  unfold flOf
  rw [h1, h2]
  by_cases h3 : a = A <;> simp [h3, assemble_pair_amtOf h]

theorem sum_map_zero {α : Type} (l : List α) (F : α → Int) (h : ∀ a ∈ l, F a = 0) : (l.map F).sum = 0 := by
  induction l with
  | nil => rfl
  | cons a l ih =>
    simp only [List.map_cons, List.sum_cons, h a List.mem_cons_self, ih (fun b hb => h b (List.mem_cons_of_mem _ hb))]
    rfl

theorem flOf_assemble {fs : List Fund} {r : Fund} (h : assemble fs = .ok r) (x : Acct) (A : Asset) :
    flOf r x A = (fs.map (fun f => flOf f x A)).sum := by
  obtain ⟨_, hall, _⟩ := assemble_ok h
  have ha := assemble_amtOf h x
  unfold flOf
  by_cases h3 : r.asset = A
  · simp only [h3, if_true, ha]
    congr 1
    apply List.map_congr_left
    intro f hf
    simp [hall f hf, h3]
  · simp only [h3, if_false]
    have : ∀ f ∈ fs, (if f.asset = A then amtOf f.parts x else 0) = 0 := by
      intro f hf; simp [hall f hf, h3]
    exact (sum_map_zero fs _ this).symm

theorem Good.takeMax {c : Cx} {a : Asset} {p : Parts} (h : Good c ⟨a, p⟩) (n : Int) :
    Good c ⟨a, (takeMax p n).1⟩ ∧ Good c ⟨a, (takeMax p n).2⟩ :=
  ⟨⟨(takeMax_nonneg p n h.1).1, (takeMax_acctsIn p n h.2).1⟩, ⟨(takeMax_nonneg p n h.1).2, (takeMax_acctsIn p n h.2).2⟩⟩

theorem Good.take {c : Cx} {a : Asset} {p t r : Parts} {n : Int} (h : Good c ⟨a, p⟩) (ht : take p n = some (t, r)) :
    Good c ⟨a, t⟩ ∧ Good c ⟨a, r⟩ :=
  ⟨⟨(take_nonneg h.1 ht).1, (take_acctsIn h.2 ht).1⟩, ⟨(take_nonneg h.1 ht).2, (take_acctsIn h.2 ht).2⟩⟩

theorem Good.reverse {c : Cx} {a : Asset} {p : Parts} (h : Good c ⟨a, p⟩) : Good c ⟨a, p.reverse⟩ :=
  ⟨h.1.reverse, h.2.reverse⟩

theorem Good.eta {c : Cx} {f : Fund} (h : Good c f) : Good c ⟨f.asset, f.parts⟩ := h

theorem Good.pair {c : Cx} {k : Fund} {a : Asset} {rem : Parts} {r : Fund} (h : assemble [k, ⟨a, rem⟩] = .ok r)
    (hk : Good c k) (hr : Good c ⟨a, rem⟩) : Good c r := by
  obtain ⟨h1, h2, h3⟩ := assemble_pair h
  refine ⟨assemble_pair_nonneg h hk.1 hr.1, ?_⟩
  rw [h3, h1]
  exact concat_acctsIn (by have := hk.2; rw [h2] at this; exact this) hr.2

theorem Good.assemble {c : Cx} {fs : List Fund} {r : Fund} (h : assemble fs = .ok r) (hf : ∀ f ∈ fs, Good c f) :
    Good c r := by
  obtain ⟨_, hall, hp⟩ := assemble_ok h
  refine ⟨assemble_nonneg h (fun f hf' => (hf f hf').1), ?_⟩
  rw [hp]
  exact catAll_acctsIn (AcctsIn.nil _) (fun f hf' => by have := (hf f hf').2; rw [hall f hf'] at this; exact this)

/-! ### the invariant on tracked balances -/

/-- the invariant at one (account, asset), with `v` the amount of it in flight -/
def PInv (c : Cx) (R : Acct → Asset → Int) (b : Bal) (x : Acct) (A : Asset) (v : Int) : Prop :=
  x ≠ "world" → ∀ gv, c.g x A = some gv → ∀ t, b.get x A = some t →
    0 ≤ c.saved x A ∧ R x A = t + c.saved x A + v ∧ (-gv ≤ t + c.saved x A ∨ v ≤ 0)

/-- the invariant on the tracked balances `b` against the real balances `R`, `fl` in flight -/
def BInv (c : Cx) (R : Acct → Asset → Int) (b : Bal) (fl : Acct → Asset → Int) : Prop :=
  (∀ x A, (b.get x A).isSome ↔ c.K x A) ∧ ∀ x A, PInv c R b x A (fl x A)

theorem BInv.congr {c : Cx} {R : Acct → Asset → Int} {b : Bal} {fl fl' : Acct → Asset → Int}
    (h : ∀ x A, fl x A = fl' x A) (hi : BInv c R b fl) : BInv c R b fl' :=
  ⟨hi.1, fun x A => h x A ▸ hi.2 x A⟩

theorem upd_get (b : Bal) (a : Acct) (s : Asset) (v : Int) (x : Acct) (A : Asset) :
    (b.upd a s v).get x A = if x = a ∧ A = s then some v else b.get x A := rfl

theorem BInv.tracked {c : Cx} {R : Acct → Asset → Int} {b : Bal} {fl : Acct → Asset → Int} (hi : BInv c R b fl)
    {x : Acct} {A : Asset} (hK : c.K x A) : ∃ t, b.get x A = some t :=
  Option.isSome_iff_exists.mp ((hi.1 x A).mpr hK)

/-- the domain of the tracked balances is unchanged by an update of an existing entry -/
theorem dom_upd {c : Cx} {b : Bal} (hd : ∀ x A, (b.get x A).isSome ↔ c.K x A) {a : Acct} {s : Asset} (hK : c.K a s)
    (v : Int) : ∀ x A, ((b.upd a s v).get x A).isSome ↔ c.K x A := by
  intro x A
  rw [upd_get]
  by_cases hx : x = a ∧ A = s
  · obtain ⟨rfl, rfl⟩ := hx; simp [hK]
  · simp only [hx, if_false]; exact hd x A

/-- `withdrawAll` with an overdraft within the bound: the part it yields is added to what is in flight; whenever
it takes something, the tracked balance is left at `-overdraft ≥ -bound` -/
theorem withdrawAll_binv {c : Cx} {R : Acct → Asset → Int} {b b' : Bal} {a : Acct} {s : Asset} {o : Int} {p : Part}
    {fl : Acct → Asset → Int} (h : withdrawAll b a s o = .ok (p, b'))
    (hg : a ≠ "world" → ∀ gv, c.g a s = some gv → o ≤ gv) (hi : BInv c R b fl) :
    BInv c R b' (fun x A => fl x A + flOf ⟨s, [p]⟩ x A) ∧ Good c ⟨s, [p]⟩ := by
  obtain ⟨t, hb, h1 | h1⟩ := withdrawAll_inv h
  · obtain ⟨hpos, rfl, rfl⟩ := h1
    have hK : c.K a s := (hi.1 a s).mp (by rw [hb]; rfl)
    refine ⟨⟨dom_upd hi.1 hK _, ?_⟩, ⟨nonNeg_single (by simp; omega), AcctsIn.cons hK (AcctsIn.nil _)⟩⟩
    intro x A hxw gv hgv t' ht'
    dsimp only
    rw [flOf_single]
    rw [upd_get] at ht'
    by_cases hx : x = a ∧ A = s
    · obtain ⟨rfl, rfl⟩ := hx
      simp only [and_self, if_true, Option.some.injEq] at ht'
      subst ht'
      obtain ⟨hs, he, hd⟩ := hi.2 x A hxw gv hgv t hb
      have := hg hxw gv hgv
      simp only [and_self, if_true]
      exact ⟨hs, by omega, Or.inl (by omega)⟩
    · simp only [hx, if_false] at ht'
      have hx' : ¬ (a = x ∧ s = A) := fun e => hx ⟨e.1.symm, e.2.symm⟩
      simp only [hx', if_false]
      obtain ⟨hs, he, hd⟩ := hi.2 x A hxw gv hgv t' ht'
      exact ⟨hs, by omega, by omega⟩
  · obtain ⟨_, rfl, rfl⟩ := h1
    have hK : c.K a s := (hi.1 a s).mp (by rw [hb]; rfl)
    refine ⟨⟨hi.1, ?_⟩, ⟨nonNeg_single (by simp), AcctsIn.cons hK (AcctsIn.nil _)⟩⟩
    intro x A hxw gv hgv t' ht'
    dsimp only
    rw [flOf_single]
    obtain ⟨hs, he, hd⟩ := hi.2 x A hxw gv hgv t' ht'
    dsimp only
    refine ⟨hs, ?_, ?_⟩ <;> split <;> omega

/-- `withdrawAlways` is harmless on an account that is `world` or unbounded -/
theorem withdrawAlways_binv {c : Cx} {R : Acct → Asset → Int} {b b' : Bal} {w : Acct} {s : Asset} {n : Int} {p : Part}
    {fl : Acct → Asset → Int} (h : withdrawAlways b w s n = .ok (p, b'))
    (hu : w = "world" ∨ c.g w s = none) (hn : 0 ≤ n) (hi : BInv c R b fl) :
    BInv c R b' (fun x A => fl x A + flOf ⟨s, [p]⟩ x A) ∧ Good c ⟨s, [p]⟩ := by
  obtain ⟨t, hb, rfl, rfl⟩ := withdrawAlways_inv h
  have hK : c.K w s := (hi.1 w s).mp (by rw [hb]; rfl)
  refine ⟨⟨dom_upd hi.1 hK _, ?_⟩, ⟨nonNeg_single hn, AcctsIn.cons hK (AcctsIn.nil _)⟩⟩
  intro x A hxw gv hgv t' ht'
  dsimp only
  rw [flOf_single]
  rw [upd_get] at ht'
  by_cases hx : x = w ∧ A = s
  · obtain ⟨rfl, rfl⟩ := hx
    rcases hu with hu | hu
    · exact absurd hu hxw
    · rw [hu] at hgv; cases hgv
  · simp only [hx, if_false] at ht'
    have hx' : ¬ (w = x ∧ s = A) := fun e => hx ⟨e.1.symm, e.2.symm⟩
    simp only [hx', if_false]
    obtain ⟨hs, he, hd⟩ := hi.2 x A hxw gv hgv t' ht'
    exact ⟨hs, by omega, by omega⟩

/-- giving one part back -/
theorem repay1_binv {c : Cx} {R : Acct → Asset → Int} {b : Bal} {s : Asset} {p : Part} {fl : Acct → Asset → Int}
    (hp : 0 ≤ p.amt) (hK : c.K p.acct s) (hi : BInv c R b fl) :
    BInv c R (b.upd p.acct s ((b.get p.acct s).getD 0 + p.amt)) (fun x A => fl x A - flOf ⟨s, [p]⟩ x A) := by
  refine ⟨dom_upd hi.1 hK _, ?_⟩
  intro x A hxw gv hgv t' ht'
  dsimp only
  rw [flOf_single]
  rw [upd_get] at ht'
  by_cases hx : x = p.acct ∧ A = s
  · obtain ⟨rfl, rfl⟩ := hx
    obtain ⟨t, hb⟩ := hi.tracked hK
    simp only [and_self, if_true, Option.some.injEq, hb, Option.getD_some] at ht'
    subst ht'
    obtain ⟨hs, he, hd⟩ := hi.2 _ _ hxw gv hgv t hb
    simp only [and_self, if_true]
    exact ⟨hs, by omega, by omega⟩
  · simp only [hx, if_false] at ht'
    have hx' : ¬ (p.acct = x ∧ s = A) := fun e => hx ⟨e.1.symm, e.2.symm⟩
    simp only [hx', if_false]
    obtain ⟨hs, he, hd⟩ := hi.2 x A hxw gv hgv t' ht'
    exact ⟨hs, by omega, by omega⟩

/-- `repay`: what is handed back leaves the flight and returns to the tracked balance (parts of `world` are
dropped; `world` is outside the invariant) -/
theorem repay_binv {c : Cx} {R : Acct → Asset → Int} {s : Asset} : (r : Parts) → (b : Bal) → (fl : Acct → Asset → Int) →
    Good c ⟨s, r⟩ → BInv c R b fl → BInv c R (repay b s r) (fun x A => fl x A - flOf ⟨s, r⟩ x A)
  | [], b, fl, _, hi => by
    simp only [repay]
    exact hi.congr (fun x A => by rw [flOf_nil]; omega)
  | p :: ps, b, fl, hg, hi => by
    have hg' : Good c ⟨s, ps⟩ := ⟨hg.1.tail, hg.2.tail⟩
    unfold repay
    by_cases hw : p.acct = "world"
    · simp only [hw, if_true]
      have := repay_binv ps b fl hg' hi
      refine ⟨this.1, ?_⟩
      intro x A hxw
      have hne : ¬ (p.acct = x ∧ s = A) := fun e => hxw (e.1 ▸ hw)
      have h0 : flOf ⟨s, [p]⟩ x A = 0 := by rw [flOf_single]; simp only [hne, if_false]
      have := this.2 x A hxw
      dsimp only at this ⊢
      rw [flOf_cons, h0]
      simpa using this
    · simp only [hw, if_false]
      have h1 := repay1_binv (s := s) (fl := fl) hg.1.head hg.2.head hi
      have h2 := repay_binv ps _ _ hg' h1
      exact h2.congr (fun x A => by rw [flOf_cons s p ps]; omega)

/-! ### `credit` and `emit` -/

theorem Bal.ext' {b b' : Bal} (h : ∀ x A, b.get x A = b'.get x A) : b = b' := by
  cases b with | mk g => cases b' with | mk g' =>
  have : g = g' := funext (fun x => funext (fun A => h x A))
  rw [this]

theorem dom_credit {c : Cx} {b : Bal} (hd : ∀ x A, (b.get x A).isSome ↔ c.K x A) (d : Acct) (A : Asset) (f : Parts) :
    ∀ x A', ((credit b d A f).get x A').isSome ↔ c.K x A' := by
  unfold credit
  by_cases hw : d = "world"
  · simp only [hw, if_true]; exact hd
  · simp only [hw, if_false]
    cases hg : b.get d A with
    | none => exact hd
    | some t => exact dom_upd hd ((hd d A).mp (by rw [hg]; rfl)) _

/-- a tracked entry of an account other than `world` after a credit -/
theorem credit_get_tracked (b : Bal) (d : Acct) (A : Asset) (f : Parts) {x : Acct} {A' : Asset} (hxw : x ≠ "world")
    {t : Int} (hb : b.get x A' = some t) :
    (credit b d A f).get x A' = some (t + (if d = x ∧ A = A' then total f else 0)) := by
  unfold credit
  by_cases hw : d = "world"
  · have hne : ¬ (d = x ∧ A = A') := fun e => hxw (e.1 ▸ hw)
    rw [if_pos hw, if_neg hne, hb]; simp
  · simp only [hw, if_false]
    cases hg : b.get d A with
    | none =>
      have hne : ¬ (d = x ∧ A = A') := by
        intro e; obtain ⟨rfl, rfl⟩ := e; rw [hg] at hb; cases hb
      simp only [hne, if_false, hb]; simp
    | some t0 =>
      simp only [upd_get]
      by_cases hx : x = d ∧ A' = A
      · obtain ⟨rfl, rfl⟩ := hx
        rw [hg] at hb; cases hb
        simp
      · have hne : ¬ (d = x ∧ A = A') := fun e => hx ⟨e.1.symm, e.2.symm⟩
        simp only [hx, hne, if_false, hb]; simp

theorem credit_cons (b : Bal) (d : Acct) (A : Asset) (p : Part) (ps : Parts) :
    credit (credit b d A [p]) d A ps = credit b d A (p :: ps) := by
  unfold credit
  by_cases hw : d = "world"
  · simp only [hw, if_true]
  · simp only [hw, if_false]
    cases hg : b.get d A with
    | none => simp only [hg]
    | some t =>
      simp only [upd_get, and_self, if_true]
      apply Bal.ext'
      intro x A'
      simp only [upd_get]
      by_cases hx : x = d ∧ A' = A
      · simp only [hx, and_self, if_true, total_cons, total_nil]
        congr 1; omega
      · simp only [hx, if_false]

/-- the posting `OP_SEND` writes for one part -/
def post (d : Acct) (A : Asset) (p : Part) : Posting := ⟨p.acct, d, p.amt, A⟩

theorem emit_cons (d : Acct) (A : Asset) (p : Part) (ps : Parts) (st : St) :
    emit d ⟨A, p :: ps⟩ st = emit d ⟨A, ps⟩ ⟨credit st.bal d A [p], st.postings ++ [post d A p]⟩ := by
  simp only [emit, credit_cons, List.map_cons, List.append_assoc, List.singleton_append, post]

theorem emit_nil (d : Acct) (A : Asset) (st : St) (hd : True) : (emit d ⟨A, []⟩ st).postings = st.postings := by
  simp [emit]

/-- the invariant of the interpreter state during destinations: the postings emitted so far respect the floor,
and the tracked balances are consistent with the real balances they induce -/
def DInv (c : Cx) (bal0 : Acct → Asset → Int) (st : St) (fl : Acct → Asset → Int) : Prop :=
  FloorOK c.g bal0 st.postings ∧ BInv c (realBal bal0 st.postings) st.bal fl

theorem DInv.congr {c : Cx} {bal0 : Acct → Asset → Int} {st : St} {fl fl' : Acct → Asset → Int}
    (h : ∀ x A, fl x A = fl' x A) (hi : DInv c bal0 st fl) : DInv c bal0 st fl' := ⟨hi.1, hi.2.congr h⟩

/-- **`emit_floor`** for one part: the posting respects the floor of its source because that much of the
account is in flight and everything else in flight is non-negative; afterwards the part has left the flight -/
theorem emit1_dinv {c : Cx} {bal0 : Acct → Asset → Int} {st : St} {fl : Acct → Asset → Int} {d : Acct} {A : Asset}
    {p : Part} (hi : DInv c bal0 st fl) (hp : 0 ≤ p.amt) (hK : c.K p.acct A)
    (hrest : ∀ x A', flOf ⟨A, [p]⟩ x A' ≤ fl x A') :
    DInv c bal0 ⟨credit st.bal d A [p], st.postings ++ [post d A p]⟩ (fun x A' => fl x A' - flOf ⟨A, [p]⟩ x A') := by
  obtain ⟨hf, hb⟩ := hi
  refine ⟨?_, dom_credit hb.1 d A [p], ?_⟩
  · show FloorOK c.g bal0 (st.postings ++ [post d A p])
    rw [FloorOK_append]
    refine ⟨hf, ?_, trivial⟩
    intro hxw gv hgv
    simp only [post] at hxw hgv ⊢
    obtain ⟨t, ht⟩ := hb.tracked hK
    obtain ⟨_, he, hd⟩ := hb.2 p.acct A hxw gv hgv t ht
    have h1 := hrest p.acct A
    rw [flOf_single] at h1
    simp only [and_self, if_true] at h1
    omega
  · intro x A' hxw gv hgv t' ht'
    show _ ∧ realBal bal0 (st.postings ++ [post d A p]) x A' = _ ∧ _
    dsimp only at ht' ⊢
    obtain ⟨t, ht⟩ := hb.tracked ((dom_credit hb.1 d A [p] x A').mp (by rw [ht']; rfl))
    rw [credit_get_tracked st.bal d A [p] hxw ht] at ht'
    simp only [Option.some.injEq, total_cons, total_nil, Int.add_zero] at ht'
    obtain ⟨hs, he, hd⟩ := hb.2 x A' hxw gv hgv t ht
    rw [realBal_append, flOf_single]
    simp only [realBal, applyPosting, post]
    by_cases h1 : d = x ∧ A = A' <;> by_cases h2 : p.acct = x ∧ A = A' <;>
      simp only [h1, h2, if_true, if_false] at ht' ⊢ <;> exact ⟨hs, by omega, by omega⟩

/-- **`emit_floor`**: `OP_SEND` of a whole funding -/
theorem emit_dinv {c : Cx} {bal0 : Acct → Asset → Int} {d : Acct} {A : Asset} : (ps : Parts) → (st : St) →
    (fl : Acct → Asset → Int) → DInv c bal0 st fl → Good c ⟨A, ps⟩ → (∀ x A', flOf ⟨A, ps⟩ x A' ≤ fl x A') →
    DInv c bal0 (emit d ⟨A, ps⟩ st) (fun x A' => fl x A' - flOf ⟨A, ps⟩ x A')
  | [], st, fl, hi, _, _ => by
    have : emit d ⟨A, []⟩ st = ⟨credit st.bal d A [], st.postings⟩ := by simp [emit]
    rw [this]
    refine ⟨hi.1, dom_credit hi.2.1 d A [], ?_⟩
    intro x A' hxw gv hgv t' ht'
    dsimp only at ht' ⊢
    obtain ⟨t, ht⟩ := hi.2.tracked ((dom_credit hi.2.1 d A [] x A').mp (by rw [ht']; rfl))
    rw [credit_get_tracked st.bal d A [] hxw ht] at ht'
    simp only [total_nil, ite_self, Int.add_zero, Option.some.injEq] at ht'
    subst ht'
    rw [flOf_nil]
    have := hi.2.2 x A' hxw gv hgv t ht
    simpa using this
  | p :: ps, st, fl, hi, hg, hrest => by
    have hg' : Good c ⟨A, ps⟩ := ⟨hg.1.tail, hg.2.tail⟩
    have hnn : ∀ x A', 0 ≤ flOf ⟨A, ps⟩ x A' := fun x A' => flOf_nonneg (f := ⟨A, ps⟩) hg'.1 x A'
    have hnn1 : ∀ x A', 0 ≤ flOf ⟨A, [p]⟩ x A' :=
      fun x A' => flOf_nonneg (f := ⟨A, [p]⟩) (nonNeg_single hg.1.head) x A'
    have h1 := emit1_dinv (d := d) (A := A) hi hg.1.head hg.2.head (fun x A' => by
      have := hrest x A'; rw [flOf_cons] at this; have := hnn x A'; omega)
    have h2 := emit_dinv (d := d) ps _ _ h1 hg' (fun x A' => by
      have := hrest x A'; rw [flOf_cons] at this; omega)
    rw [emit_cons]
    exact h2.congr (fun x A' => by rw [flOf_cons A p ps]; omega)

/-! ### occurrences of accounts as sources, and the overdraft each occurrence is evaluated with -/

/-- one occurrence of an account in source position: the asset it is withdrawn in and the overdraft it is
withdrawn with (`none` = the literal `@world` or `allowing unbounded overdraft`) -/
structure Occ where
  acct : Acct
  asset : Asset
  od : Option Int

mutual
def sourceOcc (env : VEnv) (asset : Asset) : Source → List Occ
  | .acct e od =>
    match evalAcct env e with
    | .error _ => []
    | .ok a =>
      match odVal env asset od with
      | .error _ => []
      | .ok (oa, o, unb) => [⟨a, oa, if isWorldLit e || unb then none else some o⟩]
  | .maxed _ s => sourceOcc env asset s
  | .inorder ss => sourcesOcc env asset ss
def sourcesOcc (env : VEnv) (asset : Asset) : SourceList → List Occ
  | .nil => []
  | .cons s rest => sourceOcc env asset s ++ sourcesOcc env asset rest
end

/-- the bound `g` covers the occurrence: unbounded occurrences make the account unbounded, a bounded
occurrence's overdraft is within the bound -/
def OccOK (g : Acct → Asset → Option Int) (o : Occ) : Prop :=
  match o.od with
  | none => g o.acct o.asset = none
  | some v => ∀ gv, g o.acct o.asset = some gv → v ≤ gv

mutual
/-- **sources**: what a source provides is added to the flight, every part of it is non-negative and tracked,
and a fallback account (`withdrawAlways` target) is always an unbounded one -/
theorem evalSource_binv (c : Cx) (R : Acct → Asset → Int) (env : VEnv) (asset : Asset) :
    (s : Source) → (b b' : Bal) → (f : Fund) → (fb : Option Acct) → (fl : Acct → Asset → Int) →
    evalSource env asset s b = .ok (f, fb, b') → (∀ o ∈ sourceOcc env asset s, OccOK c.g o) → BInv c R b fl →
    BInv c R b' (fun x A => fl x A + flOf f x A) ∧ Good c f ∧ (∀ w, fb = some w → c.g w f.asset = none)
  | .acct e od, b, b', f, fb, fl, h, hocc, hi => by
    obtain ⟨a, oa, o, unb, p, ha, hv, hw, rfl, rfl⟩ := evalSource_acct_inv h
    have hocc' := hocc ⟨a, oa, if isWorldLit e || unb then none else some o⟩ (by simp [sourceOcc, ha, hv])
    by_cases hu : (isWorldLit e || unb) = true
    · simp only [hu, if_true, OccOK] at hocc' ⊢
      have := withdrawAll_binv (c := c) (R := R) (fl := fl) hw
        (fun _ gv hgv => by rw [hocc'] at hgv; cases hgv) hi
      refine ⟨this.1, this.2, ?_⟩
      intro w hw'; cases hw'; exact hocc'
    · simp only [hu, OccOK] at hocc' ⊢
      have := withdrawAll_binv (c := c) (R := R) (fl := fl) hw (fun _ gv hgv => hocc' gv hgv) hi
      refine ⟨this.1, this.2, ?_⟩
      intro w hw'; simp at hw'
  | .maxed cap s, b, b', f, fb, fl, h, hocc, hi => by
    obtain ⟨f0, fb0, b1, ma, mn, hs, _, hmn, ha, rfl, hc⟩ := evalSource_maxed_inv h
    obtain ⟨h1, hg0, hfb0⟩ := evalSource_binv c R env asset s b b1 f0 fb0 fl hs
      (fun o ho => hocc o (by simpa [sourceOcc] using ho)) hi
    have hsplit := fun x A => flOf_takeMax f0.asset f0.parts mn x A
    have hgs := Good.takeMax hg0.eta mn
    have h2 := repay_binv (takeMax f0.parts mn).2 b1 _ hgs.2 h1
    rcases hc with ⟨_, rfl, rfl⟩ | ⟨w, p, hfb, hw, hasm⟩
    · refine ⟨h2.congr (fun x A => ?_), hgs.1, fun w hw' => by cases hw'⟩
      have := hsplit x A; rw [flOf_eta] at this; omega
    · have hgw : c.g w ma = none := by rw [← ha]; exact hfb0 w hfb
      obtain ⟨h3, hgp⟩ := withdrawAlways_binv hw (Or.inr hgw) (missingOf_nonneg mn f0.parts) h2
      refine ⟨h3.congr (fun x A => ?_), Good.pair hasm hgs.1 hgp, fun w hw' => by cases hw'⟩
      have := hsplit x A; rw [flOf_eta] at this
      rw [flOf_pair hasm]; omega
  | .inorder ss, b, b', f, fb, fl, h, hocc, hi => by
    obtain ⟨fs, hs, hasm⟩ := evalSource_inorder_inv h
    obtain ⟨h1, hg, hfb⟩ := evalSources_binv c R env asset ss b b' fs fb fl hs
      (fun o ho => hocc o (by simpa [sourceOcc] using ho)) hi
    refine ⟨h1.congr (fun x A => by rw [flOf_assemble hasm]), Good.assemble hasm hg, ?_⟩
    intro w hw
    obtain ⟨⟨l, hl, hla⟩, _, _⟩ := assemble_ok hasm
    rw [hla]; exact hfb w hw l hl
theorem evalSources_binv (c : Cx) (R : Acct → Asset → Int) (env : VEnv) (asset : Asset) :
    (ss : SourceList) → (b b' : Bal) → (fs : List Fund) → (fb : Option Acct) → (fl : Acct → Asset → Int) →
    evalSources env asset ss b = .ok (fs, fb, b') → (∀ o ∈ sourcesOcc env asset ss, OccOK c.g o) → BInv c R b fl →
    BInv c R b' (fun x A => fl x A + (fs.map (fun f => flOf f x A)).sum) ∧ (∀ f ∈ fs, Good c f) ∧
      (∀ w, fb = some w → ∀ l, fs.getLast? = some l → c.g w l.asset = none)
  | .nil, b, b', fs, fb, fl, h, _, hi => by
    obtain ⟨rfl, rfl, rfl⟩ := evalSources_nil_inv h
    refine ⟨hi.congr (fun x A => by simp), fun f hf => by simp at hf, fun w hw => by cases hw⟩
  | .cons s rest, b, b', fs, fb, fl, h, hocc, hi => by
    obtain ⟨f, fb1, b1, fs', fb2, hs, hr, rfl, rfl⟩ := evalSources_cons_inv h
    obtain ⟨h1, hg1, hfb1⟩ := evalSource_binv c R env asset s b b1 f fb1 fl hs
      (fun o ho => hocc o (by simp only [sourcesOcc, List.mem_append]; exact Or.inl ho)) hi
    obtain ⟨h2, hg2, hfb2⟩ := evalSources_binv c R env asset rest b1 b' fs' fb2 _ hr
      (fun o ho => hocc o (by simp only [sourcesOcc, List.mem_append]; exact Or.inr ho)) h1
    refine ⟨h2.congr (fun x A => by simp only [List.map_cons, List.sum_cons]; omega), ?_, ?_⟩
    · intro g hg
      rcases List.mem_cons.mp hg with rfl | hg
      · exact hg1
      · exact hg2 g hg
    · intro w hw l hl
      cases rest with
      | nil =>
        obtain ⟨rfl, _, _⟩ := evalSources_nil_inv hr
        simp only [List.getLast?_singleton, Option.some.injEq] at hl
        subst hl
        exact hfb1 w hw
      | cons s2 rest2 =>
        obtain ⟨f2, _, _, fs2, _, _, _, rfl, _⟩ := evalSources_cons_inv hr
        rw [List.getLast?_cons_cons] at hl
        exact hfb2 w hw l hl
end

/-- `TakeFromSource`: the source funding leaves the flight, the funding taken enters it (what is not needed is
repaid; what is missing comes from the unbounded fallback account) -/
theorem takeFromSource_binv {c : Cx} {R : Acct → Asset → Int} {fb : Option Acct} {f t : Fund} {ma : Asset} {mn : Int}
    {b b' : Bal} {fl : Acct → Asset → Int} (h : takeFromSource fb f ma mn b = .ok (t, b')) (hg : Good c f)
    (hfb : ∀ w, fb = some w → c.g w f.asset = none) (hi : BInv c R b fl) :
    BInv c R b' (fun x A => fl x A - flOf f x A + flOf t x A) ∧ Good c t ∧ t.asset = ma := by
  cases fb with
  | none =>
    obtain ⟨taken, rest, ha, ht, rfl, rfl⟩ := takeFromSource_none_inv h
    have hgs := hg.eta.take ht
    have h2 := repay_binv rest b _ hgs.2 hi
    refine ⟨h2.congr (fun x A => ?_), hgs.1, ha⟩
    have := flOf_take (a := f.asset) ht x A; rw [flOf_eta] at this; omega
  | some w =>
    obtain ⟨p, hmn, ha, hw, hasm⟩ := takeFromSource_some_inv h
    have hsplit := fun x A => flOf_takeMax f.asset f.parts mn x A
    have hgs := Good.takeMax hg.eta mn
    have h2 := repay_binv (takeMax f.parts mn).2 b _ hgs.2 hi
    have hgw : c.g w ma = none := by rw [← ha]; exact hfb w rfl
    obtain ⟨h3, hgp⟩ := withdrawAlways_binv hw (Or.inr hgw) (missingOf_nonneg mn f.parts) h2
    refine ⟨h3.congr (fun x A => ?_), Good.pair hasm hgs.1 hgp, (assemble_pair hasm).1⟩
    have := hsplit x A; rw [flOf_eta] at this
    rw [flOf_pair hasm]; omega

/-! ### destinations -/

/-- what a destination does to the invariant: the funding `f` it receives leaves the flight, what it hands back
(`r`) enters it — whatever else is in flight (`fl` counts everything, `f` included) -/
def DestInv (c : Cx) (bal0 : Acct → Asset → Int) (f r : Fund) (st st' : St) : Prop :=
  ∀ fl : Acct → Asset → Int, DInv c bal0 st fl → (∀ x A, flOf f x A ≤ fl x A) →
    DInv c bal0 st' (fun x A => fl x A - flOf f x A + flOf r x A)

theorem DestInv.refl (c : Cx) (bal0 : Acct → Asset → Int) (f : Fund) (st : St) : DestInv c bal0 f f st st :=
  fun _ hi _ => hi.congr (fun x A => by omega)

theorem DestInv.trans {c : Cx} {bal0 : Acct → Asset → Int} {f m r : Fund} {st st1 st2 : St}
    (h1 : DestInv c bal0 f m st st1) (h2 : DestInv c bal0 m r st1 st2) : DestInv c bal0 f r st st2 := by
  intro fl hi hle
  have a1 := h1 fl hi hle
  have a2 := h2 _ a1 (fun x A => by have := hle x A; omega)
  exact a2.congr (fun x A => by omega)

/-- a piece `f1` of `f` goes through a sub-destination which hands back `k`; `k` is put back in front of the
remainder `rem` -/
theorem DestInv.pair {c : Cx} {bal0 : Acct → Asset → Int} {f f1 k m : Fund} {a : Asset} {rem : Parts} {st st1 : St}
    (h1 : DestInv c bal0 f1 k st st1) (hasm : assemble [k, ⟨a, rem⟩] = .ok m)
    (hsplit : ∀ x A, flOf f x A = flOf f1 x A + flOf ⟨a, rem⟩ x A) (hrem : ∀ x A, 0 ≤ flOf ⟨a, rem⟩ x A) :
    DestInv c bal0 f m st st1 := by
  intro fl hi hle
  have a1 := h1 fl hi (fun x A => by have := hle x A; have := hsplit x A; have := hrem x A; omega)
  exact a1.congr (fun x A => by rw [flOf_pair hasm, hsplit]; omega)

mutual
/-- **destinations** preserve the invariant; every posting they emit respects the floor (it is part of `DInv`) -/
theorem evalDest_dinv (c : Cx) (bal0 : Acct → Asset → Int) (env : VEnv) : (d : Dest) → (f r : Fund) → (st st' : St) →
    evalDest env d f st = .ok (r, st') → Good c f → DestInv c bal0 f r st st' ∧ Good c r ∧ r.asset = f.asset
  | .acct e, f, r, st, st', h, hg => by
    obtain ⟨taken, rest, a, ht, _, rfl, rfl⟩ := evalDest_acct_inv h
    have hgs := hg.eta.take ht
    have hsplit := fun x A => flOf_take (a := f.asset) ht x A
    refine ⟨?_, hgs.2, rfl⟩
    intro fl hi hle
    have hr := fun x A => flOf_nonneg (f := ⟨f.asset, rest⟩) hgs.2.1 x A
    have := emit_dinv (d := a) taken st fl hi hgs.1 (fun x A => by
      have := hle x A; have := hsplit x A; have := hr x A; rw [flOf_eta] at *; omega)
    exact this.congr (fun x A => by have := hsplit x A; rw [flOf_eta] at this; omega)
  | .inorder caps rest, f, r, st, st', h, hg => by
    obtain ⟨kt, cur, st1, tk, rest2, r0, hc, ht, hk, hasm⟩ := evalDest_inorder_inv h
    obtain ⟨h1, hgcur, hca⟩ := evalCaps_dinv c bal0 env caps 0 kt f cur st st1 hc hg
    have hgcur' : Good c ⟨f.asset, cur.parts⟩ := by have := hgcur.eta; rw [hca] at this; exact this
    have hgs := hgcur'.reverse.take ht
    obtain ⟨hk1, hgr0, hr0a⟩ := evalKD_dinv c bal0 env rest ⟨f.asset, rest2.reverse⟩ r0 st1 st' hk hgs.2.reverse
    have hsplit : ∀ x A, flOf cur x A = flOf ⟨f.asset, rest2.reverse⟩ x A + flOf ⟨f.asset, tk.reverse⟩ x A := by
      intro x A
      have e1 := flOf_take (a := f.asset) ht x A
      rw [flOf_reverse] at e1
      rw [flOf_reverse, flOf_reverse, ← flOf_eta cur, hca]; omega
    have h4 : DestInv c bal0 cur r st1 st' :=
      DestInv.pair hk1 hasm hsplit (fun x A => flOf_nonneg (f := ⟨f.asset, tk.reverse⟩) hgs.1.reverse.1 x A)
    exact ⟨h1.trans h4, Good.pair hasm hgr0 hgs.1.reverse, (assemble_pair hasm).1⟩
  | .allot items, f, r, st, st', h, hg => by
    obtain ⟨ps, _, ha⟩ := evalDest_allot_inv h
    exact evalAllot_dinv c bal0 env items _ f r st st' ha hg
theorem evalKD_dinv (c : Cx) (bal0 : Acct → Asset → Int) (env : VEnv) : (kd : KeptOrDest) → (f r : Fund) →
    (st st' : St) → evalKD env kd f st = .ok (r, st') → Good c f →
    DestInv c bal0 f r st st' ∧ Good c r ∧ r.asset = f.asset
  | .kept, f, r, st, st', h, hg => by
    rw [evalKD_kept] at h
    simp only [Except.ok.injEq, Prod.mk.injEq] at h
    obtain ⟨rfl, rfl⟩ := h
    exact ⟨DestInv.refl c bal0 _ _, hg, rfl⟩
  | .to d, f, r, st, st', h, hg => by
    rw [evalKD_to] at h
    exact evalDest_dinv c bal0 env d f r st st' h hg
theorem evalCaps_dinv (c : Cx) (bal0 : Acct → Asset → Int) (env : VEnv) : (cs : CapList) → (kt kt' : Int) →
    (cur cur' : Fund) → (st st' : St) → evalCaps env cs kt cur st = .ok (kt', cur', st') → Good c cur →
    DestInv c bal0 cur cur' st st' ∧ Good c cur' ∧ cur'.asset = cur.asset
  | .nil, kt, kt', cur, cur', st, st', h, hg => by
    obtain ⟨_, rfl, rfl⟩ := evalCaps_nil_inv h
    exact ⟨DestInv.refl c bal0 _ _, hg, rfl⟩
  | .cons cap kd rest, kt, kt', cur, cur', st, st', h, hg => by
    obtain ⟨ma, mn, k, st1, m, _, hmn, _, hk, _, hasm, hr⟩ := evalCaps_cons_inv h
    have hgs := Good.takeMax hg.eta mn
    obtain ⟨hk1, hgk, _⟩ := evalKD_dinv c bal0 env kd ⟨cur.asset, (takeMax cur.parts mn).1⟩ k st st1 hk hgs.1
    have h1 : DestInv c bal0 cur m st st1 :=
      DestInv.pair hk1 hasm (fun x A => by have := flOf_takeMax cur.asset cur.parts mn x A; rw [flOf_eta] at this; omega)
        (fun x A => flOf_nonneg (f := ⟨cur.asset, (takeMax cur.parts mn).2⟩) hgs.2.1 x A)
    have hgm : Good c m := Good.pair hasm hgk hgs.2
    obtain ⟨h2, hgc', hc'a⟩ := evalCaps_dinv c bal0 env rest _ kt' m cur' st1 st' hr hgm
    exact ⟨h1.trans h2, hgc', by rw [hc'a, (assemble_pair hasm).1]⟩
theorem evalAllot_dinv (c : Cx) (bal0 : Acct → Asset → Int) (env : VEnv) : (items : AllotList) → (parts : List Int) →
    (cur r : Fund) → (st st' : St) → evalAllot env items parts cur st = .ok (r, st') → Good c cur →
    DestInv c bal0 cur r st st' ∧ Good c r ∧ r.asset = cur.asset
  | .nil, parts, cur, r, st, st', h, hg => by
    obtain ⟨rfl, rfl⟩ := evalAllot_nil_inv h
    exact ⟨DestInv.refl c bal0 _ _, hg, rfl⟩
  | .cons ps0 kd rest, parts, cur, r, st, st', h, hg => by
    obtain ⟨p, ps, taken, rem, k, st1, m, _, ht, hk, hasm, hr⟩ := evalAllot_cons_inv h
    have hgs := hg.eta.take ht
    obtain ⟨hk1, hgk, _⟩ := evalKD_dinv c bal0 env kd ⟨cur.asset, taken⟩ k st st1 hk hgs.1
    have h1 : DestInv c bal0 cur m st st1 :=
      DestInv.pair hk1 hasm (fun x A => by have := flOf_take (a := cur.asset) ht x A; rw [flOf_eta] at this; omega)
        (fun x A => flOf_nonneg (f := ⟨cur.asset, rem⟩) hgs.2.1 x A)
    have hgm : Good c m := Good.pair hasm hgk hgs.2
    obtain ⟨h2, hgr, hra⟩ := evalAllot_dinv c bal0 env rest ps m r st1 st' hr hgm
    exact ⟨h1.trans h2, hgr, by rw [hra, (assemble_pair hasm).1]⟩
end

/-! ### sends -/

/-- the tail of every send: the destination consumes the funding, what it keeps is repaid -/
theorem finishSend_dinv {c : Cx} {bal0 : Acct → Asset → Int} {env : VEnv} {d : Dest} {f : Fund} {st st' : St}
    {fl : Acct → Asset → Int} (h : finishSend env d f st = .ok st') (hg : Good c f) (hi : DInv c bal0 st fl)
    (hle : ∀ x A, flOf f x A ≤ fl x A) : DInv c bal0 st' (fun x A => fl x A - flOf f x A) := by
  obtain ⟨rest, st1, hd, rfl⟩ := finishSend_inv h
  obtain ⟨h1, hgr, _⟩ := evalDest_dinv c bal0 env d f rest st st1 hd hg
  obtain ⟨hF, hB⟩ := h1 fl hi hle
  have h2 := repay_binv rest.parts st1.bal _ hgr.eta hB
  exact ⟨hF, h2.congr (fun x A => by have := flOf_eta rest x A; omega)⟩

/-- the sources of a source allotment: each funding taken enters the flight -/
theorem evalAllotSources_binv (c : Cx) (R : Acct → Asset → Int) (env : VEnv) (asset ma : Asset) :
    (items : List (PortionSpec × Source)) → (parts : List Int) → (b b' : Bal) → (ts : List Fund) →
    (fl : Acct → Asset → Int) → evalAllotSources env asset ma items parts b = .ok (ts, b') →
    (∀ it ∈ items, ∀ o ∈ sourceOcc env asset it.2, OccOK c.g o) → BInv c R b fl →
    BInv c R b' (fun x A => fl x A + (ts.map (fun f => flOf f x A)).sum) ∧ (∀ t ∈ ts, Good c t)
  | [], parts, b, b', ts, fl, h, _, hi => by
    obtain ⟨rfl, rfl⟩ := evalAllotSources_nil_inv h
    exact ⟨hi.congr (fun x A => by simp), fun t ht => by simp at ht⟩
  | it :: rest, parts, b, b', ts, fl, h, hocc, hi => by
    obtain ⟨p, ps, f, fb, b1, t, b2, ts', rfl, hs, ht, hr, rfl⟩ := evalAllotSources_cons_inv h
    obtain ⟨h1, hgf, hfb⟩ := evalSource_binv c R env asset it.2 b b1 f fb fl hs (hocc it List.mem_cons_self) hi
    obtain ⟨h2, hgt, _⟩ := takeFromSource_binv ht hgf hfb h1
    obtain ⟨h3, hgts⟩ := evalAllotSources_binv c R env asset ma rest ps b2 b' ts' _ hr
      (fun it' hit => hocc it' (List.mem_cons_of_mem _ hit)) h2
    refine ⟨h3.congr (fun x A => by simp only [List.map_cons, List.sum_cons]; omega), ?_⟩
    intro u hu
    rcases List.mem_cons.mp hu with rfl | hu
    · exact hgt
    · exact hgts u hu

def vsourceOcc (env : VEnv) (asset : Asset) : VSource → List Occ
  | .src s => sourceOcc env asset s
  | .allot items => items.flatMap (fun it => sourceOcc env asset it.2)

/-- the source occurrences of a send, in the asset the send is made in -/
def sendOcc (env : VEnv) (amt : SendAmt) (src : VSource) : List Occ :=
  match amt with
  | .mon e => (match leftAsset env e with | .ok a => vsourceOcc env a src | .error _ => [])
  | .all ae => (match evalAsset env ae with | .ok a => vsourceOcc env a src | .error _ => [])

def stmtOcc (env : VEnv) : Stmt → List Occ
  | .send amt src _ => sendOcc env amt src
  | _ => []

/-- **a send preserves the invariant** (whatever else is in flight) -/
theorem evalSend_dinv {c : Cx} {bal0 : Acct → Asset → Int} {env : VEnv} {amt : SendAmt} {src : VSource} {d : Dest}
    {st st' : St} {fl : Acct → Asset → Int} (h : evalSend env amt src d st = .ok st')
    (hocc : ∀ o ∈ sendOcc env amt src, OccOK c.g o) (hfl : ∀ x A, 0 ≤ fl x A) (hi : DInv c bal0 st fl) :
    DInv c bal0 st' fl := by
  obtain ⟨hF, hB⟩ := hi
  cases amt with
  | mon e =>
    cases src with
    | src s =>
      obtain ⟨a, f, fb, b1, ma, mn, taken, b2, hl, hs, _, ht, hfin⟩ := evalSend_mon_src_inv h
      obtain ⟨h1, hgf, hfb⟩ := evalSource_binv c _ env a s st.bal b1 f fb fl hs
        (fun o ho => hocc o (by simp only [sendOcc, hl, vsourceOcc]; exact ho)) hB
      obtain ⟨h2, hgt, _⟩ := takeFromSource_binv ht hgf hfb h1
      have h3 := finishSend_dinv (st := { st with bal := b2 }) hfin hgt ⟨hF, h2⟩
        (fun x A => by have := hfl x A; omega)
      exact h3.congr (fun x A => by omega)
    | allot items =>
      obtain ⟨ma, mn, a, ps, ts, b1, f, _, hl, _, hs, hasm, hfin⟩ := evalSend_mon_allot_inv h
      obtain ⟨h1, hgts⟩ := evalAllotSources_binv c _ env a ma items _ st.bal b1 ts fl hs
        (fun it hit o ho => hocc o (by
          simp only [sendOcc, hl, vsourceOcc, List.mem_flatMap]; exact ⟨it, hit, ho⟩)) hB
      have hgf : Good c f := Good.assemble hasm hgts
      have h3 := finishSend_dinv (st := { st with bal := b1 }) hfin hgf ⟨hF, h1⟩
        (fun x A => by have := hfl x A; rw [flOf_assemble hasm]; omega)
      exact h3.congr (fun x A => by rw [flOf_assemble hasm]; omega)
  | all ae =>
    cases src with
    | src s =>
      obtain ⟨a, f, fb, b1, hl, hs, hfin⟩ := evalSend_all_src_inv h
      obtain ⟨h1, hgf, _⟩ := evalSource_binv c _ env a s st.bal b1 f fb fl hs
        (fun o ho => hocc o (by simp only [sendOcc, hl, vsourceOcc]; exact ho)) hB
      have h3 := finishSend_dinv (st := { st with bal := b1 }) hfin hgf ⟨hF, h1⟩
        (fun x A => by have := hfl x A; omega)
      exact h3.congr (fun x A => by omega)
    | allot items => rw [evalSend_all_allot] at h; cases h

/-! ### statements and whole scripts -/

/-- the invariant between statements: nothing in flight; what `save` has set aside is some non-negative amount -/
def SInv (g : Acct → Asset → Option Int) (K : Acct → Asset → Prop) (bal0 : Acct → Asset → Int) (st : St) : Prop :=
  ∃ saved, DInv ⟨g, K, saved⟩ bal0 st (fun _ _ => 0)

/-- `save [A n] from a` / `save [A *] from a`: an amount `m ≥ 0` moves from the tracked balance to `saved` -/
theorem save_sinv {g : Acct → Asset → Option Int} {K : Acct → Asset → Prop} {bal0 : Acct → Asset → Int} {st : St}
    {a : Acct} {s : Asset} {t m : Int} (ht : st.bal.get a s = some t) (hm : 0 ≤ m) (hi : SInv g K bal0 st) :
    SInv g K bal0 { st with bal := st.bal.upd a s (t - m) } := by
  obtain ⟨saved, hF, hD, hP⟩ := hi
  have hK : K a s := (hD a s).mp (by rw [ht]; rfl)
  refine ⟨fun x A => saved x A + (if x = a ∧ A = s then m else 0), hF, dom_upd (c := ⟨g, K, saved⟩) hD hK _, ?_⟩
  intro x A hxw gv hgv t' ht'
  dsimp only at ht' ⊢
  rw [upd_get] at ht'
  by_cases hx : x = a ∧ A = s
  · obtain ⟨rfl, rfl⟩ := hx
    simp only [and_self, if_true, Option.some.injEq] at ht' ⊢
    subst ht'
    obtain ⟨hs, he, hd⟩ := hP x A hxw gv hgv t ht
    dsimp only at hs he hd
    exact ⟨by omega, by omega, by omega⟩
  · simp only [hx, if_false] at ht' ⊢
    obtain ⟨hs, he, hd⟩ := hP x A hxw gv hgv t' ht'
    dsimp only at hs he hd
    exact ⟨by omega, by omega, by omega⟩

theorem evalStmt_sinv {g : Acct → Asset → Option Int} {K : Acct → Asset → Prop} {bal0 : Acct → Asset → Int}
    {env : VEnv} {s : Stmt} {F F' : Full} (h : evalStmt env s F = .ok F')
    (hocc : ∀ o ∈ stmtOcc env s, OccOK g o) (hi : SInv g K bal0 F.st) : SInv g K bal0 F'.st := by
  by_cases h1 : ∃ amt src d, s = .send amt src d
  · obtain ⟨amt, src, d, rfl⟩ := h1
    obtain ⟨st, hs, rfl⟩ := evalStmt_send_inv h
    obtain ⟨saved, hD⟩ := hi
    exact ⟨saved, evalSend_dinv (c := ⟨g, K, saved⟩) hs hocc (fun _ _ => Int.le_refl 0) hD⟩
  · by_cases h2 : ∃ e acc, s = .saveMon e acc
    · obtain ⟨e, acc, rfl⟩ := h2
      obtain ⟨ma, mn, a, t, _, _, hmn, ht, rfl⟩ := evalStmt_saveMon_inv h
      exact save_sinv ht hmn hi
    · by_cases h3 : ∃ ae acc, s = .saveAll ae acc
      · obtain ⟨ae, acc, rfl⟩ := h3
        obtain ⟨s, a, t, _, _, ht, rfl⟩ := evalStmt_saveAll_inv h
        by_cases hpos : t > 0
        · simp only [hpos, if_true]
          have := save_sinv (m := t) ht (by omega) hi
          simpa using this
        · simp only [hpos, if_false]
          exact hi
      · have := evalStmt_other_inv h (fun amt src d hs => h1 ⟨amt, src, d, hs⟩)
          (fun e acc hs => h2 ⟨e, acc, hs⟩) (fun ae acc hs => h3 ⟨ae, acc, hs⟩)
        rw [this]; exact hi

theorem evalStmts_sinv {g : Acct → Asset → Option Int} {K : Acct → Asset → Prop} {bal0 : Acct → Asset → Int}
    {env : VEnv} : (ss : List Stmt) → (F F' : Full) → evalStmts env ss F = .ok F' →
    (∀ o ∈ ss.flatMap (stmtOcc env), OccOK g o) → SInv g K bal0 F.st → SInv g K bal0 F'.st
  | [], F, F', h, _, hi => by
    simp only [evalStmts, Except.ok.injEq] at h
    rw [← h]; exact hi
  | s :: ss, F, F', h, hocc, hi => by
    obtain ⟨F1, h1, h2⟩ := evalStmts_cons_inv h
    have hi1 := evalStmt_sinv h1 (fun o ho => hocc o (by
      simp only [List.flatMap_cons, List.mem_append]; exact Or.inl ho)) hi
    exact evalStmts_sinv ss F1 F' h2 (fun o ho => hocc o (by
      simp only [List.flatMap_cons, List.mem_append]; exact Or.inr ho)) hi1

/-- the state a run starts from satisfies the invariant: tracked = real, nothing saved, nothing in flight -/
theorem init_sinv (g : Acct → Asset → Option Int) (store : Store) (nd : List (Acct × Asset)) :
    SInv g (fun x A => nd.contains (x, A) = true) store.balance ⟨initBal store nd, []⟩ := by
  refine ⟨fun _ _ => 0, trivial, ?_, ?_⟩
  · intro x A
    simp only [initBal]
    by_cases hc : nd.contains (x, A) = true <;> simp [hc]
  · intro x A hxw gv _ t ht
    simp only [initBal] at ht
    by_cases hc : nd.contains (x, A) = true
    · rw [if_pos hc, if_neg hxw] at ht
      simp only [Option.some.injEq] at ht
      subst ht
      simp [realBal]
    · rw [if_neg hc] at ht; cases ht

/-! ### the bound the script text grants -/

/-- `grants`: per (account, asset), `none` if some occurrence of the account as a source for that asset is the
literal world or unbounded, else the largest overdraft among its occurrences (a bare occurrence counts 0; an
account that never occurs as a source gets 0) -/
def grantsOf (occ : List Occ) (x : Acct) (A : Asset) : Option Int :=
  let m := occ.filter (fun o => o.acct = x ∧ o.asset = A)
  if m.any (fun o => o.od.isNone) then none
  else match m.filterMap (·.od) with
    | [] => some 0
    | v :: vs => some (vs.foldl max v)

def grants (env : VEnv) (stmts : List Stmt) : Acct → Asset → Option Int := grantsOf (stmts.flatMap (stmtOcc env))

theorem le_foldl_max_init (l : List Int) (init : Int) : init ≤ l.foldl max init := by
  induction l generalizing init with
  | nil => exact Int.le_refl _
  | cons a l ih => exact Int.le_trans (Int.le_max_left init a) (ih (max init a))

theorem le_foldl_max (l : List Int) (init v : Int) (h : v ∈ l) : v ≤ l.foldl max init := by
  induction l generalizing init with
  | nil => simp at h
  | cons a l ih =>
    rcases List.mem_cons.mp h with rfl | h
    · exact Int.le_trans (Int.le_max_right init v) (le_foldl_max_init l (max init v))
    · exact ih (max init a) h

/-- every occurrence is covered by the bound computed from the list of occurrences -/
theorem grantsOf_ok (occ : List Occ) : ∀ o ∈ occ, OccOK (grantsOf occ) o := by
  intro o ho
  have hm : o ∈ occ.filter (fun o' => o'.acct = o.acct ∧ o'.asset = o.asset) := by
    simp [List.mem_filter, ho]
  unfold OccOK
  cases hod : o.od with
  | none =>
    simp only
    unfold grantsOf
    have : (occ.filter (fun o' => o'.acct = o.acct ∧ o'.asset = o.asset)).any (fun o => o.od.isNone) = true :=
      List.any_eq_true.mpr ⟨o, hm, by simp [hod]⟩
    simp only [this, if_true]
  | some v =>
    simp only
    intro gv hgv
    unfold grantsOf at hgv
    simp only at hgv
    split at hgv
    · cases hgv
    · have hv : v ∈ (occ.filter (fun o' => o'.acct = o.acct ∧ o'.asset = o.asset)).filterMap (·.od) :=
        List.mem_filterMap.mpr ⟨o, hm, hod⟩
      split at hgv
      · rename_i heq; rw [heq] at hv; simp at hv
      · rename_i w ws heq
        rw [heq] at hv
        simp only [Option.some.injEq] at hgv
        subst hgv
        rcases List.mem_cons.mp hv with rfl | hv
        · exact le_foldl_max_init ws v
        · exact le_foldl_max ws w v hv

/-- **the floor theorem on the interpreter**: from the state a run starts in, every posting emitted by the
statements respects the floor given by the overdrafts the script text grants -/
theorem evalStmts_floor {env : VEnv} {store : Store} {stmts : List Stmt} {F : Full}
    (h : evalStmts env stmts { st := { bal := initBal store (needed env stmts), postings := [] } } = .ok F) :
    FloorOK (grants env stmts) store.balance F.st.postings := by
  have := evalStmts_sinv (g := grants env stmts) stmts _ F h (grantsOf_ok _) (init_sinv _ store _)
  obtain ⟨_, hF, _⟩ := this
  exact hF

/-! ### the fallback account of a source is always an unbounded occurrence -/

mutual
/-- `withdrawAlways` is only ever applied to the fallback account a source reports, and a source reports one
only for an occurrence that is the literal `@world` or carries `allowing unbounded overdraft` (`od = none`),
in the asset of the funding -/
theorem evalSource_fb (env : VEnv) (asset : Asset) : (s : Source) → (b b' : Bal) → (f : Fund) → (fb : Option Acct) →
    evalSource env asset s b = .ok (f, fb, b') → ∀ w, fb = some w →
    ∃ o ∈ sourceOcc env asset s, o.acct = w ∧ o.asset = f.asset ∧ o.od = none
  | .acct e od, b, b', f, fb, h, w, hw => by
    obtain ⟨a, oa, o, unb, p, ha, hv, _, rfl, rfl⟩ := evalSource_acct_inv h
    by_cases hu : (isWorldLit e || unb) = true
    · simp only [hu, if_true, Option.some.injEq] at hw
      subst hw
      exact ⟨⟨a, oa, none⟩, by simp [sourceOcc, ha, hv, hu], rfl, rfl, rfl⟩
    · simp [hu] at hw
  | .maxed cap s, b, b', f, fb, h, w, hw => by
    obtain ⟨_, _, _, _, _, _, _, _, _, rfl, _⟩ := evalSource_maxed_inv h
    cases hw
  | .inorder ss, b, b', f, fb, h, w, hw => by
    obtain ⟨fs, hs, hasm⟩ := evalSource_inorder_inv h
    obtain ⟨⟨l, hl, hla⟩, _, _⟩ := assemble_ok hasm
    obtain ⟨o, ho, h1, h2, h3⟩ := evalSources_fb env asset ss b b' fs fb hs w hw l hl
    exact ⟨o, by simpa [sourceOcc] using ho, h1, by rw [h2, hla], h3⟩
theorem evalSources_fb (env : VEnv) (asset : Asset) : (ss : SourceList) → (b b' : Bal) → (fs : List Fund) →
    (fb : Option Acct) → evalSources env asset ss b = .ok (fs, fb, b') → ∀ w, fb = some w →
    ∀ l, fs.getLast? = some l → ∃ o ∈ sourcesOcc env asset ss, o.acct = w ∧ o.asset = l.asset ∧ o.od = none
  | .nil, b, b', fs, fb, h, w, hw => by
    obtain ⟨_, rfl, _⟩ := evalSources_nil_inv h
    cases hw
  | .cons s rest, b, b', fs, fb, h, w, hw => by
    obtain ⟨f, fb1, b1, fs', fb2, hs, hr, rfl, rfl⟩ := evalSources_cons_inv h
    intro l hl
    cases rest with
    | nil =>
      obtain ⟨rfl, _, _⟩ := evalSources_nil_inv hr
      simp only [List.getLast?_singleton, Option.some.injEq] at hl
      subst hl
      obtain ⟨o, ho, h1⟩ := evalSource_fb env asset s b b1 f fb1 hs w hw
      exact ⟨o, by simp only [sourcesOcc, List.mem_append]; exact Or.inl ho, h1⟩
    | cons s2 rest2 =>
      obtain ⟨f2, _, _, fs2, _, _, _, rfl, _⟩ := evalSources_cons_inv hr
      rw [List.getLast?_cons_cons] at hl
      obtain ⟨o, ho, h1⟩ := evalSources_fb env asset (.cons s2 rest2) b1 b' (f2 :: fs2) fb2 hr w hw l hl
      exact ⟨o, by simp only [sourcesOcc, List.mem_append] at ho ⊢; exact Or.inr ho, h1⟩
end

/-! ### sources that cannot cover a send -/

/-- a bounded source whose funding holds less than the amount: `insufficient funds` -/
theorem takeFromSource_short {f : Fund} {ma : Asset} {mn : Int} (b : Bal) (hf : NonNeg f.parts) (ha : f.asset = ma)
    (hlt : total f.parts < mn) : takeFromSource none f ma mn b = .error .insufficient := by
  simp only [takeFromSource, ha, ne_eq, not_true_eq_false, if_false]
  cases ht : take f.parts mn with
  | none => rfl
  | some tr =>
    have := (take_isSome_iff f.parts mn hf).mp (by rw [ht]; rfl)
    omega

theorem evalSend_short {env : VEnv} {e : Expr} {s : Source} {d : Dest} {st : St} {a ma : Asset} {mn : Int}
    {f : Fund} {b1 : Bal} (hl : leftAsset env e = .ok a) (hs : evalSource env a s st.bal = .ok (f, none, b1))
    (hm : evalMon env e = .ok (ma, mn)) (ha : f.asset = ma) (hlt : total f.parts < mn) :
    evalSend env (.mon e) (.src s) d st = .error .insufficient := by
  have hf := evalSource_nonneg env a s st.bal f none b1 hs
  simp only [evalSend, hl, hs, hm, takeFromSource_short b1 hf ha hlt]

theorem evalStmts_error_at {env : VEnv} {s : Stmt} {post : List Stmt} {er : Err} :
    (pre : List Stmt) → (F0 F : Full) → evalStmts env pre F0 = .ok F → evalStmt env s F = .error er →
    evalStmts env (pre ++ s :: post) F0 = .error er
  | [], F0, F, h, hs => by
    simp only [evalStmts, Except.ok.injEq] at h
    subst h
    simp only [List.nil_append, evalStmts, hs]
  | q :: pre, F0, F, h, hs => by
    obtain ⟨F1, h1, h2⟩ := evalStmts_cons_inv h
    simp only [List.cons_append, evalStmts, h1]
    exact evalStmts_error_at pre F1 F h2 hs

theorem run_error {P : Script} {req : Request} {store : Store} {env : VEnv} {er : Err}
    (hp : prepare P req store = .ok env) (hc : checkBalanceVars env P.vars = .ok ())
    (he : evalStmts env P.stmts { st := { bal := initBal store (needed env P.stmts), postings := [] } } = .error er) :
    run P req store = .error er := by
  simp only [run, hp, hc, he]

/-! ### the asset of what a source provides -/

mutual
/-- the asset of the funding a source provides is the asset of one of its account occurrences: the asset the
send names for a bare / unbounded account, but the OVERDRAFT's asset for `allowing overdraft up to [B n]` -/
theorem evalSource_asset (env : VEnv) (asset : Asset) : (s : Source) → (b b' : Bal) → (f : Fund) → (fb : Option Acct) →
    evalSource env asset s b = .ok (f, fb, b') → ∃ o ∈ sourceOcc env asset s, o.asset = f.asset
  | .acct e od, b, b', f, fb, h => by
    obtain ⟨a, oa, o, unb, p, ha, hv, _, rfl, _⟩ := evalSource_acct_inv h
    exact ⟨⟨a, oa, if isWorldLit e || unb then none else some o⟩, by simp [sourceOcc, ha, hv], rfl⟩
  | .maxed cap s, b, b', f, fb, h => by
    obtain ⟨f0, fb0, b1, ma, mn, hs, _, _, ha, _, hc⟩ := evalSource_maxed_inv h
    obtain ⟨o, ho, hoa⟩ := evalSource_asset env asset s b b1 f0 fb0 hs
    refine ⟨o, by simpa [sourceOcc] using ho, ?_⟩
    rcases hc with ⟨_, rfl, _⟩ | ⟨w, p, _, _, hasm⟩
    · exact hoa
    · rw [hoa, (assemble_pair hasm).1, ha]
  | .inorder ss, b, b', f, fb, h => by
    obtain ⟨fs, hs, hasm⟩ := evalSource_inorder_inv h
    obtain ⟨⟨l, hl, hla⟩, _, _⟩ := assemble_ok hasm
    obtain ⟨o, ho, hoa⟩ := evalSources_asset env asset ss b b' fs fb hs l (List.mem_of_getLast? hl)
    exact ⟨o, by simpa [sourceOcc] using ho, by rw [hoa, hla]⟩
theorem evalSources_asset (env : VEnv) (asset : Asset) : (ss : SourceList) → (b b' : Bal) → (fs : List Fund) →
    (fb : Option Acct) → evalSources env asset ss b = .ok (fs, fb, b') →
    ∀ f ∈ fs, ∃ o ∈ sourcesOcc env asset ss, o.asset = f.asset
  | .nil, b, b', fs, fb, h => by
    obtain ⟨rfl, _, _⟩ := evalSources_nil_inv h
    intro f hf; simp at hf
  | .cons s rest, b, b', fs, fb, h => by
    obtain ⟨f, fb1, b1, fs', fb2, hs, hr, rfl, _⟩ := evalSources_cons_inv h
    intro g hg
    rcases List.mem_cons.mp hg with rfl | hg
    · obtain ⟨o, ho, hoa⟩ := evalSource_asset env asset s b b1 g fb1 hs
      exact ⟨o, by simp only [sourcesOcc, List.mem_append]; exact Or.inl ho, hoa⟩
    · obtain ⟨o, ho, hoa⟩ := evalSources_asset env asset rest b1 b' fs' fb2 hr g hg
      exact ⟨o, by simp only [sourcesOcc, List.mem_append]; exact Or.inr ho, hoa⟩
end

/-- every occurrence of a source list without `allowing overdraft up to` clauses in another asset is in the
asset of the send -/
theorem evalSource_asset_eq {env : VEnv} {asset : Asset} {s : Source} {b b' : Bal} {f : Fund} {fb : Option Acct}
    (h : evalSource env asset s b = .ok (f, fb, b')) (hocc : ∀ o ∈ sourceOcc env asset s, o.asset = asset) :
    f.asset = asset := by
  obtain ⟨o, ho, hoa⟩ := evalSource_asset env asset s b b' f fb h
  rw [← hoa]; exact hocc o ho

end Num
