import Lemmas.NumNeeded
import Lemmas.NumCheck
import Lemmas.NumPos
import Lemmas.NumStmt2
/-! The resolution stage of the VM on a compiled program IS `Spec.prepare` + `checkBalanceVars` + `initBal`
(`resolution_stage`), for the WHOLE language; and with it the end-to-end equality of `VM.run` and `Spec.run`
(on their observations) wherever `execute` is known to follow `evalStmts`. -/
namespace Num
open VM

/-! ### the second loop of `ResolveBalances` builds `initBal` -/

/-- the balance `ResolveBalances` reads for a tracked entry (`world` is always zero) -/
def balVal (store : Store) (a : Acct) (s : Asset) : Int := if a = "world" then 0 else store.balance a s

theorem needAssets_bal (store : Store) {V : List BVal} (a : Acct) {l : List Addr} {B B' : Balances}
    (h : needAssets store V a l B = .ok B') :
    (∀ s', (∃ x ∈ l, ∃ v, V[x]? = some v ∧ assetOf v = some s') → B'.bal.get a s' = some (balVal store a s')) ∧
    (∀ a' s', ¬ (a' = a ∧ ∃ x ∈ l, ∃ v, V[x]? = some v ∧ assetOf v = some s') → B'.bal.get a' s' = B.bal.get a' s') := by
  induction l generalizing B with
  | nil =>
    simp only [needAssets, Outcome.ok.injEq] at h; subst h
    exact ⟨(by rintro s' ⟨x, hx, _⟩; cases hx), fun _ _ _ => rfl⟩
  | cons y rest ih =>
    simp only [needAssets] at h
    split at h
    · cases h
    · rename_i v hv
      split at h
      · cases h
      · rename_i s hs
        obtain ⟨hit', miss'⟩ := ih h
        have hset : ∀ a' s', (B.set a s (if a = "world" then 0 else store.balance a s)).bal.get a' s' =
            if a' = a ∧ s' = s then some (balVal store a s) else B.bal.get a' s' := by
          intro a' s'; rfl
        constructor
        · rintro s' ⟨x, hx, v', hv', hs'⟩
          by_cases hr : ∃ x ∈ rest, ∃ v, V[x]? = some v ∧ assetOf v = some s'
          · exact hit' s' hr
          · rcases List.mem_cons.mp hx with rfl | hx
            · rw [hv] at hv'; cases hv'
              rw [hs] at hs'; cases hs'
              rw [miss' a s (fun hh => hr hh.2), hset]
              simp
            · exact absurd ⟨x, hx, v', hv', hs'⟩ hr
        · intro a' s' hn
          have hn' : ¬ (a' = a ∧ ∃ x ∈ rest, ∃ v, V[x]? = some v ∧ assetOf v = some s') := by
            rintro ⟨h1, x, hx, rest'⟩
            exact hn ⟨h1, x, List.mem_cons_of_mem _ hx, rest'⟩
          rw [miss' a' s' hn', hset]
          have : ¬ (a' = a ∧ s' = s) := by
            rintro ⟨h1, h2⟩
            exact hn ⟨h1, y, List.mem_cons_self .., v, hv, by rw [h2]; exact hs⟩
          simp [this]

theorem ensureAcct_bal (B : Balances) (a : Acct) : (B.ensureAcct a).bal = B.bal := by
  unfold Balances.ensureAcct; split <;> rfl

theorem needPair_cons {V : List BVal} {addr : Addr} {assets : List Addr} {rest : List (Addr × List Addr)} {a : Acct}
    (hV : V[addr]? = some (.acct a)) (acct : Acct) (asset : Asset) :
    NeedPair V ((addr, assets) :: rest) acct asset ↔
      NeedPair V rest acct asset ∨ (acct = a ∧ ∃ x ∈ assets, ∃ v, V[x]? = some v ∧ assetOf v = some asset) := by
  constructor
  · rintro ⟨a0, x, ⟨e, he, h1, h2⟩, hVa, v, hVx, hv⟩
    rcases List.mem_cons.mp he with rfl | he
    · right
      simp only at h1 h2
      subst h1
      rw [hV] at hVa; cases hVa
      exact ⟨rfl, x, h2, v, hVx, hv⟩
    · exact Or.inl ⟨a0, x, ⟨e, he, h1, h2⟩, hVa, v, hVx, hv⟩
  · rintro (⟨a0, x, ⟨e, he, h1, h2⟩, rest'⟩ | ⟨rfl, x, hx, v, hVx, hv⟩)
    · exact ⟨a0, x, ⟨e, List.mem_cons_of_mem _ he, h1, h2⟩, rest'⟩
    · exact ⟨addr, x, ⟨(addr, assets), List.mem_cons_self .., rfl, hx⟩, hV, v, hVx, hv⟩

theorem needAccounts_bal (store : Store) {V : List BVal} {nb : List (Addr × List Addr)} {B B' : Balances}
    (h : needAccounts store V nb B = .ok B') :
    (∀ acct asset, NeedPair V nb acct asset → B'.bal.get acct asset = some (balVal store acct asset)) ∧
    (∀ acct asset, ¬ NeedPair V nb acct asset → B'.bal.get acct asset = B.bal.get acct asset) := by
  induction nb generalizing B with
  | nil =>
    simp only [needAccounts, Outcome.ok.injEq] at h; subst h
    exact ⟨(by rintro _ _ ⟨_, _, ⟨e, he, _⟩, _⟩; cases he), fun _ _ _ => rfl⟩
  | cons e rest ih =>
    obtain ⟨addr, assets⟩ := e
    simp only [needAccounts] at h
    split at h
    · cases h
    · rename_i a hva
      split at h
      · rename_i B1 h1
        obtain ⟨hit1, miss1⟩ := needAssets_bal store a h1
        obtain ⟨hit2, miss2⟩ := ih h
        constructor
        · intro acct asset hp
          by_cases hr : NeedPair V rest acct asset
          · exact hit2 acct asset hr
          · rcases (needPair_cons hva acct asset).mp hp with hp | ⟨rfl, hx⟩
            · exact absurd hp hr
            · rw [miss2 acct asset hr]; exact hit1 asset hx
        · intro acct asset hn
          have hn1 : ¬ NeedPair V rest acct asset := fun hh => hn ((needPair_cons hva acct asset).mpr (Or.inl hh))
          have hn2 : ¬ (acct = a ∧ ∃ x ∈ assets, ∃ v, V[x]? = some v ∧ assetOf v = some asset) :=
            fun hh => hn ((needPair_cons hva acct asset).mpr (Or.inr hh))
          rw [miss2 acct asset hn1, miss1 acct asset hn2, ensureAcct_bal]
      · cases h
      · cases h
    · cases h

theorem needAssets_total (store : Store) {rs : List Resource} {vals : List BVal} (ht : TypedVals rs vals) (a : Acct)
    {l : List Addr} (hl : ∀ x ∈ l, HasTy rs x .asset ∨ HasTy rs x .monetary) (b : Balances) :
    ∃ b', needAssets store vals a l b = .ok b' := by
  induction l generalizing b with
  | nil => exact ⟨b, rfl⟩
  | cons x rest ih =>
    simp only [needAssets]
    have hx := hl x (List.mem_cons_self ..)
    have : ∃ v, vals[x]? = some v ∧ (assetOf v).isSome := by
      rcases hx with ⟨r, h1, h2⟩ | ⟨r, h1, h2⟩
      · obtain ⟨v, h3, h4⟩ := ht.ty x r h1
        rw [h2] at h4
        cases v <;> simp [BVal.bty] at h4
        exact ⟨_, h3, rfl⟩
      · obtain ⟨v, h3, h4⟩ := ht.ty x r h1
        rw [h2] at h4
        cases v <;> simp [BVal.bty] at h4
        · exact ⟨_, h3, rfl⟩
        · exact ⟨_, h3, rfl⟩
    obtain ⟨v, hv, hs⟩ := this
    simp only [hv]
    cases ha : assetOf v with
    | none => simp [ha] at hs
    | some s => exact ih (fun y hy => hl y (List.mem_cons_of_mem _ hy)) _

theorem needAccounts_total (store : Store) {rs : List Resource} {vals : List BVal} (ht : TypedVals rs vals)
    {nb : List (Addr × List Addr)} (hn : WFneeded rs nb) (b : Balances) :
    ∃ b', needAccounts store vals nb b = .ok b' := by
  induction nb generalizing b with
  | nil => exact ⟨b, rfl⟩
  | cons e rest ih =>
    obtain ⟨addr, assets⟩ := e
    obtain ⟨h1, h2⟩ := hn (addr, assets) (List.mem_cons_self ..)
    obtain ⟨x, hx⟩ := ht.acct h1
    simp only [needAccounts, hx]
    obtain ⟨b1, hb1⟩ := needAssets_total store ht x h2 (b.ensureAcct x)
    rw [hb1]
    exact ih (fun e he => hn e (List.mem_cons_of_mem _ he)) b1

theorem Bal.ext' {b b' : Bal} (h : ∀ a s, b.get a s = b'.get a s) : b = b' := by
  cases b; cases b'
  congr
  funext a s
  exact h a s

/-- the tracked balances `ResolveBalances` builds for a compiled program are `Spec`'s initial balances -/
theorem needAccounts_initBal {P : Script} {prog : Program} (hc : compile P = .ok prog) {V : List BVal} {env : VEnv}
    (cx : Ctx prog.resources V env) {store : Store} {B : Balances}
    (h : needAccounts store V prog.needed ⟨[], [], ⟨fun _ _ => none⟩⟩ = .ok B) :
    B.bal = initBal store (needed env P.stmts) := by
  obtain ⟨hit, miss⟩ := needAccounts_bal store h
  apply Bal.ext'
  intro a s
  unfold initBal
  by_cases hm : (a, s) ∈ needed env P.stmts
  · rw [hit a s ((compile_needed hc cx a s).mpr hm)]
    have : (needed env P.stmts).contains (a, s) = true := by simpa using hm
    simp only [this, if_true]
    rfl
  · rw [miss a s (fun hh => hm ((compile_needed hc cx a s).mp hh))]
    simp [hm]

/-! ### the plain variables, looked up -/

theorem bindL_extends {raw : List (String × String)} {l : List (Ty × String)} {env env' : VEnv} (h : bindL raw l env = .ok env') :
    ∃ more, env' = env ++ more := by
  induction l generalizing env with
  | nil => simp only [bindL, Except.ok.injEq] at h; subst h; exact ⟨[], by simp⟩
  | cons p l ih =>
    obtain ⟨ty, n⟩ := p
    simp only [bindL] at h
    split at h
    · cases h
    · split at h
      · cases h
      · rename_i v _
        obtain ⟨more, rfl⟩ := ih h
        exact ⟨(n, v) :: more, by simp⟩

theorem bindL_lookup {raw : List (String × String)} {l : List (Ty × String)} {env env' : VEnv} (h : bindL raw l env = .ok env')
    (hnd : (env.map (·.1) ++ l.map (·.2)).Nodup) :
    ∀ p ∈ l, ∃ v, lookupVar env' p.2 = some v ∧ (BVal.ofVal v).bty = p.1.toB ∧ ValPos v := by
  induction l generalizing env with
  | nil => intro p hp; cases hp
  | cons q l ih =>
    obtain ⟨ty, n⟩ := q
    simp only [bindL] at h
    split at h
    · cases h
    · split at h
      · cases h
      · rename_i rv _ v hp
        have hfresh : n ∉ env.map (·.1) := by
          intro hmem
          exact (List.nodup_append.mp hnd).2.2 n hmem n (by simp) rfl
        have hnd' : ((env ++ [(n, v)]).map (·.1) ++ l.map (·.2)).Nodup := by
          simpa [List.append_assoc] using hnd
        intro p hp'
        rcases List.mem_cons.mp hp' with rfl | hp'
        · obtain ⟨more, rfl⟩ := bindL_extends h
          exact ⟨v, lookupVar_append_some (lookupVar_snoc_self v hfresh), parseValue_bty hp, parseValue_valPos hp⟩
        · exact ih h hnd' p hp'

/-! ### the resolution stage -/

theorem rinv_init (store : Store) : RInv store [] [] [] [] [] [] false :=
  ⟨⟨rfl, fun _ _ => rfl, (by intro e he; cases he), (by simp), (by intro e he; cases he)⟩,
   ⟨(by intro i r h; simp at h), ⟨rfl, (by intro i r h; simp at h)⟩⟩, rfl, rfl, (by intro i r h; simp at h)⟩

/-- **the resolution stage of the VM is `Spec`'s**, stage by stage — for every compiled program (the whole
language), every variable map and every store: `SetVarsFromJSON` / `ResolveResources` / `ResolveBalances` fail
exactly when `Spec.prepare` / `checkBalanceVars` do, with the same error class; and when they succeed the resolved
table is the value of the resources under `Spec`'s environment and the tracked balances are `Spec`'s initial
balances.  (`hpos`: no portion constant of the table has a zero denominator.) -/
theorem resolution_stages {P : Script} {prog : Program} (hc : compile P = .ok prog) (hpos : TablePos prog.resources)
    (req : Request) (store : Store) :
    match prepare P req store with
    | .error er => setVarsFromJSON prog req.vars = .error er ∨
        ∃ vars, setVarsFromJSON prog req.vars = .ok vars ∧ resolveResources prog vars store = .error er
    | .ok env => ∃ vars R, setVarsFromJSON prog req.vars = .ok vars ∧ resolveResources prog vars store = .ok R ∧
        match checkBalanceVars env P.vars with
        | .error er => resolveBalances prog R store = .error er
        | .ok _ => ∃ V B, resolveBalances prog R store = .ok (V, B) ∧ Ctx prog.resources V env ∧ VPos V ∧
            B.bal = initBal store (needed env P.stmts) ∧ EntOK V prog.needed B.accts B.keys ∧ BalOK B.accts B.keys B.bal := by
  have hck : check P = true := by
    have := compile_ck P
    rw [hc] at this
    exact this.1
  have hsv := setVars_bindPlain hc req.vars
  unfold prepare
  simp only [hck, Bool.not_true, Bool.false_eq_true, if_false]
  cases hbp : bindPlain P.vars req.vars with
  | error er =>
    rw [hbp] at hsv
    exact Or.inl hsv
  | ok plain =>
    rw [hbp] at hsv
    simp only at hsv ⊢
    -- the plain variables are bound, with the declared types
    have hpl : ∀ d ∈ P.vars, isPlain d = true → ∃ v, lookupVar plain d.name = some v ∧ (BVal.ofVal v).bty = d.ty.toB ∧ ValPos v := by
      rw [bindPlain_eq] at hbp
      cases hbl : bindL req.vars (plainDecls P.vars) [] with
      | error e => rw [hbl] at hbp; cases hbp
      | ok env0 =>
        rw [hbl] at hbp
        simp only at hbp
        split at hbp
        · simp only [Except.ok.injEq] at hbp; subst hbp
          have hnd : (([] : VEnv).map (·.1) ++ (plainDecls P.vars).map (·.2)).Nodup := by
            rw [← compile_varDecls hc, varDecls_names]
            simpa using compile_varNames_nodup hc
          intro d hd hp
          exact bindL_lookup hbl hnd (d.ty, d.name) (List.mem_map.mpr ⟨d, List.mem_filter.mpr ⟨hd, hp⟩, rfl⟩)
        · cases hbp
    obtain ⟨st0, code, st, h0, h1, hprog⟩ := compile_parts hc
    obtain ⟨hwf, hwn⟩ := compile_good hc
    have hres : prog.resources = st.resources := by rw [hprog]
    have hidx0 : VarIdxOK ({} : CState) := by intro n a hl; simp [lookupIdx] at hl
    obtain ⟨suf, hsuf⟩ := visitVarList_suffix h0
    obtain ⟨lits2, elits2, hlits2⟩ := (visitStmts_ext h1).res
    have hpos0 : TablePos st0.resources := by
      intro q hq; apply hpos q
      rw [hres, elits2]; exact List.mem_append_left _ hq
    have hsim := resolve_sim (store := store) hpl h0 hidx0 good_init hsuf hpos0 (R := {}) (rinv_init store)
    have hsuf' : st0.resources = suf := by simpa using hsuf
    have hrr : resolveResources prog (plain.map ofP) store =
        match resolveLoop store (plain.map ofP) suf {} with
        | .ok R' => resolveLoop store (plain.map ofP) lits2 R'
        | .error e => .error e
        | .panic k => .panic k := by
      unfold resolveResources
      rw [hres, elits2, hsuf']
      exact resolveLoop_append _ _ _ _ _
    cases hrv : resolveVars store plain P.vars [] with
    | error er =>
      rw [hrv] at hsim
      exact Or.inr ⟨_, hsv, by rw [hrr]; simp only [hsim]⟩
    | ok env =>
      rw [hrv] at hsim
      obtain ⟨R1, V1, hloop1, hinv1⟩ := hsim
      simp only [Bool.false_or] at hinv1
      obtain ⟨R2, V2, hloop2, hun2, hinv2⟩ := lits_step (vars := plain.map ofP) hlits2 hinv1 (by rw [← elits2, ← hres]; exact hwf)
        (by rw [← elits2, ← hres]; exact hpos)
      rw [← elits2, ← hres] at hinv2
      have hrr2 : resolveResources prog (plain.map ofP) store = .ok R2 := by rw [hrr, hloop1]; exact hloop2
      have hbv := resolveBalanceVars_fill store hinv2.fill
      rw [hinv2.neg] at hbv
      simp only
      refine ⟨plain.map ofP, R2, hsv, hrr2, ?_⟩
      rw [checkBalanceVars_eq]
      cases hneg : negSpec env P.vars with
      | true =>
        rw [hneg] at hbv
        simp only [if_true] at hbv ⊢
        simp only [resolveBalances, hbv]
      | false =>
        rw [hneg] at hbv
        simp only [Bool.false_eq_true, if_false] at hbv ⊢
        have cx : Ctx prog.resources V2 env := hinv2.ctx
        obtain ⟨B, hB⟩ := needAccounts_total store cx.typed hwn ⟨[], [], ⟨fun _ _ => none⟩⟩
        have hrb : resolveBalances prog R2 store = .ok (V2, B) := by
          simp only [resolveBalances, hbv, hB]
        obtain ⟨binv, _, bent⟩ := needAccounts_post store (B := ⟨[], [], ⟨fun _ _ => none⟩⟩)
          ⟨by intro a s h; simp at h, by intro e he; cases he⟩ hB
        refine ⟨V2, B, hrb, cx, hinv2.pos, needAccounts_initBal hc cx hB, ?_, ⟨binv.dom, binv.keys⟩⟩
        intro a x hin acct s ha hx
        obtain ⟨e, he, h1', h2'⟩ := hin
        subst h1'
        obtain ⟨hc1, hc2⟩ := bent e he acct ha
        exact ⟨hc1, hc2 x h2' s hx⟩

/-- the same, in terms of `VM.run` -/
theorem resolution_stage {P : Script} {prog : Program} (hc : compile P = .ok prog) (hpos : TablePos prog.resources)
    (req : Request) (store : Store) :
    match prepare P req store with
    | .error er => VM.run prog req store = .error er
    | .ok env =>
      match checkBalanceVars env P.vars with
      | .error er => VM.run prog req store = .error er
      | .ok _ => ∃ vars R V B, setVarsFromJSON prog req.vars = .ok vars ∧ resolveResources prog vars store = .ok R ∧
          resolveBalances prog R store = .ok (V, B) ∧ Ctx prog.resources V env ∧ VPos V ∧
          B.bal = initBal store (needed env P.stmts) ∧ EntOK V prog.needed B.accts B.keys ∧ BalOK B.accts B.keys B.bal := by
  have h := resolution_stages hc hpos req store
  cases hp : prepare P req store with
  | error er =>
    rw [hp] at h
    rcases h with h | ⟨vars, h1, h2⟩
    · simp only [VM.run, h]
    · simp only [VM.run, h1, h2]
  | ok env =>
    rw [hp] at h
    obtain ⟨vars, R, h1, h2, h3⟩ := h
    simp only
    cases hcb : checkBalanceVars env P.vars with
    | error er =>
      rw [hcb] at h3
      simp only [VM.run, h1, h2, h3]
    | ok u =>
      rw [hcb] at h3
      obtain ⟨V, B, h4, rest⟩ := h3
      exact ⟨vars, R, V, B, h1, h2, h4, rest⟩

/-! ### end to end -/

/-- `Execute` of the compiled program follows `evalStmts` from every machine that mirrors `Spec`'s state — metadata
and printed values up to the way portions are written (what `execute_correct2` proves) -/
def ExecOK (P : Script) (prog : Program) : Prop :=
  ∀ (E : List (Acct × Asset)) (V : List BVal) (env : VEnv), Ctx prog.resources V env → VPos V →
    ∀ (A : List Acct), EntOK V prog.needed A E → ∀ (m : Machine) (F : Full), RelQ RenderQ A E m F →
      match evalStmts env P.stmts F with
      | .error er => VM.execute prog.instrs V m = .error er
      | .ok F' => ∃ m', VM.execute prog.instrs V m = .ok m' ∧ RelQ RenderQ A E m' F'

theorem renderTxMeta_of_forall2 {l : List (String × BVal)} {l' : List (String × Val)}
    (h : List.Forall₂ (fun (x : String × BVal) (y : String × Val) => x.1 = y.1 ∧ RenderQ x.2 y.2) l l') :
    renderTxMeta l = some (l'.map (fun kv => (kv.1, valToString kv.2))) := by
  induction h with
  | nil => rfl
  | @cons x y l l' hxy _ ih =>
    obtain ⟨k, w⟩ := x
    obtain ⟨h1, h2⟩ := hxy
    simp only at h1 h2
    subst h1
    simp only [renderTxMeta, ih, List.map_cons]
    rw [show w.render = some (valToString y.2) from h2]

theorem renderAcctMeta_of_forall2 {l : List (Acct × String × BVal)} {l' : List (Acct × String × Val)}
    (h : List.Forall₂ (fun (x : Acct × String × BVal) (y : Acct × String × Val) => x.1 = y.1 ∧ x.2.1 = y.2.1 ∧ RenderQ x.2.2 y.2.2) l l') :
    renderAcctMeta l = some (l'.map (fun x => (x.1, x.2.1, valToString x.2.2))) := by
  induction h with
  | nil => rfl
  | @cons x y l l' hxy _ ih =>
    obtain ⟨a, k, w⟩ := x
    obtain ⟨h1, h2, h3⟩ := hxy
    simp only at h1 h2 h3
    subst h1 h2
    simp only [renderAcctMeta, ih, List.map_cons]
    rw [show w.render = some (valToString y.2.2) from h3]

theorem prints_of_forall2 {l : List BVal} {l' : List Val} (h : List.Forall₂ RenderQ l l') :
    l.map (fun v => v.render.getD "") = l'.map valToString := by
  induction h with
  | nil => rfl
  | @cons x y l l' hxy _ ih =>
    simp only [List.map_cons, ih]
    rw [show x.render = some (valToString y) from hxy]; rfl

/-- **end to end**: wherever `Execute` follows `evalStmts`, running the compiled program on the VM — resolution
stage included — gives exactly the observations (or the error class) `Spec.run` gives, and never panics -/
theorem run_eq_of_exec {P : Script} {prog : Program} (hc : compile P = .ok prog) (hpos : TablePos prog.resources)
    (hex : ExecOK P prog) (req : Request) (store : Store) :
    (VM.run prog req store).map VM.Result.obs = Outcome.ofExcept ((Num.run P req store).map Result.obs) := by
  have hrs := resolution_stage hc hpos req store
  unfold Num.run
  cases hp : prepare P req store with
  | error er =>
    rw [hp] at hrs
    simp only at hrs
    rw [hrs]; rfl
  | ok env =>
    rw [hp] at hrs
    simp only at hrs ⊢
    cases hcb : checkBalanceVars env P.vars with
    | error er =>
      rw [hcb] at hrs
      simp only at hrs
      rw [hrs]; rfl
    | ok u =>
      rw [hcb] at hrs
      obtain ⟨vars, R, V, B, hv, hr, hb, cx, hvp, hbal, hE, hok⟩ := hrs
      have hrel : RelQ RenderQ B.accts B.keys ({ balances := B } : VM.Machine) { st := { bal := B.bal, postings := [] } } :=
        ⟨rfl, rfl, rfl, rfl, List.Forall₂.nil, List.Forall₂.nil, List.Forall₂.nil, hok⟩
      have hx := hex _ V env cx hvp _ hE _ _ hrel
      simp only [← hbal]
      simp only [VM.run, hv, hr, hb]
      cases hev : evalStmts env P.stmts { st := { bal := B.bal, postings := [] } } with
      | error er =>
        rw [hev] at hx
        simp only [hx]; rfl
      | ok F =>
        rw [hev] at hx
        obtain ⟨m', hx, hr'⟩ := hx
        simp only [hx, renderTxMeta_of_forall2 hr'.txMeta, renderAcctMeta_of_forall2 hr'.acctMeta]
        split
        · rfl
        · simp only [Outcome.map, Except.map, Outcome.ofExcept, VM.Result.obs, Result.obs, hr'.postings, prints_of_forall2 hr'.prints]

/-- in the fragment, the portion literals that can reach the resource table have positive denominators -/
theorem Stmt.litsPos_of_frag {s : Stmt} (h : s.frag = true) : s.litsPos = true := by
  cases s with
  | send amt src d =>
    cases src with
    | src sc =>
      simp only [Stmt.frag, Bool.and_eq_true] at h
      simp only [Stmt.litsPos, h.2]
    | allot items =>
      simp only [Stmt.frag, Bool.and_eq_true] at h
      simp only [Stmt.litsPos, h.2, h.1.2, Bool.and_self]
  | setTxMeta k v => exact litsPos_of_noPortion h
  | setAccountMeta acc k v => exact litsPos_of_noPortion h
  | print e => exact litsPos_of_noPortion h
  | saveMon _ _ => rfl
  | saveAll _ _ => rfl
  | fail => rfl

theorem frag_tablePos {P : Script} {prog : Program} (hc : compile P = .ok prog) (hfr : P.frag) : TablePos prog.resources :=
  compile_tablePos hc (fun s hs => Stmt.litsPos_of_frag (hfr.2 s hs))

/-- what the VM resolved is what `resolution_stages` describes (the stages are functions) -/
theorem vpos_of_resolved {P : Script} {prog : Program} (hc : compile P = .ok prog) (hpos : TablePos prog.resources)
    {req : Request} {store : Store} {vars : List (String × BVal)} {R : Resolved} {vals : List BVal} {B : Balances}
    (hv : setVarsFromJSON prog req.vars = .ok vars) (hr : resolveResources prog vars store = .ok R)
    (hb : resolveBalances prog R store = .ok (vals, B)) : VPos vals := by
  have h := resolution_stages hc hpos req store
  cases hp : prepare P req store with
  | error er =>
    rw [hp] at h
    rcases h with h | ⟨vars', h1, h2⟩
    · rw [hv] at h; cases h
    · rw [hv] at h1; cases h1; rw [hr] at h2; cases h2
  | ok env =>
    rw [hp] at h
    obtain ⟨vars', R', h1, h2, h3⟩ := h
    rw [hv] at h1; cases h1
    rw [hr] at h2; cases h2
    cases hcb : checkBalanceVars env P.vars with
    | error er => rw [hcb] at h3; rw [hb] at h3; cases h3
    | ok u =>
      rw [hcb] at h3
      obtain ⟨V, B', h4, _, h5, _⟩ := h3
      rw [hb] at h4; cases h4
      exact h5

theorem frag2_tablePos {P : Script} {prog : Program} (hc : compile P = .ok prog) (hfr : P.frag2) : TablePos prog.resources :=
  compile_tablePos hc (fun s hs => Stmt.litsPos_of_frag2 (hfr.2 s hs))

/-- **compiled programs do what the source says**, the whole language (`Script.frag2` = its side conditions) -/
theorem run_eq {P : Script} {prog : Program} (hc : compile P = .ok prog) (hfr : P.frag2) (req : Request) (store : Store) :
    (VM.run prog req store).map VM.Result.obs = Outcome.ofExcept ((Num.run P req store).map Result.obs) :=
  run_eq_of_exec hc (frag2_tablePos hc hfr) (fun _ _ _ cx hp _ hE m F hrel => execute_correct2 hc hfr cx hp hE m F hrel) req store

end Num
