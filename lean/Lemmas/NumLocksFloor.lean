import Lemmas.NumLocks
import Model.Engine.Floor
/-! From a run of `Spec` to the guards of the `Floor` component (C02): the posting list of an accepted run, committed
by a request that holds `Spec`'s lock sets and has read the balances `Spec` tracks, passes Floor's lock-coverage guard
and its "every source was read" guard; Floor's floor check follows from C01's `FloorOK` when Floor's per-request
overdraft bound dominates what the script grants. -/
namespace Num
open Engine.Floor

/-- a posting of `Spec` in the vocabulary of the engine model -/
def toEngine (p : Posting) : Engine.Posting := ⟨p.src, p.dst, p.amt, p.asset⟩

/-- Floor's coverage predicate on one posting -/
def covered (h : Hold) (p : Engine.Posting) : Bool :=
  (p.src = "world" || h.w.contains p.src) && (p.dst = "world" || h.r.contains p.dst || h.w.contains p.dst)

theorem covered_of_locked {r w : List Acct} {a : Nat} {p : Posting}
    (hs : p.src = "world" ∨ p.src ∈ w) (hd : p.dst = "world" ∨ p.dst ∈ r) : covered ⟨a, r, w⟩ (toEngine p) = true := by
  rcases hs with hs | hs <;> rcases hd with hd | hd <;> simp [covered, toEngine, hs, hd]

/-- C01's floor (per (account, asset) bound `g`, real balances `R`) implies Floor's floor check (one bound `go` per
request, balances `bal` as read) when the two balance tables agree on the tracked pairs `K`, every source is tracked,
and `go` dominates the script's grant on every source -/
theorem floorOk_of_FloorOK (g : Acct → Asset → Option Int) (go : Option Int) (K : Acct → Asset → Prop) :
    (ps : List Posting) → (R bal : Acct → Asset → Int) → (∀ x A, K x A → bal x A = R x A) → FloorOK g R ps →
    (∀ p ∈ ps, p.src ≠ "world" → K p.src p.asset ∧
      (go = none ∨ ∃ gv gg, g p.src p.asset = some gv ∧ go = some gg ∧ gv ≤ gg)) →
    floorOk go bal (ps.map toEngine) = true
  | [], _, _, _, _, _ => rfl
  | p :: ps, R, bal, hag, hfl, hsrc => by
    obtain ⟨hp, hrest⟩ := hfl
    simp only [List.map_cons, floorOk, Bool.and_eq_true]
    constructor
    · by_cases hw : p.src = "world"
      · simp [toEngine, hw]
      · obtain ⟨hK, hg⟩ := hsrc p List.mem_cons_self hw
        rcases hg with hn | ⟨gv, gg, hgv, hgo, hle⟩
        · simp [hn]
        · rcases hp hw gv hgv with h0 | hge
          · simp [toEngine, h0]
          · have := hag _ _ hK
            simp only [toEngine, hgo, Bool.or_eq_true]
            right
            exact decide_eq_true (by omega)
    · refine floorOk_of_FloorOK g go K ps (applyPosting R p) _ ?_ hrest
        (fun q hq => hsrc q (List.mem_cons_of_mem _ hq))
      intro x A hK
      have hb := hag x A hK
      simp only [toEngine, applyPosting, eq_comm (a := p.src) (b := x), eq_comm (a := p.dst) (b := x),
        eq_comm (a := p.asset) (b := A)]
      rw [hb]
      by_cases hA : A = p.asset
      · subst hA
        by_cases hd : x = p.dst
        · subst hd
          by_cases hs : p.dst = p.src <;> simp [hs] <;> omega
        · by_cases hs : x = p.src
          · subst hs; simp [hd]
          · simp [hd, hs]
      · simp [hA]

end Num
