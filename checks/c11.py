"""C11 — a transaction reference is committed at most once."""
from checks.enginelib import *
from checks import stresslib

META = {
    "text": 'Lean: Guard instantiated for references; theorems reference_unique over all accepted event sequences, commit_needs_miss, refused_changes_nothing / found_changes_nothing / loser_changes_nothing (a request whose reservation is refused or whose lookup finds the reference leaves the state unchanged and no entry with the reference is accepted from it). Tie: trace validation (guard-ref); oracle: committed transactions per reference.',
    "note": 'Trusted: Lean kernel; event extraction.',
    "technique": 'Lean 4 proof (Guard invariant) + trace validation + per-reference oracle + regenerated commander skeleton (extract/commander -> Generated/Commander.lean on every run): well-formedness of every control path by decide, refinement of this component by the interpreted skeleton under every schedule, observed runs re-executed in the skeleton system',
    "design_ref": '5 (C11)',
}


def run(ctx):
    area = stresslib.replay_area(ctx)
    if area == stresslib.AREA:       # a replay of the stress stage: the bounded search alone
        ctx.l1()
        stresslib.run_stress(ctx, 'C11')
        return
    run_check(ctx, 'C11', ["guard-ref"], lambda scn, run: sum(1 for q in scn["requests"] if q.get("ref")) >= 2, 'at least two requests share a reference')
    if area is not None:
        return
    # stage 2: the reservation primitive (no scheduling point inside) under truly simultaneous goroutines
    stresslib.run_stress(ctx, 'C11')
