"""C11 — a transaction reference is committed at most once."""
from checks.enginelib import *
from checks import stresslib

META = {
    "text": 'Lean: Guard instantiated for references; theorems reference_unique over all accepted event sequences, commit_needs_miss, refused_changes_nothing / found_changes_nothing / loser_changes_nothing (a request whose reservation is refused or whose lookup finds the reference leaves the state unchanged and no entry with the reference is accepted from it). Tie: trace validation (guard-ref); oracle: committed transactions per reference value as committed; the entry a request wrote and the transaction it was answered carry the reference AS SUBMITTED (reference-altered); a request accepted although a transaction persisted before carries its reference as submitted (accepted-although-committed); references under several spellings (blanks, tab, newline, no-break space, letter case, NUL). Stage 2, the reservation primitive (no scheduling point inside): area engstress — goroutines released together by a spinning barrier call the real Referencer.take with one key (exactly one may win) and the real Commander with one reference (one accepted, one committed); a bounded search, rates and processors in coverage.stress.',
    "note": 'Trusted: Lean kernel; event extraction.',
    "technique": 'Lean 4 proof (Guard invariant) + trace validation + per-reference oracle + regenerated commander skeleton (extract/commander -> Generated/Commander.lean on every run): well-formedness of every control path by decide, refinement of this component by the interpreted skeleton under every schedule, observed runs re-executed in the skeleton system',
    "design_ref": '5 (C11)',
}


def run(ctx):
    area = stresslib.replay_area(ctx)
    if area == stresslib.AREA:       # a replay of the stress stage: the bounded search alone
        ctx.l1()
        stresslib.run_stress(ctx, 'C11')
        return
    run_check(ctx, 'C11', ["guard-ref"], lambda scn, run: sum(1 for q in scn["requests"] if q.get("ref")) >= 2, 'at least two requests share a reference')
    if area is not None:
        return
    # stage 2: the reservation primitive (no scheduling point inside) under truly simultaneous goroutines
    stresslib.run_stress(ctx, 'C11')
