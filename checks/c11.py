"""C11 — a transaction reference is committed at most once."""
from checks.enginelib import *

META = {
    "text": 'Lean: Guard instantiated for references; theorem reference_unique over all accepted event sequences; loser_changes_nothing. Tie: trace validation; oracle: committed transactions per reference.',
    "note": 'Trusted: Lean kernel; event extraction.',
    "technique": 'Lean 4 proof (Guard invariant) + trace validation + per-reference oracle',
    "design_ref": '5 (C11)',
}


def run(ctx):
    run_check(ctx, 'C11', ["guard-ref"], lambda scn, run: sum(1 for q in scn["requests"] if q.get("ref")) >= 2, 'at least two requests share a reference')
