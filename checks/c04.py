"""C04 — what the read API reports is the replay of the log   (PARTIAL: PostgreSQL cannot be run in the sandbox; the projection half is proved at model level for every history)."""
import collections

from vlib.common import *
from vlib import regen
from checks import c04sql
from checks import c04filter as cf
from checks import c04pit
from checks import c04eval

META = {
    "text": "PARTIAL.  Stage 1 (proved + tied): Lean theorems about Store.replay, the independent fold of a bucket's log entries the property "
            "speaks about — replay_conservation (per asset, inputs summed over all accounts = outputs; current, as of an instant, by effective "
            "date), replay_ledger_independent / replay_own_entries_only (any interleaving of other ledgers' entries leaves a ledger's view "
            "unchanged), balance_is_input_minus_output, revert_flag_exact / revert_flag_sound, metadata laws on accounts and transactions, "
            "pit_monotone / pit_volumes / pit_prefix / pit_prefix_bucket (the record as of t is the replay of the entries dated <= t) — for every "
            "log sequence; tied to the code by (a) a seeded differential of the REAL in-memory store (storage.NewInMemoryStore: InsertLogs, "
            "GetBalance, GetAccount, GetTransaction, GetTransactionByReference, GetLastLog, GetLastTransaction, ReadLogWithIdempotencyKey) against "
            "replay, with an independent Python fold of the same logs as oracle, and (b) a structural obligation on the SQL text of EVERY read "
            "method of the real ledgerstore.Store (captured over bun + a recording database/sql driver for a lattice of PIT / expand / filter "
            "parameters) and on every `language sql` function of 0-init-schema.sql: each base-table reference is restricted to the store's ledger.  "
            "Stage 2 (MODEL LEVEL ONLY): extract/plpgsql (lark) re-translates 0-init-schema.sql on every run into Generated/Schema.lean (one "
            "structure per table, one definition per PL/pgSQL function / trigger: handle_log, insert_transaction, insert_posting, insert_move, "
            "upsert_account, update/delete_*_metadata, revert_transaction, the four history triggers) over the combinators of Model/Store/Sql.lean; "
            "the projection half is now PROVED for every history (Props/C04.lean, section 'the full theorem'; Lemmas/StoreSql*.lean): "
            "projection_refines_replay - for EVERY log sequence (any length, any number of ledgers in the bucket, back- and future-dated transactions, "
            "reverts of anything, metadata set/delete on accounts and transactions that exist or not, script account metadata, ids and dates of any kind) "
            "whose metadata maps have distinct keys (StoreSql.wellFormedHistory, decidable; the only hypothesis: a jsonb object / Go map cannot list a key "
            "twice, the association lists of the model could), the tables the GENERATED trigger chain fills agree with Store.replay on every clause the "
            "executable comparison checks (latest move by seq = running volumes; latest move by (effective_date, seq) dated <= d = effective volumes at d; "
            "transactions with id, timestamp, reference, metadata, revisions, reverted_at; accounts with metadata and revisions; counts) and frameBad = []; "
            "ledger_frame - for every projected history and every further entry the rows of every OTHER ledger in all five tables are EQUAL before and "
            "after (no hypothesis); insert_move_maintains_volumes (every database state: the two select-into, the insert and the update of the later-dated "
            "rows keep running and effective totals); projection_running_volumes / projection_effective_volumes (clauses (i), (ii) as a reader of moves uses them, "
            "(ii) for EVERY date d, not only the dates that occur); generated_step_refines_typed_step (one INSERT into logs through the generated handle_log chain is the "
            "typed step aStep, every database, every entry - the ONLY layer that unfolds Generated/Schema.lean: it stops checking when the SQL changes, "
            "e.g. the seeded order-by change C04-1 or the missing `if not found` reset of 6 #24); projection_invariant; wellFormed_examples / wellFormed_needed "
            "(the hypothesis holds on the rich example and on all 316 small histories, and cannot be dropped: J.beq is not reflexive on a 'map' with a key "
            "twice); the check evaluates wellFormedHistory on every generated and enumerated history of the run (all satisfy it).  Kept from before, now "
            "redundant confirmations by evaluation: projection_refines_replay_partial_small_scope (all 316 histories of <= 2 entries, kernel-evaluated), "
            "projection_refines_replay_partial_example, revert_sets_reverted_at_exactly, metadata_updates_keep_reverted_at, projection_frame_partial; "
            "the witnesses of the three repaired defects, now agreeing: "
            "projection_backdated_move_effective_volumes (design 6 #24), projection_self_posting_new_account, projection_timestamp_utc + "
            "stored_timestamps_are_utc (#25; projection_timestamp_offset_dropped keeps what the SQL would do with an offset: latent), and "
            "get_account_balance_before_witness (#22, latent); the same comparison runs executably on every generated history of the run - with the offset "
            "OBSERVED in the timestamp text the real ParseTime + json.Marshal produce - and on an exhaustive enumeration to depth 3 (quick) / 4 (thorough).  "
            "FILTERS (quantifier 'every point-in-time and filter'): "
            "filter_where_means_filter — for every listing, PIT flag, ledger and EVERY filter expression that renders, the tokens of the where text "
            "(Model.SqlText.exprPieces, the model of libs/query set/not/keyValue.Build + the ContextFn leaf renderers) are read by boolParse "
            "(parentheses, NOT > AND > OR) as a tree whose value under every assignment of the atomic conditions is the intended meaning sem of "
            "the expression ($not negation, $and conjunction, $or disjunction, account-on-transactions = source OR destination, wildcard address = "
            "length AND segments), by induction over exprPieces/setTail, all depths and list lengths; filter_text_wraps, filter_attached_as_conjunct "
            "(bun's `(c1) AND … AND (filter)` reads as the conjunction), leaf_text_means_leaf, not_needs_its_parentheses (the unparenthesised "
            "variant reads differently); tied to the REAL SQL by a filter-structure lattice ($not over every kind of leaf, $not over $and/$or of >= 2, "
            "nestings 3 deep, every sub-expression captured under the same parameters) with an independent Python oracle (checks/c04filter.py: "
            "precedence-aware skeleton of the captured WHERE clause; attachment to the unfiltered statement's conjuncts; skeleton($not F) == NOT skeleton(F), "
            "$and/$or likewise, as truth tables) and the Lean driver area filtersem (model fragment == real fragment; Lean reading == Python reading of the "
            "real fragment and of the real WHERE clause; reading == meaning).  "
            "POINT-IN-TIME READS OF moves: pit_read_pairing = pit_read_by_insertion_date (P1: for every history with distinct metadata keys and non-decreasing log "
            "dates, every ledger, account, asset and instant t, among the projected rows with insertion_date <= t the one with the greatest seq carries in "
            "post_commit_volumes the replayed inputs and outputs of the entries inserted by t; Lemmas/StoreSqlPit.lean: the rows' insertion_date is the replayed move's "
            "(InsRel, kept by every entry), replayed moves are in insertion-date order, clause_pit) + pit_read_by_effective_date (P2: rows effective_date <= t, last by "
            "(effective_date, seq), post_commit_effective_volumes = replayed volumes by effective date; every history) + pit_mixed_read_witness (kernel-evaluated on "
            "wPairing, the history of seeded change c04-r4-1: cut on effective_date, latest by seq, post_commit_volumes is NEITHER replayed figure) + "
            "pit_read_by_insertion_date_needs_ordered_dates; tied to the real SQL twice: checks/c04pit.py reads (date column, keys that pick the row, volumes column) off "
            "every latest-row read of moves in every captured statement and in the schema functions the point in time is passed to (`_before`, positional or named) and "
            "accepts P1 and P2 only (pit-pairing); checks/c04eval.py EVALUATES the captured GetAggregatedBalances statements (conditions, DISTINCT ON, ORDER BY, summed "
            "column read from the text) on the moves rows the regenerated trigger chain projects for generated histories, at instants between insertion and timestamp "
            "order, with and without an address filter, against an independent fold of the entries inserted by the instant (read-differs-from-replay; model-level rows, "
            "real statement text).  "
            "Still NOT proved / not done: reads_equal_replay in general (what the Go query builders compute is not modelled beyond the above), and nothing executes PostgreSQL: "
            "projection_refines_replay is about the Lean translation of the PL/pgSQL under the semantics of Model/Store/Sql.lean; revision DATES of the "
            "history tables and the `date` passed to upsert_account for script metadata (the transaction timestamp, not the log date) are not compared.",
    "note": "Stage 2 rests on Model/Store/Sql.lean, my reading of PostgreSQL (three-valued logic, select-into assigning NULLs when no row is "
            "returned, on-conflict, row-level after triggers, jsonb operators, ::timestamp dropping the zone) - TRUSTED, nothing can execute SQL here; "
            "its findings are model-level replays.  Not covered: executing the SQL.  The PostgreSQL projection (triggers of 0-init-schema.sql) and the read queries are never run; the "
            "ledger predicate is a syntactic obligation on captured text, what the queries COMPUTE is not compared with replay here.  Trusted: Lean "
            "kernel (axioms propext/Classical.choice/Quot.sound at most); Store.replay as the reading of 'the replay of the log'; the Go harness and "
            "its generator; bun's rendering as captured; the little SQL block parser of checks/c04sql.py (fails loudly on shapes it does not know) "
            "and its rule that a row joined by its foreign key <t>_seq to the primary key seq of a ledger-restricted row is itself restricted; "
            "PIT PAIRING: checks/c04pit.py is syntactic (a block over the base table moves with `order by … limit 1` or `distinct on`; the conjunct comparing a date column "
            "with the PIT literal / `_before`; the volumes column of the select list, or the one the rest of the statement reads when the block returns *) and refuses shapes it "
            "does not know; not judged, reported in the evidence: latest-row reads under a PIT that are not cut at it (the balance filter of the accounts listing) and the "
            "mixed readings of get_account_balance / aggregate_ledger_volumes, which no captured statement passes a point in time (design 6 #22); checks/c04eval.py's "
            "interpreter knows the one statement shape GetAggregatedBalances emits.  "
            "FILTERS: the boolean reading of NOT / AND / OR precedence (Lean boolParse and, independently, checks/c04filter.py) is my model of "
            "PostgreSQL's grammar; atomic conditions are opaque (what `sources @> '[\"bank\"]'` selects is not modelled); the theorem speaks about the "
            "scanner's tokens piece by piece, that they are the tokens of the text scanned as a whole is checked by the driver on every captured case, not proved.",
    "technique": "Lean 4 proofs by induction over the log sequence / the interleaving + differential correspondence with the in-memory store + "
                 "structural obligation on captured SQL text (+ stage 2: PL/pgSQL-to-Lean translation regenerated on every run)",
    "design_ref": "5 (C04), 3.7, 6 #16 #22 #24 #25, 8, appendix D",
}

SCHEMA_SQL = "internal/storage/ledgerstore/migrations/0-init-schema.sql"

# ---------------------------------------------------------------- independent Python fold (L3 oracle for the in-memory store)


def py_replay(inp):
    """The property itself: replay the logs of each ledger, in order, and answer the probes.  Written against the property text,
    not against the Lean model: dictionaries and running state instead of recorded moves."""
    res = []
    for name in inp["ledgers"]:
        bal = collections.defaultdict(int)     # (account, asset) -> balance
        vol = collections.defaultdict(lambda: [0, 0])
        acct_meta = {}
        txs = {}                               # id -> dict (first wins on lookup by id, like a list scan)
        tx_order = []
        logs = []
        for l in inp["logs"]:
            if l["ledger"] != name:
                continue
            logs.append(l)
            t = l["type"]
            if t in ("NEW_TRANSACTION", "REVERTED_TRANSACTION"):
                tx = l["tx"]
                for p in tx["postings"]:
                    a = int(p["amount"])
                    bal[(p["source"], p["asset"])] -= a
                    bal[(p["destination"], p["asset"])] += a
                    vol[(p["source"], p["asset"])][1] += a
                    vol[(p["destination"], p["asset"])][0] += a
                rec = {"id": tx["id"], "postings": tx["postings"], "metadata": dict(tx.get("metadata") or {}),
                       "timestamp": tx["timestamp"], "reference": tx.get("reference", ""), "reverted": False}
                if t == "REVERTED_TRANSACTION":
                    for r in tx_order:
                        if r["id"] == l["revertedId"]:
                            r["reverted"] = True
                tx_order.append(rec)
                txs.setdefault(tx["id"], rec)
                if t == "NEW_TRANSACTION":
                    for a, m in (l.get("accountMetadata") or {}).items():
                        acct_meta.setdefault(a, {}).update(m)
            elif t == "SET_METADATA":
                if l["targetType"] == "ACCOUNT":
                    acct_meta.setdefault(l["targetId"], {}).update(l["metadata"])
                else:
                    for r in tx_order:
                        if r["id"] == l["targetId"]:
                            r["metadata"].update(l["metadata"])
            elif t == "DELETE_METADATA":
                if l["targetType"] == "ACCOUNT":
                    acct_meta.get(l["targetId"], {}).pop(l["key"], None)
                else:
                    for r in tx_order:
                        if r["id"] == l["targetId"]:
                            r["metadata"].pop(l["key"], None)
        pr = inp["probe"]
        out = {"name": name}
        out["balances"] = [{"account": a, "asset": x, "balance": str(bal[(a, x)])} for a in pr["accounts"] for x in pr["assets"]]
        out["accounts"] = [{"address": a, "metadata": acct_meta.get(a, {})} for a in pr["accounts"]]
        out["txs"] = []
        for i in pr["txids"]:
            r = txs.get(i)
            out["txs"].append({"found": False, "id": str(i)} if r is None else
                              {"found": True, "id": str(r["id"]), "postings": r["postings"], "metadata": r["metadata"],
                               "timestamp": r["timestamp"], "reference": r["reference"], "reverted": r["reverted"]})
        out["byRef"] = [{"ref": ref, "id": next((str(r["id"]) for r in tx_order if r["reference"] == ref), None)} for ref in pr["refs"]]
        out["byIk"] = [{"ik": k, "id": next((str(l["id"]) for l in logs if l.get("ik", "") == k), None)} for k in pr["iks"]]
        out["lastLog"] = {"id": str(logs[-1]["id"]), "type": logs[-1]["type"]} if logs else None
        out["lastTx"] = str(tx_order[-1]["id"]) if tx_order else None
        out["_volumes"] = {k: tuple(v) for k, v in vol.items()}
        res.append(out)
    return res


FIELD_CLASS = {"balances": "inmemory-balance", "accounts": "inmemory-account-metadata", "txs": "inmemory-transaction",
               "byRef": "inmemory-reference", "byIk": "inmemory-idempotency-key", "lastLog": "inmemory-last-log", "lastTx": "inmemory-last-transaction"}


def tx_diff_kind(a, b):
    for x, y in zip(a or [], b or []):
        if canon(x) != canon(y):
            if x.get("found") and y.get("found"):
                ks = [k for k in x if canon(x.get(k)) != canon(y.get(k))]
                return "+".join(sorted(ks))
            return "found"
    return "length"


def oracle_storeview(ctx, inputs, impl):
    stats = collections.Counter()
    for inp in inputs:
        out = impl.get(inp["id"])
        if out is None:
            continue
        if "panic" in out or "error" in out:
            ctx.violation({"property": "C04", "class": "inmemory-crash"}, "in-memory store failed on a well-formed history: %s" % (out.get("panic") or out.get("error")),
                          {"area": "storeview", "input": inp, "observed": out})
            continue
        want = py_replay(inp)
        for w, got in zip(want, out["ledgers"]):
            for f, cls in FIELD_CLASS.items():
                if canon(w[f]) != canon(got.get(f)):
                    sig = {"property": "C04", "class": cls}
                    if f == "txs":
                        sig["field"] = tx_diff_kind(w[f], got.get(f))
                    ctx.violation(sig, "ledger %s: the in-memory store reports %s that are not the replay of its log (field %s)" % (w["name"], f, sig.get("field", f)),
                                  {"area": "storeview", "input": inp, "observed": {f: got.get(f)}, "expected": {f: w[f]}})
            # conservation evaluated on what the implementation reports: per asset the balances of all accounts sum to zero
            for x in inp["probe"]["assets"]:
                s = sum(int(b["balance"]) for b in got.get("balances", []) if b["asset"] == x)
                stats["conservation-sums"] += 1
                if s != 0:
                    ctx.violation({"property": "C04", "class": "conservation", "store": "inmemory"},
                                  "ledger %s asset %s: balances over all accounts sum to %d" % (w["name"], x, s),
                                  {"area": "storeview", "input": inp, "observed": got.get("balances")})
    return stats


def storeview_distribution(inputs):
    d = collections.Counter()
    for i in inputs:
        d["ledgers=%d" % len(i["ledgers"])] += 1
        dates = [l["date"] for l in i["logs"]]
        d["dates-sorted" if all(a <= b for a, b in zip(dates, dates[1:])) else "dates-unsorted"] += 1
        for l in i["logs"]:
            d["log:" + l["type"] + ("/" + l["targetType"] if "targetType" in l else "")] += 1
            if "tx" in l:
                ts, dt = l["tx"]["timestamp"], l["date"]
                d["tx:back-dated" if ts < dt else "tx:future-dated" if ts > dt else "tx:dated-now"] += 1
                if any(p["source"] == p["destination"] for p in l["tx"]["postings"]):
                    d["tx:self-posting"] += 1
                if any(len(p["amount"]) > 19 for p in l["tx"]["postings"]):
                    d["tx:amount>2^63"] += 1
                if l.get("accountMetadata"):
                    d["tx:account-metadata-by-script"] += 1
    return dict(sorted(d.items()))


def nontrivial_storeview(i):
    kinds = {l["type"] for l in i["logs"]}
    return len(i["logs"]) >= 3 and len(kinds) >= 2


# ---------------------------------------------------------------- running one harness area (with or without the Lean model)


def run_area(ctx, area, n, with_model):
    if ctx.replay_file:
        rp = json.load(open(ctx.replay_file))["replay"]
        if rp.get("area") != area:
            return None
        inputs = rp["inputs"] if "inputs" in rp else [rp["input"]]
        for k, r in enumerate(inputs):
            r.setdefault("id", k)
    else:
        gen = ctx.path(area + ".gen.jsonl")
        p = run_harness([area, "gen", "-seed", ctx.seed, "-n", n, "-tier", ctx.tier, "-out", gen])
        if p.returncode != 0:
            ctx.l2_broken.append({"stream": area + "-gen", "detail": (p.stdout + p.stderr)[-2000:]})
            return None
        inputs = corpus_inputs(area) + read_jsonl(gen)
    inp = ctx.path(area + ".in.jsonl")
    write_jsonl(inp, inputs)
    implf, modelf = ctx.path(area + ".impl.jsonl"), ctx.path(area + ".model.jsonl")
    p = run_harness([area, "exec", "-in", inp, "-out", implf])
    if p.returncode != 0:
        ctx.l2_broken.append({"stream": area + "-exec", "detail": (p.stdout + p.stderr)[-2000:]})
        return None
    impl = {r["id"]: r["out"] for r in read_jsonl(implf)}
    model = None
    if with_model:
        p = run_driver(area, inp, modelf)
        if p.returncode != 0:
            ctx.l2_broken.append({"stream": area + "-driver", "detail": (p.stdout + p.stderr)[-2000:]})
        else:
            model = {r["id"]: r["out"] for r in read_jsonl(modelf)}
    return inputs, impl, model


# ---------------------------------------------------------------- captured read SQL: the ledger predicate


def check_read_sql(ctx, inputs, impl, ledger_funcs):
    st = collections.Counter()
    hows = collections.Counter()
    methods = collections.Counter()
    for inp in inputs:
        out = impl.get(inp["id"])
        if out is None:
            continue
        if "panic" in out:
            ctx.l2_broken.append({"stream": "readsql-panic", "id": inp["id"], "input": inp, "impl": out})
            continue
        m = inp["method"]
        if out.get("err") and out["err"] not in ("not found",):
            st["method-error"] += 1
            ctx.l2_broken.append({"stream": "readsql-method-error", "id": inp["id"], "input": inp, "impl": out["err"]})
        stmts = [q for q in out["sql"] if not q.startswith("PREPARE ")]
        if m == "InsertLogs":
            rows = out.get("copy") or []
            st["copy-rows"] += len(rows)
            if not rows or not any(q.startswith("PREPARE COPY") for q in out["sql"]):
                ctx.l2_broken.append({"stream": "readsql-insertlogs-shape", "id": inp["id"], "input": inp, "impl": out})
            for r in rows:
                if r[0] != inp["ledger"]:
                    ctx.violation({"property": "C04", "class": "insert-ledger-column"}, "InsertLogs wrote ledger %r for store %r" % (r[0], inp["ledger"]),
                                  {"area": "readsql", "input": inp, "observed": r[:3]})
            continue
        if not stmts:
            ctx.l2_broken.append({"stream": "readsql-no-statement", "id": inp["id"], "input": inp, "impl": out})
        for q in stmts:
            if q == "ARGS-REACHED-DRIVER" or q.startswith("EXEC "):
                ctx.l2_broken.append({"stream": "readsql-unexpected-statement", "id": inp["id"], "input": inp, "impl": q})
                continue
            st["statements"] += 1
            methods[m] += 1
            try:
                a = c04sql.analyse(q, ("str", inp["ledger"]), ledger_funcs)
            except c04sql.SqlShapeError as e:
                ctx.l2_broken.append({"stream": "readsql-shape", "id": inp["id"], "input": inp, "impl": q, "detail": str(e)})
                continue
            if not a.refs and not a.calls:
                ctx.l2_broken.append({"stream": "readsql-no-table", "id": inp["id"], "input": inp, "impl": q})
            for r in a.refs:
                st["table-references"] += 1
                hows["%s: %s" % (r["table"], r["how"] or "UNRESTRICTED")] += 1
                if not r["restricted"]:
                    ctx.violation({"property": "C04", "class": "ledger-predicate", "method": m, "table": r["table"]},
                                  "%s of the store of ledger %r reads table %s (alias %s) without restricting it to that ledger: %s" % (
                                      m, inp["ledger"], r["table"], r["alias"], q[:300]),
                                  {"area": "readsql", "input": inp, "observed": {"sql": q, "unrestricted": r}})
            for c in a.calls:
                st["ledger-function-calls"] += 1
                hows["call %s(%s, …)" % (c["func"], "L" if c["ok"] else "?")] += 1
                if not c["ok"]:
                    ctx.violation({"property": "C04", "class": "ledger-predicate", "method": m, "function": c["func"]},
                                  "%s calls %s without passing the store's ledger as first argument" % (m, c["func"]),
                                  {"area": "readsql", "input": inp, "observed": {"sql": q}})
    return st, hows, methods


# ---------------------------------------------------------------- captured read SQL: what a point-in-time read of `moves` computes

PIT_WANT = {   # (method, volumes column) that the lattice must have captured under a point in time, for the obligation to mean something
    ("GetAggregatedBalances", "post_commit_volumes"),
    ("GetAccountsWithVolumes", "post_commit_volumes"), ("GetAccountsWithVolumes", "post_commit_effective_volumes"),
    ("GetAccountWithVolumes", "post_commit_volumes"), ("GetAccountWithVolumes", "post_commit_effective_volumes"),
}


def check_pit_pairing(ctx, inputs, impl, fns, ledger_funcs):
    """checks/c04pit.py on every captured statement: every latest-row read of `moves` — in the statement or in a schema function it
    calls, the point in time following the `_before` arguments — must cut, order and read by ONE of the two orders a row's totals
    are kept in (C04.pit_read_pairing)."""
    pp = c04pit.PitPairing(fns, ledger_funcs)
    st = collections.Counter()
    triples = collections.Counter()
    unfiltered = collections.Counter()
    reached, seen_pit = set(), set()
    for inp in inputs:
        out = impl.get(inp["id"])
        m = inp["method"]
        if out is None or "panic" in out or m == "InsertLogs":
            continue
        has_pit = inp.get("pit") is not None
        for q in out["sql"]:
            if q.startswith("PREPARE ") or q == "ARGS-REACHED-DRIVER" or q.startswith("EXEC "):
                continue
            low = q.lower()
            if "moves" not in low and "get_" not in low and "aggregate_" not in low:
                continue
            st["statements_looked_at"] += 1
            try:
                reads = pp.statement(q, has_pit, inp["ledger"])
            except c04sql.SqlShapeError as e:
                ctx.l2_broken.append({"stream": "readsql-pit-shape", "id": inp["id"], "input": inp, "impl": q, "detail": str(e)})
                continue
            for r in reads:
                st["latest_row_reads"] += 1
                if r["pit_bound"]:
                    st["latest_row_reads_under_a_point_in_time"] += 1
                for f in r["via"]:
                    reached.add((f, r["pit_bound"]))
                key = "%s | %s | cut on %s | latest by (%s) | reads %s" % (
                    m, "/".join(r["via"]) or "query", ", ".join("%s %s PIT" % tuple(d) for d in r["date"]) if r["pit_bound"] and r["date"] else
                    ("no point in time" if not r["pit_bound"] else "NOT CUT"), ", ".join(r["row_picked_by"]), r["volumes_column"])
                triples[key] += 1
                if r["pit_bound"] and r["verdict"] == "sound" and r["volumes_column"]:
                    seen_pit.add((m, r["volumes_column"]))
                if r["verdict"] == "no-pit-predicate":
                    unfiltered["%s %s" % (m, "filter on balance" if "balance_from_volumes" in low else "?")] += 1
                    continue
                if r["verdict"] != "unsound":
                    continue
                where = "its own SQL" if not r["via"] else "schema function %s (reached through %s)" % (r["site"], " -> ".join(r["via"]))
                ctx.violation({"property": "C04", "class": "pit-pairing", "method": m, "site": r["site"]},
                              "%s%s, %s: a row of moves is picked per account and asset — rows cut on %s, the latest by (%s), column %s — %s.  Sound are only: "
                              "insertion_date <= PIT / latest by seq / post_commit_volumes, and effective_date <= PIT / latest by (effective_date, seq) / "
                              "post_commit_effective_volumes (C04.pit_read_pairing; the mixed read differs from both replayed figures on C04.wPairing)" % (
                                  m, " at a point in time" if r["pit_bound"] else "", where,
                                  ", ".join("%s %s PIT" % tuple(d) for d in r["date"]) or "nothing", ", ".join(r["row_picked_by"]) or "nothing",
                                  r["volumes_column"], r["why"]),
                              {"area": "readsql", "input": {k: v for k, v in inp.items() if k != "corpus"},
                               "observed": {"sql": q, "read": r, "function_body": fns[r["site"]]["body"] if r["site"] in fns else None,
                                            "sound_pairings": c04pit.SOUND}})
    if not ctx.replay_file and PIT_WANT - seen_pit:
        ctx.l2_broken.append({"stream": "readsql-pit-pairing-coverage", "detail": "no sound point-in-time read captured for %s" % sorted(PIT_WANT - seen_pit)})
    return {
        "statements_looked_at": st["statements_looked_at"], "latest_row_reads_of_moves": st["latest_row_reads"],
        "of_which_under_a_point_in_time": st["latest_row_reads_under_a_point_in_time"],
        "reads (method | where | date cut | order | volumes column)": dict(sorted(triples.items())),
        "sound_pairings": c04pit.SOUND,
        "OBSERVATION latest-row reads of moves for a request WITH a point in time that are NOT cut at it (not judged by the pairing: the balance "
        "filter of the accounts listing compares the CURRENT balance, also when the listing is as of a past instant)": dict(sorted(unfiltered.items())),
        "LATENT schema functions whose _before reading is not one of the sound pairings; no captured statement passes them a point in time "
        "(DESIGN 6 #22)": pp.latent(reached),
    }


# ---------------------------------------------------------------- captured read SQL: the WHERE clause built for a filter MEANS the filter

FILTER_EP = {"GetAccountsWithVolumes": "accounts", "CountAccounts": "accounts", "GetTransactions": "transactions",
             "CountTransactions": "transactions", "GetAggregatedBalances": "balances", "GetLogs": "logs"}


def canon_filter(f):
    return json.dumps(json.loads(f), separators=(",", ":"), ensure_ascii=False)


def check_filter_structure(ctx, inputs, impl, have_driver):
    """checks/c04filter.py on every captured filter case: attachment to the statement's own conjuncts, composition of
    $not / $and / $or (truth tables over the atoms of the captured SQL), and the Lean model's reading (driver area
    `filtersem`) against the Python oracle's on the same text."""
    st = collections.Counter()
    rates = collections.Counter()
    groups = {}
    for inp in inputs:
        m = inp["method"]
        if m not in FILTER_EP:
            continue
        out = impl.get(inp["id"])
        if out is None or "panic" in out or out.get("err"):
            continue
        stmts = [q for q in out["sql"] if not q.startswith("PREPARE ")]
        if len(stmts) != 1:
            continue
        key = (m, inp["ledger"], canon(inp.get("pit")), bool(inp.get("vol")), bool(inp.get("eff")))
        f = inp.get("filter") or ""
        groups.setdefault(key, {})[canon_filter(f) if f else ""] = (inp, stmts[0])

    def strip_id(i):
        return {k: v for k, v in i.items() if k not in ("corpus",)}

    skel = {}        # (key, canonical filter) -> (filter conjunct tree, its text, where text)
    rows = []        # for the Lean driver
    for key, cases in sorted(groups.items(), key=lambda kv: canon(kv[0])):
        base = cases.get("")
        base_cs = None
        if base is not None:
            try:
                base_cs = cf.ledger_where(base[1], key[1])[2]
            except cf.SkeletonError as e:
                ctx.l2_broken.append({"stream": "readsql-skeleton", "id": base[0]["id"], "input": base[0], "impl": base[1], "detail": str(e)})
        for cfil, (inp, sql) in cases.items():
            if cfil == "":
                continue
            st["filter-cases"] += 1
            for c in cf.shape_of(cfil):
                rates[c] += 1
            try:
                toks, wtext, cs = cf.ledger_where(sql, key[1])
                texts = cf.conjunct_texts(toks, wtext)
            except cf.SkeletonError as e:
                ctx.l2_broken.append({"stream": "readsql-skeleton", "id": inp["id"], "input": inp, "impl": sql, "detail": str(e)})
                continue
            ok = len(cs) >= 2 and any(cf.is_ledger_predicate(c, key[1]) for c in cs[:-1]) and texts is not None and len(texts) == len(cs)
            if ok and base_cs is not None:
                ok = cs[:-1] == base_cs
            st["attachment-checked"] += 1
            if not ok:
                ctx.violation({"property": "C04", "class": "filter-attachment", "method": key[0]},
                              "%s: the WHERE clause for filter %s is not `<conjuncts of the unfiltered statement> AND (<one filter conjunct>)`: %s" % (
                                  key[0], cfil, cf.show(("and", cs) if len(cs) > 1 else cs[0])),
                              {"area": "readsql", "inputs": [strip_id(inp)] + ([strip_id(base[0])] if base else []),
                               "observed": {"filter": cfil, "sql": sql, "where": wtext,
                                            "unfiltered_conjuncts": [cf.show(c) for c in base_cs or []]}})
                continue
            skel[(key, cfil)] = (cs[-1], texts[-1], wtext)
            rows.append({"id": inp["id"], "ep": FILTER_EP[key[0]], "pit": inp.get("pit") is not None, "ledger": key[1],
                         "filter": cfil, "frag": texts[-1], "where": wtext})

    # ---- composition
    conn_stats = collections.Counter()
    for (key, cfil), (tree, text, wtext) in sorted(skel.items(), key=lambda kv: canon([kv[0][0], kv[0][1]])):
        conn, subs = cf.sub_filters(cfil)
        if conn is None:
            st["leaf-cases"] += 1
            continue
        cases = groups[key]
        subs = [canon_filter(x) for x in subs]
        missing = [x for x in subs if (key, x) not in skel]
        if missing:
            st["composite-without-captured-parts"] += 1
            if not ctx.replay_file and cases[cfil][0].get("lattice") == "structure":
                ctx.l2_broken.append({"stream": "readsql-structure-closure", "id": cases[cfil][0]["id"], "input": cases[cfil][0],
                                      "detail": "sub-filters not captured / not analysable: %s" % missing[:2]})
            continue
        parts = [skel[(key, x)][0] for x in subs]
        want = ("not", parts[0]) if conn == "not" else ("tt" if not parts else (conn, parts))
        conn_stats[conn] += 1
        st["compositions-checked"] += 1
        try:
            a = cf.first_difference(tree, want)
        except cf.SkeletonError as e:
            ctx.l2_broken.append({"stream": "readsql-skeleton", "id": cases[cfil][0]["id"], "input": cases[cfil][0], "detail": str(e)})
            continue
        if a is not None:
            inp, sql = cases[cfil]
            sub_cases = [cases[x] for x in dict.fromkeys(subs)]
            ctx.violation({"property": "C04", "class": "filter-structure", "connective": conn, "method": key[0]},
                          "%s, filter %s: the SQL sent reads %s, but its part%s read%s %s — with %s the filter asked for selects the row = %s, the SQL selects it = %s" % (
                              key[0], cfil, cf.show(tree), "" if len(parts) == 1 else "s", "s" if len(parts) == 1 else "",
                              "; ".join(cf.show(p) for p in parts), ", ".join("[%s]=%s" % (cf.pretty_atom(k), str(v).lower()) for k, v in a.items()),
                              str(cf.ev(want, a)).lower(), str(cf.ev(tree, a)).lower()),
                          {"area": "readsql",
                           "inputs": [strip_id(inp)] + [strip_id(c[0]) for c in sub_cases] + ([strip_id(cases[""][0])] if "" in cases else []),
                           "observed": {"filter": cfil, "connective": conn, "sql": sql, "filter_part_of_sql": text,
                                        "skeleton_of_sql": cf.show(tree),
                                        "sub_filters": [{"filter": x, "sql": c[1], "filter_part_of_sql": skel[(key, x)][1],
                                                         "skeleton": cf.show(skel[(key, x)][0])} for x, c in zip(dict.fromkeys(subs), sub_cases)],
                                        "expected_skeleton": cf.show(want), "assignment_that_differs": {cf.pretty_atom(k): v for k, v in a.items()},
                                        "filter_selects": cf.ev(want, a), "sql_selects": cf.ev(tree, a)}})

    # ---- the Lean model's reading of the same text (driver area `filtersem`)
    tie = collections.Counter()
    if have_driver and rows:
        inf, outf = ctx.path("filtersem.in.jsonl"), ctx.path("filtersem.model.jsonl")
        write_jsonl(inf, rows)
        p = run_driver("filtersem", inf, outf)
        if p.returncode != 0:
            ctx.l2_broken.append({"stream": "filtersem-driver", "detail": (p.stdout + p.stderr)[-2000:]})
        else:
            model = {r["id"]: r["out"] for r in read_jsonl(outf)}
            bad = collections.Counter()

            def broken(stream, row, **kw):
                bad[stream] += 1
                if bad[stream] <= 3:
                    ctx.l2_broken.append(dict({"stream": "filtersem:" + stream, "id": row["id"], "input": row}, **kw))
            for row in rows:
                mo = model.get(row["id"])
                tie["cases"] += 1
                if mo is None or "driver_error" in mo:
                    broken("driver", row, model=mo)
                    continue
                py_frag = cf.flat(cf.skeleton_sql(row["frag"]))
                py_where = cf.flat(cf.skeleton_sql(row["where"]))
                # 1. Lean reading == Python reading, on the REAL text (fragment and whole WHERE clause)
                if canon(mo.get("sql_tree")) != canon(py_frag):
                    broken("reading-of-real-fragment(lean-vs-python)", row, impl=py_frag, model=mo.get("sql_tree"))
                if canon(mo.get("where_tree")) != canon(py_where):
                    broken("reading-of-real-where(lean-vs-python)", row, impl=py_where, model=mo.get("where_tree"))
                if "rejected" in mo:
                    broken("model-rejects-what-the-store-rendered", row, model=mo)
                    continue
                # 2. the model renders the text the real store sent
                if mo["frag"] != row["frag"]:
                    broken("fragment(model-vs-real-sql)", row, impl=row["frag"], model=mo["frag"])
                # 3. within the model: pieces scanned one by one == the text scanned as a whole; reading == meaning
                if not mo["pieces_scan_as_text"]:
                    broken("pieces-scan-as-text", row, model=mo)
                if not mo["reading_is_meaning"] or mo["model_tree"] is None:
                    broken("reading-is-meaning(model)", row, model=mo)
                # 4. the intended meaning (Lean skel) == the Python reading of the real text, as truth tables
                try:
                    d = cf.first_difference(cf.tree_of_json(mo["sem_tree"]), cf.tree_of_json(py_frag))
                except cf.SkeletonError as e:
                    d = {"error": str(e)}
                if d is not None:
                    broken("meaning(lean)-vs-reading-of-real-sql(python)", row, impl=py_frag, model=mo["sem_tree"], detail=d)
            for k in ("driver", "reading-of-real-fragment(lean-vs-python)", "reading-of-real-where(lean-vs-python)",
                      "model-rejects-what-the-store-rendered", "fragment(model-vs-real-sql)", "pieces-scan-as-text",
                      "reading-is-meaning(model)", "meaning(lean)-vs-reading-of-real-sql(python)"):
                ctx.cov.setdefault("disagreements", {})["filtersem:" + k] = bad[k]
                ctx.cov.setdefault("compared", {})["filtersem:" + k] = tie["cases"]
    n = max(1, st["filter-cases"])
    xcheck = reader_crosscheck(ctx, sorted({r["where"] for r in rows}), 3000 if ctx.quick else 100000) if have_driver and not ctx.replay_file else {}
    return {
        "reader_crosscheck (Lean boolParse vs Python skeleton)": xcheck,
        "filter_cases": st["filter-cases"], "attachment_checked": st["attachment-checked"], "leaf_cases": st["leaf-cases"],
        "compositions_checked": st["compositions-checked"], "compositions_by_connective": dict(sorted(conn_stats.items())),
        "composites_without_captured_parts": st["composite-without-captured-parts"],
        "lean_tie_cases": tie["cases"],
        "shape_rates (share of filter cases; a case can be in several classes)": {k: round(v / n, 3) for k, v in sorted(rates.items())},
        "shape_counts": dict(sorted(rates.items())),
    }


READER_SOUP = ["a", "b", "a", "b = 2", "x @> 'y'", "c.d", "'x or y'", "'not'", "(", ")", "(", ")", "not", "NOT", "and", "AND", "or", "Or", "=", "<", "1", "1 = 1", "@>",
               "between", "case", "is", "null", "select", "(select 1 where p and q)", "f(x and y)", "::jsonpath", "-- and\n", "/* or */"]


def reader_crosscheck(ctx, real_texts, n):
    """the two readings of SQL precedence — lean/Model/Store/FilterSem.lean boolParse (cut at the connectives of depth 0) and
    checks/c04filter.py skeleton (recursive descent) — on the captured WHERE clauses and on random connective / parenthesis soup"""
    import random
    rnd = random.Random(ctx.seed * 104729 + 4)
    rows = [{"id": k, "sql": t} for k, t in enumerate(real_texts)]
    for _ in range(n):
        rows.append({"id": len(rows), "sql": " ".join(rnd.choice(READER_SOUP) for _ in range(rnd.randint(1, 9)))})
    inf, outf = ctx.path("boolparse.in.jsonl"), ctx.path("boolparse.model.jsonl")
    write_jsonl(inf, rows)
    p = run_driver("boolparse", inf, outf)
    if p.returncode != 0:
        ctx.l2_broken.append({"stream": "boolparse-driver", "detail": (p.stdout + p.stderr)[-2000:]})
        return {}
    model = {r["id"]: r["out"] for r in read_jsonl(outf)}
    bad, read, refused = 0, 0, 0
    for r in rows:
        try:
            py = cf.flat(cf.skeleton_sql(r["sql"]))
            read += 1
        except cf.SkeletonError:
            py = None
            refused += 1
        m = model.get(r["id"], {})
        if "tree" not in m or canon(m["tree"]) != canon(py):
            bad += 1
            if bad <= 3:
                ctx.l2_broken.append({"stream": "boolparse:lean-vs-python", "id": r["id"], "input": r, "impl": py, "model": m})
    ctx.cov.setdefault("compared", {})["boolparse:lean-vs-python"] = len(rows)
    ctx.cov.setdefault("disagreements", {})["boolparse:lean-vs-python"] = bad
    return {"captured_where_clauses": len(real_texts), "random_soup": n, "read_by_python": read, "refused_by_python": refused, "disagreements": bad}



SQL_OF_OPERATOR = {"$lt": "<", "$lte": "<=", "$gt": ">", "$gte": ">="}


def check_leaf_operators(ctx, inputs, impl):
    """A filter leaf `{"$lt"|"$lte"|"$gt"|"$gte": {key: value}}` must compare with THAT operator: in the conjunct the filter contributes
    to the captured statement, the comparison operator at parenthesis depth 0 (what the value is compared with: a column, or a
    sub-select in parentheses) is the operator the client wrote.  Independent of the Lean model (which renders what the code renders)."""
    st = collections.Counter()
    for inp in inputs:
        if inp["method"] not in FILTER_EP:
            continue
        f = inp.get("filter") or ""
        if not f:
            continue
        try:
            j = json.loads(f)
        except Exception:
            continue
        if not (isinstance(j, dict) and len(j) == 1):
            continue
        (op, body), = j.items()
        if op not in SQL_OF_OPERATOR or not (isinstance(body, dict) and len(body) == 1):
            continue
        out = impl.get(inp["id"])
        if out is None or "panic" in out or out.get("err"):
            continue
        stmts = [q for q in out["sql"] if not q.startswith("PREPARE ")]
        if len(stmts) != 1:
            continue
        try:
            toks, wtext, cs = cf.ledger_where(stmts[0], inp["ledger"])
            texts = cf.conjunct_texts(toks, wtext)
        except cf.SkeletonError:
            continue
        if not texts:
            continue
        leaf = texts[-1]
        lt = cf.tokenize(leaf, [])
        # strip the parentheses bun puts around the conjunct
        while len(lt) >= 2 and lt[0][0] == "p:(" and lt[-1][0] == "p:)":
            depth, closes_at_end = 0, True
            for k, t in enumerate(lt):
                depth += 1 if t[0] == "p:(" else -1 if t[0] == "p:)" else 0
                if depth == 0 and k < len(lt) - 1:
                    closes_at_end = False
                    break
            if not closes_at_end:
                break
            lt = lt[1:-1]
        depth, ops = 0, []
        for t in lt:
            if t[0] == "p:(":
                depth += 1
            elif t[0] == "p:)":
                depth -= 1
            elif depth == 0 and t[0] in ("op:<", "op:<=", "op:>", "op:>=", "op:=", "op:<>", "op:!="):
                ops.append(t[0][3:])
        st["leaves"] += 1
        key = next(iter(body))
        st["key:" + (key.split("[")[0])] += 1
        if ops != [SQL_OF_OPERATOR[op]]:
            ctx.violation({"property": "C04", "class": "filter-operator", "method": inp["method"], "operator": op, "key": key.split("[")[0]},
                          "%s with the filter %s compares with %s where the client wrote %s (%s): %s" % (
                              inp["method"], f, ops or "no comparison", op, SQL_OF_OPERATOR[op], leaf[:200]),
                          {"area": "readsql", "input": {k: v for k, v in inp.items() if k != "corpus"}, "observed": {"sql": stmts[0], "filter_conjunct": leaf}})
    ctx.cov["filter_leaf_operators"] = dict(st)
    return st["leaves"]


def check_schema_functions(ctx, ledger_funcs, fns):
    st = collections.Counter()
    detail = {}
    for name, f in sorted(fns.items()):
        if f["lang"] != "sql":
            continue
        body = f["body"].strip()
        if not re.match(r"(?is)\s*(select|with)\b", body):
            st["not-a-read (%s)" % name] += 1
            continue
        try:
            a = c04sql.analyse(body, ("id", "_ledger"), ledger_funcs)
        except c04sql.SqlShapeError as e:
            ctx.l2_broken.append({"stream": "schema-function-shape", "id": name, "detail": str(e)})
            continue
        st["functions"] += 1
        detail[name] = ["%s %s: %s" % (r["table"], r["alias"], r["how"] or "UNRESTRICTED") for r in a.refs] + \
                       ["call %s(%s, …)" % (c["func"], "_ledger" if c["ok"] else "?") for c in a.calls]
        takes_ledger = bool(f["params"]) and f["params"][0][0] == "_ledger"
        for r in a.refs:
            st["table-references"] += 1
            if not r["restricted"] or not takes_ledger:
                ctx.violation({"property": "C04", "class": "ledger-predicate-schema", "function": name, "table": r["table"]},
                              "schema function %s reads table %s without restricting it to its _ledger parameter" % (name, r["table"]),
                              {"area": "schema", "input": {"function": name}, "observed": {"body": body}})
        for c in a.calls:
            st["ledger-function-calls"] += 1
            if not c["ok"]:
                ctx.violation({"property": "C04", "class": "ledger-predicate-schema", "function": name, "callee": c["func"]},
                              "schema function %s calls %s without forwarding _ledger" % (name, c["func"]),
                              {"area": "schema", "input": {"function": name}, "observed": {"body": body}})
    return st, detail


# ---------------------------------------------------------------- stage 2: the generated PL/pgSQL projection against replay (model level)

DRIVER_SQL = os.path.join(LEAN, ".lake", "build", "bin", "driver_sql")
MODEL_NOTE = ("MODEL-LEVEL replay: the history is projected by Generated/Schema.lean (0-init-schema.sql translated on this run, semantics of "
              "lean/Model/Store/Sql.lean) and compared with Store.replay; it cannot be run on PostgreSQL in this sandbox.  Re-run: "
              "bin/check C04 --replay <this file>")
SHAPE_SELF = "posting from a new account to itself"
SHAPE_BACK = "move dated before all existing moves"
SHAPE_ZONE = "timestamp written with a non-UTC offset"


def run_driver_sql(area, infile, outfile, timeout=3000):
    with open(infile) as fin:
        p = subprocess.run([DRIVER_SQL, area], stdin=fin, capture_output=True, text=True, timeout=timeout)
    with open(outfile, "w") as fh:
        fh.write(p.stdout)
    return p


def py_shapes(inp):
    """Independent recomputation (from the input line) of the shapes of history that explain a discrepancy: per ledger the
    (account, asset) pairs hit by a posting from a not-yet-existing account to itself, those that get a move dated before every
    existing move of the pair while the account already existed, and whether a transaction carries a UTC offset."""
    res = {}
    for name in inp["ledgers"]:
        seen, moves = set(), collections.defaultdict(list)
        self_fresh, back, zoned = set(), set(), False
        for l in inp["logs"]:
            if l["ledger"] != name:
                continue
            t = l["type"]
            if t in ("NEW_TRANSACTION", "REVERTED_TRANSACTION"):
                tx = l["tx"]
                zoned = zoned or bool(tx.get("tz"))
                ts = tx["timestamp"]
                for p in tx["postings"]:
                    existed = {p["source"]: p["source"] in seen, p["destination"]: p["destination"] in seen}
                    if p["source"] == p["destination"] and not existed[p["source"]]:
                        self_fresh.add((p["source"], p["asset"]))
                    for c in (p["source"], p["destination"]):
                        earlier = moves[(c, p["asset"])]
                        if existed[c] and earlier and not any(e <= ts for e in earlier):
                            back.add((c, p["asset"]))
                        earlier.append(ts)
                    seen.update((p["source"], p["destination"]))
                if t == "NEW_TRANSACTION":
                    seen.update((l.get("accountMetadata") or {}).keys())
            elif t == "SET_METADATA" and l["targetType"] == "ACCOUNT":
                seen.add(l["targetId"])
        res[name] = (self_fresh, back, zoned)
    return res


def py_explanation(shapes, d):
    self_fresh, back, zoned = shapes[d["ledger"]]
    key = (d["account"], d["asset"])
    if zoned and d["class"] in ("transaction-timestamp", "effective-volumes", "effective-volumes-null"):
        return SHAPE_ZONE
    if d["class"] in ("volumes", "effective-volumes") and key in self_fresh:
        return SHAPE_SELF
    if d["class"] == "effective-volumes-null" and key in back:
        return SHAPE_BACK
    return "unexplained"


def stored_offset_minutes(text):
    """UTC offset (minutes) carried by an RFC 3339 text as json.Marshal wrote it; None when the text has another shape"""
    if text.endswith("Z"):
        return 0
    m = re.search(r"([+-])(\d\d):(\d\d)$", text)
    if not m:
        return None
    return (1 if m.group(1) == "+" else -1) * (int(m.group(2)) * 60 + int(m.group(3)))


def check_stored_timestamps(ctx, inputs, impl):
    """The Go half of design 6 #25, on the REAL code: a transaction whose timestamp the client wrote with a UTC offset goes through
    ledger.ParseTime; the text json.Marshal then puts into the log payload (what ledgerstore.InsertLogs COPYs into logs.data, and what
    insert_transaction casts with ::timestamp without time zone, ignoring any offset) must be UTC.  Returns {(input id, ledger, log id): minutes}."""
    seen, n = {}, 0
    for inp in inputs:
        out = impl.get(inp["id"]) or {}
        zs = out.get("storedTimestamps", [])
        for z in zs:
            n += 1
            off = stored_offset_minutes(z["text"])
            seen[(inp["id"], z["ledger"], z["id"])] = off
            if off is None:
                ctx.l2_broken.append({"stream": "storeview-stored-timestamp-shape", "id": inp["id"], "detail": z})
            elif off != 0:
                ctx.violation({"property": "C04", "class": "stored-timestamp-offset", "level": "impl"},
                              "ledger %s, log %s: the transaction timestamp was written with offset %+d min and the log payload stores %r: PostgreSQL's "
                              "::timestamp without time zone ignores the offset, the transaction is filed %d minutes off its instant" % (
                                  z["ledger"], z["id"], z["tz"], z["text"], off),
                              {"area": "storeview", "input": {k: v for k, v in inp.items() if k != "corpus"}, "observed": {"storedTimestamps": zs}})
    return seen, n


def with_stored_offsets(inp, seen):
    """the input line for the MODEL of the SQL half: every transaction's "tz" becomes the offset the real code stored (0 when it stored UTC);
    the offset the client wrote is kept as "tzWritten" """
    out = json.loads(json.dumps({k: v for k, v in inp.items() if k != "corpus"}))
    for l in out["logs"]:
        tx = l.get("tx")
        if tx and tx.get("tz"):
            tx["tzWritten"] = tx["tz"]
            tx["tz"] = seen.get((inp["id"], l["ledger"], l["id"])) or 0
    if inp.get("corpus"):
        out["corpus"] = True
    return out


def report_model_discrepancies(ctx, inp, out, counts, stream):
    """one violation per distinct (class, shape) of a history"""
    if "driver_error" in out:
        ctx.l2_broken.append({"stream": stream + "-driver-error", "id": inp.get("id"), "input": inp, "model": out})
        return
    shapes = py_shapes(inp)
    by = {}
    for d in out["discrepancies"]:
        want = py_explanation(shapes, d)
        if want != d["explanation"]:
            ctx.l2_broken.append({"stream": stream + "-shape-classification", "id": inp.get("id"), "input": inp,
                                  "impl": want, "model": d})
        by.setdefault((d["class"], d["explanation"]), []).append(d)
    for (cls, shape), ds in sorted(by.items()):
        counts[cls + " | " + shape] += 1
        ctx.violation({"property": "C04", "class": cls, "shape": shape, "level": "model"},
                      "generated SQL projection differs from the replay of the log: %s at %s/%s (%s)" % (cls, ds[0]["account"] or "tx " + str(ds[0]["tx"]), ds[0]["asset"], shape),
                      {"area": "storesql", "input": {k: v for k, v in inp.items() if k not in ("corpus",)}, "model_level_only": True, "note": MODEL_NOTE,
                       "discrepancies": ds[:4]})
    if out["frame"]:
        counts["frame | unexplained"] += 1
        ctx.violation({"property": "C04", "class": "frame", "shape": "unexplained", "level": "model"},
                      "generated SQL projection: inserting log(s) %s changed rows of another ledger" % out["frame"],
                      {"area": "storesql", "input": inp, "model_level_only": True, "note": MODEL_NOTE})


def stage2(ctx, sv_inputs, sv_seen):
    info = {}
    summary_path = os.path.join(BUILD, "schema.json")
    if os.path.exists(summary_path):
        sm = json.load(open(summary_path))
        info["regenerated"] = {"source_sha256": sm["source_sha256"], "tables": {k: len(v) for k, v in sm["tables"].items()},
                               "translated_functions": sm["translated_functions"],
                               "not_translated": [x["name"] + ": " + x["why"] for x in sm["not_translated"]],
                               "triggers": ["%s: after %s on %s -> %s" % (t["name"], t["event"], t["table"], t["function"]) for t in sm["triggers"]]}
    ok, outp = lake_build(["driver_sql"])
    if not ok:
        ctx.l2_broken.append({"stream": "driver_sql-build", "detail": outp[-1500:]})
        ctx.cov["stage2"] = info
        return
    counts = collections.Counter()
    # ---- the histories of this run (or the replayed one)
    inputs = None
    if ctx.replay_file:
        rp = json.load(open(ctx.replay_file))["replay"]
        if rp.get("area") == "storesql":
            inputs = [dict(rp["input"], id=0)]
    elif sv_inputs is not None:
        # corpus/storesql: model-level witnesses (a "tz" there is the offset in the STORED text); then every history of the storeview run,
        # corpus/storeview included, with the offsets the real code stored
        cs = corpus_inputs("storesql")
        for r in cs:
            r["id"] -= 100000
        inputs = cs + [with_stored_offsets(i, sv_seen) for i in sv_inputs]
    if inputs:
        inf, outf = ctx.path("storesql.in.jsonl"), ctx.path("storesql.model.jsonl")
        write_jsonl(inf, inputs)
        p = run_driver_sql("storesql", inf, outf)
        if p.returncode != 0:
            ctx.l2_broken.append({"stream": "storesql-driver", "detail": (p.stdout + p.stderr)[-2000:]})
        else:
            outs = {r["id"]: r["out"] for r in read_jsonl(outf)}
            clean = 0
            wf = 0
            for inp in inputs:
                o = outs.get(inp["id"])
                if o is None:
                    ctx.l2_broken.append({"stream": "storesql-missing-output", "id": inp["id"]})
                    continue
                report_model_discrepancies(ctx, inp, o, counts, "storesql")
                if "driver_error" not in o and not o["discrepancies"] and not o["frame"]:
                    clean += 1
                if "driver_error" not in o:
                    if o.get("wellFormed"):
                        wf += 1
                    else:
                        # outside the hypothesis of C04.projection_refines_replay: a metadata map with a key twice cannot come out of a Go map
                        ctx.l2_broken.append({"stream": "storesql-history-not-well-formed", "id": inp["id"], "input": inp})
            info["histories"] = {"compared": len(inputs), "agreeing_on_every_clause": clean,
                                 "satisfying WellFormedHistory (the hypothesis of C04.projection_refines_replay: distinct keys in every metadata map)": wf,
                                 "histories_by_discrepancy (class | shape)": dict(sorted(counts.items())),
                                 "rows_projected": {k: sum(o["rows"][k] for o in outs.values() if "rows" in o) for k in
                                                    ("logs", "transactions", "moves", "accounts", "transactions_metadata", "accounts_metadata")}}
    # ---- exhaustive small scope
    if not ctx.replay_file:
        depth = 3 if ctx.quick else 4
        inf, outf = ctx.path("storesql-enum.in.jsonl"), ctx.path("storesql-enum.model.jsonl")
        write_jsonl(inf, [{"id": 0, "depth": depth}])
        p = run_driver_sql("storesql-enum", inf, outf)
        rows = read_jsonl(outf) if p.returncode == 0 else []
        if not rows or "driver_error" in rows[0]["out"]:
            ctx.l2_broken.append({"stream": "storesql-enum-driver", "detail": (p.stdout + p.stderr)[-2000:]})
        else:
            o = rows[0]["out"]
            info["small_scope_enumeration"] = {"depth": depth, "histories": o["histories"], "with_a_discrepancy": o["discrepant"],
                                               "frame_breaks": o["frameBreaks"], "satisfying_WellFormedHistory": o.get("wellFormed"),
                                               "histories_by_discrepancy (class | shape)": o["counts"],
                                               "alphabet": "ledgers l (all entry kinds) and m; accounts a, b (c for script metadata); one asset; amount 1; "
                                                           "timestamps before / at / after everything; see lean/Model/Store/Search.lean"}
            for w in o["witnesses"]:
                cls, shape = [x.strip() for x in w["key"].split("|")]
                inp = {"ledgers": w["ledgers"], "logs": w["logs"], "probe": {"accounts": ["a", "b", "c"], "assets": ["X"], "txids": [0, 1, 2], "refs": [], "iks": []}}
                ctx.violation({"property": "C04", "class": cls, "shape": shape, "level": "model"},
                              "generated SQL projection differs from the replay of the log: %s (%s) — shortest history of the enumeration" % (cls, shape),
                              {"area": "storesql", "input": inp, "model_level_only": True, "note": MODEL_NOTE})
            ctx.cov["evaluations"] = ctx.cov.get("evaluations", 0) + o["histories"]
    ctx.cov["stage2"] = info
    return len(inputs or [])


# ---------------------------------------------------------------- stage 2h: the captured aggregated-balances statement, evaluated

READEVAL_NOTE = ("the statement is the text the REAL ledgerstore.Store.GetAggregatedBalances sent for this ledger, point in time and filter (recording driver); "
                 "the rows of moves are those the Lean translation of 0-init-schema.sql (Generated/Schema.lean, semantics of Model/Store/Sql.lean) holds after the "
                 "history — PostgreSQL cannot be run here; checks/c04eval.py interprets the statement (conditions, DISTINCT ON, ORDER BY and the volumes column are read "
                 "from the text).  Re-run: bin/check C04 --replay <this file>")


def stage_reads(ctx, sv_inputs, sv_seen):
    """GetAggregatedBalances as of an instant == the replay of the entries inserted by that instant, on generated histories: real statement
    text x projected rows, at instants that fall between insertion order and timestamp order."""
    if ctx.replay_file:
        rp = json.load(open(ctx.replay_file))["replay"]
        if rp.get("area") != "readeval":
            return None
        hist = [dict(rp["input"], id=0)]
        only = (rp["ledger"], rp["pit"], rp.get("address"))
    else:
        if sv_inputs is None:
            return None
        only = None
        cap = 150 if ctx.quick else 1000
        cands = []
        for i in sv_inputs:
            if any(l.get("tx", {}).get("tz") for l in i["logs"]):
                continue      # the offset half of design 6 #25 has its own obligations; here every timestamp is the instant
            if not any("tx" in l for l in i["logs"]):
                continue
            skew = sum(1 for l in i["logs"] if "tx" in l and l["tx"]["timestamp"] != l["date"])
            cands.append((0 if i.get("corpus") else 1, -min(skew, 3), i["id"], i))
        cands.sort(key=lambda x: x[:3])
        hist = [with_stored_offsets(c[3], sv_seen) for c in cands[:cap]]
    if not hist:
        return None
    inf, outf = ctx.path("storesql-moves.in.jsonl"), ctx.path("storesql-moves.model.jsonl")
    write_jsonl(inf, hist)
    p = run_driver_sql("storesql-moves", inf, outf)
    if p.returncode != 0:
        ctx.l2_broken.append({"stream": "storesql-moves-driver", "detail": (p.stdout + p.stderr)[-2000:]})
        return None
    rows_of = {r["id"]: r["out"] for r in read_jsonl(outf)}
    cases, st = [], collections.Counter()
    for h in hist:
        ro = rows_of.get(h["id"])
        if ro is None or "driver_error" in ro:
            ctx.l2_broken.append({"stream": "storesql-moves-driver-error", "id": h["id"], "model": ro})
            continue
        for ledger in h["ledgers"]:
            if not c04eval.monotone(h["logs"], ledger):
                st["ledgers_skipped (log dates decrease: the instant does not cut the log at a prefix; the commander dates entries in order)"] += 1
                continue
            accts = []
            for l in h["logs"]:
                if l["ledger"] == ledger and "tx" in l:
                    for q in l["tx"]["postings"]:
                        for a in (q["source"], q["destination"]):
                            if a not in accts and re.fullmatch(r"[a-zA-Z0-9_:]+", a):
                                accts.append(a)
            for t in c04eval.instants(h["logs"], ledger, 6 if ctx.quick else 10):
                for a in [None] + accts[:2 if ctx.quick else 4]:
                    if only and (ledger, t, a) != tuple(only):
                        continue
                    cases.append({"id": len(cases), "method": "GetAggregatedBalances", "ledger": ledger, "pit": t, "vol": False, "eff": False, "arg": "",
                                  "filter": "" if a is None else json.dumps({"$match": {"address": a}}), "_h": h["id"], "_a": a})
    if not cases:
        return None
    by_h = {h["id"]: h for h in hist}
    inf, outf = ctx.path("readeval.in.jsonl"), ctx.path("readeval.impl.jsonl")
    write_jsonl(inf, [{k: v for k, v in c.items() if not k.startswith("_")} for c in cases])
    p = run_harness(["readsql", "exec", "-in", inf, "-out", outf])
    if p.returncode != 0:
        ctx.l2_broken.append({"stream": "readeval-exec", "detail": (p.stdout + p.stderr)[-2000:]})
        return None
    impl = {r["id"]: r["out"] for r in read_jsonl(outf)}
    plans = collections.Counter()
    for c in cases:
        out = impl.get(c["id"]) or {}
        stmts = [q for q in out.get("sql", []) if not q.startswith("PREPARE ")]
        if out.get("err") or len(stmts) != 1:
            ctx.l2_broken.append({"stream": "readeval-capture", "id": c["id"], "input": c, "impl": out})
            continue
        sql, h, ledger, t, a = stmts[0], by_h[c["_h"]], c["ledger"], c["pit"], c["_a"]
        try:
            plan = c04eval.plan_of(sql, ledger)
        except c04sql.SqlShapeError as e:
            ctx.l2_broken.append({"stream": "readeval-shape", "id": c["id"], "input": c, "impl": sql, "detail": str(e)})
            continue
        plans["cut on %s | distinct on (%s) | picked by (%s) | sums %s" % (
            ", ".join("%s %s" % (x[0], x[1]) for x in plan["conditions"] if x[0] in c04eval.DATE_COLS) or "nothing",
            ", ".join(plan["distinct_on"]), ", ".join(k + (" desc" if d else " asc") for k, d in plan["picked_by"]), plan["volumes_column"])] += 1
        got, kept = c04eval.evaluate(plan, rows_of[h["id"]]["moves"])
        want = c04eval.fold(h["logs"], ledger, lambda l, tx: l["date"] <= t, a)
        st["statements_evaluated"] += 1
        st["with_an_address_filter"] += 1 if a is not None else 0
        split = any(("tx" in l) and l["ledger"] == ledger and ((l["date"] <= t) != (l["tx"]["timestamp"] <= t)) for l in h["logs"])
        st["at_an_instant_between_insertion_and_timestamp_order"] += 1 if split else 0
        st["non_empty_answers"] += 1 if want else 0
        hist_in = {k: v for k, v in h.items() if k not in ("corpus", "id")}
        rep = {"area": "readeval", "input": hist_in, "ledger": ledger, "pit": t, "address": a, "model_level_rows": True, "note": READEVAL_NOTE,
               "observed": {"sql": sql, "read_as": plan, "rows_of_moves_kept": kept, "reported": got,
                            "replay_of_the_entries_inserted_by_the_instant": want,
                            "for information, the fold of the entries DATED by the instant": c04eval.fold(h["logs"], ledger, lambda l, tx: tx["timestamp"] <= t, a)}}
        if canon(got) != canon(want):
            ctx.violation({"property": "C04", "class": "read-differs-from-replay", "method": "GetAggregatedBalances", "filter": "address" if a else "none",
                           "level": "model"},
                          "GetAggregatedBalances of ledger %s at %d%s: the statement sent, evaluated on the projected moves, reports %s; the replay of the log entries "
                          "inserted by that instant gives %s" % (ledger, t, " (address %s)" % a if a else "", canon(got), canon(want)), rep)
        elif a is None:
            for asset, v in got.items():
                if v is not None and v[0] != v[1]:
                    ctx.violation({"property": "C04", "class": "conservation", "store": "sql-read", "method": "GetAggregatedBalances", "level": "model"},
                                  "GetAggregatedBalances of ledger %s at %d over all accounts: inputs of %s (%s) differ from its outputs (%s)" % (ledger, t, asset, v[0], v[1]), rep)
    ctx.cov["evaluations"] = ctx.cov.get("evaluations", 0) + st["statements_evaluated"]
    return {"histories": len(hist), "statements_captured_and_evaluated": st["statements_evaluated"], "detail": dict(st),
            "plans_read_from_the_text": dict(plans),
            "rule": "histories of the storeview run without UTC offsets, those with back- / future-dated transactions first; per ledger with non-decreasing log dates: "
                    "the instants (log dates, timestamps, midpoints, the microsecond before the first) on which insertion order and timestamp order disagree first; "
                    "no filter and an exact-address filter per account"}


# ---------------------------------------------------------------- the check


def run(ctx):
    ctx.cov["partial"] = True
    ctx.cov["trusted_base"] = [
        "Lean 4.33 kernel; axioms allowed: propext, Classical.choice, Quot.sound",
        "Model/Store/Spec.lean: Store.replay is the reading of 'the replay of the log' (one Move per posting side, dated revisions of metadata, first revert wins)",
        "harness/storeview.go (generator, one real storage.InMemoryStore per ledger) and harness/readsql.go (real ledgerstore.Store over bun + pgdialect + recording driver)",
        "checks/c04sql.py: block parser for the captured SELECT/WITH statements; rule: ledger = L, or foreign-key/primary-key join (accounts_seq / transactions_seq / seq) to a restricted row",
        "checks/c20.py tokenize(): PostgreSQL tokenizer shared with C20",
        "checks/c04pit.py (which block is a latest-row read of moves, its date conjunct, picking keys and volumes column; `_before` followed through function calls) and "
        "checks/c04eval.py (interpreter of the GetAggregatedBalances statement shape over rows projected by the Lean translation of the triggers)",
        "bun 1.1.16 rendering as captured; SQL is never executed (no PostgreSQL in the sandbox)",
        "FILTERS: lean/Model/Store/FilterSem.lean boolParse and checks/c04filter.py skeleton(): two independent readings of SQL operator precedence "
        "(parentheses, NOT > AND > OR, everything else an opaque atom; `is not null` / `not in` / BETWEEN / CASE at depth 0 are refused) - my model of "
        "PostgreSQL's gram.y for the three connectives; Model.SqlText.lex (shared with C20) as the scanner; leafSkel as the intended meaning of a matcher",
    ]
    ctx.cov["trusted_base"] += [
        "STAGE 2: lean/Model/Store/Sql.lean (meaning of the SQL subset: tables as row lists in seq order, NULL and three-valued logic, select-into "
        "without strict, on conflict, row-level after triggers, jsonb operators, casts; numtext / tstext / jsontext devices) - my reading of PostgreSQL, never executed",
        "STAGE 2: extract/plpgsql/translate.py (lark LALR grammar of the PL/pgSQL subset; stops on anything else) and lean/Model/Store/Project.lean "
        "(encoding of a log entry as the COPY row and JSON payload, reading of the tables, shape classification)",
    ]
    # ---- regenerate Generated/*.lean from the sources of this run (Schema.lean: the PL/pgSQL projection)
    for name, f in regen.GENERATORS:
        if name == "schema" or not os.path.exists(os.path.join(LEAN, "Generated", name.capitalize() + ".lean")):
            err = f()
            if err and name == "schema":
                ctx.l1_broken.append("extract/plpgsql could not translate %s: %s" % (SCHEMA_SQL, err))
    ctx.l1()
    have_driver = ctx.ensure_driver()
    if not ctx.ensure_harness():
        return

    # ---------------- stage 1c: the in-memory store against replay
    n = 1500 if ctx.quick else 30000
    r = run_area(ctx, "storeview", n, have_driver)
    sv_eval = 0
    sv_inputs, sv_impl, sv_seen, n_zoned = None, None, {}, 0
    if r is not None:
        inputs, impl, model = r
        sv_inputs, sv_impl = inputs, impl
        sv_seen, n_zoned = check_stored_timestamps(ctx, inputs, impl)
        ctx.cov["stored_timestamps (Go half of design 6 #25: real ParseTime, then json.Marshal of the log payload)"] = {
            "transactions_written_with_an_offset": n_zoned, "stored_as_utc_text": sum(1 for v in sv_seen.values() if v == 0),
            "sample": [z for i in inputs for z in (impl.get(i["id"]) or {}).get("storedTimestamps", [])][:3]}
        if not ctx.replay_file and n_zoned == 0:
            ctx.l2_broken.append({"stream": "storeview-no-zoned-transaction", "detail": "the generator produced no transaction written with a UTC offset"})
        if model is not None:
            compare(ctx, "storeview:inmemory=replay", inputs, impl, model,
                    proj_impl=lambda i, o: {k: v for k, v in o.items() if k != "storedTimestamps"})
        stats = oracle_storeview(ctx, inputs, impl)
        seen, nontrivial = set(), 0
        for i in inputs:
            h = shash({k: v for k, v in i.items() if k not in ("id", "corpus")})
            if h not in seen and nontrivial_storeview(i):
                nontrivial += 1
            seen.add(h)
        sv_eval = len(inputs)
        ctx.cov["storeview"] = {
            "histories": len(inputs), "distinct_nontrivial": nontrivial,
            "log_entries": sum(len(i["logs"]) for i in inputs),
            "probes_per_history": "18 balances + 6 accounts + every transaction id (+1 unknown) + 6 references + idempotency keys + last log + last transaction, per ledger",
            "conservation_sums_checked_on_impl": stats["conservation-sums"],
            "input_distribution": storeview_distribution(inputs),
        }
        ctx.cov["samples"] = [{"input": i, "impl": impl.get(i["id"])} for i in inputs[:1]]

    # ---------------- stage 1d: ledger predicate on every captured read statement and on the schema's read functions
    schema_path = os.path.join(REPO, SCHEMA_SQL)
    fns = c04sql.schema_functions(open(schema_path).read())
    ledger_funcs = c04sql.ledger_functions(fns)
    r = run_area(ctx, "readsql", 1, False)
    rs_eval = 0
    if r is not None:
        inputs, impl, _ = r
        st, hows, methods = check_read_sql(ctx, inputs, impl, ledger_funcs)
        rs_eval = st["statements"]
        fstruct = check_filter_structure(ctx, inputs, impl, have_driver)
        check_leaf_operators(ctx, inputs, impl)
        pitpair = check_pit_pairing(ctx, inputs, impl, fns, ledger_funcs)
        ctx.cov["readsql"] = {
            "cases": len(inputs), "statements_analysed": st["statements"], "table_references": st["table-references"],
            "ledger_function_calls": st["ledger-function-calls"], "copy_rows_checked": st["copy-rows"],
            "statements_by_method": dict(sorted(methods.items())), "restriction_kinds": dict(sorted(hows.items())),
            "filter_structure": fstruct,
            "pit_pairing": pitpair,
            "lattice": "method x PIT(absent, zero instant, a date) x expandVolumes x expandEffectiveVolumes x filters "
                       "(accounts: address exact/segments, metadata[k], balance[asset], balance, and/or/not; transactions: reference, timestamp, "
                       "account, source, destination (exact/segments), metadata[k], or/and/not; aggregated balances: address, metadata[k]; logs: date) "
                       "+ filter-structure lattice (harness rsStructureFilters): per listing every kind of matcher F, $not F, $not $not F, $and[F], $or[F], "
                       "$not $and[F,G], $not $or[F,G], $and[F,G,H], $not $or[F,G,H], four nestings 3 deep, empty sets, and EVERY sub-expression of these, "
                       "x list and count methods x PIT(absent, a date) x expand(none, both); the seed picks which matchers are paired (thorough: all offsets)",
        }
        want = {"GetAccountsWithVolumes", "CountAccounts", "GetAccountWithVolumes", "GetAccount", "GetAggregatedBalances", "GetBalance",
                "GetTransactions", "CountTransactions", "GetTransactionWithVolumes", "GetTransaction", "GetTransactionByReference",
                "GetLastTransaction", "GetLogs", "GetLastLog", "ReadLogWithIdempotencyKey"}
        if not ctx.replay_file and want - set(methods):
            ctx.l2_broken.append({"stream": "readsql-method-not-captured", "detail": sorted(want - set(methods))})
    if not ctx.replay_file:
        st2, detail = check_schema_functions(ctx, ledger_funcs, fns)
        ctx.cov["schema_read_functions"] = {"analysed": st2["functions"], "table_references": st2["table-references"],
                                            "ledger_function_calls": st2["ledger-function-calls"], "restrictions": detail,
                                            "functions_taking_ledger_first": ledger_funcs}

    ctx.cov["evaluations"] = sv_eval + rs_eval
    # ---------------- stage 2: the generated PL/pgSQL projection (model level)
    n2 = stage2(ctx, sv_inputs, sv_seen) or 0
    ctx.cov["evaluations"] += n2
    if "driver_sql-build" not in [b.get("stream") for b in ctx.l2_broken]:
        ctx.cov["aggregated_balances_evaluated"] = stage_reads(ctx, sv_inputs, sv_seen)
    ctx.cov["distinct_nontrivial"] = ctx.cov.get("storeview", {}).get("distinct_nontrivial", 0) + rs_eval
    ctx.cov["rule"] = ("storeview: random bucket histories (1-3 ledgers, <= %d log entries, NEW_TRANSACTION with back-/future-/equal-dated "
                       "timestamps, self-postings, 2^64+-1 and 2^70 amounts, REVERTED_TRANSACTION, SET/DELETE_METADATA on accounts and transactions, "
                       "account metadata written by scripts, idempotency keys, references, half of them sent through the stored JSON form); "
                       "non-trivial = distinct history with >= 3 entries of >= 2 kinds.  readsql: one statement per point of the parameter lattice.") % (12 if ctx.quick else 40)
    ctx.cov["stages"] = {
        "1a/1b replay + laws": "proved (Lean, unbounded): see coverage.theorems",
        "1c in-memory store = replay": "differential (Lean model) + independent Python fold (L3)",
        "1d ledger predicate": "structural obligation on captured SQL text of every ledgerstore read method, on InsertLogs' COPY rows and on the schema's `language sql` read functions",
        "1e filters": "proved (Lean, every expression): the where text built for a filter reads, under SQL precedence, as the filter's meaning; tied to the captured SQL of the "
                      "real store by the filter-structure lattice: attachment + composition oracle (Python) + Lean reading of the same text (driver area filtersem)",
        "2e translation": "regenerated on every run (extract/plpgsql -> Generated/Schema.lean); a construct outside the grammar stops the check",
        "2f projection vs replay": "PROVED for every well-formed history (projection_refines_replay: clauses (i)-(v); ledger_frame: clause (v) for every history, "
                                   "equality of rows): data refinement of every generated function to a typed step (stepDB_conc), invariants Sane / VolOk / MovesRel / TxsRel / "
                                   "AcctsRel kept by every entry, invariant => discrepanciesOf = []; additionally the executable comparison on the generated histories of the "
                                   "run and on the enumeration to depth 3/4 (all satisfy the hypothesis), and the older kernel evaluations (<= 2 entries, one rich example)",
        "2g read functions / read queries": "get_account_balance(_before) transcribed by hand: latent defect witnessed; the Go query builders are NOT modelled "
                                            "(no render/eval model, reads_equal_replay not stated)",
        "2h point-in-time reads of moves": "proved: the two sound pairings of date column / row order / volumes column (pit_read_pairing) + witness against mixing them; "
                                           "tied: pit-pairing obligation on every captured statement and the schema functions it calls (checks/c04pit.py); captured "
                                           "GetAggregatedBalances statements evaluated on projected rows against the replay (checks/c04eval.py)",
    }
    ctx.cov["search"] = ("the generated histories of this run on the real in-memory store (every probe compared with an independent fold); the SQL text of every read "
                         "method on the parameter lattice; the same histories and every history of <= %d entries over the alphabet of lean/Model/Store/Search.lean run "
                         "through the CURRENT Generated/Schema.lean against Store.replay (model level)" % (3 if ctx.quick else 4))
    ctx.assumptions += [
        "SQL text is captured, never executed: what the read queries compute is NOT compared with replay; what the PL/pgSQL projection computes is compared "
        "only through its Lean translation (stage 2)",
        "stage 2: log payloads never hold a null metadata / accountMetadata object (the commander always writes maps); sequence values burnt by on-conflict are not modelled; "
        "revision dates of the metadata history tables are not compared (only the sequence of values)",
        "histories are the ones the commander writes: per-ledger log ids and transaction ids count up, a revert targets an existing transaction (a revert of an unknown id makes the in-memory store index an empty slice)",
        "one InMemoryStore per ledger (the type has no ledger name); ledger independence of the SQL store is the predicate obligation of stage 1d",
    ]
