"""Shared by the Numscript properties (C01 C03 C08 C12): differential Spec-vs-implementation and property oracles."""
import collections
from vlib.common import *

TRUSTED = [
    "Lean 4.33 kernel; axioms allowed: propext, Classical.choice, Quot.sound",
    "Model.Numscript.Spec is my reading of what the source text means (DESIGN appendix A); it is tied to compiler+VM by the end-to-end differential only",
    "text -> AST: the harness pretty-printer (the ANTLR parser is not modelled)",
    "Go harness, generator and canonicalisation; math/big modelled by Lean Int",
]


def strip(o):
    return {k: v for k, v in o.items() if k not in ("stage", "unstable")}


def run_numscript(ctx, n):
    if not (ctx.ensure_driver() and ctx.ensure_harness()):
        return None
    return pipeline(ctx, "numscript", n)


# ---- tiny independent evaluator of the parts of a program the oracles need (Python, not the Lean model)

def resolve_env(inp):
    env = {}
    bal = {(a, s): int(v) for a, s, v in inp["bal"]}
    ameta = {(a, k): v for a, k, v in (inp.get("ameta") or [])}

    def acct_of(e):
        if e["k"] == "acct":
            return e["v"]
        if e["k"] == "var":
            v = env.get(e["v"])
            return v[1] if v and v[0] == "acct" else None
        return None

    def asset_of(e):
        if e["k"] == "asset":
            return e["v"]
        if e["k"] == "var":
            v = env.get(e["v"])
            return v[1] if v and v[0] == "asset" else None
        return None

    def parse(ty, raw):
        if ty == "account":
            return ("acct", raw)
        if ty == "asset":
            return ("asset", raw)
        if ty == "monetary":
            a, n = raw.split(" ", 1)
            return ("mon", a, int(n))
        return (ty, raw)
    for d in inp["ast"].get("vars") or []:
        o = d.get("origin")
        try:
            if o is None:
                env[d["name"]] = parse(d["ty"], inp["vars"][d["name"]])
            elif o["k"] == "meta":
                env[d["name"]] = parse(d["ty"], ameta[(acct_of(o["acc"]), o["key"])])
            else:
                a, s = acct_of(o["acc"]), asset_of(o["asset"])
                env[d["name"]] = ("mon", s, bal.get((a, s), 0))
        except Exception:
            pass
    return env, bal, acct_of, asset_of


def eval_mon(e, env, asset_of):
    k = e["k"]
    if k == "mon":
        return (asset_of(e["asset"]), int(e["amt"]))
    if k == "var":
        v = env.get(e["v"])
        return (v[1], v[2]) if v and v[0] == "mon" else None
    if k in ("add", "sub"):
        l, r = eval_mon(e["l"], env, asset_of), eval_mon(e["r"], env, asset_of)
        if not l or not r:
            return None
        return (l[0], l[1] + r[1] if k == "add" else l[1] - r[1])
    return None


def sources_of(s):
    if s["k"] == "acct":
        yield s
    elif s["k"] == "max":
        yield from sources_of(s["s"])
    else:
        for x in s["ss"]:
            yield from sources_of(x)


def send_sources(st):
    src = st["src"]
    if src["k"] == "src":
        yield from sources_of(src["s"])
    else:
        for it in src["items"]:
            yield from sources_of(it["s"])


def grants(inp):
    """(account, asset) -> None (unbounded) | largest overdraft the text attaches to it"""
    env, bal, acct_of, asset_of = resolve_env(inp)
    g = {}
    for st in inp["ast"]["stmts"]:
        if st["k"] != "send":
            continue
        amt = st["amt"]
        if amt["k"] == "all":
            sasset = asset_of(amt["asset"])
        else:
            e = amt["e"]
            while e["k"] in ("add", "sub"):
                e = e["l"]
            m = eval_mon(e, env, asset_of)
            sasset = m[0] if m else None
        for s in send_sources(st):
            a = acct_of(s["e"])
            od = s.get("od")
            if s["e"]["k"] == "acct" and s["e"]["v"] == "world":
                key, val = (a, sasset), None
            elif od is None:
                key, val = (a, sasset), 0
            elif od["k"] == "unbounded":
                key, val = (a, sasset), None
            else:
                m = eval_mon(od["e"], env, asset_of)
                if not m:
                    continue
                key, val = (a, m[0]), m[1]
            if key in g and (g[key] is None or val is None):
                g[key] = None
            elif key in g:
                g[key] = max(g[key], val)
            else:
                g[key] = val
    return g, bal


def floor_violations(inp, out):
    """C01: replay the postings in order against the balances the script was run against"""
    if "postings" not in out:
        return []
    g, bal = grants(inp)
    R = dict(bal)
    v = []
    for n, (src, dst, amt, asset) in enumerate(out["postings"]):
        amt = int(amt)
        if amt < 0:
            v.append(("negative-posting", "posting %d has a negative amount %d" % (n, amt)))
        if src != "world":
            gr = g.get((src, asset), 0)
            after = R.get((src, asset), 0) - amt
            if gr is not None and amt > 0 and after < -gr:
                v.append(("floor", "posting %d takes %d %s from %s leaving %d, below -(granted overdraft %d)" % (n, amt, asset, src, after, gr)))
        R[(src, asset)] = R.get((src, asset), 0) - amt
        R[(dst, asset)] = R.get((dst, asset), 0) + amt
    return v


def has_kept(d):
    if d["k"] == "acct":
        return False
    if d["k"] == "inorder":
        return any(c["kd"]["k"] == "kept" or has_kept(c["kd"]["d"]) for c in d["caps"]) or d["rest"]["k"] == "kept" or has_kept(d["rest"]["d"])
    return any(i["kd"]["k"] == "kept" or has_kept(i["kd"]["d"]) for i in d["items"])


def features(inp):
    f = set()
    for st in inp["ast"]["stmts"]:
        f.add(st["k"])
        if st["k"] == "send":
            f.add("send-" + st["amt"]["k"])
            f.add("src-" + st["src"]["k"])
            for s in send_sources(st):
                od = s.get("od")
                f.add("od-" + (od["k"] if od else "none"))
                if s["e"]["k"] == "var":
                    f.add("src-var")
            if st["src"]["k"] == "src" and st["src"]["s"]["k"] != "acct":
                f.add("src-" + st["src"]["s"]["k"])
            f.add("dst-" + st["dst"]["k"])
            if has_kept(st["dst"]):
                f.add("kept")
    for d in inp["ast"].get("vars") or []:
        f.add("var-" + d["ty"] + ("-" + d["origin"]["k"] if d.get("origin") else ""))
    return f


def distribution(inputs, impl):
    cls, feats = collections.Counter(), collections.Counter()
    for i in inputs:
        o = impl.get(i["id"], {})
        cls[o.get("err") or ("panic" if "panic" in o else "ok")] += 1
        for f in features(i):
            feats[f] += 1
    return {"outcomes": dict(cls), "constructs": dict(feats)}


# ---- model A2 (bytecode level): second correspondence stream on the SAME inputs (area "nsbytecode")

TRUSTED_A2 = [
    "extract/opcodes: go/ast reader of the two iota const blocks (fails on anything but a plain iota sequence)",
    "harness rendering of program.Program (hex of Instructions, resources with machine.Type tags, sorted NeededBalances, Sources)",
    "Lean VM model over-approximates panics on a nil Monetary.Amount (any monetary pop of it panics); big.Int.Uint64 modelled as |n| mod 2^64",
]

OPNAMES = ["?", "APUSH", "BUMP", "DELETE", "IADD", "ISUB", "PRINT", "FAIL", "ASSET", "MONETARY_NEW", "MONETARY_ADD", "MONETARY_SUB", "MAKE_ALLOTMENT",
           "TAKE_ALL", "TAKE_ALWAYS", "TAKE", "TAKE_MAX", "FUNDING_ASSEMBLE", "FUNDING_SUM", "FUNDING_REVERSE", "REPAY", "ALLOC", "SEND", "TX_META",
           "ACCOUNT_META", "SAVE"]


def regen_opcodes(ctx):
    """lean/Generated/Opcodes.lean from the sources of this run (before L1: Props.C08 imports it)"""
    from vlib import regen
    err = None
    for name, f in regen.GENERATORS:
        if name == "opcodes":
            err = f()
    if err:
        ctx.l1_broken.append("extract/opcodes could not read the sources: " + err)
    p = os.path.join(BUILD, "opcodes.json")
    if os.path.exists(p):
        s = json.load(open(p))
        ctx.cov["regenerated"] = {"opcodes": len(s["opcodes"]), "types": len(s["types"])}
    return err


def run_bytecode(ctx, inputs, timeout=3000):
    """real compiler + VM (printing the compiled program) vs Lean Compile.compile/encode + VM.run, on `inputs`"""
    inp = ctx.path("nsbytecode.in.jsonl")
    write_jsonl(inp, inputs)
    implf, modelf = ctx.path("nsbytecode.impl.jsonl"), ctx.path("nsbytecode.model.jsonl")
    p = run_harness(["nsbytecode", "exec", "-in", inp, "-out", implf], timeout=timeout)
    if p.returncode != 0:
        ctx.l2_broken.append({"stream": "nsbytecode-exec", "detail": (p.stdout + p.stderr)[-2000:]})
        return None
    p = run_driver("nsbytecode", inp, modelf, timeout=timeout)
    if p.returncode != 0:
        ctx.l2_broken.append({"stream": "nsbytecode-driver", "detail": (p.stdout + p.stderr)[-2000:]})
        return None
    impl = {r["id"]: r["out"] for r in read_jsonl(implf)}
    model = {r["id"]: r["out"] for r in read_jsonl(modelf)}
    return impl, model


def proj_run(o):
    r = o.get("run")
    if r is None:
        return {"run": None}
    if "panic" in r:
        return {"run": {"panic": True}}
    return {"run": strip(r)}


def compare_bytecode(ctx, inputs, impl, model):
    """(i) bytecode equality  (ii) VM model vs real VM; plus coverage of the instruction set"""
    compare(ctx, "nsbytecode:bytecode-equality", inputs, impl, model,
            proj_impl=lambda i, o: {"compile": o.get("compile")}, proj_model=lambda i, o: {"compile": o.get("compile")})
    compare(ctx, "nsbytecode:vm-model-vs-real-vm", inputs, impl, model,
            proj_impl=lambda i, o: proj_run(o), proj_model=lambda i, o: proj_run(o))
    ops, progs, compiled, longest = collections.Counter(), set(), 0, 0
    for inp in inputs:
        c = impl.get(inp["id"], {}).get("compile")
        if not isinstance(c, dict):
            continue
        compiled += 1
        progs.add(c["code"])
        b = bytes.fromhex(c["code"])
        i, n = 0, 0
        while i < len(b):
            ops[OPNAMES[b[i]] if b[i] < len(OPNAMES) else "?"] += 1
            i += 3 if b[i] == 1 else 1
            n += 1
        longest = max(longest, n)
    ctx.cov["bytecode"] = {"programs": len(inputs), "compiled": compiled, "distinct_instruction_strings": len(progs),
                           "longest_program_instrs": longest, "opcodes_emitted": dict(ops),
                           "opcodes_never_emitted": [o for o in OPNAMES[1:] if o not in ops]}
