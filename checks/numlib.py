"""Shared by the Numscript properties (C01 C03 C08 C12): differential Spec-vs-implementation and property oracles."""
import collections
import fractions
import re
from vlib.common import *

TRUSTED = [
    "Lean 4.33 kernel; axioms allowed: propext, Classical.choice, Quot.sound",
    "Model.Numscript.Spec is my reading of what the source text means (DESIGN appendix A); it is tied to compiler+VM by the end-to-end differential only",
    "text -> AST: the harness pretty-printer (the ANTLR parser is not modelled)",
    "Go harness, generator and canonicalisation; math/big modelled by Lean Int",
]


def strip(o):
    return {k: v for k, v in o.items() if k not in ("stage", "unstable", "rebind", "remembers")}


def run_numscript(ctx, n):
    if not (ctx.ensure_driver() and ctx.ensure_harness()):
        return None
    return pipeline(ctx, "numscript", n)


# ---- tiny independent evaluator of the parts of a program the oracles need (Python, not the Lean model)

def resolve_env(inp):
    env = {}
    bal = {(a, s): int(v) for a, s, v in inp["bal"]}
    ameta = {(a, k): v for a, k, v in (inp.get("ameta") or [])}

    def acct_of(e):
        if e["k"] == "acct":
            return e["v"]
        if e["k"] == "var":
            v = env.get(e["v"])
            return v[1] if v and v[0] == "acct" else None
        return None

    def asset_of(e):
        if e["k"] == "asset":
            return e["v"]
        if e["k"] == "var":
            v = env.get(e["v"])
            return v[1] if v and v[0] == "asset" else None
        return None

    def parse(ty, raw):
        if ty == "account":
            return ("acct", raw)
        if ty == "asset":
            return ("asset", raw)
        if ty == "monetary":
            a, n = raw.split(" ", 1)
            return ("mon", a, int(n))
        return (ty, raw)
    for d in inp["ast"].get("vars") or []:
        o = d.get("origin")
        try:
            if o is None:
                env[d["name"]] = parse(d["ty"], inp["vars"][d["name"]])
            elif o["k"] == "meta":
                env[d["name"]] = parse(d["ty"], ameta[(acct_of(o["acc"]), o["key"])])
            else:
                a, s = acct_of(o["acc"]), asset_of(o["asset"])
                env[d["name"]] = ("mon", s, bal.get((a, s), 0))
        except Exception:
            pass
    return env, bal, acct_of, asset_of


def eval_mon(e, env, asset_of):
    k = e["k"]
    if k == "mon":
        return (asset_of(e["asset"]), int(e["amt"]))
    if k == "var":
        v = env.get(e["v"])
        return (v[1], v[2]) if v and v[0] == "mon" else None
    if k in ("add", "sub"):
        l, r = eval_mon(e["l"], env, asset_of), eval_mon(e["r"], env, asset_of)
        if not l or not r:
            return None
        return (l[0], l[1] + r[1] if k == "add" else l[1] - r[1])
    return None


def sources_of(s):
    if s["k"] == "acct":
        yield s
    elif s["k"] == "max":
        yield from sources_of(s["s"])
    else:
        for x in s["ss"]:
            yield from sources_of(x)


def send_sources(st):
    src = st["src"]
    if src["k"] == "src":
        yield from sources_of(src["s"])
    else:
        for it in src["items"]:
            yield from sources_of(it["s"])


class _Outside(Exception):
    pass


def dest_accounts(d, acct_of):
    """the accounts a destination tree can send to; None when one of them cannot be evaluated from the input"""
    out = set()

    def kd(k):
        if k["k"] == "to":
            walk(k["d"])

    def walk(d):
        if d["k"] == "acct":
            a = acct_of(d["e"])
            if a is None:
                raise _Outside()
            out.add(a)
        elif d["k"] == "inorder":
            for c in d["caps"]:
                kd(c["kd"])
            kd(d["rest"])
        else:
            for i in d["items"]:
                kd(i["kd"])
    try:
        walk(d)
    except (_Outside, KeyError, TypeError):
        return None
    return out


def send_table(inp):
    """one entry per send statement, in script order: the asset its amount names, the overdraft each of ITS source occurrences is
    granted — {(account, asset): None (unbounded / @world) | largest bound} —, its source accounts and the accounts its destination
    can reach (None = not all of them can be evaluated from the input).  Python evaluation of the text, no Lean model."""
    env, bal, acct_of, asset_of = resolve_env(inp)
    table = []
    for pos, st in enumerate(inp["ast"]["stmts"]):
        if st["k"] != "send":
            continue
        amt = st["amt"]
        if amt["k"] == "all":
            sasset = asset_of(amt["asset"])
        else:
            e = amt["e"]
            while e["k"] in ("add", "sub"):
                e = e["l"]
            m = eval_mon(e, env, asset_of)
            sasset = m[0] if m else None
        g, srcs, unknown = {}, set(), False
        for s in send_sources(st):
            a = acct_of(s["e"])
            if a is None:
                unknown = True
            else:
                srcs.add(a)
            od = s.get("od")
            if s["e"]["k"] == "acct" and s["e"]["v"] == "world":
                key, val = (a, sasset), None
            elif od is None:
                key, val = (a, sasset), 0
            elif od["k"] == "unbounded":
                key, val = (a, sasset), None
            else:
                m = eval_mon(od["e"], env, asset_of)
                if not m:
                    unknown = True     # a bound that cannot be evaluated: this send grants an unknown amount
                    continue
                key, val = (a, m[0]), m[1]
            if key in g and (g[key] is None or val is None):
                g[key] = None
            elif key in g:
                g[key] = max(g[key], val)
            else:
                g[key] = val
        table.append({"stmt": pos, "asset": sasset, "grants": g, "srcs": None if unknown else srcs, "unknown_grant": unknown,
                      "dsts": dest_accounts(st["dst"], acct_of)})
    return table, bal


def grants(inp):
    """(account, asset) -> None (unbounded) | largest overdraft the text attaches to it ANYWHERE in the script"""
    table, bal = send_table(inp)
    g = {}
    for t in table:
        for key, val in t["grants"].items():
            if key in g and (g[key] is None or val is None):
                g[key] = None
            elif key in g:
                g[key] = max(g[key], val)
            else:
                g[key] = val
    return g, bal


def attribute(table, postings):
    """for each posting, the sends (indices into `table`) it can come from, given that a send only moves its own asset (or the asset
    of one of its overdraft clauses) from its own sources to its own destinations, and that the postings of the statements come in
    the order of the statements.  None when the postings have no such reading."""
    feas = []
    for src, dst, _, asset in postings:
        feas.append([k for k, t in enumerate(table)
                     if (t["srcs"] is None or src in t["srcs"]) and (t["dsts"] is None or dst in t["dsts"])
                     and (t["asset"] is None or asset == t["asset"] or any(asset == ga for _, ga in t["grants"]))])
    lo, cur = [], 0
    for c in feas:
        c = [k for k in c if k >= cur]
        if not c:
            return None
        cur = min(c)
        lo.append(cur)
    hi, cur = [0] * len(feas), len(table) - 1
    for n in range(len(feas) - 1, -1, -1):
        c = [k for k in feas[n] if k <= cur]
        if not c:
            return None
        cur = max(c)
        hi[n] = cur
    return [[k for k in feas[n] if lo[n] <= k <= hi[n]] for n in range(len(feas))]


def floor_violations(inp, out, stats=None):
    """C01: replay ALL postings of the script, in order, on the balances it was run against (Python integers: no bound on the
    magnitudes).  A posting that takes from a non-world account must leave it at or above -(the overdraft granted to that account by
    the SEND the posting belongs to): a bound granted by one statement — or `allowing unbounded overdraft` in one statement — does not
    license what another statement takes.  Which statement a posting belongs to is read off the output alone (`attribute`); where
    several statements are possible the most generous of them counts, where none can be found the most generous of the whole text."""
    if "postings" not in out:
        return []
    table, bal = send_table(inp)
    g, _ = grants(inp)
    owners = attribute(table, out["postings"])
    R = dict(bal)
    v = []
    for n, (src, dst, amt, asset) in enumerate(out["postings"]):
        amt = int(amt)
        if amt < 0:
            v.append(("negative-posting", "posting %d has a negative amount %d" % (n, amt)))
        if src != "world":
            gr, by = g.get((src, asset), 0), "the script"
            if owners is not None and owners[n] and not any(table[k]["unknown_grant"] for k in owners[n]):
                grs = [table[k]["grants"].get((src, asset), 0) for k in owners[n]]
                gr = None if any(x is None for x in grs) else max(grs)
                by = "its statement (no. %s)" % "/".join(str(table[k]["stmt"] + 1) for k in owners[n])
            after = R.get((src, asset), 0) - amt
            if stats is not None and amt > 0:
                stats["postings_from_a_non_world_account"] += 1
                stats["judged_against_the_grant_of_their_own_statement"] += 1 if by != "the script" else 0
                stats["of_which_in_a_script_of_several_sends"] += 1 if by != "the script" and len(table) > 1 else 0
                stats["of_which_the_statement_is_not_unique"] += 1 if by != "the script" and len(owners[n]) > 1 else 0
                stats["bounded_here_although_unbounded_elsewhere_in_the_script"] += 1 if gr is not None and g.get((src, asset), 0) is None else 0
                stats["balance_or_amount_beyond_64_bits"] += 1 if max(abs(after), abs(after + amt), amt) >= 2 ** 63 else 0
            if gr is not None and amt > 0 and after < -gr:
                v.append(("floor", "posting %d takes %d %s from %s leaving %d, below -(overdraft %d granted by %s)" % (n, amt, asset, src, after, gr, by)))
        R[(src, asset)] = R.get((src, asset), 0) - amt
        R[(dst, asset)] = R.get((dst, asset), 0) + amt
    return v


def has_kept(d):
    if d["k"] == "acct":
        return False
    if d["k"] == "inorder":
        return any(c["kd"]["k"] == "kept" or has_kept(c["kd"]["d"]) for c in d["caps"]) or d["rest"]["k"] == "kept" or has_kept(d["rest"]["d"])
    return any(i["kd"]["k"] == "kept" or has_kept(i["kd"]["d"]) for i in d["items"])


def features(inp):
    f = set()
    for st in inp["ast"]["stmts"]:
        f.add(st["k"])
        if st["k"] == "send":
            f.add("send-" + st["amt"]["k"])
            f.add("src-" + st["src"]["k"])
            for s in send_sources(st):
                od = s.get("od")
                f.add("od-" + (od["k"] if od else "none"))
                if s["e"]["k"] == "var":
                    f.add("src-var")
            if st["src"]["k"] == "src" and st["src"]["s"]["k"] != "acct":
                f.add("src-" + st["src"]["s"]["k"])
            f.add("dst-" + st["dst"]["k"])
            if has_kept(st["dst"]):
                f.add("kept")
    for d in inp["ast"].get("vars") or []:
        f.add("var-" + d["ty"] + ("-" + d["origin"]["k"] if d.get("origin") else ""))
    return f


def distribution(inputs, impl):
    cls, feats = collections.Counter(), collections.Counter()
    for i in inputs:
        o = impl.get(i["id"], {})
        cls[o.get("err") or ("panic" if "panic" in o else "ok")] += 1
        for f in features(i):
            feats[f] += 1
    return {"outcomes": dict(cls), "constructs": dict(feats)}


def sendall_bottomless(inp):
    """"unbounded" / "world" when the script has a `send [A *]` whose source is, or whose ordered source list ends with, an account
    `allowing unbounded overdraft` / @world (the language refuses such a text); else None"""
    def last(s):
        while s["k"] == "inorder" and s["ss"]:
            s = s["ss"][-1]
        return s
    for st in inp["ast"]["stmts"]:
        if st["k"] == "send" and st["amt"]["k"] == "all" and st["src"]["k"] == "src":
            s = last(st["src"]["s"])
            if s["k"] == "acct":
                if s["e"]["k"] == "acct" and s["e"]["v"] == "world":
                    return "world"
                if (s.get("od") or {}).get("k") == "unbounded":
                    return "unbounded"
    return None


def focus_stats(inputs, impl):
    """how often each focused shape of harness/numscript_focus.go occurred in this run, by variant and by outcome, and how many
    texts of the whole stream ask for `send [A *]` from a bottomless source (and what the real compiler answered)"""
    shape, variant, outcome, bottomless = collections.Counter(), collections.Counter(), {}, collections.Counter()
    for i in inputs:
        o = impl.get(i["id"]) or {}
        res = o.get("err") or ("panic" if "panic" in o else "ok")
        b = sendall_bottomless(i)
        if b:
            bottomless["send_all_from_%s" % b] += 1
            bottomless["send_all_from_%s:%s" % (b, "refused_by_the_compiler" if res == "compile_error" else "NOT_refused:" + res)] += 1
        if not i.get("focus"):
            continue
        shape[i["shape"]] += 1
        variant[i["focus"]] += 1
        outcome.setdefault(i["shape"], collections.Counter())[res] += 1
    return {"programs": len(inputs), "focused": sum(shape.values()), "by_shape": dict(shape), "by_variant": dict(sorted(variant.items())),
            "outcomes_by_shape": {k: dict(v) for k, v in outcome.items()}, "send_all_from_a_bottomless_source": dict(bottomless),
            "rule": "an additional case in front of about 7 % of the generated programs, drawn from a stream of its own (the other programs of the seed "
                    "are what they were); `/control` variants are neighbours that must behave ordinarily"}


def rebind_stats(inputs, impl):
    """how much of the stream exercises "a compiled program does not remember a run" (third run on another variable map vs a fresh
    compilation) and how often a monetary literal takes its asset from a variable"""
    st = collections.Counter()
    for i in inputs:
        o = impl.get(i["id"]) or {}
        lit = re.search(r"\[\$\w+ [0-9]", i.get("text") or "") is not None
        st["programs"] += 1
        st["monetary_literal_on_an_asset_variable"] += 1 if lit else 0
        st["monetary_literal_on_an_asset_variable_and_run_ok"] += 1 if lit and "postings" in o else 0
        for ctxt, pat in (("in_a_send_amount", r"send \[\$\w+ [0-9]"), ("in_a_cap", r"max \[\$\w+ [0-9]"), ("in_an_overdraft", r"up to \[\$\w+ [0-9]"),
                          ("in_a_metadata_value", r"meta\([^\n]*\[\$\w+ [0-9]"), ("in_a_save", r"save \[\$\w+ [0-9]")):
            st["asset_variable_literal_" + ctxt] += 1 if re.search(pat, i.get("text") or "") else 0
        r = o.get("rebind")
        if r is None:
            continue
        st["with_second_variable_map"] += 1
        st["second_map_run_ok"] += 1 if r.get("ok") else 0
        st["second_map_outcome_differs_from_first"] += 1 if r.get("varies") else 0
        st["second_map_run_ok_and_asset_variable_literal"] += 1 if r.get("ok") and r.get("varies") and lit else 0
        st["remembers"] += 1 if "remembers" in o else 0
    return dict(st)


# ---- model A2 (bytecode level): second correspondence stream on the SAME inputs (area "nsbytecode")

TRUSTED_A2 = [
    "extract/opcodes: go/ast reader of the two iota const blocks (fails on anything but a plain iota sequence)",
    "harness rendering of program.Program (hex of Instructions, resources with machine.Type tags, sorted NeededBalances, Sources)",
    "Lean VM model over-approximates panics on a nil Monetary.Amount (any monetary pop of it panics); big.Int.Uint64 modelled as |n| mod 2^64",
]

OPNAMES = ["?", "APUSH", "BUMP", "DELETE", "IADD", "ISUB", "PRINT", "FAIL", "ASSET", "MONETARY_NEW", "MONETARY_ADD", "MONETARY_SUB", "MAKE_ALLOTMENT",
           "TAKE_ALL", "TAKE_ALWAYS", "TAKE", "TAKE_MAX", "FUNDING_ASSEMBLE", "FUNDING_SUM", "FUNDING_REVERSE", "REPAY", "ALLOC", "SEND", "TX_META",
           "ACCOUNT_META", "SAVE"]


def regen_opcodes(ctx):
    """lean/Generated/Opcodes.lean from the sources of this run (before L1: Props.C08 imports it)"""
    from vlib import regen
    err = None
    for name, f in regen.GENERATORS:
        if name == "opcodes":
            err = f()
    if err:
        ctx.l1_broken.append("extract/opcodes could not read the sources: " + err)
    p = os.path.join(BUILD, "opcodes.json")
    if os.path.exists(p):
        s = json.load(open(p))
        ctx.cov["regenerated"] = {"opcodes": len(s["opcodes"]), "types": len(s["types"])}
    return err


def run_bytecode(ctx, inputs, timeout=3000):
    """real compiler + VM (printing the compiled program) vs Lean Compile.compile/encode + VM.run, on `inputs`"""
    inp = ctx.path("nsbytecode.in.jsonl")
    write_jsonl(inp, inputs)
    implf, modelf = ctx.path("nsbytecode.impl.jsonl"), ctx.path("nsbytecode.model.jsonl")
    p = run_harness(["nsbytecode", "exec", "-in", inp, "-out", implf], timeout=timeout)
    if p.returncode != 0:
        ctx.l2_broken.append({"stream": "nsbytecode-exec", "detail": (p.stdout + p.stderr)[-2000:]})
        return None
    p = run_driver("nsbytecode", inp, modelf, timeout=timeout)
    if p.returncode != 0:
        ctx.l2_broken.append({"stream": "nsbytecode-driver", "detail": (p.stdout + p.stderr)[-2000:]})
        return None
    impl = {r["id"]: r["out"] for r in read_jsonl(implf)}
    model = {r["id"]: r["out"] for r in read_jsonl(modelf)}
    return impl, model


def proj_run(o):
    r = o.get("run")
    if r is None:
        return {"run": None}
    if "panic" in r:
        return {"run": {"panic": True}}
    return {"run": strip(r)}


def compare_bytecode(ctx, inputs, impl, model):
    """(i) bytecode equality  (ii) VM model vs real VM; plus coverage of the instruction set"""
    compare(ctx, "nsbytecode:bytecode-equality", inputs, impl, model,
            proj_impl=lambda i, o: {"compile": o.get("compile")}, proj_model=lambda i, o: {"compile": o.get("compile")})
    compare(ctx, "nsbytecode:vm-model-vs-real-vm", inputs, impl, model,
            proj_impl=lambda i, o: proj_run(o), proj_model=lambda i, o: proj_run(o))
    ops, progs, compiled, longest = collections.Counter(), set(), 0, 0
    for inp in inputs:
        c = impl.get(inp["id"], {}).get("compile")
        if not isinstance(c, dict):
            continue
        compiled += 1
        progs.add(c["code"])
        b = bytes.fromhex(c["code"])
        i, n = 0, 0
        while i < len(b):
            ops[OPNAMES[b[i]] if b[i] < len(OPNAMES) else "?"] += 1
            i += 3 if b[i] == 1 else 1
            n += 1
        longest = max(longest, n)
    ctx.cov["bytecode"] = {"programs": len(inputs), "compiled": compiled, "distinct_instruction_strings": len(progs),
                           "longest_program_instrs": longest, "opcodes_emitted": dict(ops),
                           "opcodes_never_emitted": [o for o in OPNAMES[1:] if o not in ops]}


# ---- C03, ordering clause: "in an ordered list of sources a later one contributes only when the earlier ones have given all they can"
# (and, with it: what an ordered destination keeps is taken from the END of the funding, so the postings drain the sources front to
# back for what is actually sent; `send [A *]` moves exactly what its sources hold AT THAT POINT of the script), evaluated on the
# postings alone, send by send, for the fragment where this can be stated without the Lean Spec

class _Short(Exception):
    pass


def merge_adjacent(pairs):
    """drop the zero amounts, add up neighbours with the same key: [(key…, amount)]"""
    out = []
    for t in pairs:
        k, g = tuple(t[:-1]), t[-1]
        if g == 0:
            continue
        if out and out[-1][:-1] == k:
            out[-1] = k + (out[-1][-1] + g,)
        else:
            out.append(k + (g,))
    return out


def send_expectation(st, R, env, acct_of, asset_of):
    """None when the send is outside the fragment; else what it must post when the balances are R (the stored balances with the
    postings of the earlier statements of the script applied): dict(asset, all, amount, available, kept, leaves, repeated, bottomless,
    expected) where expected is None (the sources cannot cover the amount, or the destination is told to keep more than it
    receives: the send must fail) or the list [(source, destination, amount)] in order, neighbours merged, zero amounts dropped.

    Fragment: `send [A n]` (n >= 0) or `send [A *]`; a source that is an account or an ordered list (possibly nested) of `@acct`,
    `@acct allowing overdraft up to [A k]`, `max [A m] from <such a source>`, and — with a stated amount — `@world` /
    `@acct allowing unbounded overdraft`; a destination that is an account or an ordered destination whose entries are
    `max [A m] kept`, `max [A m] to <destination>`, `remaining kept`, `remaining to <destination>`, nested at will; everything in
    asset A; no allotment.
    Sources: a leaf can give balance + overdraft minus what the same account already gave earlier in the list (a bottomless one:
    whatever is still asked for); a `max` caps what passes through it; the leaves are drained front to back.
    Destinations: the entries are served front to back, each `max` entry taking at most its cap from what is left; what an entry
    or a nested destination does not send comes back in front of what is left; all that is kept is finally taken from the END of
    the funding — so the units actually sent are the FIRST ones of the funding, in the order of the entries."""
    if st["src"]["k"] != "src":
        return None

    def mon(e):
        try:
            m = eval_mon(e, env, asset_of)
        except Exception:
            m = None
        if not m or m[0] is None or m[1] < 0:
            raise _Outside()
        return m

    given, pieces, leaves, flags = collections.Counter(), [], [], set()

    def give(s, limit, asset):          # limit None: no limit (send-all)
        if s["k"] == "acct":
            a = acct_of(s["e"])
            od = s.get("od")
            world = s["e"]["k"] == "acct" and s["e"]["v"] == "world"
            if a is None or (a == "world" and not world):
                raise _Outside()
            leaves.append(a)
            if world or (od is not None and od["k"] == "unbounded"):
                if limit is None or (world and od is not None):
                    raise _Outside()
                flags.add("bottomless")
                g = limit
            else:
                o = 0
                if od is not None:
                    if od["k"] != "upto":
                        raise _Outside()
                    oa, o = mon(od["e"])
                    if oa != asset:
                        raise _Outside()
                g = max(0, R.get((a, asset), 0) + o - given[a])
                if limit is not None:
                    g = min(g, limit)
            if g > 0:
                given[a] += g
                pieces.append((a, g))
            return g
        if s["k"] == "max":
            ca, c = mon(s["cap"])
            if ca != asset:
                raise _Outside()
            return give(s["s"], c if limit is None else min(limit, c), asset)
        if s["k"] != "inorder":
            raise _Outside()
        tot = 0
        for x in s["ss"]:
            tot += give(x, None if limit is None else limit - tot, asset)
        return tot

    def flow(d, amount, asset):
        """(what is sent, in order: [(account, amount)], how much is handed back)"""
        if d["k"] == "acct":
            a = acct_of(d["e"])
            if a is None:
                raise _Outside()
            return [(a, amount)], 0
        if d["k"] != "inorder":
            raise _Outside()
        cur, kept, sent = amount, 0, []
        for c in d["caps"]:
            ca, m = mon(c["cap"])
            if ca != asset:
                raise _Outside()
            t = min(m, cur)
            if c["kd"]["k"] == "kept":
                flags.add("max-kept")
                kept += t                 # set aside by amount only; the funding stays as it is
            else:
                e, k = flow(c["kd"]["d"], t, asset)
                sent += e
                cur, kept = cur - t + k, kept + k
        if kept > cur:
            raise _Short()
        if d["rest"]["k"] == "kept":
            return sent, cur
        e, k = flow(d["rest"]["d"], cur - kept, asset)
        return sent + e, kept + k
    try:
        if st["amt"]["k"] == "mon":
            asset, n = mon(st["amt"]["e"])
        else:
            asset, n = asset_of(st["amt"]["asset"]), None
            if asset is None:
                return None
        avail = give(st["src"]["s"], n, asset)
        covered = n is None or avail == n
        expected, kept = None, None
        if covered:
            try:
                sent, kept = flow(st["dst"], avail, asset)
                expected, i, left = [], 0, 0
                for dest, amt in sent:      # the units sent are the first ones of the funding, entry after entry
                    while amt > 0:
                        if left == 0:
                            a, left = pieces[i]
                            i += 1
                        t = min(left, amt)
                        expected.append((a, dest, t))
                        left, amt = left - t, amt - t
                expected = merge_adjacent(expected)
            except _Short:
                expected = None
    except (_Outside, KeyError, TypeError, IndexError):
        return None
    seen_at = {}
    for k, a in enumerate(leaves):
        seen_at.setdefault(a, []).append(k)
    return {"asset": asset, "all": n is None, "amount": n, "available": avail, "kept": kept, "has_kept": has_kept(st["dst"]),
            "ordered_dst": st["dst"]["k"] == "inorder",
            "max_kept": "max-kept" in flags, "bottomless": "bottomless" in flags, "leaves": len(leaves), "parts": len(merge_adjacent(pieces)),
            "repeated": any(b - a > 1 for ps in seen_at.values() for a, b in zip(ps, ps[1:])),
            "expected": expected}


def ordered_verdicts(inp, out, stats=None):
    """[(signature keys, what)]: what is wrong with the way the postings of `out` drain the sources / serve the ordered destinations
    of the sends of `inp`, statement by statement.  Scripts whose only balance-touching statements are sends (no `save`, no `fail`);
    with several sends, every posting must be attributable to one statement from the output alone (`attribute`), and each send is
    judged on the stored balances with the postings of the earlier statements applied."""
    if "postings" not in out:
        return []
    stmts = inp["ast"]["stmts"]
    sends = [s for s in stmts if s["k"] == "send"]
    if not sends or any(s["k"] not in ("send", "print", "setTxMeta", "setAccountMeta") for s in stmts):
        return []
    postings = out["postings"]
    env, bal, acct_of, asset_of = resolve_env(inp)
    if len(sends) == 1:
        owner = [0] * len(postings)
    else:
        table, _ = send_table(inp)
        own = attribute(table, postings)
        if own is None or any(len(o) != 1 for o in own):
            if stats is not None:
                stats["scripts_of_several_sends_whose_postings_cannot_be_attributed"] += 1
            return []
        owner = [o[0] for o in own]
    R, v = dict(bal), []
    for k, st in enumerate(sends):
        mine = [p for p, o in zip(postings, owner) if o == k]
        try:
            ex = send_expectation(st, R, env, acct_of, asset_of)
        except Exception:
            ex = None
        if ex is not None:
            w = _send_verdict(ex, mine, k, len(sends), stats)
            if w:
                v.append(w)
        for src, dst, amt, asset in mine:
            R[(src, asset)] = R.get((src, asset), 0) - int(amt)
            R[(dst, asset)] = R.get((dst, asset), 0) + int(amt)
    return v


def _send_verdict(ex, mine, k, nsends, stats):
    got = merge_adjacent([(p[0], p[1], int(p[2])) for p in mine])
    got_src = merge_adjacent([(p[0], int(p[2])) for p in mine])
    moved = sum(t[-1] for t in got)
    where = "" if nsends == 1 else "statement %d of %d (balances: the stored ones with the postings of the earlier statements applied): " % (k + 1, nsends)
    if stats is not None:
        stats["evaluated"] += 1
        stats["in_a_script_of_several_sends_not_the_first"] += 1 if k > 0 else 0
        stats["with_an_account_at_two_non_adjacent_places"] += 1 if ex["repeated"] else 0
        stats["several_sources_contribute"] += 1 if len(got_src) > 1 else 0
        stats["send_all"] += 1 if ex["all"] else 0
        stats["send_all_after_an_earlier_send"] += 1 if ex["all"] and k > 0 else 0
        stats["ends_with_world_or_an_unbounded_overdraft"] += 1 if ex["bottomless"] else 0
        stats["ordered_destination"] += 1 if ex["ordered_dst"] else 0
        stats["destination_keeps_something"] += 1 if ex["kept"] else 0
        stats["max_kept_entry"] += 1 if ex["max_kept"] else 0
        stats["max_kept_entry_keeps_from_a_funding_of_several_parts"] += 1 if ex["max_kept"] and ex["kept"] and ex["parts"] > 1 else 0
    want = ex["expected"]
    sig = {"kept": True} if ex["has_kept"] else {}
    if want is None:
        if ex["all"] or ex["available"] == ex["amount"]:
            return (dict(sig, **{"class": "kept-amount"}), where + "the ordered destination is told to keep more than it receives (%d %s), yet the send went through: %s"
                    % (ex["available"], ex["asset"], got))
        return (dict(sig, **{"class": "ordered-sources"}), where + "the ordered sources can give less than the %d %s asked for, yet the send went through: %s"
                % (ex["amount"], ex["asset"], got_src))
    stray = [p for p in mine if int(p[2]) != 0 and p[3] != ex["asset"]]
    if stray:
        return (dict(sig, **{"class": "ordered-sources"}), where + "a posting goes elsewhere than in %s: %s" % (ex["asset"], stray[0]))
    want_src = merge_adjacent([(t[0], t[2]) for t in want])
    should = sum(t[-1] for t in want)
    if moved != should and ex["all"] and not ex["has_kept"]:
        return ({"class": "send-all-not-exact"}, where + "`send [%s *]` must move everything its sources hold at that point, %d (%s); the postings move %d (%s)"
                % (ex["asset"], should, want_src, moved, got_src))
    if moved != should and ex["has_kept"]:
        return (dict(sig, **{"class": "kept-amount"}), where + "of the %d %s that reach the destination the text keeps %d and sends %d; the postings send %d (%s)"
                % (ex["available"], ex["asset"], ex["kept"], should, moved, got))
    if got_src != want_src:
        j = next((j for j in range(min(len(got_src), len(want_src))) if got_src[j] != want_src[j]), min(len(got_src), len(want_src)))
        return (dict(sig, **{"class": "ordered-sources"}),
                where + "sources are not drained in order: giving all they can front to back%s yields %s, the postings say %s (first difference at contribution %d)"
                % (" for the %d actually sent (what is kept comes off the END of the funding)" % should if ex["has_kept"] else "", want_src, got_src, j))
    if got != want:
        return (dict(sig, **{"class": "ordered-destinations"}),
                where + "the entries of the destination are not served front to back: expected %s, the postings say %s" % (want, got))
    return None


# ---- C03, portion clause: "each share is the floored fraction the statement says, the leftover units go one each to the earliest
# entries", evaluated on the postings alone (Python integers and Fractions; percentages read from the TEXT of the script / of the
# variable / of the stored metadata — no helper of the code under test, no Lean model)

_PCT = re.compile(r"([0-9]+)(?:[.]([0-9]+))?%")
_FRAC = re.compile(r"([0-9]+)\s?/\s?([0-9]+)")


def portion_from_text(t):
    """`12.5%` = 125/1000, `2.05%` = 205/10000, `3/8`; None when the text is no portion or lies outside [0, 1]"""
    if not isinstance(t, str):
        return None
    m = _PCT.fullmatch(t)
    if m:
        frac = m.group(2) or ""
        v = fractions.Fraction(int(m.group(1) + frac), 100 * 10 ** len(frac))     # the digits as written: zeros after the point count
    else:
        m = _FRAC.fullmatch(t)
        if not m or int(m.group(2)) == 0:
            return None
        v = fractions.Fraction(int(m.group(1)), int(m.group(2)))
    return v if 0 <= v <= 1 else None


def expected_shares(n, ps):
    """ps: Fractions, None = `remaining`.  None when such a list is not accepted (two `remaining`, total above 1, total below 1
    without `remaining`); else the shares of n: floor(n * p) each, then one more unit to the earliest entries until n is reached"""
    known = [p for p in ps if p is not None]
    tot = sum(known, fractions.Fraction(0))
    if len(ps) - len(known) > 1 or tot > 1 or (len(known) == len(ps) and tot != 1) or not ps:
        return None
    full = [p if p is not None else 1 - tot for p in ps]
    fl = [(n * p.numerator) // p.denominator for p in full]
    left = n - sum(fl)
    if not 0 <= left <= len(fl):
        return None
    return [x + (1 if i < left else 0) for i, x in enumerate(fl)], full


def single_account(s):
    """the source expression of a source that is one account (plain, with an overdraft, under one or several `max`)"""
    while s["k"] == "max":
        s = s["s"]
    return s["e"] if s["k"] == "acct" else None


def portion_shares_verdicts(inp, out, stats=None):
    """[(side, what)] — side "destination" / "source": the postings do not give each entry of the allotment its stated share.

    Fragment: exactly one send in the script; its amount can be evaluated from the input (or it is `[A *]` without `kept`: then
    what moved is the amount); every portion can be evaluated from the input alone (literal, portion variable of the request,
    portion variable read from stored metadata, `remaining`).  Destination side: every entry is `to <account>` or `kept`.  Source
    side: every entry draws from one account (plain / overdraft / under `max`) and nothing is `kept` further on."""
    if "postings" not in out:
        return []
    sends = [s for s in inp["ast"]["stmts"] if s["k"] == "send"]
    if len(sends) != 1:
        return []
    st = sends[0]
    if st["dst"]["k"] != "allot" and st["src"]["k"] != "allot":
        return []
    env, bal, acct_of, asset_of = resolve_env(inp)
    try:
        if st["amt"]["k"] == "mon":
            m = eval_mon(st["amt"]["e"], env, asset_of)
            if not m or m[0] is None or m[1] < 0:
                return []
            asset, n = m
        else:
            asset, n = asset_of(st["amt"]["asset"]), None
    except Exception:
        return []
    posts = [(p[0], p[1], int(p[2])) for p in out["postings"]]
    if asset is None or any(p[3] != asset for p in out["postings"]) or any(p[2] < 0 for p in posts):
        return []          # another asset moved / a negative posting: other clauses of C03 speak about those
    if n is None:
        if has_kept(st["dst"]):
            return []
        n = sum(p[2] for p in posts)

    def value(p):
        if p["k"] == "remaining":
            return None, None
        if p["k"] == "const":
            return portion_from_text(p["t"]), ("literal", p["t"])
        if p["k"] == "var":
            v = env.get(p["v"])
            if v and v[0] == "portion":
                d = next((d for d in inp["ast"].get("vars") or [] if d["name"] == p["v"]), {})
                return portion_from_text(v[1]), ("metadata" if d.get("origin") else "variable", v[1])
        raise _Outside()

    def shares_of(items):
        vals = [value(i["p"]) for i in items]
        if any(v is None and how is not None for v, how in vals):
            raise _Outside()
        r = expected_shares(n, [v for v, _ in vals])
        if r is None:
            raise _Outside()
        return r[0], r[1], [how for _, how in vals if how]

    def note(side, full, hows):
        if stats is None:
            return
        stats["sends_evaluated"] += 1
        stats["side_" + side] += 1
        stats["amount_ge_2^62"] += 1 if n >= 2 ** 62 else 0
        stats["amount_below_2^63_times_a_numerator_not"] += 1 if n < 2 ** 63 <= n * max(p.numerator for p in full) else 0
        texts = [t for _, t in hows]
        stats["fractional_percent"] += 1 if any("." in t for t in texts) else 0
        stats["percent_with_a_zero_right_after_the_point"] += 1 if any(re.search(r"[.]0", t) and not re.fullmatch(r"[0-9]+[.]0+%", t) for t in texts) else 0
        for k in sorted({h for h, _ in hows}):
            stats["portion_from_" + k] += 1

    def differs(want, got):
        want = {a: v for a, v in want.items() if v}
        got = {a: v for a, v in got.items() if v}
        return None if want == got else "the statement gives %s, the postings give %s" % (
            sorted(want.items()), sorted(got.items()))
    v = []
    dst, src = st["dst"], st["src"]
    if dst["k"] == "allot":
        try:
            accts = []
            for it in dst["items"]:
                if it["kd"]["k"] == "kept":
                    accts.append(None)
                elif it["kd"]["d"]["k"] == "acct" and acct_of(it["kd"]["d"]["e"]) is not None:
                    accts.append(acct_of(it["kd"]["d"]["e"]))
                else:
                    raise _Outside()
            shares, full, hows = shares_of(dst["items"])
            note("destination", full, hows)
            want, got = collections.Counter(), collections.Counter()
            for a, x in zip(accts, shares):
                if a is not None:
                    want[a] += x
            for _, d, x in posts:
                got[d] += x
            w = differs(want, got)
            if w:
                v.append(("destination", "send of %d %s through the destination portions %s: %s" % (n, asset, [str(p) for p in full], w)))
        except (_Outside, KeyError, TypeError):
            pass
    if src["k"] == "allot" and not has_kept(dst):
        try:
            accts = []
            for it in src["items"]:
                e = single_account(it["s"])
                if e is None or acct_of(e) is None:
                    raise _Outside()
                accts.append(acct_of(e))
            shares, full, hows = shares_of(src["items"])
            note("source", full, hows)
            want, got = collections.Counter(), collections.Counter()
            for a, x in zip(accts, shares):
                want[a] += x
            for s_, _, x in posts:
                got[s_] += x
            w = differs(want, got)
            if w:
                v.append(("source", "send of %d %s from the source portions %s: %s" % (n, asset, [str(p) for p in full], w)))
        except (_Outside, KeyError, TypeError):
            pass
    return v


# ---- a violation must come with cases that show it again: when the case alone (fresh process) does not, something an
# earlier execution left in the process is part of the cause — find that execution

def exec_cases(ctx, cases, tag="iso"):
    """the outputs of `cases`, executed in this order in ONE fresh harness process (None when the harness failed)"""
    rows = [dict(c, id=k) for k, c in enumerate(cases)]
    inf, outf = ctx.path(tag + ".in.jsonl"), ctx.path(tag + ".out.jsonl")
    write_jsonl(inf, rows)
    p = run_harness(["numscript", "exec", "-in", inf, "-out", outf], timeout=900)
    if p.returncode != 0:
        return None
    res = {r["id"]: r["out"] for r in read_jsonl(outf)}
    return [res.get(k) for k in range(len(rows))]


class Replays:
    def __init__(self, ctx, order):
        self.ctx, self.order, self.polluters, self.per_sig = ctx, order, [], collections.Counter()
        self.stats, self.first = collections.Counter(), {}

    def violation(self, sig, what, inp, observed, shows, extra=None, per_sig=3):
        """record the violation with the shortest list of cases (one process, this order) whose LAST one shows it"""
        key = canon(sig)
        self.per_sig[key] += 1
        if self.per_sig[key] > per_sig:      # same signature: enough concrete replays; count it under the first one
            self.stats["further_occurrences_only_counted"] += 1
            self.ctx.violation(*self.first[key])
            return
        rp = self.concrete(inp, observed, shows)
        rp.update(extra or {})
        if "inputs" in rp:
            sig = dict(sig, state="left-behind-by-an-earlier-execution")
            what += "  [shows only after another execution in the same process: %d case(s) before it in the replay]" % (len(rp["inputs"]) - 1)
        self.first.setdefault(key, (sig, what, rp))
        self.ctx.violation(sig, what, rp)

    def concrete(self, inp, observed, shows):
        base = {"area": "numscript", "input": inp, "observed": observed}
        alone = exec_cases(self.ctx, [inp])
        if alone is None or shows(alone[0]):
            self.stats["shows_alone"] += 1
            return base
        self.stats["needs_an_earlier_execution"] += 1
        for p in self.polluters:
            r = exec_cases(self.ctx, [p, inp])
            if r and shows(r[1]):
                return {"area": "numscript", "inputs": [p, inp], "observed": r[1], "alone": alone[0]}
        pos = next((k for k, c in enumerate(self.order) if c["id"] == inp["id"]), None)
        if pos is None:
            return base
        lo, hi = 0, pos        # with the first `hi` cases before it the violation shows (the run itself), with `lo` it does not
        while hi - lo > 1:
            mid = (lo + hi) // 2
            r = exec_cases(self.ctx, self.order[:mid] + [inp])
            if r and shows(r[-1]):
                hi = mid
            else:
                lo = mid
        if hi == 0:
            return base
        p = self.order[hi - 1]
        r = exec_cases(self.ctx, [p, inp])
        if r and shows(r[1]):
            self.polluters.append(p)
            return {"area": "numscript", "inputs": [p, inp], "observed": r[1], "alone": alone[0]}
        # several earlier executions are needed: drop chunks of the prefix while the violation still shows
        cases, budget = self.order[:hi], 120
        chunk = max(1, len(cases) // 2)
        while budget > 0:
            k = 0
            while k < len(cases) and budget > 0:
                trial = cases[:k] + cases[k + chunk:]
                budget -= 1
                r = exec_cases(self.ctx, trial + [inp])
                if r and shows(r[-1]):
                    cases = trial
                else:
                    k += chunk
            if chunk == 1:
                break
            chunk = max(1, chunk // 2)
        r = exec_cases(self.ctx, cases + [inp])
        return {"area": "numscript", "inputs": cases + [inp], "observed": (r or [observed])[-1], "alone": alone[0]}


def order_dependence(ctx, inputs, impl, rp, prop, cls):
    """every case again, in the opposite order, in another process: an outcome that depends on what ran before it in the
    process means an execution left something behind"""
    rev = list(reversed(inputs))
    res = exec_cases(ctx, rev, tag="reverse")
    if res is None:
        ctx.l2_broken.append({"stream": "numscript-reverse-exec", "detail": "harness failed"})
        return 0
    n = 0
    for inp, o2 in zip(rev, res):
        o1 = impl.get(inp["id"])
        if canon(o1) == canon(o2):
            continue
        n += 1
        rp.per_sig[cls] += 1
        if rp.per_sig[cls] > 3:
            continue
        alone = exec_cases(ctx, [inp])
        if alone is None:
            continue
        a = alone[0]
        bad, order = (o1, inputs) if canon(o1) != canon(a) else (o2, rev)
        sub = Replays(ctx, order)
        sub.polluters = rp.polluters
        r = sub.concrete(inp, bad, lambda o: canon(o) != canon(a))
        ctx.violation({"property": prop, "class": cls, "state": "left-behind-by-an-earlier-execution"},
                      "the outcome of an execution depends on what was executed before it in the same process", r)
    return n


# ---- area "nscmd": the same cases submitted to the real command.Commander (C12: terminates, no panic; C08: commits what the machine computed)

NSCMD_CLASS = {"compile_error": "compilation_failed", "invalid_vars": "compilation_failed", "missing_metadata": "compilation_failed",
               "resolve_error": "compilation_failed", "insufficient_funds": "insufficient_funds"}


def run_nscmd(ctx, n, prop):
    """every generated case through Commander.CreateTransaction over the in-memory store, next to the machine run directly.
    Violations (reported under `prop`): the request panicked or did not terminate; it committed other postings than the machine
    computed; it answered another class of outcome than the machine's.  Returns the number of cases."""
    r = pipeline(ctx, "nscmd", n, model=False, timeout=3000)
    if r is None:
        return 0
    inputs, impl, _ = r
    st = collections.Counter()
    for inp in inputs:
        o = impl.get(inp["id"]) or {}
        vm, cmd = o.get("vm") or {}, o.get("cmd") or {}
        oc = cmd.get("outcome")
        st["outcome:%s" % oc] += 1
        rp = {"area": "nscmd", "input": inp, "observed": o}
        if oc in ("panic", "hang", "setup-failed") or oc is None:
            ctx.violation({"property": prop, "class": "panic" if oc == "panic" else "hang" if oc == "hang" else "no-outcome", "through": "commander"},
                          "a script submitted to the commander %s: %s" % ("panicked" if oc == "panic" else "did not terminate" if oc == "hang" else "gave no outcome",
                                                                         str(cmd.get("panic") or cmd.get("after") or cmd.get("detail"))[:200]), rp)
            continue
        if "panic" in vm:
            continue   # judged by the machine-level stream
        if "postings" in vm:
            want = ("ok", vm["postings"]) if vm["postings"] else ("error", "no_postings")
            got = (oc, cmd.get("postings")) if oc == "ok" else (oc, cmd.get("class"))
        else:
            e = vm.get("err")
            got = (oc, "other" if str(cmd.get("class", "")).startswith("other:") else cmd.get("class"))
            # an error of the balance-resolution stage is wrapped by the commander ("could not resolve balances: …"): it is reported
            # outside the machine-error classes; the same error met while running keeps its class
            want = ("error", NSCMD_CLASS.get(e, "other" if vm.get("stage") == "balances" else "machine:%s" % e))
        if canon(list(want)) != canon(list(got)):
            st["differs"] += 1
            ctx.violation({"property": prop, "class": "commander-differs-from-machine", "machine": want[0] if want[0] == "ok" else want[1],
                           "commander": got[0] if got[0] == "ok" else str(got[1])[:40]},
                          "the machine run directly gives %s, the same request through the commander gives %s" % (str(want)[:160], str(got)[:160]), rp)
    ctx.cov["through_the_commander"] = dict(st, cases=len(inputs),
                                            rule="the cases of the numscript generator submitted to Commander.CreateTransaction over the in-memory store "
                                                 "holding their balances and account metadata; a watchdog of 4 s per request")
    return len(inputs)
