"""C14 — a dry run changes nothing."""
from checks.enginelib import *

META = {
    "text": 'Lean: preview clauses of the components (a preview commits nothing, publishes nothing, is answered with the next transaction id / the recorded entry); theorems dry_run_inert (every event of a preview leaves the log, the queue, the allocated ids and the published events unchanged) and dry_run_releases. Tie: trace validation; oracle: entries vs real writes, events, twin runs without the previews.',
    "note": 'Trusted: Lean kernel; event extraction.',
    "technique": 'Lean 4 proof (stuttering of preview events in every component) + trace validation + twin-run oracle',
    "design_ref": '5 (C14)',
}


def run(ctx):
    run_check(ctx, 'C14', ["events", "ack", "chain"], lambda scn, run: any(q.get("dry") for q in scn["requests"]) and any(not q.get("dry") for q in scn["requests"]), 'a preview and at least one real write')
