"""C14 — a dry run changes nothing."""
from checks.enginelib import *

META = {
    "text": 'Lean: preview clauses of the component machines, stated for their product World.step (Chain, Ack, Events, the three Guard views, Floor over one event sequence, as trace validation runs them) from any state: preview_commit_rejected (a commit or a publication of a preview is rejected), dry_run_inert (+ dry_run_inert_components: every accepted event of a preview is neither commit nor publish and leaves the whole Chain state -- log, queue, lastLog, lastTXID --, the store/queue/producers/answers of Ack, the store/queue/bus/lastTx/answers of Events, the guard logs with the reservations and lookups of the real requests, and the floor log unchanged), dry_run_answers_next_id + preview_peeks_next_id + dry_run_answers_id_of_commit_point (answered with the entry its key designates, else with lastTx+1 as of its commit point whatever others commit before it answers), dry_run_releases_guard / dry_run_releases_floor (after finish / unlock nothing of the request remains held, missed, locked or read), later_history_unaffected (any accepted sequence of preview events, any number of previews, leaves the core of the product where it was; also per component), history_without_previews_chain, _ack, _events (removing every preview event from a history the machine accepts gives a history it accepts too: Chain ends in exactly the same state; Ack and Events end with the same store, queue, producers, answers, bus and lastTx). Tie: trace validation; oracle: entries vs real writes, events, twin runs without the previews (sequential histories; concurrent ones under schedules directed to the end: a preview placed while a real revert of the same transaction is in flight), and twin runs in which ONE preview is submitted as the real write, same scenario and plan: the answer class must agree (a preview answers what the real write would answer in its position, e.g. while a write on its account is committed and not yet persisted).',
    "note": 'Trusted: Lean kernel; event extraction.',
    "technique": 'Lean 4 proof (stuttering of preview events in every component) + trace validation + twin-run oracle + regenerated commander skeleton (extract/commander -> Generated/Commander.lean on every run): well-formedness of every control path by decide, refinement of this component by the interpreted skeleton under every schedule, observed runs re-executed in the skeleton system',
    "design_ref": '5 (C14)',
}


def run(ctx):
    # a replay file belongs to one of the two areas of this check: only that one is run on it
    replay_area = None
    if ctx.replay_file:
        replay_area = (json.load(open(ctx.replay_file)).get("replay") or {}).get("area")
    if replay_area == "dryparam":
        ctx.cov["trusted_base"] = TRUSTED
        ctx.l1()
        if not (ctx.ensure_driver() and ctx.ensure_harness()):
            return
    else:
        engine_part(ctx)
        if replay_area == "engine":
            return
    dryparam_part(ctx)


def engine_part(ctx):
    run_check(ctx, 'C14', ["events", "ack", "chain", "guard-ik", "guard-ref", "guard-revert", "floor"], lambda scn, run: any(q.get("dry") for q in scn["requests"]) and any(not q.get("dry") for q in scn["requests"]), 'a preview and at least one real write')


def dryparam_part(ctx):
    # API layer: how the preview flag reaches the engine (anchors api/v2/query.go, api/v1/utils.go)
    r = pipeline(ctx, "dryparam", 0)
    if r is None:
        return
    inputs, impl, model = r
    n = 0
    for inp in inputs:
        out, want = impl.get(inp["id"], {}), model.get(inp["id"], {}).get("dry")
        if out.get("skip"):
            continue
        n += 1
        if "panic" in out or not out.get("writes"):
            ctx.l2_broken.append({"stream": "dryparam:no-write-reached", "input": inp, "impl": out})
            continue
        for w in out["writes"]:
            if w["dry"] != want:
                (ctx.violation({"property": "C14", "class": "preview-flag-ignored", "api": inp["api"]},
                               "%s %s with preview flag %r reached the engine as a REAL write" % (inp["api"], inp["kind"], inp["flag"]),
                               {"area": "dryparam", "input": inp, "observed": out})
                 if want else ctx.l2_broken.append({"stream": "dryparam:flag", "input": inp, "impl": out, "model": want}))
    ctx.cov["preview_flag_requests"] = n
