"""Second stage of C05 and C06: the two generic components between the commander's commit and store.InsertLogs —
batching.Batcher (internal/engine/utils/batching/batcher.go) and job.Runner (internal/engine/utils/job/jobs.go) — as
components of their own.  The engine scenarios build them with maxBatchSize 4096 and issue a handful of requests: they
never reach a batch boundary, never stop a runner with work queued, never see a runner error handled.  Here the REAL
Batcher[int] + Runner (one worker, maxBatchSize in {1,2,3,5}) are driven by operation sequences (harness/batcher.go),
the Lean model (Model/Batcher.lean, theorems at the end of Props/C05.lean and Props/C06.lean) runs on the same lines
(stream batcher:model-vs-real), and the oracles below — written from the property texts, independent of the model — are
evaluated on the implementation's output alone."""
import os

from vlib.common import *

AREA = "batcher"
TRUSTED = [
    "Model.Batcher reads batcher.go / jobs.go (one worker) as: Append = enqueue + Next; nextBatch = at most maxBatchSize objects from the "
    "front; Terminated (the callbacks) only on a job whose runner call returned nil, from the Run loop; a runner error re-raised as a panic of Run; "
    "the stop branch returns without Terminated.  Tied to the real components by the operation-sequence differential only",
    "the batcher harness: the runner function parks on a gate; quiescence after each operation is decided from the events the operation must "
    "cause (see harness/batcher.go), from the queue length read through the overlay export Batcher.VerifPendingLen, and for a Close that waits "
    "for the parked call from the goroutine state reported by runtime.Stack; Go runtime semantics of channels and select",
]
KEYS = ("steps", "batches", "acks")


def proj(inp, out):
    if out is None:
        return None
    p = {k: out.get(k) for k in KEYS}
    if out.get("stuck"):
        p["stuck"] = out["stuck"]
    return p


def appended_of(inp):
    return [int(o["x"]) for o in inp["ops"] if o.get("op") == "append"]


def is_prefix(a, b):
    return len(a) <= len(b) and b[:len(a)] == a


# ---------------------------------------------------------------- L3: the properties on the implementation's output alone

def oracle_c05(inp, out):
    """ids without gaps or duplicates, in insertion order, at every batch boundary: what the runner function is handed, batch after
    batch, is the appended sequence cut into pieces of 1..max objects; a batch is not changed while the call runs"""
    v = []
    mx = int(inp["max"])
    appended = appended_of(inp)
    handed, failed = [], False
    for k, st in enumerate(out.get("steps") or []):
        for e in st.get("ev") or []:
            if e["e"] == "batch":
                b = [int(x) for x in e["b"]]
                if not (1 <= len(b) <= mx):
                    v.append(({"class": "batch-size"}, "step %d: a batch of %d objects was handed to the runner function (maxBatchSize %d): %s" % (k, len(b), mx, b), k))
                if failed:
                    continue   # a call after an error return is C06's matter (the loop did not stop); the chain is judged up to the failure
                before = list(handed)
                handed += b
                if is_prefix(before, appended) and not is_prefix(handed, appended):
                    exp = appended[len(before):len(before) + len(b)]
                    v.append(({"class": "batch-boundary"},
                              "step %d: appended so far %s; already handed over %s; the next batch must continue with %s but the runner function received %s "
                              "(entries skipped, repeated or out of order at a batch boundary)" % (
                                  k, appended[:sum(1 for o in inp["ops"][:k + 1] if o.get("op") == "append")], before, exp, b), k))
            elif e["e"] == "ret":
                if not e["ok"]:
                    failed = True
                if [int(x) for x in e["b"]] != [int(x) for x in e["exit"]]:
                    v.append(({"class": "batch-aliased"},
                              "step %d: the runner function was entered with %s; when it returned the same slice held %s" % (k, e["b"], e["exit"]), k))
    # "… still holds for entries written after the process was stopped at any moment and started again": Close returning is the
    # signal that nothing more reaches the store — it may not come back while a call of the runner function (InsertLogs) is running
    in_call, told = None, False
    for k, st in enumerate(out.get("steps") or []):
        for e in st.get("ev") or []:
            if e["e"] == "batch":
                in_call = [int(x) for x in e["b"]]
            elif e["e"] == "ret":
                in_call = None
        if st.get("close") == "returned" and in_call is not None and not told:
            told = True
            v.append(({"class": "close-returned-while-call-in-flight"},
                      "step %d (%s): Close has returned although the runner function, entered with %s, has not returned yet" % (k, st.get("op"), in_call), k))
    return v


def oracle_c06(inp, out):
    """success only once the entry is persisted: a callback runs only for an object of a batch whose runner call has returned nil, once,
    in append order; a failing call or a stop acknowledges nothing that is not persisted"""
    v = []
    appended = appended_of(inp)
    pos = {x: i for i, x in enumerate(appended)}
    persisted, failed_items, acked = set(), set(), []
    failure, closed = False, False
    for k, st in enumerate(out.get("steps") or []):
        if st.get("op") == "close" and not st.get("skip"):
            closed = True
        for e in st.get("ev") or []:
            if e["e"] == "ret":
                items = [int(x) for x in e["b"]]
                if e["ok"]:
                    persisted.update(items)
                    failed_items.difference_update(items)
                else:
                    failure = True
                    failed_items.update(items)
            elif e["e"] == "ack":
                x = int(e["x"])
                if x in acked:
                    v.append(({"class": "ack-twice"}, "step %d: the callback of object %d runs a second time" % (k, x), k))
                elif x not in persisted:
                    when = "failure" if x in failed_items else "stop" if closed else "failure" if failure else "running"
                    why = {"failure": "its runner call returned an error" if x in failed_items else "an earlier runner call had returned an error and it was never persisted",
                           "stop": "Close was called and no runner call that returned nil contained it",
                           "running": "no runner call that returned nil contained it"}[when]
                    v.append(({"class": "ack-without-persistence", "when": when},
                              "step %d (%s): the callback of object %d runs although %s; returned nil so far: %s" % (k, st.get("op"), x, why, sorted(persisted)), k))
                elif acked and pos.get(x, -1) < pos.get(acked[-1], -1):
                    v.append(({"class": "ack-order"}, "step %d: object %d is acknowledged after object %d, which was appended later" % (k, x, acked[-1]), k))
                acked.append(x)
    return v


ORACLES = {"C05": oracle_c05, "C06": oracle_c06}


# ---------------------------------------------------------------- running the area

def run_cases(ctx, inputs, tag, model=True, timeout=600):
    inp, implf, modelf = ctx.path("batcher.%s.in.jsonl" % tag), ctx.path("batcher.%s.impl.jsonl" % tag), ctx.path("batcher.%s.model.jsonl" % tag)
    write_jsonl(inp, inputs)
    p = run_harness([AREA, "exec", "-in", inp, "-out", implf], timeout=timeout)
    if p.returncode != 0:
        return None
    impl = {r["id"]: r["out"] for r in read_jsonl(implf)}
    mod = {}
    if model:
        q = run_driver(AREA, inp, modelf, timeout=timeout)
        if q.returncode == 0:
            mod = {r["id"]: r["out"] for r in read_jsonl(modelf)}
    return impl, mod


SHRINK_BUDGET_S = 90


def shrink(ctx, prop, inp, sig, step, t_end):
    """drop everything after the step that shows the violation, then greedily one operation at a time (candidates of a round run in
    chunks, later operations first) while the same signature still shows; bounded by a time budget (an implementation that sleeps
    between retries makes every run slow)"""
    mx = inp["max"]

    def fails(cands):
        r = run_cases(ctx, cands, "shrink", model=False)
        if r is None:
            return None
        for c in cands:
            o = r[0].get(c["id"])
            if o is not None and any(canon(s) == canon(sig) for s, _, _ in ORACLES[prop](c, o)):
                return c, o
        return None

    ops = [dict(o) for o in inp["ops"]]
    observed = None
    hit = fails([{"id": 0, "max": mx, "ops": ops[:step + 1]}]) if step + 1 < len(ops) else None
    if hit:
        ops, observed = hit[0]["ops"], hit[1]
    progress = True
    while progress and len(ops) > 1 and time.time() < t_end:
        progress = False
        cands = [{"id": k, "max": mx, "ops": ops[:k] + ops[k + 1:]} for k in reversed(range(len(ops)))]
        for c0 in range(0, len(cands), 6):
            if time.time() >= t_end:
                break
            hit = fails(cands[c0:c0 + 6])
            if hit:
                ops, observed, progress = hit[0]["ops"], hit[1], True
                break
    return {"max": mx, "ops": ops}, observed


def counters(inputs, impl):
    """what the generated sequences reached, measured on the implementation's own record"""
    c = {"cases": 0, "operations": 0, "appends": 0, "runner_calls": 0, "runner_calls_returned_nil": 0, "runner_calls_failed": 0, "callbacks": 0,
         "cases_crossing_a_batch_boundary": 0, "batch_cuts_leaving_a_remainder": 0, "batches_of_exactly_max": 0,
         "cases_with_a_failing_call": 0, "cases_with_objects_queued_behind_the_failing_call": 0,
         "cases_with_close": 0, "cases_close_waits_for_a_parked_call": 0, "cases_close_with_work_queued": 0,
         "cases_call_returns_nil_while_stopping": 0, "cases_call_fails_while_stopping": 0,
         "cases_objects_appended_before_run": 0, "appends_parked_for_ever": 0, "operations_without_effect": 0,
         "stuck": 0, "retried_after_watchdog": 0, "max_batch_size": {}, "longest_queue": 0}
    for inp in inputs:
        out = impl.get(inp["id"])
        if out is None:
            continue
        mx = int(inp["max"])
        c["cases"] += 1
        c["operations"] += len(inp["ops"])
        c["max_batch_size"][str(mx)] = c["max_batch_size"].get(str(mx), 0) + 1
        c["stuck"] += bool(out.get("stuck"))
        c["retried_after_watchdog"] += bool(out.get("retried"))
        appended = handed = 0
        parked = False
        crossed = failing = queued_behind = closed = close_waits = close_work = nil_stopping = fail_stopping = pre = False
        started = False
        stopping = False
        for op, st in zip(inp["ops"], out.get("steps") or []):
            if st.get("skip"):
                c["operations_without_effect"] += 1
            if op["op"] == "append":
                appended += 1
                c["appends"] += 1
                if not started:
                    pre = True
            if op["op"] == "start" and not st.get("skip"):
                started = True
            if op["op"] == "close" and not st.get("skip"):
                closed = True
                if parked and st.get("run") == "running":
                    close_waits, stopping = True, True
                    if appended - handed > 0:
                        close_work = True
            for e in st.get("ev") or []:
                if e["e"] == "batch":
                    c["runner_calls"] += 1
                    q = appended - handed
                    c["longest_queue"] = max(c["longest_queue"], q)
                    if q > mx:
                        crossed = True
                        c["batch_cuts_leaving_a_remainder"] += 1
                    if len(e["b"]) == mx:
                        c["batches_of_exactly_max"] += 1
                    handed += len(e["b"])
                    parked = True
                elif e["e"] == "ret":
                    parked = False
                    if e["ok"]:
                        c["runner_calls_returned_nil"] += 1
                        nil_stopping = nil_stopping or stopping
                    else:
                        c["runner_calls_failed"] += 1
                        failing = True
                        fail_stopping = fail_stopping or stopping
                        if appended - handed > 0:
                            queued_behind = True
                elif e["e"] == "ack":
                    c["callbacks"] += 1
        c["appends_parked_for_ever"] += appended - int((out.get("steps") or [{}])[-1].get("appret", appended)) if out.get("steps") else 0
        for flag, key in ((crossed, "cases_crossing_a_batch_boundary"), (failing, "cases_with_a_failing_call"),
                          (queued_behind, "cases_with_objects_queued_behind_the_failing_call"), (closed, "cases_with_close"),
                          (close_waits, "cases_close_waits_for_a_parked_call"), (close_work, "cases_close_with_work_queued"),
                          (nil_stopping, "cases_call_returns_nil_while_stopping"), (fail_stopping, "cases_call_fails_while_stopping"),
                          (pre, "cases_objects_appended_before_run")):
            c[key] += bool(flag)
    return c


def harness_fresh(ctx):
    """the engine stage of the same run has just built the harness from the tree under test: do not build it twice"""
    try:
        return os.path.getmtime(HARNESS_BIN) >= ctx.t0 and not any("batcher" in d for d in HARNESS_DROPPED)
    except OSError:
        return False


def run_batcher(ctx, prop, quick_n=1500, thorough_n=20000):
    """stage 2 of C05 / C06.  Adds to ctx: the stream batcher:model-vs-real, the oracle's violations (minimised), cov['batcher']."""
    ctx.cov["trusted_base"] = list(ctx.cov.get("trusted_base") or []) + TRUSTED
    if not ctx.ensure_driver(AREA):
        return
    if not harness_fresh(ctx) and not ctx.ensure_harness():
        return
    r = pipeline(ctx, AREA, quick_n if ctx.quick else thorough_n)
    if r is None:
        return
    inputs, impl, model = r
    compare(ctx, "batcher:model-vs-real", inputs, impl, model, proj, proj)
    stuck = [i for i in inputs if (impl.get(i["id"]) or {}).get("stuck")]
    for i in stuck[:3]:
        ctx.l2_broken.append({"stream": "batcher:stuck", "id": i["id"], "input": i, "impl": impl[i["id"]].get("stuck")})
    shrunk = {}
    nviol = 0
    t_end = time.time() + SHRINK_BUDGET_S
    for inp in inputs:
        out = impl.get(inp["id"])
        if out is None:
            continue
        for sig, what, step in ORACLES[prop](inp, out):
            nviol += 1
            full = dict(sig, property=prop, component="batcher")
            rin, obs = {"max": inp["max"], "ops": inp["ops"]}, out
            if not ctx.replay_file and shrunk.get(canon(full), 0) < 2:
                shrunk[canon(full)] = shrunk.get(canon(full), 0) + 1
                small, o2 = shrink(ctx, prop, inp, sig, step, t_end)
                if o2 is not None:
                    rin, obs = small, o2
                    what = next((w for s, w, _ in ORACLES[prop](small, o2) if canon(s) == canon(sig)), what)
            elif not ctx.replay_file:
                continue   # further occurrences of a signature already minimised twice
            exp = None
            m = run_cases(ctx, [dict(rin, id=0)], "expected") if not ctx.replay_file else None
            if m and m[1].get(0):
                exp = {k: m[1][0].get(k) for k in ("batches", "acks")}
            ctx.violation(full, what, {"area": AREA, "input": rin, "observed": obs, "model_expects": exp,
                                       "how": "bin/check %s --replay <this file>  (harness: verifharness batcher exec on the input line; "
                                              "ops: append x / release = the parked store call returns nil / fail = it returns an error / close / start = go Run)" % prop})
    cnt = counters(inputs, impl)
    cnt["oracle_violations"] = nviol
    cnt["rule"] = ("seeded operation sequences against the real batching.NewBatcher[int](runner, 1, max) and its job.Runner: max in {1,2,3,5}, up to %d "
                   "operations / %d appends per case (append / the parked runner call returns nil / returns an error / Close / go Run), bursts of appends while "
                   "a call is parked so that the queue exceeds max, a failing call (once or three times in a row) or a Close with work queued in a share of the "
                   "cases, a few operations after the loop ended; corpus/batcher first") % ((40, 30) if ctx.quick else (90, 70))
    s0 = next((i for i in inputs if not i.get("corpus")), inputs[0]) if inputs else None
    if s0 is not None:
        cnt["sample"] = {"input": {"max": s0["max"], "ops": s0["ops"][:12]}, "impl_steps_head": (impl.get(s0["id"]) or {}).get("steps", [])[:6]}
    ctx.cov["batcher"] = cnt
    ctx.cov["evaluations"] = ctx.cov.get("evaluations", 0) + cnt["cases"]
    ctx.cov["rule"] = (ctx.cov.get("rule") or "") + "; plus the Batcher / job.Runner component stage: " + cnt["rule"]
    if not ctx.replay_file:
        if cnt["cases_crossing_a_batch_boundary"] == 0 or cnt["cases_with_a_failing_call"] == 0 or cnt["cases_close_with_work_queued"] == 0:
            ctx.l2_broken.append({"stream": "batcher:generator", "detail": "the generated sequences no longer reach a batch boundary / a failing call / a stop with "
                                                                          "work queued: %s" % {k: cnt[k] for k in ("cases_crossing_a_batch_boundary", "cases_with_a_failing_call", "cases_close_with_work_queued")}})
    ctx.assumptions += [
        "Batcher / job.Runner component stage: one worker (command.New builds the batcher with nbWorkers = 1); Run is called once; Close is called at most "
        "once and not before Run (the commander's use); objects are distinct integers; the schedules are the quiescent ones (one operation at a time, the "
        "components settle in between) — interleavings inside one operation (an Append racing the stop request, two ready cases of the loop's select) are "
        "not explored",
    ]


def replay_area(ctx):
    if not ctx.replay_file:
        return None
    try:
        return (json.load(open(ctx.replay_file)).get("replay") or {}).get("area")
    except Exception:
        return None
