"""C04 — the captured GetAggregatedBalances statement EVALUATED on projected rows, against the replay.

The statement text is the one the real ledgerstore.Store sends (area readsql, for the ledger, point in time and address filter of
the case); the rows of `moves` are what the GENERATED trigger chain (Generated/Schema.lean, driver_sql area `storesql-moves`) holds
after the history; the interpreter below knows exactly the shape this method emits —

    WITH moves AS (SELECT distinct on (G…) moves.* FROM moves WHERE (c1) AND (c2) … ORDER BY G…, K…),
         data  AS (SELECT volumes_to_jsonb((moves.asset, (sum((moves.V).inputs), sum((moves.V).outputs))::volumes)) … FROM moves GROUP BY moves.asset)
    SELECT aggregate_objects(data.aggregated) … FROM data

with every ci of the form `[moves.]col <op> 'literal'` — and refuses anything else (SqlShapeError: reported, never passed
silently).  G, K, the ci and V are READ FROM THE TEXT, nothing is assumed about which date column or volumes column it uses.
The expected figure is an independent fold of the log entries of the ledger dated at or before the instant."""
import collections
import datetime
import re

from checks import c04sql as S
from checks import c04pit as P

TS = re.compile(r"^(\d{4})-(\d\d)-(\d\d)[T ](\d\d):(\d\d):(\d\d)(?:\.(\d{1,9}))?(Z|[+-]\d\d:\d\d)$")
EPOCH = datetime.datetime(1970, 1, 1)
TEXT_COLS = ("ledger", "account_address", "asset")
DATE_COLS = ("insertion_date", "effective_date")


def micros(text):
    m = TS.match(text)
    if not m:
        raise S.SqlShapeError("not a timestamp literal: %r" % text)
    y, mo, d, h, mi, s = (int(x) for x in m.groups()[:6])
    frac = (m.group(7) or "").ljust(9, "0")[:6]
    us = int((datetime.datetime(y, mo, d, h, mi, s) - EPOCH).total_seconds()) * 1000000 + int(frac or 0)
    z = m.group(8)
    if z != "Z":
        off = (1 if z[0] == "+" else -1) * (int(z[1:3]) * 60 + int(z[4:6]))
        us -= off * 60 * 1000000
    return us


def plan_of(sql, ledger):
    """the statement as data: conditions on moves, DISTINCT ON columns, the keys that pick the row, the volumes column summed"""
    toks = S.norm_tokens(sql)
    items = S.group(toks)
    b = P.Blocks(("str", ledger), [])
    b.query(items, set(), [])
    mv = [blk for blk in b.blocks if any(f["table"] == "moves" for f in blk["base"])]
    if len(mv) != 1 or len(mv[0]["base"]) != 1:
        raise S.SqlShapeError("expected exactly one block over the table moves")
    blk = mv[0]
    pk = P.picker(blk)
    if pk is None or not pk[0].startswith("distinct on"):
        raise S.SqlShapeError("the block over moves is not a DISTINCT ON")
    gcols = [c.strip() for c in pk[0][len("distinct on ("):-1].split(",")]
    conds = []
    for c in blk["conj"]:
        c = S.strip_parens(c)
        ops = [k for k, it in enumerate(c) if it[0] == "op" and it[1] in P.CMP_OPS]
        if len(ops) != 1 or any(S.is_kw(it, "or", "and", "not") for it in c):
            raise S.SqlShapeError("condition on moves not of the form col <op> literal: %r" % (list(P.flat(c)),))
        col, lit = S.colref(c[:ops[0]]), c[ops[0] + 1:]
        if col is None or col[0] not in (None, "moves") or len(lit) != 1 or lit[0][0] != "str":
            raise S.SqlShapeError("condition on moves not of the form col <op> literal: %r" % (list(P.flat(c)),))
        if col[1] in TEXT_COLS and c[ops[0]][1] == "=":
            conds.append((col[1], "=", lit[0][1]))
        elif col[1] in DATE_COLS:
            conds.append((col[1], c[ops[0]][1], micros(lit[0][1])))
        else:
            raise S.SqlShapeError("condition on column %s of moves" % col[1])
    flat = [t[1] if t[0] != "str" else "'" for t in P.flat(items)]
    text = " ".join(flat)
    vols = [v for v in P.VOL_COLS if "sum ( ( moves . %s ) . inputs ) , sum ( ( moves . %s ) . outputs )" % (v, v) in text]
    if len(vols) != 1 or "group by moves . asset" not in text.replace('"', ""):
        raise S.SqlShapeError("the aggregation is not `sum((moves.V).inputs), sum((moves.V).outputs) … group by moves.asset`")
    if any(f["table"] not in ("moves",) for blk2 in b.blocks for f in blk2["base"]):
        raise S.SqlShapeError("another base table is read")
    return {"conditions": conds, "distinct_on": gcols, "picked_by": [[k, d] for k, d in pk[1]], "volumes_column": vols[0]}


CMP = {"=": lambda a, b: a == b, "<=": lambda a, b: a <= b, "<": lambda a, b: a < b, ">=": lambda a, b: a >= b, ">": lambda a, b: a > b,
       "<>": lambda a, b: a != b, "!=": lambda a, b: a != b}


def cell(row, col):
    v = row[col]
    return int(v) if col == "seq" else v


def evaluate(plan, rows):
    """-> ({asset: [inputs, outputs]}, the rows kept)"""
    sel = [r for r in rows if all(r[c] is not None and CMP[op](r[c], v) for c, op, v in plan["conditions"])]
    best = {}
    for r in sel:
        g = tuple(r[c] for c in plan["distinct_on"])
        k = tuple((cell(r, c) if d else -cell(r, c)) for c, d in plan["picked_by"])   # every key numeric (seq, dates)
        if g not in best or k > best[g][0]:
            best[g] = (k, r)
    out = collections.defaultdict(lambda: [0, 0])
    kept = []
    for g in sorted(best):
        r = best[g][1]
        kept.append(r)
        v = r[plan["volumes_column"]]
        if v is None or v[0] is None or v[1] is None:
            out[r["asset"]] = None
            continue
        if out[r["asset"]] is not None:
            out[r["asset"]][0] += int(v[0])
            out[r["asset"]][1] += int(v[1])
    return {a: (None if x is None else [str(x[0]), str(x[1])]) for a, x in out.items()}, kept


def fold(logs, ledger, when, address=None):
    """the replay: inputs / outputs per asset of the accounts selected, over the entries `when` keeps (log, transaction) -> bool"""
    out = {}
    for l in logs:
        if l["ledger"] != ledger or "tx" not in l or not when(l, l["tx"]):
            continue
        for p in l["tx"]["postings"]:
            for acct, side in ((p["source"], 1), (p["destination"], 0)):
                if address is None or acct == address:
                    out.setdefault(p["asset"], [0, 0])[side] += int(p["amount"])
    return {a: [str(x[0]), str(x[1])] for a, x in out.items()}


def monotone(logs, ledger):
    ds = [l["date"] for l in logs if l["ledger"] == ledger]
    return all(a <= b for a, b in zip(ds, ds[1:]))


def instants(logs, ledger, cap):
    """the instants worth asking about: every log date and every transaction timestamp of the ledger, the microsecond before the
    earliest, and the midpoints — among them the ones that fall BETWEEN insertion order and timestamp order"""
    ls = [l for l in logs if l["ledger"] == ledger]
    pts = sorted({l["date"] for l in ls} | {l["tx"]["timestamp"] for l in ls if "tx" in l})
    if not pts:
        return []
    cand = [pts[0] - 1] + pts + [(a + b) // 2 for a, b in zip(pts, pts[1:]) if b - a > 1]
    # first the instants on which the two orders disagree: some transaction inserted by t but dated after it, or dated by t and inserted later
    def split(t):
        return any(("tx" in l) and ((l["date"] <= t) != (l["tx"]["timestamp"] <= t)) for l in ls)
    cand = sorted(set(cand), key=lambda t: (not split(t), t))
    return cand[:cap]
