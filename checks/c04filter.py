"""C04 — the WHERE clause built for a filter MEANS the filter (quantifier "every point-in-time and FILTER").

Independent oracle on the SQL text captured from the REAL ledgerstore (area `readsql`):

  * the statement is tokenised (PostgreSQL tokenizer of checks/c20.py), its WHERE clauses are located, and the boolean
    SKELETON of a clause is extracted with SQL operator precedence — parentheses, then NOT, then AND, then OR — by a
    recursive-descent parser (deliberately not the split-at-depth-0 algorithm of lean/Model/Store/FilterSem.lean).
    Whatever stands between connectives at parenthesis depth 0 of a group is an opaque ATOM, named by its token text
    (bound arguments are inlined by bun, so they are part of the text); string literals are single tokens, sub-selects
    and function calls sit in parentheses: neither is searched for connectives.  A parenthesised operand is a boolean
    group unless it starts with SELECT.  Shapes the reader does not know (NOT inside an atom: `is not null`, `not in`;
    BETWEEN … AND; CASE; an empty operand) raise SkeletonError — reported, never passed silently.
  * ATTACHMENT: the WHERE clause that carries the ledger predicate must be the conjunction of the conjuncts of the same
    statement captured WITHOUT filter (ledger predicate, PIT bound) and exactly ONE more conjunct, the filter's.
  * COMPOSITION, without knowing what a leaf renders to: for filters captured under the same parameters,
        skeleton($not F)        ≡  NOT skeleton(F)
        skeleton($and [F, G…])  ≡  skeleton(F) AND skeleton(G) …        ($and [] ≡ true)
        skeleton($or  [F, G…])  ≡  skeleton(F) OR  skeleton(G) …        ($or  [] ≡ true: the builder writes `1 = 1`)
    as truth tables over the atoms of both sides.

TRUSTED: the reading of NOT / AND / OR precedence is my model of PostgreSQL's grammar (gram.y: a_expr with
%left OR, %left AND, %right NOT, all three below the comparison operators)."""
import itertools
import json

from checks.c20 import tokenize

CLAUSE_END = ("group", "having", "order", "limit", "offset", "window", "union", "intersect", "except", "returning", "fetch", "for")
MAX_ATOMS = 14


class SkeletonError(Exception):
    pass


# ---------------------------------------------------------------- tokens

def tok_text(t):
    k, v = t
    return k if v == "" else k + "=" + v


def kw(t):
    """lower-cased key word of an identifier token, else None"""
    k = t[0]
    return k[3:].lower() if k.startswith("id:") else None


def spans_of(sql):
    sp = []
    toks = tokenize(sql, sp)
    for k, _ in toks:
        if k.startswith("bad:"):
            raise SkeletonError("tokenizer: " + k)
    return toks, sp


# ---------------------------------------------------------------- boolean skeleton (recursive descent, precedence climbing)
# tree: "tt" | ("atom", text) | ("not", t) | ("and", [t…]) | ("or", [t…])


class _P:
    def __init__(self, toks):
        self.t = toks
        self.i = 0

    def peek(self):
        return self.t[self.i] if self.i < len(self.t) else None

    def parse(self):
        r = self.p_or()
        if self.i != len(self.t):
            raise SkeletonError("unexpected %s at token %d" % (tok_text(self.t[self.i]), self.i))
        return r

    def p_or(self):
        xs = [self.p_and()]
        while self.peek() is not None and kw(self.peek()) == "or":
            self.i += 1
            xs.append(self.p_and())
        return xs[0] if len(xs) == 1 else ("or", xs)

    def p_and(self):
        xs = [self.p_not()]
        while self.peek() is not None and kw(self.peek()) == "and":
            self.i += 1
            xs.append(self.p_not())
        return xs[0] if len(xs) == 1 else ("and", xs)

    def p_not(self):
        if self.peek() is not None and kw(self.peek()) == "not":
            self.i += 1
            return ("not", self.p_not())
        return self.p_primary()

    def p_primary(self):
        """everything up to the next AND / OR of depth 0 (or the end / an unmatched closing parenthesis)"""
        start, depth = self.i, 0
        first_group_end = None
        while self.i < len(self.t):
            t = self.t[self.i]
            if t[0] == "p:(":
                depth += 1
            elif t[0] == "p:)":
                if depth == 0:
                    break
                depth -= 1
                if depth == 0 and first_group_end is None and self.t[start][0] == "p:(":
                    first_group_end = self.i
            elif depth == 0:
                w = kw(t)
                if w in ("and", "or"):
                    break
                if w == "not":
                    raise SkeletonError("NOT inside a condition (is not / not in / not like …): shape not read")
                if w in ("between", "case"):
                    raise SkeletonError("%s at depth 0: shape not read" % w.upper())
            self.i += 1
        if depth != 0:
            raise SkeletonError("unbalanced parenthesis")
        run = self.t[start:self.i]
        if not run:
            raise SkeletonError("empty operand at token %d" % start)
        if run[0][0] == "p:(" and first_group_end == self.i - 1:
            inner = run[1:-1]
            if not (inner and kw(inner[0]) == "select"):
                return _P(inner).parse()
        if [tok_text(t) for t in run] == ["num=1", "op:=", "num=1"]:
            return "tt"
        words = [tok_text(t) for t in run]
        text = " ".join(words)
        if text not in _PRETTY:
            _PRETTY[text] = pretty_atom(text, words)
        return ("atom", text)


def skeleton(toks):
    return _P(list(toks)).parse()


def skeleton_sql(text):
    toks, _ = spans_of(text)
    return skeleton(toks)


def flat(t):
    """canonical form shared with the Lean driver: nested AND under AND (OR under OR) merged"""
    if t == "tt":
        return "tt"
    if t[0] == "atom":
        return {"atom": t[1]}
    if t[0] == "not":
        return {"not": flat(t[1])}
    op = t[0]
    out = []
    for x in t[1]:
        f = flat(x)
        if isinstance(f, dict) and op in f:
            out += f[op]
        else:
            out.append(f)
    return {op: out}


def atoms(t, acc=None):
    acc = [] if acc is None else acc
    if t == "tt":
        return acc
    if t[0] == "atom":
        if t[1] not in acc:
            acc.append(t[1])
    elif t[0] == "not":
        atoms(t[1], acc)
    else:
        for x in t[1]:
            atoms(x, acc)
    return acc


def ev(t, a):
    if t == "tt":
        return True
    if t[0] == "atom":
        return a[t[1]]
    if t[0] == "not":
        return not ev(t[1], a)
    if t[0] == "and":
        return all(ev(x, a) for x in t[1])
    return any(ev(x, a) for x in t[1])


_PRETTY = {}


def pretty_atom(text, words=None):
    """token text of an atom -> something that reads like the SQL it came from (display only)"""
    if words is None and text in _PRETTY:
        return _PRETTY[text]
    out = []
    for w in (words if words is not None else text.split(" ")):
        k, _, v = w.partition("=") if w.startswith(("str=", "num=", "estr=", "dstr=")) else (w, "", "")
        if k == "str":
            out.append("'" + v.replace("'", "''") + "'")
        elif k == "num":
            out.append(v)
        elif w == "str":
            out.append("''")
        elif w == "cast":
            out.append("::")
        elif w.startswith(("id:", "op:")):
            out.append(w[3:])
        elif w.startswith("qid:"):
            out.append('"' + w[4:] + '"')
        elif w.startswith("p:"):
            out.append(w[2:])
        else:
            out.append(w)
    return " ".join(out)


def show(t):
    if t == "tt":
        return "TRUE"
    if t[0] == "atom":
        return "[" + pretty_atom(t[1]) + "]"
    if t[0] == "not":
        return "NOT " + show(t[1])
    return "(" + (" %s " % t[0].upper()).join(show(x) for x in t[1]) + ")"


def first_difference(s, t):
    """an assignment of the atoms under which the two trees differ, or None"""
    names = atoms(t, atoms(s))
    if len(names) > MAX_ATOMS:
        raise SkeletonError("%d atoms: truth table not enumerated" % len(names))
    for bits in itertools.product((False, True), repeat=len(names)):
        a = dict(zip(names, bits))
        if ev(s, a) != ev(t, a):
            return a
    return None


def tree_of_json(j):
    """the flat form printed by the Lean driver -> tree"""
    if j == "tt":
        return "tt"
    if "atom" in j:
        return ("atom", j["atom"])
    if "not" in j:
        return ("not", tree_of_json(j["not"]))
    for op in ("and", "or"):
        if op in j:
            return (op, [tree_of_json(x) for x in j[op]])
    raise SkeletonError("tree json %r" % (j,))


# ---------------------------------------------------------------- WHERE clauses of a statement

def where_clauses(sql):
    """[(depth, tokens, text)] for every WHERE of the statement, in order of appearance"""
    toks, sp = spans_of(sql)
    depth, out = 0, []
    depths = []
    for t in toks:
        if t[0] == "p:)":
            depth -= 1
        depths.append(depth)
        if t[0] == "p:(":
            depth += 1
    if depth != 0 or any(d < 0 for d in depths):
        raise SkeletonError("unbalanced statement")
    for i, t in enumerate(toks):
        if kw(t) != "where":
            continue
        d = depths[i]
        j = i + 1
        while j < len(toks):
            if depths[j] < d:                                 # the parenthesis that encloses this sub-select closes
                break
            if depths[j] == d and kw(toks[j]) in CLAUSE_END:
                break
            j += 1
        if j == i + 1:
            raise SkeletonError("empty WHERE")
        out.append((d, toks[i + 1:j], sql[sp[i + 1][0]:sp[j - 1][1]]))
    return out


def is_ledger_predicate(tree, ledger):
    if tree == "tt" or tree[0] != "atom":
        return False
    parts = tree[1].split(" ")
    lit = "str=" + ledger if ledger != "" else "str"
    return parts in (["id:ledger", "op:=", lit],) or (len(parts) == 5 and parts[1] == "p:." and parts[2:] == ["id:ledger", "op:=", lit])


def conjuncts(tree):
    return list(tree[1]) if tree != "tt" and tree[0] == "and" else [tree]


def ledger_where(sql, ledger):
    """the WHERE clause that restricts the statement to the ledger, at the shallowest depth: (tokens, text, conjunct trees)"""
    best = None
    for d, toks, text in where_clauses(sql):
        cs = conjuncts(skeleton(toks))
        if any(is_ledger_predicate(c, ledger) for c in cs):
            if best is None or d < best[0]:
                best = (d, toks, text, cs)
            elif d == best[0]:
                raise SkeletonError("two WHERE clauses with the ledger predicate at depth %d" % d)
    if best is None:
        raise SkeletonError("no WHERE clause with the ledger predicate")
    return best[1:]


def conjunct_texts(toks, sql_text):
    """the text of every top-level conjunct of a WHERE clause `(c1) AND (c2) …` (parentheses stripped), or None"""
    sp = []
    toks2 = tokenize(sql_text, sp)
    assert [t[0] for t in toks2] == [t[0] for t in toks]
    parts, depth, cur = [], 0, []
    for t, s in zip(toks2, sp):
        if t[0] == "p:(":
            depth += 1
        elif t[0] == "p:)":
            depth -= 1
        if depth == 0 and kw(t) == "and":
            parts.append(cur)
            cur = []
        else:
            cur.append((t, s))
    parts.append(cur)
    out = []
    for p in parts:
        if len(p) < 2 or p[0][0][0] != "p:(" or p[-1][0][0] != "p:)":
            return None
        out.append(sql_text[p[0][1][1]:p[-1][1][0]])
    return out


# ---------------------------------------------------------------- the filter expression (independent reading of the JSON)

def sub_filters(f):
    """(connective, [sub-filter JSON texts]) or (None, []) for a matcher"""
    j = json.loads(f)
    (op, v), = j.items()
    enc = lambda x: json.dumps(x, separators=(",", ":"), ensure_ascii=False)
    if op == "$not":
        return "not", [enc(v)]
    if op in ("$and", "$or"):
        return op[1:], [enc(x) for x in v]
    return None, []


def shape_of(f):
    """classes of a filter for the rates: depth, $not over a compound leaf / over a set of >= 2 items"""
    COMPOUND = ("account",)   # renders `a or b`; address keys with an empty segment render `a and b …`

    def compound_leaf(j):
        (op, v), = j.items()
        if op in ("$not", "$and", "$or"):
            return False
        (k, val), = v.items()
        if k in COMPOUND:
            return True
        return k in ("address",) and isinstance(val, str) and "" in val.split(":")

    def walk(j):
        (op, v), = j.items()
        cls = set()
        if op == "$not":
            (op2, v2), = v.items()
            d, c = walk(v)
            cls |= c
            if op2 in ("$and", "$or"):
                cls.add("not-over-set>=2" if len(v2) >= 2 else "not-over-set<2")
            elif op2 == "$not":
                cls.add("not-over-not")
            else:
                cls.add("not-over-compound-leaf" if compound_leaf(v) else "not-over-simple-leaf")
            return d + 1, cls
        if op in ("$and", "$or"):
            ds = [walk(x) for x in v]
            for _, c in ds:
                cls |= c
            if any(compound_leaf(x) for x in v if next(iter(x)) not in ("$not", "$and", "$or")):
                cls.add("set-over-compound-leaf")
            return 1 + max([d for d, _ in ds] + [0]), cls
        return 0, ({"compound-leaf"} if compound_leaf(j) else {"simple-leaf"})
    d, cls = walk(json.loads(f))
    cls.add("depth>=3" if d >= 3 else "depth=%d" % d)
    return cls
