"""C13 — every log entry can be read back and re-verified."""
from vlib.common import *

META = {
    "text": "Lean theorems about model D (Model/Log/*): roundtrip (fromJson (toJson l) = ok l for every chained log of the four types x both "
            "target types under an explicit decidable WF), time_roundtrip + accepted_wf (every timestamp ParseTime accepts is printed and parsed "
            "back unchanged), rehash / chain_rehash (every entry of a chain of ANY length, read back from its JSON form, re-verifies against its "
            "decoded predecessor; hash function abstract, purely equational), store_roundtrip / chain_store_rehash (InsertLogs row + Logs.ToCore). "
            "The model is tied to the Go code by a seeded differential on the real ChainedLog marshal/unmarshal, Log.ChainLog, ledger.ParseTime, crypto/sha256 "
            "and the real ledgerstore.Store: same trees, the exact marshalled BYTES and the HASH (hex) on both sides. The stored row is not rebuilt by the "
            "harness: the REAL Store.InsertLogs runs (bun transaction, COPY prepared through lib/pq's statement text, one Exec per entry) over a database/sql "
            "driver that plays the logs table and records the arguments; they are compared column by column with the model's row (the idempotency key AS IT "
            "IS, keys around and beyond the column's width included), read back as a SELECT hands them over (Logs.ToCore), compared field by field with the "
            "entry that was handed in and re-hashed over the previous row read back; GetLastLog, ReadLogWithIdempotencyKey and GetLogs of the same Store answer from "
            "the same table. Entries written by the real Commander in the engine runs go through the same InsertLogs. An independent oracle evaluates the "
            "property itself on the implementation's outputs.",
    "note": "Trusted: Lean kernel (axioms propext/Classical.choice/Quot.sound at most); the harness' canonical dump of Go values (integer Go types "
            "*big.Int/uint64 are one kind 'int', float64 is another); the process runs with TZ=UTC (time.Parse attaches Local when the offset matches); "
            "PostgreSQL itself and lib/pq's wire encoding (not executable here): harness/logstore.go states column by column what the table does with an argument "
            "(varchar: the text — the length limit of idempotency_key is NOT enforced, see assumptions —, numeric: the decimal text, bytea: the bytes, "
            "timestamp without time zone: the wall-clock reading at microsecond resolution, jsonb: keys re-ordered) and which SELECT shape it can answer. "
            "The v1->v2 log migration (migrations_v1.go) rewrites legacy logs and copies their hashes verbatim; it writes no DELETE_METADATA and is not modelled.",
    "technique": "Lean 4 proofs (structural induction, parser/printer inversion, omega) + differential correspondence at tree, byte and hash level",
    "design_ref": "3.6 (model D), 5 (C13), 6 #5 #11 #12, 8 (log round-trip probe), appendix C",
}

AREA = "logrt"
TWO64 = 1 << 64


def cls(d):
    """decode outcome -> comparable class (error texts differ between Go and the model)"""
    if d is None:
        return None
    if "ok" in d:
        return {"ok": d["ok"]}
    if "panic" in d:
        return "panic"
    if "error" in d:
        return "error"
    return d


def rowcls(r):
    if r is None:
        return None
    if "ok" in r:
        return r
    return "panic"  # Logs.ToCore panics on any hydration error


def entries(o):
    return (o or {}).get("entries") or []


# ---------------------------------------------------------------- L3: the property on the implementation's own outputs

def first_diff(a, b, path=""):
    if type(a) != type(b):
        return path or "."
    if isinstance(a, dict):
        for k in sorted(set(a) | set(b)):
            if canon(a.get(k)) != canon(b.get(k)):
                return first_diff(a.get(k), b.get(k), (path + "." if path else "") + k)
        return None
    if isinstance(a, list):
        if len(a) != len(b):
            return path
        for i, (x, y) in enumerate(zip(a, b)):
            if canon(x) != canon(y):
                return first_diff(x, y, path)
        return None
    return None if a == b else path


def bump(d, k):
    d[k] = d.get(k, 0) + 1


def cause_of(msg):
    m = str(msg)
    if "parsing time" in m or "timestamp" in m or "date format" in m:
        return "timestamp"
    if "ParseUint" in m:
        return "targetId"
    if "unknown type" in m:
        return "unknown-log-type"
    return "other"


def oracle_entry(spec, e):
    """one chained log: round trip through JSON unchanged, recomputed hash = stored hash, same through the store row"""
    v = []
    lt = spec.get("type")
    base = {"logType": lt}
    if spec.get("tt"):
        base["targetType"] = spec["tt"]
    if "input_error" in e:
        return v  # the API refused a timestamp: nothing was written
    excl = spec.get("excluded")
    if excl == "txid-outside-uint64":
        return v  # transaction ids are allocated from 0 upwards; 2^64 and negative ids are outside "logs the system writes"
    if "marshal_error" in e:
        return [(dict(base, **{"class": "marshal-error"}), "json.Marshal failed: %s" % e["marshal_error"])]
    d = e.get("dec", {})
    if "panic" in d:
        v.append((dict(base, **{"class": "decode-panic", "cause": cause_of(d["panic"])}), "decoding the stored JSON panics: %s" % d["panic"]))
    elif "error" in d:
        v.append((dict(base, **{"class": "decode-error", "cause": cause_of(d["error"])}), "decoding the stored JSON fails: %s" % d["error"]))
    else:
        if canon(d.get("ok")) != canon(e["dump"]):
            v.append((dict(base, **{"class": "roundtrip-changed", "where": first_diff(e["dump"], d.get("ok"))}),
                      "the decoded entry differs from the written one at %s" % first_diff(e["dump"], d.get("ok"))))
        if e.get("rehash") != e["hash"] or e.get("reid") != e["id"]:
            v.append((dict(base, **{"class": "rehash-mismatch"}),
                      "hash recomputed from the round-tripped content and the previous hash is %s (id %s), stored %s (id %s)" % (
                          e.get("rehash"), e.get("reid"), e["hash"], e["id"])))
    # the stored row: what the REAL Store.InsertLogs handed to the database for this entry, read back as a SELECT hands it over
    # (Logs.ToCore), compared field by field with the entry that was handed in; its hash recomputed over the previous row read back
    r = e.get("row", {})
    if "error" in r:
        v.append((dict(base, **{"class": "store-insert-error"}), "InsertLogs did not write the entry: %s" % r["error"]))
    elif "ok" not in r:
        v.append((dict(base, **{"class": "store-decode-panic", "cause": cause_of(r.get("panic"))}), "Logs.ToCore panics on the stored row: %s" % r.get("panic")))
    else:
        n_before = len(v)
        for f, what in stored_row_diffs(e["dump"], r["ok"]):
            v.append(({"class": "stored-row-differs", "field": f}, "the row InsertLogs wrote, read back through Logs.ToCore, is not the entry that was written: " + what))
        if r.get("rehash") != e["hash"]:
            v.append(({"class": "stored-entry-does-not-verify"},
                      "the hash recomputed from the stored row (Logs.ToCore) over the previous stored row is %s, the entry was written with %s" % (r.get("rehash"), e["hash"])))
        # the row as PostgreSQL returns it (jsonb re-orders the keys of `data`) must convert to the same entry (reported when the row with
        # the data as written is fine: otherwise it says the same thing twice)
        rb = e.get("row_jsonb", {})
        if len(v) == n_before and ("ok" not in rb or canon(rb["ok"]) != canon(e["dump"]) or rb.get("rehash") != e["hash"]):
            v.append((dict(base, **{"class": "store-jsonb-order"}), "Logs.ToCore on the row with jsonb key order gives %s" % canon(rb)[:300]))
    # the store's own reads over the same table: the last entry after the InsertLogs call that wrote this one; the entry found under its key
    for k, name in (("last", "GetLastLog"), ("bykey", "ReadLogWithIdempotencyKey"), ("listed", "GetLogs")):
        g = e.get(k)
        if g is None or "skipped" in g:
            continue
        if "ok" not in g:
            v.append(({"class": "store-read-fails", "read": name}, "%s does not find the entry just written: %s" % (name, g.get("error"))))
        else:
            for f, what in stored_row_diffs(e["dump"], g["ok"]):
                v.append(({"class": "store-read-differs", "read": name, "field": f}, "%s answers an entry that is not the one written: %s" % (name, what)))
    if e.get("table_refused"):
        v.append((dict(base, **{"class": "harness-table"}), "the logs table of the harness cannot play a statement of the store: %s" % e["table_refused"][:2]))
    return v


def short(x, n=80):
    t = x if isinstance(x, str) else canon(x)
    return repr(t) if len(t) <= n else repr(t[:n]) + "…"


def stored_row_diffs(written, back):
    """[(field, description)] for every field of the entry (id, type, date, idempotency key, payload, hash) that differs"""
    out = []
    names = {"ik": "idempotency key", "data": "payload"}
    for f in ("id", "type", "date", "ik", "data", "hash"):
        a, b = written.get(f), back.get(f)
        if canon(a) != canon(b):
            if f == "ik" and isinstance(a, str) and isinstance(b, str):
                what = "written with an idempotency key of %d characters (%s), stored with one of %d characters (%s)" % (len(a), short(a, 40), len(b), short(b, 40))
            elif f == "data":
                what = "payload differs at %s" % first_diff(a, b)
            else:
                what = "%s written %s, stored %s" % (names.get(f, f), short(a), short(b))
            out.append((names.get(f, f).replace(" ", "-"), what))
    return out


def oracle(inp, out):
    v = []
    k = inp["kind"]
    if "panic" in out and k != "raw":
        return [({"class": "harness-panic", "kind": k}, "panic outside the code under test: %s" % out["panic"])]
    if k == "chain":
        for idx, (spec, e) in enumerate(zip(inp["logs"], entries(out))):
            for sig, what in oracle_entry(spec, e):
                v.append((sig, "%s log: %s" % (spec.get("type"), what), idx))
        ids = [int(e["id"]) for e in entries(out) if "id" in e]
        if ids != list(range(len(ids))):
            v.append(({"class": "chain-ids"}, "ids along the chain are %s" % ids[:10], None))
    elif k == "time" and "ok" in out:
        # every timestamp the API accepts can be written and read back
        rp = out.get("reparse", {})
        if "ok" not in rp or rp["ok"] != out["ok"]:
            t = out["ok"]
            cause = "year>9999" if t[0] > 9999 else "year<0" if t[0] < 0 else ("offset>=25h" if abs(t[7]) >= 90000 else "other")
            v.append(({"class": "timestamp-unreadable", "cause": cause},
                      "ParseTime accepts %r, writes it as %s, and cannot read that back (%s)" % (inp["s"], out.get("fmt"), rp), None))
        if out["ok"][6] % 1000 != 0:
            v.append(({"class": "timestamp-precision"}, "ParseTime(%r) is not on a microsecond" % inp["s"], None))
        # the accepted time is the instant the text denotes (rounded to the microsecond, halves up), whatever offset it was written with
        want = instant_of_text(inp["s"])
        got = (int(out["unix"][0]), out["unix"][1]) if "unix" in out else None
        if want is not None and got != want:
            v.append(({"class": "timestamp-instant-changed"},
                      "ParseTime(%r) denotes the instant %s s + %s ns, the text denotes %s s + %s ns" % (inp["s"], got and got[0], got and got[1], want[0], want[1]), None))
    return v


def days_from_civil(y, m, d):
    """days since 1970-01-01 of a proleptic Gregorian date — written from the calendar rules (365 days, a leap day every 4th year except
    centuries not divisible by 400), not from the formula the Lean model uses"""
    def leap(yy):
        return yy % 4 == 0 and (yy % 100 != 0 or yy % 400 == 0)
    yy = y - 1    # whole years since 0001-01-01
    n = yy * 365 + yy // 4 - yy // 100 + yy // 400
    n += sum((31, 29 if leap(y) else 28, 31, 30, 31, 30, 31, 31, 30, 31, 30, 31)[:m - 1]) + d - 1
    return n - 719162   # 1970-01-01 is day 719162 after 0001-01-01


STRICT_TS = re.compile(r"(\d{4})-(\d\d)-(\d\d)T(\d\d):(\d\d):(\d\d)(?:[.,](\d+))?(Z|[+-]\d\d:\d\d)\Z")


def instant_of_text(s):
    """(unix seconds, nanoseconds) of an RFC 3339 text after rounding to the microsecond; None for shapes outside the strict pattern"""
    m = STRICT_TS.match(s)
    if not m:
        return None
    y, mo, d, h, mi, sec = (int(x) for x in m.groups()[:6])
    ns = int((m.group(7) or "0")[:9].ljust(9, "0"))
    z = m.group(8)
    off = 0 if z == "Z" else (1 if z[0] == "+" else -1) * (int(z[1:3]) * 3600 + int(z[4:6]) * 60)
    total = (days_from_civil(y, mo, d) * 86400 + h * 3600 + mi * 60 + sec - off) * 10 ** 9 + ns
    total = (total + 500) // 1000 * 1000
    return total // 10 ** 9, total % 10 ** 9


# ---------------------------------------------------------------- the width of the idempotency_key column (read from the sources on every run)

def key_column_facts():
    """what the sources say about the width of logs.idempotency_key: the schema (create table logs … in the migrations) and the bun tag of the
    Go row type.  PostgreSQL refuses a longer value ("value too long for type character varying(n)"); nothing here executes PostgreSQL."""
    facts = {"schema": None, "struct_tag": None, "schema_source": None, "struct_tag_source": None, "other_mentions_in_migrations": []}
    mig = os.path.join(REPO, "internal/storage/ledgerstore/migrations")
    try:
        for f in sorted(os.listdir(mig)):
            text = open(os.path.join(mig, f), errors="replace").read()
            for m in re.finditer(r"create\s+table\s+(?:\S+\.)?logs\s*\((.*?)\)\s*;", text, re.S | re.I):
                c = re.search(r"idempotency_key\s+(?:varchar|character varying)\s*\(\s*(\d+)\s*\)", m.group(1), re.I)
                if c:
                    facts["schema"], facts["schema_source"] = int(c.group(1)), "migrations/%s" % f
            for m in re.finditer(r"alter\s+table[^;]*idempotency_key[^;]*;", text, re.S | re.I):
                facts["other_mentions_in_migrations"].append("migrations/%s: %s" % (f, " ".join(m.group(0).split())[:200]))
    except OSError as ex:
        facts["error"] = str(ex)
    try:
        go = open(os.path.join(REPO, "internal/storage/ledgerstore/logs.go"), errors="replace").read()
        t = re.search(r'bun:"idempotency_key,[^"]*type:varchar\((\d+)\)', go)
        if t:
            facts["struct_tag"], facts["struct_tag_source"] = int(t.group(1)), "ledgerstore/logs.go (type Logs)"
    except OSError as ex:
        facts["error"] = str(ex)
    facts["agree"] = facts["schema"] is not None and facts["schema"] == facts["struct_tag"]
    return facts


def key_bucket(k, width):
    n = len(k)
    if n == 0:
        return "none"
    w = width or 255
    return ("1" if n == 1 else "2-36" if n <= 36 else "37-%d" % (w - 1) if n < w else "%d (the column's width)" % w if n == w
            else "%d" % (w + 1) if n == w + 1 else "%d and more" % (w + 2))


# ---------------------------------------------------------------- counters

def strings_of_meta(spec):
    out = []

    def md(m):
        if isinstance(m, dict):
            for k2, v2 in m.items():
                out.append(k2)
                if isinstance(v2, str):
                    out.append(v2)
    md(spec.get("md"))
    if isinstance(spec.get("tx"), dict):
        md(spec["tx"].get("md"))
    if isinstance(spec.get("am"), dict):
        for a, m in spec["am"].items():
            out.append(a)
            md(m)
    return out


def features(spec):
    tx = spec.get("tx") if isinstance(spec.get("tx"), dict) else None
    postings = (tx or {}).get("postings") or []
    t = spec.get("type")
    if t in ("NEW_TRANSACTION", "REVERTED_TRANSACTION"):
        nonempty = bool(postings) or bool((tx or {}).get("md"))
    elif t == "SET_METADATA":
        nonempty = bool(spec.get("md"))
    else:
        nonempty = bool(spec.get("key"))
    f = set()
    if tx and not tx["ts"].endswith("Z"):
        f.add("offset")
    if tx and re.search(r"[.,]\d{7,}", tx["ts"]):
        f.add("sub-us")
    nums = [p["amt"] for p in postings] + [x for x in (spec.get("txid"), spec.get("rid"), (tx or {}).get("id")) if x is not None]
    if any(abs(int(x)) >= TWO64 for x in nums):
        f.add("big")
    ss = strings_of_meta(spec)
    if any(any(ord(c) > 127 for c in s) for s in ss):
        f.add("non-ascii")
    if any(any(c in "<>&" for c in s) for s in ss):
        f.add("html")
    nontrivial = nonempty and bool(f & {"offset", "big", "non-ascii", "html"})
    return nonempty, f, nontrivial


# ---------------------------------------------------------------- minimisation: one log is enough for every per-entry class

def minimise(ctx, inp, sig, idx):
    if inp["kind"] != "chain" or idx is None:
        return inp
    cand = {"kind": "chain", "logs": [inp["logs"][idx]], "id": 0}
    f_in, f_out = ctx.path("min.in.jsonl"), ctx.path("min.out.jsonl")
    write_jsonl(f_in, [cand])
    p = run_harness([AREA, "exec", "-in", f_in, "-out", f_out], timeout=120)
    if p.returncode != 0:
        return inp
    out = read_jsonl(f_out)[0]["out"]
    if any(canon(s) == canon(sig) for s, _, _ in oracle(cand, out)):
        cand.pop("id")
        return cand
    return inp


def run(ctx):
    ctx.cov["trusted_base"] = [
        "Lean 4.33 kernel; axioms allowed: propext, Classical.choice, Quot.sound",
        "Model/Log/* is hand-written from internal/{log,time,transaction,posting}.go, ledgerstore/logs.go and Go 1.23 encoding/json, time, encoding/base64; "
        "tied to the code by the differential only (trees, bytes, hashes)",
        "harness/logrt.go: builds logs with the repo's constructors, canonical dump of Go values, recover() around the code under test",
        "harness/logstore.go: the logs table behind the real ledgerstore.Store (records the COPY arguments of InsertLogs, hands rows back the way PostgreSQL + "
        "lib/pq would for the column types of 0-init-schema.sql, evaluates `SELECT * FROM logs WHERE (col = 'literal' | id <= n) [AND …] ORDER BY id desc|asc LIMIT n`, nothing else)",
        "from-scratch SHA-256 in Lean, compared with crypto/sha256 on random inputs of every padding-boundary length on each run",
        "TZ=UTC for the harness process; PostgreSQL (jsonb / timestamp / varchar(n)) not executed",
    ]
    ctx.l1()
    if not (ctx.ensure_driver() and ctx.ensure_harness()):
        return
    # entries written by the real Commander under concurrency: the row ledgerstore.Store.InsertLogs would write (encoded when the
    # entry reaches the store) must read back, through Logs.ToCore, to an entry that re-hashes to its stored hash
    replay_area = None
    if ctx.replay_file:
        replay_area = (json.load(open(ctx.replay_file)).get("replay") or {}).get("area")
    if replay_area in (None, "engine"):
        from checks import enginelib
        er = enginelib.run_engine(ctx, 60 if ctx.quick else 600)
        if er is not None:
            e_inputs, e_impl, _ = er
            e_runs, _ = enginelib.evaluate(ctx, "C13", e_inputs, e_impl, lambda scn, run: False)
            stored = sum(1 for scn in e_inputs for run in e_impl.get(scn["id"], {}).get("runs", []) for l in run.get("durable", []) if "stored_ok" in l)
            width = key_column_facts()["schema"]
            bykey = {}
            for scn in e_inputs:
                for run in e_impl.get(scn["id"], {}).get("runs", []):
                    for l in run.get("durable", []):
                        if "stored_ok" in l:
                            bump(bykey, key_bucket(l.get("ik") or "", width))
            ctx.cov["entries_written_by_the_commander"] = {"runs": e_runs, "stored_rows_read_back_and_rehashed": stored,
                                                           "by_idempotency_key_length_in_characters": bykey,
                                                           "rule": "engine scenarios under the deterministic scheduler (requests overlapping between commit and InsertLogs, "
                                                                   "restarts, store failures); every durable entry is written by the REAL ledgerstore.Store.InsertLogs "
                                                                   "(one call per batch, at the moment the batch reaches the store) into a table that records the COPY "
                                                                   "arguments, read back as a SELECT hands the row over (Logs.ToCore), compared field by field with the entry "
                                                                   "handed in and re-hashed over the previous row; in one scenario out of five the idempotency keys are 255, "
                                                                   "256 or 300 characters long"}
        if replay_area == "engine":
            ctx.cov["evaluations"] = ctx.cov.get("entries_written_by_the_commander", {}).get("stored_rows_read_back_and_rehashed", 0)
            return
    n = 1200 if ctx.quick else 6000
    r = pipeline(ctx, AREA, n, timeout=3000)
    if r is None:
        return
    inputs, impl, model = r
    kinds = {}
    for inp in inputs:
        kinds.setdefault(inp["kind"], []).append(inp)
    chains = kinds.get("chain", [])

    def per_entry(f):
        return lambda i, o: [f(e) for e in entries(o)] if "entries" in (o or {}) else o

    # L2 — the model computes the same as the code, stream by stream
    compare(ctx, "logrt:log-as-built (ParseTime of the API text, ids, hashes of ChainLog)", chains, impl, model,
            per_entry(lambda e: e.get("dump", e)), per_entry(lambda e: e.get("dump", e)))
    compare(ctx, "logrt:marshalled-bytes", chains, impl, model, per_entry(lambda e: e.get("bytes")), per_entry(lambda e: e.get("bytes")))
    compare(ctx, "logrt:chain-hash+id", chains, impl, model, per_entry(lambda e: [e.get("hash"), e.get("id")]), per_entry(lambda e: [e.get("hash"), e.get("id")]))
    compare(ctx, "logrt:unmarshal", chains, impl, model, per_entry(lambda e: cls(e.get("dec"))), per_entry(lambda e: cls(e.get("dec"))))
    compare(ctx, "logrt:rehash-after-roundtrip", chains, impl, model,
            per_entry(lambda e: [e.get("rehash"), e.get("reid"), e.get("remarshal_same")]),
            per_entry(lambda e: [e.get("rehash"), e.get("reid"), e.get("remarshal_same")]))
    # `row` on the implementation's side: the arguments the real InsertLogs passed to the database (cols, data) and Logs.ToCore of the row
    # a SELECT hands back; on the model's side: toRow / toCore of Model/Log/Encode.lean (the key is kept AS IT IS)
    compare(ctx, "logrt:store-row+ToCore", chains, impl, model, per_entry(lambda e: rowcls(e.get("row"))), per_entry(lambda e: rowcls(e.get("row"))))
    compare(ctx, "logrt:store-row-through-jsonb+ToCore", chains, impl, model, per_entry(lambda e: rowcls(e.get("row_jsonb"))), per_entry(lambda e: rowcls(e.get("row_jsonb"))))
    compare(ctx, "logrt:ParseTime/Format/UTC", kinds.get("time", []), impl, model)
    compare(ctx, "logrt:sha256", kinds.get("sha", []), impl, model)
    raws = kinds.get("raw", [])
    modelled = [i for i in raws if "unmodelled" not in (model.get(i["id"]) or {})]
    compare(ctx, "logrt:unmarshal-foreign-json", modelled, impl, model, lambda i, o: cls(o), lambda i, o: cls(o))
    ctx.cov["foreign_json_unmodelled"] = len(raws) - len(modelled)
    # excluded point, observed on the real code only (a Lean string cannot hold it): an idempotency key that is not valid
    # UTF-8 (it can only come from the raw HTTP header) is written as the escape \ufffd; the decoded key is U+FFFD, which
    # re-marshals as the raw character, so neither the key nor the recomputed hash agree
    ctx.cov["excluded_points_observed"] = {
        "invalid-utf8-idempotency-key": [dict(impl.get(i["id"]) or {}, hex=i["hex"]) for i in kinds.get("ikbytes", [])],
        # DELETE /{ledger}/accounts/{address}/metadata/{key} with bytes in the path (percent-encoded or raw) through http.ReadRequest and the real
        # v2 router: which bytes reach the backend, and what becomes of a DELETE_METADATA entry written with them (real InsertLogs, row read back)
        "bytes-in-the-path-of-delete-metadata": [dict(impl.get(i["id"]) or {}, sent_hex=i["hex"], position=i.get("pos", "key")) for i in kinds.get("keybytes", [])],
        # legacy rows (sample of internal/storage/testdata/v1-dump.sql) through LogV1.ToLogsV2 + Logs.ToCore: they decode, their hash is the
        # v1 hash kept as hex text, which ChainLog cannot reproduce
        "v1-migrated-rows": [impl.get(i["id"]) for i in kinds.get("v1", [])]}

    # a DELETE of a metadata key through the real router with raw / percent-encoded bytes in the path: whatever the API ACCEPTS becomes a
    # log entry, and that entry must read back as written and re-hash (C13 has no exception for what came in through a path)
    for i in kinds.get("keybytes", []):
        o = impl.get(i["id"]) or {}
        if o.get("reached_backend") and (o.get("read_back_same") is False or o.get("rehash_same") is False):
            ctx.violation({"property": "C13", "class": "entry-not-readable-back", "cause": "bytes-in-the-path", "position": i.get("pos", "key"),
                           "valid_utf8_at_backend": bool(o.get("at_backend_valid_utf8"))},
                          "DELETE …/metadata/{key} with the bytes %s as %s answers %s and writes a DELETE_METADATA entry that does not read back as written "
                          "(stored %s, read back %s) — its recomputed hash %s the stored one" % (
                              i["hex"], i.get("pos", "key"), o.get("status"), o.get("at_backend_hex"), o.get("read_back_hex"),
                              "equals" if o.get("rehash_same") else "differs from"),
                          {"area": "logrt", "input": {k: v for k, v in i.items() if k not in ("id", "corpus")}, "observed": o})

    # L3 — the property itself on the implementation's outputs
    seen, nontrivial, n_entries, n_refused = set(), 0, 0, 0
    dist = {"log": {}, "chain_length": {}, "features": {}, "decode": {}, "time_cases": {"accepted": 0, "refused": 0},
            "idempotency_key_length_in_characters": {}, "idempotency_key_multi_byte": 0, "idempotency_key_with_quote_backslash_or_control": 0,
            "entries_per_InsertLogs_call": {}, "read_through_the_store": {"GetLastLog": 0, "ReadLogWithIdempotencyKey": 0, "GetLogs": 0, "skipped (NUL in the key)": 0}}
    facts = key_column_facts()
    first_of_sig = {}
    for inp in inputs:
        out = impl.get(inp["id"])
        if out is None:
            continue
        for sig, what, idx in oracle(inp, out):
            sig = dict(sig, property="C13")
            key = canon(sig)
            if key not in first_of_sig:
                first_of_sig[key] = True
                rin = minimise(ctx, inp, {k: v for k, v in sig.items() if k != "property"}, idx)
            else:
                rin = {"kind": "chain", "logs": [inp["logs"][idx]]} if (inp["kind"] == "chain" and idx is not None) else inp
            rin = {k: v for k, v in rin.items() if k not in ("id", "corpus")}
            ctx.violation(sig, what, {"area": AREA, "input": rin,
                                      "how": "bin/check C13 --replay <this file>  (harness: verifharness logrt exec on the input line)"})
        if inp["kind"] == "chain":
            L = len(inp["logs"])
            b = "1" if L == 1 else "2-5" if L <= 5 else "6-20" if L <= 20 else "21-50"
            dist["chain_length"][b] = dist["chain_length"].get(b, 0) + 1
            left = sum(1 for e in entries(out) if "input_error" not in e)
            for size in (inp.get("batches") or []) + [1] * L:
                if left <= 0:
                    break
                bump(dist["entries_per_InsertLogs_call"], str(min(size, left)))
                left -= size
            for spec, e in zip(inp["logs"], entries(out)):
                n_entries += 1
                if "input_error" in e:
                    n_refused += 1
                    continue
                k = spec["type"] + ("/" + spec["tt"] if spec.get("tt") else "") + ("/excluded:" + spec["excluded"] if spec.get("excluded") else "")
                dist["log"][k] = dist["log"].get(k, 0) + 1
                ik = spec.get("ik") or ""
                bump(dist["idempotency_key_length_in_characters"], key_bucket(ik, facts["schema"]))
                dist["idempotency_key_multi_byte"] += any(ord(ch) > 127 for ch in ik)
                dist["idempotency_key_with_quote_backslash_or_control"] += any(ch in "'\"\\" or ord(ch) < 32 or ord(ch) == 127 for ch in ik)
                for rk, name in (("last", "GetLastLog"), ("bykey", "ReadLogWithIdempotencyKey"), ("listed", "GetLogs")):
                    if rk in e:
                        bump(dist["read_through_the_store"], ("skipped (NUL in the key)" if rk == "bykey" else "skipped (GetLogs: excluded entry in the chain)") if "skipped" in e[rk] else name)
                dk = "ok" if "ok" in e.get("dec", {}) else "error" if "error" in e.get("dec", {}) else "panic"
                dist["decode"][dk] = dist["decode"].get(dk, 0) + 1
                nonempty, f, nt = features(spec)
                for x in f:
                    dist["features"][x] = dist["features"].get(x, 0) + 1
                h = shash({k2: v2 for k2, v2 in spec.items()})
                if nt and h not in seen:
                    nontrivial += 1
                seen.add(h)
        elif inp["kind"] == "time":
            dist["time_cases"]["accepted" if "ok" in out else "refused"] += 1
    ctx.cov["evaluations"] = (n_entries + len(kinds.get("time", [])) + len(kinds.get("sha", [])) + len(raws) +
                              ctx.cov.get("entries_written_by_the_commander", {}).get("stored_rows_read_back_and_rehashed", 0))
    ctx.cov["log_entries"] = n_entries
    ctx.cov["log_entries_refused_at_input"] = n_refused
    ctx.cov["chains"] = len(chains)
    ctx.cov["distinct_log_entries"] = len(seen)
    ctx.cov["distinct_nontrivial"] = nontrivial
    ctx.cov["rule"] = ("seeded chains of 1..50 logs over the four log types x both target types (timestamps as API text: offsets, 0..12 fraction digits, "
                       "rounding carries; amounts up to 2^128; nil/empty/unicode/HTML/control-character metadata, references, idempotency keys; keys of 1 to 1000 characters around the width of the column, "
                       "multi-byte, with quotes / backslashes / control characters; the entries handed to the real InsertLogs one by one or in batches), plus "
                       "ParseTime cases (valid and damaged), SHA-256 inputs of every padding boundary and foreign JSON texts; evaluations = log entries + "
                       "time + sha + foreign cases; non-trivial = distinct log entry (by content) whose payload is non-empty (postings or metadata / key) "
                       "and that has a non-UTC transaction timestamp, or a number >= 2^64, or non-ASCII or HTML-sensitive (<>&) metadata")
    ctx.cov["input_distribution"] = dist
    if not facts["agree"]:
        ctx.cov.setdefault("observations", []).append(
            "the width of logs.idempotency_key is varchar(%s) in the schema (%s) and varchar(%s) in the bun tag of ledgerstore.Logs: the two disagree. The tag is "
            "only used when bun creates a table (never for `logs`: the migrations do), so the schema's width is the one in force. Not a violation of C13."
            % (facts["schema"], facts["schema_source"], facts["struct_tag"]))
    sample = [i for i in chains if len(i["logs"]) <= 2][:2] + kinds.get("time", [])[1:3]
    ctx.cov["samples"] = [{"input": i, "impl": json.loads(canon(impl.get(i["id"])))} for i in sample]
    ctx.cov["idempotency_key_column"] = dict(facts, note="read from the sources of this run; PostgreSQL is not executed, the table of the harness keeps a key of any length")
    ctx.assumptions += [
        "a key longer than the idempotency_key column (varchar(%s) in %s; the bun tag of the Go row type says varchar(%s)) is refused by PostgreSQL "
        "('value too long for type character varying'): InsertLogs fails and no such entry is ever stored. NOT EXECUTED HERE: the table of the harness keeps "
        "a key of any length, and the code is held to: what InsertLogs hands to the database is exactly the entry that was hashed (longer keys included: "
        "coverage.input_distribution.idempotency_key_length_in_characters)" % (facts["schema"], facts["schema_source"], facts["struct_tag"]),
        "strings are valid UTF-8 (Lean strings are Unicode scalar sequences). The API guarantees it: everything that comes out of a JSON body is valid "
        "after decoding, addresses and assets are validated, and the path parameters of DELETE …/metadata/{key} — the only percent-decoded bytes that "
        "used to reach the commander unchecked (…/metadata/a%FF was answered 204 and wrote an entry that could not be re-verified: repaired by the fix "
        "commit recorded as F35) — are now refused when they are not text. The harness sends such bytes through http.ReadRequest + the real v2 router on "
        "every run (kind keybytes) and this check counts an accepted one whose entry does not read back as a violation",
        "transaction ids in set/delete-metadata targets are in [0, 2^64): ids are allocated sequentially from 0 (the excluded points 2^64, 2^70, -1 are "
        "run on the real code: ParseUint error, as the model predicts; not counted as violations)",
        "every ledger.Time the engine handles is UTC on a microsecond: Now() and ParseTime produce nothing else (accepted_wf), so Logs.ToCore's "
        "conversion of the log date to UTC is the identity; a log date given as text with an offset goes through ParseTime like a transaction timestamp "
        "and is covered (no longer an excluded point)",
        "an idempotency key that is not valid UTF-8 (possible through the raw Idempotency-Key header; the other non-JSON strings are the path parameters, see above) is outside the model: encoding/json writes the escape \\ufffd for the bad bytes, the decoded key is U+FFFD and "
        "re-marshals differently, so key and recomputed hash both differ (observed on each run: coverage.excluded_points_observed). Not counted as a "
        "violation: a UTF-8 PostgreSQL database refuses such a varchar, InsertLogs fails and no such log is ever stored (not executable here)",
        "entries copied by the v1->v2 migration (migrations_v1.go: LogV1.ToLogsV2) are outside: they were hashed by the v1 engine and keep that hash "
        "as hex text; they decode (observed on each run) but can by construction not be re-verified with ChainLog. C13 covers entries written by the "
        "v2 engine (constructors of internal/log.go -> ChainLog -> InsertLogs)",
        "harness process runs in UTC; PostgreSQL's jsonb/timestamptz normalisation is not executed (decoder is key-order independent, dates are microsecond UTC)",
    ]
