"""C03 — a send moves exactly what it says."""
from checks.numlib import *

META = {
    "text": "Lean theorems about the funding algebra every send is built from (take_exact, take_iff_covered, max_respected, concat_conserves, "
            "portions_sum, portions_shape — unbounded amounts, any number of parts/portions); Spec is tied to compiler+VM by the end-to-end differential; "
            "an independent oracle checks non-negativity and exactness of single-send scripts on the implementation's postings.",
    "note": "Trusted: Lean kernel (+ Mathlib's linarith/nlinarith for the portion arithmetic); Spec; harness pretty-printer. The lift of the algebraic laws "
            "through Spec.evalSource/evalDest (send_exact) is in progress.",
    "technique": "Lean 4 proof (induction over fundings; nlinarith for floors) + differential correspondence + exactness oracle",
    "design_ref": "5 (C03), 3.1",
}


def run(ctx):
    ctx.cov["trusted_base"] = TRUSTED
    ctx.l1()
    r = run_numscript(ctx, 1500 if ctx.quick else 60000)
    if r is None:
        return
    inputs, impl, model = r
    compare(ctx, "numscript:spec-vs-vm", inputs, impl, model, proj_impl=lambda i, o: strip(o))
    seen, nontrivial = set(), 0
    for inp in inputs:
        out = impl.get(inp["id"], {})
        if "postings" not in out:
            continue
        for n, p in enumerate(out["postings"]):
            if int(p[2]) < 0:
                ctx.violation({"property": "C03", "class": "negative-posting"}, "posting %d is negative" % n,
                              {"area": "numscript", "input": inp, "observed": out})
        sends = [s for s in inp["ast"]["stmts"] if s["k"] == "send"]
        if len(sends) == 1 and sends[0]["amt"]["k"] == "mon":
            env, bal, acct_of, asset_of = resolve_env(inp)
            m = eval_mon(sends[0]["amt"]["e"], env, asset_of)
            tot = sum(int(p[2]) for p in out["postings"])
            if m is not None:
                if tot > m[1]:
                    ctx.violation({"property": "C03", "class": "more-than-stated"}, "send of %d moved %d" % (m[1], tot),
                                  {"area": "numscript", "input": inp, "observed": out})
                elif not has_kept(sends[0]["dst"]) and tot != m[1]:
                    ctx.violation({"property": "C03", "class": "not-exact", "src": sends[0]["src"]["k"]},
                                  "send of %d without `kept` moved %d" % (m[1], tot),
                                  {"area": "numscript", "input": inp, "observed": out})
        f = features(inp)
        h = shash(inp["text"] + canon(inp["bal"]))
        if h not in seen and ({"src-inorder", "src-allot", "src-max", "dst-inorder", "dst-allot"} & f):
            nontrivial += 1
        seen.add(h)
    ctx.cov["evaluations"] = len(inputs)
    ctx.cov["distinct_nontrivial"] = nontrivial
    ctx.cov["rule"] = "same generator as C01; non-trivial = distinct accepted case whose send has several sources or destinations or a cap"
    ctx.cov["samples"] = [{"text": i["text"], "impl": impl.get(i["id"])} for i in inputs[:2]]
    ctx.cov["input_distribution"] = distribution(inputs, impl)
