"""C03 — a send moves exactly what it says."""
from checks.numlib import *

META = {
    "text": "Lean theorems on Model.Numscript.Spec: send_exact (the postings of `send [A n]` are non-negative, in asset A, and add up to n minus what the "
            "destination keeps), send_exact_allot / send_exact_allot_checked (source allotments: every source delivers its share allocate(ps,n); the shares add up "
            "to n for every accepted portion list — portions_of_checked, portions_of_remaining), send_all_exact (`send [A *]`: everything the sources provide "
            "minus kept; send_all_asset: the asset moved is that of a source occurrence — the overdraft clause's asset wins over the named one), dest_conserves "
            "(+ kept-or-dest, caps, allotment: emitted + handed back = received), dest_cap_respected, takeFromSource_exact, source_cap_respected "
            "(max m from s gives min(m, s); exactly m over an unbounded source), postings_nonneg for whole runs, ordered_sources_drain (a later part is "
            "touched only when all earlier parts are taken in full), on top of the funding algebra (take_exact, take_iff_covered, max_respected, "
            "concat_conserves, portions_sum, portions_shape; allocate_sum_any: no sign condition). Spec is tied to compiler+VM by the end-to-end differential; "
            "independent oracles on the implementation's postings: non-negativity and exactness of single-send scripts (portions with fractional percents, "
            "denominators up to 10^4, totals at / next to 100 %, amounts up to 2^70), and the ordering clause (ordered-sources / ordered-destinations / "
            "kept-amount / send-all-not-exact: EVERY send of a script of sends is judged on its own postings and on the balances at that point of the "
            "script — stored balances plus the postings of the earlier statements —: over an ordered, possibly nested list of plain / capped / "
            "bounded-overdraft sources in one asset, ending with @world or an unbounded overdraft or not, every leaf gives all it can before the next one "
            "gives anything, the same account at two non-adjacent places included; an ordered destination with `max … kept` / `remaining kept` entries, "
            "nested at will, sends the FIRST units of the funding in entry order and keeps the stated amount off its END, so the latest sources keep "
            "theirs; `send [A *]` moves exactly what its sources hold at that point; all computed in Python from the balances), and the portion clause "
            "(portion-shares: in a single send whose destination — resp. source — is an allotment of plain entries and whose portions can be "
            "evaluated from the input alone — literals n/d and x.y%, portion variables of the request, portions read from stored metadata, "
            "remaining — every entry receives / gives floor(n*p) plus one of the leftover units for the earliest entries, computed with Python "
            "integers and Fractions from the TEXT of the percentages (2.05% = 205/10000), compared with the postings per account; the generator "
            "aims at amounts below 2^63 whose product with a reduced numerator > 1 is not, and at percentages with zeros right after the point).",
    "note": "Trusted: Lean kernel (+ Mathlib's linarith/nlinarith/ring1 for the portion arithmetic); Spec; harness pretty-printer. Theorems are about Spec; the lift "
            "to the bytecode VM rests on the differential (until C08's compile_correct). send_exact_allot needs positive portion denominators (the AST "
            "admits a zero denominator the parser never builds).",
    "technique": "Lean 4 proof (induction over fundings, mutual structural recursion over the Spec interpreter; nlinarith for floors) + differential correspondence + exactness oracle",
    "design_ref": "5 (C03), 3.1",
}


def verdicts(inp, out, exact=None, ordst=None, shst=None):
    """the C03 oracles on one accepted outcome: [(signature, what)]"""
    v = []
    if "postings" not in out:
        return v
    exact = collections.Counter() if exact is None else exact
    # portion clause, on the postings alone: every entry of an allotment gets / gives the floored fraction the text states
    for side, what in portion_shares_verdicts(inp, out, shst):
        v.append(({"property": "C03", "class": "portion-shares", "side": side}, what))
    for n, p in enumerate(out["postings"]):
        if int(p[2]) < 0:
            v.append(({"property": "C03", "class": "negative-posting"}, "posting %d is negative" % n))
    # ordering clause, on the postings alone (no Lean model involved)
    for keys, w in ordered_verdicts(inp, out, ordst):
        v.append((dict({"property": "C03"}, **keys), w))
    sends = [s for s in inp["ast"]["stmts"] if s["k"] == "send"]
    # a send moves the asset it names: with only sends in the script, every posting's asset is one of the stated ones
    if sends and all(s["k"] != "fail" for s in inp["ast"]["stmts"]):
        env0, _, _, asset_of0 = resolve_env(inp)
        stated = set()
        for s in sends:
            if s["amt"]["k"] == "all":
                stated.add(asset_of0(s["amt"]["asset"]))
            else:
                m0 = eval_mon(s["amt"]["e"], env0, asset_of0)
                stated.add(m0[0] if m0 else None)
        if None not in stated:
            odd = [p for p in out["postings"] if p[3] not in stated]
            if odd:
                alls = any(s["amt"]["k"] == "all" for s in sends)
                v.append(({"property": "C03", "class": "asset-differs",
                           "construct": "send-all+overdraft-in-other-asset" if alls and "od-upto" in features(inp) else "other"},
                          "a posting moves %s although the sends name %s" % (odd[0][3], sorted(stated))))
    if len(sends) == 1 and sends[0]["amt"]["k"] == "mon":
        env, bal, acct_of, asset_of = resolve_env(inp)
        m = eval_mon(sends[0]["amt"]["e"], env, asset_of)
        tot = sum(int(p[2]) for p in out["postings"])
        if m is not None:
            exact["single_send_evaluated"] += 1
            if '"allot"' in canon(sends[0]):
                exact["with_portions"] += 1
                exact["with_portions_amount_ge_1e6"] += 1 if m[1] >= 10 ** 6 else 0
            if tot > m[1]:
                v.append(({"property": "C03", "class": "more-than-stated"}, "send of %d moved %d" % (m[1], tot)))
            elif not has_kept(sends[0]["dst"]) and tot != m[1]:
                v.append(({"property": "C03", "class": "not-exact", "src": sends[0]["src"]["k"]},
                          "send of %d without `kept` moved %d" % (m[1], tot)))
    return v


def run(ctx):
    ctx.cov["trusted_base"] = TRUSTED
    ctx.l1()
    r = run_numscript(ctx, 2500 if ctx.quick else 60000)
    if r is None:
        return
    inputs, impl, model = r
    compare(ctx, "numscript:spec-vs-vm", inputs, impl, model, proj_impl=lambda i, o: strip(o))
    seen, nontrivial = set(), 0
    exact, ordst, shst = collections.Counter(), collections.Counter(), collections.Counter()
    rp = Replays(ctx, inputs)   # a replay is the case alone when that shows the violation, else (earlier case of the process, case)
    for inp in inputs:
        out = impl.get(inp["id"], {})
        if "postings" not in out:
            continue
        for sig, what in verdicts(inp, out, exact, ordst, shst):
            rp.violation(sig, what, inp, out, lambda o, inp=inp, sig=sig: any(s == sig for s, _ in verdicts(inp, o)))
        f = features(inp)
        h = shash(inp["text"] + canon(inp["bal"]))
        if h not in seen and ({"src-inorder", "src-allot", "src-max", "dst-inorder", "dst-allot"} & f):
            nontrivial += 1
        seen.add(h)
    ctx.cov["ordered_sources_oracle"] = dict(ordst)
    ctx.cov["portion_shares_oracle"] = dict(shst)
    ctx.cov["replay_isolation"] = dict(rp.stats)
    ctx.cov["exactness_oracle"] = dict(exact)
    ctx.cov["focused_shapes"] = focus_stats(inputs, impl)
    ctx.cov["evaluations"] = len(inputs)
    ctx.cov["distinct_nontrivial"] = nontrivial
    ctx.cov["rule"] = "same generator as C01; non-trivial = distinct accepted case whose send has several sources or destinations or a cap"
    ctx.cov["samples"] = [{"text": i["text"], "impl": impl.get(i["id"])} for i in inputs[:2]]
    ctx.cov["input_distribution"] = distribution(inputs, impl)
